/-
  C11 (traces, terminal files) — `ptb_delete_traces` at the top level: which tokens are left and how they
  show (sentence), numbering without holes, pruning, which trace tokens may remain, what the constituent
  labels are; and the terminal files of `substitute_terminals` / `insert_terminals`: a duplicate index is
  rejected, other sentence ids are ignored, the requests of a sentence are its lines sorted by index.
  Then the remaining rows of the C11 audit: `substitute_terminals` / `insert_terminals` position by position,
  requests outside the sentence, exactly which constituents `delete_terminal` / `punctuation_delete` prune,
  the root.  (The `slash` branch is in TT/Props/C11Slash.lean.)  Helper lemmas: TT/Lemmas/More12d.lean;
  specification-side definitions: TT/Spec/More12d.lean.
-/
import TT.Spec.More12d
import TT.Lemmas.More12d
import TT.Props.C11
import TT.Props.C11More
namespace TT.Props.C11Traces
open TT TT.Tree TT.Spec TT.Lemmas.WF TT.Lemmas.Edit TT.Lemmas.More12d

/-! ## example trees -/

/-- `exTr` of C11 with decorated labels: a co-indexed filler `WHNP-1`, a gap-indexed `NP=2`, a kept-able
    trace `*T*-1` below `NP-SBJ-3` and a bare `*` trace that is the only token of its constituent chain
    `X > Y`; stored out of order -/
def exD : Tree :=
  node { label := "S".toList } [
    leaf 6 { label := ".".toList, word := some ".".toList },
    node { label := "WHNP-1".toList } [leaf 1 { label := "WP".toList, word := some "who".toList }],
    node { label := "VP".toList } [
      node { label := "X".toList } [node { label := "Y-4".toList } [
        leaf 4 { label := "-NONE-".toList, word := some "*".toList }]],
      leaf 2 { label := "V".toList, word := some "saw".toList },
      node { label := "NP-SBJ-3".toList } [leaf 3 { label := "-NONE-".toList, word := some "*T*-1".toList }],
      node { label := "NP=2".toList } [leaf 5 { label := "N".toList, word := some "it".toList }]]]

/-- only traces -/
def exOnly : Tree :=
  node { label := "S".toList } [
    node { label := "NP".toList } [leaf 1 { label := "-NONE-".toList, word := some "*".toList }],
    leaf 2 { label := "-NONE-".toList, word := some "*U*".toList }]

example : WF exD = true ∧ WF exOnly = true := by decide

/-! ## 1e: the tokens after trace deletion -/

/-- the sentence of the result is the input sentence with every trace token shown as (`-NONE-`, cleaned
    trace label), minus the positions of the traces that are not kept: every other token keeps its word,
    POS and relative order -/
theorem traces_sentence (o : TraceOpts) (t : Tree) (h : WF t = true) :
    (ptbDeleteTraces o t).sentence =
      dropPositions (t.terminals.map (traceTok o)) (tracePositions o t) :=
  (traces_tokens o t (Numbered_of_WF t h)).2.2

example : (ptbDeleteTraces {} exD).sentence =
      [(some "who".toList, "WP".toList), (some "saw".toList, "V".toList), (some "it".toList, "N".toList),
       (some ".".toList, ".".toList)] ∧
    tracePositions {} exD = [3, 4] ∧
    tracePositions { keep := ["*T*".toList] } exD = [4] ∧
    (ptbDeleteTraces { keep := ["*T*".toList] } exD).sentence =
      [(some "who".toList, "WP".toList), (some "saw".toList, "V".toList),
       (some "-NONE-".toList, "*T*".toList), (some "it".toList, "N".toList),
       (some ".".toList, ".".toList)] ∧
    (ptbDeleteTraces { keepall := true, keepcoindex := true } exD).sentence.map (·.2) =
      ["WP", "V", "*T*-1", "*", "N", "."].map String.toList := by decide

/-- the same, as a selection: the tokens that are not deleted traces, in order -/
theorem traces_sentence_select (o : TraceOpts) (t : Tree) (h : WF t = true) :
    (ptbDeleteTraces o t).sentence =
      (t.terminals.filter (fun l => !(l.fields.label == NONE_POS &&
          !(o.keepall || o.keep.contains (traceLabel o (l.fields.word.getD [])))))).map (traceTok o) :=
  traces_sentence_filter o t (Numbered_of_WF t h)

/-! ## 2d: numbering -/

/-- the remaining tokens are numbered `1..n` without holes (and the root is still a constituent) -/
theorem traces_numbered (o : TraceOpts) (t : Tree) (h : WF t = true) :
    (ptbDeleteTraces o t).isLeaf = false ∧
    (ptbDeleteTraces o t).yield = List.range' 1 (ptbDeleteTraces o t).leafNums.length :=
  (traces_tokens o t (Numbered_of_WF t h)).1

example : (ptbDeleteTraces {} exD).yield = [1, 2, 3, 4] ∧ (ptbDeleteTraces {} exD).leafNums = [4, 1, 2, 3] := by
  decide

/-! ## 3c: pruning -/

/-- constituents left without tokens are pruned: no childless constituent below the root -/
theorem traces_belowOK (o : TraceOpts) (t : Tree) (h : WF t = true) :
    belowOK (ptbDeleteTraces o t) = true :=
  (traces_tokens o t (Numbered_of_WF t h)).2.1 (belowOK_of_noEmpty t (WF_noEmpty t h))

/-- the chain `X > Y-4` over the `*` trace and `NP-SBJ-3` over `*T*-1` are gone -/
example : consLabels (ptbDeleteTraces {} exD) = ["S", "WHNP", "VP", "NP"].map String.toList := by decide

/-- the root is the exception: a sentence of traces only leaves a childless root -/
example : (ptbDeleteTraces {} exOnly).beq (node { label := "S".toList } []) = true ∧
    belowOK (ptbDeleteTraces {} exOnly) = true ∧ (ptbDeleteTraces {} exOnly).noEmpty = false := by decide

/-- all three together (the "most valuable missing theorem" of the audit) -/
theorem traces_tokens_all (o : TraceOpts) (t : Tree) (h : WF t = true) :
    (ptbDeleteTraces o t).sentence = dropPositions (t.terminals.map (traceTok o)) (tracePositions o t) ∧
    (ptbDeleteTraces o t).yield = List.range' 1 (ptbDeleteTraces o t).leafNums.length ∧
    belowOK (ptbDeleteTraces o t) = true :=
  ⟨traces_sentence o t h, (traces_numbered o t h).2, traces_belowOK o t h⟩

/-- when a token is left the result is a well-formed tree again -/
theorem traces_WF (o : TraceOpts) (t : Tree) (h : WF t = true)
    (hpos : (tracePositions o t).length < t.leafNums.length) : WF (ptbDeleteTraces o t) = true := by
  refine WF_of_numbered _ (traces_tokens o t (Numbered_of_WF t h)).1 (traces_belowOK o t h) ?_
  rw [TT.Props.C11.traces_leafCount o t h]; omega

example : (tracePositions {} exD).length < exD.leafNums.length ∧ WF (ptbDeleteTraces {} exD) = true := by decide

/-- the hypothesis is needed: nothing but traces -/
example : (tracePositions {} exOnly).length = exOnly.leafNums.length ∧ WF (ptbDeleteTraces {} exOnly) = false := by
  decide

/-! ## 7: no trace token remains unless kept on request -/

/-- every token of the result is an input token that is not a trace (unchanged), or a trace that was
    asked for (all of them, or its cleaned label is in the keep list), shown as (`-NONE-`, cleaned label) -/
theorem traces_only_kept (o : TraceOpts) (t : Tree) (h : WF t = true) :
    ∀ tk ∈ (ptbDeleteTraces o t).sentence,
      (tk ∈ t.sentence ∧ tk.2 ≠ NONE_POS) ∨
      (∃ l ∈ t.terminals, l.fields.label = NONE_POS ∧
        tk = (some NONE_POS, traceLabel o (l.fields.word.getD [])) ∧
        (o.keepall = true ∨ traceLabel o (l.fields.word.getD []) ∈ o.keep)) := by
  intro tk htk
  rw [traces_sentence_select o t h] at htk
  obtain ⟨l, hl, rfl⟩ := List.mem_map.1 htk
  obtain ⟨hl1, hl2⟩ := List.mem_filter.1 hl
  by_cases hlab : l.fields.label = NONE_POS
  · right
    refine ⟨l, hl1, hlab, by simp [traceTok, hlab], ?_⟩
    simpa [hlab] using hl2
  · left
    have hb : (l.fields.label == NONE_POS) = false := by simpa using hlab
    simp only [traceTok, hb, Bool.false_eq_true, if_false]
    exact ⟨List.mem_map.2 ⟨l, hl1, rfl⟩, hlab⟩

/-- in particular, with nothing asked for no token tagged `-NONE-` is left -/
theorem traces_none_left (t : Tree) (h : WF t = true) :
    ∀ tk ∈ (ptbDeleteTraces {} t).sentence, tk.2 ≠ NONE_POS ∧ tk ∈ t.sentence := by
  intro tk htk
  rcases traces_only_kept {} t h tk htk with ⟨h1, h2⟩ | ⟨l, _, _, _, hk⟩
  · exact ⟨h2, h1⟩
  · rcases hk with hk | hk
    · cases hk
    · simp at hk

example : ∀ tk ∈ (ptbDeleteTraces {} exD).sentence, tk.2 ≠ NONE_POS ∧ tk ∈ exD.sentence :=
  traces_none_left exD (by decide)

/-! ## 8: the constituent labels -/

/-- every constituent of the result that has children carries the cleaned form of a label of the input
    (no hypothesis on the tree) -/
theorem traces_label_source (o : TraceOpts) (t : Tree) :
    ∀ s ∈ (ptbDeleteTraces o t).subtrees, ∀ f k ks, s = node f (k :: ks) →
      ∃ l ∈ consLabels t, f.label = cleanLabel o l :=
  traces_nodes o t

/-- exact form (when a token is left): the constituent labels of the result are the cleaned labels of a
    sub-selection of the input's constituents, in the same order -/
theorem traces_consLabels (o : TraceOpts) (t : Tree) (h : WF t = true)
    (hpos : (tracePositions o t).length < t.leafNums.length) :
    ∃ sub : List Str, sub.Sublist (consLabels t) ∧
      consLabels (ptbDeleteTraces o t) = sub.map (cleanLabel o) :=
  TT.Lemmas.More12d.traces_consLabels o t (Numbered_of_WF t h) (belowOK_of_noEmpty t (WF_noEmpty t h)) hpos

example : consLabels exD = ["S", "WHNP-1", "VP", "X", "Y-4", "NP-SBJ-3", "NP=2"].map String.toList ∧
    consLabels (ptbDeleteTraces {} exD) =
      (["S", "WHNP-1", "VP", "NP=2"].map String.toList).map (cleanLabel {}) ∧
    consLabels (ptbDeleteTraces { keepall := true, keepcoindex := true } exD) =
      ["S", "WHNP-1", "VP", "X", "Y-4", "NP-SBJ-3", "NP"].map String.toList := by decide

/-- no co-index or gap index (unless asked for) remains on the label of any constituent with children, when
    the input labels are in the documented order (`indexFree`) -/
theorem traces_labels (o : TraceOpts) (t : Tree)
    (hl : ∀ l ∈ consLabels t, indexFree o.keepcoindex l = true) :
    ∀ s ∈ (ptbDeleteTraces o t).subtrees, ∀ f k ks, s = node f (k :: ks) →
      noIndexLeft o.keepcoindex f.label = true := by
  intro s hs f k ks e
  obtain ⟨l, hlm, e2⟩ := traces_nodes o t s hs f k ks e
  have hi := hl l hlm
  rw [e2]
  cases hk : o.keepcoindex
  · simp only [indexFree, hk, Bool.false_eq_true, if_false, Bool.false_or, Bool.and_eq_true,
      List.isEmpty_iff] at hi
    exact TT.Props.C11More.cleanLabel_noIndex o l ⟨hi.1.2, hi.2⟩ hk hi.1.1
  · simp only [indexFree, hk, if_true, Bool.true_or, Bool.and_true, Bool.and_eq_true,
      List.isEmpty_iff] at hi
    exact TT.Props.C11More.cleanLabel_noGap_keep o l hi.2 hk hi.1

/-- with WF: stated for the tree the property speaks about -/
theorem traces_labels_WF (o : TraceOpts) (t : Tree) (_h : WF t = true)
    (hl : ∀ l ∈ consLabels t, indexFree o.keepcoindex l = true) :
    ∀ s ∈ (ptbDeleteTraces o t).subtrees, ∀ f k ks, s = node f (k :: ks) →
      noIndexLeft o.keepcoindex f.label = true :=
  traces_labels o t hl

example : (∀ l ∈ consLabels exD, indexFree false l = true) ∧ (∀ l ∈ consLabels exD, indexFree true l = true) := by
  decide

/-- the hypothesis is needed: with stacked indices (`A-1-2-3`) one index is left on a constituent of the
    result -/
example : WF (node { label := "A-1-2-3".toList } [leaf 1 { label := "N".toList, word := some "a".toList }]) = true ∧
    indexFree false "A-1-2-3".toList = false ∧
    consLabels (ptbDeleteTraces {} (node { label := "A-1-2-3".toList }
      [leaf 1 { label := "N".toList, word := some "a".toList }])) = ["A-1-2".toList] ∧
    noIndexLeft false "A-1-2".toList = false := by decide

/-- "with children" is needed: a root left childless keeps its label uncleaned -/
example : consLabels (ptbDeleteTraces {} (node { label := "S-1".toList }
      [leaf 1 { label := "-NONE-".toList, word := some "*".toList }])) = ["S-1".toList] ∧
    indexFree false "S-1".toList = true ∧ noIndexLeft false "S-1".toList = false := by decide

/-! ## 3c + 8, exact form: the constituents after trace deletion -/

/-- when a token is left: the root stays; a constituent below it stays, in order and with its label cleaned,
    exactly when it has a token that is not a deleted trace; nothing else is removed, no other label changes -/
theorem traces_cons (o : TraceOpts) (t : Tree) (h : WF t = true)
    (hpos : (tracePositions o t).length < t.leafNums.length) :
    consLabels (ptbDeleteTraces o t) = cleanLabel o t.fields.label :: (subtreesL t.kids).filterMap (fun s =>
      if !s.isLeaf && s.leafNums.any (fun n => !(tracePositions o t).contains n)
      then some (cleanLabel o s.fields.label) else none) := by
  have hwf := traces_WF o t h hpos
  have hN := Numbered_of_WF t h
  cases t with
  | leaf n f => simp [WF] at h
  | node f ks =>
    have hne := belowOK_of_noEmpty _ (WF_noEmpty _ h)
    simp only [belowOK] at hne
    have hs := filter_terminals_nums (node f ks) (fun l => l.fields.label == NONE_POS) hN
    obtain ⟨ks', h1, h2⟩ := traces_fold_consInfo o _ f ks 0 hN hne hs.1 (by
      intro k hk
      have := (hN.mem k).1 (hs.2 k hk)
      omega)
    rw [traces_deleted_eq o _ hN] at h2
    have hne' : (node f ks').noEmpty = true := by
      have := WF_noEmpty _ hwf
      unfold ptbDeleteTraces at this
      rw [cleanLabels_noEmpty] at this
      rw [← h1]; exact this
    have e : ptbDeleteTraces o (node f ks) = cleanLabels o (node f ks') := by
      unfold ptbDeleteTraces; rw [← h1]
    rw [e, TT.Lemmas.More4.cleanLabels_consLabels o _ hne']
    simp only [consLabels, List.map_cons, fields_node, kids]
    rw [← consInfoL_labels, h2, consInfoL_subtrees, List.filterMap_filterMap, List.map_filterMap]
    congr 1
    apply filterMap_congr'
    intro s _
    have e0 : (tracePositions o (node f ks)).map (· - 0) = tracePositions o (node f ks) := by simp
    cases hsl : s.isLeaf
    · simp only [Bool.false_eq_true, if_false, Option.bind_some, e0, Bool.not_false, Bool.true_and]
      split <;> rfl
    · simp

example : consLabels (ptbDeleteTraces { keep := ["*T*".toList] } exD) =
    ["S", "WHNP", "VP", "NP-SBJ", "NP"].map String.toList := by decide

/-! ## 6: the root -/

/-- the result is the (relabelled) root of the whole tree: same node identity, same kind -/
theorem traces_root (o : TraceOpts) (t : Tree) :
    (ptbDeleteTraces o t).fields.uid = t.fields.uid ∧ (ptbDeleteTraces o t).isLeaf = t.isLeaf := by
  have key : ∀ (nums : List Nat) (acc : Tree × Nat),
      (nums.foldl (traceStep o) acc).1.fields.uid = acc.1.fields.uid ∧
      (nums.foldl (traceStep o) acc).1.isLeaf = acc.1.isLeaf := by
    intro nums
    induction nums with
    | nil => intro acc; exact ⟨rfl, rfl⟩
    | cons k rest ih =>
      intro acc
      simp only [List.foldl_cons]
      obtain ⟨cur, off⟩ := acc
      have hstep : (traceStep o (cur, off) k).1.fields.uid = cur.fields.uid ∧
          (traceStep o (cur, off) k).1.isLeaf = cur.isLeaf := by
        simp only [traceStep]
        split
        · exact ⟨rfl, rfl⟩
        · split
          · cases cur with
            | leaf n f => simp only [modifyLeaf]; split <;> exact ⟨rfl, rfl⟩
            | node f ks => exact ⟨rfl, rfl⟩
          · cases cur <;> exact ⟨rfl, rfl⟩
      exact ⟨(ih _).1.trans hstep.1, (ih _).2.trans hstep.2⟩
  unfold ptbDeleteTraces
  have hc : ∀ x : Tree, (cleanLabels o x).fields.uid = x.fields.uid := by
    intro x
    cases x with
    | leaf n f => rfl
    | node f ks => simp only [cleanLabels]; split <;> rfl
  exact ⟨(hc _).trans (key _ (t, 0)).1, (cleanLabels_isLeaf o _).trans (key _ (t, 0)).2⟩

/-! ## 12: terminal files -/

/-- three lines for sentence 1 (out of order), one for sentence 2, the last without tag -/
def exFile : Str := "1 2 dog N\n2 1 it PRP\n1 1 the D\n1 3 barks\n".toList
/-- sentence 1, index 2 twice -/
def exDupFile : Str := "1 2 dog N\n2 1 it PRP\n1 2 cat N\n".toList

/-- stepping stones for instance search (the full search exceeds the default size bound) -/
local instance rowDecEq : DecidableEq Row := inferInstance
local instance rowsDecEq : DecidableEq (List (Option Row)) := inferInstance

example : (fileLines exFile).map lineRow =
      [some (1, 2, "dog".toList, some "N".toList), some (2, 1, "it".toList, some "PRP".toList),
       some (1, 1, "the".toList, some "D".toList), some (1, 3, "barks".toList, none)] ∧
    (match parseTermFile false exFile with
     | .ok tbl => reqsFor tbl 1 == [(1, "the".toList, some "D".toList), (2, "dog".toList, some "N".toList),
          (3, "barks".toList, none)] && reqsFor tbl 2 == [(1, "it".toList, some "PRP".toList)] &&
          reqsFor tbl 3 == []
     | .error _ => false) = true := by decide +kernel

/-- a terminal file that loads: every line has its fields, no (sentence id, index) pair occurs twice, and
    for every sentence the requests handed to the transformation are exactly the lines of that
    sentence - lines with other sentence ids play no part - sorted by index, the indices strictly increasing -/
theorem termfile_ok (np : Bool) (c : Str) (tbl : TermTable) (h : parseTermFile np c = .ok tbl) :
    ∃ rows : List Row, (fileLines c).map lineRow = rows.map some ∧ (rows.map rowKey).Nodup ∧
      ∀ sid, reqsFor tbl sid = sortBy (·.1) ((rows.filter (·.1 == sid)).map (·.2)) ∧
        ((reqsFor tbl sid).map (·.1)).Pairwise (· < ·) := by
  obtain ⟨rows, h1, h2, h3⟩ := parseTermFile_rows np c tbl h
  refine ⟨rows, h1, h2, fun sid => ⟨by rw [reqsFor_eq, h3], ?_⟩⟩
  rw [reqsFor_eq, h3, List.pairwise_map]
  apply sortBy_strict
  -- the indices of one sentence are distinct because the (sid, index) pairs are
  have hnd : ((rows.filter (·.1 == sid)).map rowKey).Nodup := (List.Sublist.map _ List.filter_sublist).nodup h2
  rw [List.Nodup, List.pairwise_map] at hnd
  rw [List.Nodup, List.pairwise_map, List.pairwise_map]
  refine List.Pairwise.imp_of_mem ?_ hnd
  intro ra rb hra hrb hne e
  apply hne
  have e1 : ra.1 = sid := by simpa using (List.mem_filter.1 hra).2
  have e2 : rb.1 = sid := by simpa using (List.mem_filter.1 hrb).2
  simp only [rowKey]
  rw [e1, e2, e]

/-- duplicate index: a file in which two lines carry the same sentence id and index does not load -/
theorem termfile_dup_rejected (np : Bool) (c : Str) (i j : Nat) (hij : i < j) (r1 r2 : Row)
    (h1 : ((fileLines c)[i]?).bind lineRow = some r1) (h2 : ((fileLines c)[j]?).bind lineRow = some r2)
    (hk : rowKey r1 = rowKey r2) : ∃ e, parseTermFile np c = .error e := by
  cases hp : parseTermFile np c with
  | error e => exact ⟨e, rfl⟩
  | ok tbl =>
    exfalso
    obtain ⟨rows, hr, hnd, _⟩ := parseTermFile_rows np c tbl hp
    have hi : rows[i]? = some r1 := by
      have := congrArg (fun l => l[i]?) hr
      simp only [List.getElem?_map] at this
      cases hl : (fileLines c)[i]? with
      | none => rw [hl] at h1; cases h1
      | some li =>
        rw [hl] at h1 this
        simp only [Option.bind_some] at h1
        simp only [Option.map_some, h1] at this
        cases hri : rows[i]? with
        | none => rw [hri] at this; cases this
        | some x => rw [hri] at this; simp only [Option.map_some, Option.some.injEq] at this; rw [this]
    have hj : rows[j]? = some r2 := by
      have := congrArg (fun l => l[j]?) hr
      simp only [List.getElem?_map] at this
      cases hl : (fileLines c)[j]? with
      | none => rw [hl] at h2; cases h2
      | some lj =>
        rw [hl] at h2 this
        simp only [Option.bind_some] at h2
        simp only [Option.map_some, h2] at this
        cases hrj : rows[j]? with
        | none => rw [hrj] at this; cases this
        | some x => rw [hrj] at this; simp only [Option.map_some, Option.some.injEq] at this; rw [this]
    have hpw := List.pairwise_iff_getElem.1 hnd
    obtain ⟨hi', ei⟩ := List.getElem?_eq_some_iff.1 hi
    obtain ⟨hj', ej⟩ := List.getElem?_eq_some_iff.1 hj
    have := hpw i j (by simpa using hi') (by simpa using hj') hij
    simp only [List.getElem_map, ei, ej] at this
    exact this hk

example : (((fileLines exDupFile)[0]?).bind lineRow).map rowKey = some (1, 2) ∧
    (((fileLines exDupFile)[2]?).bind lineRow).map rowKey = some (1, 2) ∧
    (match parseTermFile false exDupFile with | .error .valueError => true | _ => false) = true ∧
    (match parseTermFile true exDupFile with | .error .valueError => true | _ => false) = true := by
  decide +kernel

/-- ... and when every line has its fields (and its tag where `insert_terminals` requires one) the error is
    the `ValueError` of the duplicate index -/
theorem termfile_dup_valueError (np : Bool) (c : Str) (e : Err)
    (hfull : ∀ l ∈ fileLines c, ∃ r, lineRow l = some r ∧ (np = true → r.2.2.2.isSome = true))
    (h : parseTermFile np c = .error e) : e = .valueError := by
  rw [parseTermFile_eq] at h
  exact foldlM_full np _ [] e hfull h

/-- `exDupFile` meets the hypothesis for both transformations; `exFile` (last line without tag) only for
    `substitute_terminals`, and `insert_terminals` fails on it with `IndexError`, not `ValueError` -/
example : (∀ l ∈ fileLines exDupFile, ∃ r, lineRow l = some r ∧ (true = true → r.2.2.2.isSome = true)) ∧
    (match parseTermFile true exFile with | .error .indexError => true | _ => false) = true := by
  refine ⟨?_, by decide +kernel⟩
  intro l hl
  have : (fileLines exDupFile).all (fun l => match lineRow l with | some r => r.2.2.2.isSome | none => false) = true := by
    decide +kernel
  have := List.all_eq_true.1 this l hl
  cases hr : lineRow l with
  | none => rw [hr] at this; cases this
  | some r => rw [hr] at this; exact ⟨r, rfl, fun _ => this⟩

/-- other sentence ids: the entries of other sentences can be removed from the table without changing
    the requests of this one -/
theorem reqsFor_other_sids (tbl : TermTable) (sid : Nat) :
    reqsFor (tbl.filter (·.1 == sid)) sid = reqsFor tbl sid := by
  unfold reqsFor
  rw [List.find?_filter, find?_congr' _ (fun x => x.1 == sid) tbl (by intro a _; cases (a.1 == sid) <;> rfl)]

/-- a file that mentions only other sentences leaves the tree as it is -/
theorem termfile_foreign (np : Bool) (c : Str) (tbl : TermTable) (sid : Nat) (t : Tree)
    (h : parseTermFile np c = .ok tbl)
    (hf : ∀ l ∈ fileLines c, ∀ r, lineRow l = some r → r.1 ≠ sid) :
    reqsFor tbl sid = [] ∧ substituteTerminals (reqsFor tbl sid) t = t ∧
    insertTerminals ((reqsFor tbl sid).map fun (k, w, p) => (k, w, p.getD [])) t = t := by
  obtain ⟨rows, h1, _, h3⟩ := parseTermFile_rows np c tbl h
  have hrows : rows.filter (·.1 == sid) = [] := by
    rw [List.filter_eq_nil_iff]
    intro r hr
    obtain ⟨i, hi, rfl⟩ := List.getElem_of_mem hr
    have := congrArg (fun l => l[i]?) h1
    simp only [List.getElem?_map, List.getElem?_eq_getElem hi, Option.map_some] at this
    cases hl : (fileLines c)[i]? with
    | none => rw [hl] at this; cases this
    | some li =>
      rw [hl] at this
      simp only [Option.map_some, Option.some.injEq] at this
      have := hf li (List.mem_of_getElem? hl) _ this
      simpa using this
  have : reqsFor tbl sid = [] := by rw [reqsFor_eq, h3, hrows]; rfl
  rw [this]
  exact ⟨rfl, rfl, rfl⟩

/-- sentence 3 is not mentioned in `exFile` -/
example : ∀ l ∈ fileLines exFile, ∀ r, lineRow l = some r → r.1 ≠ 3 := by
  intro l hl r hr
  have : (fileLines exFile).all (fun l => match lineRow l with | some r => r.1 != 3 | none => true) = true := by
    decide +kernel
  have := List.all_eq_true.1 this l hl
  rw [hr] at this
  simpa using this

/-! # The remaining rows of the C11 audit -/

/-! ## 1d: substitute_terminals, token by token -/

/-- token `i + 1` of the result: the requests for that index applied in the order given (word replaced, tag
    replaced when the request has one); a token without request is unchanged -/
theorem substituteSpec_get (s : List Tok) (reqs : List (Nat × Str × Option Str)) (i : Nat) :
    (substituteSpec s reqs)[i]? =
      (s[i]?).map (fun tk => (reqs.filter (·.1 == i + 1)).foldl (fun tk r => (some r.2.1, r.2.2.getD tk.2)) tk) :=
  substituteSpec_get_fold s reqs i

/-- as proposed in the audit: with one request per index (what a terminal file that loads guarantees,
    `termfile_ok`) -/
theorem substituteSpec_get_of_nodup (s : List Tok) (reqs : List (Nat × Str × Option Str))
    (hd : (reqs.map (·.1)).Nodup) (i : Nat) :
    (substituteSpec s reqs)[i]? =
      match reqs.find? (·.1 == i + 1) with
      | some r => (s[i]?).map (fun tk => (some r.2.1, r.2.2.getD tk.2))
      | none => s[i]? :=
  substituteSpec_get_nodup s reqs hd i

/-- at the tree: the sentence after `substitute_terminals`, position by position -/
theorem substitute_token (reqs : List (Nat × Str × Option Str)) (t : Tree) (h : WF t = true)
    (hd : (reqs.map (·.1)).Nodup) (i : Nat) :
    (substituteTerminals reqs t).sentence[i]? =
      match reqs.find? (·.1 == i + 1) with
      | some r => (t.sentence[i]?).map (fun tk => (some r.2.1, r.2.2.getD tk.2))
      | none => t.sentence[i]? := by
  rw [TT.Props.C11.substitute_sentence reqs t h hd]
  exact substituteSpec_get_nodup _ reqs hd i

example : ([(4, "y".toList, some "Z".toList), (2, "x".toList, none), (9, "z".toList, none)].map
      (·.1) : List Nat).Nodup ∧
    (substituteTerminals [(4, "y".toList, some "Z".toList), (2, "x".toList, none), (9, "z".toList, none)]
      TT.Props.C11.exP).sentence[3]? = some (some "y".toList, "Z".toList) ∧
    (substituteTerminals [(4, "y".toList, some "Z".toList), (2, "x".toList, none), (9, "z".toList, none)]
      TT.Props.C11.exP).sentence[1]? = some (some "x".toList, "N".toList) ∧
    (substituteTerminals [(4, "y".toList, some "Z".toList), (2, "x".toList, none), (9, "z".toList, none)]
      TT.Props.C11.exP).sentence[2]? = TT.Props.C11.exP.sentence[2]? := by decide

/-- without `Nodup` the `find?` form is false (the later request wins the word, the earlier one may still
    set the tag); the fold form `substituteSpec_get` covers it -/
example : (substituteSpec [(some "a".toList, "A".toList)]
      [(1, "x".toList, some "X".toList), (1, "y".toList, none)])[0]? = some (some "y".toList, "X".toList) := by
  decide

/-! ## 5: a request outside the sentence -/

/-- requests whose index is 0 or beyond the last token leave the whole tree as it is -/
theorem substituteTerminals_invalid (reqs : List (Nat × Str × Option Str)) (t : Tree)
    (h : ∀ r ∈ reqs, r.1 = 0 ∨ r.1 > t.terminals.length) : substituteTerminals reqs t = t := by
  unfold substituteTerminals
  generalize t.terminals.length = n at h
  induction reqs with
  | nil => rfl
  | cons r rest ih =>
    obtain ⟨k, w, p⟩ := r
    have hk := h (k, w, p) List.mem_cons_self
    have : (decide (k ≥ 1) && decide (k ≤ n)) = false := by
      rcases hk with hk | hk <;> simp <;> omega
    simp only [List.foldl_cons, this, Bool.false_eq_true, if_false]
    exact ih (fun r hr => h r (List.mem_cons_of_mem _ hr))

example : (∀ r ∈ [(0, "x".toList, none), (6, "y".toList, some "Y".toList)],
      r.1 = 0 ∨ r.1 > TT.Props.C11.exP.terminals.length) ∧
    (substituteTerminals [(0, "x".toList, none), (6, "y".toList, some "Y".toList)] TT.Props.C11.exP).beq
      TT.Props.C11.exP = true := by decide

/-- the same for `insert_terminals`: requests with index 0 or more than one past the end are all ignored -/
theorem insertTerminals_invalid (reqs : List (Nat × Str × Str)) (t : Tree)
    (h : ∀ r ∈ reqs, r.1 = 0 ∨ r.1 > t.terminals.length + 1) : insertTerminals reqs t = t := by
  unfold insertTerminals
  induction reqs with
  | nil => rfl
  | cons r rest ih =>
    obtain ⟨k, w, p⟩ := r
    simp only [List.foldl_cons]
    rw [insertStep_invalid t k w p (h (k, w, p) List.mem_cons_self)]
    exact ih (fun r hr => h r (List.mem_cons_of_mem _ hr))

/-! ## 1c: insert_terminals, position by position -/

/-- the list specification, all requests accepted (indices strictly increasing, each at most one past the end
    of the sentence as it is then): every inserted token sits at its requested position, and removing the
    requested positions gives back the original sentence (every other token keeps word, tag and order) -/
theorem insertSpec_at (s : List Tok) (reqs : List (Nat × Str × Str))
    (hs : (reqs.map (·.1)).Pairwise (· < ·))
    (hr : ∀ j (h : j < reqs.length), 1 ≤ reqs[j].1 ∧ reqs[j].1 ≤ s.length + j + 1) :
    (∀ r ∈ reqs, (insertSpec s reqs)[r.1 - 1]? = some (some r.2.1, r.2.2)) ∧
    dropPositions (insertSpec s reqs) (reqs.map (·.1)) = s :=
  (insertSpec_all s reqs hs hr).2

/-- at the tree -/
theorem insert_tokens (reqs : List (Nat × Str × Str)) (t : Tree) (h : WF t = true)
    (hs : (reqs.map (·.1)).Pairwise (· < ·))
    (hr : ∀ j (h : j < reqs.length), 1 ≤ reqs[j].1 ∧ reqs[j].1 ≤ t.terminals.length + j + 1) :
    (∀ r ∈ reqs, (insertTerminals reqs t).sentence[r.1 - 1]? = some (some r.2.1, r.2.2)) ∧
    dropPositions (insertTerminals reqs t).sentence (reqs.map (·.1)) = t.sentence := by
  rw [TT.Props.C11.insert_sentence reqs t h]
  have e : t.sentence.length = t.terminals.length := by simp [sentence]
  exact insertSpec_at t.sentence reqs hs (by rw [e]; exact hr)

/-- `exP` has 5 tokens: 1, 3 and 8 (= 5 + 2 + 1, the last admissible position after two insertions) -/
def exReqs : List (Nat × Str × Str) :=
  [(1, "x".toList, "X".toList), (3, "y".toList, "Y".toList), (8, "z".toList, "Z".toList)]

example : ((exReqs.map (·.1)).Pairwise (· < ·) ∧
     ∀ j (h : j < exReqs.length), 1 ≤ exReqs[j].1 ∧ exReqs[j].1 ≤ TT.Props.C11.exP.terminals.length + j + 1) ∧
    (insertTerminals exReqs TT.Props.C11.exP).sentence.map (·.2) =
      ["X", "$(", "Y", "N", "$,", "V", "$.", "Z"].map String.toList := by
  refine ⟨⟨by decide, ?_⟩, by decide⟩
  intro j hj
  match j, hj with
  | 0, _ => decide +revert
  | 1, _ => decide +revert
  | 2, _ => decide +revert
  | n + 3, h => exact absurd h (by simp [exReqs])

/-- the range hypothesis is needed: a skipped request is not found at its position -/
example : (insertSpec [(some "a".toList, "A".toList)] [(5, "x".toList, "X".toList)])[4]? = none := by decide

/-- the order hypothesis is needed: a later request with a smaller index pushes the earlier token on -/
example : (insertSpec [(some "a".toList, "A".toList)] [(2, "x".toList, "X".toList), (1, "y".toList, "Y".toList)])[1]?
    = some (some "a".toList, "A".toList) := by decide

/-! ## 3a / 3b: exactly which constituents are pruned -/

/-- `delete_terminal`: the root stays; a constituent below it stays, with its label, exactly when it has a
    token other than the deleted one; nothing else is removed and the order is kept -/
theorem deleteTerminal_cons (t : Tree) (k : Nat) (h : WF t = true) :
    consLabels (deleteTerminal t k) = t.fields.label :: (subtreesL t.kids).filterMap (fun s =>
      if !s.isLeaf && s.leafNums.any (· != k) then some s.fields.label else none) := by
  cases t with
  | leaf n f => simp [WF] at h
  | node f ks =>
    have hne := belowOK_of_noEmpty _ (WF_noEmpty _ h)
    simp only [belowOK] at hne
    simp only [deleteTerminal, consLabels, fields_node, kids]
    rw [← consInfoL_labels, delLeafL_consInfo k ks hne, consInfoL_subtrees, List.filterMap_filterMap,
      List.map_filterMap]
    congr 1
    apply filterMap_congr'
    intro s _
    cases hs : s.isLeaf
    · simp only [Bool.false_eq_true, if_false, Option.bind_some, stepInfo, Bool.not_false, Bool.true_and]
      split <;> rfl
    · simp

example : consLabels TT.Props.C11.exP = ["S", "VP", "X", "Y"].map String.toList ∧
    consLabels (deleteTerminal TT.Props.C11.exP 3) = ["S", "VP"].map String.toList ∧
    consLabels (deleteTerminal TT.Props.C11.exP 4) = ["S", "VP", "X", "Y"].map String.toList := by decide

/-- deleting several tokens (original numbers, ascending): a constituent below the root stays exactly when it
    has a token that is not deleted -/
theorem deleteMany_cons (t : Tree) (nums : List Nat) (h : WF t = true) (hp : nums.Pairwise (· < ·))
    (hpos : ∀ k ∈ nums, 0 < k) :
    consLabels (deleteMany t nums) = t.fields.label :: (subtreesL t.kids).filterMap (fun s =>
      if !s.isLeaf && s.leafNums.any (fun n => !nums.contains n) then some s.fields.label else none) := by
  cases t with
  | leaf n f => simp [WF] at h
  | node f ks =>
    have hne := belowOK_of_noEmpty _ (WF_noEmpty _ h)
    simp only [belowOK] at hne
    obtain ⟨ks', h1, h2⟩ := deleteMany_consInfo nums f ks 0 hne hp hpos
    unfold deleteMany
    rw [h1]
    simp only [consLabels, fields_node, kids]
    rw [← consInfoL_labels, h2, consInfoL_subtrees, List.filterMap_filterMap]
    congr 1
    apply filterMap_congr'
    intro s _
    have e0 : nums.map (· - 0) = nums := by simp
    cases hs : s.isLeaf
    · simp only [Bool.false_eq_true, if_false, Option.bind_some, e0, Bool.not_false, Bool.true_and]
    · simp

/-- `punctuation_delete` (when something other than punctuation is left): a constituent below the root stays,
    with its label and in order, exactly when it has a token that is not punctuation -/
theorem punctuationDelete_cons (t : Tree) (h : WF t = true)
    (hp : (t.terminals.filter isPunctWord).length ≠ t.terminals.length) :
    consLabels (punctuationDelete t).1 = t.fields.label :: (subtreesL t.kids).filterMap (fun s =>
      if !s.isLeaf && s.leafNums.any (fun n => !(punctPositions t).contains n) then some s.fields.label
      else none) := by
  have hN := Numbered_of_WF t h
  have hs := filter_terminals_nums t isPunctWord hN
  have e : (punctuationDelete t).1 = deleteMany t ((t.terminals.filter isPunctWord).map num) := by
    simp [punctuationDelete, hp]
  rw [e]
  exact deleteMany_cons t _ h hs.1 (fun k hk => ((hN.mem k).1 (hs.2 k hk)).1)

/-- `exP`: the chain `X > Y` over the comma goes, `VP` (tokens 4 and 2, no punctuation) stays -/
example : punctPositions TT.Props.C11.exP = [1, 3, 5] ∧
    consLabels (punctuationDelete TT.Props.C11.exP).1 = ["S", "VP"].map String.toList := by decide

/-! ## 6: the root -/

/-- every editing transformation returns the root it was given: same fields (for trace deletion: same fields
    but the cleaned label, see `traces_root`) -/
theorem edit_root_fields (t : Tree) (k : Nat) (ri : List (Nat × Str × Str)) (rs : List (Nat × Str × Option Str))
    (ht : t.isLeaf = false) :
    (punctuationDelete t).1.fields = t.fields ∧ (deleteTerminal t k).fields = t.fields ∧
    (insertTerminals ri t).fields = t.fields ∧ (substituteTerminals rs t).fields = t.fields := by
  cases t with
  | leaf n f => cases ht
  | node f ks =>
    have hdel : ∀ (nums : List Nat) (ks : List Tree) (off : Nat),
        (nums.foldl (fun (acc : Tree × Nat) k => (deleteTerminal acc.1 (k - acc.2), acc.2 + 1))
          (node f ks, off)).1.fields = f := by
      intro nums
      induction nums with
      | nil => intro ks off; rfl
      | cons a rest ih => intro ks off; simp only [List.foldl_cons, deleteTerminal]; exact ih _ _
    have hins : ∀ (ri : List (Nat × Str × Str)) (ks : List Tree), (ri.foldl insertStep (node f ks)).fields = f := by
      intro ri
      induction ri with
      | nil => intro ks; rfl
      | cons a rest ih =>
        intro ks
        obtain ⟨k, w, p⟩ := a
        simp only [List.foldl_cons]
        by_cases hc : k = 0 ∨ k > (node f ks).terminals.length + 1
        · rw [insertStep_invalid _ k w p hc]; exact ih ks
        · rw [insertStep_valid f ks k w p (by omega) (by omega)]; exact ih _
    have hsub : ∀ (n : Nat) (rs : List (Nat × Str × Option Str)) (ks : List Tree),
        (rs.foldl (fun cur (k, w, pos) =>
          if k ≥ 1 && k ≤ n then
            modifyLeaf k (fun f => { f with word := some w, label := pos.getD f.label }) cur
          else cur) (node f ks)).fields = f := by
      intro n rs
      induction rs with
      | nil => intro ks; rfl
      | cons a rest ih =>
        intro ks
        obtain ⟨k, w, p⟩ := a
        simp only [List.foldl_cons]
        split
        · simp only [modifyLeaf]; exact ih _
        · exact ih ks
    refine ⟨?_, rfl, hins ri ks, hsub _ rs ks⟩
    simp only [punctuationDelete]
    split
    · rfl
    · exact hdel _ ks 0

/-- `isLeaf = false` is needed for `substitute_terminals`: on a bare token the root is the token and changes -/
example : (substituteTerminals [(1, "x".toList, none)] (leaf 1 { label := "N".toList, word := some "a".toList })).fields
    ≠ (leaf 1 { label := "N".toList, word := some "a".toList } : Tree).fields := by decide

/-! ## terminal file and transformation together -/

/-- `substitute_terminals` fed from a terminal file that loads: the hypothesis "one request per index" of
    `substitute_token` is met by every such file, for every sentence id -/
theorem substitute_from_file (np : Bool) (c : Str) (tbl : TermTable) (sid : Nat) (t : Tree)
    (h : parseTermFile np c = .ok tbl) (hw : WF t = true) (i : Nat) :
    (substituteTerminals (reqsFor tbl sid) t).sentence[i]? =
      match (reqsFor tbl sid).find? (·.1 == i + 1) with
      | some r => (t.sentence[i]?).map (fun tk => (some r.2.1, r.2.2.getD tk.2))
      | none => t.sentence[i]? := by
  obtain ⟨rows, _, _, h3⟩ := termfile_ok np c tbl h
  have hp := (h3 sid).2
  have hd : ((reqsFor tbl sid).map (·.1)).Nodup := hp.imp (fun h => Nat.ne_of_lt h)
  exact substitute_token _ t hw hd i

/-- `insert_terminals` fed from a terminal file that loads: the order hypothesis of `insert_tokens` is met by
    every such file; what is left is the range condition on the requests themselves -/
theorem insert_from_file (c : Str) (tbl : TermTable) (sid : Nat) (t : Tree)
    (h : parseTermFile true c = .ok tbl) (hw : WF t = true)
    (hr : ∀ j (hj : j < (reqsFor tbl sid).length),
      1 ≤ (reqsFor tbl sid)[j].1 ∧ (reqsFor tbl sid)[j].1 ≤ t.terminals.length + j + 1) :
    let reqs := (reqsFor tbl sid).map fun (k, w, p) => (k, w, p.getD [])
    (∀ r ∈ reqs, (insertTerminals reqs t).sentence[r.1 - 1]? = some (some r.2.1, r.2.2)) ∧
    dropPositions (insertTerminals reqs t).sentence (reqs.map (·.1)) = t.sentence := by
  intro reqs
  obtain ⟨rows, _, _, h3⟩ := termfile_ok true c tbl h
  have hp := (h3 sid).2
  have e1 : reqs.map (·.1) = (reqsFor tbl sid).map (·.1) := by
    simp only [reqs, List.map_map]; rfl
  refine insert_tokens reqs t hw (by rw [e1]; exact hp) ?_
  intro j hj
  have hj' : j < (reqsFor tbl sid).length := by simpa [reqs] using hj
  have := hr j hj'
  simpa [reqs] using this

/-- `exFile`, sentence 1, on the five tokens of `exP`: indices 1, 2, 3 -/
example : (match parseTermFile false exFile with
    | .ok tbl => (substituteTerminals (reqsFor tbl 1) TT.Props.C11.exP).sentence.map (·.1)
    | .error _ => []) = [some "the".toList, some "dog".toList, some "barks".toList, some "c".toList,
      some ".".toList] := by decide +kernel

end TT.Props.C11Traces
