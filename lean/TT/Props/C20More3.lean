/-
  C20 (wave 19) — a function separator of more than one character (or the empty one) never splits: for EVERY text
  `parseLabel` returns the default function, and the whole text before the indices as category (Python compares one
  character of the label with the separator STRING, `trees.py parse_label`).  `C20More2` had this as an `example` only.
-/
import TT.Props.C20More2
namespace TT.Props.C20More3
open TT TT.Spec TT.Lemmas.C20 TT.Lemmas.More12g
open TT.Props.C20More (idxPart stripHead_built gap_step co_step last_built getLast?_append_some)

/-- what is left of a label text once head mark, co-index and gap index are stripped (in this order) -/
def beforeIndices (s : Str) : Str := (stripIndex '=' (stripIndex '-' (stripHead s).2).2).2

theorem splitGf_multi (sep s : Str) (hsep : sep.length ≠ 1) : splitGf sep s = none := by
  match sep, hsep with
  | [], _ => rfl
  | [_], h => simp at h
  | _ :: _ :: _, _ => rfl

/-- MAIN (every text): with a separator that is not exactly one character, the function is the default, the category
    is everything before the indices (or the default category when that is empty); head mark and indices are read as
    with any separator. -/
theorem parse_multisep (sep s : Str) (hsep : sep.length ≠ 1) :
    parseLabel sep s =
      { label := if (beforeIndices s).isEmpty then DEFAULT_LABEL else beforeIndices s
        gf := DEFAULT_EDGE
        gfSep := sep
        coindex := (stripIndex '-' (stripHead s).2).1
        gapindex := (stripIndex '=' (stripIndex '-' (stripHead s).2).2).1
        headmarker := (stripHead s).1
        isTrace := isTraceLabel (if (beforeIndices s).isEmpty then DEFAULT_LABEL else beforeIndices s) } := by
  rw [parseLabel_eq]
  simp only [parseGf, splitGf_multi sep _ hsep, beforeIndices]
  rfl

/-- the function is the default one, whatever the text -/
theorem parse_multisep_gf (sep s : Str) (hsep : sep.length ≠ 1) : (parseLabel sep s).gf = DEFAULT_EDGE := by
  rw [parse_multisep sep s hsep]

/-- the separator does not matter at all: the result is that for the empty separator, with `gfSep` replaced -/
theorem parse_multisep_indep (sep sep' s : Str) (hsep : sep.length ≠ 1) (hsep' : sep'.length ≠ 1) :
    parseLabel sep s = { parseLabel sep' s with gfSep := sep } := by
  rw [parse_multisep sep s hsep, parse_multisep sep' s hsep']

/-- MAIN (on parts): the text `body=gap-co'` (indices digit strings or absent, `body` ending in a character that is
    neither a digit nor `'`) is read as category `body` - the WHOLE text before the indices, separator and function
    included if `body = cat ++ sep ++ gf` - and the default function. -/
theorem parse_built_multisep (sep body gap co : Str) (hm : Bool) (x : Char) (hsep : sep.length ≠ 1)
    (hb : body.getLast? = some x) (hxd : x.isDigit = false) (hxq : x ≠ '\'')
    (hgap : gap = [] ∨ pyIsDigit gap = true) (hco : co = [] ∨ pyIsDigit co = true) :
    parseLabel sep (body ++ idxPart '=' gap ++ idxPart '-' co ++ (if hm then ['\''] else [])) =
      { label := body, gf := DEFAULT_EDGE, gfSep := sep, coindex := co, gapindex := gap, headmarker := hm,
        isTrace := isTraceLabel body } := by
  obtain ⟨z, hz, hzq⟩ := last_built body gap co x hb hxq hgap hco
  have hne : body.isEmpty = false := by cases body <;> simp_all
  rw [parse_multisep sep _ hsep]
  simp only [beforeIndices, stripHead_built _ hm z hz hzq, co_step body gap co x hb hxd hgap hco,
    gap_step body gap x hb hxd hgap, hne]
  simp

/-- in particular for a text written with the multi-character separator between category and function -/
theorem parse_catsepgf_multisep (sep cat gf gap co : Str) (hm : Bool) (x : Char) (hsep : sep.length ≠ 1)
    (hgf : gf.getLast? = some x) (hxd : x.isDigit = false) (hxq : x ≠ '\'')
    (hgap : gap = [] ∨ pyIsDigit gap = true) (hco : co = [] ∨ pyIsDigit co = true) :
    parseLabel sep ((cat ++ sep ++ gf) ++ idxPart '=' gap ++ idxPart '-' co ++ (if hm then ['\''] else [])) =
      { label := cat ++ sep ++ gf, gf := DEFAULT_EDGE, gfSep := sep, coindex := co, gapindex := gap, headmarker := hm,
        isTrace := isTraceLabel (cat ++ sep ++ gf) } :=
  parse_built_multisep sep _ gap co hm x hsep (getLast?_append_some _ _ x hgf) hxd hxq hgap hco

/-- non-vacuity / instance: `N-P::SB=1-2'` with separator `::` -/
example : ("N-P".toList ++ "::".toList ++ "SB".toList) ++ idxPart '=' "1".toList ++ idxPart '-' "2".toList ++
      (if true then ['\''] else []) = "N-P::SB=1-2'".toList ∧
    parseLabel "::".toList "N-P::SB=1-2'".toList =
      { label := "N-P::SB".toList, gf := "--".toList, gfSep := "::".toList, coindex := "2".toList,
        gapindex := "1".toList, headmarker := true, isTrace := false } :=
  ⟨by decide, parse_catsepgf_multisep "::".toList "N-P".toList "SB".toList "1".toList "2".toList true 'B' (by decide)
    (by decide) (by decide) (by decide) (by decide) (by decide)⟩

/-- the empty separator, an empty text, a text of indices only -/
example : (parseLabel [] "NP-SB".toList).label = "NP-SB".toList ∧ (parseLabel [] "NP-SB".toList).gf = "--".toList ∧
    (parseLabel "ab".toList []).label = "EMPTY".toList ∧
    (parseLabel "ab".toList "=1-2".toList).label = "EMPTY".toList ∧ beforeIndices "=1-2".toList = [] := by decide

end TT.Props.C20More3
