/-
  C03Total — wave 12, clause audit of C03 (any-to-any conversion through the command line is total and lossless).

  * `runFrom_ok_iff`, `writeAll_ok_iff`   the command succeeds iff the writer succeeds on every sentence
  * `runFrom_total_export`, `runFrom_total_tigerxml`, `runFrom_total_discobrackets`, `runFrom_total_terminals`
    (+ `runFrom_terminals_rejects`), `runFrom_total_brackets` (an iff, against `Spec.discontinuous`)        (row 1)
  * `brackets_to_export_total`, `brackets_to_any_total`  trees from the bracket reader (no lemma, no morphology) (row 7)
  * `export_to_tiger`                     a cross-format content theorem: export file -> command -> TIGER-XML -> independent decoder (row 2)
  * `runFrom_body`, `runFrom_append`, `runFrom_append_plain`   multi-sentence lift of the writing half (row 3)

  ---- part 2 (multi-sentence files, brackets -> export) ----

  C03 rows 2, 3, 7.

  (A) multi-sentence lift of the command-level export identity (row 3)
  * `writeExport_complete`, `writeExport_complete_text`   the lines one sentence is written as are a `Complete` block (C18)
                                          that counts as one sentence, no line contains a line break
  * `readExport_sentence_then`            a written sentence followed by any text: its tree, then the trees of the text
  * `export_export_id_file`               a file of ANY number of sentences written by the command is read back as the same
                                          sentences (ids of the `#BOS` lines, content) and export -> export gives the same text
  * `export_export_id_two`                the two-sentence case spelled out; `each₂_readBack_ids`
  helpers `ml_*`; definitions `BodyLine`, `SentOK`, `ReadBack`, `Each₂`.

  (B) a second cross-format content theorem: brackets -> export (rows 2, 7)
  * `brackets_to_export`                  a tree written in brackets, converted by the command into export (v3 / v4, with or
                                          without grammatical functions): the independent decoder `decExport` recovers what the
                                          bracket reader delivered (lemma `--`, morphology `--`, edges `--`)
  * `ml_exportOK_sortKids`, `ml_exportOK_asRead`, `ml_sortKids_carryExportRoot`, `ml_carryExportRoot_sameTree`, `ml_goodMap_WF`
    (transport of `WF` / `ExportOK` / export content along equality up to the order of children); definition `ExportSized`;
    counterexamples: a word `#500`, the option `markHeads`.

  ---- part 3 (discobrackets: own reader, command-level identity) ----

  C03Disco — wave 12, C03 row 4 (and row 3) for the discobracket format: the tool's own discobracket reader on what its own
  discobracket writer produced.  To be appended to TT/Props/C03Total.lean (same namespace).

  Main theorems
  * `readDisco_write`       one line: `readBrackets { disco := true } (s ++ "\n") = .ok [(1, r)]` with `sameTree r (asReadBrackets t)`,
                            for `writeDisco {} t = .ok s`, `WF t`, `BracketsOK t`, parenthesis replacement the identity on the
                            LABELS.  No continuity hypothesis (the examples are discontinuous).
  * `readDisco_write_file`  k lines: ids 1..k, every sentence read back with the same tokens, labels, dominance.
  * `writeDisco_readback`   a tree with the content of `asReadBrackets t` (modulo child order) is written as the line of `t`.
  * `disco_disco_id`        C03 row 3: `runFrom [] .discobrackets {} none (readBrackets { disco := true } (s ++ "\n")) = .ok (s ++ "\n")`.
  * `disco_disco_id_file`   the same for a file of k lines.
  Helper lemmas (prefix `rd_`)
  * `rdSteps`, `rd_steps_cons`, `rd_steps_append`, `rd_loop_steps`   automaton steps that close no sentence; `brLoop` follows them
                            whatever the `disco` flag (it is consulted only when a sentence closes)
  * `rdTxt`, `rd_txt_leaf`, `rd_txt_node`, `rd_txt_head`, `rd_bracketsSub_plain`, `rd_write_text`   the writer's text
  * `RdOK`, `rd_leaf`, `rd_kids`, `rd_body`, `rd_node`, `rd_all`     lexer + automaton + post-pass on the text of a subtree, by
                            induction on the tree (tokens numbered in reading order, then renumbered by the index words)
  * `rdSentToks`, `rd_lex_sentence`, `rd_discoSentence`, `rd_find_zip`, `rd_tail`, `rd_word_at`   the sentence part
  * `rd_wordsToNums_eq`, `rd_wordsToNums_sortKids`, `rd_wordsToNums_asRead`, `rd_leaves_sortKids`, `rd_terminals_sortKids`,
    `rd_words_asRead`, `rd_writeDisco_eq`, `rd_mapM_write`          the writer on the tree read back
  * `rd_line`, `rd_file`    one line / all lines inside `brLoop`, for any options with `disco`, without `gfSplit`,
                            `replaceParens`, `discoReordered` (`RdOpts`)
  Examples: a discontinuous tree, a tree stored out of order with all-digit words and a word with square brackets, a file of
  two lines; what happens WITHOUT the final newline (the last word is lost: the lexer does not emit a buffered token at the end
  of the input — the command always writes the newline); the hypotheses on words and labels cannot be dropped.
-/
import TT.Props.C02Disco
import TT.Props.C03Run
import TT.Props.C01
import TT.Props.C18
import TT.Lemmas.More12i
import TT.Lemmas.OwnRT
import TT.Lemmas.Run
import TT.Props.C03Own

namespace TT.Props.C03Total
open TT TT.Tree TT.Spec
open TT.Lemmas.Run TT.Lemmas.ExportRT TT.Lemmas.WF TT.Props.C02Disco


local instance instDecEqExcept {ε α} [DecidableEq ε] [DecidableEq α] : DecidableEq (Except ε α)
  | .ok a, .ok b => decidable_of_iff (a = b) (by simp)
  | .error a, .error b => decidable_of_iff (a = b) (by simp)
  | .ok _, .error _ => isFalse (by simp)
  | .error _, .ok _ => isFalse (by simp)

/-- what the command puts around the sentences: the TIGER-XML document frame, nothing for the other formats -/
def frame (fmt : DestFmt) (enc : Option Str) (b : Str) : Str := if fmt = .tigerxml then tigerFrame enc b else b

/-- the command without transformations writes the frame around the concatenated sentence texts -/
theorem runFrom_body (fmt : DestFmt) (o : OutOpts) (enc : Option Str) (ts : List (Nat × Tree)) :
    runFrom [] fmt o enc (.ok ts) = (bodyText fmt o ts).map (frame fmt enc) := by
  rw [runFrom_ok, transformAll_nil_steps]
  show writeAll fmt o enc ts = _
  rw [writeAll_eq]
  cases bodyText fmt o ts with
  | error e => rfl
  | ok b => by_cases hf : fmt = .tigerxml <;> simp [hf, frame, bind, Except.bind, pure, Except.pure, Except.map]

/-- `runFrom_append` (multi-sentence lift): the file written for `a ++ b` is the frame around the sentence texts of `a`
    followed by those of `b`; it fails iff one of the parts fails (first error first) -/
theorem runFrom_append (fmt : DestFmt) (o : OutOpts) (enc : Option Str) (a b : List (Nat × Tree)) :
    runFrom [] fmt o enc (.ok (a ++ b)) =
      (do let x ← bodyText fmt o a; let y ← bodyText fmt o b; pure (frame fmt enc (x ++ y))) := by
  rw [runFrom_body, bodyText_append]
  cases bodyText fmt o a with
  | error e => rfl
  | ok x => cases bodyText fmt o b <;> rfl

/-- for the formats without a document frame: the conversion of a concatenation is the concatenation of the conversions -/
theorem runFrom_append_plain (fmt : DestFmt) (o : OutOpts) (enc : Option Str) (a b : List (Nat × Tree)) (hf : fmt ≠ .tigerxml) :
    runFrom [] fmt o enc (.ok (a ++ b)) =
      (do let x ← runFrom [] fmt o enc (.ok a); let y ← runFrom [] fmt o enc (.ok b); pure (x ++ y)) := by
  rw [runFrom_append, runFrom_body, runFrom_body]
  cases bodyText fmt o a with
  | error e => rfl
  | ok x => cases bodyText fmt o b <;> simp [frame, hf, bind, Except.bind, pure, Except.pure, Except.map]


/-! ### the command without transformations: success is success of the writer on every sentence -/

theorem runFrom_nil (fmt : DestFmt) (o : OutOpts) (enc : Option Str) (ts : List (Nat × Tree)) :
    runFrom [] fmt o enc (.ok ts) = writeAll fmt o enc ts := by
  rw [runFrom_ok, transformAll_nil_steps]; rfl

theorem mapM_ok_mem {α β : Type} (F : α → Except Err β) : ∀ (L : List α) (r : List β), L.mapM F = .ok r →
    ∀ a ∈ L, ∃ b, F a = .ok b
  | [], _, _, a, ha => by cases ha
  | x :: L, r, h, a, ha => by
    rw [List.mapM_cons] at h
    obtain ⟨b, hb, h⟩ := bind_ok _ _ _ h
    obtain ⟨bs, hbs, _⟩ := bind_ok _ _ _ h
    rcases List.mem_cons.1 ha with rfl | ha
    · exact ⟨b, hb⟩
    · exact mapM_ok_mem F L bs hbs a ha

/-- the whole file is written iff every sentence is -/
theorem writeAll_ok_iff (fmt : DestFmt) (o : OutOpts) (enc : Option Str) (ts : List (Nat × Tree)) :
    (∃ s, writeAll fmt o enc ts = .ok s) ↔ ∀ p ∈ ts, ∃ s, writeOne fmt o p.1 p.2 = .ok s := by
  rw [writeAll_eq]
  unfold bodyText
  constructor
  · rintro ⟨s, hs⟩
    obtain ⟨b, hb, _⟩ := bind_ok _ _ _ hs
    obtain ⟨body, hbody, _⟩ := bind_ok _ _ _ hb
    exact mapM_ok_mem _ ts body hbody
  · intro h
    rw [mapM_all_ok _ ts h]
    by_cases hf : fmt = .tigerxml <;> simp [hf, bind, Except.bind, pure, Except.pure]

/-- `runFrom` on a source that was read, no transformation: total iff the writer is total on every sentence -/
theorem runFrom_ok_iff (fmt : DestFmt) (o : OutOpts) (enc : Option Str) (src : Except Err (List (Nat × Tree)))
    (ts : List (Nat × Tree)) (h : src = .ok ts) :
    (∃ s, runFrom [] fmt o enc src = .ok s) ↔ ∀ p ∈ ts, ∃ s, writeOne fmt o p.1 p.2 = .ok s := by
  rw [h, runFrom_nil, writeAll_ok_iff]

/-! ### `runFrom_total_*` (C03 row 1): conversion into each destination format terminates successfully -/

/-- into export (v3 or v4, with or without grammatical functions): always, whatever fields the reader left absent -/
theorem runFrom_total_export (o : OutOpts) (ho : NoMarks o) (enc : Option Str) (src : Except Err (List (Nat × Tree)))
    (ts : List (Nat × Tree)) (h : src = .ok ts) : ∃ s, runFrom [] .export o enc src = .ok s := by
  refine (runFrom_ok_iff _ o enc src ts h).2 (fun p _ => ?_)
  obtain ⟨ls, hls⟩ := writeExport_total_plain o ho p.1 p.2
  exact ⟨_, by simp only [writeOne, hls]; rfl⟩

/-- into TIGER-XML: always, for every option record -/
theorem runFrom_total_tigerxml (o : OutOpts) (enc : Option Str) (src : Except Err (List (Nat × Tree)))
    (ts : List (Nat × Tree)) (h : src = .ok ts) : ∃ s, runFrom [] .tigerxml o enc src = .ok s :=
  (runFrom_ok_iff _ o enc src ts h).2 (fun _ _ => ⟨_, rfl⟩)

/-- into discobrackets: always (discontinuous trees included) -/
theorem runFrom_total_discobrackets (o : OutOpts) (ho : NoMarks o) (enc : Option Str) (src : Except Err (List (Nat × Tree)))
    (ts : List (Nat × Tree)) (h : src = .ok ts) : ∃ s, runFrom [] .discobrackets o enc src = .ok s := by
  refine (runFrom_ok_iff _ o enc src ts h).2 (fun p _ => ?_)
  obtain ⟨s, hs⟩ := writeDisco_total o ho p.2
  exact ⟨_, by simp only [writeOne, hs]; rfl⟩

/-- into the terminals format: unless the two contradictory options are given together -/
theorem runFrom_total_terminals (o : OutOpts) (ho : ¬ (o.terminalsPos = true ∧ o.posOnly = true)) (enc : Option Str)
    (src : Except Err (List (Nat × Tree))) (ts : List (Nat × Tree)) (h : src = .ok ts) :
    ∃ s, runFrom [] .terminals o enc src = .ok s :=
  (runFrom_ok_iff _ o enc src ts h).2 (fun p _ => (writeTerminals_total o p.2).2 ho)

/-- ... and with both options it fails as soon as there is a sentence -/
theorem runFrom_terminals_rejects (o : OutOpts) (ho : o.terminalsPos = true ∧ o.posOnly = true) (enc : Option Str)
    (src : Except Err (List (Nat × Tree))) (ts : List (Nat × Tree)) (h : src = .ok ts) (hne : ts ≠ []) :
    ¬ ∃ s, runFrom [] .terminals o enc src = .ok s := by
  intro hs
  obtain ⟨p, hp⟩ := List.exists_mem_of_ne_nil ts hne
  exact (writeTerminals_total o p.2).1 ((runFrom_ok_iff _ o enc src ts h).1 hs p hp) ho

/-- into brackets: exactly when the format can represent the trees — no sentence is discontinuous (token sets with a
    gap, `Spec.discontinuous`), or the option `brackets_skipdisco` is given -/
theorem runFrom_total_brackets (o : OutOpts) (ho : NoMarks o) (enc : Option Str) (src : Except Err (List (Nat × Tree)))
    (ts : List (Nat × Tree)) (h : src = .ok ts) :
    (∃ s, runFrom [] .brackets o enc src = .ok s) ↔ (∀ p ∈ ts, discontinuous p.2 = false) ∨ o.skipDisco = true := by
  rw [runFrom_ok_iff _ o enc src ts h]
  have key : ∀ p : Nat × Tree, (∃ s, writeOne .brackets o p.1 p.2 = .ok s) ↔ (discontinuous p.2 = false ∨ o.skipDisco = true) := by
    intro p
    have h1 := writeBrackets_total o ho p.2
    have h2 := gapDegree_pos_iff_discontinuous p.2
    have h3 : gapDegree p.2 = 0 ↔ discontinuous p.2 = false := by
      constructor
      · intro h0; cases hd : discontinuous p.2 with
        | false => rfl
        | true => have := h2.2 hd; omega
      · intro hd; by_cases h0 : gapDegree p.2 = 0
        · exact h0
        · have := h2.1 (by omega); rw [hd] at this; cases this
    rw [← h3, ← h1]
    simp only [writeOne]
    constructor
    · rintro ⟨s, hs⟩
      cases hw : writeBrackets o p.2 with
      | error e => rw [hw] at hs; cases hs
      | ok r => exact ⟨r, rfl⟩
    · rintro ⟨r, hr⟩; rw [hr]; exact ⟨_, rfl⟩
  constructor
  · intro hall
    by_cases hsk : o.skipDisco = true
    · exact Or.inr hsk
    · left; intro p hp
      rcases (key p).1 (hall p hp) with hd | hd
      · exact hd
      · exact absurd hd hsk
  · rintro (hall | hsk) p hp
    · exact (key p).2 (Or.inl (hall p hp))
    · exact (key p).2 (Or.inr hsk)


/-! ### a genuinely cross-format conversion: export -> TIGER-XML keeps everything both formats carry (C03 row 2) -/

theorem ct_carryTiger_stripW (x : Tree) : carryTiger (stripW x) = carryTiger x := by
  induction x using tree_ind with
  | hl n f => rw [stripW_leaf]
  | hn f ks ih =>
    rw [stripW_node, carryTiger, carryTiger, TT.Lemmas.TigerRT.carryTigerL_eq, TT.Lemmas.TigerRT.carryTigerL_eq, List.map_map]
    congr 1
    exact List.map_congr_left (fun k hk => ih k hk)

theorem ct_leftmost_carryTiger (x : Tree) : leftmost (carryTiger x) = leftmost x :=
  TT.Lemmas.Write.leftmost_of_perm _ _ (by rw [TT.Lemmas.TigerRT.leafNums_carryTiger])

theorem ct_sortKids_carryTiger (x : Tree) : sortKids (carryTiger x) = carryTiger (sortKids x) := by
  induction x using tree_ind with
  | hl n f => rfl
  | hn f ks ih =>
    rw [carryTiger, TT.Lemmas.TigerRT.carryTigerL_eq, sortKids_node, sortKids_node, carryTiger,
      TT.Lemmas.TigerRT.carryTigerL_eq, List.map_map]
    have : ks.map (sortKids ∘ carryTiger) = (ks.map sortKids).map carryTiger := by
      rw [List.map_map]; exact List.map_congr_left (fun k hk => ih k hk)
    rw [this, sortBy_map leftmost leftmost carryTiger ct_leftmost_carryTiger]

theorem ct_carryTigerRoot_eq (x : Tree) (h : x.isLeaf = false) :
    carryTigerRoot x = (carryTiger x).setFields fun f => { f with edge := some DEFAULT_EDGE } := by
  cases x with
  | leaf n f => cases h
  | node f ks => rfl

theorem ct_sortKids_setFields (x : Tree) (g : Fields → Fields) : sortKids (x.setFields g) = (sortKids x).setFields g := by
  cases x <;> rfl

/-- the TIGER content of a constituent only depends on its export-reader normal form (children sorted, word slot of
    constituents erased) -/
theorem ct_carryTigerRoot_nf (x : Tree) (h : x.isLeaf = false) :
    sortKids (carryTigerRoot x) = (carryTiger (nf x)).setFields fun f => { f with edge := some DEFAULT_EDGE } := by
  rw [ct_carryTigerRoot_eq x h, ct_sortKids_setFields]
  unfold nf
  rw [← ct_sortKids_carryTiger (stripW x), ct_carryTiger_stripW]

/-- the text of a list of lines -/
def unlines (ls : List Str) : Str := (ls.map (· ++ ['\n'])).flatten

/-- `export_to_tiger`: a sentence written in the export format and converted by the command into TIGER-XML decodes (with the
    independent TIGER decoder) to the content of the original tree that BOTH formats carry: `carryExportRoot {}` (labels, words,
    morphology, edge labels; the lemma column does not exist in version 3; the root is the virtual root) seen through
    `carryTigerRoot`.  Hypotheses: those of the export reader round trip `readExport_write'`. -/
theorem export_to_tiger (o : OutOpts) (enc : Option Str) (sid : Nat) (t : Tree) (ls : List Str)
    (h : writeExport {} sid t = .ok ls) (hwf : WF t = true) (hok : ExportOK {} t = true) (hN : t.leafNums.length < 500)
    (hE : ∀ s ∈ t.subtrees, s.isLeaf = true → "#EOS".toList.isPrefixOf (s.fields.word.getD []) = false) :
    ∃ xs : List Str, runFrom [] .tigerxml o enc (readExport {} (unlines ls)) = .ok (tigerFrame enc (unlines xs)) ∧
      ∃ s, decTiger xs = some s ∧ strToNat? s.sid = some sid ∧
        sameTree s.tree (carryTigerRoot (carryExportRoot {} t)) = true := by
  obtain ⟨r, hr, hnf⟩ := readExport_write_nf sid t ls h hwf hok hN hE
  obtain ⟨wc, _⟩ := writeExport_carry_WF {} ⟨rfl, rfl, rfl, rfl⟩ sid t hwf
  obtain ⟨wr, _⟩ := writeExport_of_nf_eq {} sid _ r wc hnf
  -- the number of tokens is that of `t`
  have hlen : r.leafNums.length = t.leafNums.length := by
    have h1 := (goodMap_sortKids.leafNums_perm (stripW r)).length_eq
    have h2 := (goodMap_sortKids.leafNums_perm (stripW (carryExportRoot {} t))).length_eq
    have h3 : (nf r).leafNums.length = (nf (carryExportRoot {} t)).leafNums.length := by rw [hnf]
    unfold nf at h3
    rw [h1, h2, leafNums_stripW, leafNums_stripW] at h3
    rw [h3]
    cases t with
    | leaf n f => simp [WF, isLeaf] at hwf
    | node f ks =>
      rw [carryExportRoot_node, leafNums_node, leafNums_node, carryExportL_eq, List.flatMap_map]
      exact congrArg List.length (TT.Lemmas.Write.flatMap_congr' _ _ ks (fun k _ => leafNums_carryExport {} k))
  obtain ⟨s, hs1, hs2, hs3⟩ := decTiger_write_root sid r wr (by rw [hlen]; exact hN)
  refine ⟨writeTiger sid r, ?_, s, hs1, hs2, ?_⟩
  · unfold unlines
    rw [hr, runFrom_ok, transformAll_nil_steps]
    show writeAll .tigerxml o enc [(sid, r)] = _
    rw [writeAll_tiger]
    unfold bodyText
    rw [List.mapM_cons, List.mapM_nil]
    simp [writeOne, bind, Except.bind, pure, Except.pure]
  · unfold sameTree at hs3 ⊢
    rw [eq_of_beq _ _ hs3, ct_carryTigerRoot_nf r (WF_isLeaf r wr), ct_carryTigerRoot_nf _ (WF_isLeaf _ wc), hnf]
    exact TT.Lemmas.Write.beq_refl _


/-! ### concrete instances -/

/-- a discontinuous sentence with non-default edges, a morphology field, XML-special characters and children stored out of order -/
def exX : Tree := node { label := "S".toList, edge := some "XX".toList }
  [leaf 2 { label := "B".toList, word := some "b&<".toList, edge := some "HD".toList, morph := some "3.Sg".toList, «lemma» := some "lem".toList },
   node { label := "VP".toList, edge := some "OC".toList } [leaf 3 { label := "C".toList, word := some "\"c\"".toList }, leaf 1 { label := "A".toList, word := some "a".toList }]]

def exXLines : List Str := ["#BOS 4".toList, "a\t\t\tA\t--\t\t--\t500".toList, "b&<\t\t\tB\t3.Sg\t\tHD\t0".toList,
    "\"c\"\t\t\tC\t--\t\t--\t500".toList, "#500\t\t\tVP\t--\t\tOC\t0".toList, "#EOS 4".toList]

example : writeExport {} 4 exX = .ok exXLines := by decide +kernel

/-- export -> TIGER-XML on `exX`: the decoded TIGER sentence is the export content of `exX` -/
example : ∃ xs : List Str, runFrom [] .tigerxml {} none (readExport {} (unlines exXLines)) = .ok (tigerFrame none (unlines xs)) ∧
    ∃ s, decTiger xs = some s ∧ strToNat? s.sid = some 4 ∧ sameTree s.tree (carryTigerRoot (carryExportRoot {} exX)) = true :=
  export_to_tiger {} none 4 exX exXLines (by decide +kernel) (by decide +kernel) (by decide +kernel) (by decide +kernel)
    (by decide +kernel)

/-- what is kept and what is not: words, POS, morphology and edges survive, the lemma (no column in export 3) and the root
    label / root edge (virtual root) do not -/
example : Tree.beq (carryTigerRoot (carryExportRoot {} exX))
    (node { label := "VROOT".toList, edge := some "--".toList }
      [leaf 2 { label := "B".toList, word := some "b&<".toList, «lemma» := some "--".toList, morph := some "3.Sg".toList, edge := some "HD".toList },
       node { label := "VP".toList, edge := some "OC".toList }
         [leaf 3 { label := "C".toList, word := some "\"c\"".toList, «lemma» := some "--".toList, morph := some "--".toList, edge := some "--".toList },
          leaf 1 { label := "A".toList, word := some "a".toList, «lemma» := some "--".toList, morph := some "--".toList, edge := some "--".toList }]]) = true := by
  decide +kernel

/-- totality on the same (discontinuous) sentence: every format but plain brackets -/
example : (∃ s, runFrom [] .export { gf := true, exportFour := true } none (.ok [(4, exX)]) = .ok s) ∧
    (∃ s, runFrom [] .tigerxml {} none (.ok [(4, exX)]) = .ok s) ∧
    (∃ s, runFrom [] .discobrackets { emptyRoot := true } none (.ok [(4, exX)]) = .ok s) ∧
    (∃ s, runFrom [] .terminals { terminalsPos := true } none (.ok [(4, exX)]) = .ok s) ∧
    (¬ ∃ s, runFrom [] .brackets {} none (.ok [(4, exX)]) = .ok s) ∧
    (∃ s, runFrom [] .brackets { skipDisco := true } none (.ok [(4, exX)]) = .ok s) := by
  refine ⟨runFrom_total_export _ (by decide) _ _ _ rfl, runFrom_total_tigerxml _ _ _ _ rfl,
    runFrom_total_discobrackets _ (by decide) _ _ _ rfl, runFrom_total_terminals _ (by decide) _ _ _ rfl, ?_, ?_⟩
  · rw [runFrom_total_brackets {} (by decide) none _ _ rfl]
    decide +kernel
  · exact (runFrom_total_brackets _ (by decide) none _ _ rfl).2 (Or.inr rfl)

/-! ### whatever reader the trees came from (C03 row 7) -/

/-- trees delivered by ANY reader call that succeeded can be written in every format that has fields the source format lacks -/
theorem brackets_to_any_total (io : InOpts) (text : Str) (ts : List (Nat × Tree)) (h : readBrackets io text = .ok ts)
    (o : OutOpts) (ho : NoMarks o) (enc : Option Str) :
    (∃ s, runFrom [] .export o enc (readBrackets io text) = .ok s) ∧
    (∃ s, runFrom [] .tigerxml o enc (readBrackets io text) = .ok s) ∧
    (∃ s, runFrom [] .discobrackets o enc (readBrackets io text) = .ok s) :=
  ⟨runFrom_total_export o ho enc _ ts h, runFrom_total_tigerxml o enc _ ts h, runFrom_total_discobrackets o ho enc _ ts h⟩

/-- `brackets_to_export_total`: every bracket text the specification grammar accepts converts into export (v3 or v4), although
    the bracket reader leaves lemma (and, under an empty root label, the edge) absent -/
theorem brackets_to_export_total (text : Str) (ds : List Tree) (h : specBrackets false text = some ds)
    (o : OutOpts) (ho : NoMarks o) (enc : Option Str) : ∃ s, runFrom [] .export o enc (readBrackets {} text) = .ok s :=
  runFrom_total_export o ho enc _ _ (TT.Props.C03Own.readBrackets_of_spec text ds h)

example : ∃ s, runFrom [] .export { exportFour := true } none (readBrackets {} "(S(NP(A a)(B b))(C c))\n( (T(D d)))\n".toList) = .ok s := by
  cases h : specBrackets false "(S(NP(A a)(B b))(C c))\n( (T(D d)))\n".toList with
  | none => exact absurd h (by decide +kernel)
  | some ds => exact brackets_to_export_total _ ds h _ (by decide) none

end TT.Props.C03Total

/-! ## part 2: files of several sentences; brackets -> export with content -/

namespace TT.Props.C03Total
open TT TT.Tree TT.Spec

local instance instDecEqExceptM {ε α} [DecidableEq ε] [DecidableEq α] : DecidableEq (Except ε α)
  | .ok a, .ok b => decidable_of_iff (a = b) (by simp)
  | .error a, .error b => decidable_of_iff (a = b) (by simp)
  | .ok _, .error _ => isFalse (by simp)
  | .error _, .ok _ => isFalse (by simp)
open TT.Lemmas.Run TT.Lemmas.ExportRT TT.Lemmas.WF TT.Props.C02Disco
open TT.Lemmas.Write TT.Lemmas.GramOut TT.Lemmas.OwnRT

/-! ### (A) multi-sentence lift of export -> export -/

/-- what a body line of a written sentence looks like to the reader's loop -/
def BodyLine (l : Str) : Prop := '\n' ∉ l ∧ strip l = l ∧ "#EOS".toList.isPrefixOf l = false

/-- the hypotheses of `export_export_id` on one sentence -/
def SentOK (t : Tree) : Prop :=
  WF t = true ∧ ExportOK {} t = true ∧ t.leafNums.length < 500 ∧
    ∀ s ∈ t.subtrees, s.isLeaf = true → "#EOS".toList.isPrefixOf (s.fields.word.getD []) = false

instance (t : Tree) : Decidable (SentOK t) := by unfold SentOK; infer_instance

/-- the lines of one written sentence: `#BOS sid`, body lines the loop collects unchanged and the sentence reader turns into
    the content of `t`, `#EOS sid` -/
theorem ml_sentence_facts (sid : Nat) (t : Tree) (ls : List Str) (h : writeExport {} sid t = .ok ls) (hs : SentOK t) :
    ∃ body r, ls = ["#BOS ".toList ++ natToStr sid] ++ body ++ ["#EOS ".toList ++ natToStr sid] ∧
      (∀ l ∈ body, BodyLine l) ∧ exportSentence {} body = .ok r ∧ nf r = nf (carryExportRoot {} t) := by
  obtain ⟨hwf, hok, hN, hE⟩ := hs
  have hne := WF_noEmpty t hwf
  obtain ⟨hls, hlines⟩ := writeExport_shape {} sid t ls h
  have hdec : ∀ p ∈ tokPaths t ++ consPaths t, decExpLine ({} : OutOpts).exportFour (lineAt {} t p) = some (entry {} t p) := by
    intro p hp
    obtain ⟨hp1, hp2⟩ := (mem_tok_cons t p).1 hp
    obtain ⟨l, hl⟩ := hlines p ((mem_nonRoot t p).2 ⟨hp1, hp2⟩)
    exact decode_lineAt {} t p l hne hok hp1 hl
  obtain ⟨r, hr, hnf⟩ := exportSentence_write t hwf hok hN hdec
  have hbody : ∀ l ∈ (tokPaths t ++ consPaths t).map (lineAt {} t), BodyLine l := by
    intro l hl
    obtain ⟨p, hp, rfl⟩ := List.mem_map.1 hl
    obtain ⟨hp1, hp2⟩ := (mem_tok_cons t p).1 hp
    obtain ⟨l', hl'⟩ := hlines p ((mem_nonRoot t p).2 ⟨hp1, hp2⟩)
    refine lineAt_loop_ok t p l' hne hok hp1 hl' ?_
    unfold wordOf
    split
    · rename_i hk
      rw [kids_isEmpty_eq_isLeaf _ (noEmpty_subAt t p hne hp1)] at hk
      exact hE _ (mem_subtrees_subAt t p hp1) hk
    · exact eos_not_prefix_hash _
  refine ⟨_, r, ?_, hbody, hr, hnf⟩
  rw [hls, List.append_assoc ["#BOS ".toList ++ natToStr sid], ← List.map_append]

/-- no written line contains a line break -/
theorem ml_frame_nonl (sid : Nat) (body : List Str) (hbody : ∀ l ∈ body, BodyLine l) :
    ∀ l ∈ ["#BOS ".toList ++ natToStr sid] ++ body ++ ["#EOS ".toList ++ natToStr sid], '\n' ∉ l := by
  intro l hl
  simp only [List.mem_append, List.mem_singleton] at hl
  rcases hl with (rfl | hl) | rfl
  · exact (frame_line_ok ("#BOS ".toList) sid (Or.inl bos_eq)).1
  · exact (hbody l hl).1
  · exact (frame_line_ok ("#EOS ".toList) sid (Or.inr eos_eq)).1

/-- the reader's loop over the lines of one sentence, whatever follows, whatever the counter and the sentences read before:
    one more sentence, with the id of its `#BOS` line -/
theorem ml_loop_sentence (sid : Nat) (body : List Str) (r : Tree) (rest : List Str) (tc : Nat) (acc : List (Nat × Tree))
    (hbody : ∀ l ∈ body, BodyLine l) (hsent : exportSentence {} body = .ok r) :
    exportLoop {} ((["#BOS ".toList ++ natToStr sid] ++ body ++ ["#EOS ".toList ++ natToStr sid]) ++ rest) none tc acc =
      exportLoop {} rest none (tc + 1) ((sid, r) :: acc) := by
  obtain ⟨_, hb2⟩ := frame_line_ok ("#BOS ".toList) sid (Or.inl bos_eq)
  obtain ⟨_, he2⟩ := frame_line_ok ("#EOS ".toList) sid (Or.inr eos_eq)
  rw [List.append_assoc, List.append_assoc, List.singleton_append,
    exportLoop_bos {} _ _ tc acc sid (by rw [hb2]; exact bos_prefix sid) (by
      rw [hb2, splitWs_bos]
      show (some (natToStr sid)).bind strToNat? = some sid
      exact strToNat_natToStr sid),
    exportLoop_collect {} tc acc sid body _ [] (fun l hl => (hbody l hl).2),
    List.singleton_append,
    exportLoop_eos {} _ _ tc acc sid _ r (by rw [he2]; exact eos_prefix sid) (by
      rw [List.append_nil, List.reverse_reverse]; exact hsent)]
  rfl

open TT.Lemmas.Proc TT.Props.C18 in
/-- `writeExport_complete`: the lines one sentence is written as are a complete block (one `#BOS`, lines that neither open nor
    close, one `#EOS`) and count as one sentence — the form `readExport_append` (C18) asks for -/
theorem ml_frame_complete (sid : Nat) (body : List Str) (hbody : ∀ l ∈ body, BodyLine l) :
    Complete (["#BOS ".toList ++ natToStr sid] ++ body ++ ["#EOS ".toList ++ natToStr sid]) ∧
    sentences (["#BOS ".toList ++ natToStr sid] ++ body ++ ["#EOS ".toList ++ natToStr sid]) = 1 := by
  obtain ⟨_, hb2⟩ := frame_line_ok ("#BOS ".toList) sid (Or.inl bos_eq)
  obtain ⟨_, he2⟩ := frame_line_ok ("#EOS ".toList) sid (Or.inr eos_eq)
  have hB : openStep false ("#BOS ".toList ++ natToStr sid) = true := by
    show isBOS (strip _) = true
    rw [hb2]; exact bos_prefix sid
  have hE : isEOS (strip ("#EOS ".toList ++ natToStr sid)) = true := by
    rw [he2]; exact eos_prefix sid
  have hEo : openStep true ("#EOS ".toList ++ natToStr sid) = false := by
    show (!isEOS (strip _)) = false
    rw [hE]; rfl
  have hEc : closes true ("#EOS ".toList ++ natToStr sid) = true := by
    show (true && isEOS (strip _)) = true
    rw [hE]; rfl
  have hbo : ∀ (b : List Str), (∀ l ∈ b, BodyLine l) → openAfter true b = true ∧ closedCount true b = 0 := by
    intro b
    induction b with
    | nil => intro _; exact ⟨rfl, rfl⟩
    | cons l b ih =>
      intro hb
      obtain ⟨_, h1, h2⟩ := hb l (by simp)
      have hs : isEOS (strip l) = false := by rw [h1]; exact h2
      have ho : openStep true l = true := by
        show (!isEOS (strip l)) = true
        rw [hs]; rfl
      have hc : closes true l = false := by
        show (true && isEOS (strip l)) = false
        rw [hs]; rfl
      obtain ⟨i1, i2⟩ := ih (fun x hx => hb x (by simp [hx]))
      rw [openAfter, closedCount, ho, hc, i1, i2]
      exact ⟨rfl, rfl⟩
  obtain ⟨b1, b2⟩ := hbo body hbody
  unfold Complete sentences
  rw [List.append_assoc, List.singleton_append, openAfter, closedCount, hB, openAfter_append, closedCount_append, b1, b2,
    openAfter, openAfter, closedCount, closedCount, hEo, hEc]
  exact ⟨rfl, rfl⟩

open TT.Lemmas.Proc TT.Props.C18 in
theorem writeExport_complete (sid : Nat) (t : Tree) (ls : List Str) (h : writeExport {} sid t = .ok ls) (hs : SentOK t) :
    Complete ls ∧ sentences ls = 1 ∧ ∀ l ∈ ls, '\n' ∉ l := by
  obtain ⟨body, r, rfl, hbody, _, _⟩ := ml_sentence_facts sid t ls h hs
  exact ⟨(ml_frame_complete sid body hbody).1, (ml_frame_complete sid body hbody).2, ml_frame_nonl sid body hbody⟩

open TT.Lemmas.Proc TT.Props.C18 in
/-- the same about the TEXT of the sentence, the form `readExport_append` / `readExport_append_ids` (C18) take: the lines of the
    text are complete and count as one sentence -/
theorem writeExport_complete_text (sid : Nat) (t : Tree) (ls : List Str) (h : writeExport {} sid t = .ok ls) (hs : SentOK t) :
    Complete (lines (unlines ls)) ∧ sentences (lines (unlines ls)) = 1 := by
  obtain ⟨h1, h2, h3⟩ := writeExport_complete sid t ls h hs
  unfold Complete sentences lines unlines at *
  rw [splitOnChar_lines ls h3, openAfter_append, closedCount_append, h1, h2]
  exact ⟨rfl, rfl⟩

open TT.Props.C18 in
/-- used with `readExport_append_ids`: whatever text `b` follows a written sentence (after an empty line), its trees follow
    the tree of the sentence -/
theorem readExport_sentence_then (sid : Nat) (t : Tree) (ls : List Str) (h : writeExport {} sid t = .ok ls) (hs : SentOK t)
    (b : Str) (rb : List (Nat × Tree)) (hb : readExport {} b = .ok rb) :
    ∃ r, readExport {} (unlines ls ++ '\n' :: b) = .ok ((sid, r) :: rb) ∧
      sameTree (stripW r) (stripW (carryExportRoot {} t)) = true := by
  obtain ⟨r, hr, hsame⟩ := TT.Props.C02Export.readExport_write' sid t ls h hs.1 hs.2.1 hs.2.2.1 hs.2.2.2
  exact ⟨r, readExport_append_ids {} (unlines ls) b (writeExport_complete_text sid t ls h hs).1 rfl _ rb hr hb, hsame⟩

example : TT.Props.C18.Complete exXLines ∧ TT.Props.C18.sentences exXLines = 1 ∧ ∀ l ∈ exXLines, '\n' ∉ l :=
  writeExport_complete 4 exX exXLines (by decide +kernel) (by decide +kernel)

/-- the export writer under options without decoration writes what the default options write: whole bodies -/
theorem ml_bodyText_plain (o : OutOpts) (ho : PlainOpts o) (h4 : o.exportFour = false) (ts : List (Nat × Tree)) :
    bodyText .export o ts = bodyText .export {} ts := by
  unfold bodyText
  simp only [writeOne, writeExport_plain_eq o ho h4]

theorem ml_bodyText_cons (fmt : DestFmt) (o : OutOpts) (p : Nat × Tree) (ts : List (Nat × Tree)) :
    bodyText fmt o (p :: ts) = (do let x ← writeOne fmt o p.1 p.2; let y ← bodyText fmt o ts; pure (x ++ y)) := by
  unfold bodyText
  rw [List.mapM_cons]
  cases writeOne fmt o p.1 p.2 with
  | error e => rfl
  | ok x =>
    cases (ts.mapM fun p => writeOne fmt o p.1 p.2) with
    | error e => rfl
    | ok ys => simp [bind, Except.bind, pure, Except.pure]

/-- what the reader delivers for one written sentence: the same id, the content of the tree (children in any order, the word
    slot of constituents not counted), and a tree that is written as the same text again -/
def ReadBack (r p : Nat × Tree) : Prop :=
  r.1 = p.1 ∧ sameTree (stripW r.2) (stripW (carryExportRoot {} p.2)) = true ∧
    writeOne .export {} r.1 r.2 = writeOne .export {} p.1 p.2

/-- `R` holds between the two lists position by position (and they have the same length) -/
def Each₂ {α β : Type} (R : α → β → Prop) : List α → List β → Prop
  | [], [] => True
  | a :: as, b :: bs => R a b ∧ Each₂ R as bs
  | _, _ => False

/-- the induction over the sentences of the file: the text is the text of lines without line breaks, over which the reader's
    loop — from any counter, with any sentences read before, whatever follows — delivers one tree per sentence -/
theorem ml_loop_file : ∀ (sents : List (Nat × Tree)) (text : Str), bodyText .export {} sents = .ok text →
    (∀ p ∈ sents, SentOK p.2) →
    ∃ (lines : List Str) (rs : List (Nat × Tree)), text = unlines lines ∧ (∀ l ∈ lines, '\n' ∉ l) ∧
      (∀ tc acc rest, exportLoop {} (lines ++ rest) none tc acc = exportLoop {} rest none (tc + sents.length) (rs.reverse ++ acc)) ∧
      Each₂ ReadBack rs sents
  | [], text, h, _ => by
    simp only [bodyText, List.mapM_nil, pure, Except.pure, bind, Except.bind, List.flatten_nil, Except.ok.injEq] at h
    exact ⟨[], [], by rw [← h]; rfl, by simp, fun _ _ _ => rfl, trivial⟩
  | p :: sents, text, h, hs => by
    rw [ml_bodyText_cons] at h
    obtain ⟨x, hx, h⟩ := bind_ok _ _ _ h
    obtain ⟨y, hy, h⟩ := bind_ok _ _ _ h
    simp only [pure, Except.pure, Except.ok.injEq] at h
    obtain ⟨lines, rs, hy', hnl, hloop, hall⟩ := ml_loop_file sents y hy (fun q hq => hs q (by simp [hq]))
    cases hw : writeExport {} p.1 p.2 with
    | error e => simp [writeOne, hw, Except.map] at hx
    | ok ls =>
      have hx' : x = unlines ls := by
        simp only [writeOne, hw, Except.map, Except.ok.injEq] at hx
        rw [← hx]; rfl
      have hp := hs p (by simp)
      obtain ⟨body, r, hls, hbody, hsent, hnf⟩ := ml_sentence_facts p.1 p.2 ls hw hp
      obtain ⟨wc, ec⟩ := writeExport_carry_WF {} ⟨rfl, rfl, rfl, rfl⟩ p.1 p.2 hp.1
      obtain ⟨_, er⟩ := writeExport_of_nf_eq {} p.1 _ r wc hnf
      refine ⟨ls ++ lines, (p.1, r) :: rs, ?_, ?_, ?_, ⟨⟨rfl, ?_, ?_⟩, hall⟩⟩
      · rw [← h, hx', hy']
        unfold unlines
        rw [List.map_append, List.flatten_append]
      · intro l hl
        rcases List.mem_append.1 hl with hl | hl
        · rw [hls] at hl; exact ml_frame_nonl p.1 body hbody l hl
        · exact hnl l hl
      · intro tc acc rest
        rw [List.append_assoc, hls, ml_loop_sentence p.1 body r _ tc acc hbody hsent, hloop]
        simp only [List.length_cons, List.reverse_cons, List.append_assoc, List.singleton_append]
        congr 1
        omega
      · unfold sameTree
        show Tree.beq (nf r) (nf (carryExportRoot {} p.2)) = true
        rw [hnf]; exact TT.Lemmas.Write.beq_refl _
      · show writeOne .export {} p.1 r = _
        simp only [writeOne, er, ec]

/-- the trees read back are written as the same text -/
theorem ml_bodyText_readBack : ∀ (rs sents : List (Nat × Tree)), Each₂ ReadBack rs sents →
    bodyText .export {} rs = bodyText .export {} sents
  | [], [], _ => rfl
  | r :: rs, p :: sents, h => by
    rw [ml_bodyText_cons, ml_bodyText_cons, h.1.2.2, ml_bodyText_readBack rs sents h.2]
  | [], _ :: _, h => h.elim
  | _ :: _, [], h => h.elim

/-- `export_export_id_file` (C03 row 3, the multi-sentence lift of `export_export_id`): a file with ANY number of sentences
    written by the command in the export format (options without label decoration, four-column layout) is read by the tool's own
    reader as the same sentences in the same order — the ids of the `#BOS` lines (they need be neither consecutive nor distinct),
    the content of every tree — and converting it export -> export gives the same text back.  Hypotheses per sentence: those of
    `export_export_id`. -/
theorem export_export_id_file (o : OutOpts) (ho : PlainOpts o) (h4 : o.exportFour = false) (sents : List (Nat × Tree)) (text : Str)
    (hw : runFrom [] .export o none (.ok sents) = .ok text) (hs : ∀ p ∈ sents, SentOK p.2) :
    (∃ rs, readExport {} text = .ok rs ∧ Each₂ ReadBack rs sents) ∧
    runFrom [] .export o none (readExport {} text) = .ok text := by
  have hb : bodyText .export {} sents = .ok text := by
    rw [runFrom_body, ml_bodyText_plain o ho h4] at hw
    cases hb : bodyText .export {} sents with
    | error e => rw [hb] at hw; cases hw
    | ok b => rw [hb] at hw; simpa [Except.map, frame] using hw
  obtain ⟨lines, rs, htext, hnl, hloop, hall⟩ := ml_loop_file sents text hb hs
  have hread : readExport {} text = .ok rs := by
    unfold readExport
    rw [htext]
    unfold unlines
    rw [splitOnChar_lines lines hnl, hloop, exportLoop_skip {} [] [] _ _ (by rw [strip_nil, bos4_eq]; rfl), exportLoop_nil]
    simp
  refine ⟨⟨rs, hread, hall⟩, ?_⟩
  rw [hread, runFrom_body, ml_bodyText_plain o ho h4, ml_bodyText_readBack rs sents hall, hb]
  simp [Except.map, frame]

/-- in particular the sentence ids come back in order -/
theorem each₂_readBack_ids : ∀ (rs sents : List (Nat × Tree)), Each₂ ReadBack rs sents → rs.map (·.1) = sents.map (·.1)
  | [], [], _ => rfl
  | r :: rs, p :: sents, h => by rw [List.map_cons, List.map_cons, h.1.1, each₂_readBack_ids rs sents h.2]
  | [], _ :: _, h => h.elim
  | _ :: _, [], h => h.elim

/-- the two-sentence case spelled out with the lines of the two sentences -/
theorem export_export_id_two (o : OutOpts) (ho : PlainOpts o) (h4 : o.exportFour = false) (s1 s2 : Nat) (t1 t2 : Tree)
    (l1 l2 : List Str) (h1 : writeExport o s1 t1 = .ok l1) (h2 : writeExport o s2 t2 = .ok l2) (ok1 : SentOK t1) (ok2 : SentOK t2) :
    (∃ r1 r2, readExport {} (unlines l1 ++ unlines l2) = .ok [(s1, r1), (s2, r2)] ∧
      sameTree (stripW r1) (stripW (carryExportRoot {} t1)) = true ∧ sameTree (stripW r2) (stripW (carryExportRoot {} t2)) = true) ∧
    runFrom [] .export o none (readExport {} (unlines l1 ++ unlines l2)) = .ok (unlines l1 ++ unlines l2) := by
  have hw : runFrom [] .export o none (.ok [(s1, t1), (s2, t2)]) = .ok (unlines l1 ++ unlines l2) := by
    rw [runFrom_body, ml_bodyText_cons, ml_bodyText_cons]
    simp only [writeOne, h1, h2]
    simp [bodyText, Except.map, frame, bind, Except.bind, pure, Except.pure, unlines]
  obtain ⟨⟨rs, hr, hall⟩, hrun⟩ := export_export_id_file o ho h4 _ _ hw (by
    intro p hp
    simp only [List.mem_cons, List.not_mem_nil, or_false] at hp
    rcases hp with rfl | rfl
    · exact ok1
    · exact ok2)
  refine ⟨?_, hrun⟩
  match rs, hall with
  | [(i1, r1), (i2, r2)], hall =>
    obtain ⟨⟨a1, a2, _⟩, ⟨b1, b2, _⟩, _⟩ := hall
    have a1' : i1 = s1 := a1
    have b1' : i2 = s2 := b1
    subst a1' b1'
    exact ⟨r1, r2, hr, a2, b2⟩

/-! concrete file: four sentences — a discontinuous one with non-default edges and morphology, a one-token sentence, the
    discontinuous tree of C02Export stored out of order, another one-token sentence — with ids that are neither consecutive nor distinct -/

def exFile : List (Nat × Tree) := [(9, exX), (2, node { label := "S".toList } [leaf 1 { label := "A".toList, word := some "a".toList }]),
  (7, TT.Props.C02Export.exT), (2, node { label := "S".toList } [leaf 1 { label := "B".toList, word := some "b".toList }])]

def exFileText : Str := (unlines ["#BOS 9".toList, "a\t\t\tA\t--\t\t--\t500".toList, "b&<\t\t\tB\t3.Sg\t\tHD\t0".toList,
    "\"c\"\t\t\tC\t--\t\t--\t500".toList, "#500\t\t\tVP\t--\t\tOC\t0".toList, "#EOS 9".toList,
    "#BOS 2".toList, "a\t\t\tA\t--\t\t--\t0".toList, "#EOS 2".toList]) ++ unlines TT.Props.C02Export.exLines ++
  unlines ["#BOS 2".toList, "b\t\t\tB\t--\t\t--\t0".toList, "#EOS 2".toList]

example : runFrom [] .export {} none (.ok exFile) = .ok exFileText := by decide +kernel

example : (∃ rs, readExport {} exFileText = .ok rs ∧ Each₂ ReadBack rs exFile) ∧
    runFrom [] .export {} none (readExport {} exFileText) = .ok exFileText :=
  export_export_id_file {} (by decide) rfl exFile exFileText (by decide +kernel) (by decide +kernel)

/-- the ids read are the `#BOS` numbers 9, 2, 7, 2 -/
example : (readExport {} exFileText).toOption.map (·.map (·.1)) = some [9, 2, 7, 2] := by decide +kernel

/-! ### (B) brackets -> export -/

theorem ml_sortKids_fields (s : Tree) : (sortKids s).fields = s.fields := by
  cases s with
  | leaf n f => simp [sortKids, fields]
  | node f ks => rw [sortKids_node]; rfl

/-- the printed label of a constituent looks at its fields and at whether it has children -/
theorem ml_printedLabel_node (o : OutOpts) (f : Fields) (ks ks' : List Tree) (h : ks'.isEmpty = ks.isEmpty) :
    printedLabel o (node f ks') = printedLabel o (node f ks) := by
  cases ks <;> cases ks' <;> first | rfl | simp at h

theorem ml_getLabel_node (o : OutOpts) (f : Fields) (ks ks' : List Tree) (h : ks'.isEmpty = ks.isEmpty) :
    getLabel o ((node f ks').setFields fun f => { f with edge := some (f.edge.getD DEFAULT_EDGE) }) =
    getLabel o ((node f ks).setFields fun f => { f with edge := some (f.edge.getD DEFAULT_EDGE) }) := by
  cases ks <;> cases ks' <;> first | rfl | simp at h

theorem ml_sortKids_isEmpty (f : Fields) (ks : List Tree) : (sortBy leftmost (ks.map sortKids)).isEmpty = ks.isEmpty := by
  have := goodMap_sortKids.kidsEmpty_eq (node f ks)
  rw [sortKids_node] at this
  exact this

/-- what the export format can represent does not depend on the order in which children are stored -/
theorem ml_exportOK_sortKids (o : OutOpts) (x : Tree) : ExportOK o (sortKids x) = ExportOK o x := by
  have hp := goodMap_sortKids.subtrees_perm x
  unfold ExportOK
  rw [hp.all_eq, (hp.filter _).length_eq, hp.all_eq, List.all_map, List.filter_map, List.length_map, List.all_map]
  have e1 : ∀ s : Tree, printedLabel o (sortKids s) = printedLabel o s := by
    intro s
    cases s with
    | leaf n f => simp [sortKids]
    | node f ks => rw [sortKids_node]; exact ml_printedLabel_node o f _ _ (ml_sortKids_isEmpty f ks)
  have e2 : ∀ s : Tree, (sortKids s).isLeaf = s.isLeaf := goodMap_sortKids.isLeaf_eq
  have e3 : ∀ s : Tree, getLabel o ((sortKids s).setFields fun f => { f with edge := some (f.edge.getD DEFAULT_EDGE) }) =
      getLabel o (s.setFields fun f => { f with edge := some (f.edge.getD DEFAULT_EDGE) }) := by
    intro s
    cases s with
    | leaf n f => simp [sortKids]
    | node f ks => rw [sortKids_node]; exact ml_getLabel_node o f _ _ (ml_sortKids_isEmpty f ks)
  simp only [Function.comp_def, e1, e2, e3, ml_sortKids_fields]

/-- a map that keeps tokens and constituents keeps well-formedness -/
theorem ml_goodMap_WF {g : Tree → Tree} (hg : GoodMap g) (x : Tree) (h : WF x = true) : WF (g x) = true :=
  WF_of_perm x (g x) h (hg.leafNums_perm x) (by rw [hg.noEmpty_eq]; exact WF_noEmpty _ h)
    (by rw [hg.isLeaf_eq]; exact WF_isLeaf _ h)

/-- without head and split marks, a node whose edge label is the default `--` is printed with its bare label (a grammatical
    function is never appended for an edge that starts with `-`) -/
theorem ml_printedLabel_dash (o : OutOpts) (ho : NoMarks o) (s : Tree) (he : s.fields.edge = some DEFAULT_EDGE) :
    printedLabel o s = s.fields.label := by
  obtain ⟨h1, h2, h3⟩ := ho
  apply printedLabel_eq_of_ok
  unfold getLabel
  have hd : (DEFAULT_EDGE.head? = some '-') := rfl
  simp [h1, h2, h3, he, hd, bind, Except.bind, pure, Except.pure]

theorem ml_asRead_edge (s : Tree) : (asReadBrackets s).fields.edge = some DEFAULT_EDGE := by
  cases s with
  | leaf n f => rw [asRead_leaf]; rfl
  | node f ks => rw [asRead_node]; rfl

theorem ml_asRead_label (s : Tree) : (asReadBrackets s).fields.label = s.fields.label := by
  cases s with
  | leaf n f => rw [asRead_leaf]; rfl
  | node f ks => rw [asRead_node]; rfl

/-- the hypotheses of `brackets_to_export` beyond those of the bracket round trip: what the export format needs -/
def ExportSized (t : Tree) : Prop :=
  t.leafNums.length < 500 ∧ (t.subtrees.filter fun s => !s.isLeaf).length < 500 ∧
    ∀ s ∈ t.subtrees, s.isLeaf = true → consNumber (s.fields.word.getD []) = none

instance (t : Tree) : Decidable (ExportSized t) := by unfold ExportSized; infer_instance

/-- what the bracket reader delivers for a representable tree is representable in the export format, whatever the options
    (without head / split marks) -/
theorem ml_exportOK_asRead (o : OutOpts) (ho : NoMarks o) (t : Tree) (hok : BracketsOK t = true) (hs : ExportSized t) :
    ExportOK o (asReadBrackets t) = true := by
  obtain ⟨_, hC, hW⟩ := hs
  have hp := goodMap_asRead.subtrees_perm t
  unfold BracketsOK at hok
  simp only [List.all_eq_true] at hok
  unfold ExportOK
  simp only [Bool.and_eq_true, List.all_eq_true, decide_eq_true_eq]
  refine ⟨⟨?_, ?_⟩, ?_⟩
  · intro s' hs'
    obtain ⟨s, hs, rfl⟩ := List.mem_map.1 (hp.mem_iff.1 hs')
    have hb := hok s hs
    simp only [Bool.and_eq_true] at hb
    rw [ml_printedLabel_dash o ho _ (ml_asRead_edge s), ml_asRead_label]
    refine ⟨⟨⟨⟨hb.1.1, ?_⟩, ?_⟩, ?_⟩, ?_⟩
    · cases s with
      | leaf n f => rw [asRead_leaf]; show fieldOK DEFAULT_MORPH = true; decide
      | node f ks => rw [asRead_node]; show fieldOK DEFAULT_MORPH = true; decide
    · rw [ml_asRead_edge]; decide
    · cases s with
      | leaf n f => rw [asRead_leaf]; show fieldOK DEFAULT_LEMMA = true; decide
      | node f ks => rw [asRead_node]; show fieldOK DEFAULT_LEMMA = true; decide
    · cases s with
      | node f ks => rw [asRead_node]; rfl
      | leaf n f =>
        rw [asRead_leaf]
        have hw := hW _ hs rfl
        have hb2 := hb.2
        simp only [isLeaf, fields, Bool.not_true, Bool.false_or] at hb2 hw ⊢
        cases hfw : f.word with
        | none => rw [hfw] at hb2; cases hb2
        | some w =>
          rw [hfw] at hb2 hw
          simp only [Bool.and_eq_true] at hb2
          simp only [Option.getD_some] at hw ⊢
          rw [hb2.1, hw]; rfl
  · rw [(hp.filter _).length_eq, List.filter_map, List.length_map]
    have : ((fun s => !s.isLeaf) ∘ asReadBrackets) = fun s : Tree => !s.isLeaf := by
      funext s; simp only [Function.comp, goodMap_asRead.isLeaf_eq]
    rw [this]; exact hC
  · intro s' _
    obtain ⟨l, hl⟩ := getLabel_total o ho (s'.setFields fun f => { f with edge := some (f.edge.getD DEFAULT_EDGE) })
    rw [hl]

/-- the content an export file holds does not depend on the order in which children are stored -/
theorem ml_sortKids_carryExport (o : OutOpts) (x : Tree) : sortKids (carryExport o x) = carryExport o (sortKids x) := by
  induction x using tree_ind with
  | hl n f => simp [sortKids, carryExport]
  | hn f ks ih =>
    rw [sortKids_node, carryExport, carryExport, carryExportL_eq, carryExportL_eq, sortKids_node, List.map_map]
    have : ks.map (sortKids ∘ carryExport o) = (ks.map sortKids).map (carryExport o) := by
      rw [List.map_map]; exact List.map_congr_left (fun k hk => ih k hk)
    rw [this, sortBy_map leftmost leftmost (carryExport o) (goodMap_carryExport o).leftmost_eq,
      ml_printedLabel_node o f _ _ (ml_sortKids_isEmpty f ks)]

theorem ml_sortKids_carryExportRoot (o : OutOpts) (x : Tree) :
    sortKids (carryExportRoot o x) = carryExportRoot o (sortKids x) := by
  cases x with
  | leaf n f => simp [sortKids, carryExportRoot, carryExport]
  | node f ks =>
    have h := ml_sortKids_carryExport o (node f ks)
    rw [sortKids_node, carryExport, carryExport, carryExportL_eq, carryExportL_eq, sortKids_node] at h
    rw [sortKids_node, carryExportRoot_node, carryExportRoot_node, carryExportL_eq, carryExportL_eq, sortKids_node]
    injection h with _ hk
    rw [hk]

/-- `carryExportRoot o` respects equality up to the order of children -/
theorem ml_carryExportRoot_sameTree (o : OutOpts) (x y : Tree) (h : sameTree x y = true) :
    sameTree (carryExportRoot o x) (carryExportRoot o y) = true := by
  unfold sameTree
  rw [ml_sortKids_carryExportRoot, ml_sortKids_carryExportRoot, sortKids_eq_of_sameTree x y h]
  exact TT.Lemmas.Write.beq_refl _

/-- `brackets_to_export` (C03 rows 2 and 7): trees from a format without lemma, morphology or edge information can be written
    in a format that has those fields, and nothing the source carried is lost.  A tree `t` is written in the bracket format
    (`s`), the command converts that file into the export format (version 3 or 4, with or without grammatical functions; no
    head / split marks, which the bracket reader cannot deliver), and the INDEPENDENT export decoder `decExport` recovers from
    the lines written exactly what the bracket reader delivered for `t` (`asReadBrackets t`: labels and words; lemma `--`,
    morphology `--`, edge `--`), seen as export content (`carryExportRoot o`), as sentence number 1.
    Hypotheses: those of the bracket round trip `own_roundtrip_brackets`, and `ExportSized t` (fewer than 500 tokens and 500
    constituents, no word of the form `#ddd`). -/
theorem brackets_to_export (o : OutOpts) (ho : NoMarks o) (t : Tree) (s : Str) (hwf : WF t = true) (hc : gapDegree t = 0)
    (hok : BracketsOK t = true)
    (hp : ∀ x ∈ t.subtrees, replaceParens x.fields.label = x.fields.label ∧ (x.fields.word.map replaceParens) = x.fields.word)
    (h : bracketsSub {} false t = .ok s) (hs : ExportSized t) :
    ∃ ls, runFrom [] .export o none (readBrackets {} (s ++ ['\n'])) = .ok (unlines ls) ∧
      ∃ e, decExport o.exportFour ls = some e ∧ e.sid = 1 ∧
        sameTree e.tree (carryExportRoot o (asReadBrackets t)) = true := by
  obtain ⟨r, hr, hsame⟩ := TT.Props.C03Own.own_roundtrip_brackets t s hwf hc hok hp h
  have hsk := sortKids_eq_of_sameTree _ _ hsame
  have wa : WF (asReadBrackets t) = true := ml_goodMap_WF goodMap_asRead t hwf
  have wr : WF r = true :=
    goodMap_WF_inv goodMap_sortKids r (by rw [hsk]; exact ml_goodMap_WF goodMap_sortKids _ wa)
  have okr : ExportOK o r = true := by
    rw [← ml_exportOK_sortKids, hsk, ml_exportOK_sortKids]
    exact ml_exportOK_asRead o ho t hok hs
  have hN : r.leafNums.length < 500 := by
    have h1 := (goodMap_sortKids.leafNums_perm r).length_eq
    have h2 := (goodMap_sortKids.leafNums_perm (asReadBrackets t)).length_eq
    rw [hsk] at h1
    rw [← h1, h2, leafNums_asRead]
    exact hs.1
  obtain ⟨ls, hls⟩ := writeExport_total_plain o ho 1 r
  obtain ⟨e, he, hsid, hst, _⟩ := TT.Props.C02Export.decExport_write' o 1 r ls hls wr okr hN
  refine ⟨ls, ?_, e, he, hsid, ?_⟩
  · rw [hr, runFrom_body]
    unfold bodyText
    rw [List.mapM_cons, List.mapM_nil]
    simp [writeOne, hls, unlines, frame, Except.map, bind, Except.bind, pure, Except.pure]
  · unfold sameTree at hst ⊢
    rw [eq_of_beq _ _ hst, ml_sortKids_carryExportRoot, hsk, ← ml_sortKids_carryExportRoot]
    exact TT.Lemmas.Write.beq_refl _

/-! concrete instance: the source tree carries a lemma, morphology, edge labels and a head mark, none of which the bracket
    format holds; children are stored out of order; one word looks almost like a constituent reference -/

def exBE : Tree := node { label := "ROOT".toList, edge := some "X".toList, morph := some "m".toList }
  [leaf 3 { label := "$.".toList, word := some ".".toList },
   node { label := "S".toList, edge := some "HD".toList, «lemma» := some "q".toList }
    [leaf 2 { label := "V".toList, word := some "#50".toList, edge := some "HD".toList, morph := some "3.Sg".toList,
              «lemma» := some "see".toList, head := some true },
     node { label := "NP".toList } [leaf 1 { label := "D".toList, word := some "the".toList }]]]

example : bracketsSub {} false exBE = .ok "(ROOT(S(NP(D the))(V #50))($. .))".toList := by decide +kernel

/-- the conversion into export 4 with grammatical functions, and what the independent decoder finds in the lines -/
example : ∃ ls, runFrom [] .export { gf := true, exportFour := true } none (readBrackets {} ("(ROOT(S(NP(D the))(V #50))($. .))".toList ++ ['\n'])) =
      .ok (unlines ls) ∧
    ∃ e, decExport true ls = some e ∧ e.sid = 1 ∧
      sameTree e.tree (carryExportRoot { gf := true, exportFour := true } (asReadBrackets exBE)) = true :=
  brackets_to_export { gf := true, exportFour := true } (by decide) exBE _ (by decide +kernel) (by decide +kernel) (by decide +kernel)
    (by decide +kernel) (by decide +kernel) (by decide +kernel)

/-- the file written (lemma column `--`, morphology `--`, edges `--`) -/
example : runFrom [] .export { gf := true, exportFour := true } none (readBrackets {} ("(ROOT(S(NP(D the))(V #50))($. .))".toList ++ ['\n'])) =
    .ok "#BOS 1\nthe\t\t\t--\t\t\tD\t--\t\t--\t500\n#50\t\t\t--\t\t\tV\t--\t\t--\t501\n.\t\t\t--\t\t\t$.\t--\t\t--\t0\n#500\t\t\t--\t\t\tNP\t--\t\t--\t501\n#501\t\t\t--\t\t\tS\t--\t\t--\t0\n#EOS 1\n".toList := by
  decide +kernel

/-- the content recovered: labels and words of `exBE`; lemma, morphology, edges are the defaults; the root is the virtual root -/
example : sameTree (carryExportRoot { gf := true, exportFour := true } (asReadBrackets exBE))
    (node { label := "VROOT".toList, edge := some "--".toList }
      [node { label := "S".toList, «lemma» := some "--".toList, morph := some "--".toList, edge := some "--".toList }
        [node { label := "NP".toList, «lemma» := some "--".toList, morph := some "--".toList, edge := some "--".toList }
          [leaf 1 { label := "D".toList, word := some "the".toList, «lemma» := some "--".toList, morph := some "--".toList, edge := some "--".toList }],
         leaf 2 { label := "V".toList, word := some "#50".toList, «lemma» := some "--".toList, morph := some "--".toList, edge := some "--".toList }],
       leaf 3 { label := "$.".toList, word := some ".".toList, «lemma» := some "--".toList, morph := some "--".toList, edge := some "--".toList }]) = true := by
  decide +kernel

/-- the hypothesis on the words cannot be dropped: a token `#500` meets every other hypothesis, the command succeeds, but the
    file has two lines that start with `#500` and the decoder rejects it -/
def exBE500 : Tree := node { label := "S".toList }
  [node { label := "NP".toList } [leaf 1 { label := "D".toList, word := some "#500".toList }], leaf 2 { label := "V".toList, word := some "v".toList }]

example : WF exBE500 = true ∧ gapDegree exBE500 = 0 ∧ BracketsOK exBE500 = true ∧
    (∀ x ∈ exBE500.subtrees, replaceParens x.fields.label = x.fields.label ∧ (x.fields.word.map replaceParens) = x.fields.word) ∧
    bracketsSub {} false exBE500 = .ok "(S(NP(D #500))(V v))".toList ∧ ¬ ExportSized exBE500 ∧
    runFrom [] .export {} none (readBrackets {} ("(S(NP(D #500))(V v))".toList ++ ['\n'])) =
      .ok (unlines ["#BOS 1".toList, "#500\t\t\tD\t--\t\t--\t500".toList, "v\t\t\tV\t--\t\t--\t0".toList,
        "#500\t\t\tNP\t--\t\t--\t0".toList, "#EOS 1".toList]) ∧
    decExport false ["#BOS 1".toList, "#500\t\t\tD\t--\t\t--\t500".toList, "v\t\t\tV\t--\t\t--\t0".toList,
        "#500\t\t\tNP\t--\t\t--\t0".toList, "#EOS 1".toList] = none := by decide +kernel

/-- nor can `NoMarks`: the bracket reader delivers no head information, with `markHeads` the export writer refuses the tree -/
example : runFrom [] .export { markHeads := true } none (readBrackets {} ("(ROOT(S(NP(D the))(V #50))($. .))".toList ++ ['\n'])) =
    .error .keyError := by decide +kernel


end TT.Props.C03Total

/-! ## part 3: the tool's own discobracket reader on its own writer's output -/

namespace TT.Props.C03Total
open TT TT.Tree TT.Spec
open TT.Lemmas.Read TT.Lemmas.OwnRT TT.Lemmas.WF TT.Lemmas.More12i TT.Lemmas.Write TT.Lemmas.GramOut
open TT.Props.C03Own (plainSub plainKids)

/-! ### steps of the automaton that complete no sentence -/

/-- run the automaton over tokens none of which completes a sentence -/
def rdSteps (o : InOpts) : BrState → List (Str × LexClass) → Option BrState
  | st, [] => some st
  | st, tok :: rest =>
    match brStep o st tok with
    | .ok (st', none) => rdSteps o st' rest
    | _ => none

theorem rd_steps_cons (o : InOpts) (st st' : BrState) (tok : Str × LexClass) (rest : List (Str × LexClass))
    (h : brStep o st tok = .ok (st', none)) : rdSteps o st (tok :: rest) = rdSteps o st' rest := by
  simp [rdSteps, h]

theorem rd_steps_append (o : InOpts) : ∀ (a b : List (Str × LexClass)) (st st' : BrState),
    rdSteps o st a = some st' → rdSteps o st (a ++ b) = rdSteps o st' b
  | [], b, st, st', h => by simp only [rdSteps, Option.some.injEq] at h; subst h; rfl
  | tok :: a, b, st, st', h => by
    simp only [rdSteps, List.cons_append] at h ⊢
    cases hs : brStep o st tok with
    | error e => rw [hs] at h; cases h
    | ok x =>
      obtain ⟨st1, r⟩ := x
      cases r with
      | none => rw [hs] at h; exact rd_steps_append o a b st1 st' h
      | some t => rw [hs] at h; cases h

/-- the reader loop follows such steps (the `disco` flag is consulted only when a sentence closes) -/
theorem rd_loop_steps (o : InOpts) : ∀ (pre : List (Str × LexClass)) (st st' : BrState) (rest : List (Str × LexClass)) (fuel : Nat),
    rdSteps o st pre = some st' → pre.length + rest.length < fuel →
    ∃ fuel', rest.length < fuel' ∧ brLoop o fuel st (pre ++ rest) = brLoop o fuel' st' rest
  | [], st, st', rest, fuel, h, hf => by
    simp only [rdSteps, Option.some.injEq] at h; subst h
    exact ⟨fuel, by simpa using hf, rfl⟩
  | tok :: pre, st, st', rest, fuel, h, hf => by
    obtain ⟨g, rfl⟩ : ∃ g, fuel = g + 1 := ⟨fuel - 1, by simp at hf; omega⟩
    simp only [rdSteps] at h
    cases hs : brStep o st tok with
    | error e => rw [hs] at h; cases h
    | ok x =>
      obtain ⟨st1, r⟩ := x
      cases r with
      | some t => rw [hs] at h; cases h
      | none =>
        rw [hs] at h
        obtain ⟨fuel', h1, h2⟩ := rd_loop_steps o pre st1 st' rest g h (by simp at hf; omega)
        refine ⟨fuel', h1, ?_⟩
        rw [List.cons_append, brLoop, hs]
        exact h2

/-! ### the text of the index tree -/

/-- the tree part of a discobracket line when no parenthesis needs replacing -/
def rdTxt (x : Tree) : Str := plainSub (wordsToNums x)

theorem rd_plainKids : ∀ L : List Tree, plainKids L = L.map fun k => (leftmost k, plainSub k)
  | [] => by rw [plainKids]; rfl
  | k :: L => by rw [plainKids, rd_plainKids L]; rfl

theorem rd_leftmost_wordsToNums (x : Tree) : leftmost (wordsToNums x) = leftmost x :=
  TT.Lemmas.Trans.leftmost_of_perm _ _ (by rw [leafNums_wordsToNums])

theorem rd_txt_leaf (n : Nat) (f : Fields) : rdTxt (leaf n f) = '(' :: (f.label ++ ' ' :: (natToStr n ++ [')'])) := by
  simp [rdTxt, wordsToNums, plainSub]

theorem rd_txt_node (f : Fields) (ks : List Tree) (hne : ks ≠ []) :
    rdTxt (node f ks) = '(' :: (f.label ++ (((sortBy leftmost ks).map rdTxt).flatten ++ [')'])) := by
  have he : (ks.map wordsToNums).isEmpty = false := by cases ks <;> simp_all
  unfold rdTxt
  rw [wordsToNums_node, plainSub]
  simp only [he, Bool.false_eq_true, if_false, rd_plainKids, List.map_map]
  have : (ks.map ((fun k => (leftmost k, plainSub k)) ∘ wordsToNums)) = ks.map fun k => (leftmost k, rdTxt k) :=
    List.map_congr_left (fun k _ => by simp [rd_leftmost_wordsToNums, rdTxt])
  rw [this, sortBy_map_keyed]
  simp
  rfl

theorem rd_txt_head (x : Tree) : ∃ r, rdTxt x = '(' :: r := by
  cases x with
  | leaf n f => exact ⟨_, rd_txt_leaf n f⟩
  | node f ks =>
    by_cases hne : ks = []
    · subst hne; exact ⟨_, by simp [rdTxt, wordsToNums, wordsToNumsL, plainSub]; rfl⟩
    · exact ⟨_, rd_txt_node f ks hne⟩

theorem rd_tokStr_nat (n : Nat) : TokStr (natToStr n) := by
  refine ⟨natToStr_ne_nil n, fun c hc => ?_⟩
  have hd := natToStr_isDigit n c hc
  rw [isTokC_iff]
  refine ⟨?_, ?_, ?_⟩
  · exact isDigit_not_space c hd
  · rintro rfl; revert hd; decide
  · rintro rfl; revert hd; decide

/-! ### the automaton on the text of the index tree -/

/-- the word the post-pass gives token `n` -/
def rdW (tm : List (Nat × Str)) (n : Nat) : Option Str := some (((tm.find? (·.1 == n)).map (·.2)).getD "0".toList)

/-- the text of `x` is lexed on its own, takes the automaton from inside a constituent to "child attached", and the
    post-pass turns the attached child into `x` (tokens renumbered by their index words, words looked up in `tm`) -/
def RdOK (tm : List (Nat × Str)) (x : Tree) : Prop :=
  ∃ pre : List (Str × LexClass), (∀ rest, bracketLex (rdTxt x ++ rest) = pre ++ bracketLex rest) ∧
    ∀ (o : InOpts) (st : BrState) (q : List QNode) (p : QNode) (L : Nat), o.gfSplit = false →
      (st.state = 2 ∨ st.state = 3 ∨ st.state = 5) → st.queue = q ++ [p] → st.level = L + 1 →
      ∃ d d', rdSteps o st pre = some { st with state := 5, queue := q ++ [{ p with kids := p.kids ++ [d] }], termCnt := st.termCnt + x.leafNums.length } ∧
        discoApply false tm d = some d' ∧ sortKids d' = sortKids (setWords (rdW tm) (asReadBrackets x))

theorem rd_leaf (tm : List (Nat × Str)) (n : Nat) (f : Fields) (hl : TokStr f.label) : RdOK tm (leaf n f) := by
  obtain ⟨c, w', hw⟩ : ∃ c w', natToStr n = c :: w' := by
    cases h : natToStr n with
    | nil => exact absurd h (natToStr_ne_nil n)
    | cons c w' => exact ⟨c, w', rfl⟩
  have hwt := rd_tokStr_nat n
  have hc : isTokC c = true := hwt.2 c (by rw [hw]; simp)
  refine ⟨[(['('], .lrb), (f.label, .token), ([' '], .ws), (natToStr n, .token), ([')'], .rrb)], ?_, ?_⟩
  · intro rest
    rw [rd_txt_leaf]
    simp only [List.cons_append, List.append_assoc, List.nil_append]
    rw [lex_lrb, lex_tokrun_append f.label ' ' _ hl.1 hl.2 (by decide)]
    have h2 : bracketLex (' ' :: (natToStr n ++ ')' :: rest)) = ([' '], .ws) :: bracketLex (natToStr n ++ ')' :: rest) := by
      rw [hw]
      exact lex_wsrun_append [' '] c _ (by simp) (by simp; decide) (isTokC_not_ws c hc)
    rw [h2, lex_tokrun_append (natToStr n) ')' rest hwt.1 hwt.2 (by decide), lex_rrb]
  · intro o st q p L hg hs hq hlv
    obtain ⟨state, level, queue, termCnt, cnt0, out⟩ := st
    simp only at hs hq hlv
    subst hq hlv
    refine ⟨leaf termCnt { label := f.label, word := some (natToStr n), edge := some DEFAULT_EDGE, morph := some DEFAULT_MORPH },
      leaf n { label := f.label, word := rdW tm n, edge := some DEFAULT_EDGE, morph := some DEFAULT_MORPH }, ?_, ?_, ?_⟩
    · rw [rd_steps_cons o _ _ _ _ (step_lrb_235 o _ _ hs)]
      rw [rd_steps_cons o _ _ _ _ (step_token_19 o _ _ (Or.inl rfl) hg)]
      simp only [updLast_snoc]
      rw [rd_steps_cons o _ _ _ _ (step_ws_2 o _ _ rfl)]
      rw [rd_steps_cons o _ _ _ _ (step_token_3 o _ _ rfl)]
      simp only [updLast_snoc]
      rw [rd_steps_cons o _ _ _ _ (step_rrb_close o _ _ (Or.inl rfl) q p _ L rfl rfl)]
      simp [rdSteps, QNode.toTree, leafNums_leaf]
    · simp [discoApply, strToNat_natToStr, rdW]
    · rw [asRead_leaf, setWords_leaf]

/-- a run of children -/
theorem rd_kids (tm : List (Nat × Str)) : ∀ S : List Tree, (∀ k ∈ S, RdOK tm k) →
    ∃ pre : List (Str × LexClass), (∀ rest, bracketLex ((S.map rdTxt).flatten ++ rest) = pre ++ bracketLex rest) ∧
    ∀ (o : InOpts) (st : BrState) (q : List QNode) (p : QNode) (L : Nat), o.gfSplit = false →
      (st.state = 2 ∨ st.state = 3 ∨ st.state = 5) → st.queue = q ++ [p] → st.level = L + 1 →
      ∃ ds ds',
        rdSteps o st pre = some { st with state := (if S.isEmpty then st.state else 5), queue := q ++ [{ p with kids := p.kids ++ ds }], termCnt := st.termCnt + (S.flatMap leafNums).length } ∧
        discoApplyL false tm ds = some ds' ∧
        ds'.map sortKids = S.map (fun k => sortKids (setWords (rdW tm) (asReadBrackets k)))
  | [], _ => by
    refine ⟨[], fun rest => rfl, ?_⟩
    intro o st q p L _ hs hq _
    refine ⟨[], [], ?_, by simp [discoApplyL], rfl⟩
    obtain ⟨state, level, queue, termCnt, cnt0, out⟩ := st
    simp only at hq; subst hq
    simp [rdSteps]
  | k :: S, h => by
    obtain ⟨pre1, hlex1, hrun1⟩ := h k (by simp)
    obtain ⟨pre2, hlex2, hrun2⟩ := rd_kids tm S (fun k' hk' => h k' (by simp [hk']))
    refine ⟨pre1 ++ pre2, ?_, ?_⟩
    · intro rest
      simp only [List.map_cons, List.flatten_cons, List.append_assoc]
      rw [hlex1, hlex2]
    · intro o st q p L hg hs hq hlv
      obtain ⟨d, d', h1, hd, hsd⟩ := hrun1 o st q p L hg hs hq hlv
      obtain ⟨ds, ds', h2, hds, hsds⟩ := hrun2 o { st with state := 5, queue := q ++ [{ p with kids := p.kids ++ [d] }], termCnt := st.termCnt + k.leafNums.length } q { p with kids := p.kids ++ [d] } L hg (Or.inr (Or.inr rfl)) rfl hlv
      refine ⟨d :: ds, d' :: ds', ?_, by simp [discoApplyL, hd, hds], by simp [hsd, hsds]⟩
      rw [rd_steps_append o pre1 pre2 _ _ h1, h2]
      simp [Nat.add_assoc]

/-- the fields the reader gives a constituent -/
def rdF (f : Fields) : Fields := { label := f.label, edge := some DEFAULT_EDGE, morph := some DEFAULT_MORPH }

theorem rd_sort_node (tm : List (Nat × Str)) (f : Fields) (ks ds' : List Tree)
    (h : ds'.map sortKids = (sortBy leftmost ks).map (fun k => sortKids (setWords (rdW tm) (asReadBrackets k)))) :
    sortKids (node (rdF f) ds') = sortKids (setWords (rdW tm) (asReadBrackets (node f ks))) := by
  have hkey : ∀ a : Tree, leftmost ((fun k => sortKids (setWords (rdW tm) (asReadBrackets k))) a) = leftmost a := by
    intro a
    apply TT.Lemmas.Trans.leftmost_of_perm
    have := leafNums_sortKids (setWords (rdW tm) (asReadBrackets a))
    rwa [leafNums_setWords, leafNums_asRead] at this
  rw [sortKids, sortKidsL_eq, h, sortBy_map leftmost leftmost _ hkey, sortBy_of_sorted leftmost _ (sortBy_sorted leftmost ks)]
  rw [asRead_node, setWords_node, sortKids, sortKidsL_eq, List.map_map, List.map_map]
  rw [show ((sortKids ∘ setWords (rdW tm)) ∘ asReadBrackets) = (fun k => sortKids (setWords (rdW tm) (asReadBrackets k))) from rfl,
    sortBy_map leftmost leftmost _ hkey]
  rfl

/-- a constituent after its "(": label and children, up to (not including) its ")" -/
theorem rd_body (tm : List (Nat × Str)) (f : Fields) (ks : List Tree) (hne : ks ≠ []) (ih : ∀ k ∈ ks, RdOK tm k)
    (hl : TokStr f.label) :
    ∃ pre : List (Str × LexClass),
      (∀ rest, bracketLex (f.label ++ (((sortBy leftmost ks).map rdTxt).flatten ++ ')' :: rest)) = pre ++ bracketLex (')' :: rest)) ∧
      ∀ (o : InOpts) (st : BrState) (q : List QNode) (L : Nat), o.gfSplit = false →
        (st.state = 1 ∨ st.state = 9) → st.queue = q ++ [({} : QNode)] → st.level = L + 1 →
        ∃ ds ds', rdSteps o st pre = some { st with state := 5, queue := q ++ [{ f := rdF f, kids := ds, num := none, raw := f.label }], termCnt := st.termCnt + (node f ks).leafNums.length } ∧
          discoApplyL false tm ds = some ds' ∧
          sortKids (node (rdF f) ds') = sortKids (setWords (rdW tm) (asReadBrackets (node f ks))) := by
  have hmem : ∀ k, k ∈ sortBy leftmost ks ↔ k ∈ ks := fun k => mem_sortBy leftmost ks k
  have hperm : ((sortBy leftmost ks).flatMap leafNums).Perm (node f ks).leafNums := by
    rw [leafNums_node]; exact List.Perm.flatMap_right _ (sortBy_perm leftmost ks)
  have hSne : (sortBy leftmost ks).isEmpty = false := by
    cases hS : sortBy leftmost ks with
    | nil =>
      have := sortBy_length leftmost ks
      rw [hS] at this
      exact absurd (List.eq_nil_of_length_eq_zero this.symm) hne
    | cons a b => rfl
  obtain ⟨pre, hlex, hrun⟩ := rd_kids tm (sortBy leftmost ks) (fun k hk => ih k ((hmem k).1 hk))
  refine ⟨(f.label, .token) :: pre, ?_, ?_⟩
  · intro rest
    obtain ⟨r2, hr2⟩ : ∃ r2, ((sortBy leftmost ks).map rdTxt).flatten ++ ')' :: rest = '(' :: r2 := by
      cases hS : sortBy leftmost ks with
      | nil => rw [hS] at hSne; cases hSne
      | cons k0 S0 =>
        obtain ⟨r, hr⟩ := rd_txt_head k0
        exact ⟨r ++ ((S0.map rdTxt).flatten ++ ')' :: rest), by simp [hr]⟩
    rw [hr2, lex_tokrun_append f.label '(' r2 hl.1 hl.2 (by decide), ← hr2, hlex]
    rfl
  · intro o st q L hg hs hq hlv
    obtain ⟨state, level, queue, termCnt, cnt0, out⟩ := st
    simp only at hs hq hlv
    subst hq hlv
    obtain ⟨ds, ds', h2, hds, hsds⟩ := hrun o ⟨2, L + 1, q ++ [{ f := rdF f, kids := [], num := none, raw := f.label }], termCnt, cnt0, out⟩ q
      { f := rdF f, kids := [], num := none, raw := f.label } L hg (Or.inl rfl) rfl rfl
    refine ⟨ds, ds', ?_, hds, rd_sort_node tm f ks ds' hsds⟩
    rw [rd_steps_cons o _ _ _ _ (step_token_19 o _ _ hs hg)]
    simp only [updLast_snoc]
    rw [show (BrState.mk 2 (L + 1) (q ++ [{ ({} : QNode) with f := { ({} : QNode).f with label := f.label, edge := some DEFAULT_EDGE, morph := some DEFAULT_MORPH }, raw := f.label }]) termCnt cnt0 out) =
      ⟨2, L + 1, q ++ [{ f := rdF f, kids := [], num := none, raw := f.label }], termCnt, cnt0, out⟩ from rfl, h2]
    simp [hSne, hperm.length_eq]

theorem rd_node (tm : List (Nat × Str)) (f : Fields) (ks : List Tree) (hne : ks ≠ []) (ih : ∀ k ∈ ks, RdOK tm k)
    (hl : TokStr f.label) : RdOK tm (node f ks) := by
  obtain ⟨pre, hlex, hrun⟩ := rd_body tm f ks hne ih hl
  refine ⟨(['('], .lrb) :: pre ++ [([')'], .rrb)], ?_, ?_⟩
  · intro rest
    rw [rd_txt_node f ks hne]
    simp only [List.cons_append, List.append_assoc, List.nil_append]
    rw [lex_lrb, hlex, lex_rrb]
  · intro o st q p L hg hs hq hlv
    obtain ⟨state, level, queue, termCnt, cnt0, out⟩ := st
    simp only at hs hq hlv
    subst hq hlv
    obtain ⟨ds, ds', h2, hds, hsds⟩ := hrun o ⟨1, L + 2, q ++ [p] ++ [({} : QNode)], termCnt, cnt0, out⟩ (q ++ [p]) (L + 1) hg
      (Or.inl rfl) rfl rfl
    refine ⟨node (rdF f) ds, node (rdF f) ds', ?_, by simp [discoApply, hds], hsds⟩
    rw [List.cons_append, rd_steps_cons o _ _ _ _ (step_lrb_235 o _ _ hs)]
    rw [rd_steps_append o pre _ _ _ h2]
    rw [rd_steps_cons o _ _ _ _ (step_rrb_close o _ _ (Or.inr rfl) q p _ L rfl rfl)]
    simp [rdSteps, QNode.toTree]

/-- every subtree of a tree without childless constituents whose labels are token strings -/
theorem rd_all (tm : List (Nat × Str)) (x : Tree) : x.noEmpty = true → (∀ y ∈ subtrees x, TokStr y.fields.label) → RdOK tm x := by
  induction x using tree_ind with
  | hl n f => intro _ hlab; exact rd_leaf tm n f (hlab _ (self_mem_subtrees _))
  | hn f ks ih =>
    intro hne hlab
    obtain ⟨hks, hkne⟩ := (noEmpty_node_iff f ks).1 hne
    refine rd_node tm f ks hks (fun k hk => ih k hk (hkne k hk) (fun y hy => hlab y ?_)) (hlab _ (self_mem_subtrees _))
    exact (mem_subtrees_node f ks y).2 (Or.inr ⟨k, hk, hy⟩)

/-! ### the sentence part -/

/-- the lexer's tokens for words separated by single blanks -/
def rdSentToks : List Str → List (Str × LexClass)
  | [] => []
  | [w] => [(w, .token)]
  | w :: v :: r => (w, .token) :: ([' '], .ws) :: rdSentToks (v :: r)

theorem rd_joinWith_head (c : Char) (v : Str) (r : List Str) : ∃ z, joinWith [' '] ((c :: v) :: r) = c :: z := by
  cases r with
  | nil => exact ⟨v, rfl⟩
  | cons y r => exact ⟨_, by simp [joinWith]; rfl⟩

theorem rd_lex_sentence : ∀ ws : List Str, ws ≠ [] → (∀ w ∈ ws, TokStr w) → ∀ R : Str,
    bracketLex (joinWith [' '] ws ++ '\n' :: R) = rdSentToks ws ++ bracketLex ('\n' :: R)
  | [], h, _, _ => absurd rfl h
  | [w], _, hw, R => by
    have := hw w (by simp)
    simp only [joinWith, rdSentToks]
    rw [lex_tokrun_append w '\n' R this.1 this.2 (by decide)]
    rfl
  | w :: v :: r, _, hw, R => by
    have h1 := hw w (by simp)
    have h2 := hw v (by simp)
    obtain ⟨c, v', rfl⟩ : ∃ c v', v = c :: v' := by
      cases v with
      | nil => exact absurd rfl h2.1
      | cons c v' => exact ⟨c, v', rfl⟩
    have hc : isTokC c = true := h2.2 c (by simp)
    obtain ⟨z, hz⟩ := rd_joinWith_head c v' r
    have ih := rd_lex_sentence ((c :: v') :: r) (by simp) (fun w' hw' => hw w' (by simp [hw'])) R
    simp only [joinWith, rdSentToks, List.append_assoc, List.cons_append, List.nil_append]
    rw [lex_tokrun_append w ' ' _ h1.1 h1.2 (by decide)]
    rw [hz] at ih ⊢
    rw [List.cons_append] at ih ⊢
    rw [show ' ' :: c :: (z ++ '\n' :: R) = [' '] ++ c :: (z ++ '\n' :: R) from rfl,
      lex_wsrun_append [' '] c _ (by simp) (by simp; decide) (isTokC_not_ws c hc), ih]

theorem rd_tokStr_ne (w : Str) (h : TokStr w) : (w == [' ']) = false ∧ (w == ['\n']) = false := by
  constructor
  · rw [beq_eq_false_iff_ne]; rintro rfl; have := h.2 ' ' (by simp); revert this; decide
  · rw [beq_eq_false_iff_ne]; rintro rfl; have := h.2 '\n' (by simp); revert this; decide

/-- the sentence collector runs over the words -/
theorem rd_discoSentence : ∀ (ws : List Str) (tail : List (Str × LexClass)) (pos : Nat) (acc : List (Nat × Str)),
    (∀ w ∈ ws, TokStr w) →
    discoSentence (rdSentToks ws ++ tail) pos acc =
      discoSentence tail (pos + ws.length) (((List.range' pos ws.length).zip ws).reverse ++ acc)
  | [], tail, pos, acc, _ => by simp [rdSentToks]
  | [w], tail, pos, acc, _ => by
    simp [rdSentToks, discoSentence, List.range'_succ]
  | w :: v :: r, tail, pos, acc, hw => by
    have ih := rd_discoSentence (v :: r) tail (pos + 1) ((pos, w) :: acc) (fun w' hw' => hw w' (by simp [hw']))
    simp only [rdSentToks, List.cons_append, discoSentence]
    simp only [show (LexClass.token == LexClass.ws) = false from rfl, show (LexClass.ws == LexClass.ws) = true from rfl,
      show (([' '] : Str).contains '\n') = false from by decide, Bool.false_eq_true, if_false, if_true]
    rw [ih]
    simp [List.range'_succ, Nat.add_assoc, Nat.add_comm 1]

/-- looking a position up among the collected words -/
theorem rd_find_zip : ∀ (ws : List Str) (pos n : Nat) (extra : List (Nat × Str)), pos ≤ n → n < pos + ws.length →
    ((((List.range' pos ws.length).zip ws) ++ extra).find? (·.1 == n)).map (·.2) = ws[n - pos]?
  | [], pos, n, extra, h1, h2 => by simp at h2; omega
  | w :: ws, pos, n, extra, h1, h2 => by
    simp only [List.length_cons, List.range'_succ, List.zip_cons_cons, List.cons_append, List.find?_cons]
    by_cases hp : pos = n
    · subst hp; simp
    · have hb : (pos == n) = false := by simpa using hp
      simp only [hb]
      rw [rd_find_zip ws (pos + 1) n extra (by omega) (by simp at h2; omega)]
      have : n - pos = (n - (pos + 1)) + 1 := by omega
      rw [this, List.getElem?_cons_succ]

/-- the writer prints the plain text when the parenthesis replacement is the identity on the labels and on the words of the
    tokens (no childless constituents) -/
theorem rd_bracketsSub_plain (t : Tree) : t.noEmpty = true → (∀ s ∈ t.subtrees, replaceParens s.fields.label = s.fields.label ∧
      (s.isLeaf = true → (s.fields.word.map replaceParens) = s.fields.word)) → bracketsSub {} false t = .ok (plainSub t) := by
  induction t using tree_ind with
  | hl n f =>
    intro _ hp
    have := hp _ (self_mem_subtrees _)
    simp only [Tree.fields, Tree.isLeaf, forall_const] at this
    rw [bracketsSub_leaf_plain, this.1, this.2, plainSub]
    simp [TT.Lemmas.Write.none_eq]
  | hn f ks ih =>
    intro hne hp
    obtain ⟨hks, hkne⟩ := (noEmpty_node_iff f ks).1 hne
    have hk : ∀ L : List Tree, (∀ k ∈ L, k ∈ ks) → bracketsKids {} L = .ok (plainKids L) := by
      intro L
      induction L with
      | nil => intro _; rw [bracketsKids, plainKids]
      | cons k L ihL =>
        intro hL
        have hk := hL k (by simp)
        rw [bracketsKids, ih k hk (hkne k hk) (fun s hs => hp s ((mem_subtrees_node f ks s).2 (Or.inr ⟨k, hk, hs⟩))),
          ihL (fun k' hk' => hL k' (by simp [hk'])), plainKids]
    have hself := hp _ (self_mem_subtrees _)
    simp only [Tree.fields] at hself
    have he : ks.isEmpty = false := by cases ks <;> simp_all
    rw [bracketsSub, plainSub]
    simp only [he, Bool.false_eq_true, if_false, TT.Props.C20.getLabel_plain, hk ks (fun _ h => h), Tree.fields]

theorem rd_setWords_asRead (W : Nat → Option Str) (x : Tree) (h : ∀ n f, leaf n f ∈ subtrees x → W n = f.word) :
    setWords W (asReadBrackets x) = asReadBrackets x := by
  induction x using tree_ind with
  | hl n f => rw [asRead_leaf, setWords_leaf, h n f (self_mem_subtrees _)]
  | hn f ks ih =>
    rw [asRead_node, setWords_node, List.map_map]
    congr 1
    exact List.map_congr_left (fun k hk => ih k hk (fun n g hg => h n g ((mem_subtrees_node f ks _).2 (Or.inr ⟨k, hk, hg⟩))))

/-- what `BracketsOK` says, node by node -/
theorem rd_of_bracketsOK (t : Tree) (hok : BracketsOK t = true) :
    (∀ y ∈ subtrees t, TokStr y.fields.label) ∧ ∀ n f, leaf n f ∈ subtrees t → ∃ w, f.word = some w ∧ TokStr w := by
  unfold BracketsOK at hok
  rw [List.all_eq_true] at hok
  constructor
  · intro y hy
    have h := hok y hy
    simp only [Bool.and_eq_true] at h
    exact tokStr_of_fieldOK _ h.1.1 h.1.2
  · intro n f hy
    have h := hok _ hy
    simp only [Bool.and_eq_true, Bool.or_eq_true, Bool.not_eq_true', Tree.isLeaf, Tree.fields] at h
    obtain ⟨_, h3⟩ := h
    rcases h3 with h3 | h3
    · cases h3
    · cases hw : f.word with
      | none => rw [hw] at h3; cases h3
      | some w =>
        rw [hw] at h3
        simp only [Bool.and_eq_true] at h3
        exact ⟨w, rfl, tokStr_of_fieldOK _ h3.1 h3.2⟩

/-- the sentence part of a discobracket line -/
def rdWords (t : Tree) : List Str := t.terminals.map fun l => l.fields.word.getD "None".toList

theorem rd_leaf_mem_leaves (t : Tree) (n : Nat) (f : Fields) : leaf n f ∈ subtrees t → leaf n f ∈ leaves t := by
  induction t using tree_ind with
  | hl m g => intro h; simpa [subtrees, leaves] using h
  | hn g ks ih =>
    intro h
    rw [mem_subtrees_node] at h
    rcases h with h | ⟨k, hk, hy⟩
    · cases h
    · rw [leaves_node]; exact List.mem_flatMap.2 ⟨k, hk, ih k hk hy⟩

/-- the word at position `n` of the sentence part is the word of token `n` -/
theorem rd_word_at (t : Tree) (hwf : WF t = true) (hw : ∀ n f, leaf n f ∈ subtrees t → ∃ w, f.word = some w)
    (n : Nat) (f : Fields) (h : leaf n f ∈ subtrees t) :
    1 ≤ n ∧ n < 1 + (rdWords t).length ∧ (rdWords t)[n - 1]? = f.word := by
  have hl : leaf n f ∈ t.leaves := rd_leaf_mem_leaves t n f h
  have hn : n ∈ t.leafNums := List.mem_map.2 ⟨_, hl, rfl⟩
  have hy := TT.Props.C19.yield_of_WF t hwf
  have hmem : n ∈ yield t := (mem_yield t n).2 hn
  rw [hy, List.mem_range'_1] at hmem
  have hlen : (rdWords t).length = t.leafNums.length := by
    have := congrArg List.length hy; simpa [yield, rdWords] using this
  have hfind := TT.Lemmas.Punct.findLeaf_of_mem_nodup t _ (WF_nodup t hwf) hl
  have hag := TT.Props.C02Disco.word_agree t hwf (by
    intro x hx hxl
    cases x with
    | leaf m g => obtain ⟨w, hw'⟩ := hw m g hx; simp [Tree.fields, hw']
    | node g ks => cases hxl) n hn
  simp only [Tree.num] at hfind
  rw [hfind] at hag
  change some (((rdWords t)[n - 1]?).getD []) = f.word at hag
  refine ⟨hmem.1, by omega, ?_⟩
  have hlt : n - 1 < (rdWords t).length := by omega
  rw [List.getElem?_eq_getElem hlt] at hag ⊢
  simpa using hag

/-! ### one line of a discobracket file -/

/-- reader options: discobrackets, nothing that rewrites labels, indices not kept -/
structure RdOpts (o : InOpts) : Prop where
  disco : o.disco = true
  gf : o.gfSplit = false
  rp : o.replaceParens = false
  ro : o.discoReordered = false

/-- what follows the words of a line: the end of the text, or the newline and the next line -/
theorem rd_tail (R : Str) (hR : R = [] ∨ ∃ R', R = '(' :: R') :
    ∃ extra : Nat → List (Nat × Str), (bracketLex R).length ≤ (bracketLex ('\n' :: R)).length ∧
      ∀ pos acc, discoSentence (bracketLex ('\n' :: R)) pos acc = (acc.reverse ++ extra pos, bracketLex R) := by
  rcases hR with rfl | ⟨R', rfl⟩
  · refine ⟨fun _ => [], by decide, ?_⟩
    intro pos acc
    rw [show bracketLex ['\n'] = [] from by decide, lex_nil, discoSentence]
    simp
  · have h : bracketLex ('\n' :: '(' :: R') = (['\n'], .ws) :: bracketLex ('(' :: R') :=
      lex_wsrun_append ['\n'] '(' R' (by simp) (by simp; decide) (by decide)
    refine ⟨fun _ => [], by rw [h]; simp, ?_⟩
    intro pos acc
    rw [h, discoSentence]
    simp only [show (LexClass.ws == LexClass.ws) = true from rfl, show ((['\n'] : Str).contains '\n') = true from by decide, if_true]
    simp

theorem rd_words_tok (t : Tree) (hw : ∀ n f, leaf n f ∈ subtrees t → ∃ w, f.word = some w ∧ TokStr w) :
    ∀ w ∈ rdWords t, TokStr w := by
  intro w hwm
  obtain ⟨l, hl, rfl⟩ := List.mem_map.1 hwm
  have hl' : l ∈ t.leaves := (mem_sortBy num _ _).1 hl
  obtain ⟨m, g, rfl⟩ := TT.Lemmas.Punct.mem_leaves_isLeaf _ _ hl'
  obtain ⟨w, hw1, hw2⟩ := hw m g (TT.Lemmas.Punct.leaves_subset_subtrees _ _ hl')
  simpa [Tree.fields, hw1] using hw2

theorem rd_words_length (t : Tree) : (rdWords t).length = t.leafNums.length := by
  unfold rdWords terminals leafNums; rw [List.length_map, sortBy_length, List.length_map]

theorem rd_line (o : InOpts) (ho : RdOpts o) (t : Tree) (hwf : WF t = true) (hok : BracketsOK t = true)
    (R : Str) (hR : R = [] ∨ ∃ R', R = '(' :: R') (cnt0 : Nat) (out : List (Nat × Tree)) (fuel : Nat)
    (hf : (bracketLex (rdTxt t ++ '\t' :: (joinWith [' '] (rdWords t) ++ '\n' :: R))).length < fuel) :
    ∃ r fuel', sameTree r (asReadBrackets t) = true ∧ (bracketLex R).length < fuel' ∧
      brLoop o fuel ⟨0, 0, [], 1, cnt0, out⟩ (bracketLex (rdTxt t ++ '\t' :: (joinWith [' '] (rdWords t) ++ '\n' :: R))) =
      brLoop o fuel' ⟨0, 0, [], 1, cnt0 + 1, (cnt0, r) :: out⟩ (bracketLex R) := by
  obtain ⟨hlab, hwords⟩ := rd_of_bracketsOK t hok
  have hne := WF_noEmpty t hwf
  have hwtok := rd_words_tok t hwords
  have hwlen := rd_words_length t
  have hwne : rdWords t ≠ [] := by
    intro e
    rw [e] at hwlen
    exact noEmpty_leafNums_ne_nil _ hne (List.eq_nil_of_length_eq_zero hwlen.symm)
  obtain ⟨extra, hTlen, hT⟩ := rd_tail R hR
  -- the positions -> words map the post-pass builds
  let tm : List (Nat × Str) := (List.range' 1 (rdWords t).length).zip (rdWords t) ++ extra (1 + (rdWords t).length)
  have hW : ∀ n g, leaf n g ∈ subtrees t → rdW tm n = g.word := by
    intro n g hg
    obtain ⟨h1, h2, h3⟩ := rd_word_at t hwf (fun n f h => (hwords n f h).imp fun _ h => h.1) n g hg
    obtain ⟨w, hw1, _⟩ := hwords n g hg
    unfold rdW
    rw [rd_find_zip (rdWords t) 1 n _ h1 h2, h3, hw1]
    rfl
  cases t with
  | leaf n f => simp [WF, isLeaf] at hwf
  | node f ks =>
  obtain ⟨hks, hkne⟩ := (noEmpty_node_iff f ks).1 hne
  obtain ⟨pre, hlex, hrun⟩ := rd_body tm f ks hks
    (fun k hk => rd_all tm k (hkne k hk) (fun y hy => hlab y ((mem_subtrees_node f ks y).2 (Or.inr ⟨k, hk, hy⟩))))
    (hlab _ (self_mem_subtrees _))
  -- the tokens of the line
  have htoks : bracketLex (rdTxt (node f ks) ++ '\t' :: (joinWith [' '] (rdWords (node f ks)) ++ '\n' :: R)) =
      ((['('], .lrb) :: pre) ++ (([')'], .rrb) :: (['\t'], .ws) :: (rdSentToks (rdWords (node f ks)) ++ bracketLex ('\n' :: R))) := by
    rw [rd_txt_node f ks hks]
    simp only [List.cons_append, List.append_assoc, List.nil_append]
    rw [lex_lrb, hlex, lex_rrb]
    obtain ⟨c, z, hz, hc⟩ : ∃ c z, joinWith [' '] (rdWords (node f ks)) = c :: z ∧ isTokC c = true := by
      cases hws : rdWords (node f ks) with
      | nil => exact absurd hws hwne
      | cons w r =>
        have hwt := hwtok w (by rw [hws]; simp)
        cases w with
        | nil => exact absurd rfl hwt.1
        | cons c v =>
          obtain ⟨z, hz⟩ := rd_joinWith_head c v r
          exact ⟨c, z, hz, hwt.2 c (by simp)⟩
    have h3 := rd_lex_sentence (rdWords (node f ks)) hwne hwtok R
    rw [hz] at h3 ⊢
    rw [List.cons_append] at h3 ⊢
    rw [show '\t' :: c :: (z ++ '\n' :: R) = ['\t'] ++ c :: (z ++ '\n' :: R) from rfl,
      lex_wsrun_append ['\t'] c _ (by simp) (by simp; decide) (isTokC_not_ws c hc), h3]
  rw [htoks] at hf ⊢
  -- up to the closing parenthesis of the tree
  obtain ⟨ds, ds', h2, hds, hsds⟩ := hrun o ⟨9, 1, [] ++ [({} : QNode)], 1, cnt0, out⟩ [] 0 ho.gf (Or.inr rfl) rfl rfl
  have hsteps : rdSteps o ⟨0, 0, [], 1, cnt0, out⟩ ((['('], .lrb) :: pre) =
      some ⟨5, 1, [{ f := rdF f, kids := ds, num := none, raw := f.label }], 1 + (node f ks).leafNums.length, cnt0, out⟩ := by
    rw [rd_steps_cons o _ _ _ _ (step_lrb_0 o _ _ rfl)]
    exact h2
  obtain ⟨fuel1, hf1, hloop⟩ := rd_loop_steps o _ _ _
    (([')'], .rrb) :: (['\t'], .ws) :: (rdSentToks (rdWords (node f ks)) ++ bracketLex ('\n' :: R))) fuel hsteps
    (by simp only [List.length_append, List.length_cons] at hf ⊢; omega)
  rw [hloop]
  obtain ⟨g, rfl⟩ : ∃ g, fuel1 = g + 1 := ⟨fuel1 - 1, by simp at hf1; omega⟩
  refine ⟨node (rdF f) ds', g, ?_, by simp at hf1; omega, ?_⟩
  · unfold sameTree
    rw [hsds, rd_setWords_asRead _ _ hW]
    exact TT.Lemmas.Read.beq_refl _
  · rw [brLoop, step_rrb_yield o _ _ (Or.inr rfl) _ rfl rfl ho.rp]
    simp only [ho.disco, if_true, show (LexClass.ws == LexClass.ws && (['\t'] : Str).contains '\n') = false from by decide, Bool.false_eq_true, if_false]
    rw [rd_discoSentence _ _ _ _ hwtok, hT]
    simp only [List.append_nil, List.reverse_reverse, ho.ro, QNode.toTree]
    rw [show discoApply false ((List.range' 1 (rdWords (node f ks)).length).zip (rdWords (node f ks)) ++
        extra (1 + (rdWords (node f ks)).length)) (node (rdF f) ds) = some (node (rdF f) ds') from by
      simp only [discoApply]; rw [show discoApplyL false tm ds = some ds' from hds]; rfl]

/-! ### the writer's line -/

/-- the hypotheses of the own round trip for one tree and its discobracket line: well-formed, labels and words non-empty and
    free of whitespace and parentheses, the parenthesis replacement the identity on the LABELS (the words are written in the
    sentence part as they are) -/
def RdGood (t : Tree) (s : Str) : Prop :=
  WF t = true ∧ BracketsOK t = true ∧ (∀ x ∈ t.subtrees, replaceParens x.fields.label = x.fields.label) ∧
  writeDisco {} t = .ok s

theorem rd_write_text (t : Tree) (s : Str) (hg : RdGood t s) : s = rdTxt t ++ '\t' :: joinWith [' '] (rdWords t) := by
  obtain ⟨hwf, _, hp, h⟩ := hg
  obtain ⟨tr, htr, rfl⟩ := TT.Props.C02Disco.writeDisco_ok {} t s h
  have hpl := rd_bracketsSub_plain (wordsToNums t) (noEmpty_wordsToNums t (WF_noEmpty t hwf)) (by
    intro y' hy'
    obtain ⟨y, hy, rfl⟩ := mem_subtrees_wordsToNums t y' hy'
    cases y with
    | leaf n g =>
      refine ⟨hp (leaf n g) hy, fun _ => ?_⟩
      simp only [wordsToNums, Tree.fields, Option.map_some, replaceParens_natToStr]
    | node g ks =>
      rw [wordsToNums_node]
      exact ⟨hp (node g ks) hy, fun hl => by cases hl⟩)
  have : tr = rdTxt t := by
    have e : bracketsSub {} false (wordsToNums t) = .ok tr := htr
    rw [hpl] at e
    cases e; rfl
  rw [this]; rfl

/-- a file of such lines is read sentence by sentence -/
theorem rd_file (o : InOpts) (ho : RdOpts o) : ∀ (ts : List Tree) (lines : List Str), lines.length = ts.length →
    (∀ p ∈ ts.zip lines, RdGood p.1 p.2) →
    ∀ (cnt0 : Nat) (out : List (Nat × Tree)) (fuel : Nat), (bracketLex ((lines.map (· ++ ['\n'])).flatten)).length < fuel →
    ∃ rs, rs.length = ts.length ∧ (∀ p ∈ rs.zip ts, sameTree p.1 (asReadBrackets p.2) = true) ∧
      brLoop o fuel ⟨0, 0, [], 1, cnt0, out⟩ (bracketLex ((lines.map (· ++ ['\n'])).flatten)) =
        .ok (out.reverse ++ (List.range' cnt0 ts.length).zip rs)
  | [], [], _, _, cnt0, out, fuel, hf => by
    obtain ⟨g, rfl⟩ : ∃ g, fuel = g + 1 := ⟨fuel - 1, by omega⟩
    exact ⟨[], rfl, by simp, by simp [lex_nil, brLoop]⟩
  | [], _ :: _, hl, _, _, _, _, _ => by simp at hl
  | _ :: _, [], hl, _, _, _, _, _ => by simp at hl
  | t :: ts, s :: lines, hl, h, cnt0, out, fuel, hf => by
    have hg : RdGood t s := h (t, s) (by simp)
    have hrest : ∀ p ∈ ts.zip lines, RdGood p.1 p.2 := fun p hp => h p (by simp [hp])
    have hs := rd_write_text t s hg
    have hR : (lines.map (· ++ ['\n'])).flatten = [] ∨ ∃ R', (lines.map (· ++ ['\n'])).flatten = '(' :: R' := by
      match ts, lines, hl, hrest with
      | [], [], _, _ => exact Or.inl rfl
      | [], _ :: _, hl, _ => simp at hl
      | _ :: _, [], hl, _ => simp at hl
      | t2 :: ts2, s2 :: lines2, _, hrest =>
        have hg2 : RdGood t2 s2 := hrest (t2, s2) (by simp)
        obtain ⟨r, hr⟩ := rd_txt_head t2
        exact Or.inr ⟨_, by rw [List.map_cons, List.flatten_cons, rd_write_text t2 s2 hg2, hr]; rfl⟩
    have htext : ((s :: lines).map (· ++ ['\n'])).flatten =
        rdTxt t ++ '\t' :: (joinWith [' '] (rdWords t) ++ '\n' :: (lines.map (· ++ ['\n'])).flatten) := by
      rw [hs]; simp
    rw [htext] at hf ⊢
    obtain ⟨r, fuel', hsame, hf', hloop⟩ := rd_line o ho t hg.1 hg.2.1 _ hR cnt0 out fuel hf
    obtain ⟨rs, hlen, hrs, hloop2⟩ := rd_file o ho ts lines (by simpa using hl) hrest (cnt0 + 1) ((cnt0, r) :: out) fuel' hf'
    refine ⟨r :: rs, by simp [hlen], ?_, ?_⟩
    · intro p hp
      simp only [List.zip_cons_cons, List.mem_cons] at hp
      rcases hp with rfl | hp
      · exact hsame
      · exact hrs p hp
    · rw [hloop, hloop2]
      simp [List.range'_succ]

/-! ### C03 row 4: the tool's own discobracket reader on what its own discobracket writer produced -/

/-- equality of reader / writer results is decidable (used by the concrete instances below only) -/
local instance rdDecEqExcept {ε α} [DecidableEq ε] [DecidableEq α] : DecidableEq (Except ε α)
  | .ok a, .ok b => decidable_of_iff (a = b) (by simp)
  | .error a, .error b => decidable_of_iff (a = b) (by simp)
  | .ok _, .error _ => isFalse (by simp)
  | .error _, .ok _ => isFalse (by simp)

/-- MAIN (C03 row 4, discobrackets): the discobracket reader accepts the line the discobracket writer produced (terminated by
    its newline, as the command writes it) and delivers the same tokens, labels and dominance.  No continuity hypothesis.
    Corrected against the proposal: the parenthesis replacement has to be the identity on the LABELS only (the words are
    written unmapped after the TAB); `BracketsOK` (labels and words non-empty, free of whitespace and parentheses) is needed
    for the words as well, because the sentence part goes through the same lexer. -/
theorem readDisco_write (t : Tree) (s : Str) (hwf : WF t = true) (hok : BracketsOK t = true)
    (hp : ∀ x ∈ t.subtrees, replaceParens x.fields.label = x.fields.label)
    (h : writeDisco {} t = .ok s) :
    ∃ r, readBrackets { disco := true } (s ++ ['\n']) = .ok [(1, r)] ∧ sameTree r (asReadBrackets t) = true := by
  have e : ([s].map (· ++ ['\n'])).flatten = s ++ ['\n'] := by simp
  obtain ⟨rs, hlen, hrs, hrun⟩ := rd_file { disco := true } ⟨rfl, rfl, rfl, rfl⟩ [t] [s] rfl
    (by intro p hp'; simp only [List.zip_cons_cons, List.zip_nil_right, List.mem_singleton] at hp'; subst hp'; exact ⟨hwf, hok, hp, h⟩)
    1 [] _ (Nat.lt_succ_self _)
  rw [e] at hrun
  match rs, hlen with
  | [r], _ =>
    refine ⟨r, ?_, hrs (r, t) (by simp)⟩
    unfold readBrackets
    simpa using hrun

/-- a whole file: k trees written one per line are read back as k trees with ids 1..k, each with the same tokens, labels and
    dominance (the sentence part of a line ends at the newline token; the last line's newline is not even emitted by the lexer) -/
theorem readDisco_write_file (ts : List Tree) (lines : List Str) (hl : lines.length = ts.length)
    (h : ∀ p ∈ ts.zip lines, WF p.1 = true ∧ BracketsOK p.1 = true ∧
      (∀ x ∈ p.1.subtrees, replaceParens x.fields.label = x.fields.label) ∧ writeDisco {} p.1 = .ok p.2) :
    ∃ rs, readBrackets { disco := true } ((lines.map (· ++ ['\n'])).flatten) = .ok ((List.range' 1 ts.length).zip rs) ∧
      rs.length = ts.length ∧ ∀ p ∈ rs.zip ts, sameTree p.1 (asReadBrackets p.2) = true := by
  obtain ⟨rs, hlen, hrs, hrun⟩ := rd_file { disco := true } ⟨rfl, rfl, rfl, rfl⟩ ts lines hl h 1 [] _ (Nat.lt_succ_self _)
  refine ⟨rs, ?_, hlen, hrs⟩
  unfold readBrackets
  simpa using hrun

open TT.Props.C02 in
/-- the discontinuous example tree (VP = tokens 1 and 3) meets the hypotheses -/
example : ∃ r, readBrackets { disco := true } ("(S(VP(A 1)(C 3))(B 2))\ta b c".toList ++ ['\n']) = .ok [(1, r)] ∧
    sameTree r (asReadBrackets exDisc) = true :=
  readDisco_write exDisc _ (by decide +kernel) (by decide +kernel) (by decide +kernel) (by decide +kernel)

/-- a word with square brackets (the bracket writer would map it), children stored out of order, all-digit words -/
def exRd : Tree := node { label := "S".toList } [leaf 3 { label := "C".toList, word := some "7".toList },
  node { label := "VP".toList } [leaf 4 { label := "D".toList, word := some "[d]".toList }, leaf 1 { label := "A".toList, word := some "2".toList }],
  leaf 2 { label := "B".toList, word := some "b".toList }]

example : writeDisco {} exRd = .ok "(S(VP(A 1)(D 4))(B 2)(C 3))\t2 b 7 [d]".toList := by decide +kernel
example : ∃ r, readBrackets { disco := true } ("(S(VP(A 1)(D 4))(B 2)(C 3))\t2 b 7 [d]".toList ++ ['\n']) = .ok [(1, r)] ∧
    sameTree r (asReadBrackets exRd) = true :=
  readDisco_write exRd _ (by decide +kernel) (by decide +kernel) (by decide +kernel) (by decide +kernel)

open TT.Props.C02 in
/-- a file of two lines -/
example : ∃ rs, readBrackets { disco := true } "(S(VP(A 1)(C 3))(B 2))\ta b c\n(S(VP(A 1)(D 4))(B 2)(C 3))\t2 b 7 [d]\n".toList =
      .ok ((List.range' 1 2).zip rs) ∧ rs.length = 2 ∧ ∀ p ∈ rs.zip [exDisc, exRd], sameTree p.1 (asReadBrackets p.2) = true :=
  readDisco_write_file [exDisc, exRd] ["(S(VP(A 1)(C 3))(B 2))\ta b c".toList, "(S(VP(A 1)(D 4))(B 2)(C 3))\t2 b 7 [d]".toList] rfl
    (by
      intro p hp
      simp only [List.zip_cons_cons, List.zip_nil_right, List.mem_cons, List.not_mem_nil, or_false] at hp
      rcases hp with rfl | rfl
      · exact ⟨by decide +kernel, by decide +kernel, by decide +kernel, by decide +kernel⟩
      · exact ⟨by decide +kernel, by decide +kernel, by decide +kernel, by decide +kernel⟩)

open TT.Props.C02 in
/-- the terminating newline matters: the lexer does not emit a token still buffered at the end of the input, so on a line
    WITHOUT its newline the last word is lost and the last token reads "0" (the command always writes the newline) -/
example : (readBrackets { disco := true } "(S(VP(A 1)(C 3))(B 2))\ta b c".toList).map
      (fun l => l.map fun (p : Nat × Tree) => (p.1, p.2.terminals.map fun x => x.fields.word)) =
    .ok [(1, [some "a".toList, some "b".toList, some "0".toList])] := by decide +kernel

/-- the hypothesis on the words cannot be dropped: a parenthesis in a word (here token 2 of `a ( b`) is a token of its own
    for the lexer, so the words shift -/
example : (readBrackets { disco := true } ("(S(A 1)(B 2)(C 3))\ta ( b".toList ++ ['\n'])).map
      (fun l => l.map fun (p : Nat × Tree) => (p.1, p.2.terminals.map fun x => x.fields.word)) =
    .ok [(1, [some "a".toList, some "(".toList, some "b".toList])] := by decide +kernel

/-- the hypothesis `hp` on the labels cannot be dropped: a square bracket in a label is mapped by the writer -/
def exRdLabel : Tree := node { label := "S".toList } [leaf 1 { label := "[A]".toList, word := some "a".toList },
  leaf 2 { label := "B".toList, word := some "b".toList }]

example : WF exRdLabel = true ∧ BracketsOK exRdLabel = true ∧ writeDisco {} exRdLabel = .ok "(S(LSBARSB 1)(B 2))\ta b".toList ∧
    (readBrackets { disco := true } ("(S(LSBARSB 1)(B 2))\ta b".toList ++ ['\n'])).map
      (fun l => l.map fun (p : Nat × Tree) => (p.1, sameTree p.2 (asReadBrackets exRdLabel))) = .ok [(1, false)] := by
  decide +kernel

/-! ### C03 row 3: discobrackets -> discobrackets through the command -/

theorem rd_wordsToNums_eq (x : Tree) : wordsToNums x = setWords (fun n => some (natToStr n)) x := by
  induction x using tree_ind with
  | hl n f => rfl
  | hn f ks ih => rw [wordsToNums_node, setWords_node]; congr 1; exact List.map_congr_left ih

theorem rd_wordsToNums_sortKids (x : Tree) : sortKids (wordsToNums x) = wordsToNums (sortKids x) := by
  rw [rd_wordsToNums_eq, rd_wordsToNums_eq, sortKids_setWords]

theorem rd_wordsToNums_asRead (x : Tree) : wordsToNums (asReadBrackets x) = asReadBrackets (wordsToNums x) := by
  induction x using tree_ind with
  | hl n f => rw [asRead_leaf]; simp only [wordsToNums]; rw [asRead_leaf]
  | hn f ks ih =>
    rw [asRead_node, wordsToNums_node, wordsToNums_node, asRead_node, List.map_map, List.map_map]
    congr 1; exact List.map_congr_left ih

theorem rd_flatMap_perm (g : Tree → Tree) : ∀ ks : List Tree, (∀ k ∈ ks, (g k).leaves.Perm k.leaves) →
    ((ks.map g).flatMap leaves).Perm (ks.flatMap leaves)
  | [], _ => List.Perm.refl _
  | k :: ks, h => by
    simp only [List.map_cons, List.flatMap_cons]
    exact (h k (by simp)).append (rd_flatMap_perm g ks (fun k' hk' => h k' (by simp [hk'])))

theorem rd_leaves_sortKids (x : Tree) : (sortKids x).leaves.Perm x.leaves := by
  induction x using tree_ind with
  | hl n f => simp [sortKids]
  | hn f ks ih =>
    rw [sortKids, sortKidsL_eq, leaves_node, leaves_node]
    exact ((sortBy_perm leftmost _).flatMap_right leaves).trans (rd_flatMap_perm sortKids ks ih)

theorem rd_terminals_sortKids (x : Tree) (hn : x.leafNums.Nodup) : (sortKids x).terminals = x.terminals := by
  unfold terminals
  exact sortBy_perm_eq num _ _ (rd_leaves_sortKids x) (((rd_leaves_sortKids x).map num).nodup_iff.2 hn)

theorem rd_leaves_asRead (x : Tree) : (asReadBrackets x).leaves = x.leaves.map asReadBrackets := by
  induction x using tree_ind with
  | hl n f => rw [asRead_leaf]; simp [leaves, asRead_leaf]
  | hn f ks ih =>
    rw [asRead_node, leaves_node, leaves_node, List.flatMap_map, List.map_flatMap]
    exact flatMap_congr' _ _ ks ih

theorem rd_words_asRead (x : Tree) : rdWords (asReadBrackets x) = rdWords x := by
  unfold rdWords terminals
  rw [rd_leaves_asRead, sortBy_map num num asReadBrackets (fun a => by cases a <;> simp [asRead_leaf, asRead_node, num]), List.map_map]
  apply List.map_congr_left
  intro l hl
  obtain ⟨m, g, rfl⟩ := TT.Lemmas.Punct.mem_leaves_isLeaf _ _ ((mem_sortBy num _ _).1 hl)
  simp [asRead_leaf, Tree.fields]

/-- the discobracket writer without options prints `brText` of the index tree, a TAB, the words -/
theorem rd_writeDisco_eq (x : Tree) :
    writeDisco {} x = .ok (TT.Lemmas.Run.brText (wordsToNums x) ++ ['\t'] ++ joinWith [' '] (rdWords x)) := by
  unfold writeDisco
  show (bracketsSub {} false (wordsToNums x)).map _ = _
  rw [TT.Lemmas.Run.bracketsSub_eq_brText]
  rfl

/-- the tree read back from a written discobracket line is written as the same line again (no continuity hypothesis) -/
theorem writeDisco_readback (t r : Tree) (s : Str) (hwf : WF t = true) (h : writeDisco {} t = .ok s)
    (hsame : sameTree r (asReadBrackets t) = true) : writeDisco {} r = .ok s := by
  have hs := TT.Lemmas.Run.sortKids_eq_of_sameTree _ _ hsame
  have hnt : (asReadBrackets t).leafNums.Nodup := by rw [leafNums_asRead]; exact WF_nodup t hwf
  have hnr : r.leafNums.Nodup := by
    have p : r.leafNums.Perm (asReadBrackets t).leafNums :=
      (leafNums_sortKids r).symm.trans (by rw [hs]; exact leafNums_sortKids _)
    exact p.nodup_iff.2 hnt
  have hwords : rdWords r = rdWords t := by
    have : r.terminals = (asReadBrackets t).terminals := by
      rw [← rd_terminals_sortKids r hnr, hs, rd_terminals_sortKids _ hnt]
    rw [← rd_words_asRead t]
    unfold rdWords
    rw [this]
  have htext : TT.Lemmas.Run.brText (wordsToNums r) = TT.Lemmas.Run.brText (wordsToNums t) := by
    rw [← TT.Lemmas.Run.brText_sortKids, rd_wordsToNums_sortKids, hs, ← rd_wordsToNums_sortKids, TT.Lemmas.Run.brText_sortKids,
      rd_wordsToNums_asRead, TT.Lemmas.Run.brText_asRead _ (noEmpty_wordsToNums t (WF_noEmpty t hwf))]
  rw [rd_writeDisco_eq] at h ⊢
  rw [hwords, htext]
  exact h

/-- MAIN (C03 row 3, discobrackets -> discobrackets): converting a discobracket file (one line, as its own writer wrote it) to
    discobrackets gives the same text back; hypotheses = those of `readDisco_write` -/
theorem disco_disco_id (t : Tree) (s : Str) (hwf : WF t = true) (hok : BracketsOK t = true)
    (hp : ∀ x ∈ t.subtrees, replaceParens x.fields.label = x.fields.label)
    (h : writeDisco {} t = .ok s) :
    runFrom [] .discobrackets {} none (readBrackets { disco := true } (s ++ ['\n'])) = .ok (s ++ ['\n']) := by
  obtain ⟨r, hr, hsame⟩ := readDisco_write t s hwf hok hp h
  have hwr := writeDisco_readback t r s hwf h hsame
  rw [hr, TT.Lemmas.Run.runFrom_ok, TT.Lemmas.Run.transformAll_nil_steps]
  show writeAll .discobrackets {} none [(1, r)] = _
  rw [TT.Lemmas.Run.writeAll_plain .discobrackets {} none _ (by decide)]
  unfold TT.Lemmas.Run.bodyText
  rw [List.mapM_cons, List.mapM_nil]
  simp only [writeOne, hwr]
  simp [bind, Except.bind, pure, Except.pure, Except.map]

theorem rd_mapM_write : ∀ (rs ts : List Tree) (lines : List Str) (c : Nat), rs.length = ts.length → lines.length = ts.length →
    (∀ p ∈ rs.zip ts, sameTree p.1 (asReadBrackets p.2) = true) →
    (∀ p ∈ ts.zip lines, WF p.1 = true ∧ writeDisco {} p.1 = .ok p.2) →
    ((List.range' c ts.length).zip rs).mapM (fun p => writeOne .discobrackets {} p.1 p.2) = .ok (lines.map (· ++ ['\n']))
  | [], [], [], _, _, _, _, _ => rfl
  | [], _ :: _, _, _, h, _, _, _ => by simp at h
  | _ :: _, [], _, _, h, _, _, _ => by simp at h
  | _, [], _ :: _, _, _, h, _, _ => by simp at h
  | _, _ :: _, [], _, _, h, _, _ => by simp at h
  | r :: rs, t :: ts, s :: lines, c, h1, h2, hs, hg => by
    obtain ⟨hwf, hw⟩ := hg (t, s) (by simp)
    have hwr := writeDisco_readback t r s hwf hw (hs (r, t) (by simp))
    have ih := rd_mapM_write rs ts lines (c + 1) (by simpa using h1) (by simpa using h2)
      (fun p hp => hs p (by simp [hp])) (fun p hp => hg p (by simp [hp]))
    rw [List.length_cons, List.range'_succ, List.zip_cons_cons, List.mapM_cons, ih]
    simp only [writeOne, hwr]
    simp [bind, Except.bind, pure, Except.pure, Except.map]

/-- discobrackets -> discobrackets for a file of k lines -/
theorem disco_disco_id_file (ts : List Tree) (lines : List Str) (hl : lines.length = ts.length)
    (h : ∀ p ∈ ts.zip lines, WF p.1 = true ∧ BracketsOK p.1 = true ∧
      (∀ x ∈ p.1.subtrees, replaceParens x.fields.label = x.fields.label) ∧ writeDisco {} p.1 = .ok p.2) :
    runFrom [] .discobrackets {} none (readBrackets { disco := true } ((lines.map (· ++ ['\n'])).flatten)) =
      .ok ((lines.map (· ++ ['\n'])).flatten) := by
  obtain ⟨rs, hr, hlen, hsame⟩ := readDisco_write_file ts lines hl h
  have hm := rd_mapM_write rs ts lines 1 hlen hl hsame (fun p hp => ⟨(h p hp).1, (h p hp).2.2.2⟩)
  rw [hr, TT.Lemmas.Run.runFrom_ok, TT.Lemmas.Run.transformAll_nil_steps]
  show writeAll .discobrackets {} none _ = _
  rw [TT.Lemmas.Run.writeAll_plain .discobrackets {} none _ (by decide)]
  unfold TT.Lemmas.Run.bodyText
  rw [hm]
  rfl

open TT.Props.C02 in
/-- the discontinuous example tree through the command -/
example : runFrom [] .discobrackets {} none (readBrackets { disco := true } ("(S(VP(A 1)(C 3))(B 2))\ta b c".toList ++ ['\n'])) =
    .ok ("(S(VP(A 1)(C 3))(B 2))\ta b c".toList ++ ['\n']) :=
  disco_disco_id exDisc _ (by decide +kernel) (by decide +kernel) (by decide +kernel) (by decide +kernel)

open TT.Props.C02 in
/-- a file of two lines through the command -/
example : runFrom [] .discobrackets {} none
      (readBrackets { disco := true } "(S(VP(A 1)(C 3))(B 2))\ta b c\n(S(VP(A 1)(D 4))(B 2)(C 3))\t2 b 7 [d]\n".toList) =
    .ok "(S(VP(A 1)(C 3))(B 2))\ta b c\n(S(VP(A 1)(D 4))(B 2)(C 3))\t2 b 7 [d]\n".toList :=
  disco_disco_id_file [exDisc, exRd] ["(S(VP(A 1)(C 3))(B 2))\ta b c".toList, "(S(VP(A 1)(D 4))(B 2)(C 3))\t2 b 7 [d]".toList] rfl
    (by
      intro p hp
      simp only [List.zip_cons_cons, List.zip_nil_right, List.mem_cons, List.not_mem_nil, or_false] at hp
      rcases hp with rfl | rfl
      · exact ⟨by decide +kernel, by decide +kernel, by decide +kernel, by decide +kernel⟩
      · exact ⟨by decide +kernel, by decide +kernel, by decide +kernel, by decide +kernel⟩)

end TT.Props.C03Total
