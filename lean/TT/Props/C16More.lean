/-
  C16 (more) — three notions of discontinuity, continuous reordering, accumulators.

  Proved exactly as stated: `extract_cf_iff`, `gapDegree_zero_iff`, `discoOrder_perm`,
  `discoOrder_id_of_continuous`, `bump_total`, `gapstats_totals`, `bump_keys_nodup`.
  FALSE as stated: `three_notions_agree` (first conjunct; counterexample as an `example`, corrected versions
  `three_notions_agree_valueError`, `three_notions_agree'`, `three_notions_agree_plain` proved, and
  `three_notions_first_iff` shows the extra hypothesis is the weakest possible; see the note at the end).
-/
import TT.Lemmas.Analysis
import TT.Props.C02
import TT.Props.C06
import TT.Props.C16
namespace TT.Props.C16More
open TT TT.Tree TT.Spec
open TT.Lemmas.Analysis

/-- equality of writer results is decidable (used by the concrete instances below only) -/
local instance instDecEqExcept {ε α} [DecidableEq ε] [DecidableEq α] : DecidableEq (Except ε α)
  | .ok a, .ok b => decidable_of_iff (a = b) (by simp)
  | .error a, .error b => decidable_of_iff (a = b) (by simp)
  | .ok _, .error _ => isFalse (by simp)
  | .error _, .ok _ => isFalse (by simp)

/-! ### concrete trees for the instances -/

/-- `(S (VP a/1 c/3) b/2)`: binary, well-formed, the VP has the gap `2` -/
abbrev exDisc : Tree := TT.Props.C02.exDisc
/-- `(S (NP w/1) [b]/2)` stored with the token `2` first: binary, well-formed, continuous -/
abbrev exCont : Tree := TT.Props.C02.exCont
/-- a continuous tree whose root has no `head` field value (every tree built by the readers before head marking) -/
def exNoHead : Tree := node { label := "S".toList } [leaf 1 { label := "A".toList, word := some "a".toList }]

/-! ### context-freeness of the extracted grammar -/

/-- the grammar extracted from one tree is context-free iff no constituent has a gap
    (general form: `noEmpty` is not needed) -/
theorem extract_cf_iff' (t : Tree) :
    isContextFree (extract t ([], [])).1 = true ↔ ∀ s ∈ t.subtrees, gapDegreeNode s = 0 := by
  rw [extract_cf]
  exact events_all_cf t []

set_option linter.unusedVariables false in
/-- the grammar extracted from one tree is context-free iff no constituent has a gap -/
theorem extract_cf_iff (t : Tree) (h : t.noEmpty = true) :
    isContextFree (extract t ([], [])).1 = true ↔ ∀ s ∈ t.subtrees, gapDegreeNode s = 0 :=
  extract_cf_iff' t

example : exDisc.noEmpty = true ∧ exCont.noEmpty = true := by decide
/-- the discontinuous tree gives an LCFRS rule with two arguments for the VP, the continuous one a CFG -/
example : isContextFree (extract exDisc ([], [])).1 = false ∧ isContextFree (extract exCont ([], [])).1 = true := by
  decide
example : ∀ s ∈ exCont.subtrees, gapDegreeNode s = 0 := (extract_cf_iff exCont (by decide)).1 (by decide)
example : ¬ ∀ s ∈ exDisc.subtrees, gapDegreeNode s = 0 := fun h =>
  absurd ((extract_cf_iff exDisc (by decide)).2 h) (by decide)

/-- over a treebank: the clause "context-free iff every tree is continuous" of `extractOK`, for every treebank -/
theorem extractAll_cf (ts : List Tree) :
    isContextFree (extractAll ts).1 = ts.all fun t => t.subtrees.all fun s => s.gapDegreeNode == 0 := by
  unfold extractAll
  rw [foldl_extract_cf]
  simp only [isContextFree, List.all_nil, Bool.true_and]
  congr 1
  funext t
  rw [Bool.eq_iff_iff, events_all_cf t []]
  simp

theorem extractAll_cf_iff (ts : List Tree) :
    isContextFree (extractAll ts).1 = true ↔ ∀ t ∈ ts, continuous t = true := by
  rw [extractAll_cf]
  simp [continuous]

example : isContextFree (extractAll [exCont, exDisc]).1 = false ∧ isContextFree (extractAll [exCont, exCont]).1 = true := by
  rw [extractAll_cf, extractAll_cf]; decide

/-! ### gap degree zero -/

/-- tree gap degree zero iff every node has gap degree zero -/
theorem gapDegree_zero_iff (t : Tree) : gapDegree t = 0 ↔ ∀ s ∈ t.preorder, gapDegreeNode s = 0 := by
  constructor
  · intro h s hs
    have := TT.Props.C16.gapDegree_ge t s hs
    omega
  · intro h
    obtain ⟨s, hs, he⟩ := TT.Props.C16.gapDegree_attained t
    rw [← he]
    exact h s hs

/-- the same over the storage-order enumeration of the nodes -/
theorem gapDegree_zero_iff_subtrees (t : Tree) : gapDegree t = 0 ↔ ∀ s ∈ t.subtrees, gapDegreeNode s = 0 := by
  rw [gapDegree_zero_iff]
  exact ⟨fun h s hs => h s ((TT.Lemmas.Nav.preorder_perm_subtrees t).mem_iff.2 hs),
    fun h s hs => h s ((TT.Lemmas.Nav.preorder_perm_subtrees t).mem_iff.1 hs)⟩

/-- `gap_degree(tree) == 0` is the specification-side `continuous` -/
theorem gapDegree_zero_iff_continuous (t : Tree) : gapDegree t = 0 ↔ continuous t = true := by
  rw [gapDegree_zero_iff_subtrees]
  simp [continuous]

example : gapDegree exCont = 0 ∧ gapDegree exDisc = 1 := by decide
example : ∀ s ∈ exCont.preorder, gapDegreeNode s = 0 := (gapDegree_zero_iff exCont).1 (by decide)
example : (exDisc.preorder.map gapDegreeNode) = [0, 1, 0, 0, 0] := by decide

/-! ### the three notions agree -/

/-- the second and third notion: gap degree > 0 iff the extracted grammar is not context-free (no hypothesis needed) -/
theorem gapDegree_pos_iff_not_cf (t : Tree) :
    gapDegree t > 0 ↔ isContextFree (extract t ([], [])).1 = false := by
  have h1 := extract_cf_iff' t
  have h2 := gapDegree_zero_iff_subtrees t
  rw [← h2] at h1
  cases hc : isContextFree (extract t ([], [])).1
  · rw [hc] at h1
    simp only [iff_true]
    have : ¬ gapDegree t = 0 := fun h => by simpa using h1.2 h
    omega
  · have := h1.1 hc
    simp [this]

/-- COUNTEREXAMPLE to `three_notions_agree` as stated (first conjunct): with `markHeads` the writer fails with a
    `KeyError` on a continuous tree whose nodes carry no head mark, so "some error" does not imply a gap.
    All hypotheses hold, the first conjunct fails. -/
example : exNoHead.noEmpty = true ∧ ({ markHeads := true } : OutOpts).skipDisco = false ∧
    ¬ (gapDegree exNoHead > 0 ↔ ∃ e, writeBrackets { markHeads := true } exNoHead = .error e) := by
  refine ⟨by decide, rfl, ?_⟩
  intro h
  have h0 : ¬ gapDegree exNoHead > 0 := by decide
  exact h0 (h.2 ⟨.keyError, by decide⟩)

set_option linter.unusedVariables false in
/-- CORRECTED `three_notions_agree`, no extra hypothesis: the refusal is the `ValueError` (the only error the
    discontinuity check raises; every other failure of the writer is a `KeyError`). -/
theorem three_notions_agree_valueError (o : OutOpts) (t : Tree) (h : t.noEmpty = true) (ho : o.skipDisco = false) :
    (gapDegree t > 0 ↔ writeBrackets o t = .error .valueError) ∧
    (gapDegree t > 0 ↔ isContextFree (extract t ([], [])).1 = false) := by
  refine ⟨?_, gapDegree_pos_iff_not_cf t⟩
  unfold writeBrackets
  by_cases hg : gapDegree t > 0
  · simp [hg, ho]
  · simp only [hg, if_false, false_iff]
    intro he
    cases hb : bracketsSub o o.emptyRoot t with
    | ok s => rw [hb] at he; simp [Except.map] at he
    | error e =>
      have := bracketsSub_error o _ t e hb
      subst this
      rw [hb] at he
      simp [Except.map] at he

/-- the first conjunct as stated holds exactly when the labels of a continuous tree can be written -/
theorem three_notions_first_iff (o : OutOpts) (t : Tree) (ho : o.skipDisco = false) :
    (gapDegree t > 0 ↔ ∃ e, writeBrackets o t = .error e) ↔
      (gapDegree t = 0 → ∀ e, bracketsSub o o.emptyRoot t ≠ .error e) := by
  by_cases hg : gapDegree t > 0
  · have : ¬ gapDegree t = 0 := by omega
    unfold writeBrackets
    simp [hg, ho, this]
  · have h0 : gapDegree t = 0 := by omega
    have hw : writeBrackets o t = (bracketsSub o o.emptyRoot t).map some := by
      unfold writeBrackets; rw [if_neg hg]
    rw [hw]
    constructor
    · intro h _ e hb
      exact hg (h.2 ⟨e, by rw [hb]; rfl⟩)
    · intro h
      refine ⟨fun hp => absurd hp hg, ?_⟩
      rintro ⟨e, he⟩
      cases hb : bracketsSub o o.emptyRoot t with
      | ok s => rw [hb] at he; simp [Except.map] at he
      | error e' => exact absurd hb (h h0 e')

set_option linter.unusedVariables false in
/-- CORRECTED `three_notions_agree`: the statement as given plus the hypothesis `hb` (the subtree writer does not
    fail on this tree, i.e. every label can be decorated); by `three_notions_first_iff` no weaker hypothesis does. -/
theorem three_notions_agree' (o : OutOpts) (t : Tree) (h : t.noEmpty = true) (ho : o.skipDisco = false)
    (hb : ∀ e, bracketsSub o o.emptyRoot t ≠ .error e) :
    (gapDegree t > 0 ↔ ∃ e, writeBrackets o t = .error e) ∧
    (gapDegree t > 0 ↔ isContextFree (extract t ([], [])).1 = false) :=
  ⟨(three_notions_first_iff o t ho).2 fun _ => hb, gapDegree_pos_iff_not_cf t⟩

/-- CORRECTED `three_notions_agree`, option form: no head marks, no split marks, no split numbers requested -/
theorem three_notions_agree_plain (o : OutOpts) (t : Tree) (h : t.noEmpty = true) (ho : o.skipDisco = false)
    (h1 : o.markHeads = false) (h2 : o.splitMarking = false) (h3 : o.splitNumbering = false) :
    (gapDegree t > 0 ↔ ∃ e, writeBrackets o t = .error e) ∧
    (gapDegree t > 0 ↔ isContextFree (extract t ([], [])).1 = false) :=
  three_notions_agree' o t h ho (bracketsSub_ne_error_of_plain o h1 h2 h3 _ t)

/-- all three notions on the discontinuous tree, and on the continuous one -/
example : gapDegree exDisc > 0 ∧ writeBrackets { gf := true } exDisc = .error .valueError ∧
    isContextFree (extract exDisc ([], [])).1 = false := by decide +kernel
example : ¬ gapDegree exCont > 0 ∧ (∀ e, writeBrackets { gf := true } exCont ≠ .error e) ∧
    isContextFree (extract exCont ([], [])).1 = true := by
  have h := three_notions_agree_plain { gf := true } exCont (by decide) rfl rfl rfl rfl
  have h0 : ¬ gapDegree exCont > 0 := by decide
  exact ⟨h0, fun e he => h0 (h.1.2 ⟨e, he⟩), by decide⟩
/-- `hb` holds on a tree with head marks everywhere even when `markHeads` is requested -/
example : bracketsSub { markHeads := true } false
    (node { label := "S".toList, head := some false } [leaf 1 { label := "A".toList, head := some true }]) =
      .ok "(S(A' None))".toList := by
  decide +kernel

/-! ### the continuous reordering -/

/-- the continuous reordering of a binarized tree is a permutation of its tokens -/
theorem discoOrder_perm (rightd : Bool) (t : Tree) (l : List Nat) (h : discoOrder rightd t = .ok l) : l.Perm t.leafNums :=
  TT.Lemmas.Analysis.discoOrder_perm rightd t l h

/-- (the hypothesis of `discoOrder_perm` says that the tree is at most binary everywhere) -/
theorem discoOrder_ok_binary (rightd : Bool) (t : Tree) (l : List Nat) (h : discoOrder rightd t = .ok l) :
    ∀ s ∈ t.subtrees, s.kids.length ≤ 2 :=
  TT.Lemmas.Analysis.discoOrder_ok_binary rightd t l h

/-- the gap of the VP is closed by moving its right block to the left (mode `left`) or the intervening
    material to the left of the whole VP (mode `rightd`) -/
example : discoOrder false exDisc = .ok [1, 3, 2] ∧ discoOrder true exDisc = .ok [2, 1, 3] ∧
    exDisc.leafNums = [1, 3, 2] := by decide
example : [2, 1, 3].Perm exDisc.leafNums := discoOrder_perm true exDisc _ (by decide)
/-- a ternary node is refused -/
example : discoOrder false (node {} [leaf 1 {}, leaf 2 {}, leaf 3 {}]) = .error .valueError := by decide

/-- and it is the identity order for a continuous well-formed tree, in both modes -/
theorem discoOrder_id_of_continuous (rightd : Bool) (t : Tree) (l : List Nat) (h : discoOrder rightd t = .ok l)
    (hwf : WF t = true) (hc : continuous t = true) : l = t.yield :=
  discoOrder_id_of_good rightd t (TT.Lemmas.Trans.Good_of_WF t hwf hc) l h

/-- storage order `2, 1`, reordering `1, 2` in both modes -/
example : WF exCont = true ∧ continuous exCont = true ∧ exCont.leafNums = [2, 1] ∧
    discoOrder false exCont = .ok [1, 2] ∧ discoOrder true exCont = .ok [1, 2] := by decide
example : ([1, 2] : List Nat) = exCont.yield :=
  discoOrder_id_of_continuous true exCont _ (by decide) (by decide) (by decide)
/-- not so for the discontinuous tree -/
example : WF exDisc = true ∧ continuous exDisc = false ∧ exDisc.yield = [1, 2, 3] ∧
    discoOrder true exDisc ≠ .ok exDisc.yield := by decide

/-! ### accumulators -/

/-- accumulators: per-degree counts sum to the totals -/
theorem bump_total (k : Nat) (l : List (Nat × Nat)) : GapStats.total (bump k l) = GapStats.total l + 1 :=
  TT.Lemmas.Analysis.bump_total k l

example : bump 1 [(0, 3), (1, 2)] = [(0, 3), (1, 3)] ∧ bump 2 [(0, 3), (1, 2)] = [(0, 3), (1, 2), (2, 1)] ∧
    GapStats.total [(0, 3), (1, 2)] = 5 ∧ GapStats.total (bump 1 [(0, 3), (1, 2)]) = 6 := by decide

theorem gapstats_totals (ts : List Tree) :
    GapStats.total (ts.foldl GapStats.run {}).perTree = ts.length ∧
    GapStats.total (ts.foldl GapStats.run {}).perNode = (ts.map fun t => (t.preorder.filter fun x => !x.kids.isEmpty).length).sum := by
  obtain ⟨h1, h2⟩ := foldl_run_totals ts {}
  rw [h1, h2]
  simp [GapStats.total, constituents]

/-- two trees, two constituents each; one node (the VP) and one tree of gap degree 1 -/
example : [exCont, exDisc].foldl GapStats.run {} = { perNode := [(0, 3), (1, 1)], perTree := [(0, 1), (1, 1)] } := by
  decide
example : GapStats.total ([exCont, exDisc].foldl GapStats.run {}).perTree = 2 ∧
    GapStats.total ([exCont, exDisc].foldl GapStats.run {}).perNode = 4 := by
  obtain ⟨h1, h2⟩ := gapstats_totals [exCont, exDisc]
  exact ⟨h1, h2.trans (by decide)⟩

theorem bump_keys_nodup (k : Nat) (l : List (Nat × Nat)) (h : (l.map (·.1)).Nodup) : ((bump k l).map (·.1)).Nodup :=
  TT.Lemmas.Analysis.bump_keys_nodup k l h

example : ([(0, 3), (1, 2)].map (·.1)).Nodup := by decide
example : ((bump 2 [(0, 3), (1, 2)]).map (·.1)).Nodup := bump_keys_nodup 2 _ (by decide)

/-- hence the tables of the `GapDegree` task never list a degree twice -/
theorem gapstats_keys_nodup (ts : List Tree) :
    (((ts.foldl GapStats.run {}).perNode).map (·.1)).Nodup ∧ (((ts.foldl GapStats.run {}).perTree).map (·.1)).Nodup := by
  have hfold : ∀ (ds : List Nat) (l : List (Nat × Nat)), (l.map (·.1)).Nodup →
      ((ds.foldl (fun acc d => bump d acc) l).map (·.1)).Nodup := by
    intro ds
    induction ds with
    | nil => intro l h; exact h
    | cons d ds ih => intro l h; exact ih _ (bump_keys_nodup d l h)
  have hrun : ∀ (ts : List Tree) (s : GapStats), (s.perNode.map (·.1)).Nodup → (s.perTree.map (·.1)).Nodup →
      (((ts.foldl GapStats.run s).perNode).map (·.1)).Nodup ∧ (((ts.foldl GapStats.run s).perTree).map (·.1)).Nodup := by
    intro ts
    induction ts with
    | nil => intro s h1 h2; exact ⟨h1, h2⟩
    | cons t ts ih =>
      intro s h1 h2
      exact ih (s.run t) (hfold _ _ h1) (bump_keys_nodup _ _ h2)
  exact hrun ts {} (by simp) (by simp)

/-- a `bump` adds one to the addressed count and leaves every other count alone -/
theorem bump_count (k k' : Nat) (l : List (Nat × Nat)) :
    ((bump k l).find? (·.1 == k')).map (·.2) =
      if k' = k then some (((l.find? (·.1 == k)).map (·.2)).getD 0 + 1) else (l.find? (·.1 == k')).map (·.2) :=
  bump_get k k' l

/-
  NOTE on `three_notions_agree`.  The statement given was

    theorem three_notions_agree (o : OutOpts) (t : Tree) (h : t.noEmpty = true) (ho : o.skipDisco = false) :
        (gapDegree t > 0 ↔ ∃ e, writeBrackets o t = .error e) ∧
        (gapDegree t > 0 ↔ isContextFree (extract t ([], [])).1 = false)

  Its first conjunct is FALSE: for a continuous tree `writeBrackets` runs `bracketsSub`, which fails with a
  `KeyError` when `markHeads` / `splitMarking` / `splitNumbering` is requested and a node lacks the `head` /
  `split` / `blockNumber` value.  Counterexample: `o = { markHeads := true }`, `t = exNoHead = (S (A a))`:
  `gapDegree t = 0` but `writeBrackets o t = .error .keyError` (see the `example` above).
  Proved instead:
    * `three_notions_agree_valueError` — same hypotheses, the refusal pinned to `.error .valueError`;
    * `three_notions_agree'` — the statement as given under `hb : ∀ e, bracketsSub o o.emptyRoot t ≠ .error e`,
      which by `three_notions_first_iff` is (on continuous trees) equivalent to the first conjunct, so minimal;
    * `three_notions_agree_plain` — the statement as given under `markHeads = splitMarking = splitNumbering = false`.
  The second conjunct holds without any hypothesis (`gapDegree_pos_iff_not_cf`).
-/

end TT.Props.C16More
