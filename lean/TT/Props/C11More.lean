/-
  C11 (more) — what `ptb_delete_traces` does to labels: the cleaning pass, stated on label pieces.
  Helper lemmas live in TT/Lemmas/More4.lean (and TT/Lemmas/Edit.lean, TT/Lemmas/C20.lean).
-/
import TT.Spec.Edit
import TT.Spec.Label
import TT.Lemmas.Edit
import TT.Lemmas.More4
import TT.Props.C11
namespace TT.Props.C11More
open TT TT.Tree TT.Spec

/-- cleaning a label removes exactly the gap-index piece and (unless kept) the co-index piece of the label -/
theorem cleanLabel_pieces (o : TraceOpts) (l : Str) :
    cleanLabel o l = render DEFAULT_GF_SEP false false
      (((decompose DEFAULT_GF_SEP l).erase .gap) |> fun p => if o.keepcoindex then p else p.erase .co) := by
  cases hk : o.keepcoindex
  · exact TT.Lemmas.More4.cleanLabel_render_nokeep o l hk
  · exact TT.Lemmas.More4.cleanLabel_render_keep o l hk

example : cleanLabel {} "NP-SBJ=1-2'".toList = "NP-SBJ'".toList ∧
    cleanLabel { keepcoindex := true } "NP-SBJ=1-2'".toList = "NP-SBJ-2'".toList ∧
    (decompose DEFAULT_GF_SEP "NP-SBJ=1-2'".toList).erase .gap =
      { cat := "NP".toList, gfP := "-SBJ".toList, gapP := [], coP := "-2".toList, hmP := "'".toList } := by
  decide

/-- extra: on labels without a default literal the cleaned label is literally the remaining pieces -/
theorem cleanLabel_concat (o : TraceOpts) (l : Str)
    (hd : noDefaultLiteral DEFAULT_GF_SEP (decompose DEFAULT_GF_SEP l) = true) :
    cleanLabel o l =
      (decompose DEFAULT_GF_SEP l).cat ++ (decompose DEFAULT_GF_SEP l).gfP ++
        (if o.keepcoindex then (decompose DEFAULT_GF_SEP l).coP else []) ++ (decompose DEFAULT_GF_SEP l).hmP := by
  rw [cleanLabel_pieces]
  cases hk : o.keepcoindex
  · rw [TT.Lemmas.More4.render_noDefault _ _ (by simpa [noDefaultLiteral, Pieces.erase] using hd)]
    simp [Pieces.concat, Pieces.erase]
  · rw [TT.Lemmas.More4.render_noDefault _ _ (by simpa [noDefaultLiteral, Pieces.erase] using hd)]
    simp [Pieces.concat, Pieces.erase]

example : noDefaultLiteral DEFAULT_GF_SEP (decompose DEFAULT_GF_SEP "X-Y-3=4'".toList) = true ∧
    cleanLabel {} "X-Y-3=4'".toList = "X-Y-3'".toList := by decide

/-- trace deletion cleans every constituent label and touches no other label -/
theorem cleanLabels_consLabels (o : TraceOpts) (t : Tree) (h : t.noEmpty = true) :
    consLabels (cleanLabels o t) = (consLabels t).map (cleanLabel o) :=
  TT.Lemmas.More4.cleanLabels_consLabels o t h

example : TT.Props.C11.exTr.noEmpty = true ∧
    consLabels (cleanLabels {} TT.Props.C11.exTr) = ["S".toList, "NP".toList, "VP".toList, "NP".toList] ∧
    consLabels TT.Props.C11.exTr = ["S".toList, "NP-1".toList, "VP".toList, "NP".toList] := by decide

/-- the hypothesis is needed: a childless constituent keeps its label uncleaned -/
example : consLabels (cleanLabels {} (node { label := "NP-1".toList } [])) = ["NP-1".toList] ∧
    (consLabels (node { label := "NP-1".toList } [])).map (cleanLabel {}) = ["NP".toList] := by decide

/-- tokens are not relabelled by the cleaning pass -/
theorem cleanLabels_leaves (o : TraceOpts) (t : Tree) : (cleanLabels o t).leaves = t.leaves :=
  TT.Lemmas.Edit.cleanLabels_leaves o t

example : (cleanLabels {} TT.Props.C11.exTr).leaves.map (fun l => (l.num, l.fields.label)) =
    [(1, "N".toList), (2, "V".toList), (3, "-NONE-".toList), (4, "-NONE-".toList), (5, ".".toList)] := by decide

/-- labels in the documented order (category, optional function, no digits-only suffix left after removing the two index pieces) carry no index afterwards -/
theorem cleanLabel_noIndex (o : TraceOpts) (l : Str)
    (h : let p := decompose DEFAULT_GF_SEP l
         (decompose DEFAULT_GF_SEP (p.cat ++ p.gfP ++ p.hmP)).gapP = [] ∧ (decompose DEFAULT_GF_SEP (p.cat ++ p.gfP ++ p.hmP)).coP = [])
    (hk : o.keepcoindex = false) (hd : noDefaultLiteral DEFAULT_GF_SEP (decompose DEFAULT_GF_SEP l) = true) :
    noIndexLeft false (cleanLabel o l) = true := by
  have e := cleanLabel_concat o l hd
  simp only [hk, Bool.false_eq_true, if_false, List.append_nil] at e
  dsimp only at h
  rw [e]
  have := TT.Lemmas.More4.noIndex_of_pieces _ h.1 h.2
  simp only [noIndexLeft, this.1, this.2, Bool.or_true, Bool.and_self]

example :
    (let p := decompose DEFAULT_GF_SEP "NP-SBJ=1-2'".toList
     (decompose DEFAULT_GF_SEP (p.cat ++ p.gfP ++ p.hmP)).gapP = [] ∧
       (decompose DEFAULT_GF_SEP (p.cat ++ p.gfP ++ p.hmP)).coP = []) ∧
    noDefaultLiteral DEFAULT_GF_SEP (decompose DEFAULT_GF_SEP "NP-SBJ=1-2'".toList) = true ∧
    noIndexLeft false (cleanLabel {} "NP-SBJ=1-2'".toList) = true := by decide

/-- the first hypothesis is needed: with stacked indices one index is left -/
example : noDefaultLiteral DEFAULT_GF_SEP (decompose DEFAULT_GF_SEP "A-1-2-3".toList) = true ∧
    cleanLabel {} "A-1-2-3".toList = "A-1-2".toList ∧
    noIndexLeft false (cleanLabel {} "A-1-2-3".toList) = false := by decide

/-- the last hypothesis is needed: dropping the literal default function `--` exposes `=2` as an index -/
example :
    (let p := decompose DEFAULT_GF_SEP "1=2---".toList
     (decompose DEFAULT_GF_SEP (p.cat ++ p.gfP ++ p.hmP)).gapP = [] ∧
       (decompose DEFAULT_GF_SEP (p.cat ++ p.gfP ++ p.hmP)).coP = []) ∧
    noDefaultLiteral DEFAULT_GF_SEP (decompose DEFAULT_GF_SEP "1=2---".toList) = false ∧
    cleanLabel {} "1=2---".toList = "1=2".toList ∧
    noIndexLeft false (cleanLabel {} "1=2---".toList) = false := by decide

/-- extra: with `keepcoindex` the gap index is still gone under the same kind of hypothesis -/
theorem cleanLabel_noGap_keep (o : TraceOpts) (l : Str)
    (h : let p := decompose DEFAULT_GF_SEP l
         (decompose DEFAULT_GF_SEP (p.cat ++ p.gfP ++ p.coP ++ p.hmP)).gapP = [])
    (hk : o.keepcoindex = true) (hd : noDefaultLiteral DEFAULT_GF_SEP (decompose DEFAULT_GF_SEP l) = true) :
    noIndexLeft true (cleanLabel o l) = true := by
  have e := cleanLabel_concat o l hd
  simp only [hk, if_true] at e
  dsimp only at h
  rw [e]
  obtain ⟨lab, gf, gfP, gap, co, hm, hf2, hp, hdd⟩ := TT.Lemmas.C20.parse_decompose DEFAULT_GF_SEP
    ((decompose DEFAULT_GF_SEP l).cat ++ (decompose DEFAULT_GF_SEP l).gfP ++ (decompose DEFAULT_GF_SEP l).coP ++
      (decompose DEFAULT_GF_SEP l).hmP)
  rw [hdd] at h
  simp only [noIndexLeft, hp, Bool.true_or, Bool.and_true]
  cases hg : gap.isEmpty
  · simp [hg] at h
  · rfl

example :
    (let p := decompose DEFAULT_GF_SEP "NP-SBJ=1-2'".toList
     (decompose DEFAULT_GF_SEP (p.cat ++ p.gfP ++ p.coP ++ p.hmP)).gapP = []) ∧
    noIndexLeft true (cleanLabel { keepcoindex := true } "NP-SBJ=1-2'".toList) = true := by decide

end TT.Props.C11More
