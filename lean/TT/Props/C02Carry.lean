/-
  C02Carry — a writer looks only at what its format carries (cf. `TT.Props.C03Run.writeExport_carry'`):
  the TIGER-XML writer, the bracket writer and the discontinuous-bracket writer give the same text for a tree and for its
  carried content (`carryTigerRoot`, `carryBrackets o true`).

  * `writeTiger_carry`: NO hypothesis is needed (not well-formedness, not distinct token numbers, childless constituents allowed).
  * `writeBrackets_carry`, `writeDisco_carry`: hypotheses `PlainOpts o` (no label decoration, as for the export writer) and three
    conditions on the tree, each of which is needed (counterexamples below, all first found with `#eval`); see the note at the end.
  Helpers: `TT/Lemmas/More8.lean` (part 2).
-/
import TT.Lemmas.More8
import TT.Props.C03Run
namespace TT.Props.C02Carry
open TT TT.Tree TT.Spec
open TT.Lemmas.Run TT.Lemmas.More8

/-! ### TIGER-XML -/

theorem carryTigerRoot_node (f : Fields) (ks : List Tree) :
    carryTigerRoot (node f ks) = node { label := f.label, edge := some DEFAULT_EDGE } (ks.map carryTiger) := by
  simp [carryTigerRoot, carryTiger, TT.Lemmas.TigerRT.carryTigerL_eq]

/-- a writer looks only at what its format carries (cf. writeExport_carry'): the TIGER-XML writer, without any hypothesis -/
theorem writeTiger_carry (sid : Nat) (t : Tree) : writeTiger sid (carryTigerRoot t) = writeTiger sid t := by
  cases t with
  | leaf n f =>
    have : carryTigerRoot (leaf n f) = carryTiger (leaf n f) := by simp [carryTigerRoot, carryTiger]
    rw [this]
    exact writeTiger_leaf_carry sid n f
  | node f ks =>
    rw [carryTigerRoot_node]
    exact writeTiger_shape_carryTiger sid f _ ks rfl

/-- the same for the content without the special treatment of the root's edge label -/
theorem writeTiger_carryTiger (sid : Nat) (t : Tree) : writeTiger sid (carryTiger t) = writeTiger sid t := by
  cases t with
  | leaf n f => exact writeTiger_leaf_carry sid n f
  | node f ks =>
    rw [carryTiger, TT.Lemmas.TigerRT.carryTigerL_eq]
    exact writeTiger_shape_carryTiger sid f _ ks rfl

/-- a tree stored out of order, with a repeated token number, a childless constituent that has a word, optional keys of every
    kind and a root edge label -/
def exOdd : Tree := node { label := "S".toList, edge := some "X".toList, word := some "rootw".toList }
  [leaf 2 { label := "B(".toList, word := some "b)".toList, edge := some "HD".toList, head := some true, lemma := some "lem".toList },
   node { label := "VP".toList, edge := some "OC".toList, morph := some "m".toList, word := some "ignored".toList }
     [leaf 1 { label := "A".toList, word := some "a".toList, edge := some "-x".toList }, leaf 3 { label := "C".toList }],
   node { label := "E".toList, word := some "ew".toList, edge := some "ee".toList } [],
   leaf 3 { label := "D".toList, word := some "--LRB--".toList }]

example : writeTiger 5 (carryTigerRoot exOdd) = writeTiger 5 exOdd := writeTiger_carry 5 exOdd
example : Tree.beq (carryTigerRoot exOdd) exOdd = false := by decide
example : (writeTiger 5 exOdd).length = 22 := by decide +kernel

/-! ### brackets -/

/-- general form, `gf` decoration allowed (the carried content has no edge label, so nothing is appended a second time):
    only the options that need the `head` / `split` keys are excluded.  The conditions on the tree: mapping the parentheses
    in the PRINTED label of a token changes nothing; the words of the tokens are stable; a childless constituent is written with
    the word `None` and its printed label commutes with the parenthesis mapping; with `emptyRoot` the root is not childless. -/
theorem writeBrackets_carry_gf (o : OutOpts) (t : Tree) (hm : NoMarks o)
    (h1 : ∀ n f, leaf n f ∈ subtrees t →
      replaceParens (printedLabel o (leaf n (replaceParensFields f))) = printedLabel o (leaf n (replaceParensFields f)) ∧
      ∀ w, f.word = some w → ParenStable w)
    (h2 : ∀ f, node f [] ∈ subtrees t →
      replaceParens (printedLabel o (node f [])) = printedLabel o (node (replaceParensFields f) []) ∧
      (f.word.map replaceParens).getD "None".toList = "None".toList)
    (h3 : o.emptyRoot = true → ∀ f, t ≠ node f []) :
    writeBrackets o (carryBrackets o true t) = writeBrackets o t :=
  writeBrackets_carry_nm o hm t h1 h2 h3

theorem writeDisco_carry_gf (o : OutOpts) (t : Tree) (hm : NoMarks o)
    (h1 : ∀ n f, leaf n f ∈ subtrees t →
      replaceParens (printedLabel o (leaf n (replaceParensFields f))) = printedLabel o (leaf n (replaceParensFields f)) ∧
      (f.word.map replaceParens).getD "None".toList = f.word.getD "None".toList)
    (h2 : ∀ f, node f [] ∈ subtrees t →
      replaceParens (printedLabel o (node f [])) = printedLabel o (node (replaceParensFields f) []) ∧
      (f.word.map replaceParens).getD "None".toList = "None".toList)
    (h3 : o.emptyRoot = true → ∀ f, t ≠ node f []) :
    writeDisco o (carryBrackets o true t) = writeDisco o t :=
  writeDisco_carry_nm o hm t h1 h2 h3

theorem printedLabel_tok_plain (o : OutOpts) (ho : PlainOpts o) (n : Nat) (f : Fields) :
    printedLabel o (leaf n (replaceParensFields f)) = replaceParens f.label := by
  rw [printedLabel_plain o ho]
  simp only [fields, replaceParensFields]

/-- a writer looks only at what its format carries: the bracket writer.  Hypotheses: no label decoration; mapping the
    parentheses a second time changes nothing in the labels and words of the tokens; a childless constituent is written with the
    word `None`; with `emptyRoot` the root is not a childless constituent. -/
theorem writeBrackets_carry (o : OutOpts) (t : Tree)
    (h : PlainOpts o ∧
      (∀ n f, leaf n f ∈ subtrees t → ParenStable f.label ∧ ∀ w, f.word = some w → ParenStable w) ∧
      (∀ f, node f [] ∈ subtrees t → (f.word.map replaceParens).getD "None".toList = "None".toList) ∧
      (o.emptyRoot = true → ∀ f, t ≠ node f [])) :
    writeBrackets o (carryBrackets o true t) = writeBrackets o t := by
  obtain ⟨ho, h1, h2, h3⟩ := h
  refine writeBrackets_carry_gf o t (noMarks_of_plain o ho) ?_ ?_ h3
  · intro n f hm
    rw [printedLabel_tok_plain o ho]
    exact h1 n f hm
  · intro f hm
    rw [printedLabel_plain o ho, printedLabel_plain o ho]
    simp only [fields, replaceParensFields]
    exact ⟨trivial, h2 f hm⟩

/-- a writer looks only at what its format carries: the discontinuous-bracket writer.  The sentence after the TAB is written
    WITHOUT mapping the parentheses, while the carried content has them mapped: the words must be free of them. -/
theorem writeDisco_carry (o : OutOpts) (t : Tree)
    (h : PlainOpts o ∧
      (∀ n f, leaf n f ∈ subtrees t → ParenStable f.label ∧
        (f.word.map replaceParens).getD "None".toList = f.word.getD "None".toList) ∧
      (∀ f, node f [] ∈ subtrees t → (f.word.map replaceParens).getD "None".toList = "None".toList) ∧
      (o.emptyRoot = true → ∀ f, t ≠ node f [])) :
    writeDisco o (carryBrackets o true t) = writeDisco o t := by
  obtain ⟨ho, h1, h2, h3⟩ := h
  refine writeDisco_carry_gf o t (noMarks_of_plain o ho) ?_ ?_ h3
  · intro n f hm
    rw [printedLabel_tok_plain o ho]
    exact h1 n f hm
  · intro f hm
    rw [printedLabel_plain o ho, printedLabel_plain o ho]
    simp only [fields, replaceParensFields]
    exact ⟨trivial, h2 f hm⟩

/-! #### a sufficient condition that is easy to check: no childless constituent, no `-` in the labels and words of the tokens -/

theorem noEmpty_no_childless (t : Tree) (hne : t.noEmpty = true) : ∀ f, node f [] ∉ subtrees t := by
  intro f hm
  have := noEmpty_of_mem_subtrees t hne _ hm
  simp [noEmpty] at this

theorem writeBrackets_carry_nodash (o : OutOpts) (t : Tree) (ho : PlainOpts o) (hne : t.noEmpty = true)
    (hd : ∀ n f, leaf n f ∈ subtrees t → '-' ∉ f.label ∧ ∀ w, f.word = some w → '-' ∉ w) :
    writeBrackets o (carryBrackets o true t) = writeBrackets o t := by
  refine writeBrackets_carry o t ⟨ho, ?_, ?_, ?_⟩
  · intro n f hm
    exact ⟨parenStable_of_no_dash _ (hd n f hm).1, fun w hw => parenStable_of_no_dash _ ((hd n f hm).2 w hw)⟩
  · intro f hm; exact absurd hm (noEmpty_no_childless t hne f)
  · rintro _ f rfl; exact noEmpty_no_childless _ hne f (by simp [subtrees])

/-- for the discontinuous brackets the words must moreover be left alone by the parenthesis mapping -/
theorem writeDisco_carry_nodash (o : OutOpts) (t : Tree) (ho : PlainOpts o) (hne : t.noEmpty = true)
    (hd : ∀ n f, leaf n f ∈ subtrees t → '-' ∉ f.label ∧ ∀ w, f.word = some w → replaceParens w = w) :
    writeDisco o (carryBrackets o true t) = writeDisco o t := by
  refine writeDisco_carry o t ⟨ho, ?_, ?_, ?_⟩
  · intro n f hm
    refine ⟨parenStable_of_no_dash _ (hd n f hm).1, ?_⟩
    cases hw : f.word with
    | none => rfl
    | some w => simp only [Option.map_some, Option.getD_some]; exact (hd n f hm).2 w hw
  · intro f hm; exact absurd hm (noEmpty_no_childless t hne f)
  · rintro _ f rfl; exact noEmpty_no_childless _ hne f (by simp [subtrees])

/-! #### instances -/

/-- a continuous tree stored out of order, with brackets in a label and in a word, a token without word, and keys the
    bracket formats do not hold -/
def exCont : Tree := node { label := "S".toList, edge := some "X".toList, word := some "rootw".toList }
  [leaf 3 { label := "B(".toList, word := some "b)".toList, edge := some "HD".toList, head := some true, lemma := some "lem".toList },
   node { label := "VP".toList, edge := some "OC".toList, morph := some "m".toList, word := some "ignored".toList }
     [leaf 2 { label := "C".toList }, leaf 1 { label := "A".toList, word := some "a".toList, edge := some "-x".toList }]]

/-- the same with a gap and bracket-free words -/
def exDisc : Tree := node { label := "S".toList, edge := some "X".toList }
  [leaf 2 { label := "B(".toList, word := some "b".toList, edge := some "HD".toList, lemma := some "lem".toList },
   node { label := "VP".toList, edge := some "OC".toList, morph := some "m".toList }
     [leaf 3 { label := "C".toList }, leaf 1 { label := "A".toList, word := some "a".toList }]]

theorem exCont_ok : ∀ n f, leaf n f ∈ subtrees exCont → '-' ∉ f.label ∧ ∀ w, f.word = some w → '-' ∉ w := by
  intro n f hm
  simp only [exCont, subtrees, subtreesL, List.mem_cons, List.mem_append, List.not_mem_nil, or_false,
    reduceCtorEq, false_or, leaf.injEq] at hm
  rcases hm with ⟨rfl, rfl⟩ | ⟨rfl, rfl⟩ | ⟨rfl, rfl⟩ <;> exact ⟨by decide, by intro w hw; cases hw <;> decide⟩

example : writeBrackets { emptyRoot := true } (carryBrackets { emptyRoot := true } true exCont) =
    writeBrackets { emptyRoot := true } exCont :=
  writeBrackets_carry_nodash _ exCont (by decide) (by decide) exCont_ok

example : writeBrackets {} exCont = .ok (some "(S(VP(A a)(C None))(BLRB bRRB))".toList) ∧
    writeBrackets { emptyRoot := true } exCont = .ok (some "((VP(A a)(C None))(BLRB bRRB))".toList) ∧
    Tree.beq (carryBrackets {} true exCont) exCont = false := by decide +kernel

theorem exDisc_ok : ∀ n f, leaf n f ∈ subtrees exDisc → '-' ∉ f.label ∧ ∀ w, f.word = some w → replaceParens w = w := by
  intro n f hm
  simp only [exDisc, subtrees, subtreesL, List.mem_cons, List.mem_append, List.not_mem_nil, or_false,
    reduceCtorEq, false_or, leaf.injEq] at hm
  rcases hm with ⟨rfl, rfl⟩ | ⟨rfl, rfl⟩ | ⟨rfl, rfl⟩ <;> exact ⟨by decide, by intro w hw; cases hw <;> decide⟩

example : writeDisco {} (carryBrackets {} true exDisc) = writeDisco {} exDisc :=
  writeDisco_carry_nodash _ exDisc (by decide) (by decide) exDisc_ok

example : writeDisco {} exDisc = .ok "(S(VP(A 1)(C 3))(BLRB 2))\ta b None".toList := by decide +kernel
/-- on a discontinuous tree the bracket writer refuses (or skips) the tree and its content alike -/
example : writeBrackets {} (carryBrackets {} true exDisc) = .error .valueError ∧ writeBrackets {} exDisc = .error .valueError ∧
    writeBrackets { skipDisco := true } exDisc = .ok none := by decide +kernel

/-! #### every hypothesis is needed -/

/-- 1. the options that read the `head` / `split` keys: the content has lost the keys, the writer fails on it -/
def exHead : Tree := node { label := "S".toList, head := some false }
  [leaf 1 { label := "A".toList, word := some "a".toList, head := some true }]
example : writeBrackets { markHeads := true } exHead = .ok (some "(S(A' a))".toList) ∧
    writeBrackets { markHeads := true } (carryBrackets { markHeads := true } true exHead) = .error .keyError := by
  decide +kernel

/-- `gf` alone does no harm (unlike for the export writer, where the content keeps the edge label and `NP-SB` is written
    `NP-SB-SB`): the bracket content has no edge label, and the default `--` is never appended -/
def exGf : Tree := node { label := "S".toList }
  [node { label := "NP".toList, edge := some "SB".toList } [leaf 1 { label := "A".toList, word := some "a".toList, edge := some "HD".toList }]]
example : writeBrackets { gf := true, gfTerminals := true } exGf = .ok (some "(S(NP-SB(A-HD a)))".toList) := by decide +kernel
example : writeBrackets { gf := true, gfTerminals := true } (carryBrackets { gf := true, gfTerminals := true } true exGf) =
    writeBrackets { gf := true, gfTerminals := true } exGf := by
  apply writeBrackets_carry_gf _ _ ⟨rfl, rfl, rfl⟩
  · intro n f hm
    simp only [exGf, subtrees, subtreesL, List.mem_cons, List.mem_append, List.not_mem_nil, or_false,
      reduceCtorEq, false_or, leaf.injEq] at hm
    obtain ⟨rfl, rfl⟩ := hm
    exact ⟨by decide +kernel, by intro w hw; cases hw; exact parenStable_of_no_dash _ (by decide)⟩
  · intro f hm
    simp [exGf, subtrees, subtreesL] at hm
  · intro h; cases h

/-- 2. the parenthesis mapping is not idempotent: `--LRB--` is written `-LRB-`, and that is written `LRB`.
    (In a constituent label it does no harm: constituent labels are not mapped.) -/
def exDash : Tree := node { label := "--LRB--".toList } [leaf 1 { label := "--LRB--".toList, word := some "x".toList }]
example : ¬ ParenStable "--LRB--".toList := by unfold ParenStable; decide +kernel
example : writeBrackets {} exDash = .ok (some "(--LRB--(-LRB- x))".toList) ∧
    writeBrackets {} (carryBrackets {} true exDash) = .ok (some "(--LRB--(LRB x))".toList) := by decide +kernel
example : writeDisco {} exDash = .ok "(--LRB--(-LRB- 1))\tx".toList ∧
    writeDisco {} (carryBrackets {} true exDash) = .ok "(--LRB--(LRB 1))\tx".toList := by decide +kernel

/-- 3. a childless constituent is written like a token, with the word of its `word` key, which the content has lost -/
def exEmpty : Tree := node { label := "S".toList }
  [node { label := "E".toList, word := some "ew".toList } [], leaf 1 { label := "A".toList, word := some "a".toList }]
example : writeBrackets {} exEmpty = .ok (some "(S(E ew)(A a))".toList) ∧
    writeBrackets {} (carryBrackets {} true exEmpty) = .ok (some "(S(E None)(A a))".toList) := by decide +kernel

/-- 4. a childless root keeps its label under `emptyRoot`, its content has lost it -/
def exBare : Tree := node { label := "E".toList } []
example : writeBrackets { emptyRoot := true } exBare = .ok (some "(E None)".toList) ∧
    writeBrackets { emptyRoot := true } (carryBrackets { emptyRoot := true } true exBare) = .ok (some "( None)".toList) := by
  decide +kernel

/-- 5. discontinuous brackets only: the sentence is written with the parentheses of the words unmapped -/
def exParen : Tree := node { label := "S".toList } [leaf 1 { label := "A".toList, word := some "(".toList }]
example : writeDisco {} exParen = .ok "(S(A 1))\t(".toList ∧
    writeDisco {} (carryBrackets {} true exParen) = .ok "(S(A 1))\tLRB".toList ∧
    writeBrackets {} (carryBrackets {} true exParen) = writeBrackets {} exParen := by decide +kernel

/-
  NOTE — status of the statements of the brief.

  * `writeTiger_carry`: proved WITHOUT any hypothesis (the `h` of the brief is dropped).  The writer reads of a token: number,
    word, lemma, tag, morphology (absent = `--`); of a constituent: label, the order of the children by leftmost token, their
    edge labels (absent = `--`), numbers (`exportNum`, which depends on the shape only); the root's own edge label is not read.
    `carryTiger`/`carryTigerRoot` keep exactly these.  `writeTiger_carryTiger` is the variant for `carryTiger`.
  * `writeBrackets_carry`: the `…` of the brief is
        (∀ n f, leaf n f ∈ subtrees t → ParenStable f.label ∧ ∀ w, f.word = some w → ParenStable w) ∧
        (∀ f, node f [] ∈ subtrees t → (f.word.map replaceParens).getD "None" = "None") ∧
        (o.emptyRoot = true → ∀ f, t ≠ node f [])
    where `ParenStable s` is `replaceParens (replaceParens s) = replaceParens s`.  Without any of the four conjuncts the
    statement is false: `exHead` (`markHeads`; `gf` alone is harmless, see `writeBrackets_carry_gf`), `exDash` (`replaceParens` is NOT idempotent: "--LRB--" ↦ "-LRB-" ↦ "LRB"),
    `exEmpty` (childless constituent with a word), `exBare` (childless root under `emptyRoot`).
    No well-formedness, no continuity is assumed (on a discontinuous tree both sides are the same refusal / skip).
  * `writeDisco_carry`: the same with the condition on the words of the tokens replaced by
        (f.word.map replaceParens).getD "None" = f.word.getD "None"
    (the words are replaced by numbers inside the brackets, but the sentence after the TAB is written with unmapped words: `exParen`).
  * `writeBrackets_carry_gf`, `writeDisco_carry_gf`: the general form from which both are derived.  `PlainOpts o` is weakened
    to `NoMarks o` (`markHeads = splitMarking = splitNumbering = false`; `gf`, `gfSeparator`, `gfTerminals` arbitrary): unlike
    `carryExport`, `carryBrackets` keeps no edge label, so the function label is not appended a second time (`exGf`).  The
    conditions on the tokens then speak about the printed label (`printedLabel o (leaf n (replaceParensFields f))`).
  * `writeBrackets_carry_nodash`, `writeDisco_carry_nodash`: corollaries under conditions that can be read off the tree
    (`noEmpty`, no `-` in token labels / words; `parenStable_of_no_dash`).
-/

end TT.Props.C02Carry
