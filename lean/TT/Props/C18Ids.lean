/-
  C18 (wave 17) — clauses 8 and 12 with node-CREATING transformations in the process model (`TT/ProcIds2.lean`):
  a call `CallY.readTrans src drawn steps waste` reads a file and transforms every sentence; the reader's nodes draw their
  ids (`stamp`), then the nodes every transformation creates draw theirs (`fill`: `add_topnode` one, `binarize` one per
  `@` node, `boyd_split` one per extra block), sentence by sentence.  History theorem `historyY_independent`: in every
  interleaving of such calls with the calls of `TT/ProcIds.lean` (readers, cache-using calls, pure calls) every call returns
  what it returns in a fresh process up to the injective renaming `+ k_i` of the node ids.  Hypothesis `Blind`: the
  transformations do not look at the ids (`f ∘ mapUid g = mapUid g ∘ f`) — proved for `add_topnode`, `binarize`,
  `boyd_split` (`Lemmas/More17d.lean`); it cannot be dropped (`example` below: a transformation that reads an id).
-/
import TT.Props.C18Local2
import TT.ProcIds2
import TT.Lemmas.More17d
namespace TT.Props.C18Ids
open TT TT.Tree TT.Props.C18 TT.Props.C18Local2 TT.Lemmas.More17d

theorem claim_shift (k : Nat) (seen : List Nat) (n : Nat) (u : Option Nat) :
    claim (seen.map (· + k)) (n + k) (u.map (· + k)) =
      ((claim seen n u).1 + k, (claim seen n u).2.1 + k, (claim seen n u).2.2.map (· + k)) := by
  cases u with
  | none => simp [claim, Nat.add_right_comm]
  | some i =>
    by_cases h : i ∈ seen <;> simp [claim, h, Nat.add_right_comm]

mutual
theorem fill_shift (k : Nat) : ∀ (t : Tree) (seen : List Nat) (n : Nat),
    fill (seen.map (· + k)) (n + k) (mapUid (· + k) t) =
      (mapUid (· + k) (fill seen n t).1, (fill seen n t).2.1 + k, (fill seen n t).2.2.map (· + k))
  | .leaf i f, seen, n => by
    simp [fill, mapUid, claim_shift]
  | .node f ks, seen, n => by
    have h := fillL_shift k ks (claim seen n f.uid).2.2 (claim seen n f.uid).2.1
    simp [fill, mapUid, claim_shift, h]
theorem fillL_shift (k : Nat) : ∀ (ts : List Tree) (seen : List Nat) (n : Nat),
    fillL (seen.map (· + k)) (n + k) (mapUidL (· + k) ts) =
      (mapUidL (· + k) (fillL seen n ts).1, (fillL seen n ts).2.1 + k, (fillL seen n ts).2.2.map (· + k))
  | [], seen, n => by simp [fillL, mapUidL]
  | t :: ts, seen, n => by
    have h1 := fill_shift k t seen n
    have h2 := fillL_shift k ts (fill seen n t).2.2 (fill seen n t).2.1
    simp [fillL, mapUidL, h1, h2]
end


theorem fill_shift0 (k n : Nat) (t : Tree) :
    fill [] (n + k) (mapUid (· + k) t) = (mapUid (· + k) (fill [] n t).1, (fill [] n t).2.1 + k, (fill [] n t).2.2.map (· + k)) := by
  simpa using fill_shift k t [] n

/-- the transformations of one sentence, started `k` ids later on the tree whose ids are `k` higher -/
theorem runStepsY_shift (k : Nat) : ∀ (steps : List (Tree → Except Err Tree)), (∀ f ∈ steps, Blind f) → ∀ (n : Nat) (t : Tree),
    runStepsY (n + k) steps (mapUid (· + k) t) =
      ((runStepsY n steps t).1.map (mapUid (· + k)), (runStepsY n steps t).2 + k)
  | [], _, n, t => rfl
  | f :: fs, hb, n, t => by
    have hf := hb f (by simp) (· + k) t
    have ih := runStepsY_shift k fs (fun g hg => hb g (by simp [hg]))
    simp only [runStepsY, hf]
    cases h : f t with
    | error e => rfl
    | ok u =>
      simp only [Except.map]
      rw [fill_shift0, ih]
      rfl

theorem readTransAll_shift (k : Nat) (steps : List (Tree → Except Err Tree)) (hb : ∀ f ∈ steps, Blind f) :
    ∀ (ts : List (Nat × Tree)) (n : Nat),
    readTransAll steps (n + k) ts =
      ((readTransAll steps n ts).1.map (fun us => us.map fun p => (p.1, mapUid (· + k) p.2)), (readTransAll steps n ts).2 + k)
  | [], n => rfl
  | (sid, t) :: rest, n => by
    simp only [readTransAll, stamp_shift n k t, runStepsY_shift k steps hb]
    cases h : runStepsY (stamp n t).2 steps (stamp n t).1 with
    | mk r m =>
      cases r with
      | error e => rfl
      | ok u =>
        simp only [Except.map]
        rw [readTransAll_shift k steps hb rest m]
        cases h2 : readTransAll steps m rest with
        | mk r2 m2 =>
          cases r2 with
          | error e => rfl
          | ok us => rfl

theorem readTransAll_zero (steps : List (Tree → Except Err Tree)) (hb : ∀ f ∈ steps, Blind f) (ts : List (Nat × Tree)) (k : Nat) :
    readTransAll steps k ts =
      ((readTransAll steps 0 ts).1.map (fun us => us.map fun p => (p.1, mapUid (· + k) p.2)), (readTransAll steps 0 ts).2 + k) := by
  have := readTransAll_shift k steps hb ts 0
  rwa [Nat.zero_add] at this

/-- one call from any reachable state -/
theorem callY_history_independent (fs : Str → Option Str) (st : ProcStateX) (c : CallY) (hb : c.Blind) (h : StateOK fs st.base) :
    (c.run fs st).1 = ((c.run fs {}).1).rename (· + st.nextId) ∧ StateOK fs (c.run fs st).2.base := by
  cases c with
  | old c => exact callX_history_independent fs st c h
  | readTrans src drawn steps waste =>
    cases src with
    | error e => exact ⟨rfl, h⟩
    | ok ts =>
      refine ⟨?_, h⟩
      simp only [CallY.run, ResultX.rename]
      rw [readTransAll_zero steps hb ts st.nextId]

theorem historyY_independent_from (fs : Str → Option Str) (cs : List CallY) (hb : ∀ c ∈ cs, c.Blind) :
    ∀ st : ProcStateX, StateOK fs st.base →
    ∃ ks : List Nat, ks.length = cs.length ∧
      runHistoryY fs st cs = List.zipWith (fun c k => ((c.run fs {}).1).rename (· + k)) cs ks := by
  induction cs with
  | nil => intro st _; exact ⟨[], rfl, rfl⟩
  | cons c cs ih =>
    intro st h
    obtain ⟨h1, h2⟩ := callY_history_independent fs st c (hb c (by simp)) h
    obtain ⟨ks, hl, hk⟩ := ih (fun d hd => hb d (by simp [hd])) (c.run fs st).2 h2
    refine ⟨st.nextId :: ks, by simp [hl], ?_⟩
    simp only [runHistoryY, List.zipWith_cons_cons]
    rw [h1, hk]

/-- MAIN (clauses 8 and 12, node-creating transformations drawing ids): in every history of read-and-transform calls,
    reader calls and cache-using calls, in any interleaving, over a file system that does not change, the i-th call returns
    what it returns in a fresh process up to the renaming `+ k_i` of the node ids (injective; `k_i` = the ids drawn before) -/
theorem historyY_independent (fs : Str → Option Str) (cs : List CallY) (hb : ∀ c ∈ cs, c.Blind) :
    ∃ ks : List Nat, ks.length = cs.length ∧
      runHistoryY fs {} cs = List.zipWith (fun c k => ((c.run fs {}).1).rename (· + k)) cs ks :=
  historyY_independent_from fs cs hb {} (stateOK_init fs)



/-- forgetting the names of the nodes: results of a history and of fresh processes are EQUAL -/
theorem historyY_forget (fs : Str → Option Str) (cs : List CallY) (hb : ∀ c ∈ cs, c.Blind) :
    (runHistoryY fs {} cs).map (ResultX.rename fun _ => 0) = cs.map fun c => ((c.run fs {}).1).rename fun _ => 0 := by
  obtain ⟨ks, hl, h⟩ := historyY_independent fs cs hb
  rw [h]
  have hr : ∀ (r : ResultX) (k : Nat), (r.rename (· + k)).rename (fun _ => 0) = r.rename fun _ => 0 := by
    intro r k
    cases r with
    | tree r => rfl
    | trees r =>
      cases r with
      | error e => rfl
      | ok ts => simp [ResultX.rename, Except.map, mapUid_comp, Function.comp_def]
  clear h hb
  induction cs generalizing ks with
  | nil => cases ks <;> rfl
  | cons c cs ih =>
    cases ks with
    | nil => simp at hl
    | cons k ks =>
      simp only [List.zipWith_cons_cons, List.map_cons, hr]
      rw [ih ks (by simpa using hl)]

/-- without transformations a read-and-transform call is the reader call of `TT/ProcIds.lean` -/
theorem readTransAll_nil : ∀ (ts : List (Nat × Tree)) (n : Nat), readTransAll [] n ts = (.ok (stampAll n ts).1, (stampAll n ts).2)
  | [], n => rfl
  | (sid, t) :: rest, n => by simp [readTransAll, runStepsY, stampAll, readTransAll_nil rest]

theorem readTrans_nil (fs : Str → Option Str) (st : ProcStateX) (src : Except Err (List (Nat × Tree))) (drawn : Nat) :
    (CallY.readTrans src drawn [] 0).run fs st = (CallX.read src drawn).run fs st := by
  cases src with
  | error e => rfl
  | ok ts => simp [CallY.run, CallX.run, readTransAll_nil]

/-! the three node-creating transformations are `Blind` -/
theorem blind_topnode : Blind fun t => .ok (addTopnode t) := fun g t => by simp [blind_addTopnode, Except.map]
theorem blind_bin (bare : Bool) : Blind (binarize bare) := blind_binarize bare
theorem blind_boyd : Blind boydSplit := blind_boydSplit

def L (k : Nat) (l : String) (h : Option Bool := none) : Tree := .leaf k { label := l.toList, word := some l.toList, head := h }
/-- four children, head marked: binarization creates two `@` nodes -/
def tBin : Tree := .node { label := "S".toList } [L 1 "A" (some false), L 2 "B" (some true), L 3 "C" (some false), L 4 "D" (some false)]
/-- discontinuous VP (tokens 1 and 3): `boyd_split` makes two blocks of it -/
def tDisc : Tree := .node { label := "S".toList, head := some false }
  [.node { label := "VP".toList, head := some true } [L 1 "A" (some true), L 3 "C" (some false)], L 2 "B" (some false)]

/-- a history: read two sentences and attach a top node; read and binarize (one node thrown away); a reader that fails
    after two nodes; read, split, attach a top node; read, split, binarize -/
def exHistY : List CallY :=
  [.readTrans (.ok [(1, tBin), (2, tDisc)]) 0 [fun t => .ok (addTopnode t)] 0,
   .readTrans (.ok [(1, tBin)]) 0 [binarize false] 1,
   .old (.read (readBrackets {} "(A (B".toList) 2),
   .readTrans (.ok [(1, tDisc), (2, tBin)]) 0 [boydSplit, fun t => .ok (addTopnode t)] 0,
   .readTrans (.ok [(1, tBin)]) 0 [boydSplit, binarize false] 0]

theorem exHistY_blind : ∀ c ∈ exHistY, c.Blind := by
  intro c hc
  simp only [exHistY, List.mem_cons, List.not_mem_nil, or_false] at hc
  rcases hc with rfl | rfl | rfl | rfl | rfl
  · intro f hf; simp only [List.mem_cons, List.not_mem_nil, or_false] at hf; subst hf; exact blind_topnode
  · intro f hf; simp only [List.mem_cons, List.not_mem_nil, or_false] at hf; subst hf; exact blind_bin false
  · trivial
  · intro f hf; simp only [List.mem_cons, List.not_mem_nil, or_false] at hf
    rcases hf with rfl | rfl
    · exact blind_boyd
    · exact blind_topnode
  · intro f hf; simp only [List.mem_cons, List.not_mem_nil, or_false] at hf
    rcases hf with rfl | rfl
    · exact blind_boyd
    · exact blind_bin false

example : ∃ ks : List Nat, ks.length = exHistY.length ∧
    runHistoryY exFs {} exHistY = List.zipWith (fun c k => ((c.run exFs {}).1).rename (· + k)) exHistY ks :=
  historyY_independent exFs exHistY exHistY_blind

/-- evaluated (ids in preorder of the results): `add_topnode` draws one id behind those of the sentence (5; 11),
    `binarize` one per `@` node (17, 18) and one thrown away, the failed reader two, `boyd_split` one for the second block
    of the VP (27; the first block keeps 23); in a fresh process the same shapes with the names from 0; every id once -/
example : (runHistoryY exFs {} exHistY).map uidView =
      [some [[5, 0, 1, 2, 3, 4], [11, 6, 7, 8, 9, 10]], some [[12, 17, 18, 14, 15, 16, 13]], none,
       some [[28, 22, 23, 24, 27, 25, 26], [34, 29, 30, 31, 32, 33]], some [[35, 40, 41, 37, 38, 39, 36]]] ∧
    (exHistY.map fun c => uidView (c.run exFs {}).1) =
      [some [[5, 0, 1, 2, 3, 4], [11, 6, 7, 8, 9, 10]], some [[0, 5, 6, 2, 3, 4, 1]], none,
       some [[6, 0, 1, 2, 5, 3, 4], [12, 7, 8, 9, 10, 11]], some [[0, 5, 6, 2, 3, 4, 1]]] ∧
    (match ((runHistoryY exFs {} exHistY)[3]? : Option ResultX) with
      | some (ResultX.trees (.ok ts)) => ts.all fun p => TT.Spec.uidsOK p.2
      | _ => false) = true := by decide +kernel

/-! ### wave 19 (P9): a reader call that SUCCEEDS also draws ids for nodes it does not deliver

  The TIGER-XML reader creates all nodes of a sentence and then skips it when it has several roots / a cycle / two
  incoming edges (`treeinput.tigerxml`): the call succeeds, the ids are gone.  `CallX.read (.ok ts) drawn` and
  `CallY.readTrans (.ok ts) drawn steps waste` now move the counter by `drawn` as well (added behind the delivered
  sentences; see `CallX.run`).  The history theorems above hold unchanged; below, the counter itself: what a call draws
  does not depend on the history, and the renamings `+ k_i` of the history theorem are the running sums of what the
  calls draw in a fresh process - skipped sentences included. -/

/-- the counter after a reader call that succeeds: the nodes delivered, then the ids of the skipped sentences -/
theorem read_ok_counter (fs : Str → Option Str) (st : ProcStateX) (ts : List (Nat × Tree)) (drawn : Nat) :
    ((CallX.read (.ok ts) drawn).run fs st).2.nextId = (stampAll st.nextId ts).2 + drawn := rfl

/-- the number of ids a call draws does not depend on the history (`CallX`) -/
theorem callX_draws_independent (fs : Str → Option Str) (st : ProcStateX) (c : CallX) :
    (c.run fs st).2.nextId = st.nextId + (c.run fs {}).2.nextId := by
  cases c with
  | base c => simp [CallX.run]
  | read src drawn =>
    cases src with
    | error e => simp [CallX.run]
    | ok ts =>
      show (stampAll st.nextId ts).2 + drawn = st.nextId + ((stampAll 0 ts).2 + drawn)
      rw [stampAll_zero ts st.nextId]
      show (stampAll 0 ts).2 + st.nextId + drawn = _
      omega

/-- the number of ids a call draws does not depend on the history (`CallY`, transformations that do not look at ids) -/
theorem callY_draws_independent (fs : Str → Option Str) (st : ProcStateX) (c : CallY) (hb : c.Blind) :
    (c.run fs st).2.nextId = st.nextId + (c.run fs {}).2.nextId := by
  cases c with
  | old c => exact callX_draws_independent fs st c
  | readTrans src drawn steps waste =>
    cases src with
    | error e => simp [CallY.run]
    | ok ts =>
      show (readTransAll steps st.nextId ts).2 + drawn + waste = st.nextId + ((readTransAll steps 0 ts).2 + drawn + waste)
      rw [readTransAll_zero steps hb ts st.nextId]
      show (readTransAll steps 0 ts).2 + st.nextId + drawn + waste = _
      omega

/-- the ids drawn before each call of a history: running sums of what the calls draw in a fresh process -/
def offsetsY (fs : Str → Option Str) : Nat → List CallY → List Nat
  | _, [] => []
  | k, c :: cs => k :: offsetsY fs (k + (c.run fs {}).2.nextId) cs

theorem historyY_offsets_from (fs : Str → Option Str) (cs : List CallY) (hb : ∀ c ∈ cs, c.Blind) :
    ∀ st : ProcStateX, StateOK fs st.base →
      runHistoryY fs st cs = List.zipWith (fun c k => ((c.run fs {}).1).rename (· + k)) cs (offsetsY fs st.nextId cs) := by
  induction cs with
  | nil => intro st _; rfl
  | cons c cs ih =>
    intro st h
    obtain ⟨h1, h2⟩ := callY_history_independent fs st c (hb c (by simp)) h
    have h3 := callY_draws_independent fs st c (hb c (by simp))
    have hk := ih (fun d hd => hb d (by simp [hd])) (c.run fs st).2 h2
    simp only [runHistoryY, offsetsY, List.zipWith_cons_cons]
    rw [h1, hk, h3]

/-- MAIN (wave 19): `historyY_independent` with the renamings named: the i-th call returns what it returns in a fresh
    process with every node id moved up by the ids ALL earlier calls have drawn - delivered nodes, nodes of failed
    readers, nodes of skipped sentences, nodes the transformations threw away -/
theorem historyY_offsets (fs : Str → Option Str) (cs : List CallY) (hb : ∀ c ∈ cs, c.Blind) :
    runHistoryY fs {} cs = List.zipWith (fun c k => ((c.run fs {}).1).rename (· + k)) cs (offsetsY fs 0 cs) :=
  historyY_offsets_from fs cs hb {} (stateOK_init fs)

/-- the witness of wave 19: a file whose first sentence (3 nodes, two roots) is skipped and whose second sentence
    (3 nodes) is delivered, read twice, then a probe.  Implementation: `2:3,4,5 # 2:9,10,11 # next=12`; model: the same
    counter after every call (6, 12), the delivered blocks of a call packed at its start -/
def exSkip : List CallY :=
  [.old (.read (.ok [(2, .node { label := "S".toList } [L 1 "A", L 2 "B"])]) 3),
   .old (.read (.ok [(2, .node { label := "S".toList } [L 1 "A", L 2 "B"])]) 3),
   .old (.read (.ok [(0, L 1 "probe")]) 0)]

example : runHistoryY exFs {} exSkip =
    List.zipWith (fun c k => ((c.run exFs {}).1).rename (· + k)) exSkip (offsetsY exFs 0 exSkip) :=
  historyY_offsets exFs exSkip (by intro c hc; simp only [exSkip, List.mem_cons, List.not_mem_nil, or_false] at hc; rcases hc with rfl | rfl | rfl <;> trivial)

example : (runHistoryY exFs {} exSkip).map uidView = [some [[0, 1, 2]], some [[6, 7, 8]], some [[12]]] ∧
    offsetsY exFs 0 exSkip = [0, 6, 12] := by decide +kernel

example : offsetsY exFs 0 exHistY = [0, 12, 20, 22, 35] := by decide +kernel

/-- a transformation that READS an id (it writes the root's id into the label) is not `Blind`, and for it the history
    theorem fails: the second call returns another LABEL than in a fresh process — the hypothesis cannot be dropped -/
def peek (t : Tree) : Except Err Tree :=
  .ok (t.setFields fun f => { f with label := (toString (f.uid.getD 0)).toList })

example : ¬ Blind peek := by
  intro h
  have := congrArg (fun r => match r with | .ok t => some t.label | .error _ => none) (h (· + 1) (.leaf 1 { uid := some 0 }))
  revert this
  decide +kernel

example : (match (runHistoryY exFs {} [.readTrans (.ok [(1, L 1 "A")]) 0 [peek] 0, .readTrans (.ok [(1, L 1 "A")]) 0 [peek] 0])[1]? with
      | some (ResultX.trees (.ok [(_, t)])) => some (String.ofList t.label) | _ => none) = some "1" ∧
    (match ((CallY.readTrans (.ok [(1, L 1 "A")]) 0 [peek] 0).run exFs {}).1 with
      | ResultX.trees (.ok [(_, t)]) => some (String.ofList t.label) | _ => none) = some "0" := by decide +kernel

end TT.Props.C18Ids
