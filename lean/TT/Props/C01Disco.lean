/-
  C01 (wave 13) — the discobracket reader after the repair of the sentence part of a line (D21: the sentence ends at the
  first whitespace token that contains a line break; no whitespace token is a word).

  1. `discoSentence_layout`: the token map of a line does not depend on the whitespace between the words, behind the TAB
     and before the line break;
  2. `readBrackets_squeeze`, `readDisco_layout_squeeze`, `readDisco_layout`, `readDisco_relayout`: two texts that differ
     only in the extent of their whitespace runs (kept: whether a run contains a line break) are read alike — in particular
     a discobracket file with any blanks / TABs between the words, before the line break, and any blank lines between the
     sentences, is read like the file in the writer's layout;
  3. `readDisco_append`: the reader is sentence local — a text may be cut behind EVERY line break (no side condition);
  4. content: the writer's lines in any layout are read back (`readDisco_write_squeeze`, `readDisco_write_layout`,
     `readDisco_write_file_squeeze`), and the reader agrees with the independent decoder `decDisco` on lines in any layout
     (`readDisco_spec_squeeze`, `readDisco_spec_layout`).
  All of 1–3 were false before the repair (examples at the end of TT/Props/C18Local.lean).
-/
import TT.Lemmas.More13
import TT.Props.C18Local
import TT.Props.C03Total
import TT.Props.C01Readers
namespace TT.Props.C01Disco
open TT TT.Tree TT.Spec TT.Lemmas.More13 TT.Lemmas.Disco12

/-- equality of results is decidable (used by the concrete instances below only) -/
local instance instDecEqExcept {ε α} [DecidableEq ε] [DecidableEq α] : DecidableEq (Except ε α)
  | .ok a, .ok b => decidable_of_iff (a = b) (by simp)
  | .error a, .error b => decidable_of_iff (a = b) (by simp)
  | .ok _, .error _ => isFalse (by simp)
  | .error _, .ok _ => isFalse (by simp)

/-- what the examples compare (`Tree` has no decidable equality): sentence id, leaf numbers, words -/
def dview (r : Except Err (List (Nat × Tree))) : Option (List (Nat × List Nat × List Str)) :=
  match r with
  | .ok l => some (l.map fun p => (p.1, p.2.leafNums, p.2.leaves.map fun l => l.fields.word.getD []))
  | .error _ => none

/-! ## 1. the token map of a line does not depend on the layout of the sentence part -/

/-- MAIN.  Words `ws` (at least one; each non-empty, free of whitespace and parentheses), ANY separators `seps` between
    them (non-empty whitespace without a line break: blanks, TABs, …), optional whitespace `lead` without a line break in
    front, ANY whitespace run `trail` that contains a line break behind, then the end of the text or a non-white
    character: reading the lexed line gives `[(1, w1), (2, w2), …]` and leaves exactly the tokens of the text behind that
    whitespace run. -/
theorem discoSentence_layout (ws seps : List Str) (lead trail more : Str) (hne : ws ≠ [])
    (hw : ∀ w ∈ ws, w ≠ [] ∧ ∀ c ∈ w, isTokC c = true) (hl : seps.length = ws.length - 1) (hs : ∀ s ∈ seps, s ≠ [] ∧ Gap s)
    (hlead : Gap lead) (ht : Break trail) (hm : MoreOK more) :
    discoSentence (bracketLex (lead ++ (interleave ws seps ++ (trail ++ more)))) 1 [] =
      ((List.range' 1 ws.length).zip ws, bracketLex more) := by
  simpa using discoSentence_interleave ws seps lead trail more hne hw hl hs hlead ht hm 1 []

/-- the same from any position and with any words collected before -/
theorem discoSentence_layout_from (ws seps : List Str) (lead trail more : Str) (hne : ws ≠ [])
    (hw : ∀ w ∈ ws, w ≠ [] ∧ ∀ c ∈ w, isTokC c = true) (hl : seps.length = ws.length - 1) (hs : ∀ s ∈ seps, s ≠ [] ∧ Gap s)
    (hlead : Gap lead) (ht : Break trail) (hm : MoreOK more) (pos : Nat) (acc : List (Nat × Str)) :
    discoSentence (bracketLex (lead ++ (interleave ws seps ++ (trail ++ more)))) pos acc =
      (acc.reverse ++ (List.range' pos ws.length).zip ws, bracketLex more) :=
  discoSentence_interleave ws seps lead trail more hne hw hl hs hlead ht hm pos acc

/-- in particular the token map is the same for any two layouts -/
theorem discoSentence_layout_indep (ws seps seps' : List Str) (lead lead' trail trail' more : Str) (hne : ws ≠ [])
    (hw : ∀ w ∈ ws, w ≠ [] ∧ ∀ c ∈ w, isTokC c = true)
    (hl : seps.length = ws.length - 1) (hs : ∀ s ∈ seps, s ≠ [] ∧ Gap s) (hlead : Gap lead) (ht : Break trail)
    (hl' : seps'.length = ws.length - 1) (hs' : ∀ s ∈ seps', s ≠ [] ∧ Gap s) (hlead' : Gap lead') (ht' : Break trail')
    (hm : MoreOK more) :
    discoSentence (bracketLex (lead ++ (interleave ws seps ++ (trail ++ more)))) 1 [] =
      discoSentence (bracketLex (lead' ++ (interleave ws seps' ++ (trail' ++ more)))) 1 [] := by
  rw [discoSentence_layout ws seps lead trail more hne hw hl hs hlead ht hm,
    discoSentence_layout ws seps' lead' trail' more hne hw hl' hs' hlead' ht' hm]

/-- a concrete instance: three words, two blanks and a TAB as separators, a blank in front, " \t\n\n" behind, and the
    next line following; the hypotheses are met and the conclusion is what the model computes -/
example :
    let ws := ["x".toList, "yy".toList, "z".toList]
    let seps := ["  ".toList, "\t".toList]
    (ws ≠ [] ∧ (∀ w ∈ ws, w ≠ [] ∧ ∀ c ∈ w, isTokC c = true) ∧ seps.length = ws.length - 1 ∧ (∀ s ∈ seps, s ≠ [] ∧ Gap s) ∧
      Gap " ".toList ∧ Break " \t\n\n".toList ∧ MoreOK "(T 1)\tz\n".toList) ∧
    " ".toList ++ (interleave ws seps ++ (" \t\n\n".toList ++ "(T 1)\tz\n".toList)) = " x  yy\tz \t\n\n(T 1)\tz\n".toList ∧
    discoSentence (bracketLex " x  yy\tz \t\n\n(T 1)\tz\n".toList) 1 [] =
      ([(1, "x".toList), (2, "yy".toList), (3, "z".toList)], bracketLex "(T 1)\tz\n".toList) :=
  ⟨⟨by decide, by decide, by decide, by decide, by decide, by decide, moreOK_cons _ _ (by decide)⟩, by decide, by decide +kernel⟩

/-! ## 2. the reader sees of a whitespace run only whether it contains a line break -/

/-- MAIN.  Every maximal whitespace run of the text may be replaced by a single "\n" (if the run contains a line break) or
    a single blank (if not): the result of the reader — trees, sentence numbers, errors — is the same.  For every option
    set (with `disco` this is the layout freedom of the sentence part; without it the reader ignores whitespace anyway). -/
theorem readBrackets_squeeze (o : InOpts) (s : Str) : readBrackets o (squeezeWs s) = readBrackets o s :=
  TT.Lemmas.More13.readBrackets_squeeze o s

/-- two texts that differ only in the extent of their whitespace runs (each run keeps whether it contains a line break)
    are read alike -/
theorem readDisco_layout_squeeze (o : InOpts) (s s' : Str) (h : squeezeWs s = squeezeWs s') :
    readBrackets o s = readBrackets o s' := by
  rw [← readBrackets_squeeze o s, h, readBrackets_squeeze]

example : squeezeWs "(S (A 1)\n (B 2))\t x  y \t\n\n\n(T 1)\tz\n".toList = "(S (A 1)\n(B 2)) x y\n(T 1) z\n".toList := by decide

/-- MAIN (`readDisco_layout`).  A discobracket file given line by line: the tree part `tr` (ANY text), the words `ws` of
    the sentence part (non-empty, free of whitespace) and the layout `l` of the sentence part — whitespace behind the TAB,
    the separators between the words (any non-empty whitespace without a line break), the whitespace that ends the line
    (anything with a line break, so also trailing blanks and blank lines before the next sentence).  The file is read
    exactly like the file in the writer's layout (single blanks, "\n"). -/
theorem readDisco_layout (o : InOpts) (items : List (Str × List Str × Layout))
    (h : ∀ p ∈ items, (∀ w ∈ p.2.1, Word w) ∧ p.2.2.OK p.2.1.length) :
    readBrackets o (items.map fun p => discoLine p.1 p.2.1 p.2.2).flatten =
      readBrackets o (items.map fun p => writerLine p.1 p.2.1 ++ ['\n']).flatten :=
  readDisco_layout_squeeze o _ _ (sqEq_file items h).squeeze

/-- two files with the same tree parts and words and two layouts are read as the same list of trees -/
theorem readDisco_relayout (o : InOpts) (items : List (Str × List Str × Layout × Layout))
    (h : ∀ p ∈ items, (∀ w ∈ p.2.1, Word w) ∧ p.2.2.1.OK p.2.1.length ∧ p.2.2.2.OK p.2.1.length) :
    readBrackets o (items.map fun p => discoLine p.1 p.2.1 p.2.2.1).flatten =
      readBrackets o (items.map fun p => discoLine p.1 p.2.1 p.2.2.2).flatten := by
  have h1 := readDisco_layout o (items.map fun p => (p.1, p.2.1, p.2.2.1)) (by
    intro q hq
    obtain ⟨p, hp, rfl⟩ := List.mem_map.1 hq
    exact ⟨(h p hp).1, (h p hp).2.1⟩)
  have h2 := readDisco_layout o (items.map fun p => (p.1, p.2.1, p.2.2.2)) (by
    intro q hq
    obtain ⟨p, hp, rfl⟩ := List.mem_map.1 hq
    exact ⟨(h p hp).1, (h p hp).2.2⟩)
  simp only [List.map_map, Function.comp_def] at h1 h2
  rw [h1, h2]

/-- the writer's layout is one of the layouts -/
theorem discoLine_plain (tr : Str) (ws : List Str) : discoLine tr ws (Layout.plain ws.length) = writerLine tr ws ++ ['\n'] :=
  TT.Lemmas.More13.discoLine_plain tr ws

/-- two lines in an untidy layout (blank behind the TAB, two blanks / a TAB between the words, trailing blank and TAB, a
    blank line) -/
def exItems : List (Str × List Str × Layout) :=
  [("(S (A 1) (B 2) (C 3))".toList, ["x".toList, "yy".toList, "z".toList],
      { lead := " ".toList, seps := ["  ".toList, "\t".toList], trail := " \t\n\n".toList }),
   ("(T (C 1))".toList, ["w".toList], { seps := [], trail := "\n \n".toList })]

example : (∀ p ∈ exItems, (∀ w ∈ p.2.1, Word w) ∧ p.2.2.OK p.2.1.length) ∧
    (exItems.map fun p => discoLine p.1 p.2.1 p.2.2).flatten = "(S (A 1) (B 2) (C 3))\t x  yy\tz \t\n\n(T (C 1))\tw\n \n".toList ∧
    (exItems.map fun p => writerLine p.1 p.2.1 ++ ['\n']).flatten = "(S (A 1) (B 2) (C 3))\tx yy z\n(T (C 1))\tw\n".toList ∧
    dview (readBrackets { disco := true } "(S (A 1) (B 2) (C 3))\t x  yy\tz \t\n\n(T (C 1))\tw\n \n".toList) =
      some [(1, [1, 2, 3], ["x".toList, "yy".toList, "z".toList]), (2, [1], ["w".toList])] :=
  ⟨by decide, by decide, by decide, by decide +kernel⟩

/-! ## 3. sentence locality: a text may be cut behind every line break -/

/-- MAIN (`readDisco_append` without `NoTrailWs`, and without any condition on the second part): if the text `a0 ++ "\n"`
    is read successfully, giving `ra`, then for EVERY text `b` reading `a0 ++ "\n" ++ b` gives `ra` followed by the trees of
    `b` read on its own with the sentence numbers continued; an error of `b` is the error of the whole.  `a0` may end with
    blanks or TABs, `b` may start with blank lines.  (Proved in TT/Props/C18Local.lean, where the version with the
    hypothesis on the tokens of the first part, `readDisco_append`, is kept as well, now without `NoTrailWs`.) -/
theorem readDisco_append (o : InOpts) (a0 b : Str) (ra : List (Nat × Tree))
    (ha : readBrackets o (a0 ++ ['\n']) = .ok ra) :
    readBrackets o (a0 ++ '\n' :: b) =
      match readBrackets { o with firstId := some (o.firstId.getD 1 + ra.length) } b with
      | .error e => .error e
      | .ok rb => .ok (ra ++ rb) :=
  TT.Props.C18Local.readDisco_append_text o a0 b ra ha

/-- the input that showed the defect: `(S 1)<TAB>x<BLANK><NL>(T 1)<TAB>z<NL>(U 1)<TAB>w<NL>` — the hypothesis holds for
    the first line and the whole text gives three trees -/
example :
    dview (readBrackets { disco := true } ("(S 1)\tx ".toList ++ ['\n'])) = some [(1, [1], ["x".toList])] ∧
    dview (readBrackets { disco := true, firstId := some 2 } "(T 1)\tz\n(U 1)\tw\n".toList) =
      some [(2, [1], ["z".toList]), (3, [1], ["w".toList])] ∧
    dview (readBrackets { disco := true } "(S 1)\tx \n(T 1)\tz\n(U 1)\tw\n".toList) =
      some [(1, [1], ["x".toList]), (2, [1], ["z".toList]), (3, [1], ["w".toList])] :=
  ⟨by decide +kernel, by decide +kernel, by decide +kernel⟩

/-! ## 4. content: the writer's lines and the decoder's lines in any layout -/

theorem word_of_tokStr (w : Str) (h : TT.Lemmas.OwnRT.TokStr w) : Word w :=
  ⟨h.1, fun c hc => ((TT.Lemmas.Read.isTokC_iff c).1 (h.2 c hc)).1⟩

/-- C03 row 4 (`C03Total.readDisco_write`) for any text that is squeezed like the written line: the reader delivers the
    same tokens, labels and dominance -/
theorem readDisco_write_squeeze (t : Tree) (s : Str) (hwf : WF t = true) (hok : BracketsOK t = true)
    (hp : ∀ x ∈ t.subtrees, replaceParens x.fields.label = x.fields.label) (h : writeDisco {} t = .ok s)
    (s' : Str) (h' : squeezeWs s' = squeezeWs (s ++ ['\n'])) :
    ∃ r, readBrackets { disco := true } s' = .ok [(1, r)] ∧ sameTree r (asReadBrackets t) = true := by
  obtain ⟨r, h1, h2⟩ := TT.Props.C03Total.readDisco_write t s hwf hok hp h
  exact ⟨r, by rw [readDisco_layout_squeeze _ s' _ h']; exact h1, h2⟩

/-- the line the discobracket writer produces is `tree TAB words` with one word per token, and that line IN ANY LAYOUT of
    its sentence part (blanks behind the TAB, any blanks / TABs between the words, trailing blanks, blank lines behind)
    is read back with the same tokens, labels and dominance -/
theorem readDisco_write_layout (t : Tree) (s : Str) (hwf : WF t = true) (hok : BracketsOK t = true)
    (hp : ∀ x ∈ t.subtrees, replaceParens x.fields.label = x.fields.label) (h : writeDisco {} t = .ok s) :
    ∃ tr ws, s = writerLine tr ws ∧ ws.length = t.leafNums.length ∧
      ∀ l : Layout, l.OK ws.length →
        ∃ r, readBrackets { disco := true } (discoLine tr ws l) = .ok [(1, r)] ∧ sameTree r (asReadBrackets t) = true := by
  refine ⟨TT.Props.C03Total.rdTxt t, TT.Props.C03Total.rdWords t, TT.Props.C03Total.rd_write_text t s ⟨hwf, hok, hp, h⟩,
    TT.Props.C03Total.rd_words_length t, ?_⟩
  intro l hl
  apply readDisco_write_squeeze t s hwf hok hp h
  rw [TT.Props.C03Total.rd_write_text t s ⟨hwf, hok, hp, h⟩]
  exact (sqEq_line _ _ l (fun w hw =>
    word_of_tokStr w (TT.Props.C03Total.rd_words_tok t (TT.Props.C03Total.rd_of_bracketsOK t hok).2 w hw)) hl).squeeze

open TT.Props.C02 in
/-- the discontinuous example tree (VP = tokens 1 and 3), its line in an untidy layout -/
example : ∃ r, readBrackets { disco := true } "(S(VP(A 1)(C 3))(B 2))\t a  b\tc \n\n".toList = .ok [(1, r)] ∧
    sameTree r (asReadBrackets exDisc) = true :=
  readDisco_write_squeeze exDisc "(S(VP(A 1)(C 3))(B 2))\ta b c".toList (by decide +kernel) (by decide +kernel)
    (by decide +kernel) (by decide +kernel) _ (by decide)

/-- a whole file (`C03Total.readDisco_write_file`) in any layout -/
theorem readDisco_write_file_squeeze (ts : List Tree) (lines : List Str) (hl : lines.length = ts.length)
    (h : ∀ p ∈ ts.zip lines, WF p.1 = true ∧ BracketsOK p.1 = true ∧
      (∀ x ∈ p.1.subtrees, replaceParens x.fields.label = x.fields.label) ∧ writeDisco {} p.1 = .ok p.2)
    (s' : Str) (h' : squeezeWs s' = squeezeWs ((lines.map (· ++ ['\n'])).flatten)) :
    ∃ rs, readBrackets { disco := true } s' = .ok ((List.range' 1 ts.length).zip rs) ∧
      rs.length = ts.length ∧ ∀ p ∈ rs.zip ts, sameTree p.1 (asReadBrackets p.2) = true := by
  obtain ⟨rs, h1, h2, h3⟩ := TT.Props.C03Total.readDisco_write_file ts lines hl h
  exact ⟨rs, by rw [readDisco_layout_squeeze _ s' _ h']; exact h1, h2, h3⟩

/-- C01 row 4 (`C01Readers.readDisco_spec`: the reader against the independent decoder `decDisco`) for any text that is
    squeezed like the file of the decoder's lines -/
theorem readDisco_spec_squeeze (o : InOpts) (hg : o.gfSplit = false) (hr : o.replaceParens = false) (hd : o.disco = true)
    (hdr : o.discoReordered = false) (ls : List Str) (ts : List Tree) (h : ls.mapM decDisco = some ts)
    (hok : ∀ l ∈ ls, DiscoLineOK l = true) (s' : Str) (h' : squeezeWs s' = squeezeWs (TT.Props.C01Readers.textOf ls)) :
    readBrackets o s' = .ok ((List.range' (o.firstId.getD 1) ts.length).zip (ts.map asReadBrackets)) := by
  rw [readDisco_layout_squeeze o s' _ h']
  exact TT.Props.C01Readers.readDisco_spec o hg hr hd hdr ls ts h hok

/-- MAIN (row 4 with the side condition "words separated by single blanks" of `DiscoLineOK` weakened to "words separated
    by whitespace"): a discobracket file given line by line — tree part, words, layout of the sentence part — whose lines
    IN THE WRITER'S LAYOUT are accepted by the decoder `decDisco` and meet `DiscoLineOK` is read into exactly the decoded
    trees, whatever the layouts are -/
theorem readDisco_spec_layout (o : InOpts) (hg : o.gfSplit = false) (hr : o.replaceParens = false) (hd : o.disco = true)
    (hdr : o.discoReordered = false) (items : List (Str × List Str × Layout)) (ts : List Tree)
    (h : (items.map fun p => writerLine p.1 p.2.1).mapM decDisco = some ts)
    (hok : ∀ p ∈ items, DiscoLineOK (writerLine p.1 p.2.1) = true)
    (hlay : ∀ p ∈ items, (∀ w ∈ p.2.1, Word w) ∧ p.2.2.OK p.2.1.length) :
    readBrackets o (items.map fun p => discoLine p.1 p.2.1 p.2.2).flatten =
      .ok ((List.range' (o.firstId.getD 1) ts.length).zip (ts.map asReadBrackets)) := by
  apply readDisco_spec_squeeze o hg hr hd hdr (items.map fun p => writerLine p.1 p.2.1) ts h
  · intro l hl
    obtain ⟨p, hp, rfl⟩ := List.mem_map.1 hl
    exact hok p hp
  · rw [(sqEq_file items hlay).squeeze]
    simp [TT.Props.C01Readers.textOf, List.map_map, Function.comp_def]

/-- the example file of `C01Readers` (a discontinuous tree and a second line) in an untidy layout -/
def exSpecItems : List (Str × List Str × Layout) :=
  [("(S(VP(A 1)(C 3))(B 2))".toList, ["Helmut".toList, "schläft".toList, "gern".toList],
      { lead := "  ".toList, seps := ["\t".toList, "   ".toList], trail := " \n\n\n".toList }),
   ("(X(Y 1))".toList, ["ja".toList], { seps := [], trail := "\t\n".toList })]

example : ∃ ts, (exSpecItems.map fun p => writerLine p.1 p.2.1).mapM decDisco = some ts ∧
    (exSpecItems.map fun p => discoLine p.1 p.2.1 p.2.2).flatten =
      "(S(VP(A 1)(C 3))(B 2))\t  Helmut\tschläft   gern \n\n\n(X(Y 1))\tja\t\n".toList ∧
    readBrackets { disco := true, firstId := some 5 } "(S(VP(A 1)(C 3))(B 2))\t  Helmut\tschläft   gern \n\n\n(X(Y 1))\tja\t\n".toList =
      .ok ((List.range' 5 ts.length).zip (ts.map asReadBrackets)) := by
  cases h : (exSpecItems.map fun p => writerLine p.1 p.2.1).mapM decDisco with
  | none => exact absurd h (by decide +kernel)
  | some ts =>
    have e : (exSpecItems.map fun p => discoLine p.1 p.2.1 p.2.2).flatten =
      "(S(VP(A 1)(C 3))(B 2))\t  Helmut\tschläft   gern \n\n\n(X(Y 1))\tja\t\n".toList := by decide
    refine ⟨ts, rfl, e, ?_⟩
    rw [← e]
    exact readDisco_spec_layout { disco := true, firstId := some 5 } rfl rfl rfl rfl exSpecItems ts h
      (by decide +kernel) (by decide)

end TT.Props.C01Disco
