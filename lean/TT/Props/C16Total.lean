/-
  C16 (wave 12) — the clauses that were "if it succeeded" / "relative to `blocksOf`" / "only the sum":

  * the continuous reordering SUCCEEDS on every at most binary tree (so on every binarized tree), in both modes;
  * the gap degree of a node counted without sorting: number of tokens whose successor is not below the node, minus one;
  * the blocks are exactly the maximal contiguous runs of the SET of token positions (`Spec.isMaxRun`, no sorting, no
    `blocksOf`), listed in increasing order; any decomposition into gapped runs is `blocksOf`;
  * the `GapDegree` task: every per-degree count is right (not only their sum);
  * the `SentenceCount` task.
-/
import TT.Spec.More12f
import TT.Lemmas.More12f
import TT.Props.C04
import TT.Props.C14
import TT.Props.C16More
namespace TT.Props.C16Total
open TT TT.Tree TT.Spec TT.Lemmas.WF TT.Lemmas.Analysis TT.Lemmas.More12f
open TT.Props.C16

/-- equality of results is decidable (used by the concrete instances below only) -/
local instance instDecEqExcept {ε α} [DecidableEq ε] [DecidableEq α] : DecidableEq (Except ε α)
  | .ok a, .ok b => decidable_of_iff (a = b) (by simp)
  | .error a, .error b => decidable_of_iff (a = b) (by simp)
  | .ok _, .error _ => isFalse (by simp)
  | .error _, .ok _ => isFalse (by simp)

abbrev exDisc : Tree := TT.Props.C02.exDisc
abbrev exCont : Tree := TT.Props.C02.exCont
abbrev exFlat : Tree := TT.Props.C14.exFlat

/-! ### the continuous reordering is total on (at most) binary trees -/

theorem discoOrderK_total (rightd : Bool) : ∀ (ks : List Tree),
    (∀ k ∈ ks, ∃ l, discoOrder rightd k = .ok l) → ∃ rs, discoOrderK rightd ks = .ok rs ∧ rs.length = ks.length
  | [], _ => ⟨[], discoOrderK_nil rightd, rfl⟩
  | t :: ts, h => by
    obtain ⟨a, ha⟩ := h t List.mem_cons_self
    obtain ⟨b, hb, hl⟩ := discoOrderK_total rightd ts (fun k hk => h k (List.mem_cons_of_mem _ hk))
    refine ⟨(leftmost t, a) :: b, ?_, by simp [hl]⟩
    rw [discoOrderK, ha, hb]

/-- MAIN (clause 11/12): on a tree in which no node has more than two children `disco_order` succeeds, in both modes -/
theorem discoOrder_total (rightd : Bool) (t : Tree) (h : maxArity t ≤ 2) : ∃ l, discoOrder rightd t = .ok l := by
  induction t using tree_ind with
  | hl n f => exact ⟨[n], discoOrder_leaf rightd n f⟩
  | hn f ks ih =>
    obtain ⟨hlen, hk⟩ := TT.Lemmas.Trans.maxArity_node_le h
    obtain ⟨rs, hrs, hl⟩ := discoOrderK_total rightd ks (fun k hkm => ih k hkm (hk k hkm))
    rw [discoOrder, hrs]
    simp only
    rw [if_neg (by omega)]
    split
    · split <;> exact ⟨_, rfl⟩
    · exact ⟨_, rfl⟩
    · exact ⟨_, rfl⟩

example : maxArity exDisc ≤ 2 := by decide
example : discoOrder true exDisc = .ok [2, 1, 3] := by decide

theorem maxArity_of_subtrees (t : Tree) : (∀ s ∈ t.subtrees, s.kids.length ≤ 2) → maxArity t ≤ 2 := by
  induction t using tree_ind with
  | hl n f => intro _; simp [maxArity]
  | hn f ks ih =>
    intro h
    have h0 := h _ (self_mem_subtrees _)
    simp only [kids] at h0
    have := (TT.Lemmas.Binarize.maxArityL_le 2 ks).2 (fun k hk => ih k hk (fun s hs =>
      h s ((mem_subtrees_node f ks s).2 (Or.inr ⟨k, hk, hs⟩))))
    simp only [maxArity]; omega

/-- exactly: the reordering is defined iff the tree is at most binary (the refusal is the `ValueError` of the ternary node) -/
theorem discoOrder_ok_iff (rightd : Bool) (t : Tree) : (∃ l, discoOrder rightd t = .ok l) ↔ maxArity t ≤ 2 :=
  ⟨fun ⟨l, h⟩ => maxArity_of_subtrees t (discoOrder_ok_binary rightd t l h), discoOrder_total rightd t⟩

example : maxArity exFlat = 4 ∧ discoOrder false exFlat = .error .valueError := by decide

/-- clause 11 without "if it succeeded": the continuous reordering of a binarized tree exists and is a permutation of
    the tokens of the tree that was binarized -/
theorem discoOrder_binarize (rightd bare : Bool) (t t' : Tree) (h : binarize bare t = .ok t') :
    ∃ l, discoOrder rightd t' = .ok l ∧ l.Perm t.leafNums := by
  obtain ⟨l, hl⟩ := discoOrder_total rightd t' (TT.Props.C14.binarize_arity bare t t' h)
  exact ⟨l, hl, (TT.Lemmas.Analysis.discoOrder_perm rightd t' l hl).trans (TT.Props.C14.binarize_leafNums bare t t' h)⟩

/-- the 4-ary example of C14 (refused above) after binarization, both modes -/
example : ∃ t', binarize true exFlat = .ok t' ∧ discoOrder false t' = .ok [1, 2, 3, 4, 5, 6, 7] ∧
    discoOrder true t' = .ok [1, 2, 3, 4, 5, 6, 7] := ⟨_, rfl, by decide, by decide⟩

/-- clause 12 without "if it succeeded": on a continuous well-formed at most binary tree the reordering IS the token order -/
theorem discoOrder_continuous (rightd : Bool) (t : Tree) (hwf : WF t = true) (hc : continuous t = true)
    (h : maxArity t ≤ 2) : discoOrder rightd t = .ok t.yield := by
  obtain ⟨l, hl⟩ := discoOrder_total rightd t h
  rw [hl, TT.Props.C16More.discoOrder_id_of_continuous rightd t l hl hwf hc]

example : WF exCont = true ∧ continuous exCont = true ∧ maxArity exCont ≤ 2 := by decide
example : discoOrder true exCont = .ok exCont.yield := discoOrder_continuous true exCont (by decide) (by decide) (by decide)

/-- ... and for the result of binarizing a well-formed tree, when that result is continuous -/
theorem discoOrder_binarize_continuous (rightd bare : Bool) (t t' : Tree) (h : binarize bare t = .ok t')
    (hwf : WF t = true) (hc : continuous t' = true) : discoOrder rightd t' = .ok t'.yield :=
  discoOrder_continuous rightd t' (TT.Props.C04.binarize_WF bare t t' hwf h).1 hc (TT.Props.C14.binarize_arity bare t t' h)

example : ∃ t', binarize true exFlat = .ok t' ∧ WF exFlat = true ∧ continuous t' = true :=
  ⟨_, rfl, by decide, by decide⟩

/-! ### clause 1, set-based: the gap degree counted without sorting -/

/-- MAIN (clause 1): gap degree + 1 = number of tokens below the node whose successor position is not below the node
    (`Spec.runEnds` on the tokens in STORAGE order: no sorting, no `blocksOf`).  Holds for tokens too. -/
theorem gapDegreeNode_set (t : Tree) (hn : t.leafNums.Nodup) (hne : t.leafNums ≠ []) :
    gapDegreeNode t + 1 = (runEnds t.leafNums).length := by
  cases t with
  | leaf n f => simp [gapDegreeNode, leafNums_leaf, runEnds]
  | node f ks =>
    rw [← (runEnds_perm _ _ (yield_perm (node f ks))).length_eq]
    exact gapCount_runEnds _ (yield_strictInc _ hn) (yield_ne_nil _ hne)

/-- the same with truncated subtraction: also right for a childless constituent -/
theorem gapDegreeNode_set' (t : Tree) (hn : t.leafNums.Nodup) :
    gapDegreeNode t = (runEnds t.leafNums).length - 1 := by
  by_cases hne : t.leafNums = []
  · cases t with
    | leaf n f => simp [leafNums_leaf] at hne
    | node f ks =>
      have hy : yield (node f ks) = [] := by
        have := (yield_perm (node f ks)).length_eq
        rw [hne] at this
        exact List.eq_nil_of_length_eq_zero this
      simp [gapDegreeNode, hy, hne, gapCount, runEnds]
  · have := gapDegreeNode_set t hn hne
    omega

example : exTree.leafNums = [1, 4, 3, 2, 7, 6] ∧ runEnds exTree.leafNums = [4, 7] ∧ gapDegreeNode exTree = 1 := by decide
example : exVP.leafNums.Nodup ∧ exVP.leafNums ≠ [] ∧ runEnds exVP.leafNums = [1, 4] ∧ gapDegreeNode exVP = 1 := by decide

/-- `Nodup` (part of well-formedness) cannot be dropped: a token number stored twice is one position but two run ends -/
example : gapDegreeNode (node {} [leaf 1 {}, leaf 1 {}, leaf 3 {}]) + 1 = 2 ∧
    (runEnds (node {} [leaf 1 {}, leaf 1 {}, leaf 3 {}]).leafNums).length = 3 := by decide

/-! ### clause 2, set-based: the blocks are exactly the maximal runs, in order -/

theorem blocks_sepRuns (t : Tree) (hn : t.leafNums.Nodup) : SepRuns (blocks t) :=
  blocksOf_sepRuns _ (yield_strictInc t hn)

/-- BRIDGE: a list of numbers is one of the blocks iff it is a maximal contiguous run of the set of token positions
    (`Spec.isMaxRun`: `lo … hi` all below the node, `lo - 1` and `hi + 1` not) -/
theorem blocks_maxRuns (t : Tree) (hn : t.leafNums.Nodup) (c : List Nat) :
    c ∈ blocks t ↔ isMaxRun t.leafNums c = true := by
  rw [isMaxRun_iff, sepRuns_mem_iff _ (blocks_sepRuns t hn) c, blocks_partition]
  exact IsMaxRunP_congr _ _ c (mem_yield t)

/-- the blocks are listed in increasing order: every position of an earlier block is before every position of a later one -/
theorem blocks_ordered (t : Tree) (hn : t.leafNums.Nodup) :
    (blocks t).Pairwise (fun b c => ∀ x ∈ b, ∀ y ∈ c, x < y) :=
  sepRuns_ordered _ (blocks_sepRuns t hn)

/-- "exactly those runs, in order": `blocks t` is THE increasing list of the maximal runs of the token set -/
theorem blocks_characterized (t : Tree) (hn : t.leafNums.Nodup) (bs : List (List Nat)) :
    bs = blocks t ↔ (∀ c, c ∈ bs ↔ isMaxRun t.leafNums c = true) ∧ bs.Pairwise (fun b c => ∀ x ∈ b, ∀ y ∈ c, x < y) := by
  constructor
  · rintro rfl
    exact ⟨blocks_maxRuns t hn, blocks_ordered t hn⟩
  · rintro ⟨hm, hp⟩
    refine eq_of_ordered_same_mem _ bs (blocks t) hp (blocks_ordered t hn) ?_ (fun c => by rw [hm, blocks_maxRuns t hn])
    intro a ha b hb hab hba
    have hane : a ≠ [] := by
      intro h
      subst h
      have := (hm []).1 ha
      simp [isMaxRun] at this
    have hbne : b ≠ [] := by
      intro h
      subst h
      have := (hm []).1 hb
      simp [isMaxRun] at this
    obtain ⟨x, hx⟩ := List.exists_mem_of_ne_nil a hane
    obtain ⟨y, hy⟩ := List.exists_mem_of_ne_nil b hbne
    have := hab x hx y hy
    have := hba y hy x hx
    omega

example : blocks exTree = [[1, 2, 3, 4], [6, 7]] ∧ isMaxRun exTree.leafNums [1, 2, 3, 4] = true ∧
    isMaxRun exTree.leafNums [6, 7] = true ∧ isMaxRun exTree.leafNums [1, 2, 3] = false ∧
    isMaxRun exTree.leafNums [2, 3, 4] = false ∧ isMaxRun exTree.leafNums [4, 6, 7] = false ∧
    isMaxRun exTree.leafNums [5] = false := by decide
example : [1, 2, 3, 4] ∈ blocks exTree := (blocks_maxRuns exTree (by decide) _).2 (by decide)

/-- `Nodup` cannot be dropped here either: the model keeps the repeated number in its block, a set has it once -/
example : blocks (node {} [leaf 1 {}, leaf 1 {}, leaf 2 {}]) = [[1, 1, 2]] ∧
    isMaxRun (node {} [leaf 1 {}, leaf 1 {}, leaf 2 {}]).leafNums [1, 1, 2] = false := by decide

/-- UNIQUENESS (clause 2, "exactly those runs"): any way of cutting a list into non-empty consecutive runs with a gap
    between neighbours (the conclusion of `blocksOf_gap`) is the block decomposition.
    (The proposed hypothesis `StrictInc l` is not needed: it follows from `h2` and `h3`.) -/
theorem blocks_unique (l : List Nat) (bs : List (List Nat)) (h1 : bs.flatten = l) (h2 : ∀ b ∈ bs, b ≠ [] ∧ Run b)
    (h3 : ∀ i, i + 1 < bs.length → ∃ x y, (bs[i]?).bind List.getLast? = some x ∧
      (bs[i+1]?).bind List.head? = some y ∧ x + 1 < y) : bs = blocksOf l :=
  h1 ▸ blocksOf_unique bs h2 h3

example : [[1, 2], [4, 5], [7]] = blocksOf [1, 2, 4, 5, 7] :=
  blocks_unique _ _ rfl (by simp [Run]) (by
    intro i hi
    have : i = 0 ∨ i = 1 := by simp at hi; omega
    rcases this with rfl | rfl
    · exact ⟨2, 4, rfl, rfl, by omega⟩
    · exact ⟨5, 7, rfl, rfl, by omega⟩)

/-- the tree form: a decomposition of the sorted tokens into gapped runs is `terminal_blocks` -/
theorem blocks_unique_tree (t : Tree) (bs : List (List Nat)) (h1 : bs.flatten = yield t) (h2 : ∀ b ∈ bs, b ≠ [] ∧ Run b)
    (h3 : ∀ i, i + 1 < bs.length → ∃ x y, (bs[i]?).bind List.getLast? = some x ∧
      (bs[i+1]?).bind List.head? = some y ∧ x + 1 < y) : bs = blocks t :=
  blocks_unique _ bs h1 h2 h3

/-! ### clause 3 over the storage-order enumeration of the nodes -/

/-- a tree's gap degree is the maximum over its nodes (`subtrees`: every node once, no sorting involved) -/
theorem gapDegree_max_subtrees (t : Tree) :
    (∀ s ∈ t.subtrees, gapDegreeNode s ≤ gapDegree t) ∧ ∃ s ∈ t.subtrees, gapDegreeNode s = gapDegree t := by
  have hp := TT.Lemmas.Nav.preorder_perm_subtrees t
  refine ⟨fun s hs => gapDegree_ge t s (hp.mem_iff.2 hs), ?_⟩
  obtain ⟨s, hs, he⟩ := gapDegree_attained t
  exact ⟨s, hp.mem_iff.1 hs, he⟩

example : exVP ∈ exTree.subtrees ∧ gapDegreeNode exVP = gapDegree exTree := by
  refine ⟨?_, by decide⟩
  simp [exTree, exVP, subtrees, subtreesL]

/-! ### clause 5: every per-degree count of the `GapDegree` task is right -/

/-- the constituents (nodes with children) of a tree, in the order the task visits them -/
abbrev constituents (t : Tree) : List Tree := t.preorder.filter fun x => !x.kids.isEmpty

/-- MAIN: the count listed for degree `d` in the per-tree table is the number of trees of gap degree `d`
    (and the degree is not listed iff there is no such tree) -/
theorem gapstats_perTree_count (ts : List Tree) (d : Nat) :
    ((ts.foldl GapStats.run {}).perTree.find? (·.1 == d)).map (·.2) =
      (let n := (ts.filter fun t => gapDegree t = d).length; if n = 0 then none else some n) := by
  have hpos := (posTable_foldl_run ts {} (by intro p hp; cases hp) (by intro p hp; cases hp)).2
  have hc := (cnt_foldl_run d ts {}).1
  have h0 : cnt d ({} : GapStats).perTree = 0 := rfl
  rw [find_of_cnt d _ hpos, hc, h0, Nat.zero_add]
  have : (ts.filter fun t => gapDegree t == d) = ts.filter fun t => decide (gapDegree t = d) := by
    congr 1
  rw [this]

theorem count_degs (t : Tree) (d : Nat) :
    (degs t).count d = ((constituents t).filter fun s => gapDegreeNode s = d).length := by
  simp only [degs, List.count_eq_length_filter, List.filter_map, List.length_map]
  congr 2

/-- MAIN: the count listed for degree `d` in the per-node table is the number of constituents of gap degree `d` in
    the whole treebank -/
theorem gapstats_perNode_count (ts : List Tree) (d : Nat) :
    ((ts.foldl GapStats.run {}).perNode.find? (·.1 == d)).map (·.2) =
      (let n := ((ts.flatMap constituents).filter fun s => gapDegreeNode s = d).length; if n = 0 then none else some n) := by
  have hpos := (posTable_foldl_run ts {} (by intro p hp; cases hp) (by intro p hp; cases hp)).1
  have hc := (cnt_foldl_run d ts {}).2
  have h0 : cnt d ({} : GapStats).perNode = 0 := rfl
  rw [find_of_cnt d _ hpos, hc, h0, Nat.zero_add]
  have : (ts.flatMap degs).count d = ((ts.flatMap constituents).filter fun s => gapDegreeNode s = d).length := by
    induction ts with
    | nil => rfl
    | cons t ts ih =>
      simp only [List.flatMap_cons, List.count_append, List.filter_append, List.length_append, count_degs]
      have hpos' := (posTable_foldl_run ts {} (by intro p hp; cases hp) (by intro p hp; cases hp)).1
      rw [ih hpos' (cnt_foldl_run d ts {}).2]
  rw [this]

/-- the constituents counted along the storage-order enumeration of the nodes instead of the traversal -/
theorem constituents_count_subtrees (t : Tree) (d : Nat) :
    ((constituents t).filter fun s => gapDegreeNode s = d).length =
      ((t.subtrees.filter fun x => !x.kids.isEmpty).filter fun s => gapDegreeNode s = d).length :=
  (((TT.Lemmas.Nav.preorder_perm_subtrees t).filter _).filter _).length_eq

abbrev exT6 : Tree := TT.Props.C06.exT

/-- three trees: the tables of the model, and the counts read off the treebank -/
example : [exCont, exDisc, exT6].foldl GapStats.run {} =
    { perNode := [(0, 4), (1, 3)], perTree := [(0, 1), (1, 2)] } := by decide +kernel
example : ([exCont, exDisc, exT6].filter fun t => gapDegree t = 1).length = 2 ∧
    (([exCont, exDisc, exT6].flatMap constituents).filter fun s => gapDegreeNode s = 1).length = 3 ∧
    ([exCont, exDisc, exT6].filter fun t => gapDegree t = 2).length = 0 := by decide +kernel

/-! ### clause 7: the `SentenceCount` task -/

/-- the number `SentenceCount` prints after all sentences is the number of sentences -/
theorem sentenceCount_from : ∀ (ts : List Tree) (n : Nat), ts.foldl sentenceCountRun n = n + ts.length
  | [], n => rfl
  | t :: ts, n => by rw [List.foldl_cons, sentenceCount_from ts]; simp [sentenceCountRun]; omega

theorem sentenceCount_total (ts : List Tree) : ts.foldl sentenceCountRun 0 = ts.length := by
  simpa using sentenceCount_from ts 0

example : [exCont, exDisc, exT6].foldl sentenceCountRun 0 = 3 := by decide

end TT.Props.C16Total
