/-
  C07 (semantics) — wave 12, audit B section C07:
  * T7.1 the optimal reordering denotes the same yield function over the permuted right-hand side
  * T7.2 the chain of rules `binarizeRule mo` / `binarizeGrammar r mo` writes, for EVERY `mo` (Markovized too),
         and that it composes to the original rule
  * T7.3 every intermediate symbol is used with the fan-out with which the next rule of the chain defines it
  * T7.4 every extracted rule is in the domain of these theorems
  * T7.5 rules of rank <= 2 are kept, at grammar level, every mode, exact count
  * row 2: `followChain_top` without the distinctness hypothesis
  Helpers: `TT/Lemmas/More12b.lean`.
-/
import TT.Spec.Grammar
import TT.Lemmas.GramBin
import TT.Lemmas.Unbin
import TT.Lemmas.More12b
import TT.Props.C07
import TT.Props.C07More
import TT.Props.C06More
namespace TT.Props.C07Sem
open TT TT.Tree TT.Spec TT.Lemmas.GramBin TT.Lemmas.Unbin TT.Lemmas.More12b TT.Props.C07More

/-! ## T7.1 reordering -/

set_option linter.unusedVariables false in
/-- T7.1, as proposed.  `π` lists, for each new right-hand-side position, the old position it carries: the new function
    is the old one permuted by `π`, and instantiating the renamed linearization with the arguments permuted the same
    way gives what the original linearization gives with the original arguments. -/
theorem reorderingOptimal_sem {α} (f : Func) (l : Lin) (hf : f ≠ []) (h : CWF f l) (args : List (List (List α)))
    (ha : args.length = f.length - 1) :
    ∃ π : List Nat, π.Perm (List.range (f.length - 1)) ∧
      (reorderingOptimal f l).1 = f[0]?.getD [] :: π.map (fun i => f[i + 1]?.getD []) ∧
      instLin (reorderingOptimal f l).2 (π.map fun i => args[i]?.getD []) = instLin l args :=
  ⟨permOf f l, permOf_perm f l, reorderingOptimal_fst' f l,
    reorderingOptimal_sem_range f l (InRange_of_CWF f l h) args⟩

/-- stronger form: `π` is named (`permOf f l` = the order picked, 0-based), neither `f ≠ []` nor the length of `args`
    matters, and of the well-formedness only "every variable names an existing right-hand-side position" is used -/
theorem reorderingOptimal_sem' {α} (f : Func) (l : Lin)
    (h : ∀ v ∈ l.flatten, 0 ≤ v.1 ∧ v.1.toNat < f.length - 1) (args : List (List (List α))) :
    (permOf f l).Perm (List.range (f.length - 1)) ∧
    (reorderingOptimal f l).1 = f[0]?.getD [] :: (permOf f l).map (fun i => f[i + 1]?.getD []) ∧
    instLin (reorderingOptimal f l).2 ((permOf f l).map fun i => args[i]?.getD []) = instLin l args :=
  ⟨permOf_perm f l, reorderingOptimal_fst' f l, reorderingOptimal_sem_range f l h args⟩

/-- the same for the function the driver calls, every reordering mode (`none` and `leftright` leave the rule alone) -/
theorem reorder_sem {α} (r : Reordering) (f : Func) (l : Lin) (hf : f ≠ []) (h : CWF f l)
    (args : List (List (List α))) :
    ∃ π : List Nat, π.Perm (List.range (f.length - 1)) ∧
      (reorder r f l).1 = f[0]?.getD [] :: π.map (fun i => f[i + 1]?.getD []) ∧
      instLin (reorder r f l).2 (π.map fun i => args[i]?.getD []) = instLin l args := by
  have hid : ∃ π : List Nat, π.Perm (List.range (f.length - 1)) ∧
      f = f[0]?.getD [] :: π.map (fun i => f[i + 1]?.getD []) ∧
      instLin l (π.map fun i => args[i]?.getD []) = instLin l args := by
    refine ⟨List.range (f.length - 1), List.Perm.refl _, ?_, instLin_range l _ (InRange_of_CWF f l h) args⟩
    cases f with
    | nil => exact absurd rfl hf
    | cons a r =>
      simp only [List.length_cons, Nat.add_sub_cancel, List.getElem?_cons_zero, Option.getD_some,
        List.getElem?_cons_succ]
      congr 1
      apply List.ext_getElem
      · simp
      · intro n h1 h2
        simp [List.getElem?_eq_getElem h1]
  cases r
  · exact hid
  · exact hid
  · exact ⟨permOf f l, permOf_perm f l, reorderingOptimal_fst' f l,
      reorderingOptimal_sem_range f l (InRange_of_CWF f l h) args⟩


/-! ## T7.2 the chain `binarizeRule mo` writes, every `mo` -/

/-- the labels one call introduces, in order: `@n+1X, @n+2X, ...` (deterministic) or the Markov labels of positions
    `0, 1, ...` -/
def labelsOf (mo : Option MarkovOpts) (st : GenState) (f : Func) (l : Lin) (vert : List Str) : List Str :=
  (List.range (f.length - 3)).map fun p =>
    match mo with
    | none => uniqueLabel (st.numb + p + 1)
    | some o => markovLabel o f p vert (fanOut l)

theorem labelsOf_eq (mo : Option MarkovOpts) (st : GenState) (f : Func) (l : Lin) (vert : List Str) :
    labelsOf mo st f l vert = (List.range (f.length - 3)).map (labelOf mo st f vert (fanOut l)) := by
  cases mo <;> rfl

/-- T7.2 with the labels named: for every `mo`, rule `k` of the chain (`k = 0` the top rule, `k = f.length - 3` the
    last one) is in the result with at least the count `c`: its left-hand side is the original one (`k = 0`) or the
    label introduced by rule `k - 1`, its first right-hand-side element is element `k` of the original right-hand side,
    its second one is the next label (or the last original element), its linearization is element `k` of
    `chainLins l (f.length - 3)` -/
theorem binarizeRule_chain_labels (mo : Option MarkovOpts) (f : Func) (l : Lin) (c : Nat) (vert : List Str)
    (st : GenState) (res : Grammar) (h3 : 3 < f.length) (k : Nat) (hk : k ≤ f.length - 3) :
    c ≤ gramCount (binarizeRule mo f l c vert st res).2
      [(f[0]?.getD [] :: labelsOf mo st f l vert)[k]?.getD [], f[k + 1]?.getD [],
        if k = f.length - 3 then f[k + 2]?.getD [] else (labelsOf mo st f l vert)[k]?.getD []]
      ((chainLins l (f.length - 3))[k]?.getD []) .default := by
  have hg := chainG_get f (labelOf mo st f vert (fanOut l)) (f.length - 3) 0 (f[0]?.getD []) l k hk
  have hmem := binarizeRule_chain_count mo f l c vert st res h3 _ (List.mem_of_getElem? hg)
  rw [labelsOf_eq]
  have e1 : (f[0]?.getD [] :: (List.range (f.length - 3)).map (labelOf mo st f vert (fanOut l)))[k]?.getD [] =
      if k = 0 then f[0]?.getD [] else labelOf mo st f vert (fanOut l) (0 + k - 1) := by
    cases k with
    | zero => simp
    | succ k =>
      have : k < f.length - 3 := by omega
      simp [this]
  have e2 : (if k = f.length - 3 then f[k + 2]?.getD [] else
      ((List.range (f.length - 3)).map (labelOf mo st f vert (fanOut l)))[k]?.getD []) =
      if k = f.length - 3 then f[0 + k + 2]?.getD [] else labelOf mo st f vert (fanOut l) (0 + k) := by
    by_cases e : k = f.length - 3
    · simp [e]
    · have : k < f.length - 3 := by omega
      simp [e, this]
  rw [e1, e2]
  simpa using hmem

/-- T7.2, as proposed -/
theorem binarizeRule_chain (mo : Option MarkovOpts) (f : Func) (l : Lin) (c : Nat) (vert : List Str) (st : GenState)
    (res : Grammar) (h3 : 3 < f.length) :
    ∃ labs : List Str, labs.length = f.length - 3 ∧ ∀ k (_ : k ≤ f.length - 3),
      c ≤ gramCount (binarizeRule mo f l c vert st res).2
        [(f[0]?.getD [] :: labs)[k]?.getD [], f[k + 1]?.getD [],
          if k = f.length - 3 then f[k + 2]?.getD [] else labs[k]?.getD []]
        ((chainLins l (f.length - 3))[k]?.getD []) .default :=
  ⟨labelsOf mo st f l vert, by simp [labelsOf], fun k hk => binarizeRule_chain_labels mo f l c vert st res h3 k hk⟩

/-- the chain as a list (`chainG`, `TT/Lemmas/More12b.lean`), what it is element by element ... -/
theorem chain_get (f : Func) (lab : Nat → Str) (l : Lin) (n k : Nat) (hk : k ≤ n) :
    (chainG f lab n 0 (f[0]?.getD []) l)[k]? =
      some ([if k = 0 then f[0]?.getD [] else lab (k - 1), f[k + 1]?.getD [],
              if k = n then f[k + 2]?.getD [] else lab k], (chainLins l n)[k]?.getD []) := by
  have := chainG_get f lab n 0 (f[0]?.getD []) l k hk
  simpa using this

theorem chain_length (f : Func) (lab : Nat → Str) (l : Lin) (n : Nat) :
    (chainG f lab n 0 (f[0]?.getD []) l).length = n + 1 := chainG_length f lab n 0 _ l

/-- ... and the exact effect of one call on every entry of the grammar, every `mo`: the count of `(F, L, V)` grows by
    `c` for each occurrence of `(F, L)` in the chain if `V` is the default key, nothing else changes; the generator
    state advances by the number of labels for deterministic labels and stays for Markov labels -/
theorem binarizeRule_exact (mo : Option MarkovOpts) (f : Func) (l : Lin) (c : Nat) (vert : List Str) (st : GenState)
    (res : Grammar) (h3 : 3 < f.length) (F : Func) (L : Lin) (V : VertKey) :
    gramCount (binarizeRule mo f l c vert st res).2 F L V = gramCount res F L V +
      (if V = .default then
        c * (chainG f (labelOf mo st f vert (fanOut l)) (f.length - 3) 0 (f[0]?.getD []) l).count (F, L)
       else 0) ∧
    (binarizeRule mo f l c vert st res).1 =
      (match mo with | none => ⟨st.numb + (f.length - 3)⟩ | some _ => st) := by
  refine ⟨binarizeRule_gramCount mo f l c vert st res h3 F L V, ?_⟩
  rw [binarizeRule_buildG _ _ _ _ _ _ _ h3]
  cases mo <;> rfl

/-- clause 3 about the function under test: for every `mo` the rules of the chain are in the result, their
    linearizations are `chainLins`, and composing the chain (`unbinChain`: evaluate it bottom-up over formal blocks,
    the fan-outs read off the chain itself) gives the original rule back -/
theorem binarizeRule_chain_composes (mo : Option MarkovOpts) (f : Func) (l : Lin) (c : Nat) (vert : List Str)
    (st : GenState) (res : Grammar) (h3 : 3 < f.length) (hw : CWF f l) :
    let chain := chainG f (labelOf mo st f vert (fanOut l)) (f.length - 3) 0 (f[0]?.getD []) l
    (∀ x ∈ chain, c ≤ gramCount (binarizeRule mo f l c vert st res).2 x.1 x.2 .default) ∧
    chain.map (·.2) = chainLins l (f.length - 3) ∧
    unbinChain chain = some (f, l) :=
  ⟨binarizeRule_chain_count mo f l c vert st res h3, chainG_lins _ _ _ _ _ _,
    unbinChain_chainG f _ l (f.length - 3) (by omega) (by omega) hw⟩

/-- the same with the hypotheses and the conclusion of `C07.chain_composes` -/
theorem binarizeRule_chain_composesPos (mo : Option MarkovOpts) (f : Func) (l : Lin) (c : Nat) (vert : List Str)
    (st : GenState) (res : Grammar) (h3 : 3 < f.length) (h : wfLin l ((fanOut l).drop 1) = true)
    (hl : (fanOut l).length = f.length) :
    let chain := chainG f (labelOf mo st f vert (fanOut l)) (f.length - 3) 0 (f[0]?.getD []) l
    (∀ x ∈ chain, c ≤ gramCount (binarizeRule mo f l c vert st res).2 x.1 x.2 .default) ∧
    evalChain (chain.map (·.2))
      ((List.range (f.length - 1)).map fun i => formalBlocks i ((fanOut l)[i + 1]?.getD 0)) = some (linAtoms l) := by
  refine ⟨binarizeRule_chain_count mo f l c vert st res h3, ?_⟩
  rw [chainG_lins]
  have := TT.Props.C07.chain_composes f l h hl
  unfold chainComposesPos at this
  have h3' : ¬ f.length ≤ 3 := by omega
  simpa [h3'] using this

/-! ### the whole grammar, Markovized -/

/-- clause 3 at the level of `binarizeGrammar r (some o)`: for every entry `(f, l, v, c)` of the grammar with more than
    two right-hand-side elements, reordered to `(f', l')`, the chain with the Markov labels of the positions of `f'`
    (vertical context `vertOf o v`, fan-outs of `l'`) is in the result, each rule with at least the count `c`, and
    composes to `(f', l')` -/
theorem binarizeGrammar_markov_chain (r : Reordering) (o : MarkovOpts) (g : Grammar) (f : Func) (l : Lin) (v : VertKey)
    (c : Nat) (he : (f, l, v, c) ∈ g.entries) (h3 : 3 < f.length) (hw : CWF f l) :
    let f' := (reorder r f l).1
    let l' := (reorder r f l).2
    let chain := chainG f' (fun p => markovLabel o f' p (vertOf o v) (fanOut l')) (f'.length - 3) 0 (f'[0]?.getD []) l'
    (∀ x ∈ chain, c ≤ gramCount (binarizeGrammar r (some o) g) x.1 x.2 .default) ∧
    chain.map (·.2) = chainLins l' (f'.length - 3) ∧
    unbinChain chain = some (f', l') := by
  intro f' l' chain
  have hne : f ≠ [] := by intro e0; rw [e0] at h3; simp at h3
  have hlen : f'.length = f.length := reorder_length r f l hne
  have hw' : CWF f' l' := CWF_reorder r f l hne hw
  have hj : ((f', l', c, vertOf o v) : Job) ∈ jobs r (some o) g := List.mem_map.2 ⟨(f, l, v, c), he, rfl⟩
  obtain ⟨st, _, h2⟩ := binarizeGrammar_job r (some o) g _ hj
  refine ⟨?_, chainG_lins _ _ _ _ _ _, unbinChain_chainG f' _ l' (f'.length - 3) (by omega) (by omega) hw'⟩
  intro x hx
  have h3' : ¬ f'.length ≤ 3 := by omega
  have := h2 (withCount c x) (by
    unfold jobAdds
    rw [if_neg h3']
    exact List.mem_map.2 ⟨x, hx, rfl⟩)
  exact this


/-- the same for deterministic labels (`C07More.followChain_top` / `followChain_top_min` say more: the chain is found
    again by following the symbols): for every rule `(f, l, c)` of `g.rules` with more than two right-hand-side elements
    there is a label offset `s` such that the chain with the labels `@s+1X, @s+2X, ...` is in the result -/
theorem binarizeGrammar_none_chain (r : Reordering) (g : Grammar) (f : Func) (l : Lin) (c : Nat)
    (he : (f, l, c) ∈ g.rules) (h3 : 3 < f.length) (hw : CWF f l) :
    let f' := (reorder r f l).1
    let l' := (reorder r f l).2
    ∃ s : Nat,
      let chain := chainG f' (fun p => uniqueLabel (s + p + 1)) (f'.length - 3) 0 (f'[0]?.getD []) l'
      (∀ x ∈ chain, c ≤ gramCount (binarizeGrammar r none g) x.1 x.2 .default) ∧
      chain.map (·.2) = chainLins l' (f'.length - 3) ∧
      unbinChain chain = some (f', l') := by
  intro f' l'
  have hne : f ≠ [] := by intro e0; rw [e0] at h3; simp at h3
  have hlen : f'.length = f.length := reorder_length r f l hne
  have hw' : CWF f' l' := CWF_reorder r f l hne hw
  have hj : ((f', l', c, []) : Job) ∈ jobs r none g := List.mem_map.2 ⟨(f, l, c), he, rfl⟩
  obtain ⟨st, _, h2⟩ := binarizeGrammar_job r none g _ hj
  refine ⟨st.numb, ?_, chainG_lins _ _ _ _ _ _, unbinChain_chainG f' _ l' (f'.length - 3) (by omega) (by omega) hw'⟩
  intro x hx
  have h3' : ¬ f'.length ≤ 3 := by omega
  have := h2 (withCount c x) (by
    unfold jobAdds
    rw [if_neg h3']
    exact List.mem_map.2 ⟨x, hx, rfl⟩)
  exact this

/-- clauses 3 and 4 together, for one entry of the grammar: the chain in the Markovized result composes to a rule
    `(f', l')` whose right-hand side is the original one permuted by `π` and whose linearization, instantiated with
    the arguments permuted by `π`, gives what the original linearization gives with the original arguments -/
theorem binarizeGrammar_markov_sem {α} (r : Reordering) (o : MarkovOpts) (g : Grammar) (f : Func) (l : Lin)
    (v : VertKey) (c : Nat) (he : (f, l, v, c) ∈ g.entries) (h3 : 3 < f.length) (hw : CWF f l)
    (args : List (List (List α))) :
    ∃ (f' : Func) (l' : Lin) (π : List Nat) (chain : List (Func × Lin)),
      π.Perm (List.range (f.length - 1)) ∧
      f' = f[0]?.getD [] :: π.map (fun i => f[i + 1]?.getD []) ∧
      instLin l' (π.map fun i => args[i]?.getD []) = instLin l args ∧
      chain.length = f.length - 2 ∧
      (∀ x ∈ chain, x.1.length = 3 ∧ c ≤ gramCount (binarizeGrammar r (some o) g) x.1 x.2 .default) ∧
      unbinChain chain = some (f', l') := by
  have hne : f ≠ [] := by intro e0; rw [e0] at h3; simp at h3
  obtain ⟨π, hπ, hf', hl'⟩ := reorder_sem r f l hne hw args
  obtain ⟨hc1, _, hc3⟩ := binarizeGrammar_markov_chain r o g f l v c he h3 hw
  have hlen : (reorder r f l).1.length = f.length := reorder_length r f l hne
  refine ⟨(reorder r f l).1, (reorder r f l).2, π, _, hπ, hf', hl', ?_, ?_, hc3⟩
  · rw [chainG_length, hlen]; omega
  · intro x hx
    refine ⟨?_, hc1 x hx⟩
    obtain ⟨k, hk, hxk⟩ := List.getElem_of_mem hx
    rw [chainG_length] at hk
    have := chainG_get (reorder r f l).1 (fun p => markovLabel o (reorder r f l).1 p (vertOf o v)
      (fanOut (reorder r f l).2)) ((reorder r f l).1.length - 3) 0 ((reorder r f l).1[0]?.getD []) (reorder r f l).2 k
      (by omega)
    rw [List.getElem?_eq_getElem (by rw [chainG_length]; exact hk), hxk] at this
    injection this with this
    rw [this]
    rfl

/-! ## T7.3 every intermediate symbol is used with the fan-out with which the next rule defines it -/

/-- T7.3 (the hypothesis `∃ v ∈ t.flatten, 0 < v.1` of the proposal is not needed): the rest symbol (position 1) has
    as many variables in `topLin t` as `restLin t` has arguments ... -/
theorem topLin_uses_rest (t : Lin) (h : WF' t) : occ (topLin t) 1 = (restLin t).length :=
  TT.Lemmas.More12b.topLin_uses_rest t h

/-- ... and they are `(1,0), (1,1), ...` in this order: each argument of the rest exactly once, in order -/
theorem topLin_rest_vars (t : Lin) (h : WF' t) :
    ((topLin t).flatten.filter fun v => v.1 == 1).map (·.2) = List.range (restLin t).length :=
  TT.Lemmas.More12b.topLin_rest_vars t h

/-- chain form, with `fan_out` of the model: in the chain of a well-formed rule, the fan-out with which rule `k` uses
    its second right-hand-side element (the next binarization symbol) is the fan-out of the left-hand side of rule
    `k + 1` (which defines that symbol, see `chain_get`) -/
theorem chain_fanouts_agree (f : Func) (l : Lin) (hw : CWF f l) (k : Nat) (hk : k < f.length - 3) :
    (fanOut ((chainLins l (f.length - 3))[k]?.getD []))[2]?.getD 0 =
      (fanOut ((chainLins l (f.length - 3))[k + 1]?.getD []))[0]?.getD 0 := by
  have hWF : WF' l := WF'_of_wfLin l _ hw
  have h1 := fanOut_get ((chainLins l (f.length - 3))[k]?.getD []) 1
  rw [show (1 + 1 = 2) from rfl] at h1
  rw [h1, chainLins_link _ l hWF k hk]
  rfl

/-- the same as `some`, when the rest is not empty (otherwise `fan_out` does not list position 1 at all) -/
theorem chain_fanouts_agree_some (f : Func) (l : Lin) (hw : CWF f l) (k : Nat) (hk : k < f.length - 3)
    (hpos : 0 < ((chainLins l (f.length - 3))[k + 1]?.getD []).length) :
    (fanOut ((chainLins l (f.length - 3))[k]?.getD []))[2]? =
      some ((chainLins l (f.length - 3))[k + 1]?.getD []).length := by
  have h := chain_fanouts_agree f l hw k hk
  have e : (fanOut ((chainLins l (f.length - 3))[k + 1]?.getD []))[0]?.getD 0 =
      ((chainLins l (f.length - 3))[k + 1]?.getD []).length := rfl
  rw [e] at h
  cases hc : (fanOut ((chainLins l (f.length - 3))[k]?.getD []))[2]? with
  | none => rw [hc] at h; simp at h; omega
  | some m => rw [hc] at h; simpa using h

/-! ## T7.5 rules with at most two right-hand-side elements, grammar level, every mode -/

/-- kept with at least their count, Markovized (`C07More.small_rule_kept` is the case `mo = none`) -/
theorem small_rule_kept_markov (r : Reordering) (o : MarkovOpts) (g : Grammar) (f : Func) (l : Lin) (v : VertKey)
    (c : Nat) (he : (f, l, v, c) ∈ g.entries) (hs : f.length ≤ 3) :
    c ≤ gramCount (binarizeGrammar r (some o) g) (reorder r f l).1 (reorder r f l).2 .default := by
  have hj : (((reorder r f l).1, (reorder r f l).2, c, vertOf o v) : Job) ∈ jobs r (some o) g :=
    List.mem_map.2 ⟨(f, l, v, c), he, rfl⟩
  obtain ⟨st, _, h2⟩ := binarizeGrammar_job r (some o) g _ hj
  have := h2 ((reorder r f l).1, (reorder r f l).2, c) (by
    unfold jobAdds
    rw [if_pos (reorder_length_le r f l hs)]
    exact List.mem_singleton.2 rfl)
  exact this

/-- exact count, Markovized: an entry `(F, L)` with at most two right-hand-side elements and no binarization symbol
    gets exactly the counts of the grammar entries that are reordered to it -/
theorem small_rule_count_markov (r : Reordering) (o : MarkovOpts) (g : Grammar) (F : Func) (L : Lin)
    (h3 : F.length ≤ 3) (hnb : ∀ x ∈ F, isBinSym x = false) :
    gramCount (binarizeGrammar r (some o) g) F L .default =
      ((g.entries.filter fun e => reorder r e.1 e.2.1 == (F, L)).map (·.2.2.2)).sum := by
  rw [binarizeGrammar_jobs, gramCount_buildV, if_pos rfl, ksum_addsOf (some o) F L hnb h3]
  simp only [jobs, gramCount, List.filter_map, List.map_map]
  simp [AList.get?, Function.comp_def]

/-- exact count, deterministic labels (over `g.rules`, which `binarizeGrammar _ none` iterates) -/
theorem small_rule_count_none (r : Reordering) (g : Grammar) (F : Func) (L : Lin)
    (h3 : F.length ≤ 3) (hnb : ∀ x ∈ F, isBinSym x = false) :
    gramCount (binarizeGrammar r none g) F L .default =
      ((g.rules.filter fun e => reorder r e.1 e.2.1 == (F, L)).map (·.2.2)).sum := by
  rw [binarizeGrammar_jobs, gramCount_buildV, if_pos rfl, ksum_addsOf none F L hnb h3]
  simp only [jobs, gramCount, List.filter_map, List.map_map]
  simp [AList.get?, Function.comp_def]


/-! ## row 2: `C07More.followChain_top` without the distinctness part of `GrammarOK` -/

theorem followChain_top_min (r : Reordering) (g : Grammar) (h : GrammarOKmin g) (f : Func) (l : Lin) (c : Nat)
    (he : (f, l, c) ∈ g.rules) (h3 : 3 < f.length) :
    let f' := (reorder r f l).1
    let l' := (reorder r f l).2
    let res := binarizeGrammar r none g
    ∃ s : Nat,
      (∃ c', ([f'[0]?.getD [], f'[1]?.getD [], uniqueLabel (s + 1)], topLin l', c') ∈ res.rules) ∧
      followChain res res.rules.length [f'[0]?.getD [], f'[1]?.getD [], uniqueLabel (s + 1)] (topLin l') =
        chainR f' (f'.length - 3) 1 (f'[0]?.getD []) l' s ∧
      chainOf none f' l' [] = chainR f' (f'.length - 3) 1 (f'[0]?.getD []) l' 0 ∧
      (chainR f' (f'.length - 3) 1 (f'[0]?.getD []) l' s).map (·.2) = (chainOf none f' l' []).map (·.2) ∧
      unbinChain (chainR f' (f'.length - 3) 1 (f'[0]?.getD []) l' s) = some (f', l') := by
  intro f' l' res
  have hrok := ROK_of_min r g h
  have hnb := ROK_NB _ hrok
  have hmem : (f', l', c) ∈ reordered r g := List.mem_map.2 ⟨(f, l, c), he, rfl⟩
  obtain ⟨R1, R2, hR⟩ := List.append_of_mem hmem
  have hne : f ≠ [] := by intro e0; rw [e0] at h3; simp at h3
  have hlen : f'.length = f.length := reorder_length r f l hne
  have h3' : ¬ f'.length ≤ 3 := by omega
  obtain ⟨hnbf, hw⟩ := hrok _ hmem
  have hfc := followChain_long (reordered r g) R1 R2 (f', l', c) hR hnb h3'
  obtain ⟨k, hk⟩ : ∃ k, f'.length - 3 = k + 1 := ⟨f'.length - 4, by omega⟩
  have hco := chainOf_eq f' l' hnbf h3'
  refine ⟨total R1, ?_, ?_, hco, ?_, ?_⟩
  · show hasKey (binarizeGrammar r none g).rules _ _
    rw [binarizeGrammar_build, hasKey_build]
    left
    refine ⟨c, ?_⟩
    rw [hR, allAdds_append]
    apply List.mem_append_right
    simp only [allAdds, Nat.zero_add]
    apply List.mem_append_left
    unfold ruleAdds
    rw [if_neg h3']
    rw [hk]
    exact List.mem_map.2 ⟨_, List.mem_cons_self, rfl⟩
  · show followChain (binarizeGrammar r none g) (binarizeGrammar r none g).rules.length _ _ = _
    rw [binarizeGrammar_build]
    rw [hk] at hfc ⊢
    exact hfc
  · rw [hco, chainR_lins, chainR_lins]
  · exact unbinChain_chainR f' l' (f'.length - 3) (total R1) (by omega) (by omega) (hw h3')

/-! ## T7.4 every extracted rule is in the domain of these theorems -/

/-- T7.4, as proposed: the rule extracted at a constituent meets the hypotheses of `C07.chain_composes` ... -/
theorem linOf_CWF (f : Fields) (ks : List Tree) (hne : (node f ks).noEmpty = true) (hn : (node f ks).leafNums.Nodup) :
    wfLin (linOf (node f ks)) ((fanOut (linOf (node f ks))).drop 1) = true ∧
    (fanOut (linOf (node f ks))).length = (funcOf (node f ks)).length := by
  have h := TT.Lemmas.Extract.nodeRuleOK_linOf f ks hn
  unfold nodeRuleOK at h
  simp only [Bool.and_eq_true] at h
  have hfo := TT.Props.C06More.fanOut_linOf f ks hne hn
  refine ⟨?_, ?_⟩
  · rw [TT.Props.C06More.fanOut_children f ks hne hn, TT.Lemmas.More7.children_eq]
    exact h.1
  · rw [hfo]
    simp [funcOf, children]

/-- ... and `CWF`, the hypothesis of the theorems of this file and of `C07More.unbinOK_binarize_min` -/
theorem linOf_CWF' (f : Fields) (ks : List Tree) (hne : (node f ks).noEmpty = true) (hn : (node f ks).leafNums.Nodup) :
    CWF (funcOf (node f ks)) (linOf (node f ks)) :=
  CWF_of_wf _ _ (linOf_CWF f ks hne hn).1 (linOf_CWF f ks hne hn).2

/-! ## T7.4 at grammar level: the extracted grammar is in the domain of the C07 theorems -/

/-- what C07 asks of a rule: ordered, non-deleting, non-erasing, and no symbol that looks like a binarization symbol -/
def RuleOK (f : Func) (l : Lin) : Prop := CWF f l ∧ ∀ x ∈ f, isBinSym x = false

theorem events_CWF (t : Tree) : t.noEmpty = true → t.leafNums.Nodup →
    ∀ ctx fn l v, Event.rule fn l v ∈ events ctx t → CWF fn l := by
  induction t using TT.Lemmas.WF.tree_ind with
  | hl n f =>
    intro _ _ ctx fn l v hm
    simp [TT.Lemmas.Extract.events_leaf] at hm
  | hn f ks ih =>
    intro hne hn ctx fn l v hm
    obtain ⟨hks, hk⟩ := (TT.Lemmas.WF.noEmpty_node f ks).1 hne
    rw [TT.Lemmas.Extract.events_node ctx f ks hks] at hm
    rcases List.mem_cons.1 hm with e | hm
    · injection e with e1 e2 e3
      subst e1 e2
      exact linOf_CWF' f ks hne hn
    · obtain ⟨k, hkc, hke⟩ := List.mem_flatMap.1 hm
      have hkk : k ∈ ks := (TT.mem_sortBy _ _ _).1 hkc
      exact ih k hkk (hk k hkk) ((TT.Lemmas.WF.leafNums_sublist_of_mem f ks k hkk).nodup hn) _ fn l v hke

theorem events_ruleOK (t : Tree) : t.noEmpty = true → t.leafNums.Nodup →
    (∀ s ∈ subtrees t, isBinSym s.fields.label = false) →
    ∀ ctx fn l v, Event.rule fn l v ∈ events ctx t → RuleOK fn l := by
  induction t using TT.Lemmas.WF.tree_ind with
  | hl n f =>
    intro _ _ _ ctx fn l v hm
    simp [TT.Lemmas.Extract.events_leaf] at hm
  | hn f ks ih =>
    intro hne hn hlab ctx fn l v hm
    obtain ⟨hks, hk⟩ := (TT.Lemmas.WF.noEmpty_node f ks).1 hne
    rw [TT.Lemmas.Extract.events_node ctx f ks hks] at hm
    rcases List.mem_cons.1 hm with e | hm
    · injection e with e1 e2 e3
      subst e1 e2
      refine ⟨linOf_CWF' f ks hne hn, ?_⟩
      intro x hx
      simp only [funcOf, kids, List.mem_cons, List.mem_map] at hx
      rcases hx with rfl | ⟨c, hc, rfl⟩
      · exact hlab _ (TT.Lemmas.WF.self_mem_subtrees _)
      · have hck : c ∈ ks := (TT.mem_sortBy _ _ _).1 hc
        exact hlab c ((TT.Lemmas.WF.mem_subtrees_node f ks c).2 (Or.inr ⟨c, hck, TT.Lemmas.WF.self_mem_subtrees c⟩))
    · obtain ⟨k, hkc, hke⟩ := List.mem_flatMap.1 hm
      have hkk : k ∈ ks := (TT.mem_sortBy _ _ _).1 hkc
      exact ih k hkk (hk k hkk) ((TT.Lemmas.WF.leafNums_sublist_of_mem f ks k hkk).nodup hn)
        (fun s hs => hlab s ((TT.Lemmas.WF.mem_subtrees_node f ks s).2 (Or.inr ⟨k, hkk, hs⟩))) _ fn l v hke

theorem foldl_applyEvent_rules (Q : Func → Lin → Prop) : ∀ (evs : List Event) (st : Grammar × Lexicon),
    (∀ e ∈ st.1.rules, Q e.1 e.2.1) → (∀ f l v, Event.rule f l v ∈ evs → Q f l) →
    ∀ e ∈ (evs.foldl applyEvent st).1.rules, Q e.1 e.2.1
  | [], _, h, _ => h
  | ev :: evs, st, h, hq => by
    simp only [List.foldl_cons]
    apply foldl_applyEvent_rules Q evs _ _ (fun f l v hm => hq f l v (by simp [hm]))
    cases ev with
    | lex w t => exact h
    | rule f l v =>
      intro e he
      have hk : hasKey (st.1.add f l (.ctx v) 1).rules e.1 e.2.1 := ⟨e.2.2, he⟩
      rcases (hasKey_add _ _ _ _ _ _ _).1 hk with ⟨e1, e2⟩ | ⟨c, hc⟩
      · rw [e1, e2]; exact hq f l v (by simp)
      · exact h (e.1, e.2.1, c) hc

/-- every rule of the grammar extracted from well-formed trees whose labels do not begin with `@` is ordered,
    non-deleting, non-erasing over its right-hand side and free of binarization symbols -/
theorem extractAll_rulesOK (ts : List Tree) (h : ∀ t ∈ ts, t.noEmpty = true ∧ t.leafNums.Nodup)
    (hlab : ∀ t ∈ ts, ∀ s ∈ subtrees t, isBinSym s.fields.label = false) :
    ∀ e ∈ (extractAll ts).1.rules, RuleOK e.1 e.2.1 := by
  unfold extractAll
  have key : ∀ (ts : List Tree) (st : Grammar × Lexicon), (∀ t ∈ ts, t.noEmpty = true ∧ t.leafNums.Nodup) →
      (∀ t ∈ ts, ∀ s ∈ subtrees t, isBinSym s.fields.label = false) →
      (∀ e ∈ st.1.rules, RuleOK e.1 e.2.1) →
      ∀ e ∈ (ts.foldl (fun st t => extract t st) st).1.rules, RuleOK e.1 e.2.1 := by
    intro ts
    induction ts with
    | nil => intro st _ _ h; exact h
    | cons t ts ih =>
      intro st h hlab hst
      simp only [List.foldl_cons]
      apply ih _ (fun t' ht' => h t' (by simp [ht'])) (fun t' ht' => hlab t' (by simp [ht']))
      unfold extract
      exact foldl_applyEvent_rules RuleOK _ st hst
        (events_ruleOK t (h t (by simp)).1 (h t (by simp)).2 (hlab t (by simp)) [])
  exact key ts ([], []) h hlab (by simp [Grammar.rules])

theorem extractAll_GrammarOKmin (ts : List Tree) (h : ∀ t ∈ ts, t.noEmpty = true ∧ t.leafNums.Nodup)
    (hlab : ∀ t ∈ ts, ∀ s ∈ subtrees t, isBinSym s.fields.label = false) :
    GrammarOKmin (extractAll ts).1 :=
  fun e he => ⟨(extractAll_rulesOK ts h hlab e he).2, fun _ => (extractAll_rulesOK ts h hlab e he).1⟩

/-- end to end, deterministic labels: extract a grammar from a treebank, binarize it (any reordering), un-binarize:
    exactly the (reordered) extracted rules with their counts come back -/
theorem unbinOK_extractAll (r : Reordering) (ts : List Tree) (h : ∀ t ∈ ts, t.noEmpty = true ∧ t.leafNums.Nodup)
    (hlab : ∀ t ∈ ts, ∀ s ∈ subtrees t, isBinSym s.fields.label = false) :
    unbinOK r (extractAll ts).1 (binarizeGrammar r none (extractAll ts).1) = true :=
  unbinOK_binarize_min r _ (extractAll_GrammarOKmin ts h hlab)

theorem entries_rules_key (g : Grammar) (f : Func) (l : Lin) (v : VertKey) (c : Nat) (he : (f, l, v, c) ∈ g.entries) :
    ∃ c', (f, l, c') ∈ g.rules := by
  simp only [Grammar.entries, List.mem_flatMap, List.mem_map] at he
  obtain ⟨p, hp, q, hq, w, _, e⟩ := he
  simp only [Prod.mk.injEq] at e
  refine ⟨(q.2.map (·.2)).sum, ?_⟩
  simp only [Grammar.rules, List.mem_flatMap, List.mem_map]
  exact ⟨p, hp, q, hq, by rw [e.1, e.2.1]⟩

/-- end to end, Markovized: for every entry of the extracted grammar with more than two right-hand-side elements the
    chain with the Markov labels is in the binarized grammar and composes to the (reordered) extracted rule -/
theorem markov_chain_extractAll (r : Reordering) (o : MarkovOpts) (ts : List Tree)
    (h : ∀ t ∈ ts, t.noEmpty = true ∧ t.leafNums.Nodup)
    (f : Func) (l : Lin) (v : VertKey) (c : Nat) (he : (f, l, v, c) ∈ (extractAll ts).1.entries)
    (h3 : 3 < f.length) :
    let f' := (reorder r f l).1
    let l' := (reorder r f l).2
    let chain := chainG f' (fun p => markovLabel o f' p (vertOf o v) (fanOut l')) (f'.length - 3) 0 (f'[0]?.getD []) l'
    (∀ x ∈ chain, c ≤ gramCount (binarizeGrammar r (some o) (extractAll ts).1) x.1 x.2 .default) ∧
    chain.map (·.2) = chainLins l' (f'.length - 3) ∧
    unbinChain chain = some (f', l') := by
  obtain ⟨c', hc'⟩ := entries_rules_key _ f l v c he
  have hcwf : CWF f l := by
    -- the label hypothesis is not needed for `CWF`: run the invariant with the weaker predicate
    have key : ∀ (ts : List Tree) (st : Grammar × Lexicon), (∀ t ∈ ts, t.noEmpty = true ∧ t.leafNums.Nodup) →
        (∀ e ∈ st.1.rules, CWF e.1 e.2.1) →
        ∀ e ∈ (ts.foldl (fun st t => extract t st) st).1.rules, CWF e.1 e.2.1 := by
      intro ts
      induction ts with
      | nil => intro st _ h; exact h
      | cons t ts ih =>
        intro st h hst
        simp only [List.foldl_cons]
        apply ih _ (fun t' ht' => h t' (by simp [ht']))
        unfold extract
        exact foldl_applyEvent_rules CWF _ st hst (events_CWF t (h t (by simp)).1 (h t (by simp)).2 [])
    exact key ts ([], []) h (by simp [Grammar.rules]) _ hc'
  exact binarizeGrammar_markov_chain r o _ f l v c he h3 hcwf

/-! ## concrete instances -/

/-- `S(x0 z0 y0, w0 x1 z1) <- A(x0,x1) B(y0) C(z0,z1) D(w0)`: rank 4, fan-outs 2 1 2 1, left-hand side 2 (the rule of
    `C07.exFunc`); the optimal reordering moves B to the front: new right-hand side B D A C -/
def exF : Func := [['S'], ['A'], ['B'], ['C'], ['D']]
def exL : Lin := [[(0, 0), (2, 0), (1, 0)], [(3, 0), (0, 1), (2, 1)]]
/-- token blocks for A, B, C, D -/
def exArgs : List (List (List Nat)) := [[[1], [5]], [[3]], [[2], [6]], [[4]]]

theorem exCWF : CWF exF exL := by decide

example : permOf exF exL = [1, 3, 0, 2] ∧
    (reorderingOptimal exF exL).1 = [['S'], ['B'], ['D'], ['A'], ['C']] ∧
    instLin exL exArgs = some [[1, 2, 3], [4, 5, 6]] := by decide
example : ∃ π : List Nat, π.Perm (List.range 4) ∧
    (reorderingOptimal exF exL).1 = exF[0]?.getD [] :: π.map (fun i => exF[i + 1]?.getD []) ∧
    instLin (reorderingOptimal exF exL).2 (π.map fun i => exArgs[i]?.getD []) = instLin exL exArgs :=
  reorderingOptimal_sem exF exL (by decide) exCWF exArgs rfl
example : instLin (reorder .optimal exF exL).2 ([1, 3, 0, 2].map fun i => exArgs[i]?.getD []) =
    some [[1, 2, 3], [4, 5, 6]] := by decide
example := reorder_sem .optimal exF exL (by decide) exCWF exArgs

/-- the range hypothesis cannot be dropped: a variable that names no right-hand-side position makes the original
    rule undefined on every argument list, while the renamed rule sends it to position 0 -/
def badF : Func := [['S'], ['A'], ['B']]
def badL : Lin := [[(2, 0)]]
example : ¬ CWF badF badL := by decide
example : ∀ π ∈ [[0, 1], [1, 0]],
    instLin (reorderingOptimal badF badL).2 (π.map fun i => [[[1]], [[2]]][i]?.getD []) ≠
      instLin badL ([[[1]], [[2]]] : List (List (List Nat))) := by decide

/-- Markovized, v = 1, h = 2 -/
def exO : MarkovOpts := ⟨1, 2, false⟩
example : labelsOf (some exO) {} exF exL [['S', '2']] =
    ["@^S2-A2X".toList, "@^S2-B1-A2X".toList] := by decide
example := binarizeRule_chain (some exO) exF exL 3 [['S', '2']] {} [] (by decide)
example : 3 ≤ gramCount (binarizeRule (some exO) exF exL 3 [['S', '2']] {} []).2
    ["@^S2-A2X".toList, ['B'], "@^S2-B1-A2X".toList] [[(1, 0), (0, 0)], [(1, 1)], [(1, 2)]] .default := by
  have := binarizeRule_chain_labels (some exO) exF exL 3 [['S', '2']] {} [] (by decide) 1 (by decide)
  exact this
example := binarizeRule_chain_composes (some exO) exF exL 3 [['S', '2']] {} [] (by decide) exCWF
example := binarizeRule_chain_composesPos (some exO) exF exL 3 [['S', '2']] {} [] (by decide) (by decide) (by decide)
example := binarizeRule_chain_composes none exF exL 3 [] ⟨7⟩ [] (by decide) exCWF

/-- h = 0, v = 0: every position gets the same label `@X`; for `S -> A A A A A` the two middle rules of the chain
    coincide and their entry gets twice the count (this is why the theorems say `c ≤`, and what `binarizeRule_exact`
    counts) -/
def exO0 : MarkovOpts := ⟨0, 0, true⟩
def exF6 : Func := [['S'], ['A'], ['A'], ['A'], ['A'], ['A']]
def exL6 : Lin := [[(0, 0), (1, 0), (2, 0), (3, 0), (4, 0)]]
example : gramCount (binarizeRule (some exO0) exF6 exL6 3 [] {} []).2 [['@', 'X'], ['A'], ['@', 'X']]
    [[(0, 0), (1, 0)]] .default = 6 := by decide
example : (chainG exF6 (labelOf (some exO0) {} exF6 [] (fanOut exL6)) 3 0 ['S'] exL6).count
    ([['@', 'X'], ['A'], ['@', 'X']], [[(0, 0), (1, 0)]]) = 2 := by decide
example := binarizeRule_exact (some exO0) exF6 exL6 3 [] {} [] (by decide) [['@', 'X'], ['A'], ['@', 'X']]
    [[(0, 0), (1, 0)]] .default

/-- T7.3 -/
theorem exWF' : WF' exL := WF'_of_wfLin exL _ exCWF
example : occ (topLin exL) 1 = 3 ∧ (restLin exL).length = 3 := by decide
example : occ (topLin exL) 1 = (restLin exL).length := topLin_uses_rest exL exWF'
example := chain_fanouts_agree exF exL exCWF 0 (by decide)
example : (fanOut ((chainLins exL 2)[1]?.getD []))[2]? = some ((chainLins exL 2)[2]?.getD []).length :=
  chain_fanouts_agree_some exF exL exCWF 1 (by decide) (by decide)

/-- whole grammars (`C07More.exG`: two entries S -> A B C D with different linearizations, one of them with two
    vertical keys, and A -> B C) -/
example := binarizeGrammar_markov_chain .optimal exO C07More.exG C07More.exF C07More.exL1 (.ctx [['S', '2']]) 3
  (by decide) (by decide) (by decide)
example : 2 ≤ gramCount (binarizeGrammar .optimal (some exO) C07More.exG) [['A'], ['B'], ['C']] [[(0, 0), (1, 0)]]
    .default :=
  small_rule_kept_markov .optimal exO C07More.exG [['A'], ['B'], ['C']] [[(0, 0), (1, 0)]] (.ctx [['A', '1']]) 2
    (by decide) (by decide)
example : gramCount (binarizeGrammar .optimal (some exO) C07More.exG) [['A'], ['B'], ['C']] [[(0, 0), (1, 0)]]
    .default = 2 := by
  rw [small_rule_count_markov _ _ _ _ _ (by decide) (by decide)]; decide
example : gramCount (binarizeGrammar .none none C07More.exG) [['A'], ['B'], ['C']] [[(0, 0), (1, 0)]] .default = 2 := by
  rw [small_rule_count_none _ _ _ _ (by decide) (by decide)]; decide

/-- the hypothesis "no binarization symbol" of the exact count cannot be dropped: a rule of rank 2 that coincides with
    a chain rule gets that rule's count too -/
def exBad : Grammar :=
  [([['S'], ['A'], uniqueLabel 1], [(topLin C07More.exL1, [(.default, 1)])]), (C07More.exF, [(C07More.exL1, [(.default, 3)])])]
example : gramCount (binarizeGrammar .none none exBad) [['S'], ['A'], uniqueLabel 1] (topLin C07More.exL1) .default = 4 ∧
    ((exBad.rules.filter fun e => reorder .none e.1 e.2.1 == ([['S'], ['A'], uniqueLabel 1], topLin C07More.exL1)).map
      (·.2.2)).sum = 1 := by decide

/-- `followChain_top_min` on a grammar outside `GrammarOK` (the same entry twice) -/
example := followChain_top_min .optimal C07More.exG2 (by decide) C07More.exF C07More.exL1 2 (by decide) (by decide)

/-- T7.4 on the discontinuous tree of `C06` -/
example : CWF (funcOf C06.exT) (linOf C06.exT) := linOf_CWF' _ _ (by decide) (by decide)
example : GrammarOKmin (extractAll [C06.exT]).1 := extractAll_GrammarOKmin [C06.exT] (by decide) (by decide)
example : unbinOK .optimal (extractAll [C06.exT]).1 (binarizeGrammar .optimal none (extractAll [C06.exT]).1) = true :=
  unbinOK_extractAll .optimal [C06.exT] (by decide) (by decide)
example := markov_chain_extractAll .optimal exO [C06.exT] (by decide) C06.exF C06.exL (.ctx [['S', '2']]) 1
  (by decide) (by decide)
example := binarizeGrammar_none_chain .optimal C07More.exG C07More.exF C07More.exL1 3 (by decide) (by decide) (by decide)
example := binarizeGrammar_markov_sem .optimal exO C07More.exG C07More.exF C07More.exL1 (.ctx [['S', '2']]) 3
  (by decide) (by decide) (by decide) exArgs

end TT.Props.C07Sem
