/-
  C07 / C08, wave 15 (audit B, second pass):
  * C07 missing 2: `binSyms_unique`, `binSyms_single_fanout` under `GrammarOKmin` (what the proofs use), and on the
    quantified domain `binSyms_unique_extractAll`, `binSyms_single_fanout_extractAll`; `small_rule_kept` without its
    unused hypothesis;
  * C07 missing 1 = C08 missing 2: the EXACT entries of the binarized grammar in every mode:
    `binarizeGrammar_gramCount` (over the calls), `binarizeGrammar_gramCount_markov`, `binarizeGrammar_gramCount_none`
    (spelled out), `binarizeGrammar_gramCount_ctx`, `binarizeGrammar_entry_expected_markov` (nothing else is entered).
  Helpers: `TT/Lemmas/More15b.lean`; specification side: `TT/Spec/More15b.lean` (`expectedAdds`, `offsetsFrom`).
-/
import TT.Spec.Grammar
import TT.Lemmas.GramBin
import TT.Lemmas.Unbin
import TT.Lemmas.More12b
import TT.Props.C07More
import TT.Props.C07Sem
import TT.Lemmas.More15b
namespace TT.Props.C07Exact
open TT TT.Tree TT.Spec TT.Lemmas.GramBin TT.Lemmas.Unbin TT.Lemmas.More12b TT.Props.C07More TT.Props.C07Sem
open TT.Lemmas.More15b

/-! ## rows 6 / 7 on the quantified domain -/

/-- binarization symbols are unique (each is defined by at most one rule of the result) under `GrammarOKmin` -/
theorem binSyms_unique (r : Reordering) (g : Grammar) (h : GrammarOKmin g) (x : Str) (hx : isBinSym x = true) :
    ((binarizeGrammar r none g).rules.filter fun (f, _, _) => f.head? = some x).length ≤ 1 := by
  rw [binarizeGrammar_build]
  exact binSyms_unique' (reordered r g) (NB_of_min r g h) x hx

theorem binSyms_single_fanout (r : Reordering) (g : Grammar) (h : GrammarOKmin g) (x : Str) (hx : isBinSym x = true)
    (e1 e2 : Func × Lin × Nat) (h1 : e1 ∈ (binarizeGrammar r none g).rules) (h2 : e2 ∈ (binarizeGrammar r none g).rules)
    (x1 : e1.1.head? = some x) (x2 : e2.1.head? = some x) :
    e1.1 = e2.1 ∧ e1.2.1 = e2.2.1 ∧ e1.2.1.length = e2.2.1.length := by
  rw [binarizeGrammar_build] at h1 h2
  have := binDef_unique (reordered r g) (NB_of_min r g h) x hx e1 e2 h1 h2 x1 x2
  simp only [keyOf, Prod.mk.injEq] at this
  exact ⟨this.1, this.2, by rw [this.2]⟩

theorem binSyms_unique_extractAll (r : Reordering) (ts : List Tree)
    (h : ∀ t ∈ ts, t.noEmpty = true ∧ t.leafNums.Nodup)
    (hlab : ∀ t ∈ ts, ∀ s ∈ subtrees t, isBinSym s.fields.label = false) (x : Str) (hx : isBinSym x = true) :
    ((binarizeGrammar r none (extractAll ts).1).rules.filter fun (f, _, _) => f.head? = some x).length ≤ 1 :=
  binSyms_unique r _ (extractAll_GrammarOKmin ts h hlab) x hx

theorem binSyms_single_fanout_extractAll (r : Reordering) (ts : List Tree)
    (h : ∀ t ∈ ts, t.noEmpty = true ∧ t.leafNums.Nodup)
    (hlab : ∀ t ∈ ts, ∀ s ∈ subtrees t, isBinSym s.fields.label = false) (x : Str) (hx : isBinSym x = true)
    (e1 e2 : Func × Lin × Nat) (h1 : e1 ∈ (binarizeGrammar r none (extractAll ts).1).rules)
    (h2 : e2 ∈ (binarizeGrammar r none (extractAll ts).1).rules)
    (x1 : e1.1.head? = some x) (x2 : e2.1.head? = some x) :
    e1.1 = e2.1 ∧ e1.2.1 = e2.2.1 ∧ e1.2.1.length = e2.2.1.length :=
  binSyms_single_fanout r _ (extractAll_GrammarOKmin ts h hlab) x hx e1 e2 h1 h2 x1 x2

/-- `C07More.small_rule_kept` without its unused hypothesis -/
theorem small_rule_kept (r : Reordering) (g : Grammar) (f : Func) (l : Lin) (c : Nat)
    (he : (f, l, c) ∈ g.rules) (hs : f.length ≤ 3) :
    c ≤ gramCount (binarizeGrammar r none g) (reorder r f l).1 (reorder r f l).2 .default := by
  rw [binarizeGrammar_build]
  have hmem : ((reorder r f l).1, (reorder r f l).2, c) ∈ reordered r g := List.mem_map.2 ⟨(f, l, c), he, rfl⟩
  exact small_kept (reordered r g) _ hmem (reorder_length_le r f l hs)

example : ((binarizeGrammar .optimal none C07More.exG2).rules.filter fun (f, _, _) => f.head? = some (uniqueLabel 3)).length ≤ 1 :=
  binSyms_unique _ _ (by decide +kernel) _ (isBinSym_uniqueLabel 3)
example : ((binarizeGrammar .optimal none (extractAll [C06.exT]).1).rules.filter
    fun (f, _, _) => f.head? = some (uniqueLabel 1)).length ≤ 1 :=
  binSyms_unique_extractAll .optimal [C06.exT] (by decide) (by decide) _ (isBinSym_uniqueLabel 1)

/-! ## exact entries of the binarized grammar, every mode (C07 missing 1 = C08 missing 2) -/

/-- general form over the calls `jobs r mo g` that `binarizeGrammar` makes (`TT/Lemmas/More12b.lean`), the generator
    state threaded through by `expectedSum` (`TT/Lemmas/More15b.lean`); nothing is ever filed under a vertical key -/
theorem binarizeGrammar_gramCount (r : Reordering) (mo : Option MarkovOpts) (g : Grammar) (F : Func) (L : Lin) :
    gramCount (binarizeGrammar r mo g) F L .default = expectedSum mo F L {} (jobs r mo g) ∧
    ∀ v, gramCount (binarizeGrammar r mo g) F L (.ctx v) = 0 := by
  refine ⟨?_, fun v => ?_⟩
  · rw [binarizeGrammar_gramCount_jobs, if_pos rfl]
  · rw [binarizeGrammar_gramCount_jobs, if_neg (by simp)]

/-- Markov labels, spelled out: the entry `(F, L)` of the binarized grammar is EXACTLY the sum, over the entries
    `(f, l, v, c)` of `g` (one per vertical context), of `c` times the multiplicity of `(F, L)` among the rules expected
    for that entry (`Spec.expectedAdds`: the reordered rule itself for rank ≤ 2, else its chain with the Markov labels
    of vertical context `vertOf o v`) -/
theorem binarizeGrammar_gramCount_markov (r : Reordering) (o : MarkovOpts) (g : Grammar) (F : Func) (L : Lin) :
    gramCount (binarizeGrammar r (some o) g) F L .default =
      (g.entries.map fun e => e.2.2.2 *
        (expectedAdds (some o) {} (reorder r e.1 e.2.1).1 (reorder r e.1 e.2.1).2 (vertOf o e.2.2.1)).count (F, L)).sum := by
  rw [(binarizeGrammar_gramCount r (some o) g F L).1, expectedSum_some]
  simp only [jobs, List.map_map]
  rfl

/-- deterministic labels, spelled out: rule number `i` of `g.rules` is binarized with the labels `@s+1X, @s+2X, ...`
    where `s` (`offsetsFrom`) is the number of labels the rules before it have consumed (`|f| - 3` each) -/
theorem binarizeGrammar_gramCount_none (r : Reordering) (g : Grammar) (F : Func) (L : Lin) :
    gramCount (binarizeGrammar r none g) F L .default =
      ((g.rules.zip (offsetsFrom 0 (g.rules.map fun e => e.1.length - 3))).map fun p => p.1.2.2 *
        (expectedAdds none ⟨p.2⟩ (reorder r p.1.1 p.1.2.1).1 (reorder r p.1.1 p.1.2.1).2 []).count (F, L)).sum := by
  rw [(binarizeGrammar_gramCount r none g F L).1]
  show expectedSum none F L ⟨0⟩ _ = _
  rw [expectedSum_none]
  simp only [jobs, List.map_map, List.zip_map_left, Function.comp_def, reorder_nlab]
  rfl

theorem binarizeGrammar_gramCount_ctx (r : Reordering) (mo : Option MarkovOpts) (g : Grammar) (F : Func) (L : Lin)
    (v : List Str) : gramCount (binarizeGrammar r mo g) F L (.ctx v) = 0 :=
  (binarizeGrammar_gramCount r mo g F L).2 v

theorem sum_pos_mem {α} (f : α → Nat) : ∀ l : List α, 0 < (l.map f).sum → ∃ a ∈ l, 0 < f a
  | [], h => by simp at h
  | a :: l, h => by
    rw [List.map_cons, List.sum_cons] at h
    by_cases ha : 0 < f a
    · exact ⟨a, by simp, ha⟩
    · obtain ⟨b, hb, hfb⟩ := sum_pos_mem f l (by omega)
      exact ⟨b, by simp [hb], hfb⟩

/-- nothing else: an entry of the Markovized grammar with a positive count is one of the rules expected for some entry
    of `g` (with `binarizeGrammar_markov_chain` / `small_rule_kept_markov`: the entries of the result are exactly the
    expected ones) -/
theorem binarizeGrammar_entry_expected_markov (r : Reordering) (o : MarkovOpts) (g : Grammar) (F : Func) (L : Lin)
    (h : 0 < gramCount (binarizeGrammar r (some o) g) F L .default) :
    ∃ e ∈ g.entries, 0 < e.2.2.2 ∧
      (F, L) ∈ expectedAdds (some o) {} (reorder r e.1 e.2.1).1 (reorder r e.1 e.2.1).2 (vertOf o e.2.2.1) := by
  rw [binarizeGrammar_gramCount_markov] at h
  obtain ⟨e, he, hpos⟩ := sum_pos_mem _ _ h
  refine ⟨e, he, Nat.pos_of_mul_pos_right hpos, List.count_pos_iff.1 (Nat.pos_of_mul_pos_left hpos)⟩

/-- the `c ≤` of `binarizeGrammar_markov_chain` as an equality in the case it is about: ONE entry of rank ≥ 3 whose
    chain rules are pairwise distinct - every chain rule gets exactly the count `c` -/
theorem single_entry_chain_exact (r : Reordering) (o : MarkovOpts) (f : Func) (l : Lin) (v : VertKey) (c : Nat)
    (x : Func × Lin)
    (hx : (expectedAdds (some o) {} (reorder r f l).1 (reorder r f l).2 (vertOf o v)).count x = 1) :
    gramCount (binarizeGrammar r (some o) [(f, [(l, [(v, c)])])]) x.1 x.2 .default = c := by
  rw [binarizeGrammar_gramCount_markov]
  simp [Grammar.entries, hx]

/-! ### instances -/

/-- `C07Sem.exO0` (h = 0, v = 0: all labels are `@X`) on `S -> A A A A A` with count 3: the two middle rules of the chain
    coincide, the entry is 2 * 3 -/
example : gramCount (binarizeGrammar .none (some C07Sem.exO0) [(C07Sem.exF6, [(C07Sem.exL6, [(.default, 3)])])])
    [['@', 'X'], ['A'], ['@', 'X']] [[(0, 0), (1, 0)]] .default = 6 := by
  rw [binarizeGrammar_gramCount_markov]; decide
/-- `C07More.exG` Markovized (v = 1, h = 2), optimal reordering: the two vertical contexts of the continuous rule
    `S -> A B C D` give different labels -/
example : gramCount (binarizeGrammar .optimal (some C07Sem.exO) C07More.exG)
    [['S'], ['A'], "@^S1-A1X".toList] [[(0, 0), (1, 0)]] .default = 1 := by
  rw [binarizeGrammar_gramCount_markov]; decide
/-- deterministic labels: the third rule of `exG2` (the first one again) gets the labels `@3X @4X` -/
example : offsetsFrom 0 (C07More.exG2.rules.map fun e => e.1.length - 3) = [0, 2, 2] := by decide
example : gramCount (binarizeGrammar .none none C07More.exG2) [uniqueLabel 3, ['B'], uniqueLabel 4]
    (topLin (restLin C07More.exL1)) .default = 5 := by
  rw [binarizeGrammar_gramCount_none]; decide

end TT.Props.C07Exact
