/-
  C01Disco3 — wave 19, C01 rows 3, 4, 10, 11 for discobrackets: the discobracket reader WITH options.

  1. `gf_split`, `replace_parens` (rows 4, 10, 11)
     * `readDisco_opts_text`    every text, every option record with `disco`: the reader with the label-rewriting options is the
                                reader without them, post-processed tree by tree by `Spec.discoPost` (errors coincide)
     * `readDisco_replaceParens` `replace_parens` alone, EVERY option record: post-processing by `replaceParensKeepWord` -
                                NOT by `replaceParensTree`, the function of the other readers: the option runs before the words are
                                fetched from the sentence, so sentence words keep their parentheses (counterexample below)
     * `readDisco_gfSplit`      `gf_split` alone: post-processing by `gfSplitLabelled`; on the trees of a decoded file this is
                                `gfSplitTree`, the function of the TIGER-XML reader (`discoPost_asRead`)
     * `readSrc_replaceParens_all`  `C01Src.readSrc_replaceParens` without the exclusion `PlainSrc` (all four sources)
     * `readDisco_opts`, `readDisco_opts_WF`   `readDisco_spec` / `readDisco_WF` for every option record without `disco_reordered`
  2. `disco_reordered` (row 4): `readDisco_reordered`, against the decoder `Spec.decDiscoReordered`
  3. whitespace inserted into the tree part (row 3): `readDisco_ws_insert`
-/
import TT.Lemmas.Disco19
import TT.Props.C01Disco2
import TT.Props.C01Src
namespace TT.Props.C01Disco3
open TT TT.Tree TT.Spec
open TT.Lemmas.Run TT.Lemmas.WF TT.Lemmas.More12h TT.Lemmas.Disco19 TT.Props.C01Readers TT.Props.C01Disco2 TT.Props.C01Src

/-! ## 1. `gf_split` and `replace_parens` -/

/-- every text: the label-rewriting options are a post-processing of the result without them (`EmptyOK`: as for plain
    brackets, `gf_split` together with `brackets_emptypos` for the separators that leave the default label alone) -/
theorem readDisco_opts_text (o : InOpts) (hd : o.disco = true) (ho : EmptyOK o) (text : Str) :
    readBrackets o text =
      (readBrackets { o with gfSplit := false, replaceParens := false } text).map
        (List.map fun x => (x.1, discoPost o x.2)) :=
  readBrackets_discoSim o hd ho text

/-- row 11, `replace_parens` for discobrackets, EVERY option record with `disco` -/
theorem readDisco_replaceParens (o : InOpts) (hd : o.disco = true) (text : Str) :
    readBrackets { o with replaceParens := true } text =
      (readBrackets { o with replaceParens := false } text).map (List.map fun x => (x.1, replaceParensKeepWord x.2)) :=
  readBrackets_discoRp o hd text

/-- the function of the other readers, `replaceParensTree`, is NOT the effect of the option here: the sentence word `-LRB-` is
    kept by the reader, `replaceParensTree` would make it `LRB`; the label `-LRB-` is replaced in both -/
example : ((readBrackets { disco := true, replaceParens := true } "(S(-LRB- 1)(B 2))\t-LRB- b\n".toList).toOption.map
      (·.map fun x => x.2.leaves.map fun l => (l.fields.label, l.fields.word))) =
      some [[("LRB".toList, some "-LRB-".toList), ("B".toList, some "b".toList)]] := by decide +kernel
example : ((readBrackets { disco := true } "(S(-LRB- 1)(B 2))\t-LRB- b\n".toList).toOption.map
      (·.map fun x => (replaceParensTree x.2).leaves.map fun l => (l.fields.label, l.fields.word))) =
      some [[("LRB".toList, some "LRB".toList), ("B".toList, some "b".toList)]] := by decide +kernel
example : ((readBrackets { disco := true } "(S(-LRB- 1)(B 2))\t-LRB- b\n".toList).toOption.map
      (·.map fun x => (replaceParensKeepWord x.2).leaves.map fun l => (l.fields.label, l.fields.word))) =
      some [[("LRB".toList, some "-LRB-".toList), ("B".toList, some "b".toList)]] := by decide +kernel

/-- row 11, `gf_split` for discobrackets -/
theorem readDisco_gfSplit (o : InOpts) (hd : o.disco = true)
    (he : o.emptyPos = true → gfSplitLabel (o.gfSeparator.getD DEFAULT_GF_SEP) DEFAULT_LABEL = (DEFAULT_LABEL, DEFAULT_EDGE))
    (hr : o.replaceParens = false) (text : Str) :
    readBrackets { o with gfSplit := true } text =
      (readBrackets { o with gfSplit := false } text).map
        (List.map fun x => (x.1, gfSplitLabelled (o.gfSeparator.getD DEFAULT_GF_SEP) x.2)) := by
  rw [readBrackets_discoSim { o with gfSplit := true } hd (fun _ h => he h) text]
  have e : baseOpts { o with gfSplit := true } = { o with gfSplit := false } := by
    cases o; simp only [baseOpts] at *; simp [hr]
  rw [e]
  congr 1
  funext l
  exact List.map_congr_left (fun x _ => by simp [discoPost, hr])

example : (readBrackets { disco := true, gfSplit := true } "(S(NP-SB(A-HD 1)(C 3))(B-OC 2))\ta b c\n".toList).toOption.map
    (·.map fun x => (x.2.subtrees.map fun y => (y.fields.label, y.fields.edge))) =
  ((readBrackets { disco := true } "(S(NP-SB(A-HD 1)(C 3))(B-OC 2))\ta b c\n".toList).toOption.map
    (·.map fun x => ((gfSplitLabelled DEFAULT_GF_SEP x.2).subtrees.map fun y => (y.fields.label, y.fields.edge)))) := by
  decide +kernel

/-! ### over the commands' source dispatch: `C01Src.readSrc_replaceParens` without the exclusion -/

/-- the effect of `replace_parens` by source: `replaceParensTree` everywhere, except that behind the discobracket post-pass
    the words of the tokens come from the sentence and are left alone -/
def rpOf (io : InOpts) : Source → Tree → Tree
  | .discobrackets _ => replaceParensKeepWord
  | .brackets _ => if io.disco then replaceParensKeepWord else replaceParensTree
  | _ => replaceParensTree

/-- `replace_parens` for ALL sources and all option records: errors coincide, numbers coincide, each tree is post-processed -/
theorem readSrc_replaceParens_all (io : InOpts) (src : Source) :
    readSrc { io with replaceParens := true } src =
      (readSrc { io with replaceParens := false } src).map (List.map fun x => (x.1, rpOf io src x.2)) := by
  match src with
  | .export text => exact readExport_replaceParens io text
  | .tigerxml doc => exact readTiger_replaceParens io doc
  | .discobrackets text => exact readDisco_replaceParens { io with disco := true } rfl text
  | .brackets text =>
    cases hd : io.disco with
    | false =>
      have := readBrackets_replaceParens io hd text
      simpa only [readSrc, rpOf, hd, Bool.false_eq_true, if_false] using this
    | true =>
      have := readDisco_replaceParens io hd text
      simpa only [readSrc, rpOf, hd, if_true] using this

theorem readSrc_gfSplit_discobrackets (io : InOpts) (he : io.emptyPos = false) (hr : io.replaceParens = false) (text : Str) :
    readSrc { io with gfSplit := true } (.discobrackets text) =
      (readSrc { io with gfSplit := false } (.discobrackets text)).map
        (List.map fun x => (x.1, gfSplitLabelled (io.gfSeparator.getD DEFAULT_GF_SEP) x.2)) :=
  readDisco_gfSplit { io with disco := true } rfl (fun h => by rw [he] at h; cases h) hr text

/-! ### decoded files: `readDisco_spec` and `readDisco_WF` with the options -/

theorem allEdges_asRead (t : Tree) : allEdges (asReadBrackets t) = true := by
  induction t using tree_ind with
  | hl n f => rw [TT.Lemmas.OwnRT.asRead_leaf]; rfl
  | hn f ks ih =>
    rw [TT.Lemmas.OwnRT.asRead_node]
    simp only [allEdges, Option.isSome_some, Bool.true_and, allEdgesL_iff]
    intro k hk
    obtain ⟨a, ha, rfl⟩ := List.mem_map.1 hk
    exact ih a ha

/-- on the trees of a decoded file (every node has a label) `gf_split` is `gfSplitTree`, the function of the TIGER-XML reader -/
theorem discoPost_asRead (o : InOpts) (t : Tree) :
    discoPost o (asReadBrackets t) =
      (fun x => if o.replaceParens then replaceParensKeepWord x else x)
        (if o.gfSplit then gfSplitTree (o.gfSeparator.getD DEFAULT_GF_SEP) (asReadBrackets t) else asReadBrackets t) := by
  unfold discoPost
  cases hg : o.gfSplit with
  | false => rfl
  | true =>
    have := gT_allEdges o hg _ (allEdges_asRead t)
    rw [gT_eq_spec, hg] at this
    simp only [if_true] at this
    simp only [if_true, this]
    rfl

/-- `readDisco_opts` (row 4): `readDisco_spec` for every option record with `disco` and without `disco_reordered` -/
theorem readDisco_opts (o : InOpts) (hd : o.disco = true) (hdr : o.discoReordered = false) (ho : EmptyOK o)
    (ls : List Str) (ts : List Tree) (h : ls.mapM decDisco = some ts) (hok : ∀ l ∈ ls, DiscoLineOK l = true) :
    readBrackets o (textOf ls) =
      .ok ((List.range' (o.firstId.getD 1) ts.length).zip (ts.map fun t => discoPost o (asReadBrackets t))) := by
  rw [readBrackets_discoSim o hd ho, readDisco_spec (baseOpts o) rfl rfl hd hdr ls ts h hok]
  simp only [Except.map, TT.Lemmas.More12h.zip_map_snd, List.map_map]
  rfl

theorem shapeMap_discoPost (o : InOpts) : ShapeMap (discoPost o) := by
  have h1 : ∀ sep, ShapeMap (gfSplitLabelled sep) := fun sep => shapeMap_mapFields _
  have h2 : ShapeMap replaceParensKeepWord := shapeMap_mapFields _
  unfold discoPost
  cases o.gfSplit <;> cases o.replaceParens <;> simp only [Bool.false_eq_true, if_false, if_true]
  · exact ⟨fun n f => ⟨f, rfl⟩, fun f ks => ⟨f, by simp⟩⟩
  · exact h2
  · exact h1 _
  · constructor
    · intro n f
      obtain ⟨f1, e1⟩ := (h1 (o.gfSeparator.getD DEFAULT_GF_SEP)).leaf n f
      obtain ⟨f2, e2⟩ := h2.leaf n f1
      exact ⟨f2, by rw [e1, e2]⟩
    · intro f ks
      obtain ⟨f1, e1⟩ := (h1 (o.gfSeparator.getD DEFAULT_GF_SEP)).node f ks
      obtain ⟨f2, e2⟩ := h2.node f1 (ks.map (gfSplitLabelled (o.gfSeparator.getD DEFAULT_GF_SEP)))
      exact ⟨f2, by rw [e1, e2, List.map_map]; rfl⟩

/-- `readDisco_opts_WF` (row 10): `readDisco_WF` for every option record with `disco` and without `disco_reordered` -/
theorem readDisco_opts_WF (o : InOpts) (hd : o.disco = true) (hdr : o.discoReordered = false) (ho : EmptyOK o)
    (ls : List Str) (ts : List Tree) (h : ls.mapM decDisco = some ts)
    (hok : ∀ l ∈ ls, DiscoLineOK l = true) (hperm : ∀ t ∈ ts, IndicesPerm t = true) :
    ∃ rs, readBrackets o (textOf ls) = .ok rs ∧ rs.length = ls.length ∧ ∀ x ∈ rs, WFc x.2 = true := by
  obtain ⟨rs0, h0, hl0, hw0⟩ := readDisco_WF (baseOpts o) rfl rfl hd hdr ls ts h hok hperm
  refine ⟨_, by rw [readBrackets_discoSim o hd ho, h0]; rfl, by simpa using hl0, ?_⟩
  intro x hx
  obtain ⟨y, hy, rfl⟩ := List.mem_map.1 hx
  exact goodMap_WFc (shapeMap_discoPost o).good _ (hw0 y hy)

/-- a file with grammatical functions and a parenthesis word, read with both options -/
def exOpts : List Str := L ["(S(VP-OC(A-HD 1)(C 3))(B-SB 2))\tHelmut -LRB- gern", "(X(Y 1))\tja"]

example : ∃ ts, exOpts.mapM decDisco = some ts ∧
    readBrackets { disco := true, gfSplit := true, replaceParens := true } (textOf exOpts) =
      .ok ((List.range' 1 ts.length).zip
        (ts.map fun t => discoPost { disco := true, gfSplit := true, replaceParens := true } (asReadBrackets t))) := by
  cases h : exOpts.mapM decDisco with
  | none => exact absurd h (by decide +kernel)
  | some ts =>
    exact ⟨ts, rfl, readDisco_opts { disco := true, gfSplit := true, replaceParens := true } rfl rfl (emptyOK_default _ rfl)
      exOpts ts h (by
        have : exOpts.all DiscoLineOK = true := by decide +kernel
        exact fun l hl => List.all_eq_true.1 this l hl)⟩

example : (readBrackets { disco := true, gfSplit := true, replaceParens := true } (textOf exOpts)).toOption.map
    (·.map fun x => (x.2.subtrees.map fun y => (y.fields.label, y.fields.edge))) =
  some [[("S".toList, some "--".toList), ("VP".toList, some "OC".toList), ("A".toList, some "HD".toList),
      ("C".toList, some "--".toList), ("B".toList, some "SB".toList)],
    [("X".toList, some "--".toList), ("Y".toList, some "--".toList)]] := by decide +kernel

example : (readBrackets { disco := true, gfSplit := true, replaceParens := true } (textOf exOpts)).toOption.map
    (·.map fun x => (x.2.leaves.map fun y => (y.num, y.fields.word))) =
  some [[(1, some "Helmut".toList), (3, some "gern".toList), (2, some "-LRB-".toList)], [(1, some "ja".toList)]] := by
  decide +kernel

/-! ## 2. `disco_reordered`

  What the option does (`treeinput.brackets`): the tree part is taken as it stands - the tokens keep the numbers 1..n of the
  order in which they are written, nothing is moved - and the word of token `n` becomes `k-w`: `k` the index written in the
  tree part, `w` the `n`-th word of the sentence.  (The file is one that was written with the words already in the order of the
  tree part.)  The decoder `Spec.decDiscoReordered` says this with the strict one-line bracket decoder `decBrackets`. -/

/-- MAIN (row 4, `disco_reordered`): a discobracket file whose lines are accepted by `decDiscoReordered` and meet the side
    conditions of the format (`DiscoLineOK`; `DiscoReorderedOK`: a sentence word for every token position) is read into exactly
    the decoded trees, one per line, in file order, numbered from `firstId`; EVERY option record with `disco` and
    `disco_reordered` (label-rewriting options as post-processing `discoPost`) -/
theorem readDisco_reordered (o : InOpts) (hd : o.disco = true) (hdr : o.discoReordered = true) (ho : EmptyOK o)
    (ls : List Str) (ts : List Tree) (h : ls.mapM decDiscoReordered = some ts)
    (hok : ∀ l ∈ ls, DiscoLineOK l = true ∧ DiscoReorderedOK l = true) :
    readBrackets o (textOf ls) =
      .ok ((List.range' (o.firstId.getD 1) ts.length).zip (ts.map fun t => discoPost o (asReadBrackets t))) := by
  rw [readBrackets_discoSim o hd ho]
  have := readBrackets_discoReordered (baseOpts o) rfl rfl hd hdr ls ts h hok
  rw [textOf, this]
  simp only [Except.map, TT.Lemmas.More12h.zip_map_snd, List.map_map]
  rfl

/-- without label-rewriting options: the decoded trees themselves -/
theorem readDisco_reordered_plain (o : InOpts) (hg : o.gfSplit = false) (hr : o.replaceParens = false) (hd : o.disco = true)
    (hdr : o.discoReordered = true) (ls : List Str) (ts : List Tree) (h : ls.mapM decDiscoReordered = some ts)
    (hok : ∀ l ∈ ls, DiscoLineOK l = true ∧ DiscoReorderedOK l = true) :
    readBrackets o (textOf ls) = .ok ((List.range' (o.firstId.getD 1) ts.length).zip (ts.map asReadBrackets)) :=
  readBrackets_discoReordered o hg hr hd hdr ls ts h hok

theorem leafNums_mapFields (g : Tree → Fields → Fields) (t : Tree) : (mapFields g t).leafNums = t.leafNums := by
  induction t using tree_ind with
  | hl n f => simp [mapFields, TT.Lemmas.WF.leafNums_leaf]
  | hn f ks ih =>
    simp only [mapFields, TT.Lemmas.OwnRT.mapFieldsL_eq, TT.Lemmas.WF.leafNums_node, List.flatMap_map]
    have : ∀ (L : List Tree), (∀ k ∈ L, k ∈ ks) → L.flatMap (fun k => (mapFields g k).leafNums) = L.flatMap leafNums := by
      intro L
      induction L with
      | nil => intro _; rfl
      | cons a L ihL =>
        intro hs
        simp only [List.flatMap_cons, ih a (hs a (by simp)), ihL (fun k hk => hs k (by simp [hk]))]
    exact this ks (fun k hk => hk)

/-- the tokens of a tree read with `disco_reordered` are numbered 1..n in the order of the tree part: the tree part IS the tree
    (shape and numbers of `decBrackets`), whatever the indices say -/
theorem decDiscoReordered_shape (tr sent : Str) (hs : splitOnChar '\t' (tr ++ '\t' :: sent) = [tr, sent]) (t : Tree)
    (h : decBrackets tr = some t) :
    ∃ t', decDiscoReordered (tr ++ '\t' :: sent) = some t' ∧ t'.leafNums = t.leafNums := by
  refine ⟨mapFields (reorderedWord (splitOnChar ' ' sent)) t, by simp only [decDiscoReordered, hs, h, Option.map_some], ?_⟩
  exact leafNums_mapFields _ _

/-- the lines of `exDisco` (C01Readers) written in the order of the tree part: index 3 at position 2, index 2 at position 3 -/
def exReord : List Str := L ["(S(VP(A 1)(C 3))(B 2))\tHelmut gern schläft", "(X(Y 1))\tja"]

example : (exReord.mapM decDiscoReordered).map (·.map fun t => (t.leafNums, (t.leaves.map fun l => l.fields.word))) =
    some [([1, 2, 3], [some "1-Helmut".toList, some "3-gern".toList, some "2-schläft".toList]), ([1], [some "1-ja".toList])] := by
  decide +kernel

example : exReord.all (fun l => DiscoLineOK l && DiscoReorderedOK l) = true := by decide +kernel

example : ∃ ts, exReord.mapM decDiscoReordered = some ts ∧
    readBrackets { disco := true, discoReordered := true, firstId := some 5 } (textOf exReord) =
      .ok ((List.range' 5 ts.length).zip (ts.map asReadBrackets)) := by
  cases h : exReord.mapM decDiscoReordered with
  | none => exact absurd h (by decide +kernel)
  | some ts =>
    exact ⟨ts, rfl, readDisco_reordered_plain { disco := true, discoReordered := true, firstId := some 5 } rfl rfl rfl rfl
      exReord ts h (by
        have : exReord.all (fun l => DiscoLineOK l && DiscoReorderedOK l) = true := by decide +kernel
        intro l hl
        have := List.all_eq_true.1 this l hl
        simpa using this)⟩

/-- `DiscoReorderedOK` marks the domain on which model and code agree: with fewer words than tokens the MODEL writes the
    word `2-0` (below) where the code stops with `TypeError` (`str + int`, the default of `tokenmap` is the number 0) -/
example : DiscoLineOK "(S(A 1)(B 1))\tx".toList = true ∧ DiscoReorderedOK "(S(A 1)(B 1))\tx".toList = false := by decide +kernel

example : (readBrackets { disco := true, discoReordered := true } "(S(A 1)(B 1))\tx\n".toList).toOption.map
    (·.map fun x => x.2.leaves.map fun l => (l.num, l.fields.word)) =
    some [[(1, some "1-x".toList), (2, some "1-0".toList)]] := by decide +kernel

/-! ## 3. whitespace inserted into the tree part of a line (row 3)

  `noYield o st toks` (TT/Lemmas/Disco19.lean): while the automaton reads `toks` from `st` no tree is completed - the position
  behind `toks` lies in the tree part of the line, before the parenthesis that closes the tree.  Whitespace of any kind
  (blanks, TABs, line breaks) may be inserted there in front of and behind every parenthesis; next to whitespace that is
  already there it only lengthens the run (`C01Disco.readBrackets_squeeze`).  All option records, with or without `disco`. -/

open TT.Lemmas.Layout in
/-- first line, in front of a parenthesis (for ")" the exception of the plain format: with `brackets_emptypos` a ")" directly
    behind a label must stay there) -/
theorem readDisco_ws_before_paren (o : InOpts) (a w rest : Str) (d : Char) (hd : d = '(' ∨ d = ')')
    (hw : ∀ c ∈ w, pyIsSpace c = true)
    (htree : noYield o { cnt := o.firstId.getD 1 } (lexFlushed a) = true)
    (hst : d = ')' → o.emptyPos = false ∨
      ∀ st', brAfter o { cnt := o.firstId.getD 1 } (lexFlushed a) = .ok st' → st'.state ≠ 2) :
    readBrackets o (a ++ (w ++ d :: rest)) = readBrackets o (a ++ d :: rest) := by
  rw [readBrackets_eq_brD, readBrackets_eq_brD]
  exact dRun_insert_before_paren o _ a w rest d hd hw htree hst

open TT.Lemmas.Layout in
/-- first line, directly behind a parenthesis that does not complete the tree -/
theorem readDisco_ws_after_paren (o : InOpts) (a w rest : Str) (d : Char) (hd : d = '(' ∨ d = ')')
    (hw : ∀ c ∈ w, pyIsSpace c = true)
    (htree : noYield o { cnt := o.firstId.getD 1 }
      (lexFlushed a ++ [([d], if d = '(' then LexClass.lrb else LexClass.rrb)]) = true) :
    readBrackets o (a ++ d :: (w ++ rest)) = readBrackets o (a ++ d :: rest) := by
  rw [readBrackets_eq_brD, readBrackets_eq_brD]
  exact dRun_insert_after_paren o _ a w rest d hd hw htree

/-- any line: two texts that are read alike stay so behind lines that are read without error -/
theorem readDisco_line_congr (o : InOpts) (a0 x y : Str) (ra : List (Nat × Tree))
    (ha : readBrackets o (a0 ++ ['\n']) = .ok ra)
    (h : readBrackets { o with firstId := some (o.firstId.getD 1 + ra.length) } x =
      readBrackets { o with firstId := some (o.firstId.getD 1 + ra.length) } y) :
    readBrackets o (a0 ++ '\n' :: x) = readBrackets o (a0 ++ '\n' :: y) := by
  rw [TT.Props.C01Disco.readDisco_append o a0 x ra ha, TT.Props.C01Disco.readDisco_append o a0 y ra ha, h]

open TT.Lemmas.Layout in
/-- `readDisco_ws_insert` (row 3): behind lines `a0` that are read without error, whitespace `w` inserted into the tree part of
    the next line in front of a parenthesis does not change what is read -/
theorem readDisco_ws_insert (o : InOpts) (a0 : Str) (ra : List (Nat × Tree)) (ha : readBrackets o (a0 ++ ['\n']) = .ok ra)
    (a w rest : Str) (d : Char) (hd : d = '(' ∨ d = ')') (hw : ∀ c ∈ w, pyIsSpace c = true)
    (htree : noYield o { cnt := o.firstId.getD 1 + ra.length } (lexFlushed a) = true)
    (hst : d = ')' → o.emptyPos = false) :
    readBrackets o (a0 ++ '\n' :: (a ++ (w ++ d :: rest))) = readBrackets o (a0 ++ '\n' :: (a ++ d :: rest)) := by
  apply readDisco_line_congr o a0 _ _ ra ha
  refine readDisco_ws_before_paren _ a w rest d hd hw ?_ (fun h => .inl (hst h))
  rw [noYield_firstId]
  exact htree

open TT.Lemmas.Layout in
/-- the same directly behind a parenthesis -/
theorem readDisco_ws_insert_after (o : InOpts) (a0 : Str) (ra : List (Nat × Tree)) (ha : readBrackets o (a0 ++ ['\n']) = .ok ra)
    (a w rest : Str) (d : Char) (hd : d = '(' ∨ d = ')') (hw : ∀ c ∈ w, pyIsSpace c = true)
    (htree : noYield o { cnt := o.firstId.getD 1 + ra.length }
      (lexFlushed a ++ [([d], if d = '(' then LexClass.lrb else LexClass.rrb)]) = true) :
    readBrackets o (a0 ++ '\n' :: (a ++ d :: (w ++ rest))) = readBrackets o (a0 ++ '\n' :: (a ++ d :: rest)) := by
  apply readDisco_line_congr o a0 _ _ ra ha
  refine readDisco_ws_after_paren _ a w rest d hd hw ?_
  rw [noYield_firstId]
  exact htree

open TT.Lemmas.Layout in
/-- the hypotheses at work: second line `(S(A 1)(B 2))<TAB>x y`, a line break and blanks in front of `(B`; and behind `(S` -/
example :
    readBrackets { disco := true } ("(X(Y 1))\tja".toList ++ '\n' :: ("(S(A 1)".toList ++ ("\n   ".toList ++ '(' :: "B 2))\tx y\n".toList))) =
      readBrackets { disco := true } ("(X(Y 1))\tja".toList ++ '\n' :: ("(S(A 1)".toList ++ '(' :: "B 2))\tx y\n".toList)) := by
  have hlen : (readBrackets { disco := true } ("(X(Y 1))\tja".toList ++ ['\n'])).toOption.map List.length = some 1 := by
    decide +kernel
  cases hra : readBrackets { disco := true } ("(X(Y 1))\tja".toList ++ ['\n']) with
  | error e => rw [hra] at hlen; cases hlen
  | ok ra =>
    rw [hra] at hlen
    have hl : ra.length = 1 := by simpa [Except.toOption] using hlen
    refine readDisco_ws_insert { disco := true } _ ra hra _ _ _ '(' (.inl rfl) (by decide) ?_ (fun h => absurd h (by decide))
    rw [hl]
    decide +kernel

example : (readBrackets { disco := true } "(X(Y 1))\tja\n(S(A 1)\n   (B 2))\tx y\n".toList).toOption.map
    (·.map fun x => x.2.leaves.map fun l => (l.num, l.fields.word)) =
    some [[(1, some "ja".toList)], [(1, some "x".toList), (2, some "y".toList)]] := by decide +kernel

/-- the hypothesis `htree` is needed: behind the parenthesis that closes the tree a line break ends the (empty) sentence -/
example : (readBrackets { disco := true } "(S(A 1))\n\tx\n".toList).toOption.map
      (·.map fun x => x.2.leaves.map fun l => (l.num, l.fields.word)) = some [[(1, some "0".toList)]] ∧
    (readBrackets { disco := true } "(S(A 1))\tx\n".toList).toOption.map
      (·.map fun x => x.2.leaves.map fun l => (l.num, l.fields.word)) = some [[(1, some "x".toList)]] ∧
    noYield { disco := true } {} (TT.Lemmas.Layout.lexFlushed "(S(A 1)".toList ++ [([')'], LexClass.rrb)]) = false := by
  refine ⟨by decide +kernel, by decide +kernel, by decide +kernel⟩

end TT.Props.C01Disco3
