/-
  C12 (wave 19), clause 8: from "same parent map and same node contents" to "same tree up to sibling order".
  `tree_of_parentMap_sigs`: two well-formed trees with distinct uids that have the same parent map and the same node
  signatures (all data fields, kind, token number - `Lemmas.RootAttach.sig`, what `C12.rootAttach_sigs` keeps) are the
  same tree up to the storage order of siblings (`sameTree`).  With `contentKept` (label, word, lemma, morph, edge only)
  in place of the signatures the statement proposed in the audit is FALSE: `cexA`, `cexB` below differ in a head mark.
  Consequence `rootAttach_is_ref`: every well-formed tree that realises the reference parent map `Spec.rootAttachRef t`
  with the nodes of `t` IS `rootAttach t` up to sibling order.
  `tree_of_parentMap_content`: the `contentKept` form, corrected: same parent map + `contentKept a b` (one direction)
  give `sameTree (contentTree a) (contentTree b)`, `contentTree` = the tree with the fields `contentKept` does not look
  at (head, split, headBlock, blockNumber) blanked.  Consequence `rootAttach_is_ref_content`.
-/
import TT.Props.C12Ref
import TT.Lemmas.Binarize
import TT.Lemmas.Sort
import TT.Lemmas.Write
import TT.Lemmas.Punct
import TT.Props.C05Split
namespace TT.Props.C12More2
open TT TT.Tree TT.Spec TT.Lemmas.More12e
open TT.Lemmas.WF (tree_ind mem_subtrees_node self_mem_subtrees)
open TT.Lemmas.RootAttach (sig)

/-! ### the proposed statement with `contentKept` is false -/

def cexA : Tree := node { label := "S".toList, uid := some 0 } [leaf 1 { label := "A".toList, uid := some 1 }]
def cexB : Tree := node { label := "S".toList, uid := some 0 }
  [leaf 1 { label := "A".toList, uid := some 1, head := some true }]

/-- same parent map, contents kept in both directions, both well formed with distinct uids - but not the same tree:
    `contentKept` does not look at the head / split fields -/
example : WF cexA = true ∧ WF cexB = true ∧ uidsOK cexA = true ∧ uidsOK cexB = true ∧
    parentMap none cexA = parentMap none cexB ∧ contentKept cexA cexB = true ∧ contentKept cexB cexA = true ∧
    sameTree cexA cexB = false := by decide

/-! ### the corrected statement -/

theorem nodup_of_map {α β} (g : α → β) {l : List α} (h : (l.map g).Nodup) : l.Nodup :=
  List.Pairwise.of_map g (fun _ _ hne e => hne (congrArg g e)) h

theorem sib_nodup (t : Tree) (h : sibDistinct t = true) (f : Fields) (ks : List Tree)
    (hs : node f ks ∈ subtrees t) : (ks.map leftmost).Nodup := by
  unfold sibDistinct at h
  rw [List.all_eq_true] at h
  have := h _ hs
  exact (TT.Lemmas.Binarize.nodupB_iff _).1 this

/-- the node of `b` with the uid of a node `s` of `a` is `s` up to the order of siblings (below it) -/
theorem node_of_uid (a b : Tree) (ha : UOK a) (hb : UOK b)
    (hsa : sibDistinct a = true) (hsb : sibDistinct b = true)
    (hpm : ∀ e, e ∈ parentMap none a ↔ e ∈ parentMap none b)
    (hsig : ∀ g, g ∈ (subtrees a).map sig ↔ g ∈ (subtrees b).map sig) (s : Tree) :
    s ∈ subtrees a → ∀ s' ∈ subtrees b, s.fields.uid = s'.fields.uid → sortKids s = sortKids s' := by
  induction s using tree_ind with
  | hl n f =>
    intro hs s' hs' hu
    obtain ⟨s2, hs2, h2⟩ := List.mem_map.1 ((hsig _).1 (List.mem_map_of_mem (f := sig) hs))
    obtain ⟨u, hu1⟩ := ha.has _ hs
    have hf : s2.fields = f := congrArg (·.1) h2
    have : s2 = s' := hb.inj _ hs2 _ hs' u (by rw [hf]; exact hu1) (by rw [← hu]; exact hu1)
    subst this
    cases s2 with
    | leaf m g =>
      simp only [sig, fields, isLeaf, num, Prod.mk.injEq] at h2
      obtain ⟨rfl, _, rfl⟩ := h2; rfl
    | node g ls => simp [sig, isLeaf] at h2
  | hn f ks ih =>
    intro hs s' hs' hu
    obtain ⟨s2, hs2, h2⟩ := List.mem_map.1 ((hsig _).1 (List.mem_map_of_mem (f := sig) hs))
    obtain ⟨v, hv⟩ := ha.has _ hs
    have hf : s2.fields = f := congrArg (·.1) h2
    have : s2 = s' := hb.inj _ hs2 _ hs' v (by rw [hf]; exact hv) (by rw [← hu]; exact hv)
    subst this
    cases s2 with
    | leaf m g => simp [sig, isLeaf] at h2
    | node g ls =>
      simp only [fields] at hf hv
      subst hf
      -- children correspond by uid
      have hfw : ∀ k ∈ ks, ∃ l ∈ ls, sortKids k = sortKids l := by
        intro k hk
        have hka : k ∈ subtrees a := subtrees_trans a _ k hs ((mem_subtrees_node _ ks k).2 (Or.inr ⟨k, hk, self_mem_subtrees k⟩))
        obtain ⟨w, hw⟩ := ha.has k hka
        have hm : (w, some v) ∈ parentMap none a :=
          (mem_parentMap (w, some v) a none).2 (Or.inr ⟨_, hs, k, hk, hw, hv.symm⟩)
        rcases (mem_parentMap (w, some v) b none).1 ((hpm _).1 hm) with ⟨_, h⟩ | ⟨s3, hs3, l, hl, hlw, hsv⟩
        · cases h
        · have : s3 = node g ls := hb.inj _ hs3 _ hs2 v hsv.symm hv
          subst this
          have hlb : l ∈ subtrees b := subtrees_trans b _ l hs2 ((mem_subtrees_node _ ls l).2 (Or.inr ⟨l, hl, self_mem_subtrees l⟩))
          exact ⟨l, hl, ih k hk hka l hlb (by rw [hw, hlw])⟩
      have hbw : ∀ l ∈ ls, ∃ k ∈ ks, sortKids k = sortKids l := by
        intro l hl
        have hlb : l ∈ subtrees b := subtrees_trans b _ l hs2 ((mem_subtrees_node _ ls l).2 (Or.inr ⟨l, hl, self_mem_subtrees l⟩))
        obtain ⟨w, hw⟩ := hb.has l hlb
        have hm : (w, some v) ∈ parentMap none b :=
          (mem_parentMap (w, some v) b none).2 (Or.inr ⟨_, hs2, l, hl, hw, hv.symm⟩)
        rcases (mem_parentMap (w, some v) a none).1 ((hpm _).2 hm) with ⟨_, h⟩ | ⟨s3, hs3, k, hk, hkw, hsv⟩
        · cases h
        · have : s3 = node g ks := ha.inj _ hs3 _ hs v hsv.symm hv
          subst this
          have hka : k ∈ subtrees a := subtrees_trans a _ k hs ((mem_subtrees_node _ ks k).2 (Or.inr ⟨k, hk, self_mem_subtrees k⟩))
          exact ⟨k, hk, ih k hk hka l hlb (by rw [hkw, hw])⟩
      have hkey : ∀ xs : List Tree, (xs.map sortKids).map leftmost = xs.map leftmost := by
        intro xs; rw [List.map_map]
        exact List.map_congr_left fun k _ => TT.Lemmas.Binarize.leftmost_sortKids k
      have hn1 : ((ks.map sortKids).map leftmost).Nodup := by rw [hkey]; exact sib_nodup a hsa g ks hs
      have hn2 : ((ls.map sortKids).map leftmost).Nodup := by rw [hkey]; exact sib_nodup b hsb g ls hs2
      have hperm : (ks.map sortKids).Perm (ls.map sortKids) := by
        refine (List.perm_ext_iff_of_nodup (nodup_of_map _ hn1) (nodup_of_map _ hn2)).2 fun x => ?_
        simp only [List.mem_map]
        constructor
        · rintro ⟨k, hk, rfl⟩; obtain ⟨l, hl, e⟩ := hfw k hk; exact ⟨l, hl, e.symm⟩
        · rintro ⟨l, hl, rfl⟩; obtain ⟨k, hk, e⟩ := hbw l hl; exact ⟨k, hk, e⟩
      rw [sortKids, sortKids, TT.Lemmas.Binarize.sortKidsL_eq, TT.Lemmas.Binarize.sortKidsL_eq,
        sortBy_perm_eq leftmost _ _ hperm hn1]

/-- **tree_of_parentMap_sigs** (the corrected `tree_of_parentMap_content`): same parent map and same node signatures
    give the same tree up to sibling order -/
theorem tree_of_parentMap_sigs (a b : Tree) (hwa : WF a = true) (hwb : WF b = true)
    (hua : uidsOK a = true) (hub : uidsOK b = true)
    (hpm : (parentMap none a).Perm (parentMap none b))
    (hsig : ((subtrees a).map sig).Perm ((subtrees b).map sig)) : sameTree a b = true := by
  have ha := UOK.of_uidsOK hua
  have hb := UOK.of_uidsOK hub
  obtain ⟨r, hr⟩ := ha.has a (self_mem_subtrees a)
  have hroot : b.fields.uid = some r := by
    have hm : (r, none) ∈ parentMap none a := (mem_parentMap (r, none) a none).2 (Or.inl ⟨hr, rfl⟩)
    rcases (mem_parentMap (r, none) b none).1 (hpm.mem_iff.1 hm) with ⟨h, _⟩ | ⟨s, hs, _, _, _, h⟩
    · exact h
    · obtain ⟨u, hu⟩ := hb.has s hs
      rw [hu] at h; cases h
  have := node_of_uid a b ha hb (TT.Lemmas.WF.WF_sibDistinct a hwa) (TT.Lemmas.WF.WF_sibDistinct b hwb)
    (fun e => hpm.mem_iff) (fun g => hsig.mem_iff) a (self_mem_subtrees a) b (self_mem_subtrees b) (by rw [hr, hroot])
  unfold sameTree
  rw [this]
  exact TT.Lemmas.Write.beq_refl _

/-- **the result of `root_attach` is the reference, as a tree**: any well-formed tree `x` with distinct uids whose
    parent map is the one the set-based reference computes and whose nodes are those of `t` is `rootAttach t` up to the
    storage order of siblings -/
theorem rootAttach_is_ref (t x : Tree) (h : WF t = true) (hu : uidsOK t = true)
    (hwx : WF x = true) (hux : uidsOK x = true)
    (hpm : (parentMap none x).Perm (rootAttachRef t))
    (hsig : ((subtrees x).map sig).Perm ((subtrees t).map sig)) : sameTree (rootAttach t) x = true := by
  have R := rootAttachRef_reads t h hu
  refine tree_of_parentMap_sigs (rootAttach t) x (C12.rootAttach_WF t h) hwx ?_ hux
    ((C12Ref.rootAttach_eq_ref t h hu).trans hpm.symm) ((C12.rootAttach_sigs t).trans hsig.symm)
  exact UOK.to_uidsOK R.uok

/-! ### the `contentKept` form: equal trees once the fields `contentKept` does not look at are blanked -/

/-- what `contentKept` compares, plus the uid -/
def contentFields (f : Fields) : Fields :=
  { label := f.label, word := f.word, lemma := f.lemma, morph := f.morph, edge := f.edge, uid := f.uid }

/-- the tree with head / split / block fields blanked at every node -/
def contentTree (t : Tree) : Tree := t.mapFields fun _ => contentFields

open TT.Props.C05Split (cf_M cf_M_leaf cf_M_node cf_M_fields cf_M_subtrees cf_M_WF) in
theorem parentMap_cf_M (φ : Fields → Fields) (hφ : ∀ f, (φ f).uid = f.uid) (t : Tree) :
    ∀ par, parentMap par (cf_M φ t) = parentMap par t := by
  induction t using tree_ind with
  | hl n f => intro par; rw [cf_M_leaf, TT.Lemmas.Punct.parentMap_leaf, TT.Lemmas.Punct.parentMap_leaf]; simp [TT.Lemmas.Punct.ownEntry, hφ]
  | hn f ks ih =>
    intro par
    rw [cf_M_node, TT.Lemmas.Punct.parentMap_node, TT.Lemmas.Punct.parentMap_node, TT.Lemmas.Punct.parentMapL_eq,
      TT.Lemmas.Punct.parentMapL_eq, List.flatMap_map, hφ]
    congr 1
    · simp [TT.Lemmas.Punct.ownEntry, hφ]
    · exact TT.Props.C05Split.cf_flatMap_congr fun k hk => ih k hk _

open TT.Props.C05Split (cf_M cf_M_leaf cf_M_node cf_M_fields cf_M_subtrees cf_M_WF) in
theorem uidsOK_cf_M (φ : Fields → Fields) (hφ : ∀ f, (φ f).uid = f.uid) (t : Tree) :
    uidsOK (cf_M φ t) = uidsOK t := by
  simp only [uidsOK, cf_M_subtrees, List.all_map, List.filterMap_map, Function.comp_def, cf_M_fields, hφ]

theorem findUid_some {b : Tree} {u : Nat} {s' : Tree} (h : findUid b u = some s') :
    s' ∈ subtrees b ∧ s'.fields.uid = some u := by
  unfold findUid at h
  exact ⟨List.mem_of_find?_eq_some h, by simpa using List.find?_some h⟩

theorem contentFields_eq (f g : Fields) (hc : content f = content g) (hu : f.uid = g.uid) :
    contentFields f = contentFields g := by
  simp only [content, Prod.mk.injEq] at hc
  obtain ⟨h1, h2, h3, h4, h5⟩ := hc
  simp [contentFields, h1, h2, h3, h4, h5, hu]

open TT.Props.C05Split (cf_M cf_M_leaf cf_M_node cf_M_fields cf_M_subtrees cf_M_WF) in
theorem sig_cf_M (φ : Fields → Fields) (s : Tree) : sig (cf_M φ s) = (φ s.fields, s.isLeaf, s.num) := by
  cases s <;> simp [sig, cf_M_leaf, cf_M_node, fields, isLeaf, num]

/-- what `contentKept a b` says of one node of `a` -/
theorem contentKept_node (a b : Tree) (h : contentKept a b = true) (s : Tree) (hs : s ∈ subtrees a) (u : Nat)
    (hu : s.fields.uid = some u) :
    ∃ s' ∈ subtrees b, s'.fields.uid = some u ∧ content s.fields = content s'.fields ∧ s.isLeaf = s'.isLeaf ∧
      s.num = s'.num := by
  unfold contentKept at h
  rw [List.all_eq_true] at h
  have h1 := h s hs
  rw [hu] at h1
  simp only at h1
  cases hf : findUid b u with
  | none => rw [hf] at h1; cases h1
  | some s' =>
    rw [hf] at h1
    simp only [Bool.and_eq_true, beq_iff_eq, decide_eq_true_eq] at h1
    obtain ⟨⟨hc, hl⟩, hn⟩ := h1
    obtain ⟨hm, hu'⟩ := findUid_some hf
    refine ⟨s', hm, hu', hc, hl, ?_⟩
    cases s with
    | leaf n f => exact hn rfl
    | node f ks =>
      cases s' with
      | leaf m g => simp [isLeaf] at hl
      | node g ls => rfl

open TT.Props.C05Split (cf_M cf_M_leaf cf_M_node cf_M_fields cf_M_subtrees cf_M_WF) in
/-- **tree_of_parentMap_content**: same parent map and node contents kept (label, word, lemma, morphology, edge, kind,
    token number per uid - `contentKept`, in ONE direction) give the same tree up to sibling order, on the fields that
    `contentKept` looks at -/
theorem tree_of_parentMap_content (a b : Tree) (hwa : WF a = true) (hwb : WF b = true)
    (hua : uidsOK a = true) (hub : uidsOK b = true)
    (hpm : (parentMap none a).Perm (parentMap none b)) (hc : contentKept a b = true) :
    sameTree (contentTree a) (contentTree b) = true := by
  have hφ : ∀ f, (contentFields f).uid = f.uid := fun _ => rfl
  have ha := UOK.of_uidsOK hua
  have hb := UOK.of_uidsOK hub
  have ha' : UOK (cf_M contentFields a) := UOK.of_uidsOK (by rw [uidsOK_cf_M _ hφ]; exact hua)
  have hb' : UOK (cf_M contentFields b) := UOK.of_uidsOK (by rw [uidsOK_cf_M _ hφ]; exact hub)
  -- every node of `a` has its partner in `b`, and conversely
  have hfw : ∀ s ∈ subtrees a, ∃ s' ∈ subtrees b, sig (cf_M contentFields s) = sig (cf_M contentFields s') := by
    intro s hs
    obtain ⟨u, hu⟩ := ha.has s hs
    obtain ⟨s', hs', hu', hcc, hl, hn⟩ := contentKept_node a b hc s hs u hu
    refine ⟨s', hs', ?_⟩
    rw [sig_cf_M, sig_cf_M, contentFields_eq _ _ hcc (by rw [hu, hu']), hl, hn]
  have hbw : ∀ s' ∈ subtrees b, ∃ s ∈ subtrees a, sig (cf_M contentFields s) = sig (cf_M contentFields s') := by
    intro s' hs'
    obtain ⟨u, hu'⟩ := hb.has s' hs'
    have hk : u ∈ (subtrees a).filterMap (·.fields.uid) := by
      rw [← TT.Lemmas.RootAttach.parentMap_keys none a]
      refine (hpm.map (·.1)).mem_iff.2 ?_
      rw [TT.Lemmas.RootAttach.parentMap_keys none b]
      exact List.mem_filterMap.2 ⟨s', hs', hu'⟩
    obtain ⟨s, hs, hu⟩ := List.mem_filterMap.1 hk
    obtain ⟨s2, hs2, hu2, hcc, hl, hn⟩ := contentKept_node a b hc s hs u hu
    have : s2 = s' := hb.inj _ hs2 _ hs' u hu2 hu'
    subst this
    refine ⟨s, hs, ?_⟩
    rw [sig_cf_M, sig_cf_M, contentFields_eq _ _ hcc (by rw [hu, hu2]), hl, hn]
  have hsig : ∀ g, g ∈ (subtrees (cf_M contentFields a)).map sig ↔ g ∈ (subtrees (cf_M contentFields b)).map sig := by
    intro g
    simp only [cf_M_subtrees, List.mem_map]
    constructor
    · rintro ⟨_, ⟨s, hs, rfl⟩, rfl⟩
      obtain ⟨s', hs', e⟩ := hfw s hs
      exact ⟨_, ⟨s', hs', rfl⟩, e.symm⟩
    · rintro ⟨_, ⟨s', hs', rfl⟩, rfl⟩
      obtain ⟨s, hs, e⟩ := hbw s' hs'
      exact ⟨_, ⟨s, hs, rfl⟩, e⟩
  obtain ⟨r, hr⟩ := ha.has a (self_mem_subtrees a)
  have hroot : b.fields.uid = some r := by
    have hm : (r, none) ∈ parentMap none a := (mem_parentMap (r, none) a none).2 (Or.inl ⟨hr, rfl⟩)
    rcases (mem_parentMap (r, none) b none).1 (hpm.mem_iff.1 hm) with ⟨h, _⟩ | ⟨s, hs, _, _, _, h⟩
    · exact h
    · obtain ⟨u, hu⟩ := hb.has s hs
      rw [hu] at h; cases h
  have := node_of_uid (cf_M contentFields a) (cf_M contentFields b) ha' hb'
    (TT.Lemmas.WF.WF_sibDistinct _ (cf_M_WF _ a hwa)) (TT.Lemmas.WF.WF_sibDistinct _ (cf_M_WF _ b hwb))
    (fun e => by rw [parentMap_cf_M _ hφ, parentMap_cf_M _ hφ]; exact hpm.mem_iff) hsig
    _ (self_mem_subtrees _) _ (self_mem_subtrees _) (by rw [cf_M_fields, cf_M_fields, hφ, hφ, hr, hroot])
  unfold sameTree contentTree
  show Tree.beq (sortKids (cf_M contentFields a)) (sortKids (cf_M contentFields b)) = true
  rw [this]
  exact TT.Lemmas.Write.beq_refl _

/-- the counterexample pair of the top of the file meets the hypotheses, and the blanked trees are indeed the same -/
example : sameTree (contentTree cexA) (contentTree cexB) = true :=
  tree_of_parentMap_content cexA cexB (by decide) (by decide) (by decide) (by decide) (by decide) (by decide)

/-- C12, clause 8 read on trees: the result of `root_attach` and any tree `x` that carries the reference's parent map
    and keeps the node contents of the result are the same tree up to sibling order (on the compared fields) -/
theorem rootAttach_is_ref_content (t x : Tree) (h : WF t = true) (hu : uidsOK t = true)
    (hwx : WF x = true) (hux : uidsOK x = true)
    (hpm : (parentMap none x).Perm (rootAttachRef t)) (hc : contentKept (rootAttach t) x = true) :
    sameTree (contentTree (rootAttach t)) (contentTree x) = true :=
  tree_of_parentMap_content (rootAttach t) x (C12.rootAttach_WF t h) hwx
    (UOK.to_uidsOK (rootAttachRef_reads t h hu).uok) hux
    ((C12Ref.rootAttach_eq_ref t h hu).trans hpm.symm) hc

/-! ### instance: `C12Ref.exRun` and its result with the root's children stored in reverse order -/

/-- `rootAttach exRun` with the children of the root reversed: another tree, the same up to sibling order -/
def exX : Tree :=
  match rootAttach C12Ref.exRun with
  | node f ks => node f ks.reverse
  | y => y

example : WF exX = true ∧ uidsOK exX = true ∧ Tree.beq exX (rootAttach C12Ref.exRun) = false := by decide +kernel

/-- the hypotheses of `rootAttach_is_ref` hold of `exX` ... -/
theorem exX_hyps : (parentMap none exX).Perm (rootAttachRef C12Ref.exRun) ∧
    ((subtrees exX).map sig).Perm ((subtrees C12Ref.exRun).map sig) := by
  constructor <;> exact List.isPerm_iff.1 (by decide +kernel)

example : contentKept (rootAttach C12Ref.exRun) exX = true := by decide +kernel
example : sameTree (contentTree (rootAttach C12Ref.exRun)) (contentTree exX) = true :=
  rootAttach_is_ref_content C12Ref.exRun exX (by decide +kernel) (by decide +kernel) (by decide +kernel)
    (by decide +kernel) exX_hyps.1 (by decide +kernel)

/-- ... and so it is the result up to sibling order -/
example : sameTree (rootAttach C12Ref.exRun) exX = true :=
  rootAttach_is_ref C12Ref.exRun exX (by decide +kernel) (by decide +kernel) (by decide +kernel) (by decide +kernel)
    exX_hyps.1 exX_hyps.2

end TT.Props.C12More2
