/-
  C02 (wave 19), row 8 of the audit: label decorations for a written bracket line against `Spec.decorations`.
  `decBrackets_writeBrackets` states the recovered tree as `carryBrackets o true t`, whose labels are the model's own
  `printedLabel` (= `getLabel`).  Here the expectation is `bracketContent o true t`: every label is the plain label
  followed by the SPECIFIED decorations (function + separator exactly on the nodes it applies to, head mark, split mark,
  block number); tokens after the documented parenthesis mapping; the root's label void under `emptyRoot`.
-/
import TT.Props.C02Disco
namespace TT.Props.C02Decor
open TT TT.Tree TT.Spec
open TT.Lemmas.Write TT.Lemmas.WF TT.Lemmas.More12i TT.Props.C02Disco

mutual
/-- what a bracket line holds: label = plain label ++ specified decorations, words; parentheses inside tokens mapped
    (`replaceParens`, for a token also inside the function label that is shown); root label void under `emptyRoot` -/
def bracketContent (o : OutOpts) (root : Bool) : Tree → Tree
  | leaf n f => leaf n { label := replaceParens f.label ++ decorations o (leaf n (replaceParensFields f)),
                         word := f.word.map replaceParens }
  | node f ks => node { label := if root && o.emptyRoot then [] else f.label ++ decorations o (node f ks) }
      (bracketContentL o ks)
def bracketContentL (o : OutOpts) : List Tree → List Tree
  | [] => []
  | t :: ts => bracketContent o false t :: bracketContentL o ts
end

theorem bracketContentL_eq (o : OutOpts) : ∀ ks : List Tree, bracketContentL o ks = ks.map (bracketContent o false)
  | [] => rfl
  | t :: ts => by simp [bracketContentL, bracketContentL_eq o ts]

theorem printedLabel_decor' (o : OutOpts) (s : Tree) (l : Str) (h : getLabel o s = .ok l) :
    printedLabel o s = s.fields.label ++ decorations o s :=
  printedLabel_decor o s ⟨l, by rw [getLabel_setEdge]; exact h⟩

/-- where the bracket writer succeeds, what it carries is the specified content -/
theorem carryBrackets_eq_content (o : OutOpts) (t : Tree) : ∀ (root : Bool), t.noEmpty = true →
    (∃ s, bracketsSub o (root && o.emptyRoot) t = .ok s) → carryBrackets o root t = bracketContent o root t := by
  induction t using tree_ind with
  | hl n f =>
    intro root _ ⟨s, hs⟩
    obtain ⟨l, hl, _⟩ := bracketsSub_leaf_ok o _ n f s hs
    rw [carryBrackets, bracketContent, printedLabel_decor' o _ l hl]
    rfl
  | hn f ks ih =>
    intro root hne ⟨s, hs⟩
    obtain ⟨hks, hkne⟩ := (noEmpty_node f ks).1 hne
    have hemp : ks.isEmpty = false := by simpa using hks
    rw [carryBrackets, bracketContent, carryBracketsL_eq, bracketContentL_eq]
    rw [bracketsSub] at hs
    simp only [hemp, Bool.false_eq_true, if_false] at hs
    cases hk : bracketsKids o ks with
    | error e =>
      rw [hk] at hs
      split at hs <;> simp_all
    | ok parts =>
      have hkids : ks.map (carryBrackets o false) = ks.map (bracketContent o false) :=
        List.map_congr_left fun k hk' =>
          ih k hk' false (hkne k hk') (by simpa using (bracketsKids_ok o ks parts hk).2 k hk')
      rw [hkids]
      by_cases her : (root && o.emptyRoot) = true
      · simp only [her, if_true]
      · simp only [her, Bool.false_eq_true, if_false] at hs ⊢
        cases hg : getLabel o (node f ks) with
        | error e => rw [hg, hk] at hs; cases hs
        | ok l => rw [printedLabel_decor' o _ l hg]; rfl

/-- **decBrackets_write_decor**: the independent bracket decoder recovers, from the line written by the top-level
    bracket writer under ANY option record, the tree whose labels are the plain labels followed by the specified
    decorations.  Hypotheses: those of `decBrackets_writeBrackets`. -/
theorem decBrackets_write_decor (o : OutOpts) (t : Tree) (s : Str) (hwf : WF t = true)
    (h : writeBrackets o t = .ok (some s)) (hlab : BracketLabels o t)
    (hw : ∀ x ∈ t.subtrees, x.isLeaf = true → x.fields.word.isSome = true) :
    ∃ d, decBrackets s = some d ∧ sameTree d (bracketContent o true t) = true := by
  obtain ⟨d, hd, hsame⟩ := decBrackets_writeBrackets o t s hwf h hlab hw
  refine ⟨d, hd, ?_⟩
  rw [← carryBrackets_eq_content o t true (WF_noEmpty t hwf) ⟨s, by simpa using (writeBrackets_some o t s h).2⟩]
  exact hsame

/-- the same from the success of the discobracket writer, which runs the bracket writer on the tree with the words
    replaced by the token numbers (labels do not depend on words) -/
theorem carryBrackets_eq_content_nums (o : OutOpts) (t : Tree) : ∀ (root : Bool), t.noEmpty = true →
    (∃ s, bracketsSub o (root && o.emptyRoot) (wordsToNums t) = .ok s) →
    carryBrackets o root t = bracketContent o root t := by
  induction t using tree_ind with
  | hl n f =>
    intro root _ ⟨s, hs⟩
    obtain ⟨l, hl, _⟩ := bracketsSub_leaf_ok o _ n _ s hs
    have hl' : getLabel o (leaf n (replaceParensFields f)) = .ok l := hl
    rw [carryBrackets, bracketContent, printedLabel_decor' o _ l hl']
    rfl
  | hn f ks ih =>
    intro root hne ⟨s, hs⟩
    obtain ⟨hks, hkne⟩ := (noEmpty_node f ks).1 hne
    have hemp : (ks.map wordsToNums).isEmpty = false := by simpa using hks
    rw [carryBrackets, bracketContent, carryBracketsL_eq, bracketContentL_eq]
    rw [wordsToNums_node, bracketsSub] at hs
    simp only [hemp, Bool.false_eq_true, if_false] at hs
    cases hk : bracketsKids o (ks.map wordsToNums) with
    | error e =>
      rw [hk] at hs
      split at hs <;> simp_all
    | ok parts =>
      have hkids : ks.map (carryBrackets o false) = ks.map (bracketContent o false) :=
        List.map_congr_left fun k hk' =>
          ih k hk' false (hkne k hk') (by
            simpa using (bracketsKids_ok o _ parts hk).2 (wordsToNums k) (List.mem_map_of_mem hk'))
      rw [hkids]
      by_cases her : (root && o.emptyRoot) = true
      · simp only [her, if_true]
      · simp only [her, Bool.false_eq_true, if_false] at hs ⊢
        cases hg : getLabel o (node f (ks.map wordsToNums)) with
        | error e => rw [hg, hk] at hs; cases hs
        | ok l =>
          have hg' : getLabel o (node f ks) = .ok l := by
            rw [← hg]
            cases ks with
            | nil => exact absurd rfl hks
            | cons a as => rfl
          rw [printedLabel_decor' o _ l hg']; rfl

/-- **decDisco_write_decor**: the same for a written discobracket line (tree part + sentence); hypotheses those of
    `decDisco_write`, no continuity hypothesis. -/
theorem decDisco_write_decor (o : OutOpts) (t : Tree) (s : Str) (hwf : WF t = true) (h : writeDisco o t = .ok s)
    (hlab : DiscoLabels o t)
    (hw : ∀ x ∈ t.subtrees, x.isLeaf = true → x.fields.word.isSome = true)
    (hwd : ∀ x ∈ t.subtrees, x.isLeaf = true → ∀ c ∈ x.fields.word.getD [], c ≠ ' ' ∧ c ≠ '\t') :
    ∃ d, decDisco s = some d ∧ sameTree d (fixWords t (bracketContent o true t)) = true := by
  obtain ⟨d, hd, hsame⟩ := decDisco_write o t s hwf h hlab hw hwd
  obtain ⟨tr, htr, _⟩ := writeDisco_ok o t s h
  refine ⟨d, hd, ?_⟩
  rw [← carryBrackets_eq_content_nums o t true (WF_noEmpty t hwf) ⟨tr, by simpa using htr⟩]
  exact hsame

/-! ### instances: a variant of `exDecor` of `C02Disco` with a parenthesis inside a token; `exDecor` itself -/

/-- `(S (VP*1 (A' a)) (B' b) (VP*2 (C c)))` with functions, head marks, split marks and numbers -/
def exDecorC : Tree := node { label := "S".toList, head := some false, split := some false }
  [leaf 2 { label := "B".toList, word := some "(b".toList, edge := some "HD".toList, head := some true, split := some false },
   node { label := "VP".toList, edge := some "OC".toList, head := some false, split := some true, blockNumber := some 1 }
     [leaf 1 { label := "A".toList, word := some "a".toList, edge := some "-x".toList, head := some true, split := some false }],
   node { label := "VP".toList, edge := some "OC".toList, head := some false, split := some true, blockNumber := some 2 }
     [leaf 3 { label := "C".toList, word := some "c".toList, head := some false, split := some false }]]

example : writeBrackets exDecorOpts exDecorC = .ok (some "(S(VP:OC*1(A' a))(B' LRBb)(VP:OC*2(C c)))".toList) := by
  decide +kernel
example : Tree.beq (bracketContent exDecorOpts true exDecorC)
    (node { label := "S".toList }
      [leaf 2 { label := "B'".toList, word := some "LRBb".toList },
       node { label := "VP:OC*1".toList } [leaf 1 { label := "A'".toList, word := some "a".toList }],
       node { label := "VP:OC*2".toList } [leaf 3 { label := "C".toList, word := some "c".toList }]]) = true := by
  decide +kernel
example : ∃ d, decBrackets "(S(VP:OC*1(A' a))(B' LRBb)(VP:OC*2(C c)))".toList = some d ∧
    sameTree d (bracketContent exDecorOpts true exDecorC) = true :=
  decBrackets_write_decor exDecorOpts exDecorC _ (by decide +kernel) (by decide +kernel) (by decide +kernel)
    (by decide +kernel)

/-- `exDecor` of `C02Disco` (children stored out of order), written as a discobracket line -/
example : writeDisco exDecorOpts exDecor = .ok "(S(VP:OC*1(A' 1))(B' 2)(VP:OC*2(C 3)))\ta b c".toList := by
  decide +kernel
example : ∃ d, decDisco "(S(VP:OC*1(A' 1))(B' 2)(VP:OC*2(C 3)))\ta b c".toList = some d ∧
    sameTree d (fixWords exDecor (bracketContent exDecorOpts true exDecor)) = true :=
  decDisco_write_decor exDecorOpts exDecor _ (by decide +kernel) (by decide +kernel) (by decide +kernel)
    (by decide +kernel) (by decide +kernel)

end TT.Props.C02Decor
