/-
  C02/C03 — export whole-file round trips.

  Proved exactly as stated: `writeExport_body`, `writeExport_lines_decode`.
  FALSE as stated (formal refutations `decExport_write_false`, `readExport_write_false`; corrected versions proved;
  see the note at the end of the file):
  * `decExport_write`  — corrected: `decExport_write'`  (extra hypothesis `hN : t.leafNums.length < 500`);
  * `readExport_write` — corrected: `readExport_write'` (extra hypotheses `hN` and `hE`: no token word starts with `#EOS`).
  Further named results: `writeExport_body_paths`, `writeExport_lines_decode_entry`, `writeExport_body_decode`,
  `decExport_eq_decBody`, `writeExport_total`, `decExport_fails_flat`.
  The proof pieces live in `TT/Lemmas/ExportRT.lean` (`writeExport_shape`, `tokPaths_nums`, `consPaths_nums`, `decode_lineAt`,
  `buildExp_sub`, `decBody_write`, `exportBuild_sub`, `exportSentence_write`, `readExport_frame`, ...).
-/
import TT.Lemmas.ExportRT
namespace TT.Props.C02Export
open TT TT.Tree TT.Spec
open TT.Lemmas.ExportRT TT.Lemmas.Write TT.Lemmas.GramOut TT.Lemmas.WF TT.Lemmas.Nav

/-- equality of writer results is decidable (used by the concrete instances below only) -/
local instance instDecEqExcept {ε α} [DecidableEq ε] [DecidableEq α] : DecidableEq (Except ε α)
  | .ok a, .ok b => decidable_of_iff (a = b) (by simp)
  | .error a, .error b => decidable_of_iff (a = b) (by simp)
  | .ok _, .error _ => isFalse (by simp)
  | .error _, .ok _ => isFalse (by simp)

/-- `(S (VP (A a) (C c)) (B b))` with tokens a=1, b=2, c=3 (discontinuous), children of `S` stored out of order -/
def exT : Tree := node { label := "S".toList } [leaf 2 { label := "B".toList, word := some "b".toList },
  node { label := "VP".toList } [leaf 1 { label := "A".toList, word := some "a".toList }, leaf 3 { label := "C".toList, word := some "c".toList }]]

def exLines : List Str := ["#BOS 7".toList, "a\t\t\tA\t--\t\t--\t500".toList, "b\t\t\tB\t--\t\t--\t0".toList,
    "c\t\t\tC\t--\t\t--\t500".toList, "#500\t\t\tVP\t--\t\t--\t0".toList, "#EOS 7".toList]

theorem exT_write : writeExport {} 7 exT = .ok exLines := by decide +kernel
theorem exT_WF : WF exT = true := by decide +kernel
theorem exT_ok : ExportOK {} exT = true := by decide +kernel

/-! ### the body of the written sentence -/

/-- the body of the written sentence: one line per non-root node; token lines first in sentence order, then constituent lines by number -/
theorem writeExport_body (o : OutOpts) (sid : Nat) (t : Tree) (ls : List Str) (h : writeExport o sid t = .ok ls) (hwf : WF t = true) :
    ∃ toks cons, ls = ["#BOS ".toList ++ natToStr sid] ++ toks ++ cons ++ ["#EOS ".toList ++ natToStr sid] ∧
      toks.length = t.leafNums.length ∧ cons.length + 1 = (t.subtrees.filter fun s => !s.isLeaf).length := by
  obtain ⟨hls, _⟩ := writeExport_shape o sid t ls h
  refine ⟨(tokPaths t).map (lineAt o t), (consPaths t).map (lineAt o t), hls, ?_, ?_⟩
  · rw [List.length_map, tokPaths_length t hwf]
  · rw [List.length_map, consPaths_length t hwf]

example : ∃ toks cons, exLines = ["#BOS ".toList ++ natToStr 7] ++ toks ++ cons ++ ["#EOS ".toList ++ natToStr 7] ∧
      toks.length = exT.leafNums.length ∧ cons.length + 1 = (exT.subtrees.filter fun s => !s.isLeaf).length :=
  writeExport_body {} 7 exT _ exT_write exT_WF

/-- the body, named: the lines are those of `tokPaths t` followed by those of `consPaths t` -/
theorem writeExport_body_paths (o : OutOpts) (sid : Nat) (t : Tree) (ls : List Str) (h : writeExport o sid t = .ok ls) :
    (ls.drop 1).dropLast = (tokPaths t ++ consPaths t).map (lineAt o t) := by
  obtain ⟨hls, _⟩ := writeExport_shape o sid t ls h
  rw [hls]; simp

/-! ### every line decodes -/

/-- every line of the body decodes to the fields of its node (`entry o t p`) -/
theorem writeExport_lines_decode_entry (o : OutOpts) (sid : Nat) (t : Tree) (ls : List Str) (h : writeExport o sid t = .ok ls)
    (hwf : WF t = true) (hok : ExportOK o t = true) :
    ∀ p ∈ tokPaths t ++ consPaths t, decExpLine o.exportFour (lineAt o t p) = some (entry o t p) := by
  obtain ⟨_, hlines⟩ := writeExport_shape o sid t ls h
  intro p hp
  obtain ⟨hp1, hp2⟩ := (mem_tok_cons t p).1 hp
  obtain ⟨l, hl⟩ := hlines p ((mem_nonRoot t p).2 ⟨hp1, hp2⟩)
  exact decode_lineAt o t p l (WF_noEmpty t hwf) hok hp1 hl

/-- every line of the body decodes to the fields of its node -/
theorem writeExport_lines_decode (o : OutOpts) (sid : Nat) (t : Tree) (ls : List Str) (h : writeExport o sid t = .ok ls)
    (hwf : WF t = true) (hok : ExportOK o t = true) :
    ∀ l ∈ (ls.drop 1).dropLast, (decExpLine o.exportFour l).isSome = true := by
  intro l hl
  rw [writeExport_body_paths o sid t ls h] at hl
  obtain ⟨p, hp, rfl⟩ := List.mem_map.1 hl
  rw [writeExport_lines_decode_entry o sid t ls h hwf hok p hp]; rfl

example : ∀ l ∈ (exLines.drop 1).dropLast, (decExpLine false l).isSome = true :=
  writeExport_lines_decode {} 7 exT _ exT_write exT_WF exT_ok

/-- the whole body decodes to `bodyOf o t` -/
theorem writeExport_body_decode (o : OutOpts) (sid : Nat) (t : Tree) (ls : List Str) (h : writeExport o sid t = .ok ls)
    (hwf : WF t = true) (hok : ExportOK o t = true) :
    ((ls.drop 1).dropLast).mapM (decExpLine o.exportFour) = some (bodyOf o t) := by
  rw [writeExport_body_paths o sid t ls h]
  unfold bodyOf
  rw [← List.map_append]
  exact mapM_option_map _ _ _ _ (writeExport_lines_decode_entry o sid t ls h hwf hok)

/-! ### the specification decoder -/

/-- after the frame and the lines, the decoder works on the decoded body -/
theorem decExport_eq_decBody (o : OutOpts) (sid : Nat) (t : Tree) (ls : List Str) (h : writeExport o sid t = .ok ls)
    (hwf : WF t = true) (hok : ExportOK o t = true) : decExport o.exportFour ls = decBody sid (bodyOf o t) := by
  have hbody := writeExport_body_decode o sid t ls h hwf hok
  obtain ⟨hls, _⟩ := writeExport_shape o sid t ls h
  have hmid : (ls.drop 1).dropLast = (tokPaths t).map (lineAt o t) ++ (consPaths t).map (lineAt o t) := by
    rw [writeExport_body_paths o sid t ls h, List.map_append]
  rw [hmid] at hbody
  rw [hls, List.append_assoc ["#BOS ".toList ++ natToStr sid]]
  exact decExport_frame o.exportFour sid _ _ hbody

/-- CORRECTED `decExport_write`: one hypothesis is added (`hN`: fewer than 500 tokens, the decoder reads the numbers
    1..499 as tokens and 500.. as constituents); without it the statement is false (see the note at the end).
    MAIN: the specification decoder recovers sentence id, tokens, labels, edges and dominance from what the writer wrote, and the
    numbering clauses of the property hold (tokens first, constituents numbered uniquely from 500, parents resolve, children below parents) -/
theorem decExport_write' (o : OutOpts) (sid : Nat) (t : Tree) (ls : List Str) (h : writeExport o sid t = .ok ls)
    (hwf : WF t = true) (hok : ExportOK o t = true) (hN : t.leafNums.length < 500) :
    ∃ s, decExport o.exportFour ls = some s ∧ s.sid = sid ∧ sameTree s.tree (carryExportRoot o t) = true ∧
      s.tokensFirst = true ∧ s.numbersFrom500 = true ∧ s.parentsResolve = true ∧ s.childBelowParent = true := by
  have hdec := decExport_eq_decBody o sid t ls h hwf hok
  obtain ⟨s, hs, h1, h2, h3⟩ := decBody_write o sid t hwf hok hN
  refine ⟨s, by rw [hdec, hs], h1, ?_, h3⟩
  unfold sameTree
  rw [h2]; exact beq_refl _

example : ∃ s, decExport false exLines = some s ∧ s.sid = 7 ∧ sameTree s.tree (carryExportRoot {} exT) = true ∧
      s.tokensFirst = true ∧ s.numbersFrom500 = true ∧ s.parentsResolve = true ∧ s.childBelowParent = true :=
  decExport_write' {} 7 exT _ exT_write exT_WF exT_ok (by decide +kernel)

/-! ### the tool's own reader (C03) -/

/-- CORRECTED `readExport_write`: two hypotheses are added; without each of them the statement is false (see the note at the end).
    `hN`: fewer than 500 tokens (the reader keeps tokens and constituents in one table keyed by number);
    `hE`: no token is written with a word that starts with `#EOS` (the reader ends the sentence at such a line).
    Own round trip (C03): the tool's own export reader accepts what its writer produced and delivers the same content
    (the word slot of a constituent holds "#5xx" in the reader's result and is not content) -/
theorem readExport_write' (sid : Nat) (t : Tree) (ls : List Str) (h : writeExport {} sid t = .ok ls)
    (hwf : WF t = true) (hok : ExportOK {} t = true) (hN : t.leafNums.length < 500)
    (hE : ∀ s ∈ t.subtrees, s.isLeaf = true → "#EOS".toList.isPrefixOf (s.fields.word.getD []) = false) :
    ∃ r, readExport {} ((ls.map (· ++ ['\n'])).flatten) = .ok [(sid, r)] ∧
      sameTree (Tree.mapFields (fun s f => match s with | .node _ _ => { f with word := none } | _ => f) r)
               (Tree.mapFields (fun s f => match s with | .node _ _ => { f with word := none } | _ => f) (carryExportRoot {} t)) = true := by
  have hne := WF_noEmpty t hwf
  obtain ⟨hls, hlines⟩ := writeExport_shape {} sid t ls h
  have hdec := writeExport_lines_decode_entry {} sid t ls h hwf hok
  obtain ⟨r, hr, hnf⟩ := exportSentence_write t hwf hok hN hdec
  have hbody : ∀ l ∈ (tokPaths t ++ consPaths t).map (lineAt {} t),
      '\n' ∉ l ∧ strip l = l ∧ "#EOS".toList.isPrefixOf l = false := by
    intro l hl
    obtain ⟨p, hp, rfl⟩ := List.mem_map.1 hl
    obtain ⟨hp1, hp2⟩ := (mem_tok_cons t p).1 hp
    obtain ⟨l', hl'⟩ := hlines p ((mem_nonRoot t p).2 ⟨hp1, hp2⟩)
    refine lineAt_loop_ok t p l' hne hok hp1 hl' ?_
    unfold wordOf
    split
    · rename_i hk
      rw [kids_isEmpty_eq_isLeaf _ (noEmpty_subAt t p hne hp1)] at hk
      exact hE _ (mem_subtrees_subAt t p hp1) hk
    · exact eos_not_prefix_hash _
  refine ⟨r, ?_, ?_⟩
  · rw [hls, List.append_assoc ["#BOS ".toList ++ natToStr sid], ← List.map_append]
    exact readExport_frame sid _ r hbody hr
  · unfold sameTree
    show Tree.beq (nf r) (nf (carryExportRoot {} t)) = true
    rw [hnf]; exact beq_refl _

example : ∃ r, readExport {} ((exLines.map (· ++ ['\n'])).flatten) = .ok [(7, r)] ∧
      sameTree (Tree.mapFields (fun s f => match s with | .node _ _ => { f with word := none } | _ => f) r)
               (Tree.mapFields (fun s f => match s with | .node _ _ => { f with word := none } | _ => f) (carryExportRoot {} exT)) = true :=
  readExport_write' 7 exT _ exT_write exT_WF exT_ok (by decide +kernel) (by decide +kernel)

/-! ### the statements of the brief that are false as given -/

/-- the writer succeeds on every tree the format can represent -/
theorem writeExport_total (o : OutOpts) (sid : Nat) (t : Tree) (hok : ExportOK o t = true) : ∃ ls, writeExport o sid t = .ok ls :=
  TT.Lemmas.ExportRT.writeExport_total o sid t hok

/-- 500 (or more) tokens directly below the root: the writer writes the sentence, the decoder rejects it
    (token 500 is looked up as a constituent) -/
theorem decExport_fails_flat (o : OutOpts) (sid : Nat) (t : Tree) (ls : List Str) (h : writeExport o sid t = .ok ls)
    (hwf : WF t = true) (hok : ExportOK o t = true)
    (hflat : (t.subtrees.filter fun s => !s.isLeaf).length = 1) (hN : 500 ≤ t.leafNums.length) :
    decExport o.exportFour ls = none := by
  rw [decExport_eq_decBody o sid t ls h hwf hok]
  exact decBody_fails_flat o sid t hwf hok hflat hN

/-- COUNTEREXAMPLE tree for `decExport_write`: `(S (A a) … (A a))` with 500 tokens -/
def flat (n : Nat) : Tree :=
  node { label := "S".toList } ((List.range n).map fun i => leaf (i + 1) { label := "A".toList, word := some "a".toList })

theorem flat500_WF : WF (flat 500) = true := by decide +kernel
theorem flat500_ok : ExportOK {} (flat 500) = true := by decide +kernel
theorem flat500_cons : ((flat 500).subtrees.filter fun s => !s.isLeaf).length = 1 := by decide +kernel
theorem flat500_len : (flat 500).leafNums.length = 500 := by decide +kernel

/-- `decExport_write` as stated in the brief is FALSE -/
theorem decExport_write_false :
    ¬ (∀ (o : OutOpts) (sid : Nat) (t : Tree) (ls : List Str), writeExport o sid t = .ok ls → WF t = true → ExportOK o t = true →
      ∃ s, decExport o.exportFour ls = some s ∧ s.sid = sid ∧ sameTree s.tree (carryExportRoot o t) = true ∧
        s.tokensFirst = true ∧ s.numbersFrom500 = true ∧ s.parentsResolve = true ∧ s.childBelowParent = true) := by
  intro H
  obtain ⟨ls, hls⟩ := writeExport_total {} 7 (flat 500) flat500_ok
  obtain ⟨s, hs, _⟩ := H {} 7 (flat 500) ls hls flat500_WF flat500_ok
  rw [decExport_fails_flat {} 7 (flat 500) ls hls flat500_WF flat500_ok flat500_cons (by rw [flat500_len]; exact Nat.le_refl _)] at hs
  cases hs

/-- COUNTEREXAMPLE tree for `readExport_write`: one token whose word is `#EOS` -/
def eosT : Tree := node { label := "S".toList } [leaf 1 { label := "A".toList, word := some "#EOS".toList }]
def eosLines : List Str := ["#BOS 7".toList, "#EOS\t\t\tA\t--\t\t--\t0".toList, "#EOS 7".toList]

theorem eosT_write : writeExport {} 7 eosT = .ok eosLines := by decide +kernel
theorem eosT_WF : WF eosT = true := by decide +kernel
theorem eosT_ok : ExportOK {} eosT = true := by decide +kernel

/-- the conclusion of `readExport_write`, as a test -/
def rtCheck (sid : Nat) (t : Tree) (ls : List Str) : Bool :=
  match readExport {} ((ls.map (· ++ ['\n'])).flatten) with
  | .ok [(i, r)] => i == sid &&
      sameTree (Tree.mapFields (fun s f => match s with | .node _ _ => { f with word := none } | _ => f) r)
               (Tree.mapFields (fun s f => match s with | .node _ _ => { f with word := none } | _ => f) (carryExportRoot {} t))
  | _ => false

/-- the reader takes the token line `#EOS …` for the end of the sentence and delivers an empty tree -/
theorem eosT_check : rtCheck 7 eosT eosLines = false := by decide +kernel

/-- `readExport_write` as stated in the brief is FALSE -/
theorem readExport_write_false :
    ¬ (∀ (sid : Nat) (t : Tree) (ls : List Str), writeExport {} sid t = .ok ls → WF t = true → ExportOK {} t = true →
      ∃ r, readExport {} ((ls.map (· ++ ['\n'])).flatten) = .ok [(sid, r)] ∧
        sameTree (Tree.mapFields (fun s f => match s with | .node _ _ => { f with word := none } | _ => f) r)
                 (Tree.mapFields (fun s f => match s with | .node _ _ => { f with word := none } | _ => f) (carryExportRoot {} t)) = true) := by
  intro H
  obtain ⟨r, hr, hs⟩ := H 7 eosT eosLines eosT_write eosT_WF eosT_ok
  have : rtCheck 7 eosT eosLines = true := by
    unfold rtCheck
    rw [hr]
    simp only [beq_self_eq_true, Bool.true_and]
    exact hs
  rw [eosT_check] at this
  cases this

/-
  NOTE — statements of the brief that are FALSE as given (corrected versions are proved above):

  * `decExport_write` — the specification decoder `buildExp` reads every number `1..499` as a token and every number
      `≥ 500` as a constituent, while `ExportOK` bounds the number of constituents only.
      counterexample: `flat 500` = `(S (A a) … (A a))` with 500 tokens; `WF` and `ExportOK {}` hold, the writer succeeds
      (`writeExport_total`), and `decExport false ls = none` (`decExport_fails_flat`: token 500, whose parent is 0, is looked up
      in the empty constituent table).  Formal refutation: `decExport_write_false`.
      (`#eval`: with 499 tokens all clauses are `true`; with 500 tokens the decoder returns `none`.)
      corrected: `decExport_write'` = the given statement plus `hN : t.leafNums.length < 500`; nothing else is needed
      (no `uidsOK`; labels of the form `#ddd` are harmless because only the word column is inspected and `ExportOK` already
      forbids such token words).

  * `readExport_write` — false for two independent reasons:
      1. the reader ends the sentence at the first line that STARTS with `#EOS`, so a token whose word starts with `#EOS`
         ends it early.  counterexample `eosT` = `(S (A #EOS))`: `WF`, `ExportOK {}` hold, the text is
         "#BOS 7\n#EOS\t\t\tA\t--\t\t--\t0\n#EOS 7\n", the reader returns `[(7, leaf 0 {VROOT})]` and `sameTree` is `false`
         (`eosT_check`).  Formal refutation: `readExport_write_false`.
      2. the reader keeps tokens and constituents in ONE table keyed by number (`exportBuild`), so with 500 or more tokens
         token 500 hides constituent `#500`.  counterexample (validated with `#eval`, not formalised because evaluating it in the
         kernel takes minutes): `(S (X (A a)×500))` — `WF`, `ExportOK {}` hold and `readExport` returns `.error .other`.
         (A sentence of 1000 or more tokens is refused with `ValueError` by the `n > 999` test.)
      corrected: `readExport_write'` = the given statement plus `hN : t.leafNums.length < 500` and
         `hE : ∀ s ∈ t.subtrees, s.isLeaf = true → "#EOS".toList.isPrefixOf (s.fields.word.getD []) = false`.
         (`hN` is sufficient, not sharp, for the reader: a flat sentence of 500..999 tokens without inner constituents is read back.)

  Everything else of the brief is proved with the exact statement text.
-/

end TT.Props.C02Export
