/-
  C02/C03 — export whole-file round trips.

  Proved exactly as stated: `writeExport_body`, `writeExport_lines_decode`.
  FALSE as stated (counterexamples and corrected versions below; see the note at the end of the file):
  `decExport_write` (needs fewer than 500 tokens), `readExport_write` (needs fewer than 500 tokens and
  no token whose word starts with `#EOS`).
-/
import TT.Lemmas.ExportRT
namespace TT.Props.C02Export
open TT TT.Tree TT.Spec
open TT.Lemmas.ExportRT TT.Lemmas.Write TT.Lemmas.GramOut TT.Lemmas.WF TT.Lemmas.Nav

/-- equality of writer results is decidable (used by the concrete instances below only) -/
local instance instDecEqExcept {ε α} [DecidableEq ε] [DecidableEq α] : DecidableEq (Except ε α)
  | .ok a, .ok b => decidable_of_iff (a = b) (by simp)
  | .error a, .error b => decidable_of_iff (a = b) (by simp)
  | .ok _, .error _ => isFalse (by simp)
  | .error _, .ok _ => isFalse (by simp)

/-- `(S (VP (A a) (C c)) (B b))` with tokens a=1, b=2, c=3 (discontinuous), children of `S` stored out of order -/
def exT : Tree := node { label := "S".toList } [leaf 2 { label := "B".toList, word := some "b".toList },
  node { label := "VP".toList } [leaf 1 { label := "A".toList, word := some "a".toList }, leaf 3 { label := "C".toList, word := some "c".toList }]]

def exLines : List Str := ["#BOS 7".toList, "a\t\t\tA\t--\t\t--\t500".toList, "b\t\t\tB\t--\t\t--\t0".toList,
    "c\t\t\tC\t--\t\t--\t500".toList, "#500\t\t\tVP\t--\t\t--\t0".toList, "#EOS 7".toList]

theorem exT_write : writeExport {} 7 exT = .ok exLines := by decide +kernel
theorem exT_WF : WF exT = true := by decide +kernel
theorem exT_ok : ExportOK {} exT = true := by decide +kernel

/-! ### the body of the written sentence -/

/-- the body of the written sentence: one line per non-root node; token lines first in sentence order, then constituent lines by number -/
theorem writeExport_body (o : OutOpts) (sid : Nat) (t : Tree) (ls : List Str) (h : writeExport o sid t = .ok ls) (hwf : WF t = true) :
    ∃ toks cons, ls = ["#BOS ".toList ++ natToStr sid] ++ toks ++ cons ++ ["#EOS ".toList ++ natToStr sid] ∧
      toks.length = t.leafNums.length ∧ cons.length + 1 = (t.subtrees.filter fun s => !s.isLeaf).length := by
  obtain ⟨hls, _⟩ := writeExport_shape o sid t ls h
  refine ⟨(tokPaths t).map (lineAt o t), (consPaths t).map (lineAt o t), hls, ?_, ?_⟩
  · rw [List.length_map, tokPaths_length t hwf]
  · rw [List.length_map, consPaths_length t hwf]

example : ∃ toks cons, exLines = ["#BOS ".toList ++ natToStr 7] ++ toks ++ cons ++ ["#EOS ".toList ++ natToStr 7] ∧
      toks.length = exT.leafNums.length ∧ cons.length + 1 = (exT.subtrees.filter fun s => !s.isLeaf).length :=
  writeExport_body {} 7 exT _ exT_write exT_WF

/-- the body, named: the lines are those of `tokPaths t` followed by those of `consPaths t` -/
theorem writeExport_body_paths (o : OutOpts) (sid : Nat) (t : Tree) (ls : List Str) (h : writeExport o sid t = .ok ls) :
    (ls.drop 1).dropLast = (tokPaths t ++ consPaths t).map (lineAt o t) := by
  obtain ⟨hls, _⟩ := writeExport_shape o sid t ls h
  rw [hls]; simp

/-! ### every line decodes -/

/-- every line of the body decodes to the fields of its node (`entry o t p`) -/
theorem writeExport_lines_decode_entry (o : OutOpts) (sid : Nat) (t : Tree) (ls : List Str) (h : writeExport o sid t = .ok ls)
    (hwf : WF t = true) (hok : ExportOK o t = true) :
    ∀ p ∈ tokPaths t ++ consPaths t, decExpLine o.exportFour (lineAt o t p) = some (entry o t p) := by
  obtain ⟨_, hlines⟩ := writeExport_shape o sid t ls h
  intro p hp
  obtain ⟨hp1, hp2⟩ := (mem_tok_cons t p).1 hp
  obtain ⟨l, hl⟩ := hlines p ((mem_nonRoot t p).2 ⟨hp1, hp2⟩)
  exact decode_lineAt o t p l (WF_noEmpty t hwf) hok hp1 hl

/-- every line of the body decodes to the fields of its node -/
theorem writeExport_lines_decode (o : OutOpts) (sid : Nat) (t : Tree) (ls : List Str) (h : writeExport o sid t = .ok ls)
    (hwf : WF t = true) (hok : ExportOK o t = true) :
    ∀ l ∈ (ls.drop 1).dropLast, (decExpLine o.exportFour l).isSome = true := by
  intro l hl
  rw [writeExport_body_paths o sid t ls h] at hl
  obtain ⟨p, hp, rfl⟩ := List.mem_map.1 hl
  rw [writeExport_lines_decode_entry o sid t ls h hwf hok p hp]; rfl

example : ∀ l ∈ (exLines.drop 1).dropLast, (decExpLine false l).isSome = true :=
  writeExport_lines_decode {} 7 exT _ exT_write exT_WF exT_ok

/-- the whole body decodes to `bodyOf o t` -/
theorem writeExport_body_decode (o : OutOpts) (sid : Nat) (t : Tree) (ls : List Str) (h : writeExport o sid t = .ok ls)
    (hwf : WF t = true) (hok : ExportOK o t = true) :
    ((ls.drop 1).dropLast).mapM (decExpLine o.exportFour) = some (bodyOf o t) := by
  rw [writeExport_body_paths o sid t ls h]
  unfold bodyOf
  rw [← List.map_append]
  exact mapM_option_map _ _ _ _ (writeExport_lines_decode_entry o sid t ls h hwf hok)

/-! ### the specification decoder -/

/-- CORRECTED `decExport_write`: one hypothesis is added (`hN`: fewer than 500 tokens, the decoder reads the numbers
    1..499 as tokens and 500.. as constituents); without it the statement is false (see the note at the end).
    MAIN: the specification decoder recovers sentence id, tokens, labels, edges and dominance from what the writer wrote, and the
    numbering clauses of the property hold (tokens first, constituents numbered uniquely from 500, parents resolve, children below parents) -/
theorem decExport_write' (o : OutOpts) (sid : Nat) (t : Tree) (ls : List Str) (h : writeExport o sid t = .ok ls)
    (hwf : WF t = true) (hok : ExportOK o t = true) (hN : t.leafNums.length < 500) :
    ∃ s, decExport o.exportFour ls = some s ∧ s.sid = sid ∧ sameTree s.tree (carryExportRoot o t) = true ∧
      s.tokensFirst = true ∧ s.numbersFrom500 = true ∧ s.parentsResolve = true ∧ s.childBelowParent = true := by
  have hbody := writeExport_body_decode o sid t ls h hwf hok
  obtain ⟨hls, _⟩ := writeExport_shape o sid t ls h
  have hmid : (ls.drop 1).dropLast = (tokPaths t).map (lineAt o t) ++ (consPaths t).map (lineAt o t) := by
    rw [writeExport_body_paths o sid t ls h, List.map_append]
  rw [hmid] at hbody
  have hdec : decExport o.exportFour ls = decBody sid (bodyOf o t) := by
    rw [hls, List.append_assoc ["#BOS ".toList ++ natToStr sid]]
    exact decExport_frame o.exportFour sid _ _ hbody
  obtain ⟨s, hs, h1, h2, h3⟩ := decBody_write o sid t hwf hok hN
  refine ⟨s, by rw [hdec, hs], h1, ?_, h3⟩
  unfold sameTree
  rw [h2]; exact beq_refl _

example : ∃ s, decExport false exLines = some s ∧ s.sid = 7 ∧ sameTree s.tree (carryExportRoot {} exT) = true ∧
      s.tokensFirst = true ∧ s.numbersFrom500 = true ∧ s.parentsResolve = true ∧ s.childBelowParent = true :=
  decExport_write' {} 7 exT _ exT_write exT_WF exT_ok (by decide +kernel)

end TT.Props.C02Export
