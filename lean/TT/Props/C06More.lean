/-
  C06, continued — "each nonterminal's fan-out equals the number of blocks of its node", for the right-hand side too:
  the fan-out vector of the rule extracted at a constituent is the number of blocks of the constituent followed by the
  numbers of blocks of its children.  All three statements of the brief are proved exactly as given.
  Helpers: `TT/Lemmas/More7.lean`.
-/
import TT.Props.C06
import TT.Lemmas.More7
namespace TT.Props.C06More
open TT TT.Tree TT.Spec TT.Lemmas.Extract TT.Lemmas.More7

/-- the fan-out vector depends on the multiset of references only: the first entry is the number of arguments, entry i+1
    counts the variables of element i -/
theorem fanOut_spec (l : Lin) (i : Nat) (hi : i + 1 < (fanOut l).length) :
    (fanOut l)[i + 1]? = some ((l.flatMap fun arg => arg.map (·.1)).count (Int.ofNat i)) := by
  rw [fanOut_length] at hi
  rw [fanOut_eq, List.getElem?_cons_succ, List.getElem?_map, List.getElem?_range (by omega)]
  rfl

/-- the first entry, and how far the vector goes: up to the largest position that is referred to -/
theorem fanOut_zero (l : Lin) : (fanOut l)[0]? = some l.length := rfl
theorem fanOut_length (l : Lin) :
    (fanOut l).length = (((l.flatMap fun arg => arg.map (·.1)).map fun r => (r + 1).toNat).foldl max 0) + 1 :=
  TT.Lemmas.More7.fanOut_length l

/-- positions that are not referred to (here 0, 1, 3, 4) get 0; negative positions (binarization) are not counted -/
example : fanOut [[(2, 0), (5, 0)], [(2, 1)]] = [2, 0, 0, 2, 0, 0, 1] ∧ fanOut [[(-1, 0), (0, 0)]] = [1, 1] := by decide
example : (fanOut [[(2, 0), (5, 0)], [(2, 1)]])[2 + 1]? = some 2 := fanOut_spec _ 2 (by decide)

/-- for every linearization that is well formed with respect to a list of fan-outs (each element used exactly as often as
    it has blocks) the vector is that list, provided the last element has a block at all -/
theorem fanOut_wfLin (l : Lin) (fo : List Nat) (h : wfLin l fo = true) (hlast : ∀ x ∈ fo.getLast?, 0 < x) :
    fanOut l = l.length :: fo :=
  fanOut_of_wfLin l fo h hlast

/-- the whole vector -/
theorem fanOut_linOf (f : Fields) (ks : List Tree) (hne : (node f ks).noEmpty = true) (hn : (node f ks).leafNums.Nodup) :
    fanOut (linOf (node f ks)) = (node f ks).blocks.length :: (children (node f ks)).map (·.blocks.length) := by
  have h := nodeRuleOK_linOf f ks hn
  unfold nodeRuleOK at h
  simp only [Bool.and_eq_true] at h
  rw [← C06.linOf_length, children_eq]
  refine fanOut_of_wfLin _ _ h.1 ?_
  intro x hx
  rw [List.getLast?_map] at hx
  simp only [Option.mem_def, Option.map_eq_some_iff] at hx
  obtain ⟨c, hc, rfl⟩ := hx
  have hck : c ∈ ks := (mem_sortBy _ _ _).1 (List.mem_of_getLast? hc)
  exact blocks_length_pos c (((TT.Lemmas.Boyd.noEmpty_node f ks).1 hne).2 c hck)

/-- "each nonterminal's fan-out equals the number of blocks of its node", for the right-hand side too: entry i+1 of the fan-out vector of a
    constituent's rule is the number of blocks of its i-th child (children in order of their leftmost token) -/
theorem fanOut_children (f : Fields) (ks : List Tree) (hne : (node f ks).noEmpty = true) (hn : (node f ks).leafNums.Nodup) :
    (fanOut (linOf (node f ks))).drop 1 = (children (node f ks)).map (·.blocks.length) := by
  rw [fanOut_linOf f ks hne hn]; rfl

/-- entry by entry -/
theorem fanOut_child (f : Fields) (ks : List Tree) (hne : (node f ks).noEmpty = true) (hn : (node f ks).leafNums.Nodup)
    (i : Nat) (c : Tree) (hc : (children (node f ks))[i]? = some c) :
    (fanOut (linOf (node f ks)))[i + 1]? = some c.blocks.length := by
  rw [fanOut_linOf f ks hne hn, List.getElem?_cons_succ, List.getElem?_map, hc]; rfl

/-- every constituent of a tree with pairwise distinct token numbers and no childless constituent -/
theorem fanOut_linOf_subtrees (t : Tree) (hne : t.noEmpty = true) (hn : t.leafNums.Nodup) :
    ∀ s ∈ subtrees t, s.isLeaf = false →
      fanOut (linOf s) = s.blocks.length :: (children s).map (·.blocks.length) := by
  induction t using TT.Lemmas.WF.tree_ind with
  | hl n f =>
    intro s hs hl
    simp only [subtrees, List.mem_singleton] at hs
    subst hs
    simp [isLeaf] at hl
  | hn f ks ih =>
    intro s hs hl
    rcases (TT.Lemmas.WF.mem_subtrees_node f ks s).1 hs with rfl | ⟨k, hk, hsk⟩
    · exact fanOut_linOf f ks hne hn
    · exact ih k hk (((TT.Lemmas.Boyd.noEmpty_node f ks).1 hne).2 k hk)
        ((TT.Lemmas.WF.leafNums_sublist_of_mem f ks k hk).nodup hn) s hsk hl

/-! ### concrete instances (the discontinuous tree of `C06`) -/

example : C06.exT.noEmpty = true ∧ C06.exT.leafNums.Nodup := by decide
/-- the root has two blocks; its children VP, N, NP have 2, 1, 1 -/
example : fanOut (linOf C06.exT) = [2, 2, 1, 1] ∧ C06.exT.blocks.length = 2 ∧
    (children C06.exT).map (·.blocks.length) = [2, 1, 1] := by decide
example : (fanOut (linOf C06.exT)).drop 1 = (children C06.exT).map (·.blocks.length) :=
  fanOut_children _ _ (by decide) (by decide)
example : (C06.exT.subtrees.filter fun s => !s.isLeaf).all
    (fun s => fanOut (linOf s) == s.blocks.length :: (children s).map (·.blocks.length)) = true := by decide

/-- `hne` cannot be dropped: a childless constituent that is ordered last (its "leftmost token" is 0, as is that of token 0)
    is never referred to, so the vector stops before it -/
def cexEmpty : Tree := node { label := "S".toList } [leaf 0 { label := "A".toList }, node { label := "X".toList } []]
example : cexEmpty.leafNums.Nodup ∧ cexEmpty.noEmpty = false ∧
    fanOut (linOf cexEmpty) = [1, 1] ∧ (children cexEmpty).map (·.blocks.length) = [1, 0] := by decide

end TT.Props.C06More
