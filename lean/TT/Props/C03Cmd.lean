/-
  C03 / C04, the `--trans` / `--params` glue of `treetools transform` (wave 18, TT/RunCmd.lean): from the NAMES of the
  transformations and the WORDS of `--params` to the pipeline.

  * `runCmd_nil`: without `--trans`, `--params`, `--src-opts`, `--dest-opts` the command is the plain conversion.
  * `stepsOf_length`, `stepsOf_append`, `stepsOf_cons`: one step per name, in the order of the names ("applied ... in any
    prerequisite-respecting sequence": the sequence executed IS the sequence asked for), all under the same dict.
  * `stepOf_param_free`: the ten transformations without parameters do not look at `--params` at all.
  * `stepOf_binarize`: `bare_bin_labels` is on iff some word has that key.
  * `stepOf_filter_missing`: `filter_by_length` without operator or without value fails with KeyError on every tree.
  * `stepOf_unknown_params`: words with keys no transformation knows (`quiet`, `foo:1`) change nothing for a
    parameter-free name.
-/
import TT.RunCmd
import TT.Props.C03Words
namespace TT.Props.C03Cmd
open TT TT.Tree
open TT.Props.C03Words

theorem runCmd_nil (fmt : DestFmt) (enc : Option Str) (src : Source) :
    runCmd [] [] fmt [] enc [] src = some (runSrc [] fmt {} enc {} src) := rfl

theorem stepsOf_nil (pw : List Str) : stepsOf [] pw = some [] := rfl

theorem stepsOf_cons (n : Str) (ns pw : List Str) :
    stepsOf (n :: ns) pw = (do let s ← stepOf (optionsDict pw) n; let r ← stepsOf ns pw; pure (s :: r)) := by
  simp [stepsOf, List.mapM_cons]

/-- one step per name -/
theorem stepsOf_length : ∀ (ns pw : List Str) (steps : List Step), stepsOf ns pw = some steps → steps.length = ns.length
  | [], _, steps, h => by simp [stepsOf] at h; subst h; rfl
  | n :: ns, pw, steps, h => by
    rw [stepsOf_cons] at h
    cases h1 : stepOf (optionsDict pw) n with
    | none => rw [h1] at h; cases h
    | some s =>
      cases h2 : stepsOf ns pw with
      | none => rw [h1, h2] at h; cases h
      | some r =>
        rw [h1, h2] at h
        simp only [Option.bind_eq_bind, Option.bind_some, Option.pure_def, Option.some.injEq] at h
        subst h
        simp [stepsOf_length ns pw r h2]

/-- the names are taken in the order given: the steps of a concatenation are the concatenation of the steps -/
theorem stepsOf_append (a b pw : List Str) :
    stepsOf (a ++ b) pw = (do let x ← stepsOf a pw; let y ← stepsOf b pw; pure (x ++ y)) := by
  induction a with
  | nil =>
    simp only [List.nil_append, stepsOf_nil, Option.bind_eq_bind, Option.bind_some, Option.pure_def]
    cases stepsOf b pw <;> rfl
  | cons n a ih =>
    rw [List.cons_append, stepsOf_cons, stepsOf_cons, ih]
    cases stepOf (optionsDict pw) n with
    | none => rfl
    | some s =>
      cases stepsOf a pw with
      | none => rfl
      | some x =>
        cases stepsOf b pw with
        | none => rfl
        | some y => rfl

/-- the transformations without parameters -/
def paramFree : List String :=
  ["root_attach", "negra_mark_heads", "boyd_split", "raising", "add_topnode", "punctuation_verylow", "punctuation_root",
   "punctuation_delete", "collapse_unary_chains", "uncollapse_unary_chains"]

/-- ... do not look at `--params` -/
theorem stepOf_param_free (n : String) (hn : n ∈ paramFree) (d d' : List (Str × OptVal)) :
    stepOf d n.toList = stepOf d' n.toList := by
  simp only [paramFree, List.mem_cons, List.not_mem_nil, or_false] at hn
  rcases hn with h | h | h | h | h | h | h | h | h | h <;> subst h <;> rfl

/-- every parameter-free name has a step -/
theorem stepOf_param_free_some (n : String) (hn : n ∈ paramFree) (d : List (Str × OptVal)) : (stepOf d n.toList).isSome = true := by
  simp only [paramFree, List.mem_cons, List.not_mem_nil, or_false] at hn
  rcases hn with h | h | h | h | h | h | h | h | h | h <;> subst h <;> rfl

/-- a pipeline of parameter-free transformations is the same pipeline whatever words follow `--params` -/
theorem stepsOf_param_free : ∀ (ns : List String) (_h : ∀ n ∈ ns, n ∈ paramFree) (pw pw' : List Str),
    stepsOf (ns.map String.toList) pw = stepsOf (ns.map String.toList) pw'
  | [], _, _, _ => rfl
  | n :: ns, h, pw, pw' => by
    rw [List.map_cons, stepsOf_cons, stepsOf_cons,
      stepOf_param_free n (h n List.mem_cons_self) (optionsDict pw) (optionsDict pw'),
      stepsOf_param_free ns (fun m hm => h m (List.mem_cons_of_mem _ hm)) pw pw']

/-- ... and so is the whole command -/
theorem runCmd_param_free (ns : List String) (h : ∀ n ∈ ns, n ∈ paramFree) (pw pw' dw sw : List Str) (fmt : DestFmt)
    (enc : Option Str) (src : Source) :
    runCmd (ns.map String.toList) pw fmt dw enc sw src = runCmd (ns.map String.toList) pw' fmt dw enc sw src := by
  unfold runCmd
  rw [stepsOf_param_free ns h pw pw']

/-- `binarize`: bare labels iff some word of `--params` has the key `bare_bin_labels` -/
theorem stepOf_binarize (pw : List Str) :
    ∃ b : Bool, (b = true ↔ ∃ w ∈ pw, (parseOption w).1 = "bare_bin_labels".toList) ∧
      ∀ t, (stepOf (optionsDict pw) "binarize".toList).map (· t) = some ((binarize b t).map some) :=
  ⟨(optLookup (optionsDict pw) "bare_bin_labels".toList).isSome, has_iff pw _, fun _ => rfl⟩

/-- `filter_by_length` without its operator: KeyError on every tree -/
theorem stepOf_filter_missing_op (d : List (Str × OptVal)) (h : optLookup d "filteroperator".toList = none) (t : Tree) :
    (stepOf d "filter_by_length".toList).map (· t) = some (.error .keyError) := by
  have : stepOf d "filter_by_length".toList = some fun _ => .error .keyError := by
    show (match optLookup d "filteroperator".toList, optLookup d "filtervalue".toList with
      | none, _ => _ | some _, none => _ | some op, some (.int v) => _ | some _, some _ => _) = _
    rw [h]
  rw [this]; rfl

/-- BRIDGE: on the words on which the model answers, the two branches of `transform.run` are `runFrom` / `runSplitFrom`
    on the SAME steps, the same writer options and the same reader result - the functions all command-level theorems
    (`C03Total`, `C17Run.split_concat`, `C18Local`, ...) are about.  In particular the `--split` branch uses the same
    parameter dict as the plain branch. -/
theorem runCmd_runSplitCmd_eq (names pw dw sw : List Str) (fmt : DestFmt) (enc : Option Str) (spec : Str) (src : Source)
    (steps : List Step) (io : InOpts) (h1 : stepsOf names pw = some steps) (h2 : inOptsOf (optionsDict sw) = some io) :
    runCmd names pw fmt dw enc sw src = some (runFrom steps fmt (outOptsOf (optionsDict dw)) enc (readSrc io src)) ∧
    runSplitCmd names pw fmt dw enc spec sw src =
      some (runSplitFrom steps fmt (outOptsOf (optionsDict dw)) enc spec (readSrc io src)) := by
  constructor
  · simp only [runCmd, h1, h2, runWords2, runWords, readSrcWords, Option.map_some]
  · simp only [runSplitCmd, h1, h2, runSplitSrc]

/-- the two branches answer on the same words -/
theorem runCmd_isSome_iff (names pw dw sw : List Str) (fmt : DestFmt) (enc : Option Str) (spec : Str) (src : Source) :
    (runCmd names pw fmt dw enc sw src).isSome = (runSplitCmd names pw fmt dw enc spec sw src).isSome := by
  simp only [runCmd, runSplitCmd, runWords2, runWords, readSrcWords]
  cases stepsOf names pw with
  | none => rfl
  | some steps =>
    cases inOptsOf (optionsDict sw) with
    | none => rfl
    | some io => rfl

/-! ### `--markov` and the other two commands -/

theorem markovOf_absent : markovOf none = some none := rfl

/-- `--markov` without `v` / `h`: the documented defaults v 1, h 2 -/
theorem markovOf_defaults : markovOf (some []) = some (some { v := 1, h := 2, nofanout := false }) := rfl

example : (markovOf (some ["h:3".toList, "nofanout:0".toList, "h:1".toList])).map (·.map fun m => (m.v, m.h, m.nofanout)) =
    some (some (1, 1, true)) := by decide +kernel
example : (markovOf (some ["v:many".toList])).isNone = true := by decide +kernel

/-- when the model answers, `nofanout` is on iff some word has that key -/
theorem markovOf_nofanout (ws : List Str) (mo : MarkovOpts) (h : markovOf (some ws) = some (some mo)) :
    mo.nofanout = true ↔ ∃ w ∈ ws, (parseOption w).1 = "nofanout".toList := by
  rw [← has_iff]
  simp only [markovOf] at h
  split at h
  · simp only [Option.some.injEq] at h
    rw [← h]; rfl
  · exact absurd h (by simp)

/-- for TYPE `treebank` the `--markov` words do not matter (no binarization happens) -/
theorem runGrammarCmd_treebank (mw : Option (List Str)) (mo : Option MarkovOpts) (hm : markovOf mw = some mo) (sw : List Str)
    (src : Source) : runGrammarCmd .treebank mw sw src = runGrammarCmd .treebank none sw src := by
  simp only [runGrammarCmd, hm, markovOf_absent]
  cases inOptsOf (optionsDict sw) with
  | none => rfl
  | some io =>
    simp only [runGrammarSrc, runGrammarFrom]

/-- `transitions`: on the words on which the model answers the command is `runTransitions` on the steps of the names, with
    `pos` iff some `--dest-opts` word has that key -/
theorem runTransitionsCmd_eq (names pw dw sw : List Str) (sys : TransSys) (src : Source) (steps : List Step) (io : InOpts)
    (h1 : stepsOf names pw = some steps) (h2 : inOptsOf (optionsDict sw) = some io) :
    ∃ pos : Bool, (pos = true ↔ ∃ w ∈ dw, (parseOption w).1 = "pos".toList) ∧
      runTransitionsCmd names pw sys dw sw src = some (runTransitions steps sys pos (readSrc io src)) :=
  ⟨(optLookup (optionsDict dw) "pos".toList).isSome, has_iff dw _, by simp only [runTransitionsCmd, h1, h2]; rfl⟩

/-- closed instances: the order of the names is the order of the steps; one dict for all; an unknown name, a terminal-file
    transformation and an unusable value are outside the model -/
example : (stepsOf ["negra_mark_heads".toList, "binarize".toList] ["quiet".toList, "bare_bin_labels:0".toList]).map List.length = some 2 := by
  decide +kernel
example : (stepsOf ["no_such_transformation".toList] []).isNone = true := by decide +kernel
example : (stepsOf ["insert_terminals".toList] ["terminalfile:x".toList]).isNone = true := by decide +kernel
example : (stepsOf ["filter_by_length".toList] ["filteroperator:lt".toList, "filtervalue:many".toList]).isNone = true := by decide +kernel

end TT.Props.C03Cmd
