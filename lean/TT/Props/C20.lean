/-
  C20 — label parsing and formatting are mutually inverse.
  Property theorems only; helper lemmas live in TT/Lemmas/C20.lean.
-/
import TT.Spec.Label
import TT.Generated.Consts
import TT.Lemmas.C20
namespace TT.Props.C20
open TT TT.Spec TT.Lemmas.C20

/-- the literals used by the model are the ones `/repo` defines now (regenerated each run) -/
theorem consts_tie :
    Gen.DEFAULT_EDGE = DEFAULT_EDGE ∧ Gen.DEFAULT_LABEL = DEFAULT_LABEL ∧
    Gen.DEFAULT_GF_SEPARATOR = DEFAULT_GF_SEP ∧ Gen.DEFAULT_COINDEX_SEPARATOR = ['-'] ∧
    Gen.DEFAULT_GAPPING_SEPARATOR = ['='] ∧ Gen.DEFAULT_HEAD_MARKER = ['\''] := by decide

theorem decompose_concat (sep s : Str) : (decompose sep s).concat = s := by
  rw [decompose_eq]
  simp only [Pieces.concat]
  rw [cutGf_concat, cutIndex_concat, cutIndex_concat, cutHead_concat]

example : decompose "-".toList "NP-SBJ=1-2'".toList =
    { cat := "NP".toList, gfP := "-SBJ".toList, gapP := "=1".toList, coP := "-2".toList,
      hmP := "'".toList } := by decide

theorem format_parse (sep : Str) (al ag : Bool) (s : Str) :
    formatLabel al ag (parseLabel sep s) = render sep al ag (decompose sep s) := by
  obtain ⟨lab, gf, gfP, gap, co, hm, hf2, hp, hd⟩ := parse_decompose sep s
  rw [hp, hd]
  exact format_render sep lab gf gfP gap co hm _ al ag hf2

example : formatLabel false false (parseLabel "-".toList "NP-SBJ=1-2'".toList) = "NP-SBJ=1-2'".toList := by
  decide
example : formatLabel false false (parseLabel "-".toList "*T*-1".toList) = "*T*-1".toList := by decide
example : formatLabel false false (parseLabel "-".toList "EMPTY-X".toList) = "-X".toList := by decide
example : formatLabel true true (parseLabel "-".toList "=3'".toList) = "EMPTY---=3'".toList := by decide
example : formatLabel false false (parseLabel "-".toList "A---".toList) = "A".toList := by decide
example : render "-".toList false false (decompose "-".toList "A---".toList) = "A".toList := by decide

theorem format_parse_id (sep s : Str) (h : noDefaultLiteral sep (decompose sep s) = true) :
    formatLabel false false (parseLabel sep s) = s := by
  rw [format_parse]
  conv => rhs; rw [← decompose_concat sep s]
  generalize decompose sep s = p at *
  simp only [noDefaultLiteral, Bool.and_eq_true, decide_eq_true_eq] at h
  obtain ⟨h1, h2⟩ := h
  obtain ⟨cat, gfP, gapP, coP, hmP⟩ := p
  cases cat <;> cases gfP <;> simp_all [render, Pieces.concat]

example : noDefaultLiteral "-".toList (decompose "-".toList "NP-SBJ=1-2'".toList) = true := by decide
example : noDefaultLiteral "-".toList (decompose "-".toList "*T*-1".toList) = true := by decide
/-- the hypothesis is needed: these labels contain a default literal and are not reproduced -/
example : noDefaultLiteral "-".toList (decompose "-".toList "EMPTY-X".toList) = false := by decide
example : noDefaultLiteral "-".toList (decompose "-".toList "A---".toList) = false := by decide

theorem erase_component (sep s : Str) (c : Comp) :
    formatLabel false false (eraseParsed (parseLabel sep s) c)
      = render sep false false ((decompose sep s).erase c) := by
  obtain ⟨lab, gf, gfP, gap, co, hm, hf2, hp, hd⟩ := parse_decompose sep s
  rw [hp, hd]
  cases c
  · exact format_render sep lab gf gfP [] co hm _ false false hf2
  · exact format_render sep lab gf gfP gap [] hm _ false false hf2
  · exact format_render sep lab DEFAULT_EDGE [] gap co hm _ false false (Or.inl ⟨rfl, rfl⟩)
  · exact format_render sep lab gf gfP gap co false _ false false hf2

example : formatLabel false false (eraseParsed (parseLabel "-".toList "NP-SBJ=1-2'".toList) .co)
    = "NP-SBJ=1'".toList := by decide
example : formatLabel false false (eraseParsed (parseLabel "-".toList "NP-SBJ=1-2'".toList) .gf)
    = "NP=1-2'".toList := by decide

theorem isTrace_iff (sep s : Str) :
    (parseLabel sep s).isTrace = true ↔
      ((parseLabel sep s).label.head? = some '*' ∧ (parseLabel sep s).label.getLast? = some '*') := by
  have hT : (parseLabel sep s).isTrace = isTraceLabel (parseLabel sep s).label := by
    rw [parseLabel_eq]
  rw [hT]
  generalize (parseLabel sep s).label = lab
  unfold isTraceLabel
  cases h1 : lab.head? <;> cases h2 : lab.getLast? <;> simp

example : (parseLabel "-".toList "*T*-1".toList).isTrace = true := by decide
example : (parseLabel "-".toList "*T-1".toList).isTrace = false := by decide

theorem getLabel_decorations (o : OutOpts) (t : Tree) (s : Str) (h : getLabel o t = .ok s) :
    s = t.fields.label ++ decorations o t := by
  unfold getLabel at h
  unfold decorations
  dsimp only at h ⊢
  simp only [ne_eq, decide_not] at h ⊢
  generalize (if (o.gf && !decide (List.head? (t.fields.edge.getD DEFAULT_EDGE) = some '-') &&
      (!t.kids.isEmpty || o.gfTerminals)) = true
    then o.gfSeparator.getD DEFAULT_GF_SEP ++ t.fields.edge.getD DEFAULT_EDGE else []) = g at h ⊢
  generalize t.fields.label = lab at h ⊢
  generalize t.fields.head = fh at h ⊢
  generalize t.fields.split = fs at h ⊢
  generalize t.fields.blockNumber = fb at h ⊢
  generalize o.markHeads = mh at h ⊢
  generalize o.splitMarking = sm at h ⊢
  generalize o.splitNumbering = sn at h ⊢
  clear t o
  rcases fh with _ | _ | _ <;> rcases fs with _ | _ | _ <;> rcases fb with _ | n <;>
    cases mh <;> cases sm <;> cases sn <;>
    simp [bind, Except.bind, pure, Except.pure, throw, throwThe,
      MonadExcept.throw, MonadExceptOf.throw] at h ⊢ <;> exact h.symm

example : getLabel { gf := true, markHeads := true, splitMarking := true, splitNumbering := true }
    (.node { label := "NP".toList, edge := some "SBJ".toList, head := some true, split := some true,
             blockNumber := some 2 } [.leaf 1 {}]) = .ok "NP-SBJ'*2".toList := rfl
/-- the hypothesis can fail: `mark_heads` on a node without a `head` key raises `KeyError` -/
example : getLabel { markHeads := true } (.leaf 1 { label := "NN".toList }) = .error .keyError := rfl

theorem getLabel_plain (t : Tree) : getLabel {} t = .ok t.fields.label := by
  simp [getLabel]
  rfl

example : getLabel {} (.leaf 1 { label := "NN".toList, edge := some "HD".toList, head := some true })
    = .ok "NN".toList := rfl

end TT.Props.C20
