/-
  C20 — label parsing and formatting are mutually inverse.
-/
import TT.Spec.Label
import TT.Generated.Consts
namespace TT.Props.C20
open TT TT.Spec

/-- the literals used by the model are the ones `/repo` defines now (regenerated each run) -/
theorem consts_tie :
    Gen.DEFAULT_EDGE = DEFAULT_EDGE ∧ Gen.DEFAULT_LABEL = DEFAULT_LABEL ∧
    Gen.DEFAULT_GF_SEPARATOR = DEFAULT_GF_SEP ∧ Gen.DEFAULT_COINDEX_SEPARATOR = ['-'] ∧
    Gen.DEFAULT_GAPPING_SEPARATOR = ['='] ∧ Gen.DEFAULT_HEAD_MARKER = ['\''] := by decide

end TT.Props.C20
