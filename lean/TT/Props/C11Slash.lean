/-
  C11 (slash) — `ptb_delete_traces(tree, slash=...)`: the slash-feature annotation branch
  (model: TT/Transform/Slash.lean, helper lemmas: TT/Lemmas/Slash.lean).

  What the branch does on top of the plain trace deletion `ptbDeleteTraces o t`:
  it appends pieces `"/" ++ X` to labels of constituents (never to a token), and it deletes kept traces
  (tokens with word `-NONE-`) whose co-index has no filler - nothing else.
-/
import TT.Spec.Edit
import TT.Lemmas.Edit
import TT.Lemmas.Slash
import TT.Lemmas.More4
namespace TT.Props.C11Slash
open TT TT.Tree TT.Spec TT.Lemmas.WF TT.Lemmas.Edit TT.Lemmas.Slash

/-- `(S (WHNP-1 who) (SQ (NP-SBJ-2 x) (VP saw (S *T*-1 (VP *-2))) (ADVP *T*-3)))`: a filler `WHNP-1` that
    c-commands its trace `*T*-1`, a filler `NP-SBJ-2` for `*-2`, and a trace `*T*-3` without filler which is
    the only content of `ADVP` -/
def exS : Tree :=
  node { label := "S".toList } [
    node { label := "WHNP-1".toList } [leaf 1 { label := "WP".toList, word := some "who".toList }],
    node { label := "SQ".toList } [
      node { label := "NP-SBJ-2".toList } [leaf 2 { label := "NN".toList, word := some "x".toList }],
      node { label := "VP".toList } [
        leaf 3 { label := "VBD".toList, word := some "saw".toList },
        node { label := "S".toList } [
          leaf 4 { label := "-NONE-".toList, word := some "*T*-1".toList },
          node { label := "VP".toList } [leaf 5 { label := "-NONE-".toList, word := some "*-2".toList }]]],
      node { label := "ADVP".toList } [leaf 6 { label := "-NONE-".toList, word := some "*T*-3".toList }]]]

/-- two constituents carry the co-index 1 (fillers not unique): `*T*-1` is resolved bottom-up to `B-1`, the
    nearest one that dominates it -/
def exU : Tree :=
  node { label := "S".toList } [
    node { label := "A-1".toList } [
      node { label := "B-1".toList } [
        node { label := "C".toList } [leaf 1 { label := "-NONE-".toList, word := some "*T*-1".toList }]]],
    leaf 2 { label := "NN".toList, word := some "d".toList }]

/-- the only token is a kept trace without filler -/
def exE : Tree :=
  node { label := "S".toList } [node { label := "A".toList } [
    leaf 1 { label := "-NONE-".toList, word := some "*T*-1".toList }]]

/-- the result of `exS` with `keepall`, `slash` as a flag -/
def exSr : Tree :=
  node { label := "S".toList } [
    node { label := "WHNP".toList } [leaf 1 { label := "WP".toList, word := some "who".toList }],
    node { label := "SQ/WHNP".toList } [
      node { label := "NP-SBJ".toList } [leaf 2 { label := "NN".toList, word := some "x".toList }],
      node { label := "VP/WHNP/NP".toList } [
        leaf 3 { label := "VBD".toList, word := some "saw".toList },
        node { label := "S/WHNP/NP".toList } [
          leaf 4 { label := "*T*".toList, word := some "-NONE-".toList },
          node { label := "VP/NP".toList } [leaf 5 { label := "*".toList, word := some "-NONE-".toList }]]]]]

example : WF exS = true ∧ WF exU = true ∧ WF exE = true := by decide

/-- the model on the examples: flag, label list, bottom-up resolution, everything deleted -/
example : (match ptbDeleteTracesSlash { keepall := true } (some []) exS with
      | .ok r => r.beq exSr | .error _ => false) = true ∧
    (match ptbDeleteTracesSlash { keepall := true } (some ["*".toList]) exS with
      | .ok r => consLabels r | .error _ => []) =
      ["S".toList, "WHNP".toList, "SQ".toList, "NP-SBJ".toList, "VP/NP".toList, "S/NP".toList, "VP/NP".toList] ∧
    (match ptbDeleteTracesSlash { keepall := true } (some []) exU with
      | .ok r => consLabels r | .error _ => []) = ["S".toList, "A".toList, "B".toList, "C/B".toList] ∧
    (match ptbDeleteTracesSlash { keepall := true } (some []) exE with
      | .ok r => r.beq (node { label := "S".toList } []) | .error _ => false) = true := by decide

/-! ## without the parameter -/

theorem slash_none (o : TraceOpts) (t : Tree) :
    ptbDeleteTracesSlash o none t = .ok (ptbDeleteTraces o t) := rfl

example : ptbDeleteTracesSlash { keepall := true } none exS = .ok (ptbDeleteTraces { keepall := true } exS) :=
  slash_none _ _

/-! ## the shape of the result -/

/-- the result is the plain trace deletion, annotated (`Annotated`: labels of constituents grow by slash pieces,
    nothing else changes), with some kept traces deleted one after the other by `delete_terminal` -/
theorem slash_shape (o : TraceOpts) (ls : List Str) (t r : Tree)
    (h : ptbDeleteTracesSlash o (some ls) t = .ok r) :
    ∃ t3 nums, Annotated (ptbDeleteTraces o t) t3 ∧ r = deleteList t3 nums ∧
      t3.leaves = (ptbDeleteTraces o t).leaves ∧
      (WF t = true → nums.Nodup ∧ ∀ n ∈ nums, n ∈ t3.leafNums ∧
        ∀ l ∈ t3.leaves, l.num = n → l.fields.word = some NONE_POS) := by
  obtain ⟨t3, nums, ha, hr, hv⟩ := slash_struct o ls t r h
  exact ⟨t3, nums, ha, hr, ha.leaves, fun hw => hv (Numbered_of_WF t hw)⟩

/-- on `exS`: the annotated tree still holds `ADVP` with `*T*-3` (token 6); deleting token 6 gives the result -/
example : (match ptbDeleteTracesSlash { keepall := true } (some []) exS with
      | .ok r => r.sentence == (deleteList (ptbDeleteTraces { keepall := true } exS) [6]).sentence &&
          (r.leafNums == [1, 2, 3, 4, 5])
      | .error _ => false) = true ∧
    (((ptbDeleteTraces { keepall := true } exS).leaves.filter fun l => l.num == 6).map fun l => l.fields.word) =
      [some NONE_POS] := by decide

/-! ## tokens -/

/-- the tokens of the result (word, tag, in order) are a sublist of those of the plain trace deletion, and
    (on a well-formed tree) the tokens that are not kept traces are all still there: the slash branch
    deletes nothing but kept traces -/
theorem slash_tokens (o : TraceOpts) (ls : List Str) (t r : Tree)
    (h : ptbDeleteTracesSlash o (some ls) t = .ok r) :
    r.sentence.Sublist (ptbDeleteTraces o t).sentence ∧
    (WF t = true → r.sentence.filter (fun tk => tk.1 != some NONE_POS) =
      (ptbDeleteTraces o t).sentence.filter (fun tk => tk.1 != some NONE_POS)) := by
  obtain ⟨t3, nums, ha, rfl, hv⟩ := slash_struct o ls t r h
  refine ⟨?_, ?_⟩
  · have := deleteListN_sentence nums.length t3 nums
    rw [ha.sentence] at this
    exact this
  · intro hw
    have hN := Numbered_of_WF t hw
    have h2 := (deleteListN_valid nums.length t3 nums (ha.numbered (ptbDeleteTraces_numbered o t hN)) (hv hN)).2
    rw [ha.sentence] at h2
    exact h2

/-- `*T*-3` has no filler: it is deleted; the other two kept traces and the ordinary tokens stay -/
example : (ptbDeleteTraces { keepall := true } exS).sentence.map (·.2) =
      ["WP".toList, "NN".toList, "VBD".toList, "*T*".toList, "*".toList, "*T*".toList] ∧
    (match ptbDeleteTracesSlash { keepall := true } (some []) exS with
      | .ok r => r.sentence.map (·.2) | .error _ => []) =
      ["WP".toList, "NN".toList, "VBD".toList, "*T*".toList, "*".toList] := by decide

/-! ## numbering, pruning, well-formedness -/

/-- the remaining tokens are numbered `1..n` without holes -/
theorem slash_numbering (o : TraceOpts) (ls : List Str) (t r : Tree) (hw : WF t = true)
    (h : ptbDeleteTracesSlash o (some ls) t = .ok r) :
    r.yield = List.range' 1 r.leafNums.length := by
  obtain ⟨t3, nums, ha, rfl, hv⟩ := slash_struct o ls t r h
  have hN := Numbered_of_WF t hw
  exact (deleteListN_valid nums.length t3 nums (ha.numbered (ptbDeleteTraces_numbered o t hN)) (hv hN)).1.2

/-- constituents left without tokens are pruned: below the root no childless constituent remains -/
theorem slash_pruned (o : TraceOpts) (ls : List Str) (t r : Tree) (hw : WF t = true)
    (h : ptbDeleteTracesSlash o (some ls) t = .ok r) : noEmptyL r.kids = true := by
  obtain ⟨t3, nums, ha, rfl, _⟩ := slash_struct o ls t r h
  have hb : belowOK t3 = true := by
    rw [ha.belowOK]
    exact ptbDeleteTraces_belowOK o t (belowOK_of_noEmpty t (WF_noEmpty t hw))
  have := deleteListN_belowOK nums.length t3 nums hb
  unfold deleteList
  generalize deleteListN nums.length t3 nums = r at this
  cases r with
  | leaf n f => rfl
  | node f ks => exact this

/-- the returned node is the root of the whole tree: a constituent, never a token -/
theorem slash_root (o : TraceOpts) (ls : List Str) (t r : Tree) (hw : WF t = true)
    (h : ptbDeleteTracesSlash o (some ls) t = .ok r) : r.isLeaf = false := by
  obtain ⟨t3, nums, ha, rfl, hv⟩ := slash_struct o ls t r h
  have hN := Numbered_of_WF t hw
  exact (deleteListN_valid nums.length t3 nums (ha.numbered (ptbDeleteTraces_numbered o t hN)) (hv hN)).1.1

/-- the result is again a well-formed tree, provided a token is left -/
theorem slash_WF (o : TraceOpts) (ls : List Str) (t r : Tree) (hw : WF t = true)
    (h : ptbDeleteTracesSlash o (some ls) t = .ok r) (hne : r.leafNums ≠ []) : WF r = true := by
  obtain ⟨t3, nums, ha, rfl, hv⟩ := slash_struct o ls t r h
  have hN := Numbered_of_WF t hw
  have hb : belowOK t3 = true := by
    rw [ha.belowOK]
    exact ptbDeleteTraces_belowOK o t (belowOK_of_noEmpty t (WF_noEmpty t hw))
  refine WF_of_numbered _
    (deleteListN_valid nums.length t3 nums (ha.numbered (ptbDeleteTraces_numbered o t hN)) (hv hN)).1
    (deleteListN_belowOK nums.length t3 nums hb) ?_
  exact List.length_pos_iff.2 hne

/-- a token is left as soon as the plain trace deletion leaves a token that is not a kept trace -/
theorem slash_WF_of_ordinary_token (o : TraceOpts) (ls : List Str) (t r : Tree) (hw : WF t = true)
    (h : ptbDeleteTracesSlash o (some ls) t = .ok r)
    (hex : ∃ tk ∈ (ptbDeleteTraces o t).sentence, tk.1 ≠ some NONE_POS) : WF r = true := by
  refine slash_WF o ls t r hw h ?_
  intro e
  have hs : r.sentence = [] := by
    have := sentence_length r
    rw [e] at this
    exact List.length_eq_zero_iff.1 this
  have h2 := (slash_tokens o ls t r h).2 hw
  rw [hs] at h2
  obtain ⟨tk, htk, hne⟩ := hex
  have : tk ∈ (ptbDeleteTraces o t).sentence.filter (fun tk => tk.1 != some NONE_POS) :=
    List.mem_filter.2 ⟨htk, by simpa using hne⟩
  rw [← h2] at this
  simp at this

example : (match ptbDeleteTracesSlash { keepall := true } (some []) exS with
      | .ok r => WF r && (r.yield == [1, 2, 3, 4, 5]) | .error _ => false) = true ∧
    (∃ tk ∈ (ptbDeleteTraces { keepall := true } exS).sentence, tk.1 ≠ some NONE_POS) := by
  refine ⟨by decide, (some "who".toList, "WP".toList), by decide, by decide⟩

/-- `ADVP` held nothing but the deleted trace: it is pruned; the root is returned -/
example : (match ptbDeleteTracesSlash { keepall := true } (some []) exS with
      | .ok r => noEmptyL r.kids && !r.isLeaf && !(consLabels r).contains "ADVP".toList && (r.fields.label == "S".toList)
      | .error _ => false) = true ∧
    (consLabels (ptbDeleteTraces { keepall := true } exS)).contains "ADVP".toList = true := by decide

/-- the hypothesis of `slash_WF` is needed: when the only token is a kept trace without filler, the root is
    left childless (as after the plain deletion of all tokens) -/
example : WF exE = true ∧ (match ptbDeleteTracesSlash { keepall := true } (some []) exE with
      | .ok r => r.leafNums.isEmpty && !(WF r) | .error _ => false) = true := by decide

/-! ## labels -/

/-- every constituent label of the result is the label of the corresponding constituent after the plain trace
    deletion (its cleaned label), followed by zero or more pieces `"/" ++ X`, `X` a bare label
    (`parse_label(..).label`); constituents are only ever removed (pruned) by the deletions -/
theorem slash_labels (o : TraceOpts) (ls : List Str) (t r : Tree)
    (h : ptbDeleteTracesSlash o (some ls) t = .ok r) :
    ∃ l3 : List Str, (consLabels r).Sublist l3 ∧ Pointwise Slashed l3 (consLabels (ptbDeleteTraces o t)) := by
  obtain ⟨t3, nums, ha, rfl, _⟩ := slash_struct o ls t r h
  exact ⟨consLabels t3, deleteListN_consLabels nums.length t3 nums, ha.consLabels⟩

/-- label by label, in terms of the input: a cleaned label of a constituent of the input, then slash pieces
    (a token must be left: a childless root keeps its label as it was) -/
theorem slash_labels_clean (o : TraceOpts) (ls : List Str) (t r : Tree) (hw : WF t = true)
    (hne : (ptbDeleteTraces o t).leafNums ≠ [])
    (h : ptbDeleteTracesSlash o (some ls) t = .ok r) :
    ∀ l ∈ consLabels r, ∃ l0 ∈ consLabels t, Slashed l (cleanLabel o l0) := by
  obtain ⟨l3, hsub, hp⟩ := slash_labels o ls t r h
  intro l hl
  obtain ⟨l2, hl2, hs⟩ := hp.exists_of_mem l (hsub.subset hl)
  -- the tree after the first loop
  have hb := foldl_traceStep_belowOK o ((t.terminals.filter fun l => l.fields.label == NONE_POS).map num) (t, 0)
    (belowOK_of_noEmpty t (WF_noEmpty t hw))
  have hsub1 := foldl_traceStep_consLabels o ((t.terminals.filter fun l => l.fields.label == NONE_POS).map num) (t, 0)
  unfold ptbDeleteTraces at hl2 hne
  simp only at hl2 hne hb hsub1
  generalize (((t.terminals.filter fun l => l.fields.label == NONE_POS).map num).foldl (traceStep o) (t, 0)).1 = t1
    at hl2 hne hb hsub1
  have hne1 : t1.noEmpty = true := by
    cases t1 with
    | leaf n f => rfl
    | node f ks =>
      cases ks with
      | nil => exact absurd rfl hne
      | cons k ks' => simpa [noEmpty, belowOK] using hb
  rw [TT.Lemmas.More4.cleanLabels_consLabels o t1 hne1] at hl2
  obtain ⟨l0, hl0, rfl⟩ := List.mem_map.1 hl2
  exact ⟨l0, hsub1.subset hl0, hs⟩

/-- token words and tags are not touched by the annotation -/
theorem slash_annotation_tokens {a b : Tree} (h : Annotated a b) : b.leaves = a.leaves := h.leaves

example : (match ptbDeleteTracesSlash { keepall := true } (some []) exS with
      | .ok r => consLabels r | .error _ => []) =
      ["S".toList, "WHNP".toList, "SQ/WHNP".toList, "NP-SBJ".toList, "VP/WHNP/NP".toList, "S/WHNP/NP".toList,
       "VP/NP".toList] ∧
    consLabels (ptbDeleteTraces { keepall := true } exS) =
      ["S".toList, "WHNP".toList, "SQ".toList, "NP-SBJ".toList, "VP".toList, "S".toList, "VP".toList, "ADVP".toList] ∧
    Slashed "VP/WHNP/NP".toList "VP".toList ∧ (ptbDeleteTraces { keepall := true } exS).leafNums ≠ [] := by
  refine ⟨by decide, by decide, ?_, by decide⟩
  exact ⟨"/WHNP/NP".toList, SlashSuffix.snoc _ "NP-SBJ".toList (SlashSuffix.snoc _ "WHNP".toList .nil), by decide⟩

/-! ## indices -/

/-- a label that ends in a slash piece `"/" ++ X` where `X` contains neither `-` nor `=` parses to an empty
    co-index and an empty gap index, whatever precedes the piece -/
theorem slash_piece_no_index (kc : Bool) (u x : Str) (h1 : '-' ∉ x) (h2 : '=' ∉ x) :
    noIndexLeft kc (u ++ '/' :: x) = true := noIndexLeft_slash kc u x h1 h2

/-- every constituent label of the result is either a label of the plain trace deletion (what is known about
    its indices: `TT.Props.C11More.cleanLabel_noIndex`) or ends in a slash piece `"/" ++ X`, `X` a bare label;
    in the second case no co-index and no gap index is left if `X` contains neither `-` nor `=` -/
theorem slash_no_index (o : TraceOpts) (ls : List Str) (t r : Tree)
    (h : ptbDeleteTracesSlash o (some ls) t = .ok r) :
    ∀ l ∈ consLabels r, l ∈ consLabels (ptbDeleteTraces o t) ∨
      ∃ u y, l = u ++ '/' :: (parseLabel DEFAULT_GF_SEP y).label ∧
        (('-' ∉ (parseLabel DEFAULT_GF_SEP y).label ∧ '=' ∉ (parseLabel DEFAULT_GF_SEP y).label) →
          ∀ kc, noIndexLeft kc l = true) := by
  obtain ⟨l3, hsub, hp⟩ := slash_labels o ls t r h
  intro l hl
  obtain ⟨l2, hl2, suf, hs, rfl⟩ := hp.exists_of_mem l (hsub.subset hl)
  cases hs with
  | nil => left; simpa using hl2
  | snoc s y _ =>
    right
    refine ⟨l2 ++ s, y, by simp, ?_⟩
    intro hx kc
    have := noIndexLeft_slash kc (l2 ++ s) _ hx.1 hx.2
    simpa using this

example : (match ptbDeleteTracesSlash { keepall := true } (some []) exS with
      | .ok r => (consLabels r).all (noIndexLeft false) | .error _ => false) = true := by decide

/-- the condition on the piece is needed: with stacked gap indices on the filler (`WHNP=1=2=3-1`, outside the
    documented label grammar) the bare label of the cleaned filler label is `WHNP=1`, and the annotated
    labels `SQ/WHNP=1`, .. parse to gap index 1 -/
def exG : Tree :=
  node { label := "S".toList } [
    node { label := "WHNP=1=2=3-1".toList } [leaf 1 { label := "WP".toList, word := some "who".toList }],
    node { label := "SQ".toList } [
      node { label := "VP".toList } [
        leaf 2 { label := "VBD".toList, word := some "saw".toList },
        node { label := "NP".toList } [leaf 3 { label := "-NONE-".toList, word := some "*T*-1".toList }]]]]

example : WF exG = true ∧ (match ptbDeleteTracesSlash { keepall := true } (some []) exG with
      | .ok r => consLabels r | .error _ => []) =
      ["S".toList, "WHNP=1=2".toList, "SQ/WHNP=1".toList, "VP/WHNP=1".toList, "NP/WHNP=1".toList] ∧
    (parseLabel DEFAULT_GF_SEP "SQ/WHNP=1".toList).gapindex = "1".toList ∧
    noIndexLeft false "SQ/WHNP=1".toList = false := by decide

/-- likewise a co-index: a filler labelled `-1-2-3-4` gives the piece "/" ++ "-1-2" -/
example : (parseLabel DEFAULT_GF_SEP (cleanLabel {} "-1-2-3-4".toList)).label = "-1-2".toList ∧
    (parseLabel DEFAULT_GF_SEP "SQ/-1-2".toList).coindex = "2".toList := by decide

end TT.Props.C11Slash
