/-
  C09 (RCG part) — the RCG clause writer `rcgLine` / `writeRcg` against the tool's own reader
  `readRcgLine` (`grammarinput.rcg`): a written clause is re-read as the rule it came from, for labels
  RCG can carry and ordered, non-deleting rules.  Helper lemmas: TT/Lemmas/RcgRT.lean.
-/
import TT.Props.C09
import TT.Lemmas.RcgRT
namespace TT.Props.C09Rcg
open TT TT.Spec
open TT.Lemmas.GramOut TT.Lemmas.RcgRT

/-- a label RCG can carry: non-empty, no whitespace, no parenthesis, no comma, not ending in a digit -/
def RcgLabelOK (s : Str) : Bool :=
  !s.isEmpty && s.all (fun c => !pyIsSpace c && c != '(' && c != ')' && c != ',') && !((s.getLast?.map Char.isDigit).getD false)

/-- the facts about a label the proofs use (non-emptiness, `)` and `,` are not needed) -/
theorem LabOK_of_RcgLabelOK (s : Str) (h : RcgLabelOK s = true) : LabOK s := by
  simp only [RcgLabelOK, Bool.and_eq_true, List.all_eq_true, Bool.not_eq_true', bne_iff_ne, ne_eq] at h
  obtain ⟨⟨_, h2⟩, h3⟩ := h
  refine ⟨fun c hc => (h2 c hc).1.1.1, fun hm => (h2 _ hm).1.1.2 rfl, ?_⟩
  intro c hc
  rw [hc] at h3
  simpa using h3

theorem labelStripFanout_append (s : Str) (n : Nat) (h : RcgLabelOK s = true) : labelStripFanout (s ++ natToStr n) = s :=
  labelStripFanout_append' s n (LabOK_of_RcgLabelOK s h).last

example : labelStripFanout ("VP".toList ++ natToStr 12) = "VP".toList := by decide
example : RcgLabelOK "VP".toList = true := by decide
/-- a label ending in a digit loses it: the hypothesis is needed -/
example : labelStripFanout ("V2".toList ++ natToStr 1) = "V".toList ∧ RcgLabelOK "V2".toList = false := by decide

set_option linter.unusedVariables false in
theorem splitPred_pred (s : Str) (n : Nat) (args : Str) (h : RcgLabelOK s = true) (ha : ∀ c ∈ args, c ≠ '(' ) :
    splitPred (s ++ natToStr n ++ ['('] ++ args ++ [')']) = (s, args) :=
  splitPred_pred' s n args (LabOK_of_RcgLabelOK s h).last (LabOK_of_RcgLabelOK s h).noPar

/-- the hypothesis on `args` is not used: the reader cuts at the FIRST parenthesis -/
theorem splitPred_pred_any (s : Str) (n : Nat) (args : Str) (h : RcgLabelOK s = true) :
    splitPred (s ++ natToStr n ++ ['('] ++ args ++ [')']) = (s, args) :=
  splitPred_pred' s n args (LabOK_of_RcgLabelOK s h).last (LabOK_of_RcgLabelOK s h).noPar

example : splitPred ("VP".toList ++ natToStr 2 ++ ['('] ++ "[0],[2]".toList ++ [')']) = ("VP".toList, "[0],[2]".toList) := by
  decide
example : ∀ c ∈ "[0],[2]".toList, c ≠ '(' := by decide

theorem argElems_vars (ns : List Nat) (h : ns ≠ []) :
    argElems ((ns.map fun n => ['['] ++ natToStr n ++ [']']).flatten) = ns.map natToStr :=
  argElems_vars' ns h

example : argElems "[0][11][2]".toList = ["0".toList, "11".toList, "2".toList] := by decide
example : ((([0, 11, 2] : List Nat).map fun n => ['['] ++ natToStr n ++ [']']).flatten) = "[0][11][2]".toList := by decide
/-- for no variable at all the reader yields one empty name, not none: `ns ≠ []` is needed -/
example : argElems [] = [[]] := by decide

/-- MAIN: the tool's own reader re-reads a written clause as the rule it came from (labels RCG can carry; ordered, non-deleting rule) -/
theorem readRcgLine_rcgLine (func : Func) (lin : Lin) (count : Nat)
    (hl : ∀ s ∈ func, RcgLabelOK s = true) (hf : 2 ≤ func.length)
    (hw : wfLin lin ((fanOut lin).drop 1) = true) (hk : (fanOut lin).length = func.length) :
    readRcgLine (rcgLine func lin count) = some (func, lin, count) :=
  readRcgLine_rcgLine' func lin count (fun s hs => LabOK_of_RcgLabelOK s (hl s hs)) hf hw hk

/-- `S -> VP NP` with a discontinuous `VP` wrapped around the `NP` -/
def exFunc : Func := ["S".toList, "VP".toList, "NP".toList]
def exLin : Lin := [[(0, 0), (1, 0), (0, 1)]]

example : rcgLine exFunc exLin 3 = "C:3 S1([0][1][2]) --> VP2([0],[2]) NP1([1])".toList := by decide +kernel
example : (∀ s ∈ exFunc, RcgLabelOK s = true) ∧ 2 ≤ exFunc.length ∧
    wfLin exLin ((fanOut exLin).drop 1) = true ∧ (fanOut exLin).length = exFunc.length := by decide
example : readRcgLine (rcgLine exFunc exLin 3) = some (exFunc, exLin, 3) :=
  readRcgLine_rcgLine exFunc exLin 3 (by decide) (by decide) (by decide) (by decide)
/-- fan-out 2 on the LHS, and an RHS element that contributes nothing to the yield (fan-out 0): its predicate is
    written `X0()`, whose single empty argument never matches a variable -/
example : rcgLine ["VP".toList, "X".toList, "V".toList, "PTK".toList] [[(1, 0)], [(2, 0)]] 7 =
    "C:7 VP2([0],[1]) --> X0() V1([0]) PTK1([1])".toList := by decide +kernel
example : wfLin [[(1, 0)], [(2, 0)]] ((fanOut [[(1, 0)], [(2, 0)]]).drop 1) = true := by decide
example : readRcgLine "C:7 VP2([0],[1]) --> X0() V1([0]) PTK1([1])".toList =
    some (["VP".toList, "X".toList, "V".toList, "PTK".toList], [[(1, 0)], [(2, 0)]], 7) := by decide +kernel

/-- the hypotheses are needed: a rule that is not ordered is re-read as a different (deleting) rule ... -/
example : readRcgLine (rcgLine ["S".toList, "A".toList] [[(0, 1)], [(0, 0)]] 3) =
    some (["S".toList, "A".toList], [[], [(0, 0)]], 3) ∧
    wfLin [[(0, 1)], [(0, 0)]] ((fanOut [[(0, 1)], [(0, 0)]]).drop 1) = false := by decide +kernel
/-- ... a label ending in a digit loses it, a label with `(` is cut there and its argument is lost -/
example : readRcgLine (rcgLine ["S".toList, "A2".toList] [[(0, 0)]] 3) = some (["S".toList, "A".toList], [[(0, 0)]], 3) := by
  decide +kernel
example : readRcgLine (rcgLine ["S".toList, "$(".toList] [[(0, 0)]] 3) = some (["S".toList, "$".toList], ([[]] : Lin), 3) := by
  decide +kernel

/-- the grammar file as a whole: every written line is re-read as its rule -/
theorem readRcg_writeRcg_rules (g : Grammar) (lex : Lexicon)
    (h : ∀ r ∈ g.rules, (∀ s ∈ r.1, RcgLabelOK s = true) ∧ 2 ≤ r.1.length ∧ wfLin r.2.1 ((fanOut r.2.1).drop 1) = true ∧ (fanOut r.2.1).length = r.1.length) :
    (writeRcg false g lex).1.mapM readRcgLine = some g.rules := by
  have e : (writeRcg false g lex).1 = g.rules.map fun r => rcgLine r.1 r.2.1 r.2.2 := rfl
  rw [e]
  have := mapM_option_map g.rules (fun r => rcgLine r.1 r.2.1 r.2.2) readRcgLine id (by
    rintro ⟨f, l, c⟩ hr
    obtain ⟨h1, h2, h3, h4⟩ := h _ hr
    exact readRcgLine_rcgLine f l c h1 h2 h3 h4)
  simpa using this

example : (writeRcg false TT.Props.C09.exG TT.Props.C09.exLex).1 =
    ["C:3 S1([0][1][2]) --> VP2([0],[2]) NP1([1])".toList, "C:3 VP2([0],[1]) --> V1([0]) PTK1([1])".toList] := by
  decide +kernel
example : ∀ r ∈ TT.Props.C09.exG.rules, (∀ s ∈ r.1, RcgLabelOK s = true) ∧ 2 ≤ r.1.length ∧
    wfLin r.2.1 ((fanOut r.2.1).drop 1) = true ∧ (fanOut r.2.1).length = r.1.length := by decide
example : (writeRcg false TT.Props.C09.exG TT.Props.C09.exLex).1.mapM readRcgLine = some TT.Props.C09.exG.rules :=
  readRcg_writeRcg_rules _ _ (by decide)

/-- consequence for `grammarinput.rcg` as a whole: reading the written grammar file (with any lexicon file) succeeds
    and yields the rules of `g` stored under the `VERT` key with their summed counts, in order -/
theorem readRcg_writeRcg (g : Grammar) (lex : Lexicon) (ll : List Str)
    (h : ∀ r ∈ g.rules, (∀ s ∈ r.1, RcgLabelOK s = true) ∧ 2 ≤ r.1.length ∧ wfLin r.2.1 ((fanOut r.2.1).drop 1) = true ∧ (fanOut r.2.1).length = r.1.length) :
    readRcg (writeRcg false g lex).1 ll =
      some (g.rules.foldl (fun (acc : Grammar) (r : Func × Lin × Nat) =>
          AList.upsert r.1 (fun o => AList.upsert r.2.1 (fun _ => [(VertKey.default, r.2.2)]) (o.getD [])) acc) [],
        ll.foldl readLexLine []) := by
  unfold readRcg
  rw [readRcg_writeRcg_rules g lex h]
  rfl

/-
  Status of the statements of the brief (W3-RCG)
  * proved exactly as stated: `labelStripFanout_append`, `splitPred_pred`, `argElems_vars`, `readRcgLine_rcgLine` (MAIN),
    `readRcg_writeRcg_rules`.  No statement was false, no side condition had to be added (the injectivity of `natToStr`
    is a theorem: `TT.Lemmas.GramOut.natToStr_inj`).
  * hypotheses that turned out not to be used: `ha` of `splitPred_pred` (`splitPred_pred_any`: the reader cuts at the first
    parenthesis); of `RcgLabelOK` only "no whitespace, no `(`, not ending in a digit" is used (`LabOK_of_RcgLabelOK`) — a
    label that is empty or contains `)` or `,` is still re-read correctly.  The hypotheses that are used are needed
    (examples above: unordered rule, label ending in a digit, label containing `(`).
  * further: `readRcg_writeRcg` (the reader of the whole file succeeds on the written file and stores exactly `g.rules`).
-/

end TT.Props.C09Rcg
