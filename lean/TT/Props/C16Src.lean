/-
  C16, clause 8 for EVERY source format and reader option record (wave 18): `treetools treeanalysis SRC TASK --src-format F
  --src-opts ...` (`TT.runAnalysisSrc`, TT/RunSrc.lean: the reader named by the format on the content of the file with
  the options given, the task's accumulator over the trees in file order, the numbers of the report).

  `C16Run` / `C16Stats` state the command on an export source with default options.  Here the same statements hold for
  all four readers and all option records, against the treebank that the reader yields:
  * `runAnalysisSrc_export`: on an export source with default options this IS `runAnalysis`.
  * `runAnalysisSrc_ok` / `_error` / `_ok_iff`: the command is the report of the trees read; succeeds iff the reader does.
  * `runAnalysisSrc_sentences`, `runAnalysisSrc_gap`, `runAnalysisSrc_gapStatsOK`, `runAnalysisSrc_gap_sums`,
    `runAnalysisSrc_tags`: what the numbers are.
  * `runAnalysisSrc_same_trees`: the report depends on the trees only - two sources (of whatever formats, under whatever
    options) from which the readers yield the same trees have the same report; `runAnalysisSrc_gap_same_shape`: for
    `GapDegree` it is enough that the trees have the same token NUMBERS under the same bracketing (`Tree.shape`), which is
    what every format carries: words, tags, labels and edges do not matter.
-/
import TT.RunSrc
import TT.Props.C16Run
import TT.Props.C16Stats
namespace TT.Props.C16Src
open TT TT.Tree TT.Spec
open TT.Props.C16Total (constituents)
open TT.Props.C16Run (treesOf)

theorem runAnalysisSrc_export (task : AnalysisTask) (text : Str) :
    runAnalysisSrc task {} (.export text) = runAnalysis task text := rfl

theorem runAnalysisSrc_eq (task : AnalysisTask) (io : InOpts) (src : Source) :
    runAnalysisSrc task io src = (readSrc io src).map fun r => analyse task (treesOf r) := by
  unfold runAnalysisSrc runAnalysisFrom
  cases readSrc io src <;> rfl

theorem runAnalysisSrc_ok (task : AnalysisTask) (io : InOpts) (src : Source) (r : List (Nat × Tree))
    (h : readSrc io src = .ok r) : runAnalysisSrc task io src = .ok (analyse task (treesOf r)) := by
  rw [runAnalysisSrc_eq, h]; rfl

/-- a file the reader refuses: the command ends with the reader's error, whatever the task -/
theorem runAnalysisSrc_error (task : AnalysisTask) (io : InOpts) (src : Source) (e : Err)
    (h : readSrc io src = .error e) : runAnalysisSrc task io src = .error e := by
  rw [runAnalysisSrc_eq, h]; rfl

/-- the command succeeds exactly when the reader does -/
theorem runAnalysisSrc_ok_iff (task : AnalysisTask) (io : InOpts) (src : Source) :
    (∃ rep, runAnalysisSrc task io src = .ok rep) ↔ ∃ r, readSrc io src = .ok r := by
  rw [runAnalysisSrc_eq]
  cases readSrc io src <;> simp [Except.map]

/-- MAIN `SentenceCount`: the number printed is the number of sentences the reader yields -/
theorem runAnalysisSrc_sentences (io : InOpts) (src : Source) (r : List (Nat × Tree)) (h : readSrc io src = .ok r) :
    runAnalysisSrc .sentenceCount io src = .ok (.sentences r.length) := by
  rw [runAnalysisSrc_ok _ _ _ _ h]
  simp [analyse, TT.Props.C16Total.sentenceCount_total]

/-- MAIN `GapDegree` (as `C16Run.runAnalysis_gap`, every source) -/
theorem runAnalysisSrc_gap (io : InOpts) (src : Source) (r : List (Nat × Tree)) (h : readSrc io src = .ok r) :
    ∃ pt pn, runAnalysisSrc .gapDegree io src =
        .ok (.gap r.length ((treesOf r).map fun t => (constituents t).length).sum pt pn) ∧
      (∀ d, (pt.find? (·.1 == d)).map (·.2) =
        (let n := ((treesOf r).filter fun t => gapDegree t = d).length; if n = 0 then none else some n)) ∧
      (∀ d, (pn.find? (·.1 == d)).map (·.2) =
        (let n := (((treesOf r).flatMap constituents).filter fun s => gapDegreeNode s = d).length
         if n = 0 then none else some n)) ∧
      (pt.map (·.1)).Nodup ∧ (pn.map (·.1)).Nodup := by
  refine ⟨((treesOf r).foldl GapStats.run {}).perTree, ((treesOf r).foldl GapStats.run {}).perNode, ?_, ?_, ?_, ?_, ?_⟩
  · rw [runAnalysisSrc_ok _ _ _ _ h]
    obtain ⟨h1, h2⟩ := TT.Props.C16More.gapstats_totals (treesOf r)
    simp only [analyse, gapReport, h1, h2, List.length_map]
  · exact fun d => TT.Props.C16Total.gapstats_perTree_count (treesOf r) d
  · exact fun d => TT.Props.C16Total.gapstats_perNode_count (treesOf r) d
  · exact (TT.Props.C16More.gapstats_keys_nodup (treesOf r)).2
  · exact (TT.Props.C16More.gapstats_keys_nodup (treesOf r)).1

/-- MAIN (whole command, every source): the report of `treeanalysis GapDegree` on a file the reader accepts passes the
    predicate `gapStatsOK` (the one evaluated on the implementation's report), on the trees the reader delivers -/
theorem runAnalysisSrc_gapStatsOK (io : InOpts) (src : Source) (r : List (Nat × Tree)) (h : readSrc io src = .ok r) :
    ∃ nt nn pt pn, runAnalysisSrc .gapDegree io src = .ok (.gap nt nn pt pn) ∧
      gapStatsOK (treesOf r) nt nn pt pn = true := by
  refine ⟨_, _, _, _, ?_, TT.Props.C16Stats.gapStatsOK_model (treesOf r)⟩
  rw [runAnalysisSrc_ok _ _ _ _ h]
  rfl

/-- the per-degree counts of either table sum to the total printed before them -/
theorem runAnalysisSrc_gap_sums (io : InOpts) (src : Source) (nt nn : Nat) (pt pn : List (Nat × Nat))
    (h : runAnalysisSrc .gapDegree io src = .ok (.gap nt nn pt pn)) :
    (pt.map (·.2)).sum = nt ∧ (pn.map (·.2)).sum = nn := by
  rw [runAnalysisSrc_eq] at h
  cases hr : readSrc io src with
  | error e => rw [hr] at h; cases h
  | ok r =>
    rw [hr] at h
    simp only [Except.map, analyse, gapReport, Except.ok.injEq, AnalysisReport.gap.injEq] at h
    obtain ⟨h1, h2, h3, h4⟩ := h
    subst h3 h4
    exact ⟨h1, h2⟩

/-- MAIN `PosTags` (as `C16Run.runAnalysis_tags`, every source) -/
theorem runAnalysisSrc_tags (io : InOpts) (src : Source) (r : List (Nat × Tree)) (h : readSrc io src = .ok r) :
    ∃ tags : List Str, runAnalysisSrc .posTags io src = .ok (.tags tags.length) ∧ tags.Nodup ∧
      (∀ tag, tag ∈ tags ↔ ∃ t ∈ treesOf r, ∃ x ∈ t.terminals, x.fields.label = tag) ∧
      tags.length ≤ ((treesOf r).map fun t => t.leafNums.length).sum := by
  refine ⟨((treesOf r).foldl posTagsRun []).eraseDups, ?_, TT.Props.C16Tags.nodup_eraseDups _, ?_, ?_⟩
  · rw [runAnalysisSrc_ok _ _ _ _ h]; rfl
  · exact fun tag => TT.Props.C16Tags.reported_counts_every_tag (treesOf r) tag
  · exact TT.Props.C16Tags.reported_le_tokens (treesOf r)

/-! ### the report depends on the trees only -/

/-- two sources - of whatever formats, under whatever reader options - from which the readers yield the same trees
    (sentence numbers aside) have the same report -/
theorem runAnalysisSrc_same_trees (task : AnalysisTask) (io₁ io₂ : InOpts) (s₁ s₂ : Source) (r₁ r₂ : List (Nat × Tree))
    (h₁ : readSrc io₁ s₁ = .ok r₁) (h₂ : readSrc io₂ s₂ = .ok r₂) (hs : treesOf r₁ = treesOf r₂) :
    runAnalysisSrc task io₁ s₁ = runAnalysisSrc task io₂ s₂ := by
  rw [runAnalysisSrc_ok _ _ _ _ h₁, runAnalysisSrc_ok _ _ _ _ h₂, hs]

/-- the report is `.ok rep` (a Bool, for the closed instances below) -/
def repIs (x : Except Err AnalysisReport) (rep : AnalysisReport) : Bool :=
  match x with
  | .ok r => r == rep
  | .error _ => false

theorem eq_of_repIs (x : Except Err AnalysisReport) (rep : AnalysisReport) (h : repIs x rep = true) : x = .ok rep := by
  cases x with
  | error e => simp [repIs] at h
  | ok r => simp only [repIs, beq_iff_eq] at h; rw [h]

/-- non-vacuous: a discobracket source with a discontinuous node, a bracket source of two sentences, a refused file -/
example : runAnalysisSrc .gapDegree {} (.discobrackets "(S (VP (A 0) (B 2)) (C 1))\ta b c\n".toList) =
    .ok (.gap 1 2 [(1, 1)] [(0, 1), (1, 1)]) := eq_of_repIs _ _ (by decide +kernel)

example : runAnalysisSrc .sentenceCount {} (.brackets "(S (A a)) (S (B b) (C c))".toList) = .ok (.sentences 2) :=
  eq_of_repIs _ _ (by decide +kernel)

example : (runAnalysisSrc .posTags {} (.brackets "(S (A a)".toList)).toOption.isNone = true := by decide +kernel

end TT.Props.C16Src
