/-
  C10 on the whole commands (`TT/Run.lean`): `treetools transitions` writes one plain line per tree that survives the
  steps, each the line of the oracle's sequence, sentence by sentence; `treetools grammar` hands the treebank's lexicon to
  the writer whatever the grammar type.  All statements of the brief are proved exactly as given.
-/
import TT.Lemmas.Run
import TT.Props.C10
import TT.Props.C17Run
namespace TT.Props.C10Run
open TT TT.Tree
open TT.Lemmas.Run

/-- the line of one tree -/
def lineOf (sys : TransSys) (pos : Bool) (p : Nat × Tree) : Except Err Str :=
  (oracle sys p.2).map (plainLine pos p.2)

theorem runTransitions_ok (steps : List Step) (sys : TransSys) (pos : Bool) (ts : List (Nat × Tree)) :
    runTransitions steps sys pos (.ok ts) = (transformAll steps ts >>= fun ts' => ts'.mapM (lineOf sys pos)) := rfl

/-- element-wise description of a successful `mapM` -/
theorem mapM_getElem {ε α β : Type} (f : α → Except ε β) : ∀ (l : List α) (r : List β), l.mapM f = .ok r →
    ∀ i (hi : i < l.length), ∃ b, f l[i] = .ok b ∧ r[i]? = some b
  | [], _, _, i, hi => by simp at hi
  | a :: l, r, h, i, hi => by
    rw [List.mapM_cons] at h
    obtain ⟨b, hb, h⟩ := bind_ok _ _ _ h
    obtain ⟨bs, hbs, h⟩ := bind_ok _ _ _ h
    simp only [pure, Except.pure, Except.ok.injEq] at h
    subst h
    cases i with
    | zero => exact ⟨b, hb, rfl⟩
    | succ i =>
      simp only [List.length_cons, Nat.add_lt_add_iff_right] at hi
      simpa using mapM_getElem f l bs hbs i hi

theorem mapM_append_ok {ε α β : Type} (f : α → Except ε β) (a b : List α) (x y : List β)
    (ha : a.mapM f = .ok x) (hb : b.mapM f = .ok y) : (a ++ b).mapM f = .ok (x ++ y) := by
  rw [List.mapM_append, ha, hb]; rfl

/-- what `runTransitions` did when it succeeded -/
theorem runTransitions_inv (steps : List Step) (sys : TransSys) (pos : Bool) (ts : List (Nat × Tree)) (ls : List Str)
    (h : runTransitions steps sys pos (.ok ts) = .ok ls) :
    ∃ ts', transformAll steps ts = .ok ts' ∧ ts'.mapM (lineOf sys pos) = .ok ls := by
  rw [runTransitions_ok] at h
  exact bind_ok _ _ _ h

/-- the command writes one line per tree that survives the steps, in order -/
theorem runTransitions_length (steps : List Step) (sys : TransSys) (pos : Bool) (ts ts' : List (Nat × Tree)) (ls : List Str)
    (ht : transformAll steps ts = .ok ts') (h : runTransitions steps sys pos (.ok ts) = .ok ls) : ls.length = ts'.length := by
  obtain ⟨ts'', h1, h2⟩ := runTransitions_inv steps sys pos ts ls h
  rw [ht] at h1
  cases h1
  exact mapM_length _ _ _ h2

/-- ... each line is the plain line of the oracle's sequence for that tree -/
theorem runTransitions_lines (steps : List Step) (sys : TransSys) (pos : Bool) (ts ts' : List (Nat × Tree)) (ls : List Str)
    (ht : transformAll steps ts = .ok ts') (h : runTransitions steps sys pos (.ok ts) = .ok ls) :
    ∀ i (hi : i < ts'.length), ∃ acts, oracle sys (ts'[i]).2 = .ok acts ∧ ls[i]? = some (plainLine pos (ts'[i]).2 acts) := by
  obtain ⟨ts'', h1, h2⟩ := runTransitions_inv steps sys pos ts ls h
  rw [ht] at h1
  cases h1
  intro i hi
  obtain ⟨b, hb, hr⟩ := mapM_getElem _ _ _ h2 i hi
  unfold lineOf at hb
  cases ho : oracle sys (ts'[i]).2 with
  | error e => rw [ho] at hb; cases hb
  | ok acts =>
    rw [ho] at hb
    simp only [Except.map, Except.ok.injEq] at hb
    exact ⟨acts, rfl, by rw [hr, hb]⟩

/-- sentence locality of the whole command -/
theorem runTransitions_append (steps : List Step) (sys : TransSys) (pos : Bool) (a b : List (Nat × Tree)) (la lb : List Str)
    (ha : runTransitions steps sys pos (.ok a) = .ok la) (hb : runTransitions steps sys pos (.ok b) = .ok lb) :
    runTransitions steps sys pos (.ok (a ++ b)) = .ok (la ++ lb) := by
  obtain ⟨a', ha1, ha2⟩ := runTransitions_inv steps sys pos a la ha
  obtain ⟨b', hb1, hb2⟩ := runTransitions_inv steps sys pos b lb hb
  rw [runTransitions_ok, transformAll_append, ha1, hb1]
  exact mapM_append_ok _ _ _ _ _ ha2 hb2

/-- the converse: when the command succeeds on `a ++ b` it succeeds on both halves, and the lines are those of the halves -/
theorem runTransitions_split (steps : List Step) (sys : TransSys) (pos : Bool) (a b : List (Nat × Tree)) (ls : List Str)
    (h : runTransitions steps sys pos (.ok (a ++ b)) = .ok ls) :
    ∃ la lb, runTransitions steps sys pos (.ok a) = .ok la ∧ runTransitions steps sys pos (.ok b) = .ok lb ∧ ls = la ++ lb := by
  rw [runTransitions_ok, transformAll_append] at h
  obtain ⟨ab, h1, h2⟩ := bind_ok _ _ _ h
  obtain ⟨a', ha1, h1⟩ := bind_ok _ _ _ h1
  obtain ⟨b', hb1, h1⟩ := bind_ok _ _ _ h1
  simp only [pure, Except.pure, Except.ok.injEq] at h1
  subst h1
  rw [List.mapM_append] at h2
  obtain ⟨la, hla, h2⟩ := bind_ok _ _ _ h2
  obtain ⟨lb, hlb, h2⟩ := bind_ok _ _ _ h2
  simp only [pure, Except.pure, Except.ok.injEq] at h2
  refine ⟨la, lb, ?_, ?_, h2.symm⟩
  · rw [runTransitions_ok, ha1]; exact hla
  · rw [runTransitions_ok, hb1]; exact hlb

/-- the grammar command: the lexicon is the treebank's, whatever the grammar type; the treebank type hands over the extracted grammar -/
theorem runGrammarFrom_treebank (mo : Option MarkovOpts) (ts : List (Nat × Tree)) :
    runGrammarFrom .treebank mo (.ok ts) = .ok (extractAll (ts.map (·.2))) := rfl

/-- the grammar the command hands to the writer, from the extracted one -/
def handedGrammar (gt : GramType) (mo : Option MarkovOpts) (g : Grammar) : Grammar :=
  match gt with
  | .treebank => g
  | .leftright => binarizeGrammar .leftright mo g
  | .optimal => binarizeGrammar .optimal mo g

theorem runGrammarFrom_ok (gt : GramType) (mo : Option MarkovOpts) (ts : List (Nat × Tree)) :
    runGrammarFrom gt mo (.ok ts) =
      .ok (handedGrammar gt mo (extractAll (ts.map (·.2))).1, (extractAll (ts.map (·.2))).2) := rfl

theorem runGrammarFrom_lexicon (gt : GramType) (mo : Option MarkovOpts) (ts : List (Nat × Tree)) (g : Grammar) (l : Lexicon)
    (h : runGrammarFrom gt mo (.ok ts) = .ok (g, l)) : l = (extractAll (ts.map (·.2))).2 := by
  rw [runGrammarFrom_ok] at h
  simp only [Except.ok.injEq, Prod.mk.injEq] at h
  exact h.2.symm

/-- the other two types hand over the binarization of the extracted grammar -/
theorem runGrammarFrom_binarized (gt : GramType) (mo : Option MarkovOpts) (ts : List (Nat × Tree)) (g : Grammar) (l : Lexicon)
    (h : runGrammarFrom gt mo (.ok ts) = .ok (g, l)) :
    g = handedGrammar gt mo (extractAll (ts.map (·.2))).1 := by
  rw [runGrammarFrom_ok] at h
  simp only [Except.ok.injEq, Prod.mk.injEq] at h
  exact h.1.symm

/-- a source that could not be read fails both commands with the reader's error -/
theorem run_source_error (steps : List Step) (sys : TransSys) (pos : Bool) (gt : GramType) (mo : Option MarkovOpts) (e : Err) :
    runTransitions steps sys pos (.error e) = .error e ∧ runGrammarFrom gt mo (.error e) = .error e := ⟨rfl, rfl⟩

/-! ### concrete instances -/

/-- a one-token tree, a tree the step `dropT` removes, a ternary tree -/
def exSrc : List (Nat × Tree) := [(1, C10.exOne), (2, C17Run.t2), (3, C10.exTop)]
def exKept : List (Nat × Tree) := [(1, C10.exOne), (3, C10.exTop)]
def exLines : List Str :=
  ["rain ||| SHIFT PJ-NP REDUCE PJ-TOP REDUCE".toList,
   "the cat mice eats ||| SHIFT PJ-NP SHIFT REDUCE PJ-S SHIFT SHIFT PJ-VP REDUCE REDUCE PJ-TOP REDUCE".toList]

theorem ex_transform : transformAll [C17Run.dropT] exSrc = .ok exKept := rfl
theorem ex_run : runTransitions [C17Run.dropT] .inorder false (.ok exSrc) = .ok exLines := by
  have h : (runTransitions [C17Run.dropT] .inorder false (.ok exSrc)).toOption = some exLines := by decide +kernel
  cases hr : runTransitions [C17Run.dropT] .inorder false (.ok exSrc) with
  | error e => rw [hr] at h; cases h
  | ok ls => rw [hr] at h; simp only [Except.toOption, Option.some.injEq] at h; rw [h]

/-- three trees are read, two survive, two lines are written -/
example : exLines.length = exKept.length := runTransitions_length _ _ _ _ _ _ ex_transform ex_run
example : ∃ acts, oracle .inorder C10.exTop = .ok acts ∧ exLines[1]? = some (plainLine false C10.exTop acts) :=
  runTransitions_lines _ _ _ _ _ _ ex_transform ex_run 1 (by decide)
/-- the halves of the source, with part-of-speech tags instead of words -/
example : (runTransitions [C17Run.dropT] .inorder true (.ok (exSrc.take 2))).toOption =
      some ["NN ||| SHIFT PJ-NP REDUCE PJ-TOP REDUCE".toList] ∧
    (runTransitions [C17Run.dropT] .inorder true (.ok (exSrc.drop 2))).toOption =
      some ["DT NN NN VB ||| SHIFT PJ-NP SHIFT REDUCE PJ-S SHIFT SHIFT PJ-VP REDUCE REDUCE PJ-TOP REDUCE".toList] := by
  decide +kernel
example : ∃ la lb, runTransitions [C17Run.dropT] .inorder false (.ok (exSrc.take 2)) = .ok la ∧
    runTransitions [C17Run.dropT] .inorder false (.ok (exSrc.drop 2)) = .ok lb ∧ exLines = la ++ lb :=
  runTransitions_split _ _ _ (exSrc.take 2) (exSrc.drop 2) exLines ex_run
/-- the top-down oracle refuses the ternary tree: the whole command fails, nothing is written -/
example : (runTransitions [C17Run.dropT] .topdown false (.ok exSrc)).toOption = none := by decide +kernel
/-- the lexicon handed over with a binarized grammar is the treebank's -/
example : (runGrammarFrom .leftright none (.ok exSrc)).toOption.map (·.2) =
    some (extractAll (exSrc.map (·.2))).2 := rfl
example : (extractAll (exSrc.map (·.2))).2.map (·.1) =
    ["rain".toList, "d".toList, "the".toList, "cat".toList, "mice".toList, "eats".toList] := by decide +kernel

end TT.Props.C10Run
