/-
  C19, clause 6 (wave 15): the check "left and right sibling are mutually inverse neighbours of the ordered child list",
  which so far existed only as inline code of the driver (`P.C19.siblings`), as a NAMED specification predicate
  `Spec.siblingsOK` (TT/Spec/More15d.lean) — and the theorem that it holds of the model's own answers.
-/
import TT.Spec.More15d
import TT.Props.C19
import TT.Props.C19More
namespace TT.Props.C19More2
open TT TT.Tree TT.Spec
open TT.Props.C19More (rightSibling_next leftSibling_prev rightSibling_none leftSibling_none)

/-- the model's table of answers: for every node, in the order of `paths`, its left and its right sibling -/
def siblingTable (t : Tree) : List SibRow := (paths t).map fun p => (p, leftSibling t p, rightSibling t p)

theorem find_table (t : Tree) (q : Path) : ∀ (ps : List Path), q ∈ ps →
    (ps.map fun p => ((p, leftSibling t p, rightSibling t p) : SibRow)).find? (·.1 == q) =
      some (q, leftSibling t q, rightSibling t q)
  | [], h => by cases h
  | p :: ps, h => by
    rw [List.map_cons, List.find?_cons]
    by_cases hpq : p = q
    · subst hpq; simp
    · have : (p == q) = false := by simpa using hpq
      simp only [this]
      exact find_table t q ps (by simpa [Ne.symm hpq] using h)

theorem mem_paths_of_get (t : Tree) (p : Path) (a : Tree) (h : t.get? p = some a) : p ∈ paths t :=
  (TT.Lemmas.ExportRT.mem_paths_iff t p).2 (by simp [h])

theorem get_of_mem_paths (t : Tree) (p : Path) (h : p ∈ paths t) : ∃ a, t.get? p = some a :=
  Option.isSome_iff_exists.1 ((TT.Lemmas.ExportRT.mem_paths_iff t p).1 h)

theorem leftTokAt_of_get (t : Tree) (p : Path) (a : Tree) (h : t.get? p = some a) : leftTokAt t p = minLeaf a := by
  simp [leftTokAt, h]

theorem sibAddr_iff (p s : Path) : sibAddr p s = true ↔ s.length = p.length ∧ s.dropLast = p.dropLast := by
  simp [sibAddr]

/-- MAIN: the predicate that judges the implementation's `left_sibling` / `right_sibling` answers holds of the model's
    answers, for every tree whose siblings have pairwise different leftmost tokens (every well-formed tree) -/
theorem siblingsOK_model (t : Tree) (hd : sibDistinct t = true) : siblingsOK t (siblingTable t) = true := by
  unfold siblingsOK siblingTable
  simp only [Bool.and_eq_true, beq_iff_eq, List.all_eq_true, List.map_map]
  refine ⟨by simp [Function.comp_def], ?_⟩
  intro row hrow
  obtain ⟨p, hp, rfl⟩ := List.mem_map.1 hrow
  obtain ⟨a, ha⟩ := get_of_mem_paths t p hp
  simp only
  constructor
  · cases hr : rightSibling t p with
    | some q =>
      obtain ⟨a', b, ha', hb, _, h1, h2, hlt, hbt⟩ := rightSibling_next t p q hd hr
      rw [ha] at ha'; cases ha'
      have hq := mem_paths_of_get t q b hb
      simp only [find_table t q _ hq, Option.map_some, Option.getD_some, TT.Props.C19.siblings_inverse t p q hr,
        Bool.and_eq_true, beq_iff_eq, decide_eq_true_eq, List.all_eq_true, Bool.or_eq_true, Bool.not_eq_true',
        leftTokAt_of_get t p a ha, leftTokAt_of_get t q b hb]
      refine ⟨⟨⟨trivial, (sibAddr_iff p q).2 ⟨h1, h2⟩⟩, hlt⟩, ?_⟩
      intro s hs
      obtain ⟨c, hc⟩ := get_of_mem_paths t s hs
      by_cases hsp : sibAddr p s = true
      · right
        obtain ⟨e1, e2⟩ := (sibAddr_iff p s).1 hsp
        have := hbt s c e1 e2 hc
        rw [leftTokAt_of_get t s c hc]
        simpa using this
      · left; simpa using hsp
    | none =>
      simp only [Bool.or_eq_true, beq_iff_eq, List.all_eq_true, Bool.not_eq_true', decide_eq_true_eq]
      right
      intro s hs
      obtain ⟨c, hc⟩ := get_of_mem_paths t s hs
      by_cases hsp : sibAddr p s = true
      · right
        obtain ⟨e1, e2⟩ := (sibAddr_iff p s).1 hsp
        rw [leftTokAt_of_get t s c hc, leftTokAt_of_get t p a ha]
        exact rightSibling_none t p a ha hr s c e1 e2 hc
      · left; simpa using hsp
  · cases hl : leftSibling t p with
    | some q =>
      obtain ⟨a', b, ha', hb, _, h1, h2, hlt, hbt⟩ := leftSibling_prev t p q hd hl
      have hq := mem_paths_of_get t q b hb
      simp only [find_table t q _ hq, Option.map_some, Option.getD_some, TT.Props.C19.siblings_inverse' t p q hl,
        beq_self_eq_true]
    | none =>
      simp only [Bool.or_eq_true, beq_iff_eq, List.all_eq_true, Bool.not_eq_true', decide_eq_true_eq]
      right
      intro s hs
      obtain ⟨c, hc⟩ := get_of_mem_paths t s hs
      by_cases hsp : sibAddr p s = true
      · right
        obtain ⟨e1, e2⟩ := (sibAddr_iff p s).1 hsp
        rw [leftTokAt_of_get t s c hc, leftTokAt_of_get t p a ha]
        exact leftSibling_none t p a ha hl s c e1 e2 hc
      · left; simpa using hsp

/-- every well-formed tree -/
theorem siblingsOK_WF (t : Tree) (h : WF t = true) : siblingsOK t (siblingTable t) = true :=
  siblingsOK_model t (TT.Lemmas.WF.WF_sibDistinct t h)

/-! ### what the predicate says, read off a table that passes (so that it cannot drift from the theorems of C19More) -/

/-- a table that passes lists the nodes of the tree, and a right-sibling answer in it is a sibling with a larger leftmost
    token and nothing strictly between -/
theorem siblingsOK_right (t : Tree) (tbl : List SibRow) (h : siblingsOK t tbl = true) (p q : Path) (l : Option Path)
    (hrow : (p, l, some q) ∈ tbl) :
    p ∈ paths t ∧ q.length = p.length ∧ q.dropLast = p.dropLast ∧ leftTokAt t p < leftTokAt t q ∧
      ∀ s ∈ paths t, s.length = p.length → s.dropLast = p.dropLast → ¬ (leftTokAt t p < leftTokAt t s ∧ leftTokAt t s < leftTokAt t q) := by
  unfold siblingsOK at h
  simp only [Bool.and_eq_true, beq_iff_eq, List.all_eq_true] at h
  obtain ⟨hps, hall⟩ := h
  have hp : p ∈ paths t := by rw [← hps]; exact List.mem_map.2 ⟨_, hrow, rfl⟩
  have := (hall _ hrow).1
  simp only [Bool.and_eq_true, decide_eq_true_eq, List.all_eq_true, Bool.or_eq_true, Bool.not_eq_true'] at this
  obtain ⟨⟨⟨_, hsp⟩, hlt⟩, hbt⟩ := this
  obtain ⟨e1, e2⟩ := (sibAddr_iff p q).1 hsp
  refine ⟨hp, e1, e2, hlt, ?_⟩
  intro s hs e3 e4 hbtw
  rcases hbt s hs with h1 | h1
  · have := (sibAddr_iff p s).2 ⟨e3, e4⟩
    rw [this] at h1; cases h1
  · simp [hbtw.1, hbtw.2] at h1

/-! ### concrete instances -/

/-- a discontinuous tree whose children are stored out of order: S over VP(1,3) and token 2 -/
abbrev exT : Tree := TT.Props.C02.exDisc

example : sibDistinct exT = true := by decide +kernel
example : siblingsOK exT (siblingTable exT) = true := siblingsOK_model exT (by decide +kernel)
/-- the predicate is not vacuous: swapping the two answers of one node, or answering a non-neighbour, fails -/
example : siblingsOK exT ((siblingTable exT).map fun (p, l, r) => (p, r, l)) = false := by decide +kernel
example : siblingsOK exT ((siblingTable exT).map fun (p, _, _) => (p, none, none)) = false := by decide +kernel
/-- `sibDistinct` cannot be dropped: two children with the same leftmost token — the strict inequality fails of the model -/
def bad : Tree := node { label := "S".toList }
  [node { label := "A".toList } [leaf 1 { label := "x".toList }], node { label := "B".toList } [leaf 1 { label := "y".toList }]]
example : sibDistinct bad = false ∧ siblingsOK bad (siblingTable bad) = false := by decide +kernel

end TT.Props.C19More2
