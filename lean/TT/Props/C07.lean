/-
  C07 — grammar binarization: rank, labels, reordering, chain composition
-/
import TT.Spec.Grammar
import TT.Lemmas.GramBin
namespace TT.Props.C07
open TT TT.Tree TT.Spec TT.Lemmas.GramBin

/-- T1: binarize_rule only writes rules with at most two RHS elements (given the result so far has that property) -/
theorem binarizeRule_rank (mo : Option MarkovOpts) (func : Func) (lin : Lin) (cnt : Nat) (vert : List Str)
    (st : GenState) (res : Grammar) (h : ∀ e ∈ res, e.1.length ≤ 3) :
    ∀ e ∈ (binarizeRule mo func lin cnt vert st res).2, e.1.length ≤ 3 :=
  TT.Lemmas.GramBin.binarizeRule_rank mo func lin cnt vert st res h

theorem binarizeGrammar_rank (r : Reordering) (mo : Option MarkovOpts) (g : Grammar) :
    ∀ e ∈ binarizeGrammar r mo g, e.1.length ≤ 3 := by
  cases mo with
  | some o =>
    simp only [binarizeGrammar]
    apply foldl_inv (fun acc : GenState × Grammar => ∀ e ∈ acc.2, e.1.length ≤ 3)
    · rintro acc ⟨f, l, v, c⟩ _ h
      exact TT.Lemmas.GramBin.binarizeRule_rank _ _ _ _ _ _ _ h
    · simp
  | none =>
    simp only [binarizeGrammar]
    apply foldl_inv (fun acc : GenState × Grammar => ∀ e ∈ acc.2, e.1.length ≤ 3)
    · rintro acc ⟨f, l, c⟩ _ h
      exact TT.Lemmas.GramBin.binarizeRule_rank _ _ _ _ _ _ _ h
    · simp

/-- T5: rules with at most two RHS elements are kept as they are (their count is added) -/
theorem small_rule_kept (mo : Option MarkovOpts) (func : Func) (lin : Lin) (cnt : Nat) (vert : List Str)
    (st : GenState) (res : Grammar) (h : func.length ≤ 3) :
    (binarizeRule mo func lin cnt vert st res) = (st, res.add func lin .default cnt) :=
  binarizeRule_small mo func lin cnt vert st res h

/-- T4: deterministic labels are fresh: each call hands out a new number -/
theorem unique_labels_fresh (st : GenState) (func : Func) (pos : Nat) (vert : List Str) (fo : List Nat) :
    (nextLabel none st func pos vert fo).1 = uniqueLabel (st.numb + 1) ∧ (nextLabel none st func pos vert fo).2.numb = st.numb + 1 :=
  ⟨rfl, rfl⟩

theorem uniqueLabel_injective (a b : Nat) (h : uniqueLabel a = uniqueLabel b) : a = b := by
  unfold uniqueLabel at h
  exact natToStr_injective (List.append_cancel_left (List.append_cancel_right h))

/-- T3: the optimal reordering returns a permutation of the RHS with the same LHS -/
theorem pickOrder_perm (lin : Lin) (pos : List Nat) (hn : pos.Nodup) : (pickOrder lin pos pos.length).Perm pos :=
  pickOrder_perm_aux lin pos.length pos hn rfl

theorem reorder_perm (func : Func) (lin : Lin) (h : func ≠ []) :
    (reorderingOptimal func lin).1.head? = func.head? ∧ ((reorderingOptimal func lin).1.drop 1).Perm (func.drop 1) := by
  rw [reorderingOptimal_fst]
  refine ⟨?_, ?_⟩
  · cases func with
    | nil => exact absurd rfl h
    | cons a r => simp
  · simp only [List.drop_succ_cons, List.drop_zero]
    rw [drop_one_eq_map func]
    apply List.Perm.map
    have := pickOrder_perm lin ((List.range (func.length - 1)).map (· + 1)) (nodup_range_succ _)
    simpa using this

set_option linter.unusedVariables false in
/-- T2 for rank 3 and the general step lemma (the chain composes to the rule) -/
theorem chain_step (lin : Lin) (fo : List Nat) (h : wfLin lin fo = true) (hk : 2 ≤ fo.length)
    (e0 : List (List Atom)) (rest : List (List (List Atom))) :
    -- evaluating `topLin lin` on element 0 and the evaluated `restLin lin` equals evaluating `lin` directly
    (instLin (restLin lin) rest).bind (fun r => instLin (topLin lin) [e0, r]) = instLin lin (e0 :: rest) :=
  chain_step' lin (WF'_of_wfLin lin fo h) e0 rest

theorem chain_composes (func : Func) (lin : Lin) (h : wfLin lin ((fanOut lin).drop 1) = true)
    (hl : (fanOut lin).length = func.length) : chainComposesPos func lin = true := by
  unfold chainComposesPos
  by_cases h3 : func.length ≤ 3
  · simp [h3]
  · simp only [h3, if_false]
    have hlen : ((fanOut lin).drop 1).length = func.length - 1 := by simp [hl]
    have helems : ((List.range (func.length - 1)).map fun i => formalBlocks i ((fanOut lin)[i + 1]?.getD 0)) =
        ((List.range ((fanOut lin).drop 1).length).map fun i =>
          formalBlocks i (((fanOut lin).drop 1)[i]?.getD 0)) := by
      rw [hlen]
      apply List.map_congr_left
      intro i _
      rw [List.getElem?_drop, Nat.add_comm]
    rw [helems, evalChain_chainLins _ _ _ (WF'_of_wfLin _ _ h) (by simp [hl]; omega), instLin_formal _ _ h]
    simp

/-! ### concrete instances -/

/-- a rule of rank 4 with fan-outs 2 1 2 1 and LHS fan-out 2 -/
def exFunc : Func := ["S".toList, "A".toList, "B".toList, "C".toList, "D".toList]
def exLin : Lin := [[(0, 0), (2, 0), (1, 0)], [(3, 0), (0, 1), (2, 1)]]

example : ∀ e ∈ (binarizeRule none exFunc exLin 3 [] {} []).2, e.1.length ≤ 3 :=
  binarizeRule_rank none exFunc exLin 3 [] {} [] (by simp)
example : ∀ e ∈ binarizeGrammar .optimal (some ⟨1, 2, false⟩)
    (Grammar.add [] exFunc exLin (.ctx ["S2".toList]) 3),
    e.1.length ≤ 3 := binarizeGrammar_rank _ _ _
example : binarizeRule none (exFunc.take 3) [[(0, 0), (1, 0)]] 2 [] {} [] =
    ({}, Grammar.add [] (exFunc.take 3) [[(0, 0), (1, 0)]] .default 2) :=
  small_rule_kept _ _ _ _ _ _ _ (by decide)
example : (nextLabel none ⟨7⟩ exFunc 0 [] []).1 = uniqueLabel 8 := (unique_labels_fresh ⟨7⟩ exFunc 0 [] []).1
example : uniqueLabel 12 ≠ uniqueLabel 21 := fun h => absurd (uniqueLabel_injective _ _ h) (by decide)
example : (pickOrder exLin [1, 2, 3, 4] 4).Perm [1, 2, 3, 4] := pickOrder_perm exLin [1, 2, 3, 4] (by decide)
example : ((reorderingOptimal exFunc exLin).1.drop 1).Perm (exFunc.drop 1) := (reorder_perm exFunc exLin (by decide)).2
example : wfLin exLin [2, 1, 2, 1] = true := by decide
example (e0 : List (List Atom)) (rest : List (List (List Atom))) :
    (instLin (restLin exLin) rest).bind (fun r => instLin (topLin exLin) [e0, r]) = instLin exLin (e0 :: rest) :=
  chain_step exLin [2, 1, 2, 1] (by decide) (by decide) e0 rest
example : chainComposesPos exFunc exLin = true := chain_composes exFunc exLin (by decide) (by decide)

end TT.Props.C07
