/-
  C07 — grammar binarization: rank, labels, reordering, chain composition
-/
import TT.Spec.Grammar
import TT.Lemmas.GramBin
namespace TT.Props.C07
open TT TT.Tree TT.Spec TT.Lemmas.GramBin

/-- T1: binarize_rule only writes rules with at most two RHS elements (given the result so far has that property) -/
theorem binarizeRule_rank (mo : Option MarkovOpts) (func : Func) (lin : Lin) (cnt : Nat) (vert : List Str)
    (st : GenState) (res : Grammar) (h : ∀ e ∈ res, e.1.length ≤ 3) :
    ∀ e ∈ (binarizeRule mo func lin cnt vert st res).2, e.1.length ≤ 3 :=
  TT.Lemmas.GramBin.binarizeRule_rank mo func lin cnt vert st res h

theorem binarizeGrammar_rank (r : Reordering) (mo : Option MarkovOpts) (g : Grammar) :
    ∀ e ∈ binarizeGrammar r mo g, e.1.length ≤ 3 := by
  cases mo with
  | some o =>
    simp only [binarizeGrammar]
    apply foldl_inv (fun acc : GenState × Grammar => ∀ e ∈ acc.2, e.1.length ≤ 3)
    · rintro acc ⟨f, l, v, c⟩ _ h
      exact TT.Lemmas.GramBin.binarizeRule_rank _ _ _ _ _ _ _ h
    · simp
  | none =>
    simp only [binarizeGrammar]
    apply foldl_inv (fun acc : GenState × Grammar => ∀ e ∈ acc.2, e.1.length ≤ 3)
    · rintro acc ⟨f, l, c⟩ _ h
      exact TT.Lemmas.GramBin.binarizeRule_rank _ _ _ _ _ _ _ h
    · simp

/-- T5: rules with at most two RHS elements are kept as they are (their count is added) -/
theorem small_rule_kept (mo : Option MarkovOpts) (func : Func) (lin : Lin) (cnt : Nat) (vert : List Str)
    (st : GenState) (res : Grammar) (h : func.length ≤ 3) :
    (binarizeRule mo func lin cnt vert st res) = (st, res.add func lin .default cnt) :=
  binarizeRule_small mo func lin cnt vert st res h

/-- T4: deterministic labels are fresh: each call hands out a new number -/
theorem unique_labels_fresh (st : GenState) (func : Func) (pos : Nat) (vert : List Str) (fo : List Nat) :
    (nextLabel none st func pos vert fo).1 = uniqueLabel (st.numb + 1) ∧ (nextLabel none st func pos vert fo).2.numb = st.numb + 1 :=
  ⟨rfl, rfl⟩

theorem uniqueLabel_injective (a b : Nat) (h : uniqueLabel a = uniqueLabel b) : a = b := by
  unfold uniqueLabel at h
  exact natToStr_injective (List.append_cancel_left (List.append_cancel_right h))

/-- T3: the optimal reordering returns a permutation of the RHS with the same LHS -/
theorem pickOrder_perm (lin : Lin) (pos : List Nat) (hn : pos.Nodup) : (pickOrder lin pos pos.length).Perm pos :=
  pickOrder_perm_aux lin pos.length pos hn rfl

theorem reorder_perm (func : Func) (lin : Lin) (h : func ≠ []) :
    (reorderingOptimal func lin).1.head? = func.head? ∧ ((reorderingOptimal func lin).1.drop 1).Perm (func.drop 1) := by
  rw [reorderingOptimal_fst]
  refine ⟨?_, ?_⟩
  · cases func with
    | nil => exact absurd rfl h
    | cons a r => simp
  · simp only [List.drop_succ_cons, List.drop_zero]
    rw [drop_one_eq_map func]
    apply List.Perm.map
    have := pickOrder_perm lin ((List.range (func.length - 1)).map (· + 1)) (nodup_range_succ _)
    simpa using this

end TT.Props.C07
