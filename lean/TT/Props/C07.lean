/-
  C07 — (theorems being added)
-/
import TT.Spec.Grammar
namespace TT.Props.C07
open TT TT.Tree TT.Spec

end TT.Props.C07
