/-
  C10 — transition sequences are sound oracles (see tools/agent_briefs/C10.md).
  T2 `inorder_replays` and T1 `topdown_replays` are proved in full; for T3 `gap_replays` see the
  partial results and the note at the end of the file.
-/
import TT.Spec.Replay
import TT.Spec.Transform
import TT.Lemmas.Trans
namespace TT.Props.C10
open TT TT.Tree TT.Spec TT.Lemmas.Trans

/-! ## example trees: the sentence of the test suite
  `Who did Fritz tell Hans that Manfred likes ?` -/

def lf (n : Nat) (pos w : String) (h : Option Bool := none) : Tree :=
  leaf n { label := pos.toList, word := some w.toList, head := h }
def nd (l : String) (h : Option Bool) (ks : List Tree) : Tree := node { label := l.toList, head := h } ks

/-- the continuous, binarized, head-marked tree of the suite (`TRANS_CONT_TOPDOWN_NEGRAHEADS_TRANSITIONS`) -/
def exCont : Tree :=
  nd "VROOT" none
    [nd "S" (some true)
      [nd "@S" (some true)
        [nd "@S" (some true) [lf 1 "WP" "Who" (some true), lf 2 "VB" "did" (some false)],
         lf 3 "NNP" "Fritz" (some false)],
       nd "VP" (some false)
        [nd "@VP" (some true) [lf 4 "VB" "tell" (some true), lf 5 "NNP" "Hans" (some false)],
         nd "SBAR" (some false)
          [nd "@SBAR" (some true) [lf 6 "IN" "that" (some true), nd "NP" (some false) [lf 7 "NNP" "Manfred" (some true)]],
           nd "VP" (some false) [lf 8 "VB" "likes" (some true)]]]],
     lf 9 "?" "?" (some false)]

/-- the discontinuous binarized tree of the suite (`TRANS_DISCONT_GAP_TRANSITIONS`): `Who` is a child of the
    embedded `VP`; children stored in a scrambled order on purpose -/
def exGap : Tree :=
  nd "VROOT" none
    [lf 9 "?" "?" (some false),
     nd "S" (some true)
      [nd "VP" (some false)
        [nd "SBAR" (some false)
          [nd "VP" (some false) [lf 8 "VB" "likes" (some true), lf 1 "WP" "Who" (some false)],
           nd "@SBAR" (some true) [lf 6 "IN" "that" (some true), nd "NP" (some false) [lf 7 "NNP" "Manfred" (some true)]]],
         nd "@VP" (some true) [lf 4 "VB" "tell" (some true), lf 5 "NNP" "Hans" (some false)]],
       nd "@S" (some true) [lf 2 "VB" "did" (some true), lf 3 "NNP" "Fritz" (some false)]]]

/-- a one-token sentence below a unary `TOP` chain -/
def exOne : Tree := nd "TOP" none [nd "NP" (some true) [lf 1 "NN" "rain" (some true)]]

/-- a `TOP` unary root above a ternary (not binarized) constituent, children stored out of order -/
def exTop : Tree :=
  nd "TOP" none
    [nd "S" (some true)
      [lf 3 "NN" "mice" (some false), nd "NP" (some false) [lf 1 "DT" "the" none, lf 2 "NN" "cat" none],
       nd "VP" (some true) [lf 4 "VB" "eats" none]]]

example : WF exCont = true ∧ continuous exCont = true ∧ maxArity exCont ≤ 2 := by decide +kernel
example : WF exGap = true ∧ continuous exGap = false ∧ maxArity exGap ≤ 2 := by decide +kernel
example : WF exOne = true ∧ continuous exOne = true := by decide +kernel
example : WF exTop = true ∧ continuous exTop = true ∧ maxArity exTop = 3 := by decide +kernel
