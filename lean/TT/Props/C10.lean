/-
  C10 — transition sequences are sound oracles (see tools/agent_briefs/C10.md).
  All statements of the brief are proved: the textual round trips, `plainLine_shape`, `topdown_length`,
  `inorder_counts`, T2 `inorder_replays`, T1 `topdown_replays` and T3 `gap_replays` (split into partial
  correctness `gap_replays_of_ok` and totality `gap_terminates`).
-/
import TT.Spec.Replay
import TT.Spec.Transform
import TT.Lemmas.Trans
namespace TT.Props.C10
open TT TT.Tree TT.Spec TT.Lemmas.Trans

/-! ## example trees: the sentence of the test suite
  `Who did Fritz tell Hans that Manfred likes ?` -/

def lf (n : Nat) (pos w : String) (h : Option Bool := none) : Tree :=
  leaf n { label := pos.toList, word := some w.toList, head := h }
def nd (l : String) (h : Option Bool) (ks : List Tree) : Tree := node { label := l.toList, head := h } ks

/-- the continuous, binarized, head-marked tree of the suite (`TRANS_CONT_TOPDOWN_NEGRAHEADS_TRANSITIONS`) -/
def exCont : Tree :=
  nd "VROOT" none
    [nd "S" (some true)
      [nd "@S" (some true)
        [nd "@S" (some true) [lf 1 "WP" "Who" (some true), lf 2 "VB" "did" (some false)],
         lf 3 "NNP" "Fritz" (some false)],
       nd "VP" (some false)
        [nd "@VP" (some true) [lf 4 "VB" "tell" (some true), lf 5 "NNP" "Hans" (some false)],
         nd "SBAR" (some false)
          [nd "@SBAR" (some true) [lf 6 "IN" "that" (some true), nd "NP" (some false) [lf 7 "NNP" "Manfred" (some true)]],
           nd "VP" (some false) [lf 8 "VB" "likes" (some true)]]]],
     lf 9 "?" "?" (some false)]

/-- the discontinuous binarized tree of the suite (`TRANS_DISCONT_GAP_TRANSITIONS`): `Who` is a child of the
    embedded `VP`; children stored in a scrambled order on purpose -/
def exGap : Tree :=
  nd "VROOT" none
    [lf 9 "?" "?" (some false),
     nd "S" (some true)
      [nd "VP" (some false)
        [nd "SBAR" (some false)
          [nd "VP" (some false) [lf 8 "VB" "likes" (some true), lf 1 "WP" "Who" (some false)],
           nd "@SBAR" (some true) [lf 6 "IN" "that" (some true), nd "NP" (some false) [lf 7 "NNP" "Manfred" (some true)]]],
         nd "@VP" (some true) [lf 4 "VB" "tell" (some true), lf 5 "NNP" "Hans" (some false)]],
       nd "@S" (some true) [lf 2 "VB" "did" (some true), lf 3 "NNP" "Fritz" (some false)]]]

/-- a one-token sentence below a unary `TOP` chain -/
def exOne : Tree := nd "TOP" none [nd "NP" (some true) [lf 1 "NN" "rain" (some true)]]

/-- a `TOP` unary root above a ternary (not binarized) constituent, children stored out of order -/
def exTop : Tree :=
  nd "TOP" none
    [nd "S" (some true)
      [lf 3 "NN" "mice" (some false), nd "NP" (some false) [lf 1 "DT" "the" none, lf 2 "NN" "cat" none],
       nd "VP" (some true) [lf 4 "VB" "eats" none]]]

example : WF exCont = true ∧ continuous exCont = true ∧ maxArity exCont ≤ 2 := by decide +kernel
example : WF exGap = true ∧ continuous exGap = false ∧ maxArity exGap ≤ 2 := by decide +kernel
example : WF exOne = true ∧ continuous exOne = true := by decide +kernel
example : WF exTop = true ∧ continuous exTop = true ∧ maxArity exTop = 3 := by decide +kernel

/-! ## textual form -/

/-- round trip of the textual form of a transition (labels are arbitrary strings) -/
theorem parseAction_toStr_shift : parseAction Action.shift.toStr = some .shift := by decide
theorem parseAction_toStr_unary (l : Str) : parseAction (Action.unary l).toStr = some (.unary l) := by
  rw [toStr_unary, parseAction_def]; simp
theorem parseAction_toStr_binary (b : Bool) (l : Str) : parseAction (Action.binary b l).toStr = some (.binary b l) := by
  cases b
  · rw [toStr_binary_f, parseAction_def]; simp
  · rw [toStr_binary_t, parseAction_def]; simp
theorem parseAction_toStr_pj (l : Str) : parseAction (Action.pj l).toStr = some (.pj l) := by
  rw [toStr_pj, parseAction_def]; simp
theorem parseAction_toStr_r (b : Bool) (l : Str) : parseAction (Action.r b l).toStr = some (.r b l) := by
  cases b
  · rw [toStr_r_f, parseAction_def]; simp
  · rw [toStr_r_t, parseAction_def]; simp

/-- the two remaining constructors, for completeness -/
theorem parseAction_toStr_reduce : parseAction Action.reduce.toStr = some .reduce := by decide
theorem parseAction_toStr_gap : parseAction Action.gap.toStr = some .gap := by decide

/-- hence every transition survives writing and reading back -/
theorem parseAction_toStr (a : Action) : parseAction a.toStr = some a := by
  cases a with
  | shift => exact parseAction_toStr_shift
  | unary l => exact parseAction_toStr_unary l
  | binary b l => exact parseAction_toStr_binary b l
  | pj l => exact parseAction_toStr_pj l
  | reduce => exact parseAction_toStr_reduce
  | gap => exact parseAction_toStr_gap
  | r b l => exact parseAction_toStr_r b l

example : (Action.binary false "@S-HD".toList).toStr = "BINARY-RIGHT-@S-HD".toList := by decide +kernel
example : parseAction "R-LEFT-REDUCE".toList = some (.r true "REDUCE".toList) := by decide +kernel

/-- the written line is `words ||| transitions` (or POS tags) -/
theorem plainLine_shape (pos : Bool) (t : Tree) (acts : List Action) :
    plainLine pos t acts =
      joinWith [' '] (t.terminals.map fun l => if pos then l.fields.label else l.fields.word.getD []) ++
      " ||| ".toList ++ joinWith [' '] (acts.map Action.toStr) := rfl

example : plainLine false exOne [.shift, .unary "NP".toList] = "rain ||| SHIFT UNARY-NP".toList := by decide +kernel
example : plainLine true exOne [.shift] = "NN ||| SHIFT".toList := by decide +kernel

/-! ## counting -/

/-- one transition per node -/
theorem topdown_length (t : Tree) (acts : List Action) (h : topdown t = .ok acts) : acts.length = t.preorder.length := by
  unfold topdown at h
  cases hm : t.preorder.mapM topdownAct with
  | error e => rw [hm] at h; cases h
  | ok r =>
    rw [hm] at h
    cases h
    simp [mapM_ok_length _ _ _ hm]

example : (match topdown exCont with | .ok acts => acts.length | .error _ => 0) = 19 ∧ exCont.preorder.length = 19 := by
  decide +kernel

theorem inorder_counts (t : Tree) (h : t.noEmpty = true) (hn : t.isLeaf = false) :
    ((inorder t).filter (· == .shift)).length = t.leafNums.length ∧
    ((inorder t).filter (· == .reduce)).length = (t.subtrees.filter (fun s => !s.isLeaf)).length := by
  have _ := hn
  have := inorder_counts_aux t h
  simpa only [inorder, List.countP_eq_length_filter] using this

/-- `hn` is not needed; kept because the statement was given with it -/
theorem inorder_counts' (t : Tree) (h : t.noEmpty = true) :
    ((inorder t).filter (· == .shift)).length = t.leafNums.length ∧
    ((inorder t).filter (· == .reduce)).length = (t.subtrees.filter (fun s => !s.isLeaf)).length := by
  have := inorder_counts_aux t h
  simpa only [inorder, List.countP_eq_length_filter] using this

example : exTop.noEmpty = true ∧ exTop.isLeaf = false ∧ (inorder exTop).length = 12 := by decide +kernel

/-! ## T2 in-order -/

/-- T2: in-order sequences of a continuous tree of any arity replay to the tree -/
theorem inorder_replays (t : Tree) (hwf : WF t = true) (hc : continuous t = true) :
    ∃ r, replayInorder t (inorder t) = some r ∧ agrees t r = true := by
  obtain ⟨r, hr, hrel⟩ := io_run t (Good_of_WF t hwf hc) [] []
  refine ⟨r, ?_, hrel.agrees⟩
  rw [List.append_nil] at hr
  simp only [replayInorder, inorder, hr]

/-- the general form behind T2: on any stack and any buffer suffix, the sequence of a subtree consumes exactly
    the subtree's tokens and pushes one item that agrees with it -/
theorem inorder_run (s : Tree) (hne : s.noEmpty = true) (hn : s.leafNums.Nodup) (hc : continuous s = true)
    (stack : List Item) (rest : List Tree) :
    ∃ r, (inorderAux s).foldlM ioStep (stack, tokenLeaves s ++ rest) = some (Item.tree r :: stack, rest) ∧
      agrees s r = true :=
  let ⟨r, h, hrel⟩ := io_run s ⟨hne, hn, hc⟩ stack rest
  ⟨r, h, hrel.agrees⟩

/-- the hypotheses of `inorder_replays` hold on a ternary tree stored out of order -/
example : ∃ r, replayInorder exTop (inorder exTop) = some r ∧ agrees exTop r = true :=
  inorder_replays exTop (by decide +kernel) (by decide +kernel)
example : (replayInorder exTop (inorder exTop)).map (agrees exTop) = some true := by decide +kernel
example : (replayInorder exCont (inorder exCont)).map (agrees exCont) = some true := by decide +kernel
example : (replayInorder exOne (inorder exOne)).map (agrees exOne) = some true := by decide +kernel
example : inorder exOne = [.shift, .pj "NP".toList, .reduce, .pj "TOP".toList, .reduce] := by decide +kernel
/-- continuity cannot be dropped: the in-order sequence of the discontinuous tree replays to a different tree -/
example : (replayInorder exGap (inorder exGap)).map (agrees exGap) = some false := by decide +kernel

/-! ## T1 top-down -/

/-- T1: top-down sequences of a continuous, at most binary, head-marked tree replay to the tree -/
theorem topdown_replays (t : Tree) (hwf : WF t = true) (hc : continuous t = true) (hb : maxArity t ≤ 2)
    (hh : ∀ s ∈ t.subtrees, ∀ f a b, s = node f [a, b] → a.fields.head.isSome ∧ b.fields.head.isSome) :
    ∃ acts r, topdown t = .ok acts ∧ replayTopdown t acts = some r ∧ agrees t r = true := by
  obtain ⟨acts, r, hm, hr, hrel⟩ := td_run t (Good_of_WF t hwf hc) hb (HeadsOK_of t hh) [] []
  refine ⟨acts.reverse, r, ?_, ?_, hrel.agrees⟩
  · simp only [topdown, hm]; rfl
  · rw [List.append_nil] at hr
    simp only [replayTopdown, hr]

/-- the head hypothesis in decidable form -/
def headsMarked (t : Tree) : Bool :=
  t.subtrees.all fun s => match s with
    | node _ [a, b] => a.fields.head.isSome && b.fields.head.isSome
    | _ => true

theorem headsMarked_spec (t : Tree) (h : headsMarked t = true) :
    ∀ s ∈ t.subtrees, ∀ f a b, s = node f [a, b] → a.fields.head.isSome ∧ b.fields.head.isSome := by
  intro s hs f a b he
  simp only [headsMarked, List.all_eq_true] at h
  have := h s hs
  subst he
  simpa using this

example : headsMarked exCont = true ∧ headsMarked exOne = true := by decide +kernel
/-- the hypotheses of `topdown_replays` hold on the continuous tree of the suite -/
example : ∃ acts r, topdown exCont = .ok acts ∧ replayTopdown exCont acts = some r ∧ agrees exCont r = true :=
  topdown_replays exCont (by decide +kernel) (by decide +kernel) (by decide +kernel)
    (headsMarked_spec exCont (by decide +kernel))
/-- the golden sequence of the suite -/
example : (topdown exCont).toOption = some [.shift, .shift, .unary "VP".toList, .shift, .unary "NP".toList, .shift,
    .binary true "@SBAR".toList, .binary true "SBAR".toList, .shift, .shift, .binary true "@VP".toList,
    .binary true "VP".toList, .shift, .shift, .shift, .binary true "@S".toList, .binary true "@S".toList,
    .binary true "S".toList, .binary true "VROOT".toList] := by decide +kernel
example : (match topdown exCont with | .ok acts => (replayTopdown exCont acts).map (agrees exCont) | .error _ => none)
    = some true := by decide +kernel
example : (match topdown exOne with | .ok acts => (replayTopdown exOne acts).map (agrees exOne) | .error _ => none)
    = some true := by decide +kernel
/-- arity above two is rejected by the oracle itself -/
example : (match topdown exTop with | .error .valueError => true | _ => false) = true := by decide +kernel

/-! ## T3 gap oracle -/

/-- T3, partial correctness: WHENEVER the gap oracle returns a sequence for a well-formed tree of arity at
    most two (continuous or not), that sequence replays to the tree.  No head hypothesis is needed here: the
    oracle itself refuses (`valueError`) to reduce two nodes without head marks. -/
theorem gap_replays_of_ok (t : Tree) (hwf : WF t = true) (hb : maxArity t ≤ 2) (acts : List Action)
    (h : gapOracle t = .ok acts) : ∃ r, replayGap t acts = some r ∧ agrees t r = true :=
  gap_sound t ⟨Lemmas.WF.WF_noEmpty t hwf, Lemmas.WF.WF_nodup t hwf, hb⟩ acts h

/-- T3, totality: on a well-formed, at most binary tree whose non-root nodes all carry a head mark the oracle
    never shifts from an empty buffer and stops within its fuel `4·size² + 8` (at most `4·size + 1`
    iterations are needed: see `Lemmas.Trans.gmeasure`) -/
theorem gap_terminates (t : Tree) (hwf : WF t = true) (hb : maxArity t ≤ 2)
    (hh : ∀ s ∈ t.subtrees, s ≠ t → s.fields.head.isSome) : ∃ acts, gapOracle t = .ok acts :=
  gap_total t ⟨Lemmas.WF.WF_noEmpty t hwf, Lemmas.WF.WF_nodup t hwf, hb⟩ (HeadsP_of t hh)

/-- T3 (stretch): the gap oracle terminates within its fuel on every well-formed binarized head-marked tree,
    continuous or not, and its sequence replays to the tree -/
theorem gap_replays (t : Tree) (hwf : WF t = true) (hb : maxArity t ≤ 2)
    (hh : ∀ s ∈ t.subtrees, s ≠ t → s.fields.head.isSome) :
    ∃ acts r, gapOracle t = .ok acts ∧ replayGap t acts = some r ∧ agrees t r = true := by
  obtain ⟨acts, hacts⟩ := gap_terminates t hwf hb hh
  obtain ⟨r, hr, ha⟩ := gap_replays_of_ok t hwf hb acts hacts
  exact ⟨acts, r, hacts, hr, ha⟩

/-- the hypothesis of T3 in decidable form: every node below the root carries a head mark -/
def headsAll (t : Tree) : Bool := t.kids.all fun k => k.subtrees.all fun s => s.fields.head.isSome

theorem headsAll_spec (t : Tree) (h : headsAll t = true) :
    ∀ s ∈ t.subtrees, s ≠ t → s.fields.head.isSome := by
  intro s hs hne
  cases t with
  | leaf n f =>
    simp only [subtrees, List.mem_singleton] at hs
    exact absurd hs hne
  | node f ks =>
    rcases (Lemmas.WF.mem_subtrees_node f ks s).1 hs with rfl | ⟨k, hk, hsk⟩
    · exact absurd rfl hne
    · simp only [headsAll, kids, List.all_eq_true] at h
      exact h k hk s hsk

/-- the golden sequence of the suite (`TRANS_DISCONT_GAP_TRANSITIONS`) -/
example : (gapOracle exGap).toOption = some [.shift, .shift, .shift, .r true "@S".toList, .shift, .shift,
    .r true "@VP".toList, .shift, .shift, .unary "NP".toList, .r true "@SBAR".toList, .shift, .gap, .gap, .gap,
    .r false "VP".toList, .gap, .gap, .r true "SBAR".toList, .r true "VP".toList, .r true "S".toList, .shift,
    .r true "VROOT".toList] := by decide +kernel
example : headsAll exGap = true ∧ headsAll exCont = true ∧ headsAll exOne = true := by decide +kernel
/-- the hypotheses of `gap_replays` hold on the discontinuous tree of the suite -/
example : ∃ acts r, gapOracle exGap = .ok acts ∧ replayGap exGap acts = some r ∧ agrees exGap r = true :=
  gap_replays exGap (by decide +kernel) (by decide +kernel) (headsAll_spec exGap (by decide +kernel))
example : (match gapOracle exGap with | .ok acts => (replayGap exGap acts).map (agrees exGap) | .error _ => none)
    = some true := by decide +kernel
example : (match gapOracle exCont with | .ok acts => (replayGap exCont acts).map (agrees exCont) | .error _ => none)
    = some true := by decide +kernel
/-- one token below a unary chain: the trailing `UNARY`s are emitted before the termination test (repair of D2) -/
example : (gapOracle exOne).toOption = some [.shift, .unary "NP".toList, .unary "TOP".toList] := by decide +kernel
example : (match gapOracle exOne with | .ok acts => (replayGap exOne acts).map (agrees exOne) | .error _ => none)
    = some true := by decide +kernel

end TT.Props.C10
