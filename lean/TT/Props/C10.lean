/-
  C10 — transition sequences are sound oracles (theorems being added; see tools/agent_briefs/C10.md)
-/
import TT.Spec.Replay
namespace TT.Props.C10
open TT TT.Tree TT.Spec

end TT.Props.C10
