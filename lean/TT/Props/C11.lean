/-
  C11 — token-editing transformations change exactly the targeted tokens
-/
import TT.Spec.Edit
import TT.Lemmas.Sort
import TT.Lemmas.Nav
import TT.Lemmas.WF
import TT.Lemmas.Edit
namespace TT.Props.C11
open TT TT.Tree TT.Spec TT.Lemmas.WF TT.Lemmas.Edit

/-! ## filter_by_length -/

theorem filter_spec (op : FilterOp) (v : Nat) (t : Tree) :
    filterByLength op v t = (if (match op with
        | .lt => decide (t.terminals.length < v) | .gt => decide (t.terminals.length > v)
        | .eq => t.terminals.length == v | .other => false) then none else some t) := by
  cases op <;> simp [filterByLength]

/-! ## delete_terminal -/

theorem delLeaf_leafNums (k : Nat) (t : Tree) :
    (match delLeaf k t with | some t' => t'.leafNums | none => []) =
      (t.leafNums.filter (· ≠ k)).map (fun n => if n > k then n - 1 else n) := by
  have h := congrArg (List.map num) (delLeaf_leaves k t)
  rw [filter_map_num_sh] at h
  rw [← show t.leafNums = t.leaves.map num from rfl] at h
  rw [← h]
  cases delLeaf k t <;> rfl

theorem deleteTerminal_leafNums (t : Tree) (k : Nat) (h : t.isLeaf = false) :
    (deleteTerminal t k).leafNums = (t.leafNums.filter (· ≠ k)).map (fun n => if n > k then n - 1 else n) :=
  deleteTerminal_leafNums' t k h

/-- tokens keep word and POS, relative order, and are renumbered without holes -/
theorem deleteTerminal_sentence (t : Tree) (k : Nat) (h : WF t = true) (hk : k ∈ t.leafNums) :
    (deleteTerminal t k).sentence = dropPositions t.sentence [k] := by
  have hN := Numbered_of_WF t h
  have _ := hk
  rw [deleteTerminal_sentence' t k hN.1, sentence_eq,
    ← filter_num_eq_dropPositions t.terminals [k] hN.terminals_num]
  congr 2
  funext l
  by_cases e : l.num = k <;> simp [e]

theorem deleteTerminal_yield (t : Tree) (k : Nat) (h : WF t = true) (hk : k ∈ t.leafNums) :
    (deleteTerminal t k).yield = List.range' 1 (t.leafNums.length - 1) := by
  have hN := Numbered_of_WF t h
  rw [← deleteTerminal_length t k hN hk]
  exact (deleteTerminal_numbered t k hN hk).2

/-- constituents left without tokens are pruned: below the root no childless constituent remains -/
theorem deleteTerminal_pruned (t : Tree) (k : Nat) (h : t.noEmpty = true) :
    (match deleteTerminal t k with | node _ ks => noEmptyL ks | leaf _ _ => true) = true := by
  cases t with
  | leaf n f => rfl
  | node f ks =>
    simp only [deleteTerminal]
    exact delLeafL_noEmpty k ks ((noEmptyL_iff ks).2 ((noEmpty_node f ks).1 h).2)

/-! ## punctuation_delete -/

theorem punctuationDelete_all_punct (t : Tree)
    (h : (t.terminals.filter isPunctWord).length = t.terminals.length) : (punctuationDelete t).1 = t := by
  simp [punctuationDelete, h]

theorem punctuationDelete_lines (t : Tree) (h : (t.terminals.filter isPunctWord).length ≠ t.terminals.length) :
    (punctuationDelete t).2 = (t.terminals.filter isPunctWord).map fun l => (l.num, l.fields.word, l.fields.label) := by
  simp [punctuationDelete, h]

theorem punctuationDelete_spec (t : Tree) (h : WF t = true) : deletePunctOK t (punctuationDelete t).1 = true := by
  have hN := Numbered_of_WF t h
  unfold deletePunctOK punctPositions
  by_cases hc : (t.terminals.filter isPunctWord).length = t.terminals.length
  · simp [punctuationDelete, hc]
  · have hs := filter_terminals_nums t isPunctWord hN
    have := (deleteMany_spec t _ hN hs.1 hs.2).2.2
    simp [punctuationDelete, hc, this]

theorem punctuationDelete_yield (t : Tree) (h : WF t = true)
    (hp : (t.terminals.filter isPunctWord).length ≠ t.terminals.length) :
    (punctuationDelete t).1.yield = List.range' 1 (t.terminals.length - (t.terminals.filter isPunctWord).length) := by
  have hN := Numbered_of_WF t h
  have hs := filter_terminals_nums t isPunctWord hN
  have hd := deleteMany_spec t _ hN hs.1 hs.2
  have e : (punctuationDelete t).1 = deleteMany t ((t.terminals.filter isPunctWord).map num) := by
    simp [punctuationDelete, hp]
  rw [e, hd.1.2, hd.2.1, List.length_map, terminals_length]

end TT.Props.C11
