/-
  C11 — token-editing transformations change exactly the targeted tokens
-/
import TT.Spec.Edit
import TT.Lemmas.Sort
import TT.Lemmas.Nav
import TT.Lemmas.WF
import TT.Lemmas.Edit
namespace TT.Props.C11
open TT TT.Tree TT.Spec TT.Lemmas.WF TT.Lemmas.Edit

/-- `(S (`` 1) (VP (V 4) (N 2)) (X (Y (, 3))) (. 5))`: punctuation first, last and as the only token
    of a unary chain; `VP` is discontinuous and stored in reverse order -/
def exP : Tree :=
  node { label := "S".toList } [
    leaf 1 { label := "$(".toList, word := some "\"".toList },
    node { label := "VP".toList } [
      leaf 4 { label := "V".toList, word := some "c".toList },
      leaf 2 { label := "N".toList, word := some "a".toList }],
    node { label := "X".toList } [node { label := "Y".toList } [
      leaf 3 { label := "$,".toList, word := some ",".toList }]],
    leaf 5 { label := "$.".toList, word := some ".".toList }]

/-- only punctuation -/
def exAll : Tree :=
  node { label := "S".toList } [
    leaf 2 { label := "$.".toList, word := some ".".toList },
    node { label := "X".toList } [leaf 1 { label := "$,".toList, word := some ",".toList }]]

/-- a PTB-like tree with two trace tokens -/
def exTr : Tree :=
  node { label := "S".toList } [
    node { label := "NP-1".toList } [leaf 1 { label := "N".toList, word := some "a".toList }],
    node { label := "VP".toList } [
      leaf 2 { label := "V".toList, word := some "b".toList },
      node { label := "NP".toList } [leaf 3 { label := "-NONE-".toList, word := some "*T*-1".toList }],
      leaf 4 { label := "-NONE-".toList, word := some "*".toList }],
    leaf 5 { label := ".".toList, word := some ".".toList }]

example : WF exP = true ∧ WF exAll = true ∧ WF exTr = true := by decide

/-! ## filter_by_length -/

theorem filter_spec (op : FilterOp) (v : Nat) (t : Tree) :
    filterByLength op v t = (if (match op with
        | .lt => decide (t.terminals.length < v) | .gt => decide (t.terminals.length > v)
        | .eq => t.terminals.length == v | .other => false) then none else some t) := by
  cases op <;> simp [filterByLength]

example : filterByLength .gt 4 exP = none ∧ (filterByLength .lt 4 exP).isSome = true
    ∧ filterByLength .eq 5 exP = none ∧ (filterByLength .other 5 exP).isSome = true := by decide

/-! ## delete_terminal -/

theorem delLeaf_leafNums (k : Nat) (t : Tree) :
    (match delLeaf k t with | some t' => t'.leafNums | none => []) =
      (t.leafNums.filter (· ≠ k)).map (fun n => if n > k then n - 1 else n) := by
  have h := congrArg (List.map num) (delLeaf_leaves k t)
  rw [filter_map_num_sh] at h
  rw [← show t.leafNums = t.leaves.map num from rfl] at h
  rw [← h]
  cases delLeaf k t <;> rfl

example : (delLeaf 3 exP).map leafNums = some [1, 3, 2, 4] ∧
    (delLeaf 3 (node {} [node {} [leaf 3 {}]])).isNone = true := by decide

theorem deleteTerminal_leafNums (t : Tree) (k : Nat) (h : t.isLeaf = false) :
    (deleteTerminal t k).leafNums = (t.leafNums.filter (· ≠ k)).map (fun n => if n > k then n - 1 else n) :=
  deleteTerminal_leafNums' t k h

example : exP.isLeaf = false ∧ (deleteTerminal exP 3).leafNums = [1, 3, 2, 4] := by decide

/-- tokens keep word and POS, relative order, and are renumbered without holes -/
theorem deleteTerminal_sentence (t : Tree) (k : Nat) (h : WF t = true) (hk : k ∈ t.leafNums) :
    (deleteTerminal t k).sentence = dropPositions t.sentence [k] := by
  have hN := Numbered_of_WF t h
  have _ := hk
  rw [deleteTerminal_sentence' t k hN.1, sentence_eq,
    ← filter_num_eq_dropPositions t.terminals [k] hN.terminals_num]
  congr 2
  funext l
  by_cases e : l.num = k <;> simp [e]

example : 3 ∈ exP.leafNums ∧ (deleteTerminal exP 3).sentence =
    [(some "\"".toList, "$(".toList), (some "a".toList, "N".toList), (some "c".toList, "V".toList),
     (some ".".toList, "$.".toList)] := by decide

theorem deleteTerminal_yield (t : Tree) (k : Nat) (h : WF t = true) (hk : k ∈ t.leafNums) :
    (deleteTerminal t k).yield = List.range' 1 (t.leafNums.length - 1) := by
  have hN := Numbered_of_WF t h
  rw [← deleteTerminal_length t k hN hk]
  exact (deleteTerminal_numbered t k hN hk).2

example : (deleteTerminal exP 1).yield = [1, 2, 3, 4] ∧ (deleteTerminal exP 5).yield = [1, 2, 3, 4] := by decide

/-- constituents left without tokens are pruned: below the root no childless constituent remains -/
theorem deleteTerminal_pruned (t : Tree) (k : Nat) (h : t.noEmpty = true) :
    (match deleteTerminal t k with | node _ ks => noEmptyL ks | leaf _ _ => true) = true := by
  cases t with
  | leaf n f => rfl
  | node f ks =>
    simp only [deleteTerminal]
    exact delLeafL_noEmpty k ks ((noEmptyL_iff ks).2 ((noEmpty_node f ks).1 h).2)

/-- deleting the comma removes the whole unary chain `X`-`Y` above it -/
example : exP.noEmpty = true ∧ consLabels (deleteTerminal exP 3) = ["S".toList, "VP".toList] := by decide

/-- the root is kept even when it ends up childless (why the statement is about the levels below it) -/
example : (deleteTerminal (node {} [node {} [leaf 1 {}]]) 1).noEmpty = false := by decide

/-! ## punctuation_delete -/

theorem punctuationDelete_all_punct (t : Tree)
    (h : (t.terminals.filter isPunctWord).length = t.terminals.length) : (punctuationDelete t).1 = t := by
  simp [punctuationDelete, h]

example : (exAll.terminals.filter isPunctWord).length = exAll.terminals.length := by decide

theorem punctuationDelete_lines (t : Tree) (h : (t.terminals.filter isPunctWord).length ≠ t.terminals.length) :
    (punctuationDelete t).2 = (t.terminals.filter isPunctWord).map fun l => (l.num, l.fields.word, l.fields.label) := by
  simp [punctuationDelete, h]

example : (exP.terminals.filter isPunctWord).length ≠ exP.terminals.length ∧
    (punctuationDelete exP).2 = [(1, some "\"".toList, "$(".toList), (3, some ",".toList, "$,".toList),
      (5, some ".".toList, "$.".toList)] := by decide

theorem punctuationDelete_spec (t : Tree) (h : WF t = true) : deletePunctOK t (punctuationDelete t).1 = true := by
  have hN := Numbered_of_WF t h
  unfold deletePunctOK punctPositions
  by_cases hc : (t.terminals.filter isPunctWord).length = t.terminals.length
  · simp [punctuationDelete, hc]
  · have hs := filter_terminals_nums t isPunctWord hN
    have := (deleteMany_spec t _ hN hs.1 hs.2).2.2
    simp [punctuationDelete, hc, this]

/-- punctuation first, last and alone under a unary chain: all three go, the chain is pruned -/
example : punctPositions exP = [1, 3, 5] ∧
    (punctuationDelete exP).1.sentence = [(some "a".toList, "N".toList), (some "c".toList, "V".toList)] ∧
    consLabels (punctuationDelete exP).1 = ["S".toList, "VP".toList] := by decide

theorem punctuationDelete_yield (t : Tree) (h : WF t = true)
    (hp : (t.terminals.filter isPunctWord).length ≠ t.terminals.length) :
    (punctuationDelete t).1.yield = List.range' 1 (t.terminals.length - (t.terminals.filter isPunctWord).length) := by
  have hN := Numbered_of_WF t h
  have hs := filter_terminals_nums t isPunctWord hN
  have hd := deleteMany_spec t _ hN hs.1 hs.2
  have e : (punctuationDelete t).1 = deleteMany t ((t.terminals.filter isPunctWord).map num) := by
    simp [punctuationDelete, hp]
  rw [e, hd.1.2, hd.2.1, List.length_map, terminals_length]

example : (punctuationDelete exP).1.yield = [1, 2] ∧ (punctuationDelete exP).1.leafNums = [2, 1] := by decide

/-- extra: the result of `punctuation_delete` is again a well-formed tree -/
theorem punctuationDelete_WF (t : Tree) (h : WF t = true) : WF (punctuationDelete t).1 = true := by
  by_cases hc : (t.terminals.filter isPunctWord).length = t.terminals.length
  · rw [punctuationDelete_all_punct t hc]; exact h
  · have hN := Numbered_of_WF t h
    have hs := filter_terminals_nums t isPunctWord hN
    have hd := deleteMany_spec t _ hN hs.1 hs.2
    have e : (punctuationDelete t).1 = deleteMany t ((t.terminals.filter isPunctWord).map num) := by
      simp [punctuationDelete, hc]
    rw [e]
    refine WF_of_numbered _ hd.1 ?_ ?_
    · exact deleteMany_belowOK _ t 0 (belowOK_of_noEmpty t (WF_noEmpty t h))
    · have hle : (t.terminals.filter isPunctWord).length ≤ t.terminals.length := List.length_filter_le _ _
      rw [hd.2.1, List.length_map, ← terminals_length]
      omega

/-- extra: deleting one token of a sentence with at least two tokens leaves a well-formed tree -/
theorem deleteTerminal_WF (t : Tree) (k : Nat) (h : WF t = true) (hk : k ∈ t.leafNums)
    (h2 : 2 ≤ t.leafNums.length) : WF (deleteTerminal t k) = true := by
  have hN := Numbered_of_WF t h
  refine WF_of_numbered _ (deleteTerminal_numbered t k hN hk)
    (deleteTerminal_belowOK t k (belowOK_of_noEmpty t (WF_noEmpty t h))) ?_
  rw [deleteTerminal_length t k hN hk]; omega

example : WF (punctuationDelete exP).1 = true ∧ WF (deleteTerminal exP 3) = true := by decide

/-! ## substitute_terminals -/

theorem substitute_sentence (reqs : List (Nat × Str × Option Str)) (t : Tree) (h : WF t = true)
    (hd : (reqs.map (·.1)).Nodup) : (substituteTerminals reqs t).sentence = substituteSpec t.sentence reqs := by
  have _ := hd
  unfold substituteTerminals substituteSpec
  have e : t.sentence.length = t.terminals.length := by simp [sentence]
  rw [e]
  exact substitute_aux t.terminals.length reqs t (Numbered_of_WF t h)

example : ([(2, "x".toList, none), (4, "y".toList, some "Z".toList), (9, "z".toList, none)].map
      (·.1) : List Nat).Nodup ∧
    (substituteTerminals [(2, "x".toList, none), (4, "y".toList, some "Z".toList), (9, "z".toList, none)]
      exP).sentence = [(some "\"".toList, "$(".toList), (some "x".toList, "N".toList),
        (some ",".toList, "$,".toList), (some "y".toList, "Z".toList), (some ".".toList, "$.".toList)] := by
  decide

theorem substitute_leafNums (reqs : List (Nat × Str × Option Str)) (t : Tree) :
    (substituteTerminals reqs t).leafNums = t.leafNums :=
  substitute_leafNums_aux t.terminals.length reqs t

example : (substituteTerminals [(2, "x".toList, none), (4, "y".toList, some "Z".toList)] exP).leafNums
    = [1, 4, 2, 3, 5] := by decide

/-! ## insert_terminals -/

theorem insertSpec_cons (s : List Tok) (req : Nat × Str × Str) (rest : List (Nat × Str × Str)) :
    insertSpec s (req :: rest) = insertSpec (insertSpec s [req]) rest := by
  obtain ⟨k, w, p⟩ := req
  simp only [insertSpec]
  split <;> rfl

theorem insertStep_sentence (t : Tree) (req : Nat × Str × Str) (h : WF t = true) :
    (insertStep t req).sentence = insertSpec t.sentence [req] ∧ WF (insertStep t req) = true := by
  obtain ⟨k, w, pos⟩ := req
  cases t with
  | leaf n f => simp [WF] at h
  | node f ks =>
    have hN := Numbered_of_WF _ h
    have hlen : (node f ks).sentence.length = (node f ks).terminals.length := by simp [sentence]
    by_cases hc : k = 0 ∨ k > (node f ks).terminals.length + 1
    · rw [insertStep_invalid _ k w pos hc]
      refine ⟨?_, h⟩
      have : (k == 0 || decide (k > (node f ks).sentence.length + 1)) = true := by
        rw [hlen]; simpa using hc
      simp only [insertSpec, this, if_true]
    · have h1 : 1 ≤ k := by omega
      have h2 : k ≤ (node f ks).terminals.length + 1 := by omega
      refine ⟨?_, insertStep_WF_valid f ks k w pos h h1 h2⟩
      rw [insertStep_sentence_valid f ks k w pos hN h1 h2]
      have : (k == 0 || decide (k > (node f ks).sentence.length + 1)) = false := by
        rw [hlen]; simp; omega
      simp only [insertSpec, this]
      rfl

example : (insertStep exP (3, "y".toList, "Y".toList)).leafNums = [1, 5, 2, 4, 6, 3] ∧
    (insertStep exP (7, "y".toList, "Y".toList)).leafNums = exP.leafNums ∧
    (insertStep exP (6, "y".toList, "Y".toList)).yield = [1, 2, 3, 4, 5, 6] := by decide

theorem insertTerminals_sentence_WF (reqs : List (Nat × Str × Str)) (t : Tree) (h : WF t = true) :
    (insertTerminals reqs t).sentence = insertSpec t.sentence reqs ∧ WF (insertTerminals reqs t) = true := by
  induction reqs generalizing t with
  | nil => exact ⟨rfl, h⟩
  | cons req rest ih =>
    have hs := insertStep_sentence t req h
    have := ih (insertStep t req) hs.2
    rw [insertSpec_cons, ← hs.1]
    exact this

theorem insert_sentence (reqs : List (Nat × Str × Str)) (t : Tree) (h : WF t = true) :
    (insertTerminals reqs t).sentence = insertSpec t.sentence reqs :=
  (insertTerminals_sentence_WF reqs t h).1

/-- requests sorted by index; the last one is out of range and ignored -/
example : (insertTerminals [(1, "x".toList, "X".toList), (3, "y".toList, "Y".toList),
      (9, "z".toList, "Z".toList)] exP).sentence =
    [(some "x".toList, "X".toList), (some "\"".toList, "$(".toList), (some "y".toList, "Y".toList),
     (some "a".toList, "N".toList), (some ",".toList, "$,".toList), (some "c".toList, "V".toList),
     (some ".".toList, "$.".toList)] := by decide

/-! ## ptb_delete_traces -/

theorem traces_leafCount (o : TraceOpts) (t : Tree) (h : WF t = true) :
    (ptbDeleteTraces o t).leafNums.length = t.leafNums.length - (tracePositions o t).length := by
  have hN := Numbered_of_WF t h
  have hs := filter_terminals_nums t (fun l => l.fields.label == NONE_POS) hN
  unfold ptbDeleteTraces
  simp only [leafNums, cleanLabels_leaves]
  have := traces_aux o _ t 0 hN hs.1 (by
    intro k hk
    have := (hN.mem k).1 (hs.2 k hk)
    omega)
  simp only [leafNums] at this
  rw [this, traces_count o t hN]

example : tracePositions {} exTr = [3, 4] ∧ (ptbDeleteTraces {} exTr).leafNums = [1, 2, 3] ∧
    tracePositions { keep := ["*T*".toList] } exTr = [4] ∧
    (ptbDeleteTraces { keep := ["*T*".toList] } exTr).leafNums = [1, 2, 3, 4] := by decide

end TT.Props.C11
