/-
  C11 — token-editing transformations change exactly the targeted tokens (theorems being added)
-/
import TT.Spec.Edit
namespace TT.Props.C11
open TT TT.Tree TT.Spec

end TT.Props.C11
