/-
  C14 (wave 19) — the exact acceptance condition of the `binarize` model (`/repo/trees/transform.py binarize`):
  a tree is binarized successfully iff every constituent with more than two children (i) has a child marked as
  head and (ii) passes the chain test `chainOK` on the head entries of its children taken in the order of
  their first tokens: walking from the left while more than two children remain, a child WITHOUT any head
  entry is an error unless a child marked as head was met before it (from then on children are taken from the
  right end and no entry is looked at any more).
  Definitions `chainOK`, `nodeOK` and the engine: TT/Lemmas/Small19.lean.
-/
import TT.Lemmas.Small19
import TT.Props.C14More
namespace TT.Props.C14More2
open TT TT.Tree TT.Spec TT.Lemmas.Binarize TT.Lemmas.Small19

/-- `chainOK` without recursion: every entry-less child among all but the last two is preceded by a child
    marked as head -/
theorem chainOK_iff : ∀ l : List (Option Bool), chainOK l = true ↔
    ∀ i, i + 2 < l.length → l[i]? = some none → ∃ j, j < i ∧ l[j]? = some (some true)
  | [] => by simp [chainOK]
  | h :: rest => by
    have ih := chainOK_iff rest
    constructor
    · intro hc i hi hn
      simp only [chainOK, Bool.or_eq_true, decide_eq_true_eq, beq_iff_eq, Bool.and_eq_true] at hc
      simp only [List.length_cons] at hi
      rcases hc with (hlt | ht) | ⟨hf, hr⟩
      · omega
      · cases i with
        | zero => simp [ht] at hn
        | succ i => exact ⟨0, by omega, by simp [ht]⟩
      · cases i with
        | zero => simp [hf] at hn
        | succ i =>
          obtain ⟨j, hj, hjt⟩ := ih.1 hr i (by omega) (by simpa using hn)
          exact ⟨j + 1, by omega, by simpa using hjt⟩
    · intro hall
      simp only [chainOK, Bool.or_eq_true, decide_eq_true_eq, beq_iff_eq, Bool.and_eq_true]
      by_cases hlt : rest.length < 2
      · exact Or.inl (Or.inl hlt)
      · by_cases ht : h = some true
        · exact Or.inl (Or.inr ht)
        · refine Or.inr ⟨?_, ih.2 ?_⟩
          · cases h with
            | none =>
              obtain ⟨j, hj, _⟩ := hall 0 (by simp only [List.length_cons]; omega) (by simp)
              omega
            | some b => cases b <;> simp_all
          · intro i hi hn
            obtain ⟨j, hj, hjt⟩ := hall (i + 1) (by simp only [List.length_cons]; omega) (by simpa using hn)
            cases j with
            | zero => simp at hjt; exact absurd hjt ht
            | succ j => exact ⟨j, by omega, by simpa using hjt⟩

/-- **binarize_ok_iff**: the exact acceptance condition of binarization. -/
theorem binarize_ok_iff (bare : Bool) (t : Tree) :
    (∃ t', binarize bare t = .ok t') ↔
      ∀ s ∈ t.subtrees, ∀ f ks, s = node f ks → 2 < ks.length →
        (∃ k ∈ ks, k.fields.head = some true) ∧
        chainOK ((sortBy leftmost ks).map fun c => c.fields.head) = true := by
  unfold binarize
  rw [binarizeAux_ok_iff]
  constructor
  · intro h s hs f ks e h3
    have := h s hs f ks e
    simp only [nodeOK, Bool.or_eq_true, decide_eq_true_eq, Bool.and_eq_true, List.any_eq_true,
      beq_iff_eq] at this
    rcases this with hl | ⟨hany, hc⟩
    · omega
    · exact ⟨hany, hc⟩
  · intro h s hs f ks e
    simp only [nodeOK, Bool.or_eq_true, decide_eq_true_eq, Bool.and_eq_true, List.any_eq_true,
      beq_iff_eq]
    by_cases hl : ks.length ≤ 2
    · exact Or.inl hl
    · exact Or.inr (h s hs f ks e (by omega))

/-- the same with the chain test spelled out on positions: `hs` = the head entries of the children in the
    order of their first tokens -/
theorem binarize_ok_iff' (bare : Bool) (t : Tree) :
    (∃ t', binarize bare t = .ok t') ↔
      ∀ s ∈ t.subtrees, ∀ f ks, s = node f ks → 2 < ks.length →
        (∃ k ∈ ks, k.fields.head = some true) ∧
        ∀ i, i + 2 < ks.length → ((sortBy leftmost ks).map fun c => c.fields.head)[i]? = some none →
          ∃ j, j < i ∧ ((sortBy leftmost ks).map fun c => c.fields.head)[j]? = some (some true) := by
  rw [binarize_ok_iff]
  simp only [chainOK_iff, List.length_map, sortBy_length]

/-- every failure is a `ValueError`, so: rejected iff the condition fails -/
theorem binarize_error_iff (bare : Bool) (t : Tree) :
    binarize bare t = .error .valueError ↔
      ¬ ∀ s ∈ t.subtrees, ∀ f ks, s = node f ks → 2 < ks.length →
        (∃ k ∈ ks, k.fields.head = some true) ∧
        chainOK ((sortBy leftmost ks).map fun c => c.fields.head) = true := by
  rw [← binarize_ok_iff bare t]
  cases h : binarize bare t with
  | ok t' => simp
  | error e => cases C14More.binarize_error_kind bare t e h; simp

/-! ### examples: the cases not covered by `binarize_accepts` / `binarize_rejects_anywhere` -/

private def lf (n : Nat) (l w : String) (h : Option Bool := none) : Tree :=
  leaf n { label := l.toList, word := some w.toList, head := h }
private def nd (l : String) (ks : List Tree) (h : Option Bool := none) : Tree :=
  node { label := l.toList, head := h } ks

/-- head child first, the other children without any head entry: accepted -/
def exHeadFirst : Tree := nd "S" [lf 1 "A" "a" (some true), lf 2 "B" "b", lf 3 "C" "c", lf 4 "D" "d"]
/-- a child without head entry before the head child (and not among the last two): rejected although a head
    child exists -/
def exUnmarkedFirst : Tree := nd "S" [lf 1 "A" "a", lf 2 "B" "b" (some true), lf 3 "C" "c" (some false),
  lf 4 "D" "d" (some false)]
/-- entry-less children only among the last two: accepted (they are never looked at) -/
def exUnmarkedLast : Tree := nd "S" [lf 1 "A" "a" (some false), lf 2 "B" "b" (some false), lf 3 "C" "c",
  lf 4 "D" "d" (some true)]
/-- the order is that of the first tokens, not the storage order: stored head-first, but the entry-less
    child has the smaller token number -/
def exStored : Tree := nd "S" [lf 2 "B" "b" (some true), lf 1 "A" "a", lf 3 "C" "c" (some false),
  lf 4 "D" "d" (some false)]

example : (∃ t', binarize false exHeadFirst = .ok t') ∧ binarize false exUnmarkedFirst = .error .valueError ∧
    (∃ t', binarize true exUnmarkedLast = .ok t') ∧ binarize false exStored = .error .valueError :=
  ⟨⟨_, rfl⟩, rfl, ⟨_, rfl⟩, rfl⟩

/-- the right-hand side of `binarize_ok_iff` evaluated on the examples -/
example : chainOK ((sortBy leftmost exHeadFirst.kids).map fun c => c.fields.head) = true ∧
    chainOK ((sortBy leftmost exUnmarkedFirst.kids).map fun c => c.fields.head) = false ∧
    chainOK ((sortBy leftmost exUnmarkedLast.kids).map fun c => c.fields.head) = true ∧
    chainOK ((sortBy leftmost exStored.kids).map fun c => c.fields.head) = false := by decide

/-- non-vacuity: `exHeadFirst` meets the right-hand side (and is outside `binarize_accepts`) -/
example : ∀ s ∈ exHeadFirst.subtrees, ∀ f ks, s = node f ks → 2 < ks.length →
    (∃ k ∈ ks, k.fields.head = some true) ∧
    chainOK ((sortBy leftmost ks).map fun c => c.fields.head) = true :=
  (binarize_ok_iff false exHeadFirst).1 ⟨_, rfl⟩

end TT.Props.C14More2
