/-
  C05 — boyd_split + raising: tokens are kept, every node produced by boyd_split is continuous,
  one node per block, raising keeps continuity, a continuous tree is a fixpoint.
  (see tools/agent_briefs/C05.md; helper lemmas in TT/Lemmas/Boyd.lean)
-/
import TT.Spec.Transform
import TT.Lemmas.Sort
import TT.Lemmas.Nav
import TT.Lemmas.WF
import TT.Lemmas.Boyd
namespace TT.Props.C05
open TT TT.Tree TT.Spec

/-- a discontinuous example: `(S (VP (A 1) (B 3) (V 4)) (C 2))`, `V` the head of `VP`, `VP` the head
    of `S`; storage order shuffled -/
def exT : Tree :=
  node { label := "S".toList }
    [leaf 2 { label := "C".toList, head := some false },
     node { label := "VP".toList, head := some true }
       [leaf 3 { label := "B".toList, head := some false },
        leaf 1 { label := "A".toList, head := some false },
        leaf 4 { label := "V".toList, head := some true }]]

/-- the result of `boyd_split` on `exT` -/
def exSplit : Tree :=
  match boydSplit exT with
  | .ok t => t
  | .error _ => exT

example : WF exT = true := by decide
example : continuous exT = false := by decide
example : (boydSplit exT).toOption.isSome = true := by decide
example : exT.noEmpty = true ∧ exT.leafNums.Nodup := by decide

/-! ## raising only dissolves nodes: tokens stay, in the same storage order -/

theorem raiseKids_leaves (ks : List Tree) : leavesL (raiseKids ks) = leavesL ks :=
  Lemmas.Boyd.raiseKids_leaves ks

theorem raising_leaves (t : Tree) : (raising t).leaves = t.leaves := by
  cases t with
  | leaf n f => rfl
  | node f ks => simp only [raising, leaves]; exact raiseKids_leaves ks

theorem raising_sentence (t : Tree) : sentence (raising t) = sentence t := by
  simp only [sentence, terminals, raising_leaves]

example : sentence (raising exSplit) = sentence exT := by decide

/-- the constituents that survive raising are exactly the non-removable ones (root always survives) -/
theorem raising_consLabels (f : Fields) (ks : List Tree) :
    consLabels (raising (node f ks)) = f.label :: (subtreesL ks |>.filter (fun s => !s.isLeaf && !removable s) |>.map (·.fields.label)) := by
  simp only [raising, consLabels]
  rw [Lemmas.Boyd.raiseKids_consLabels]
  rfl

example : consLabels (raising exSplit) = ["S".toList, "VP".toList] := by decide

/-! ## boyd_split keeps the tokens -/

theorem boydKids_leafNums (ks ks' : List Tree) (h : boydKids ks = .ok ks') :
    (ks'.flatMap leafNums).Perm (ks.flatMap leafNums) :=
  Lemmas.Boyd.boydKids_leafNums ks ks' h

/-- (the brief's placeholder name for `boydKids_leafNums`) -/
theorem boydKids_leaves (ks ks' : List Tree) (h : boydKids ks = .ok ks') :
    (ks'.flatMap leafNums).Perm (ks.flatMap leafNums) :=
  boydKids_leafNums ks ks' h

theorem boydNode_leafNums (t : Tree) (r : List Tree) (h : boydNode t = .ok r) : (r.flatMap leafNums).Perm t.leafNums :=
  Lemmas.Boyd.boydNode_leafNums t r h

/-- `boydSplit` succeeds exactly when `boydNode` returns a single node -/
theorem boydSplit_ok (t t' : Tree) (h : boydSplit t = .ok t') : boydNode t = .ok [t'] := by
  unfold boydSplit at h
  split at h
  · simp at h
  · rename_i t'' heq
    simp only [Except.ok.injEq] at h
    subst h; exact heq
  · simp at h

theorem boydSplit_leafNums (t t' : Tree) (h : boydSplit t = .ok t') : t'.leafNums.Perm t.leafNums := by
  simpa using boydNode_leafNums t [t'] (boydSplit_ok t t' h)

theorem boydSplit_words (t t' : Tree) (h : boydSplit t = .ok t') :
    (t'.leaves.map fun l => (l.num, l.fields.word, l.fields.label)).Perm (t.leaves.map fun l => (l.num, l.fields.word, l.fields.label)) := by
  have := Lemmas.Boyd.boydNode_toks t [t'] (boydSplit_ok t t' h)
  simp only [Lemmas.Boyd.toksL, List.flatMap_cons, List.flatMap_nil, List.append_nil] at this
  exact this

theorem boydSplit_sentence (t t' : Tree) (h : boydSplit t = .ok t') (hn : t.leafNums.Nodup) :
    (t'.terminals.map fun l => (l.fields.word, l.fields.label)) = (t.terminals.map fun l => (l.fields.word, l.fields.label)) := by
  have hp := boydSplit_words t t' h
  have hd : ((t'.leaves.map fun l => (l.num, l.fields.word, l.fields.label)).map (·.1)).Nodup := by
    have : (t'.leaves.map fun l => (l.num, l.fields.word, l.fields.label)).map (·.1) = t'.leafNums := by
      simp [leafNums, Function.comp_def]
    rw [this]
    exact (boydSplit_leafNums t t' h).symm.nodup hn
  have hs := sortBy_perm_eq (fun (x : Nat × Option Str × Str) => x.1) _ _ hp hd
  rw [sortBy_map num (fun (x : Nat × Option Str × Str) => x.1) _ (fun _ => rfl),
    sortBy_map num (fun (x : Nat × Option Str × Str) => x.1) _ (fun _ => rfl)] at hs
  have := congrArg (List.map fun (x : Nat × Option Str × Str) => x.2) hs
  simpa [terminals, Function.comp_def] using this

example : sentence exSplit = sentence exT := by decide

/-! ## every node produced by boyd_split is continuous; one node per block -/

/-- every node produced by boyd_split is continuous (children of a well-formed tree processed first) -/
theorem boydNode_continuous (t : Tree) (r : List Tree) (h : boydNode t = .ok r) (hwf : t.noEmpty = true) (hn : t.leafNums.Nodup) :
    ∀ x ∈ r, continuous x = true :=
  fun x hx => (Lemmas.Boyd.boydNode_good t r h hwf hn x hx).1

theorem boydSplit_continuous (t t' : Tree) (h : boydSplit t = .ok t') (hwf : WF t = true) : continuous t' = true :=
  boydNode_continuous t [t'] (boydSplit_ok t t' h) (Lemmas.WF.WF_noEmpty t hwf)
    (Lemmas.WF.WF_nodup t hwf) t' List.mem_cons_self

example : continuous exSplit = true := by decide

/-- one node per block, in block order -/
theorem boydNode_blocks (f : Fields) (ks : List Tree) (r : List Tree) (h : boydNode (node f ks) = .ok r)
    (hwf : (node f ks).noEmpty = true) (hn : (node f ks).leafNums.Nodup) :
    r.map yield = blocks (node f ks) ∧ ∀ x ∈ r, x.fields.label = f.label := by
  rw [Lemmas.Boyd.boydNode_node] at h
  cases hk : boydKids ks with
  | error e => simp [hk] at h
  | ok ks' =>
    simp only [hk] at h
    simp only [noEmpty, Bool.and_eq_true, Bool.not_eq_true', List.isEmpty_eq_false_iff] at hwf
    rw [Lemmas.Boyd.leafNums_node] at hn
    have hgood := Lemmas.Boyd.boydKids_good ks ks' hk hwf.2 hn
    obtain ⟨hn', hne'⟩ := Lemmas.Boyd.kids_ready ks ks' hk hwf.2 hwf.1 hn
    obtain ⟨_, hy, hl⟩ := Lemmas.Boyd.boydStep_spec f ks' r h hgood hn' hne'
    refine ⟨?_, hl⟩
    rw [hy, blocks, Lemmas.Boyd.yield_node,
      Lemmas.Boyd.sortBy_id_congr (Lemmas.Boyd.boydKids_leafNums ks ks' hk)]

/-- the `VP` of `exT` has the blocks `[1]` and `[3, 4]` and is replaced by two `VP` nodes -/
example : (match exT with
    | node _ [_, vp] => (match boydNode vp with
      | .ok r => r.map yield == blocks vp && r.map (·.fields.label) == ["VP".toList, "VP".toList]
      | .error _ => false)
    | _ => false) = true := by decide

/-! ## raising -/

/-- raising keeps the yield of every surviving node, hence continuity -/
theorem raising_continuous (t : Tree) (h : continuous t = true) : continuous (raising t) = true :=
  Lemmas.Boyd.raising_cont t h

/-- raising a split tree gives a continuous tree -/
theorem raise_continuous (t t' : Tree) (h : boydSplit t = .ok t') (hwf : WF t = true) : continuous (raising t') = true :=
  raising_continuous t' (boydSplit_continuous t t' h hwf)

example : continuous (raising exSplit) = true := by decide

/-- on a continuous tree `boyd_split` only sets the flags and `raising` does nothing -/
theorem continuous_fixpoint_strong (t t' : Tree) (h : boydSplit t = .ok t') (hwf : WF t = true) (hc : continuous t = true) :
    raising t' = t' ∧ stripT t' = stripT t := by
  obtain ⟨t'', hr, hs, _, hra⟩ := Lemmas.Boyd.boydNode_fix t [t'] (boydSplit_ok t t' h) hc
    (Lemmas.WF.WF_noEmpty t hwf) (Lemmas.WF.WF_nodup t hwf)
  simp only [List.cons.injEq, and_true] at hr
  subst hr
  exact ⟨hra, hs⟩

/-- an already continuous tree comes back unchanged (up to storage order and the split flags) -/
theorem continuous_fixpoint (t t' : Tree) (h : boydSplit t = .ok t') (hwf : WF t = true) (hc : continuous t = true) :
    sortKids (stripT (raising t')) = sortKids (stripT t) := by
  obtain ⟨h1, h2⟩ := continuous_fixpoint_strong t t' h hwf hc
  rw [h1, h2]

/-- a continuous example: `(S (A 1) (VP (B 2) (V 3)))` -/
def exC : Tree :=
  node { label := "S".toList }
    [node { label := "VP".toList, head := some true }
       [leaf 3 { label := "V".toList, head := some true }, leaf 2 { label := "B".toList, head := some false }],
     leaf 1 { label := "A".toList, head := some false }]

example : WF exC = true ∧ continuous exC = true ∧ (boydSplit exC).toOption.isSome = true := by decide

/-! ## the result is the reference tree -/

/-- per node: the blocks of `x` after raising are the node the reference keeps (flagged iff `x` is a
    head child) plus the material the reference hands upward, up to order and normal form -/
theorem boydNode_contSpec (x : Tree) (bs : List Tree) (h : boydNode x = .ok bs) (hne : x.noEmpty = true)
    (hn : x.leafNums.Nodup)
    (hh : ∀ s ∈ x.subtrees, ∀ f ks, s = node f ks → (ks.filter (fun k => k.fields.head == some true)).length = 1) :
    ((raiseKids bs).map fun y => sortKids (stripT y)).Perm
      (((contSpec x).1 :: (contSpec x).2).map fun y => sortKids (stripT y)) := by
  have := (Lemmas.Boyd.boydNode_spec x bs h hne hn hh).map (·.2)
  rw [Lemmas.Boyd.FB_map_snd] at this
  simp only [List.map_cons, List.map_map, Function.comp_def] at this
  exact this

/-- hardest: the result is the reference tree -/
theorem raise_spec (t t' : Tree) (h : boydSplit t = .ok t') (hwf : WF t = true)
    (hh : ∀ s ∈ t.subtrees, ∀ f ks, s = node f ks → (ks.filter (fun k => k.fields.head == some true)).length = 1) :
    sortKids (stripT (raising t')) = sortKids (stripT (contSpecRoot t)) := by
  have hne := Lemmas.WF.WF_noEmpty t hwf
  have hn := Lemmas.WF.WF_nodup t hwf
  have hb := boydSplit_ok t t' h
  cases t with
  | leaf n f => simp [WF, isLeaf] at hwf
  | node f ks => exact Lemmas.Boyd.root_spec f ks t' hb hne hn hh

example : (∀ s ∈ exT.subtrees, ∀ f ks, s = node f ks →
    (ks.filter (fun k => k.fields.head == some true)).length = 1) := by
  intro s hs f ks h
  simp only [exT, subtrees, subtreesL, List.mem_cons, List.cons_append, List.nil_append,
    List.append_nil, List.not_mem_nil, or_false] at hs
  rcases hs with rfl | rfl | rfl | rfl | rfl | rfl <;> cases h <;> decide

example : beq (sortKids (stripT (raising exSplit))) (sortKids (stripT (contSpecRoot exT))) = true := by
  decide

end TT.Props.C05
