/-
  C05 — property theorems (being added; see tools/agent_briefs/C05.md)
-/
import TT.Spec.Transform
namespace TT.Props.C05
open TT TT.Tree TT.Spec

end TT.Props.C05
