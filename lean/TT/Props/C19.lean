/-
  C19 — tree navigation API agrees with a set-based model of the tree.
-/
import TT.Spec.Nav
namespace TT.Props.C19
open TT TT.Tree TT.Spec

/-- `insertBy`/`sortBy` keep the elements (first brick; the full list is in tools/agent_briefs/C19.md) -/
theorem sortBy_length {α} (key : α → Nat) (l : List α) : (sortBy key l).length = l.length := by
  induction l with
  | nil => rfl
  | cons x xs ih =>
    have h : ∀ (ys : List α), (insertBy key x ys).length = ys.length + 1 := by
      intro ys; induction ys with
      | nil => rfl
      | cons y ys ih2 => simp only [insertBy]; split <;> simp [ih2]
    simp [sortBy, h, ih]

end TT.Props.C19
