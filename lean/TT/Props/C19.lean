/-
  C19 — tree navigation API agrees with a set-based model of the tree.
-/
import TT.Spec.Nav
import TT.Lemmas.Sort
import TT.Lemmas.Nav
namespace TT.Props.C19
open TT TT.Tree TT.Spec TT.Lemmas.Nav

/-- a discontinuous example tree: `(S (VP (A 1) (B 3)) (C 2))` with the children of `S` stored
    in reverse order of their leftmost token -/
def exT : Tree :=
  node {} [leaf 2 {}, node {} [leaf 3 {}, leaf 1 {}]]

example : WF exT = true := by decide

/-! ## T1 children / terminals -/

theorem children_perm (t : Tree) : (children t).Perm t.kids := sortBy_perm leftmost t.kids

theorem children_sorted (t : Tree) : (children t).Pairwise (fun a b => leftmost a ≤ leftmost b) :=
  sortBy_sorted leftmost t.kids

theorem children_storage_independent (f : Fields) (ks ks' : List Tree) (h : ks.Perm ks')
    (hd : (ks.map leftmost).Nodup) : children (node f ks) = children (node f ks') :=
  sortBy_perm_eq leftmost ks ks' h hd

example : (exT.kids.map leftmost).Nodup := by decide
example : (children exT).map leftmost = [1, 2] := by decide

theorem terminals_sorted (t : Tree) : (yield t).Pairwise (· ≤ ·) ∧ (yield t).Perm t.leafNums :=
  ⟨List.pairwise_map.2 (sortBy_sorted num t.leaves), (sortBy_perm num t.leaves).map num⟩

theorem yield_of_WF (t : Tree) (h : WF t = true) : yield t = List.range' 1 t.leafNums.length := by
  simp only [WF, Bool.and_eq_true, beq_iff_eq] at h
  rw [yield_eq]; exact h.1.2

example : yield exT = [1, 2, 3] := by decide

/-! ## T2 traversals -/

theorem preorder_unfold (f : Fields) (ks : List Tree) :
    preorder (node f ks) = node f ks :: (children (node f ks)).flatMap preorder :=
  Lemmas.Nav.preorder_unfold f ks

theorem postorder_unfold (f : Fields) (ks : List Tree) :
    postorder (node f ks) = (children (node f ks)).flatMap postorder ++ [node f ks] :=
  Lemmas.Nav.postorder_unfold f ks

theorem preorder_perm_subtrees (t : Tree) : (preorder t).Perm (subtrees t) :=
  Lemmas.Nav.preorder_perm_subtrees t

theorem postorder_perm_subtrees (t : Tree) : (postorder t).Perm (subtrees t) :=
  Lemmas.Nav.postorder_perm_subtrees t

theorem paths_nodup (t : Tree) : (paths t).Nodup := Lemmas.Nav.paths_nodup t

theorem preorderP_perm_paths (t : Tree) : (preorderP t).Perm (paths t) :=
  Lemmas.Nav.preorderP_perm_paths t

theorem postorderP_perm_paths (t : Tree) : (postorderP t).Perm (paths t) :=
  Lemmas.Nav.postorderP_perm_paths t

theorem preorderP_ancestor_first (t : Tree) (p q : Path) (hq : q ∈ preorderP t)
    (hpq : properPrefix p q = true) : (preorderP t).idxOf p < (preorderP t).idxOf q :=
  idxOf_lt_of_sublist p q _ (preorderP_nodup t) (preorderP_sublist t p q hq hpq)

theorem postorderP_ancestor_last (t : Tree) (p q : Path) (hq : q ∈ postorderP t)
    (hpq : properPrefix p q = true) : (postorderP t).idxOf q < (postorderP t).idxOf p :=
  idxOf_lt_of_sublist q p _ (postorderP_nodup t) (postorderP_sublist t p q hq hpq)

example : preorderP exT = [[], [1], [1, 1], [1, 0], [0]] := by decide
example : postorderP exT = [[1, 1], [1, 0], [1], [0], []] := by decide
example : [1, 0] ∈ preorderP exT ∧ properPrefix [1] [1, 0] = true := by decide

/-! ## T4 dominance -/

theorem dominance_shape (p : Path) :
    (dominancePaths p).head? = some p ∧ (dominancePaths p).getLast? = some [] ∧
    (dominancePaths p).length = p.length + 1 ∧
    ∀ i, i + 1 < (dominancePaths p).length → (dominancePaths p)[i + 1]? = ((dominancePaths p)[i]?).map List.dropLast := by
  refine ⟨?_, ?_, dominancePaths_length p, ?_⟩
  · rw [List.head?_eq_getElem?, dominancePaths_getElem? p 0 (Nat.zero_le _)]; simp
  · rw [List.getLast?_eq_getElem?, dominancePaths_length,
      dominancePaths_getElem? p _ (by omega)]
    simp
  · intro i hi
    rw [dominancePaths_length] at hi
    rw [dominancePaths_getElem? p (i + 1) (by omega), dominancePaths_getElem? p i (by omega)]
    simp only [Option.map_some, Option.some.injEq]
    rw [List.dropLast_eq_take, List.take_take, List.length_take]
    congr 1
    omega

example : dominancePaths [1, 0] = [[1, 0], [1], []] := by decide

/-! ## T5 lca -/

theorem lca_none_iff (p q : Path) : lca p q = none ↔ (isPrefix p q = true ∨ isPrefix q p = true) := by
  simp only [lca, Bool.or_eq_true, decide_eq_true_eq, commonPrefix_length_left,
    commonPrefix_length_right]
  split <;> simp_all

theorem lca_spec (p q : Path) : lcaOK p q (lca p q) = true := by
  unfold lcaOK
  by_cases h : isPrefix p q = true ∨ isPrefix q p = true
  · have hn := (lca_none_iff p q).2 h
    have : (isPrefix p q || isPrefix q p) = true := by simpa using h
    simp [this, hn]
  · have h1 : isPrefix p q = false := by
      cases hh : isPrefix p q <;> simp_all
    have h2 : isPrefix q p = false := by
      cases hh : isPrefix q p <;> simp_all
    have hl1 : ¬ (commonPrefix p q).length = p.length := by
      rw [commonPrefix_length_left]; simp [h1]
    have hl2 : ¬ (commonPrefix p q).length = q.length := by
      rw [commonPrefix_length_right]; simp [h2]
    have hs : lca p q = some (commonPrefix p q) := by simp [lca, hl1, hl2]
    simp only [h1, h2, Bool.or_self, Bool.false_eq_true, if_false, hs,
      isPrefix_commonPrefix_left, isPrefix_commonPrefix_right, Bool.true_and]
    simpa using commonPrefix_next_ne p q h1 h2

example : lca [1, 0] [1, 1, 2] = some [1] := by decide
example : lca [1] [1, 1, 2] = none := by decide

/-! ## T6 levels -/

theorem height_longest (t : Tree) (h : t.noEmpty = true) : height t = longestDown t := by
  simp [longestDown, maxNat_depthsAux t 0 h]

example : exT.noEmpty = true ∧ height exT = 2 := by decide

/-! ## T3 siblings -/

theorem orderedIdx_perm (ks : List Tree) : (orderedIdx ks).Perm (List.range ks.length) :=
  Lemmas.Nav.orderedIdx_perm ks

theorem siblings_inverse (t : Tree) (p q : Path) (h : rightSibling t p = some q) : leftSibling t q = some p := by
  unfold rightSibling at h
  cases hl : p.getLast? with
  | none => simp [hl] at h
  | some i =>
    simp only [hl] at h
    cases hg : t.get? p.dropLast with
    | none => simp [hg] at h
    | some par =>
      simp only [hg] at h
      cases hk : (orderedIdx par.kids).idxOf? i with
      | none => simp [hk] at h
      | some k =>
        simp only [hk, Option.map_eq_some_iff] at h
        obtain ⟨j, hj, rfl⟩ := h
        unfold leftSibling
        simp only [List.getLast?_concat, List.dropLast_concat, hg,
          idxOf?_getElem_of_nodup (orderedIdx_nodup _) hj, getElem?_of_idxOf? hk, Option.map_some,
          dropLast_append_of_getLast? hl]

theorem siblings_inverse' (t : Tree) (p q : Path) (h : leftSibling t p = some q) : rightSibling t q = some p := by
  unfold leftSibling at h
  cases hl : p.getLast? with
  | none => simp [hl] at h
  | some i =>
    simp only [hl] at h
    cases hg : t.get? p.dropLast with
    | none => simp [hg] at h
    | some par =>
      simp only [hg] at h
      cases hk : (orderedIdx par.kids).idxOf? i with
      | none => simp [hk] at h
      | some k =>
        cases k with
        | zero => simp [hk] at h
        | succ k =>
          simp only [hk, Option.map_eq_some_iff] at h
          obtain ⟨j, hj, rfl⟩ := h
          unfold rightSibling
          simp only [List.getLast?_concat, List.dropLast_concat, hg,
            idxOf?_getElem_of_nodup (orderedIdx_nodup _) hj, getElem?_of_idxOf? hk, Option.map_some,
            dropLast_append_of_getLast? hl]

example : rightSibling exT [1] = some [0] ∧ leftSibling exT [0] = some [1] := by decide

end TT.Props.C19
