/-
  C19 — tree navigation API agrees with a set-based model of the tree.
-/
import TT.Spec.Nav
import TT.Lemmas.Sort
import TT.Lemmas.Nav
namespace TT.Props.C19
open TT TT.Tree TT.Spec TT.Lemmas.Nav

/-- a discontinuous example tree: `(S (VP (A 1) (B 3)) (C 2))` with the children of `S` stored
    in reverse order of their leftmost token -/
def exT : Tree :=
  node {} [leaf 2 {}, node {} [leaf 3 {}, leaf 1 {}]]

example : WF exT = true := by decide

/-! ## T1 children / terminals -/

theorem children_perm (t : Tree) : (children t).Perm t.kids := sortBy_perm leftmost t.kids

theorem children_sorted (t : Tree) : (children t).Pairwise (fun a b => leftmost a ≤ leftmost b) :=
  sortBy_sorted leftmost t.kids

theorem children_storage_independent (f : Fields) (ks ks' : List Tree) (h : ks.Perm ks')
    (hd : (ks.map leftmost).Nodup) : children (node f ks) = children (node f ks') :=
  sortBy_perm_eq leftmost ks ks' h hd

example : (exT.kids.map leftmost).Nodup := by decide
example : (children exT).map leftmost = [1, 2] := by decide

theorem terminals_sorted (t : Tree) : (yield t).Pairwise (· ≤ ·) ∧ (yield t).Perm t.leafNums :=
  ⟨List.pairwise_map.2 (sortBy_sorted num t.leaves), (sortBy_perm num t.leaves).map num⟩

theorem yield_of_WF (t : Tree) (h : WF t = true) : yield t = List.range' 1 t.leafNums.length := by
  simp only [WF, Bool.and_eq_true, beq_iff_eq] at h
  rw [yield_eq]; exact h.1.2

example : yield exT = [1, 2, 3] := by decide

/-! ## T2 traversals -/

theorem preorder_unfold (f : Fields) (ks : List Tree) :
    preorder (node f ks) = node f ks :: (children (node f ks)).flatMap preorder :=
  Lemmas.Nav.preorder_unfold f ks

theorem postorder_unfold (f : Fields) (ks : List Tree) :
    postorder (node f ks) = (children (node f ks)).flatMap postorder ++ [node f ks] :=
  Lemmas.Nav.postorder_unfold f ks

theorem preorder_perm_subtrees (t : Tree) : (preorder t).Perm (subtrees t) :=
  Lemmas.Nav.preorder_perm_subtrees t

theorem postorder_perm_subtrees (t : Tree) : (postorder t).Perm (subtrees t) :=
  Lemmas.Nav.postorder_perm_subtrees t

theorem paths_nodup (t : Tree) : (paths t).Nodup := Lemmas.Nav.paths_nodup t

theorem preorderP_perm_paths (t : Tree) : (preorderP t).Perm (paths t) :=
  Lemmas.Nav.preorderP_perm_paths t

theorem postorderP_perm_paths (t : Tree) : (postorderP t).Perm (paths t) :=
  Lemmas.Nav.postorderP_perm_paths t

theorem preorderP_ancestor_first (t : Tree) (p q : Path) (hq : q ∈ preorderP t)
    (hpq : properPrefix p q = true) : (preorderP t).idxOf p < (preorderP t).idxOf q :=
  idxOf_lt_of_sublist p q _ (preorderP_nodup t) (preorderP_sublist t p q hq hpq)

theorem postorderP_ancestor_last (t : Tree) (p q : Path) (hq : q ∈ postorderP t)
    (hpq : properPrefix p q = true) : (postorderP t).idxOf q < (postorderP t).idxOf p :=
  idxOf_lt_of_sublist q p _ (postorderP_nodup t) (postorderP_sublist t p q hq hpq)

example : preorderP exT = [[], [1], [1, 1], [1, 0], [0]] := by decide
example : postorderP exT = [[1, 1], [1, 0], [1], [0], []] := by decide
example : [1, 0] ∈ preorderP exT ∧ properPrefix [1] [1, 0] = true := by decide

/-! ## T4 dominance -/

theorem dominance_shape (p : Path) :
    (dominancePaths p).head? = some p ∧ (dominancePaths p).getLast? = some [] ∧
    (dominancePaths p).length = p.length + 1 ∧
    ∀ i, i + 1 < (dominancePaths p).length → (dominancePaths p)[i + 1]? = ((dominancePaths p)[i]?).map List.dropLast := by
  refine ⟨?_, ?_, dominancePaths_length p, ?_⟩
  · rw [List.head?_eq_getElem?, dominancePaths_getElem? p 0 (Nat.zero_le _)]; simp
  · rw [List.getLast?_eq_getElem?, dominancePaths_length,
      dominancePaths_getElem? p _ (by omega)]
    simp
  · intro i hi
    rw [dominancePaths_length] at hi
    rw [dominancePaths_getElem? p (i + 1) (by omega), dominancePaths_getElem? p i (by omega)]
    simp only [Option.map_some, Option.some.injEq]
    rw [List.dropLast_eq_take, List.take_take, List.length_take]
    congr 1
    omega

example : dominancePaths [1, 0] = [[1, 0], [1], []] := by decide

/-! ## T5 lca -/

theorem lca_none_iff (p q : Path) : lca p q = none ↔ (isPrefix p q = true ∨ isPrefix q p = true) := by
  simp only [lca, Bool.or_eq_true, decide_eq_true_eq, commonPrefix_length_left,
    commonPrefix_length_right]
  split <;> simp_all

theorem lca_spec (p q : Path) : lcaOK p q (lca p q) = true := by
  unfold lcaOK
  by_cases h : isPrefix p q = true ∨ isPrefix q p = true
  · have hn := (lca_none_iff p q).2 h
    have : (isPrefix p q || isPrefix q p) = true := by simpa using h
    simp [this, hn]
  · have h1 : isPrefix p q = false := by
      cases hh : isPrefix p q <;> simp_all
    have h2 : isPrefix q p = false := by
      cases hh : isPrefix q p <;> simp_all
    have hl1 : ¬ (commonPrefix p q).length = p.length := by
      rw [commonPrefix_length_left]; simp [h1]
    have hl2 : ¬ (commonPrefix p q).length = q.length := by
      rw [commonPrefix_length_right]; simp [h2]
    have hs : lca p q = some (commonPrefix p q) := by simp [lca, hl1, hl2]
    simp only [h1, h2, Bool.or_self, Bool.false_eq_true, if_false, hs,
      isPrefix_commonPrefix_left, isPrefix_commonPrefix_right, Bool.true_and]
    simpa using commonPrefix_next_ne p q h1 h2

example : lca [1, 0] [1, 1, 2] = some [1] := by decide
example : lca [1] [1, 1, 2] = none := by decide

/-! ## T6 levels -/

theorem height_longest (t : Tree) (h : t.noEmpty = true) : height t = longestDown t := by
  simp [longestDown, maxNat_depthsAux t 0 h]

example : exT.noEmpty = true ∧ height exT = 2 := by decide

/-! ## T3 siblings -/

theorem orderedIdx_perm (ks : List Tree) : (orderedIdx ks).Perm (List.range ks.length) :=
  Lemmas.Nav.orderedIdx_perm ks

theorem siblings_inverse (t : Tree) (p q : Path) (h : rightSibling t p = some q) : leftSibling t q = some p := by
  unfold rightSibling at h
  cases hl : p.getLast? with
  | none => simp [hl] at h
  | some i =>
    simp only [hl] at h
    cases hg : t.get? p.dropLast with
    | none => simp [hg] at h
    | some par =>
      simp only [hg] at h
      cases hk : (orderedIdx par.kids).idxOf? i with
      | none => simp [hk] at h
      | some k =>
        simp only [hk, Option.map_eq_some_iff] at h
        obtain ⟨j, hj, rfl⟩ := h
        unfold leftSibling
        simp only [List.getLast?_concat, List.dropLast_concat, hg,
          idxOf?_getElem_of_nodup (orderedIdx_nodup _) hj, getElem?_of_idxOf? hk, Option.map_some,
          dropLast_append_of_getLast? hl]

theorem siblings_inverse' (t : Tree) (p q : Path) (h : leftSibling t p = some q) : rightSibling t q = some p := by
  unfold leftSibling at h
  cases hl : p.getLast? with
  | none => simp [hl] at h
  | some i =>
    simp only [hl] at h
    cases hg : t.get? p.dropLast with
    | none => simp [hg] at h
    | some par =>
      simp only [hg] at h
      cases hk : (orderedIdx par.kids).idxOf? i with
      | none => simp [hk] at h
      | some k =>
        cases k with
        | zero => simp [hk] at h
        | succ k =>
          simp only [hk, Option.map_eq_some_iff] at h
          obtain ⟨j, hj, rfl⟩ := h
          unfold rightSibling
          simp only [List.getLast?_concat, List.dropLast_concat, hg,
            idxOf?_getElem_of_nodup (orderedIdx_nodup _) hj, getElem?_of_idxOf? hk, Option.map_some,
            dropLast_append_of_getLast? hl]

example : rightSibling exT [1] = some [0] ∧ leftSibling exT [0] = some [1] := by decide

/-! ## T7 export numbering -/

theorem numbering_values (t : Tree) :
    ∃ k, (exportNumbering t).length = k ∧
      ∀ n ∈ (exportNumbering t).map (·.2), n = 0 ∨ (500 ≤ n ∧ n < 500 + k) := by
  refine ⟨_, rfl, ?_⟩
  intro n hn
  obtain ⟨pn, hpn, rfl⟩ := List.mem_map.1 hn
  obtain ⟨x, i, hi, rfl⟩ := (mem_exportNumbering t pn).1 hpn
  have := (List.getElem?_eq_some_iff.1 hi).1
  rw [exportNumbering_length]
  dsimp only
  split
  · exact Or.inl rfl
  · exact Or.inr (by omega)

example : exportNumbering exT = [([1], 500), ([], 0)] := by decide

/-- the constituents (nodes with at least one child) of `t`, as the spec `numberingOK` lists them -/
def constituents (t : Tree) : List Path := (paths t).filter (isCons t)

/-- piece 1: exactly the constituents are numbered, each once -/
theorem numbering_paths_perm (t : Tree) :
    ((exportNumbering t).map (·.1)).Perm (constituents t) := by
  rw [exportNumbering_map_fst]; exact sortedCons_map_fst_perm t

theorem numbering_paths_nodup (t : Tree) : ((exportNumbering t).map (·.1)).Nodup :=
  (numbering_paths_perm t).symm.nodup ((Lemmas.Nav.paths_nodup t).filter _)

theorem numbering_length (t : Tree) : (exportNumbering t).length = (constituents t).length := by
  simpa using (numbering_paths_perm t).length_eq

/-- piece 2: the root (and only the root) gets 0 -/
theorem numbering_root_zero (t : Tree) (pn : Path × Nat) (h : pn ∈ exportNumbering t) :
    pn.1 = [] ↔ pn.2 = 0 := by
  obtain ⟨x, i, _, rfl⟩ := (mem_exportNumbering t pn).1 h
  dsimp only
  split
  · simp [*]
  · simp only [*, false_iff]; omega

/-- piece 3 (needs the root to be a constituent, e.g. `WF`): the numbers used are exactly
    `0, 500, 501, …, 500 + k - 2`; in particular they are pairwise distinct -/
theorem numbering_sorted_values (t : Tree) (hc : isCons t [] = true) :
    sortBy id ((exportNumbering t).map (·.2)) =
      0 :: List.range' 500 ((exportNumbering t).length - 1) := by
  obtain ⟨S', r, hS, hr, hS'⟩ := sortedCons_root_last t hc
  rw [exportNumbering_map_snd, exportNumbering_length, hS, List.zipIdx_append, List.map_append,
    numbers_of_nonroot S' 0 hS']
  simp only [List.zipIdx_singleton, List.map_cons, List.map_nil, hr, if_true, List.length_append,
    List.length_cons, List.length_nil, Nat.add_zero, Nat.zero_add, Nat.add_sub_cancel]
  exact sortBy_range'_zero _

theorem numbering_values_nodup (t : Tree) (hc : isCons t [] = true) :
    ((exportNumbering t).map (·.2)).Nodup := by
  have h := numbering_sorted_values t hc
  have hp := sortBy_perm id ((exportNumbering t).map (·.2))
  rw [h] at hp
  refine hp.nodup ?_
  refine List.nodup_cons.2 ⟨?_, List.nodup_range'⟩
  intro h0
  rw [List.mem_range'_1] at h0
  omega

/-- piece 4: a non-root constituent is numbered above every constituent below it -/
theorem numbering_below (t : Tree) (pn qm : Path × Nat) (hp : pn ∈ exportNumbering t)
    (hq : qm ∈ exportNumbering t) (hpq : properPrefix pn.1 qm.1 = true) (hne : pn.1 ≠ []) :
    qm.2 < pn.2 := by
  obtain ⟨x, i, hi, rfl⟩ := (mem_exportNumbering t pn).1 hp
  obtain ⟨y, j, hj, rfl⟩ := (mem_exportNumbering t qm).1 hq
  dsimp only at hpq hne ⊢
  obtain ⟨s, hgs, _, hhs, _⟩ := sortedCons_entry t x (List.mem_of_getElem? hi)
  obtain ⟨s', hgs', _, hhs', _⟩ := sortedCons_entry t y (List.mem_of_getElem? hj)
  have hlt := height_lt_of_properPrefix t x.1 y.1 s s' hgs hgs' hpq
  have hji : j < i := sortedCons_idx_lt t hj hi (Or.inl (by omega))
  have hy : y.1 ≠ [] := by
    obtain ⟨r, hr, _⟩ := properPrefix_exists _ _ hpq
    intro h; rw [h] at hr
    exact hne (List.append_eq_nil_iff.1 hr.symm).1
  simp only [hne, hy, if_false]
  omega

/-- piece 5: numbers increase with the level, and within a level with the leftmost token -/
theorem numbering_levels (t : Tree) (hne : t.noEmpty = true) (pn qm : Path × Nat)
    (hp : pn ∈ exportNumbering t) (hq : qm ∈ exportNumbering t) (hp0 : pn.1 ≠ []) (hq0 : qm.1 ≠ []) :
    let hP := ((t.get? pn.1).map longestDown).getD 0
    let hQ := ((t.get? qm.1).map longestDown).getD 0
    let lP := ((t.get? pn.1).map minLeaf).getD 0
    let lQ := ((t.get? qm.1).map minLeaf).getD 0
    (hP < hQ → pn.2 < qm.2) ∧ (hP = hQ → lP < lQ → pn.2 < qm.2) := by
  obtain ⟨x, i, hi, rfl⟩ := (mem_exportNumbering t pn).1 hp
  obtain ⟨y, j, hj, rfl⟩ := (mem_exportNumbering t qm).1 hq
  dsimp only at hp0 hq0 ⊢
  obtain ⟨s, hgs, _, hhs, hls⟩ := sortedCons_entry t x (List.mem_of_getElem? hi)
  obtain ⟨s', hgs', _, hhs', hls'⟩ := sortedCons_entry t y (List.mem_of_getElem? hj)
  have e1 := height_longest s (noEmpty_get? _ _ _ hne hgs)
  have e2 := height_longest s' (noEmpty_get? _ _ _ hne hgs')
  simp only [hgs, hgs', Option.map_some, Option.getD_some, hp0, hq0, if_false,
    ← e1, ← e2, ← leftmost_eq_minLeaf, ← hhs, ← hhs', ← hls, ← hls']
  constructor
  · intro h
    have := sortedCons_idx_lt t hi hj (Or.inl h)
    omega
  · intro h1 h2
    have := sortedCons_idx_lt t hi hj (Or.inr ⟨h1, h2⟩)
    omega

theorem numbering_ok (t : Tree) (h : WF t = true) : numberingOK t (exportNumbering t) = true := by
  obtain ⟨hc, hne⟩ := WF_root t h
  have hnonempty : (exportNumbering t).isEmpty = false := by
    have h1 := numbering_length t
    have h2 : [] ∈ constituents t := List.mem_filter.2 ⟨nil_mem_paths t, hc⟩
    have := List.length_pos_of_mem h2
    cases hh : exportNumbering t with
    | nil => rw [hh] at h1; simp at h1; omega
    | cons _ _ => rfl
  unfold numberingOK
  simp only [Bool.and_eq_true, List.all_eq_true, beq_iff_eq, decide_eq_true_eq]
  refine ⟨⟨⟨⟨⟨numbering_length t, ?_⟩, ?_⟩, ?_⟩, ?_⟩, ?_⟩
  · intro p hp
    rw [List.contains_iff_mem]
    exact (numbering_paths_perm t).symm.subset hp
  · rw [hnonempty]; exact numbering_sorted_values t hc
  · intro pn hpn
    have := numbering_root_zero t pn hpn
    rw [Bool.eq_iff_iff, beq_iff_eq, beq_iff_eq]; exact this
  · intro pn hpn qm hqm
    split
    · rename_i hh
      simp only [bne_iff_ne, ne_eq] at hh
      simpa using numbering_below t pn qm hpn hqm hh.1 hh.2
    · rfl
  · intro pn hpn qm hqm
    split
    · rename_i hh
      simp only [bne_iff_ne, ne_eq] at hh
      have := numbering_levels t hne pn qm hpn hqm hh.1.1 hh.1.2
      dsimp only at this
      split
      · rename_i h1; simpa using this.1 h1
      · split
        · rename_i h2; simpa using this.2 h2.1 h2.2
        · rfl
    · rfl

example : numberingOK exT (exportNumbering exT) = true := by decide

end TT.Props.C19
