/-
  C09, wave 12 -- closing the clauses of audit B, section C09:
  * T9.2 `readLex_lexLines`, T9.1 `readRcg_writeRcg_full` (the RCG round trip as `P.C09.rcg` states it: same rules, same
    lexicon), `readRcg_writeRcg_files`;
  * T9.5 `lopar_start_decode`; T9.4 `decPmcfg_write_lig`, `lexrule_unique`, `pmcfg_lig_lexrule`, `readRcg_writeRcg_lig`
    (lexical rules embedded in the files); T9.6 `grammar_file_idempotent`, `grammar_file_pmcfg`;
  * T9.3 the domain lemma: `binarized_rules_ok`, `extracted_rules_ok`, `treebank_grammars_ok`, and on top of it the
    round trips without side conditions on the grammar: `treebank_RoundTripOK`, `rcg_roundtrip_treebank`,
    `pmcfg_roundtrip_treebank`.
  Helper lemmas: TT/Lemmas/More12c.lean.
-/
import TT.Props.C09Rcg
import TT.Props.C09More
import TT.Lemmas.More12c
namespace TT.Props.C09Full
open TT TT.Spec TT.Lemmas.GramOut TT.Lemmas.Unbin TT.Lemmas.More12c TT.Props.C09Rcg

/-! ## T9.2 the tool's own lexicon reader on the written lexicon file -/

/-- the lexicon file re-read by the tool's own reader (`readLexLine` folded over the lines, as `grammarinput.rcg`
    does) is the lexicon in memory.  Hypotheses as in `C09.decLex_lexLines`: format (words and tags non-empty and
    whitespace-free, every word has a tag) and the dictionary hypotheses (keys distinct). -/
theorem readLex_lexLines (lex : Lexicon)
    (h : ∀ e ∈ lex, e.1 ≠ [] ∧ (∀ c ∈ e.1, pyIsSpace c = false) ∧ e.2 ≠ [] ∧
         ∀ tc ∈ e.2, tc.1 ≠ [] ∧ ∀ c ∈ tc.1, pyIsSpace c = false)
    (hnd : (lex.map (·.1)).Nodup) (hnd2 : ∀ e ∈ lex, (e.2.map (·.1)).Nodup) :
    (lexLines lex).foldl readLexLine [] = lex := by
  rw [foldl_readLexLine [] lex (fun e he => ⟨⟨(h e he).1, (h e he).2.1⟩, (h e he).2.2.2⟩),
    foldl_add_lex [] lex (by simpa using hnd) (fun e he => (h e he).2.2.1) hnd2]
  simp

example : (lexLines C09.exLex).foldl readLexLine [] = C09.exLex := by decide
example : (∀ e ∈ C09.exLex, e.1 ≠ [] ∧ (∀ c ∈ e.1, pyIsSpace c = false) ∧ e.2 ≠ [] ∧
    ∀ tc ∈ e.2, tc.1 ≠ [] ∧ ∀ c ∈ tc.1, pyIsSpace c = false) ∧ (C09.exLex.map (·.1)).Nodup ∧
    ∀ e ∈ C09.exLex, (e.2.map (·.1)).Nodup := by decide
/-- the format hypotheses are needed: an empty word makes the reader take the first tag for the word; a word
    without tags is lost -/
example : (lexLines [([], [("NN".toList, 2), ("NE".toList, 1)])]).foldl readLexLine [] =
    [("NN".toList, [("2".toList, 0)])] := by decide
example : (lexLines [("w".toList, [])]).foldl readLexLine [] = [] := by decide

/-! ## T9.1 the RCG round trip as the predicate `P.C09.rcg` states it -/

/-- MAIN (T9.1): the two files written by `writeRcg` without embedded lexical rules, re-read by the tool's own reader
    `readRcg`, give a grammar with exactly the rules of `g` (functions, linearizations, summed counts, in order) and
    exactly the lexicon `lex` -- what `P.C09.rcg` evaluates (`g2.rules == g.rules`, `l2 == l`).
    `hg`, `hnd`, `hnd2`: the grammar and the lexicon are dictionaries (keys distinct, always true of the Python dicts);
    `h`: labels RCG can carry and ordered, non-deleting rules with a right-hand side (`readRcgLine_rcgLine`);
    `hx`: format of the lexicon file. -/
theorem readRcg_writeRcg_full (g : Grammar) (lex : Lexicon) (hg : GN g)
    (h : ∀ r ∈ g.rules, (∀ s ∈ r.1, RcgLabelOK s = true) ∧ 2 ≤ r.1.length ∧
      wfLin r.2.1 ((fanOut r.2.1).drop 1) = true ∧ (fanOut r.2.1).length = r.1.length)
    (hx : ∀ e ∈ lex, e.1 ≠ [] ∧ (∀ c ∈ e.1, pyIsSpace c = false) ∧ e.2 ≠ [] ∧
         ∀ tc ∈ e.2, tc.1 ≠ [] ∧ ∀ c ∈ tc.1, pyIsSpace c = false)
    (hnd : (lex.map (·.1)).Nodup) (hnd2 : ∀ e ∈ lex, (e.2.map (·.1)).Nodup) :
    ∃ g2, readRcg (writeRcg false g lex).1 (lexLines lex) = some (g2, lex) ∧ g2.rules = g.rules := by
  refine ⟨normG g, ?_, rules_normG g⟩
  rw [readRcg_writeRcg g lex (lexLines lex) h, readLex_lexLines lex hx hnd hnd2]
  have := foldl_rstep_rules [] g (by simpa using hg.1) hg.2
  simp only [List.nil_append] at this
  rw [← this]
  rfl

/-- the same with the files taken from the writer's result, and the re-read grammar named: it is `normG g`
    (`TT/Lemmas/More12c.lean`): `g` with the counts of each (function, linearization) summed under the `VERT` key -/
theorem readRcg_writeRcg_files (g : Grammar) (lex : Lexicon) (hg : GN g)
    (h : ∀ r ∈ g.rules, (∀ s ∈ r.1, RcgLabelOK s = true) ∧ 2 ≤ r.1.length ∧
      wfLin r.2.1 ((fanOut r.2.1).drop 1) = true ∧ (fanOut r.2.1).length = r.1.length)
    (hx : ∀ e ∈ lex, e.1 ≠ [] ∧ (∀ c ∈ e.1, pyIsSpace c = false) ∧ e.2 ≠ [] ∧
         ∀ tc ∈ e.2, tc.1 ≠ [] ∧ ∀ c ∈ tc.1, pyIsSpace c = false)
    (hnd : (lex.map (·.1)).Nodup) (hnd2 : ∀ e ∈ lex, (e.2.map (·.1)).Nodup) :
    ∃ ll, (writeRcg false g lex).2 = some ll ∧
      readRcg (writeRcg false g lex).1 ll = some (normG g, lex) ∧ (normG g).rules = g.rules := by
  refine ⟨lexLines lex, rfl, ?_, rules_normG g⟩
  rw [readRcg_writeRcg g lex (lexLines lex) h, readLex_lexLines lex hx hnd hnd2]
  have := foldl_rstep_rules [] g (by simpa using hg.1) hg.2
  simp only [List.nil_append] at this
  rw [← this]
  rfl

example : GN C09.exG := by unfold GN; decide
example : ∃ g2, readRcg (writeRcg false C09.exG C09.exLex).1 (lexLines C09.exLex) = some (g2, C09.exLex) ∧
    g2.rules = C09.exG.rules :=
  readRcg_writeRcg_full _ _ (by unfold GN; decide) (by decide) (by decide) (by decide) (by decide)
example : readRcg (writeRcg false C09.exG C09.exLex).1 (lexLines C09.exLex) = some (normG C09.exG, C09.exLex) := by
  rfl
example : normG C09.exG =
  [(["S".toList, "VP".toList, "NP".toList], [([[(0, 0), (1, 0), (0, 1)]], [(VertKey.default, 3)])]),
   (["VP".toList, "V".toList, "PTK".toList], [([[(0, 0)], [(1, 0)]], [(VertKey.default, 3)])])] := by rfl

/-- the dictionary hypothesis `GN` cannot be dropped for an arbitrary association list: a repeated function key
    is re-read once, the later count overwrites the earlier one -/
def cexDup : Grammar :=
  [(["S".toList, "A".toList], [([[(0, 0)]], [(VertKey.default, 3)])]),
   (["S".toList, "A".toList], [([[(0, 0)]], [(VertKey.default, 4)])])]
example : (readRcg (writeRcg false cexDup []).1 []).map (fun p => p.1.rules) =
      some [(["S".toList, "A".toList], [[(0, 0)]], 4)] ∧
    cexDup.rules = [(["S".toList, "A".toList], [[(0, 0)]], 3), (["S".toList, "A".toList], [[(0, 0)]], 4)] :=
  ⟨by rfl, by rfl⟩


/-! ## T9.5 the LoPar start file decodes -/

/-- the `.start` file decodes (by the independent decoder `decCountLines`) to the start symbols -- the left-hand-side
    labels that occur on no right-hand side -- each with the summed count of the rules rewriting it -/
theorem lopar_start_decode (g : Grammar) (lex : Lexicon) (files : LoparFiles) (h : writeLopar g lex = .ok files)
    (hl : ∀ e ∈ g, e.1 ≠ [] ∧ ∀ s ∈ e.1, s ≠ [] ∧ ∀ c ∈ s, pyIsSpace c = false) :
    decCountLines files.start =
      some (((g.map fun (f, _) => f.head?.getD []).eraseDups.filter fun s =>
        !(g.flatMap fun (f, _) => f.drop 1).contains s).map fun s => (s, lhsMass g s)) := by
  rw [C09.lopar_start g lex files h]
  have := C09More.decCountLines_render
    (((g.map fun (f, _) => f.head?.getD []).eraseDups.filter fun s =>
        !(g.flatMap fun (f, _) => f.drop 1).contains s).map fun s => (s, lhsMass g s)) (by
      intro p hp
      obtain ⟨s, hs, rfl⟩ := List.mem_map.1 hp
      have hs' := List.mem_eraseDups.1 (List.mem_filter.1 hs).1
      obtain ⟨e, he, rfl⟩ := List.mem_map.1 hs'
      obtain ⟨hne, hs2⟩ := hl e he
      cases hf : e.1 with
      | nil => exact absurd hf hne
      | cons a r => simpa [hf] using hs2 a (by simp [hf]))
  rw [← this, List.map_map]
  rfl

example : (match writeLopar C09.exCF C09.exLex with | .ok f => decCountLines f.start | .error _ => none) =
    some [("S".toList, 3)] := by decide
example : lhsMass C09.exCF "S".toList = 3 := by decide
example : ∀ e ∈ C09.exCF, e.1 ≠ [] ∧ ∀ s ∈ e.1, s ≠ [] ∧ ∀ c ∈ s, pyIsSpace c = false := by decide

/-! ## T9.4 lexical rules embedded in the written files (`lex_in_grammar`) -/

/-- with `lex_in_grammar` the writers write the grammar extended by the lexical rules, and no lexicon file -/
theorem writePmcfg_lig (g : Grammar) (lex : Lexicon) :
    writePmcfg true g lex = ((writePmcfg false (addLexRules g lex) lex).1, none) := rfl
theorem writeRcg_lig (g : Grammar) (lex : Lexicon) :
    writeRcg true g lex = ((writeRcg false (addLexRules g lex) lex).1, none) := rfl

/-- PMCFG file with embedded lexical rules: the independent decoder recovers exactly the rules of the grammar
    extended by the lexical rules (words and tags must be non-empty and whitespace-free like the labels) -/
theorem decPmcfg_write_lig (g : Grammar) (lex : Lexicon)
    (hl : ∀ e ∈ g, e.1 ≠ [] ∧ ∀ s ∈ e.1, s ≠ [] ∧ ∀ c ∈ s, pyIsSpace c = false)
    (hlin : ∀ e ∈ g, ∀ le ∈ e.2, ∀ arg ∈ le.1, ∀ v ∈ arg, 0 ≤ v.1)
    (hw : ∀ e ∈ lex, (e.1 ≠ [] ∧ ∀ c ∈ e.1, pyIsSpace c = false) ∧
      ∀ tc ∈ e.2, tc.1 ≠ [] ∧ ∀ c ∈ tc.1, pyIsSpace c = false) :
    decPmcfg (writePmcfg true g lex).1 = some (addLexRules g lex).rules := by
  rw [writePmcfg_lig]
  have hA : AllPairs (fun f l => (f ≠ [] ∧ ∀ s ∈ f, s ≠ [] ∧ ∀ c ∈ s, pyIsSpace c = false) ∧
      ∀ arg ∈ l, ∀ v ∈ arg, 0 ≤ v.1) (addLexRules g lex) := by
    apply AllPairs_addLexRules
    · intro e he le hle
      exact ⟨hl e he, hlin e he le hle⟩
    · intro e he tc htc
      refine ⟨⟨by simp, ?_⟩, ?_⟩
      · intro s hs
        simp only [List.mem_cons, List.not_mem_nil, or_false] at hs
        rcases hs with rfl | rfl
        · exact (hw e he).2 tc htc
        · exact (hw e he).1
      · intro arg harg v hv
        simp only [List.mem_singleton] at harg
        subst harg
        simp only [List.mem_singleton] at hv
        subst hv
        exact Int.le_refl 0
  have hR := (AllPairs_rules _ _).1 hA
  exact decPmcfg_writePmcfg _ lex (fun r hr => (hR r hr).1) (fun r hr => (hR r hr).2)

example : decPmcfg (writePmcfg true C09.exG C09.exLex).1 = some (addLexRules C09.exG C09.exLex).rules := by rfl
example : (∀ e ∈ C09.exG, e.1 ≠ [] ∧ ∀ s ∈ e.1, s ≠ [] ∧ ∀ c ∈ s, pyIsSpace c = false) ∧
    (∀ e ∈ C09.exG, ∀ le ∈ e.2, ∀ arg ∈ le.1, ∀ v ∈ arg, 0 ≤ v.1) ∧
    (∀ e ∈ C09.exLex, (e.1 ≠ [] ∧ ∀ c ∈ e.1, pyIsSpace c = false) ∧
      ∀ tc ∈ e.2, tc.1 ≠ [] ∧ ∀ c ∈ tc.1, pyIsSpace c = false) := by decide
example : (writePmcfg true C09.exG C09.exLex).1 =
    [" fun1 : S <- VP NP".toList, " fun1 = s1".toList, " fun1 3".toList,
     " fun2 : VP <- V PTK".toList, " fun2 = s2 s3".toList, " fun2 3".toList,
     " fun3 : NN <- Essen".toList, " fun3 = s2".toList, " fun3 2".toList,
     " fun4 : NE <- Essen".toList, " fun4 = s2".toList, " fun4 1".toList,
     " fun5 : VVFIN <- isst".toList, " fun5 = s2".toList, " fun5 4".toList,
     " s1 -> 0:0 1:0 0:1".toList, " s2 -> 0:0".toList, " s3 -> 1:0".toList] := by decide +kernel

/-- the rules `tag -> word` of the extended grammar: if `[t, w]` is not a function of `g`, the extended grammar has
    exactly ONE rule with that function, its linearization is `[[(0, 0)]]` and its count is the lexicon count of
    the pair -- so the word/tag counts are recoverable from the rule list alone (what `P.C08.lexrules` sums) -/
theorem lexrule_unique (g : Grammar) (lex : Lexicon) (w t : Str) (hg : GN g)
    (hfresh : ∀ e ∈ g, e.1 ≠ [t, w]) (hnd : (lex.map (·.1)).Nodup) (hnd2 : ∀ e ∈ lex, (e.2.map (·.1)).Nodup)
    (hpos : 0 < lexCount lex w t) :
    (addLexRules g lex).rules.filter (fun r => r.1 == [t, w]) = [([t, w], [[(0, 0)]], lexCount lex w t)] := by
  have hc := C09.addLexRules_count g lex w t hfresh hnd hnd2
  have hshape := LexShape_addLexRules [t, w] g lex hfresh
  have hGN := GN_addLexRules g lex hg
  cases hget : AList.get? [t, w] (addLexRules g lex) with
  | none =>
    simp [gramCount, hget] at hc
    omega
  | some ls =>
    have hm := get?_some_mem' _ _ _ hget
    obtain ⟨n, hn⟩ := hshape _ hm rfl
    simp only at hn
    subst hn
    rw [rules_filter_func _ hGN.1 _ _ hm]
    simp only [gramCount, hget, Option.bind_some] at hc
    have : n = lexCount lex w t := by
      simpa [get?_cons] using hc
    subst this
    simp

example : (addLexRules C09.exG C09.exLex).rules.filter (fun r => r.1 == ["NE".toList, "Essen".toList]) =
    [(["NE".toList, "Essen".toList], [[(0, 0)]], 1)] := by decide
example : GN C09.exG ∧ (∀ e ∈ C09.exG, e.1 ≠ ["NE".toList, "Essen".toList]) ∧
    0 < lexCount C09.exLex "Essen".toList "NE".toList := ⟨by unfold GN; decide, by decide, by decide⟩
/-- `hfresh` is needed: if `tag -> word` is already a rule of the grammar (a constituent `NE` over a single child
    labelled `Essen`), its count is added to -/
example : (addLexRules [(["NE".toList, "Essen".toList], [([[(0, 0)]], [(VertKey.default, 5)])])] C09.exLex).rules.filter
    (fun r => r.1 == ["NE".toList, "Essen".toList]) = [(["NE".toList, "Essen".toList], [[(0, 0)]], 6)] := by decide

/-- file level (PMCFG, `lex_in_grammar`): the decoded file contains, for every word/tag pair of the lexicon whose
    function is not a function of the grammar, exactly one rule `tag -> word`, with the pair's count -/
theorem pmcfg_lig_lexrule (g : Grammar) (lex : Lexicon) (hg : GN g)
    (hl : ∀ e ∈ g, e.1 ≠ [] ∧ ∀ s ∈ e.1, s ≠ [] ∧ ∀ c ∈ s, pyIsSpace c = false)
    (hlin : ∀ e ∈ g, ∀ le ∈ e.2, ∀ arg ∈ le.1, ∀ v ∈ arg, 0 ≤ v.1)
    (hw : ∀ e ∈ lex, (e.1 ≠ [] ∧ ∀ c ∈ e.1, pyIsSpace c = false) ∧
      ∀ tc ∈ e.2, tc.1 ≠ [] ∧ ∀ c ∈ tc.1, pyIsSpace c = false)
    (hnd : (lex.map (·.1)).Nodup) (hnd2 : ∀ e ∈ lex, (e.2.map (·.1)).Nodup) :
    ∃ rules, decPmcfg (writePmcfg true g lex).1 = some rules ∧
      ∀ w t, (∀ e ∈ g, e.1 ≠ [t, w]) → 0 < lexCount lex w t →
        rules.filter (fun r => r.1 == [t, w]) = [([t, w], [[(0, 0)]], lexCount lex w t)] :=
  ⟨_, decPmcfg_write_lig g lex hl hlin hw, fun w t hf hp => lexrule_unique g lex w t hg hf hnd hnd2 hp⟩

/-- RCG file with embedded lexical rules, re-read by the tool's own reader (with the empty lexicon file the harness
    supplies): the rules of the grammar extended by the lexical rules.  Words are written as RCG labels here, so they
    must be labels RCG can carry as well (see the example below). -/
theorem readRcg_writeRcg_lig (g : Grammar) (lex : Lexicon) (hg : GN g)
    (h : ∀ r ∈ g.rules, (∀ s ∈ r.1, RcgLabelOK s = true) ∧ 2 ≤ r.1.length ∧
      wfLin r.2.1 ((fanOut r.2.1).drop 1) = true ∧ (fanOut r.2.1).length = r.1.length)
    (hw : ∀ e ∈ lex, RcgLabelOK e.1 = true ∧ ∀ tc ∈ e.2, RcgLabelOK tc.1 = true) :
    (writeRcg true g lex).2 = none ∧
    ∃ g2, readRcg (writeRcg true g lex).1 [] = some (g2, []) ∧ g2.rules = (addLexRules g lex).rules := by
  refine ⟨rfl, ?_⟩
  rw [writeRcg_lig]
  have hA : AllPairs (fun f l => (∀ s ∈ f, RcgLabelOK s = true) ∧ 2 ≤ f.length ∧
      wfLin l ((fanOut l).drop 1) = true ∧ (fanOut l).length = f.length) (addLexRules g lex) := by
    apply AllPairs_addLexRules
    · exact (AllPairs_rules _ g).2 h
    · intro e he tc htc
      refine ⟨?_, by simp, by decide, by simp; decide⟩
      intro s hs
      simp only [List.mem_cons, List.not_mem_nil, or_false] at hs
      rcases hs with rfl | rfl
      · exact (hw e he).2 tc htc
      · exact (hw e he).1
  have := readRcg_writeRcg_full (addLexRules g lex) [] (GN_addLexRules g lex hg) ((AllPairs_rules _ _).1 hA)
    (by simp) (by simp) (by simp)
  exact this

example : (writeRcg true C09.exG C09.exLex).1 =
    ["C:3 S1([0][1][2]) --> VP2([0],[2]) NP1([1])".toList, "C:3 VP2([0],[1]) --> V1([0]) PTK1([1])".toList,
     "C:2 NN1([0]) --> Essen1([0])".toList, "C:1 NE1([0]) --> Essen1([0])".toList,
     "C:4 VVFIN1([0]) --> isst1([0])".toList] := by decide +kernel
example : ∀ e ∈ C09.exLex, RcgLabelOK e.1 = true ∧ ∀ tc ∈ e.2, RcgLabelOK tc.1 = true := by decide
/-- the hypothesis on the WORDS is needed: a word that ends in a digit loses its trailing digits when the file is
    re-read (a number is re-read as the empty word) -/
example : readRcgLine (rcgLine ["CARD".toList, "2019".toList] [[(0, 0)]] 1) =
    some (["CARD".toList, [] ], [[(0, 0)]], 1) := by decide +kernel
example : readRcgLine (rcgLine ["NN".toList, "A4".toList] [[(0, 0)]] 1) =
    some (["NN".toList, "A".toList], [[(0, 0)]], 1) := by decide +kernel

/-! ## T9.6 a written grammar as the input of the `grammar` command -/

/-- the writers look at the grammar through its rule list only -/
theorem writeRcg_rules_only (g2 g : Grammar) (lex : Lexicon) (h : g2.rules = g.rules) :
    writeRcg false g2 lex = writeRcg false g lex := by
  unfold writeRcg
  simp only [Bool.false_eq_true, if_false, h]

theorem writePmcfg_rules_only (g2 g : Grammar) (lex : Lexicon) (h : g2.rules = g.rules) :
    writePmcfg false g2 lex = writePmcfg false g lex := by
  have e1 : ∀ g : Grammar, (writePmcfg false g lex).2 = some (lexLines lex) := fun _ => rfl
  apply Prod.ext
  · rw [writePmcfg_false, writePmcfg_false, h]
  · rw [e1, e1]

/-- reading the written RCG files and writing the result again reproduces the files: the grammar read from a
    grammar file is that grammar, not an empty one (the branch `--src-format rcg` of `treetools grammar`, of which
    `TT/Run.lean` has no model, is `readRcg` followed by the writer) -/
theorem grammar_file_idempotent (g : Grammar) (lex : Lexicon) (hg : GN g)
    (h : ∀ r ∈ g.rules, (∀ s ∈ r.1, RcgLabelOK s = true) ∧ 2 ≤ r.1.length ∧
      wfLin r.2.1 ((fanOut r.2.1).drop 1) = true ∧ (fanOut r.2.1).length = r.1.length)
    (hx : ∀ e ∈ lex, e.1 ≠ [] ∧ (∀ c ∈ e.1, pyIsSpace c = false) ∧ e.2 ≠ [] ∧
         ∀ tc ∈ e.2, tc.1 ≠ [] ∧ ∀ c ∈ tc.1, pyIsSpace c = false)
    (hnd : (lex.map (·.1)).Nodup) (hnd2 : ∀ e ∈ lex, (e.2.map (·.1)).Nodup) :
    (readRcg (writeRcg false g lex).1 (lexLines lex)).map (fun p => writeRcg false p.1 p.2) =
      some (writeRcg false g lex) := by
  obtain ⟨g2, h1, h2⟩ := readRcg_writeRcg_full g lex hg h hx hnd hnd2
  rw [h1, Option.map_some, writeRcg_rules_only g2 g lex h2]

/-- the same for the other two writers: the grammar read back has the rules of `g`, and all three writers depend
    on the grammar through its rule list only -/
theorem grammar_file_pmcfg (g : Grammar) (lex : Lexicon) (hg : GN g)
    (h : ∀ r ∈ g.rules, (∀ s ∈ r.1, RcgLabelOK s = true) ∧ 2 ≤ r.1.length ∧
      wfLin r.2.1 ((fanOut r.2.1).drop 1) = true ∧ (fanOut r.2.1).length = r.1.length)
    (hx : ∀ e ∈ lex, e.1 ≠ [] ∧ (∀ c ∈ e.1, pyIsSpace c = false) ∧ e.2 ≠ [] ∧
         ∀ tc ∈ e.2, tc.1 ≠ [] ∧ ∀ c ∈ tc.1, pyIsSpace c = false)
    (hnd : (lex.map (·.1)).Nodup) (hnd2 : ∀ e ∈ lex, (e.2.map (·.1)).Nodup) :
    (readRcg (writeRcg false g lex).1 (lexLines lex)).map (fun p => writePmcfg false p.1 p.2) =
      some (writePmcfg false g lex) := by
  obtain ⟨g2, h1, h2⟩ := readRcg_writeRcg_full g lex hg h hx hnd hnd2
  rw [h1, Option.map_some, writePmcfg_rules_only g2 g lex h2]

example : (readRcg (writeRcg false C09.exG C09.exLex).1 (lexLines C09.exLex)).map (fun p => writeRcg false p.1 p.2) =
    some (writeRcg false C09.exG C09.exLex) :=
  grammar_file_idempotent _ _ (by unfold GN; decide) (by decide) (by decide) (by decide) (by decide)


/-! ## T9.3 the domain: extracted and binarized grammars meet the hypotheses of the round-trip theorems

  `Proper f l` (`TT/Lemmas/More12c.lean`):
    `2 ≤ f.length ∧ wfLin l ((fanOut l).drop 1) = true ∧ (fanOut l).length = f.length ∧ ∀ n ∈ fanOut l, 0 < n`
  -- the hypotheses of `readRcg_writeRcg` on a rule, plus: no element of the rule has fan-out 0. -/

/-- a proper rule meets the hypotheses of the round-trip theorems (`C09Rcg.readRcg_writeRcg`, `C09.decPmcfg_write'`,
    `C07.chain_composes`) -/
theorem Proper_hyps (f : Func) (l : Lin) (h : Proper f l) :
    wfLin l ((fanOut l).drop 1) = true ∧ (fanOut l).length = f.length ∧ 2 ≤ f.length ∧ ∀ a ∈ l, ∀ v ∈ a, 0 ≤ v.1 :=
  ⟨h.2.1, h.2.2.1, h.1, (PR_of_Proper f l h).wf.pos⟩

/-- MAIN (T9.3): binarization -- every reordering, deterministic or Markov labels -- of a grammar of proper rules is a
    grammar of proper rules -/
theorem binarized_rules_ok (r : Reordering) (mo : Option MarkovOpts) (g : Grammar)
    (h : ∀ e ∈ g.rules, Proper e.1 e.2.1) : ∀ e ∈ (binarizeGrammar r mo g).rules, Proper e.1 e.2.1 :=
  (AllPairs_rules Proper _).1 (binarizeGrammar_proper r mo g ((AllPairs_rules Proper g).2 h))

/-- the rules extracted from a treebank (no childless constituent, token numbers distinct within a tree: both follow
    from `Spec.WF`) are proper -/
theorem extracted_rules_ok (ts : List Tree) (h : ∀ t ∈ ts, t.noEmpty = true ∧ t.leafNums.Nodup) :
    ∀ e ∈ (Tree.extractAll ts).1.rules, Proper e.1 e.2.1 :=
  (AllPairs_rules Proper _).1 (extractAll_proper ts h)

/-- hence the quantified domain of C09 (grammars extracted from treebanks, raw and binarized in every mode) meets the
    structural hypotheses of the round-trip theorems -/
theorem treebank_grammars_ok (ts : List Tree) (h : ∀ t ∈ ts, t.noEmpty = true ∧ t.leafNums.Nodup)
    (r : Reordering) (mo : Option MarkovOpts) :
    (∀ e ∈ (Tree.extractAll ts).1.rules, wfLin e.2.1 ((fanOut e.2.1).drop 1) = true ∧
      (fanOut e.2.1).length = e.1.length ∧ 2 ≤ e.1.length ∧ ∀ a ∈ e.2.1, ∀ v ∈ a, 0 ≤ v.1) ∧
    (∀ e ∈ (binarizeGrammar r mo (Tree.extractAll ts).1).rules, wfLin e.2.1 ((fanOut e.2.1).drop 1) = true ∧
      (fanOut e.2.1).length = e.1.length ∧ 2 ≤ e.1.length ∧ ∀ a ∈ e.2.1, ∀ v ∈ a, 0 ≤ v.1) :=
  ⟨fun e he => Proper_hyps _ _ (extracted_rules_ok ts h e he),
   fun e he => Proper_hyps _ _ (binarized_rules_ok r mo _ (extracted_rules_ok ts h) e he)⟩

/-- a rule of rank 4 with a wrapped-around first element -/
def exG4 : Grammar :=
  [(["S".toList, "VP".toList, "NP".toList, "ADV".toList, "PTK".toList],
     [([[(0, 0), (1, 0), (2, 0), (0, 1), (3, 0)]], [(VertKey.default, 2)])])]
example : ∀ e ∈ exG4.rules, Proper e.1 e.2.1 := by decide
example : (binarizeGrammar .leftright none exG4).rules =
    [(["S".toList, "VP".toList, "@1X".toList], [[(0, 0), (1, 0), (0, 1), (1, 1)]], 2),
     (["@1X".toList, "NP".toList, "@2X".toList], [[(0, 0), (1, 0)], [(1, 1)]], 2),
     (["@2X".toList, "ADV".toList, "PTK".toList], [[(0, 0)], [(1, 0)]], 2)] := by rfl
example : ∀ e ∈ (binarizeGrammar .optimal (some ⟨1, 2, false⟩) exG4).rules, Proper e.1 e.2.1 :=
  binarized_rules_ok _ _ _ (by decide)

/-- The hypothesis proposed in the audit (`CWF e.1 e.2.1 ∧ 2 ≤ e.1.length`, or the round-trip hypotheses themselves)
    is NOT enough: a right-hand-side element of fan-out 0 (never produced by extraction) satisfies them, and the
    optimal reordering moves it to the end, where the binarized rule no longer shows it in its fan-out vector.
    This is why `Proper` asks for positive fan-outs. -/
def cexZero : Grammar :=
  [(["VP".toList, "X".toList, "V".toList, "PTK".toList], [([[(1, 0)], [(2, 0)]], [(VertKey.default, 7)])])]
example : (∀ e ∈ cexZero.rules, wfLin e.2.1 ((fanOut e.2.1).drop 1) = true ∧ (fanOut e.2.1).length = e.1.length ∧
      2 ≤ e.1.length ∧ ∀ a ∈ e.2.1, ∀ v ∈ a, 0 ≤ v.1) ∧
    (binarizeGrammar .optimal none cexZero).rules =
      [(["VP".toList, "V".toList, "@1X".toList], [[(0, 0)], [(1, 0)]], 7),
       (["@1X".toList, "PTK".toList, "X".toList], [[(0, 0)]], 7)] ∧
    fanOut [[((0 : Int), 0)]] = [1, 1] := ⟨by decide, by rfl, by decide⟩
/-- and `CWF` alone does not give `(fanOut l).length = f.length` either -/
example : wfLin [[(0, 0)]] ((List.range 2).map (TT.Lemmas.Unbin.occ [[(0, 0)]])) = true ∧
    (fanOut [[((0 : Int), 0)]]).length = 2 := by decide


/-! ## the round trips on the quantified domain, without side conditions on the grammar

  `TreebankOK ts`: every tree has no childless constituent and pairwise distinct token numbers (both follow from
  `Spec.WF`), every label is one RCG can carry, every token has a non-empty, whitespace-free word. -/

def TreebankOK (ts : List Tree) : Prop :=
  ∀ t ∈ ts, t.noEmpty = true ∧ t.leafNums.Nodup ∧ (∀ s ∈ t.subtrees, RcgLabelOK s.fields.label = true) ∧
    ∀ s ∈ t.subtrees, s.isLeaf = true →
      s.fields.word.getD [] ≠ [] ∧ ∀ c ∈ s.fields.word.getD [], pyIsSpace c = false

theorem OKw_of_RcgLabelOK (s : Str) (h : RcgLabelOK s = true) : s ≠ [] ∧ ∀ c ∈ s, pyIsSpace c = false := by
  obtain ⟨h1, h2, _⟩ := (RcgLabelOK_iff s).1 h
  refine ⟨h1, fun c hc => ?_⟩
  have := h2 c hc
  simp only [rcgChar, Bool.and_eq_true, Bool.not_eq_true'] at this
  exact this.1.1.1

/-- what the hypotheses of the round-trip theorems ask of a grammar and a lexicon -/
structure RoundTripOK (g : Grammar) (lex : Lexicon) : Prop where
  gn : GN g
  rules : ∀ r ∈ g.rules, (∀ s ∈ r.1, RcgLabelOK s = true) ∧ 2 ≤ r.1.length ∧
      wfLin r.2.1 ((fanOut r.2.1).drop 1) = true ∧ (fanOut r.2.1).length = r.1.length
  pos : ∀ e ∈ g, ∀ le ∈ e.2, ∀ arg ∈ le.1, ∀ v ∈ arg, 0 ≤ v.1
  lexfmt : ∀ e ∈ lex, e.1 ≠ [] ∧ (∀ c ∈ e.1, pyIsSpace c = false) ∧ e.2 ≠ [] ∧
         ∀ tc ∈ e.2, tc.1 ≠ [] ∧ ∀ c ∈ tc.1, pyIsSpace c = false
  lexnd : (lex.map (·.1)).Nodup
  lexnd2 : ∀ e ∈ lex, (e.2.map (·.1)).Nodup

theorem RoundTripOK_of (g : Grammar) (lex : Lexicon) (hg : GN g) (hp : AllPairs Proper g)
    (hl : ∀ e ∈ g, LabF e.1) (hx : LexOK lex) : RoundTripOK g lex := by
  refine ⟨hg, ?_, ?_, fun e he => ?_, hx.1, fun e he => (hx.2 e he).2.2.1⟩
  · intro r hr
    have hpr := (AllPairs_rules Proper g).1 hp r hr
    obtain ⟨e, he, hef⟩ := mem_rules_func g r hr
    exact ⟨by rw [← hef]; exact hl e he, hpr.1, hpr.2.1, hpr.2.2.1⟩
  · intro e he le hle
    exact (PR_of_Proper _ _ (hp e he le hle)).wf.pos
  · obtain ⟨h1, h2, _, h4⟩ := hx.2 e he
    exact ⟨h1.1, h1.2, h2, h4⟩

/-- the grammar and the lexicon extracted from a treebank, and every binarization of the grammar, meet ALL the
    hypotheses of the round-trip theorems -/
theorem treebank_RoundTripOK (ts : List Tree) (h : TreebankOK ts) (r : Reordering) (mo : Option MarkovOpts) :
    RoundTripOK (Tree.extractAll ts).1 (Tree.extractAll ts).2 ∧
    RoundTripOK (binarizeGrammar r mo (Tree.extractAll ts).1) (Tree.extractAll ts).2 := by
  have hp := extractAll_proper ts (fun t ht => ⟨(h t ht).1, (h t ht).2.1⟩)
  have hl := extractAll_labels ts (fun t ht => (h t ht).2.2.1)
  have hx := extractAll_LexOK ts (fun t ht => ⟨(h t ht).1, fun s hs hleaf =>
    ⟨(h t ht).2.2.2 s hs hleaf, OKw_of_RcgLabelOK _ ((h t ht).2.2.1 s hs)⟩⟩)
  exact ⟨RoundTripOK_of _ _ (extractAll_GN ts) hp (fun e he => (hl.1 e he).2) hx,
    RoundTripOK_of _ _ (binarizeGrammar_GN r mo _) (binarizeGrammar_proper r mo _ hp)
      (binarizeGrammar_labels r mo _ hl.1 hl.2) hx⟩

/-- MAIN: RCG files written for the grammar extracted from a treebank, raw or binarized in any mode, and re-read with
    the tool's own reader give the same rules (functions, linearizations, counts, order) and the same lexicon -/
theorem rcg_roundtrip_treebank (ts : List Tree) (h : TreebankOK ts) (r : Reordering) (mo : Option MarkovOpts) :
    (∃ g2, readRcg (writeRcg false (Tree.extractAll ts).1 (Tree.extractAll ts).2).1 (lexLines (Tree.extractAll ts).2) =
        some (g2, (Tree.extractAll ts).2) ∧ g2.rules = (Tree.extractAll ts).1.rules) ∧
    (∃ g2, readRcg (writeRcg false (binarizeGrammar r mo (Tree.extractAll ts).1) (Tree.extractAll ts).2).1
          (lexLines (Tree.extractAll ts).2) = some (g2, (Tree.extractAll ts).2) ∧
        g2.rules = (binarizeGrammar r mo (Tree.extractAll ts).1).rules) := by
  obtain ⟨h1, h2⟩ := treebank_RoundTripOK ts h r mo
  exact ⟨readRcg_writeRcg_full _ _ h1.gn h1.rules h1.lexfmt h1.lexnd h1.lexnd2,
    readRcg_writeRcg_full _ _ h2.gn h2.rules h2.lexfmt h2.lexnd h2.lexnd2⟩

/-- the same for the PMCFG files and the independent decoders -/
theorem pmcfg_roundtrip_treebank (ts : List Tree) (h : TreebankOK ts) (r : Reordering) (mo : Option MarkovOpts) :
    decPmcfg (writePmcfg false (binarizeGrammar r mo (Tree.extractAll ts).1) (Tree.extractAll ts).2).1 =
      some (binarizeGrammar r mo (Tree.extractAll ts).1).rules ∧
    decPmcfg (writePmcfg false (Tree.extractAll ts).1 (Tree.extractAll ts).2).1 = some (Tree.extractAll ts).1.rules ∧
    decLex (lexLines (Tree.extractAll ts).2) = some (Tree.extractAll ts).2 := by
  obtain ⟨h1, h2⟩ := treebank_RoundTripOK ts h r mo
  have key : ∀ g lex, RoundTripOK g lex → decPmcfg (writePmcfg false g lex).1 = some g.rules := by
    intro g lex hg
    apply decPmcfg_writePmcfg g lex
    · intro r hr
      obtain ⟨h1, h2, _, _⟩ := hg.rules r hr
      refine ⟨by intro e0; simp [e0] at h2, fun s hs => OKw_of_RcgLabelOK s (h1 s hs)⟩
    · intro r hr ld hld
      obtain ⟨e, he, le, hle, _, h2⟩ := mem_rules g r hr
      rw [h2] at hld
      exact hg.pos e he le hle ld hld
  exact ⟨key _ _ h2, key _ _ h1, C09.decLex_lexLines _ h1.lexfmt h1.lexnd h1.lexnd2⟩


/-- the discontinuous tree of `C06` (a `VP` wrapped around the subject, the word `it` twice) meets the hypotheses -/
example : TreebankOK [C06.exT] := by unfold TreebankOK; decide +kernel
example : (Tree.extractAll [C06.exT]).1.rules =
    [(["S".toList, "VP".toList, "N".toList, "NP".toList], [[(0, 0), (1, 0), (0, 1)], [(2, 0)]], 1),
     (["VP".toList, "V".toList, "N".toList, "ADV".toList], [[(0, 0)], [(1, 0), (2, 0)]], 1),
     (["NP".toList, "ADV".toList, "N".toList], [[(0, 0), (1, 0)]], 1)] := by rfl
example : (writeRcg false (binarizeGrammar .optimal (some ⟨1, 1, false⟩) (Tree.extractAll [C06.exT]).1) []).1 =
    ["C:1 S2([0],[1]) --> NP1([1]) @^S2-NP1X1([0])".toList,
     "C:1 @^S2-NP1X1([0][1][2]) --> VP2([0],[2]) N1([1])".toList,
     "C:1 VP2([0],[1]) --> V1([0]) @^VP2-V1X1([1])".toList,
     "C:1 @^VP2-V1X1([0][1]) --> N1([0]) ADV1([1])".toList,
     "C:1 NP1([0][1]) --> ADV1([0]) N1([1])".toList] := by decide +kernel

end TT.Props.C09Full
