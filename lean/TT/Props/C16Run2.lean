/-
  C16 clause 8 / C18 clause 7 (wave 17) — `treetools treeanalysis SRC TASK` for the OTHER source formats.  The command
  (`treeanalysis.run`) hands the sentences of `treeinput.<src_format>(src, enc, **src_opts)` to the task; the model
  `runAnalysisFrom` (TT/RunAnalysis.lean) is reader-independent.  Here: the command for bracket / discobracket sources
  (`runAnalysisBrackets`, `io.disco` selects the reader), TIGER-XML sources (`runAnalysisTiger`) and export sources under
  any reader options (`runAnalysisExport`), the theorems of Props/C16Run.lean for ANY source (`from_*`: what the numbers
  are), and the report of a concatenation of two treebanks (`from_*_append` under `Glued`, instantiated for the four
  readers with the reader-level locality theorems of C18 / C18More / C18Local).
-/
import TT.Props.C16Run
import TT.Props.C18Local2
namespace TT.Props.C16Run2
open TT TT.Tree TT.Spec TT.Props.C16Run
open TT.Props.C16Total (constituents)
open TT.Props.C18 (Complete lines)
open TT.Lemmas.Proc (renum)

/-- `treetools treeanalysis SRC TASK --src-format brackets` (`io.disco = false`) / `discobrackets` (`io.disco = true`) -/
def runAnalysisBrackets (task : AnalysisTask) (io : InOpts) (text : Str) : Except Err AnalysisReport :=
  runAnalysisFrom task (readBrackets io text)
/-- `… --src-format tigerxml`, on the `<s>` elements of the document -/
def runAnalysisTiger (task : AnalysisTask) (io : InOpts) (doc : List XSent) : Except Err AnalysisReport :=
  runAnalysisFrom task (readTiger io doc)
/-- `… --src-format export --src-opts …` (`runAnalysis` is the case `io = {}`) -/
def runAnalysisExport (task : AnalysisTask) (io : InOpts) (text : Str) : Except Err AnalysisReport :=
  runAnalysisFrom task (readExport io text)

theorem runAnalysisExport_default (task : AnalysisTask) (text : Str) : runAnalysisExport task {} text = runAnalysis task text := rfl

/-! ### any source: the command is the report of the trees read -/

theorem from_eq (task : AnalysisTask) (src : Except Err (List (Nat × Tree))) :
    runAnalysisFrom task src = src.map fun r => analyse task (treesOf r) := by
  cases src <;> rfl

/-- a source the reader refuses: the command ends with the reader's error, whatever the task -/
theorem from_error (task : AnalysisTask) (e : Err) : runAnalysisFrom task (.error e) = .error e := rfl

/-- the command succeeds exactly when the reader does -/
theorem from_ok_iff (task : AnalysisTask) (src : Except Err (List (Nat × Tree))) :
    (∃ rep, runAnalysisFrom task src = .ok rep) ↔ ∃ r, src = .ok r := by
  cases src <;> simp [runAnalysisFrom, bind, Except.bind, pure, Except.pure]

theorem from_ok_inv (task : AnalysisTask) (src : Except Err (List (Nat × Tree))) (rep : AnalysisReport)
    (h : runAnalysisFrom task src = .ok rep) : ∃ r, src = .ok r ∧ rep = analyse task (treesOf r) := by
  cases src with
  | error e => cases h
  | ok r => exact ⟨r, rfl, by simpa [runAnalysisFrom, bind, Except.bind, pure, Except.pure] using h.symm⟩

/-- MAIN `SentenceCount`, any source: the number printed is the number of sentences the reader yields -/
theorem from_sentences (r : List (Nat × Tree)) :
    runAnalysisFrom .sentenceCount (.ok r) = .ok (.sentences r.length) := by
  rw [runAnalysisFrom_sentences]
  simp [TT.Props.C16Total.sentenceCount_total]

/-- MAIN `GapDegree`, any source (the statement of `C16Run.runAnalysis_gap`) -/
theorem from_gap (r : List (Nat × Tree)) :
    ∃ pt pn, runAnalysisFrom .gapDegree (.ok r) =
        .ok (.gap r.length ((treesOf r).map fun t => (constituents t).length).sum pt pn) ∧
      (∀ d, (pt.find? (·.1 == d)).map (·.2) =
        (let n := ((treesOf r).filter fun t => gapDegree t = d).length; if n = 0 then none else some n)) ∧
      (∀ d, (pn.find? (·.1 == d)).map (·.2) =
        (let n := (((treesOf r).flatMap constituents).filter fun s => gapDegreeNode s = d).length
         if n = 0 then none else some n)) ∧
      (pt.map (·.1)).Nodup ∧ (pn.map (·.1)).Nodup := by
  refine ⟨((treesOf r).foldl GapStats.run {}).perTree, ((treesOf r).foldl GapStats.run {}).perNode, ?_, ?_, ?_, ?_, ?_⟩
  · rw [runAnalysisFrom_gap]
    obtain ⟨h1, h2⟩ := TT.Props.C16More.gapstats_totals (treesOf r)
    simp only [gapReport, h1, h2, List.length_map]
  · exact fun d => TT.Props.C16Total.gapstats_perTree_count (treesOf r) d
  · exact fun d => TT.Props.C16Total.gapstats_perNode_count (treesOf r) d
  · exact (TT.Props.C16More.gapstats_keys_nodup (treesOf r)).2
  · exact (TT.Props.C16More.gapstats_keys_nodup (treesOf r)).1

/-- the per-degree counts of either table sum to the total printed before them -/
theorem from_gap_sums (src : Except Err (List (Nat × Tree))) (nt nn : Nat) (pt pn : List (Nat × Nat))
    (h : runAnalysisFrom .gapDegree src = .ok (.gap nt nn pt pn)) :
    (pt.map (·.2)).sum = nt ∧ (pn.map (·.2)).sum = nn := by
  obtain ⟨r, rfl, e⟩ := from_ok_inv _ _ _ h
  simp only [analyse, gapReport, AnalysisReport.gap.injEq] at e
  obtain ⟨h1, h2, h3, h4⟩ := e
  subst h3 h4
  exact ⟨h1.symm, h2.symm⟩

/-- MAIN `PosTags`, any source (the statement of `C16Run.runAnalysis_tags`) -/
theorem from_tags (r : List (Nat × Tree)) :
    ∃ tags : List Str, runAnalysisFrom .posTags (.ok r) = .ok (.tags tags.length) ∧ tags.Nodup ∧
      (∀ tag, tag ∈ tags ↔ ∃ t ∈ treesOf r, ∃ x ∈ t.terminals, x.fields.label = tag) ∧
      tags.length ≤ ((treesOf r).map fun t => t.leafNums.length).sum :=
  ⟨((treesOf r).foldl posTagsRun []).eraseDups, rfl, TT.Props.C16Tags.nodup_eraseDups _,
    fun tag => TT.Props.C16Tags.reported_counts_every_tag (treesOf r) tag, TT.Props.C16Tags.reported_le_tokens (treesOf r)⟩

/-! ### the report of a concatenation, any reader -/

/-- what the four reader-level locality theorems say: the sentences of the whole are those of the first part followed by
    those of the second with other sentence NUMBERS (`g` leaves the trees alone); errors of the first part first -/
def Glued (sa sb sab : Except Err (List (Nat × Tree))) : Prop :=
  ∃ g : Nat × Tree → Nat × Tree, (∀ p, (g p).2 = p.2) ∧
    sab = match sa, sb with
      | .error e, _ => .error e
      | .ok _, .error e => .error e
      | .ok ra, .ok rb => .ok (ra ++ rb.map g)

theorem treesOf_glue (g : Nat × Tree → Nat × Tree) (hg : ∀ p, (g p).2 = p.2) (ra rb : List (Nat × Tree)) :
    treesOf (ra ++ rb.map g) = treesOf ra ++ treesOf rb := by
  simp [treesOf, Function.comp_def, hg]

/-- MAIN: the command on the concatenation is the report of the trees of the first part followed by those of the second
    (one accumulator); a refused first part refuses the whole with its error, else a refused second part with its -/
theorem from_append (task : AnalysisTask) {sa sb sab : Except Err (List (Nat × Tree))} (h : Glued sa sb sab) :
    runAnalysisFrom task sab =
      match (generalizing := false) sa, sb with
      | .error e, _ => .error e
      | .ok _, .error e => .error e
      | .ok ra, .ok rb => .ok (analyse task (treesOf ra ++ treesOf rb)) := by
  obtain ⟨g, hg, rfl⟩ := h
  cases sa with
  | error e => rfl
  | ok ra =>
    cases sb with
    | error e => rfl
    | ok rb =>
      simp only [from_eq, Except.map, Except.ok.injEq]
      rw [treesOf_glue g hg]

/-- MAIN `SentenceCount` of a concatenation: the sum -/
theorem from_sentences_append {sa sb sab : Except Err (List (Nat × Tree))} (h : Glued sa sb sab) (na nb : Nat)
    (ha : runAnalysisFrom .sentenceCount sa = .ok (.sentences na)) (hb : runAnalysisFrom .sentenceCount sb = .ok (.sentences nb)) :
    runAnalysisFrom .sentenceCount sab = .ok (.sentences (na + nb)) := by
  obtain ⟨ra, rfl, ea⟩ := from_ok_inv _ _ _ ha
  obtain ⟨rb, rfl, eb⟩ := from_ok_inv _ _ _ hb
  rw [from_append _ h]
  simp only [analyse, AnalysisReport.sentences.injEq] at ea eb ⊢
  rw [ea, eb, TT.Props.C18Local.sentenceCount_append]

/-- MAIN `GapDegree` of a concatenation: both totals add up, and so does, for every degree, the count of either table -/
theorem from_gap_append {sa sb sab : Except Err (List (Nat × Tree))} (h : Glued sa sb sab)
    (ta na tb nb : Nat) (pta pna ptb pnb : List (Nat × Nat))
    (ha : runAnalysisFrom .gapDegree sa = .ok (.gap ta na pta pna)) (hb : runAnalysisFrom .gapDegree sb = .ok (.gap tb nb ptb pnb)) :
    ∃ pt pn, runAnalysisFrom .gapDegree sab = .ok (.gap (ta + tb) (na + nb) pt pn) ∧
      ∀ d, cnt d pt = cnt d pta + cnt d ptb ∧ cnt d pn = cnt d pna + cnt d pnb := by
  obtain ⟨ra, rfl, ea⟩ := from_ok_inv _ _ _ ha
  obtain ⟨rb, rfl, eb⟩ := from_ok_inv _ _ _ hb
  simp only [analyse, gapReport, AnalysisReport.gap.injEq] at ea eb
  obtain ⟨ea1, ea2, ea3, ea4⟩ := ea
  obtain ⟨eb1, eb2, eb3, eb4⟩ := eb
  refine ⟨((treesOf ra ++ treesOf rb).foldl GapStats.run {}).perTree,
    ((treesOf ra ++ treesOf rb).foldl GapStats.run {}).perNode, ?_, ?_⟩
  · rw [from_append _ h]
    obtain ⟨h1, h2⟩ := TT.Props.C16More.gapstats_totals (treesOf ra ++ treesOf rb)
    obtain ⟨h3, h4⟩ := TT.Props.C16More.gapstats_totals (treesOf ra)
    obtain ⟨h5, h6⟩ := TT.Props.C16More.gapstats_totals (treesOf rb)
    simp only [analyse, gapReport, h1, h2, ea1, ea2, eb1, eb2, h3, h4, h5, h6, List.length_append, List.map_append,
      List.sum_append]
  · intro d
    subst ea3 ea4 eb3 eb4
    exact TT.Props.C18Local.gapstats_append_count (treesOf ra) (treesOf rb) d

/-- MAIN `PosTags` of a concatenation: the tags counted are those counted for one of the two parts -/
theorem from_tags_append {sab : Except Err (List (Nat × Tree))} (ra rb : List (Nat × Tree)) (h : Glued (.ok ra) (.ok rb) sab) :
    ∃ tags ta tb : List Str, runAnalysisFrom .posTags sab = .ok (.tags tags.length) ∧
      runAnalysisFrom .posTags (.ok ra) = .ok (.tags ta.length) ∧ runAnalysisFrom .posTags (.ok rb) = .ok (.tags tb.length) ∧
      tags.Nodup ∧ ta.Nodup ∧ tb.Nodup ∧ (∀ tag, tag ∈ tags ↔ tag ∈ ta ∨ tag ∈ tb) := by
  refine ⟨((treesOf ra ++ treesOf rb).foldl posTagsRun []).eraseDups, ((treesOf ra).foldl posTagsRun []).eraseDups,
    ((treesOf rb).foldl posTagsRun []).eraseDups, ?_, rfl, rfl, TT.Props.C16Tags.nodup_eraseDups _,
    TT.Props.C16Tags.nodup_eraseDups _, TT.Props.C16Tags.nodup_eraseDups _, ?_⟩
  · rw [from_append _ h]; rfl
  · exact fun tag => TT.Props.C18Local.posTags_append_reported (treesOf ra) (treesOf rb) tag

/-! ### the four readers glue -/

/-- export source, any reader options: two files, the first a whole treebank -/
theorem glued_export (io : InOpts) (a b : Str) (hc : Complete (lines a)) :
    Glued (readExport io a) (readExport io b) (readExport io (a ++ '\n' :: b)) :=
  ⟨renum io (TT.Props.C18.sentences (lines a)), fun _ => rfl, TT.Props.C18.readExport_append io a b hc⟩

/-- TIGER-XML source: two documents (no hypothesis) -/
theorem glued_tiger (io : InOpts) (a b : List XSent) : Glued (readTiger io a) (readTiger io b) (readTiger io (a ++ b)) :=
  ⟨renum io a.length, fun _ => rfl, TT.Props.C18Local.readTiger_append io a b⟩

/-- bracket source: the first text is read successfully on its own -/
theorem glued_brackets (io : InOpts) (hd : io.disco = false) (a b : Str) (ra : List (Nat × Tree))
    (ha : readBrackets io a = .ok ra) : Glued (readBrackets io a) (readBrackets io b) (readBrackets io (a ++ b)) := by
  refine ⟨TT.Props.C18Local2.bump ra.length, fun _ => rfl, ?_⟩
  rw [TT.Props.C18More.readBrackets_append io hd a b ra ha, TT.Props.C18Local2.readBrackets_shift, ha]
  cases readBrackets io b <;> rfl

/-- discobracket source (any options): the first text ends with its newline and is read successfully on its own -/
theorem glued_disco (io : InOpts) (a0 b : Str) (ra : List (Nat × Tree)) (ha : readBrackets io (a0 ++ ['\n']) = .ok ra) :
    Glued (readBrackets io (a0 ++ ['\n'])) (readBrackets io b) (readBrackets io (a0 ++ '\n' :: b)) := by
  refine ⟨TT.Props.C18Local2.bump ra.length, fun _ => rfl, ?_⟩
  rw [TT.Props.C18Local.readDisco_append_text io a0 b ra ha, TT.Props.C18Local2.readBrackets_shift, ha]
  cases readBrackets io b <;> rfl

/-! ### the commands on concatenations -/

/-- export source under any reader options -/
theorem runAnalysisExport_append (task : AnalysisTask) (io : InOpts) (a b : Str) (hc : Complete (lines a)) :
    runAnalysisExport task io (a ++ '\n' :: b) =
      match readExport io a, readExport io b with
      | .error e, _ => .error e
      | .ok _, .error e => .error e
      | .ok ra, .ok rb => .ok (analyse task (treesOf ra ++ treesOf rb)) :=
  from_append task (glued_export io a b hc)

/-- TIGER-XML source: no hypothesis -/
theorem runAnalysisTiger_append (task : AnalysisTask) (io : InOpts) (a b : List XSent) :
    runAnalysisTiger task io (a ++ b) =
      match readTiger io a, readTiger io b with
      | .error e, _ => .error e
      | .ok _, .error e => .error e
      | .ok ra, .ok rb => .ok (analyse task (treesOf ra ++ treesOf rb)) :=
  from_append task (glued_tiger io a b)

/-- bracket source -/
theorem runAnalysisBrackets_append (task : AnalysisTask) (io : InOpts) (hd : io.disco = false) (a b : Str)
    (ra : List (Nat × Tree)) (ha : readBrackets io a = .ok ra) :
    runAnalysisBrackets task io (a ++ b) =
      match readBrackets io b with
      | .error e => .error e
      | .ok rb => .ok (analyse task (treesOf ra ++ treesOf rb)) := by
  have := from_append task (glued_brackets io hd a b ra ha)
  rw [ha] at this
  rw [show runAnalysisBrackets task io _ = runAnalysisFrom task _ from rfl, this]
  cases readBrackets io b <;> rfl

/-- discobracket source -/
theorem runAnalysisDisco_append (task : AnalysisTask) (io : InOpts) (a0 b : Str)
    (ra : List (Nat × Tree)) (ha : readBrackets io (a0 ++ ['\n']) = .ok ra) :
    runAnalysisBrackets task io (a0 ++ '\n' :: b) =
      match readBrackets io b with
      | .error e => .error e
      | .ok rb => .ok (analyse task (treesOf ra ++ treesOf rb)) := by
  have := from_append task (glued_disco io a0 b ra ha)
  rw [ha] at this
  rw [show runAnalysisBrackets task io _ = runAnalysisFrom task _ from rfl, this]
  cases readBrackets io b <;> rfl

/-- `SentenceCount`: the sum, for the three other sources -/
theorem runAnalysisTiger_sentences_append (io : InOpts) (a b : List XSent) (na nb : Nat)
    (ha : runAnalysisTiger .sentenceCount io a = .ok (.sentences na)) (hb : runAnalysisTiger .sentenceCount io b = .ok (.sentences nb)) :
    runAnalysisTiger .sentenceCount io (a ++ b) = .ok (.sentences (na + nb)) :=
  from_sentences_append (glued_tiger io a b) na nb ha hb

theorem runAnalysisBrackets_sentences_append (io : InOpts) (hd : io.disco = false) (a b : Str) (na nb : Nat)
    (ha : runAnalysisBrackets .sentenceCount io a = .ok (.sentences na)) (hb : runAnalysisBrackets .sentenceCount io b = .ok (.sentences nb)) :
    runAnalysisBrackets .sentenceCount io (a ++ b) = .ok (.sentences (na + nb)) := by
  obtain ⟨ra, hra, _⟩ := from_ok_inv _ _ _ ha
  exact from_sentences_append (glued_brackets io hd a b ra hra) na nb ha hb

theorem runAnalysisDisco_sentences_append (io : InOpts) (a0 b : Str) (na nb : Nat)
    (ha : runAnalysisBrackets .sentenceCount io (a0 ++ ['\n']) = .ok (.sentences na))
    (hb : runAnalysisBrackets .sentenceCount io b = .ok (.sentences nb)) :
    runAnalysisBrackets .sentenceCount io (a0 ++ '\n' :: b) = .ok (.sentences (na + nb)) := by
  obtain ⟨ra, hra, _⟩ := from_ok_inv _ _ _ ha
  exact from_sentences_append (glued_disco io a0 b ra hra) na nb ha hb

/-- `GapDegree`: totals and per-degree counts add, for the three other sources -/
theorem runAnalysisTiger_gap_append (io : InOpts) (a b : List XSent) (ta na tb nb : Nat) (pta pna ptb pnb : List (Nat × Nat))
    (ha : runAnalysisTiger .gapDegree io a = .ok (.gap ta na pta pna)) (hb : runAnalysisTiger .gapDegree io b = .ok (.gap tb nb ptb pnb)) :
    ∃ pt pn, runAnalysisTiger .gapDegree io (a ++ b) = .ok (.gap (ta + tb) (na + nb) pt pn) ∧
      ∀ d, cnt d pt = cnt d pta + cnt d ptb ∧ cnt d pn = cnt d pna + cnt d pnb :=
  from_gap_append (glued_tiger io a b) ta na tb nb pta pna ptb pnb ha hb

theorem runAnalysisBrackets_gap_append (io : InOpts) (hd : io.disco = false) (a b : Str) (ta na tb nb : Nat)
    (pta pna ptb pnb : List (Nat × Nat))
    (ha : runAnalysisBrackets .gapDegree io a = .ok (.gap ta na pta pna)) (hb : runAnalysisBrackets .gapDegree io b = .ok (.gap tb nb ptb pnb)) :
    ∃ pt pn, runAnalysisBrackets .gapDegree io (a ++ b) = .ok (.gap (ta + tb) (na + nb) pt pn) ∧
      ∀ d, cnt d pt = cnt d pta + cnt d ptb ∧ cnt d pn = cnt d pna + cnt d pnb := by
  obtain ⟨ra, hra, _⟩ := from_ok_inv _ _ _ ha
  exact from_gap_append (glued_brackets io hd a b ra hra) ta na tb nb pta pna ptb pnb ha hb

theorem runAnalysisDisco_gap_append (io : InOpts) (a0 b : Str) (ta na tb nb : Nat) (pta pna ptb pnb : List (Nat × Nat))
    (ha : runAnalysisBrackets .gapDegree io (a0 ++ ['\n']) = .ok (.gap ta na pta pna))
    (hb : runAnalysisBrackets .gapDegree io b = .ok (.gap tb nb ptb pnb)) :
    ∃ pt pn, runAnalysisBrackets .gapDegree io (a0 ++ '\n' :: b) = .ok (.gap (ta + tb) (na + nb) pt pn) ∧
      ∀ d, cnt d pt = cnt d pta + cnt d ptb ∧ cnt d pn = cnt d pna + cnt d pnb := by
  obtain ⟨ra, hra, _⟩ := from_ok_inv _ _ _ ha
  exact from_gap_append (glued_disco io a0 b ra hra) ta na tb nb pta pna ptb pnb ha hb

end TT.Props.C16Run2
