/-
  C19 (more) — clause audit D, section C19:
  * `rightSibling_next`, `leftSibling_prev`, `rightSibling_none(_iff)`, `leftSibling_none(_iff)`: the sibling functions return the
    NEIGHBOUR in the set of siblings ordered by leftmost token (set-based: no sibling strictly between / none beyond);
  * `preorderP_ok`, `postorderP_ok`, `childOrder_ok`: the model satisfies the very predicates of `TT/Spec/Nav.lean` that judge
    the implementation's output;
  * `preorderP_get`, `postorderP_get`: path-valued and tree-valued traversals are the same traversal;
  * `numbering_above_tokens`: export numbers of constituents lie above the numbers of their tokens when the sentence has fewer
    than 500 tokens (and not otherwise: `big`);
  * `orderedIdx_children`, `children_strict`.
  Helper lemmas: `TT/Lemmas/More12g.lean`.
-/
import TT.Lemmas.More12g
import TT.Lemmas.Trans
import TT.Lemmas.ExportRT
namespace TT.Props.C19More
open TT TT.Tree TT.Spec TT.Lemmas.Nav TT.Lemmas.WF TT.Lemmas.More12g
open TT.Lemmas.Trans (get?_concat mem_subtrees_get?)

/-- what `rightSibling` did when it answered -/
theorem rightSibling_inv (t : Tree) (p q : Path) (h : rightSibling t p = some q) :
    ∃ r i j par k, p = r ++ [i] ∧ q = r ++ [j] ∧ t.get? r = some par ∧
      (orderedIdx par.kids)[k]? = some i ∧ (orderedIdx par.kids)[k + 1]? = some j := by
  unfold rightSibling at h
  cases hl : p.getLast? with
  | none => simp [hl] at h
  | some i =>
    simp only [hl] at h
    cases hg : t.get? p.dropLast with
    | none => simp [hg] at h
    | some par =>
      simp only [hg] at h
      cases hk : (orderedIdx par.kids).idxOf? i with
      | none => simp [hk] at h
      | some k =>
        simp only [hk, Option.map_eq_some_iff] at h
        obtain ⟨j, hj, rfl⟩ := h
        exact ⟨p.dropLast, i, j, par, k, (dropLast_append_of_getLast? hl).symm, rfl, hg, getElem?_of_idxOf? hk, hj⟩

theorem leftSibling_inv (t : Tree) (p q : Path) (h : leftSibling t p = some q) :
    ∃ r i j par k, p = r ++ [i] ∧ q = r ++ [j] ∧ t.get? r = some par ∧
      (orderedIdx par.kids)[k + 1]? = some i ∧ (orderedIdx par.kids)[k]? = some j := by
  unfold leftSibling at h
  cases hl : p.getLast? with
  | none => simp [hl] at h
  | some i =>
    simp only [hl] at h
    cases hg : t.get? p.dropLast with
    | none => simp [hg] at h
    | some par =>
      simp only [hg] at h
      cases hk : (orderedIdx par.kids).idxOf? i with
      | none => simp [hk] at h
      | some k =>
        cases k with
        | zero => simp [hk] at h
        | succ k =>
          simp only [hk, Option.map_eq_some_iff] at h
          obtain ⟨j, hj, rfl⟩ := h
          exact ⟨p.dropLast, i, j, par, k, (dropLast_append_of_getLast? hl).symm, rfl, hg, getElem?_of_idxOf? hk, hj⟩

/-- siblings of the node at `p`: same parent (`dropLast`), same depth, present in the tree -/
def IsSibling (t : Tree) (p s : Path) : Prop := s.length = p.length ∧ s.dropLast = p.dropLast ∧ (t.get? s).isSome

theorem sibDistinct_get? (t : Tree) (hd : sibDistinct t = true) (r : Path) (par : Tree) (h : t.get? r = some par) :
    (par.kids.map leftmost).Nodup := by
  cases par with
  | leaf n f => simp [kids]
  | node f ks => exact (sibDistinct_iff t).1 hd _ (mem_subtrees_get? r t _ h) f ks rfl

theorem sibling_form (r : Path) (i : Nat) (s : Path) (hl : s.length = (r ++ [i]).length) (hdl : s.dropLast = (r ++ [i]).dropLast) :
    ∃ m, s = r ++ [m] := by
  have hne : s ≠ [] := by rintro rfl; simp at hl
  refine ⟨s.getLast hne, ?_⟩
  rw [List.dropLast_concat] at hdl
  rw [← hdl]; exact (List.dropLast_concat_getLast hne).symm


theorem no_key_between {l : List Nat} {key : Nat → Nat} (hs : l.Pairwise (fun a b => key a ≤ key b)) {k i j m : Nat}
    (hi : l[k]? = some i) (hj : l[k + 1]? = some j) (hm : m ∈ l) : key m ≤ key i ∨ key j ≤ key m := by
  obtain ⟨n, hn⟩ := List.getElem?_of_mem hm
  rcases Nat.lt_trichotomy n k with h | h | h
  · exact Or.inl (pairwise_getElem? hs hn hi h)
  · subst h; rw [hi] at hn; cases hn; exact Or.inl (Nat.le_refl _)
  · by_cases h' : n = k + 1
    · subst h'; rw [hj] at hn; cases hn; exact Or.inr (Nat.le_refl _)
    · exact Or.inr (pairwise_getElem? hs hj hn (by omega))

theorem mem_orderedIdx (ks : List Tree) (m : Nat) : m ∈ orderedIdx ks ↔ m < ks.length := by
  rw [(orderedIdx_perm ks).mem_iff, List.mem_range]

theorem kidKey_eq (ks : List Tree) (i : Nat) (c : Tree) (h : ks[i]? = some c) : kidKey ks i = minLeaf c := by
  simp [kidKey, h, Lemmas.Nav.leftmost_eq_minLeaf]

/-- the two neighbours in the ordered child list, seen set-wise -/
theorem neighbours (t : Tree) (hd : sibDistinct t = true) (r : Path) (par : Tree) (i j k : Nat)
    (hg : t.get? r = some par) (hi : (orderedIdx par.kids)[k]? = some i) (hj : (orderedIdx par.kids)[k + 1]? = some j) :
    ∃ a b, t.get? (r ++ [i]) = some a ∧ t.get? (r ++ [j]) = some b ∧ minLeaf a < minLeaf b ∧
      ∀ s c, s.length = (r ++ [i]).length → s.dropLast = (r ++ [i]).dropLast → t.get? s = some c →
        minLeaf c ≤ minLeaf a ∨ minLeaf b ≤ minLeaf c := by
  have hil : i < par.kids.length := (mem_orderedIdx _ _).1 (List.mem_of_getElem? hi)
  have hjl : j < par.kids.length := (mem_orderedIdx _ _).1 (List.mem_of_getElem? hj)
  have ha : t.get? (r ++ [i]) = some par.kids[i] := by rw [get?_concat, hg]; simp [hil]
  have hb : t.get? (r ++ [j]) = some par.kids[j] := by rw [get?_concat, hg]; simp [hjl]
  refine ⟨_, _, ha, hb, ?_, ?_⟩
  · have := pairwise_getElem? (orderedIdx_strict par.kids (sibDistinct_get? t hd r par hg)) hi hj (Nat.lt_succ_self k)
    rwa [kidKey_eq _ i _ (List.getElem?_eq_getElem hil), kidKey_eq _ j _ (List.getElem?_eq_getElem hjl)] at this
  · intro s c hl hdl hc
    obtain ⟨m, rfl⟩ := sibling_form r i s hl hdl
    rw [get?_concat, hg] at hc
    simp only [Option.bind_some] at hc
    have hml : m < par.kids.length := (List.getElem?_eq_some_iff.1 hc).1
    have := no_key_between (key := kidKey par.kids) (orderedIdx_sorted par.kids) hi hj ((mem_orderedIdx _ _).2 hml)
    rwa [kidKey_eq _ i _ (List.getElem?_eq_getElem hil), kidKey_eq _ j _ (List.getElem?_eq_getElem hjl), kidKey_eq _ m _ hc] at this

/-- `right_sibling`: the answer is a sibling, its leftmost token is larger, and no sibling lies strictly between -/
theorem rightSibling_next (t : Tree) (p q : Path) (hd : sibDistinct t = true) (h : rightSibling t p = some q) :
    ∃ a b, t.get? p = some a ∧ t.get? q = some b ∧ p ≠ [] ∧ q.length = p.length ∧ q.dropLast = p.dropLast ∧
      minLeaf a < minLeaf b ∧
      ∀ s c, s.length = p.length → s.dropLast = p.dropLast → t.get? s = some c →
        ¬ (minLeaf a < minLeaf c ∧ minLeaf c < minLeaf b) := by
  obtain ⟨r, i, j, par, k, rfl, rfl, hg, hi, hj⟩ := rightSibling_inv t p q h
  obtain ⟨a, b, ha, hb, hlt, hbt⟩ := neighbours t hd r par i j k hg hi hj
  refine ⟨a, b, ha, hb, by simp, by simp, by simp, hlt, ?_⟩
  intro s c h1 h2 h3 h4
  have := hbt s c h1 h2 h3
  omega

/-- `left_sibling`: symmetric -/
theorem leftSibling_prev (t : Tree) (p q : Path) (hd : sibDistinct t = true) (h : leftSibling t p = some q) :
    ∃ a b, t.get? p = some a ∧ t.get? q = some b ∧ p ≠ [] ∧ q.length = p.length ∧ q.dropLast = p.dropLast ∧
      minLeaf b < minLeaf a ∧
      ∀ s c, s.length = p.length → s.dropLast = p.dropLast → t.get? s = some c →
        ¬ (minLeaf b < minLeaf c ∧ minLeaf c < minLeaf a) := by
  obtain ⟨r, i, j, par, k, rfl, rfl, hg, hi, hj⟩ := leftSibling_inv t p q h
  obtain ⟨b, a, hb, ha, hlt, hbt⟩ := neighbours t hd r par j i k hg hj hi
  refine ⟨a, b, ha, hb, by simp, by simp, by simp, hlt, ?_⟩
  intro s c h1 h2 h3 h4
  have := hbt s c (by simpa using h1) (by simpa using h2) h3
  omega


theorem idxOf?_of_mem {l : List Nat} {i : Nat} (h : i ∈ l) : ∃ k, l.idxOf? i = some k := by
  cases hk : l.idxOf? i with
  | some k => exact ⟨k, rfl⟩
  | none => rw [List.idxOf?_eq_none_iff] at hk; exact absurd h hk

/-- no right sibling: the node is the last of the ordered child list, i.e. no sibling has a larger leftmost token
    (for the root: it has no sibling at all) -/
theorem rightSibling_none (t : Tree) (p : Path) (a : Tree) (ha : t.get? p = some a) (h : rightSibling t p = none) :
    ∀ s c, s.length = p.length → s.dropLast = p.dropLast → t.get? s = some c → minLeaf c ≤ minLeaf a := by
  intro s c hl hdl hc
  rcases List.eq_nil_or_concat p with rfl | ⟨r, i, hp⟩
  · have : s = [] := List.eq_nil_of_length_eq_zero hl
    subst this; rw [ha] at hc; cases hc; exact Nat.le_refl _
  · rw [List.concat_eq_append] at hp; subst hp
    obtain ⟨m, rfl⟩ := sibling_form r i s hl hdl
    obtain ⟨f, ks, hg, hki⟩ := TT.Lemmas.Trans.get?_concat_some ha
    obtain ⟨f', ks', hg', hkm⟩ := TT.Lemmas.Trans.get?_concat_some hc
    rw [hg] at hg'; cases hg'
    have hil : i < ks.length := (List.getElem?_eq_some_iff.1 hki).1
    have hml : m < ks.length := (List.getElem?_eq_some_iff.1 hkm).1
    obtain ⟨k, hk⟩ := idxOf?_of_mem ((mem_orderedIdx ks i).2 hil)
    unfold rightSibling at h
    simp only [List.getLast?_concat, List.dropLast_concat, hg, kids, hk, Option.map_eq_none_iff] at h
    obtain ⟨n, hn⟩ := List.getElem?_of_mem ((mem_orderedIdx ks m).2 hml)
    have hn' : n < k + 1 := by
      have := (List.getElem?_eq_some_iff.1 hn).1
      have := List.getElem?_eq_none_iff.1 h
      omega
    have hik := getElem?_of_idxOf? hk
    rw [← kidKey_eq ks i a hki, ← kidKey_eq ks m c hkm]
    by_cases hnk : n = k
    · subst hnk; rw [hik] at hn; cases hn; exact Nat.le_refl _
    · exact pairwise_getElem? (orderedIdx_sorted ks) hn hik (by omega)

theorem leftSibling_none (t : Tree) (p : Path) (a : Tree) (ha : t.get? p = some a) (h : leftSibling t p = none) :
    ∀ s c, s.length = p.length → s.dropLast = p.dropLast → t.get? s = some c → minLeaf a ≤ minLeaf c := by
  intro s c hl hdl hc
  rcases List.eq_nil_or_concat p with rfl | ⟨r, i, hp⟩
  · have : s = [] := List.eq_nil_of_length_eq_zero hl
    subst this; rw [ha] at hc; cases hc; exact Nat.le_refl _
  · rw [List.concat_eq_append] at hp; subst hp
    obtain ⟨m, rfl⟩ := sibling_form r i s hl hdl
    obtain ⟨f, ks, hg, hki⟩ := TT.Lemmas.Trans.get?_concat_some ha
    obtain ⟨f', ks', hg', hkm⟩ := TT.Lemmas.Trans.get?_concat_some hc
    rw [hg] at hg'; cases hg'
    have hil : i < ks.length := (List.getElem?_eq_some_iff.1 hki).1
    have hml : m < ks.length := (List.getElem?_eq_some_iff.1 hkm).1
    obtain ⟨k, hk⟩ := idxOf?_of_mem ((mem_orderedIdx ks i).2 hil)
    have hik := getElem?_of_idxOf? hk
    unfold leftSibling at h
    simp only [List.getLast?_concat, List.dropLast_concat, hg, kids, hk] at h
    obtain ⟨n, hn⟩ := List.getElem?_of_mem ((mem_orderedIdx ks m).2 hml)
    rw [← kidKey_eq ks i a hki, ← kidKey_eq ks m c hkm]
    cases k with
    | zero =>
      by_cases hn0 : n = 0
      · subst hn0; rw [hik] at hn; cases hn; exact Nat.le_refl _
      · exact pairwise_getElem? (orderedIdx_sorted ks) hik hn (by omega)
    | succ k =>
      exfalso
      simp only [Option.map_eq_none_iff] at h
      have := (List.getElem?_eq_some_iff.1 hik).1
      have := List.getElem?_eq_none_iff.1 h
      omega

/-- conversely: when some sibling has a larger leftmost token, `right_sibling` answers -/
theorem rightSibling_none_iff (t : Tree) (hd : sibDistinct t = true) (p : Path) (a : Tree) (ha : t.get? p = some a) :
    rightSibling t p = none ↔
      ∀ s c, s.length = p.length → s.dropLast = p.dropLast → t.get? s = some c → minLeaf c ≤ minLeaf a := by
  refine ⟨rightSibling_none t p a ha, fun hall => ?_⟩
  cases hr : rightSibling t p with
  | none => rfl
  | some q =>
    obtain ⟨a', b, ha', hb, _, h1, h2, hlt, _⟩ := rightSibling_next t p q hd hr
    rw [ha] at ha'; cases ha'
    have := hall q b h1 h2 hb
    omega

theorem leftSibling_none_iff (t : Tree) (hd : sibDistinct t = true) (p : Path) (a : Tree) (ha : t.get? p = some a) :
    leftSibling t p = none ↔
      ∀ s c, s.length = p.length → s.dropLast = p.dropLast → t.get? s = some c → minLeaf a ≤ minLeaf c := by
  refine ⟨leftSibling_none t p a ha, fun hall => ?_⟩
  cases hr : leftSibling t p with
  | none => rfl
  | some q =>
    obtain ⟨a', b, ha', hb, _, h1, h2, hlt, _⟩ := leftSibling_prev t p q hd hr
    rw [ha] at ha'; cases ha'
    have := hall q b h1 h2 hb
    omega


/-! ## the predicates that judge the implementation hold of the model -/

theorem mem_zipIdx_getElem? {α} (l : List α) (p : α) (i : Nat) (h : (p, i) ∈ l.zipIdx) : l[i]? = some p := by
  have := List.mem_zipIdx h
  simp at this
  exact List.getElem?_eq_some_iff.2 ⟨this.1, this.2.symm⟩

theorem mem_take_getElem? {α} (l : List α) (q : α) (i : Nat) (h : q ∈ l.take i) : ∃ j, j < i ∧ l[j]? = some q := by
  obtain ⟨j, hj⟩ := List.getElem?_of_mem h
  rw [List.getElem?_take] at hj
  split at hj
  · exact ⟨j, by assumption, hj⟩
  · cases hj

theorem mem_drop_getElem? {α} (l : List α) (q : α) (i : Nat) (h : q ∈ l.drop i) : ∃ j, i ≤ j ∧ l[j]? = some q := by
  obtain ⟨j, hj⟩ := List.getElem?_of_mem h
  rw [List.getElem?_drop] at hj
  exact ⟨i + j, by omega, hj⟩

theorem idx_unique {α} {l : List α} (hn : l.Nodup) {i j : Nat} {x : α} (hi : l[i]? = some x) (hj : l[j]? = some x) : i = j := by
  obtain ⟨hi', hx⟩ := List.getElem?_eq_some_iff.1 hi
  obtain ⟨hj', hy⟩ := List.getElem?_eq_some_iff.1 hj
  exact (List.getElem_inj (h₀ := hi') (h₁ := hj') hn).1 (hx.trans hy.symm)

theorem idxOf_getElem? {α} [BEq α] [LawfulBEq α] {l : List α} (hn : l.Nodup) {i : Nat} {x : α} (hi : l[i]? = some x) : l.idxOf x = i := by
  have hm : x ∈ l := List.mem_of_getElem? hi
  have h1 : l.idxOf x < l.length := List.idxOf_lt_length_of_mem hm
  have h2 : l[l.idxOf x]? = some x := by rw [List.getElem?_eq_getElem h1]; simp
  exact idx_unique hn h2 hi


theorem cover_of_perm (t : Tree) (ps : List Path) (h : ps.Perm (paths t)) :
    (ps.length == (paths t).length) = true ∧ ((paths t).all fun p => ps.contains p) = true := by
  refine ⟨by simpa using h.length_eq, ?_⟩
  simp only [List.all_eq_true, List.contains_iff_mem]
  exact fun p hp => h.symm.subset hp

theorem sib_conj (t : Tree) (ps : List Path) (h : ps.Pairwise (SibRel t)) :
    (ps.zipIdx.all fun (p, i) => (ps.take i).all fun q =>
      if q.length == p.length && q.dropLast == p.dropLast && q != p then
        ((t.get? q).map minLeaf).getD 0 < ((t.get? p).map minLeaf).getD 0
      else true) = true := by
  simp only [List.all_eq_true]
  rintro ⟨p, i⟩ hpi q hq
  have hi := mem_zipIdx_getElem? ps p i hpi
  obtain ⟨j, hji, hj⟩ := mem_take_getElem? ps q i hq
  have hr := pairwise_getElem? h hj hi hji
  dsimp only
  split
  · rename_i hc
    simp only [Bool.and_eq_true, beq_iff_eq, bne_iff_ne, ne_eq] at hc
    simpa [mkey] using hr hc.1.1 hc.1.2 hc.2
  · rfl

theorem anc_first_conj (t : Tree) :
    ((preorderP t).zipIdx.all fun (p, i) => ((preorderP t).take i).all fun q => !(properPrefix p q)) = true := by
  simp only [List.all_eq_true]
  rintro ⟨p, i⟩ hpi q hq
  have hi := mem_zipIdx_getElem? _ p i hpi
  obtain ⟨j, hji, hj⟩ := mem_take_getElem? _ q i hq
  cases hpq : properPrefix p q with
  | false => rfl
  | true =>
    have := TT.Props.C19.preorderP_ancestor_first t p q (List.mem_of_getElem? hj) hpq
    rw [idxOf_getElem? (preorderP_nodup t) hi, idxOf_getElem? (preorderP_nodup t) hj] at this
    omega

theorem anc_last_conj (t : Tree) :
    ((postorderP t).zipIdx.all fun (p, i) => ((postorderP t).drop (i + 1)).all fun q => !(properPrefix p q)) = true := by
  simp only [List.all_eq_true]
  rintro ⟨p, i⟩ hpi q hq
  have hi := mem_zipIdx_getElem? _ p i hpi
  obtain ⟨j, hji, hj⟩ := mem_drop_getElem? _ q (i + 1) hq
  cases hpq : properPrefix p q with
  | false => rfl
  | true =>
    have := TT.Props.C19.postorderP_ancestor_last t p q (List.mem_of_getElem? hj) hpq
    rw [idxOf_getElem? (postorderP_nodup t) hi, idxOf_getElem? (postorderP_nodup t) hj] at this
    omega

theorem takeWhile_all_false {α} (P : α → Bool) (l : List α) (h : ∀ x ∈ l, P x = false) : l.takeWhile P = [] := by
  cases l with
  | nil => rfl
  | cons a l => simp [List.takeWhile, h a List.mem_cons_self]

theorem contig_conj (t : Tree) :
    ((preorderP t).zipIdx.all fun (p, i) =>
      let after := (preorderP t).drop (i + 1)
      let inside := after.takeWhile (fun q => isPrefix p q)
      (after.drop inside.length).all fun q => !(isPrefix p q)) = true := by
  simp only [List.all_eq_true]
  rintro ⟨p, i⟩ hpi
  have hi := mem_zipIdx_getElem? _ p i hpi
  have hp : p ∈ paths t := (TT.Lemmas.Nav.preorderP_perm_paths t).subset (List.mem_of_getElem? hi)
  obtain ⟨s, hs⟩ := Option.isSome_iff_exists.1 ((TT.Lemmas.ExportRT.mem_paths_iff t p).1 hp)
  obtain ⟨A, C, he, hA, hC⟩ := preorderP_segment p t s hs
  obtain ⟨r, hr⟩ := preorderP_head s
  rw [hr, List.map_cons, List.append_nil] at he
  have hAi : A.length = i := by
    refine idx_unique (preorderP_nodup t) ?_ hi
    rw [he]; simp
  have hafter : (preorderP t).drop (i + 1) = r.map (p ++ ·) ++ C := by
    rw [he, ← hAi]
    simp [List.append_assoc]
  have hin : ∀ q ∈ r.map (p ++ ·), (fun q => isPrefix p q) q = true := by
    intro q hq
    obtain ⟨x, _, rfl⟩ := List.mem_map.1 hq
    exact isPrefix_append p x
  dsimp only
  rw [hafter, List.takeWhile_append_of_pos hin, takeWhile_all_false _ C hC, List.append_nil, List.drop_left]
  intro q hq
  simp [hC q hq]

/-- the model's preorder satisfies the predicate that judges the implementation's preorder -/
theorem preorderP_ok (t : Tree) (h : sibDistinct t = true) : preorderOK t (preorderP t) = true := by
  unfold preorderOK
  obtain ⟨h1, h2⟩ := cover_of_perm t _ (TT.Lemmas.Nav.preorderP_perm_paths t)
  rw [h1, h2, anc_first_conj t, sib_conj t _ (preorderP_sibRel t h), contig_conj t]
  rfl

theorem postorderP_ok (t : Tree) (h : sibDistinct t = true) : postorderOK t (postorderP t) = true := by
  unfold postorderOK postorderOK.preorderOKrev
  obtain ⟨h1, h2⟩ := cover_of_perm t _ (TT.Lemmas.Nav.postorderP_perm_paths t)
  rw [h1, h2, anc_last_conj t, sib_conj t _ (postorderP_sibRel t h)]
  rfl


theorem pairwise_zip_drop {α} {R : α → α → Prop} {l : List α} (h : l.Pairwise R) :
    ∀ ab ∈ l.zip (l.drop 1), R ab.1 ab.2 := by
  intro ab hab
  obtain ⟨i, hi, he⟩ := List.getElem_of_mem hab
  have h1 : i < l.length := by simp at hi; omega
  have h2 : i + 1 < l.length := by simp at hi; omega
  have : ab = (l[i], l[i + 1]) := by rw [← he]; simp
  rw [this]
  exact List.pairwise_iff_getElem.1 h i (i + 1) h1 h2 (Nat.lt_succ_self i)

theorem kidKey_eq_minLeaf (ks : List Tree) : kidKey ks = fun i => (ks[i]?.map minLeaf).getD 0 := by
  funext i
  unfold kidKey
  cases ks[i]? <;> simp [Lemmas.Nav.leftmost_eq_minLeaf]

/-- `children` (as storage indices) satisfies the predicate that judges the implementation's `children` -/
theorem childOrder_ok' (s : Tree) (h : (s.kids.map leftmost).Nodup) : childrenOK s.kids (childOrder s) = true := by
  unfold childrenOK childOrder
  have h1 : sortBy id (orderedIdx s.kids) = List.range s.kids.length := by
    refine sortBy_eq_of_perm_sorted id _ _ (orderedIdx_perm s.kids) (by simpa using orderedIdx_nodup s.kids) ?_
    exact (List.pairwise_lt_range).imp (fun h => Nat.le_of_lt h)
  rw [h1, beq_self_eq_true, Bool.true_and]
  simp only [List.all_eq_true, decide_eq_true_eq]
  have hs := orderedIdx_strict s.kids h
  rw [kidKey_eq_minLeaf] at hs
  exact pairwise_zip_drop (List.pairwise_map.2 hs)

theorem childOrder_ok (t s : Tree) (h : sibDistinct t = true) (hs : s ∈ subtrees t) :
    childrenOK s.kids (childOrder s) = true := by
  refine childOrder_ok' s ?_
  cases s with
  | leaf n f => simp [kids]
  | node f ks => exact (sibDistinct_iff t).1 h _ hs f ks rfl

/-- strictness of the child order (the part `children_sorted` of C19 leaves open) -/
theorem children_strict (t : Tree) (h : (t.kids.map leftmost).Nodup) :
    (children t).Pairwise (fun a b => minLeaf a < minLeaf b) := by
  have := sortBy_strict leftmost t.kids h
  simpa [children, Lemmas.Nav.leftmost_eq_minLeaf] using this

/-- the storage indices in `children` order select the children in `children` order -/
theorem orderedIdx_children (ks : List Tree) : (orderedIdx ks).filterMap (ks[·]?) = sortBy leftmost ks :=
  TT.Lemmas.More12g.orderedIdx_children ks

theorem childOrder_children (t : Tree) : (childOrder t).filterMap (t.kids[·]?) = children t :=
  TT.Lemmas.More12g.orderedIdx_children t.kids


/-! ## the path-valued and the tree-valued traversals are the same traversal -/

theorem filterMap_blocks (f : Fields) (ks : List Tree) (X : Tree → List Path) (Y : Tree → List Tree)
    (h : ∀ k ∈ ks, (X k).filterMap (k.get? ·) = Y k) :
    ((sortedPairs ks).flatMap fun p => (X p.2).map (p.1 :: ·)).filterMap ((node f ks).get? ·) =
      (children (node f ks)).flatMap Y := by
  rw [children, kids, ← sortedPairs_snd, List.flatMap_map]
  have : ∀ l : List (Nat × Tree), (∀ a ∈ l, ks[a.1]? = some a.2) →
      (l.flatMap fun p => (X p.2).map (p.1 :: ·)).filterMap ((node f ks).get? ·) = l.flatMap (fun a => Y a.2) := by
    intro l hl
    induction l with
    | nil => rfl
    | cons a l ih =>
      have ha := hl a List.mem_cons_self
      simp only [List.flatMap_cons, List.filterMap_append]
      rw [ih (fun b hb => hl b (List.mem_cons_of_mem _ hb)), List.filterMap_map]
      congr 1
      rw [← h a.2 (List.mem_of_getElem? ha)]
      congr 1
      funext q
      simp [get?, ha]
  exact this _ (sortedPairs_mem ks)

theorem preorderP_get : ∀ t : Tree, (preorderP t).filterMap (t.get? ·) = preorder t := by
  refine tree_ind ?_ ?_
  · intro n f; simp [preorderP, preorder, get?]
  · intro f ks ih
    rw [preorderP_node, TT.Lemmas.Nav.preorder_unfold, List.filterMap_cons]
    simp only [get?]
    rw [filterMap_blocks f ks preorderP preorder ih]

theorem postorderP_get : ∀ t : Tree, (postorderP t).filterMap (t.get? ·) = postorder t := by
  refine tree_ind ?_ ?_
  · intro n f; simp [postorderP, postorder, get?]
  · intro f ks ih
    rw [postorderP_node, TT.Lemmas.Nav.postorder_unfold, List.filterMap_append]
    rw [filterMap_blocks f ks postorderP postorder ih]
    simp [get?]


/-! ## export numbering: constituents are numbered above their tokens (sentences of fewer than 500 tokens) -/

theorem numbering_above_tokens (t : Tree) (h : WF t = true) (hN : t.leafNums.length < 500) :
    ∀ pn ∈ exportNumbering t, pn.1 ≠ [] → ∀ n ∈ ((t.get? pn.1).map leafNums).getD [], n < pn.2 := by
  intro pn hpn hne n hn
  obtain ⟨k, _, hv⟩ := TT.Props.C19.numbering_values t
  have h0 := TT.Props.C19.numbering_root_zero t pn hpn
  have h500 : 500 ≤ pn.2 := by
    rcases hv pn.2 (List.mem_map_of_mem hpn) with h | h
    · exact absurd (h0.2 h) hne
    · exact h.1
  cases hg : t.get? pn.1 with
  | none => simp [hg] at hn
  | some s =>
    simp only [hg, Option.map_some, Option.getD_some] at hn
    have hn' : n ∈ t.leafNums := (TT.Lemmas.Trans.leafNums_sublist_get? pn.1 t s hg).subset hn
    rw [← TT.Lemmas.WF.mem_yield, TT.Props.C19.yield_of_WF t h, List.mem_range'_1] at hn'
    omega

/-- 498 tokens in chunks of 8 (and a last chunk of 2) -/
def chunk (lo n : Nat) : Tree := node {} ((List.range' lo n).map fun i => leaf i {})

/-- a sentence of 500 tokens: `(S (X t1 t500) (Y (C t2 … t9) (C t10 … t17) …))` -/
def big : Tree :=
  node {} [node {} [leaf 1 {}, leaf 500 {}], node {} ((List.range 62).map (fun j => chunk (2 + 8 * j) 8) ++ [chunk 498 2])]

/-- the bound cannot be dropped: `X` is the leftmost constituent of the lowest level, so it gets the number 500, which is not
    above its token 500 -/
example : WF big = true ∧ big.leafNums.length = 500 ∧ ([0], 500) ∈ exportNumbering big ∧
    500 ∈ ((big.get? [0]).map leafNums).getD [] := by decide +kernel

/-! ## concrete instances -/

/-- `(S (X t4 t2) t3 (Y t5 t1))`, children stored out of order: ordered child list of the root is `[2, 0, 1]` -/
def ex2 : Tree := node {} [node {} [leaf 4 {}, leaf 2 {}], leaf 3 {}, node {} [leaf 5 {}, leaf 1 {}]]

/-- two tokens with the same number: siblings with equal leftmost token (not well-formed) -/
def bad : Tree := node {} [leaf 1 {}, leaf 1 {}]

example : WF ex2 = true ∧ sibDistinct ex2 = true := by decide
example : sibDistinct bad = false := by decide

example : rightSibling ex2 [2] = some [0] ∧ rightSibling ex2 [0] = some [1] ∧ rightSibling ex2 [1] = none ∧
    leftSibling ex2 [2] = none ∧ leftSibling ex2 [1] = some [0] ∧ rightSibling ex2 [0, 1] = some [0, 0] := by decide

example : ∃ a b, ex2.get? [2] = some a ∧ ex2.get? [0] = some b ∧ minLeaf a < minLeaf b :=
  let ⟨a, b, ha, hb, _, _, _, hlt, _⟩ := rightSibling_next ex2 [2] [0] (by decide) (by decide)
  ⟨a, b, ha, hb, hlt⟩

/-- `sibDistinct` cannot be dropped from `rightSibling_next` / `leftSibling_prev`: the "next" sibling is not larger -/
example : rightSibling bad [0] = some [1] ∧ (bad.get? [0]).map minLeaf = some 1 ∧ (bad.get? [1]).map minLeaf = some 1 := by decide

example : preorderP ex2 = [[], [2], [2, 1], [2, 0], [0], [0, 1], [0, 0], [1]] ∧ preorderOK ex2 (preorderP ex2) = true ∧
    postorderP ex2 = [[2, 1], [2, 0], [2], [0, 1], [0, 0], [0], [1], []] ∧ postorderOK ex2 (postorderP ex2) = true ∧
    childOrder ex2 = [2, 0, 1] ∧ childrenOK ex2.kids (childOrder ex2) = true := by decide

example : preorderOK ex2 (preorderP ex2) = true := preorderP_ok ex2 (by decide)
example : postorderOK ex2 (postorderP ex2) = true := postorderP_ok ex2 (by decide)
example : childrenOK ex2.kids (childOrder ex2) = true := childOrder_ok ex2 ex2 (by decide) (by simp [ex2, subtrees])

/-- `sibDistinct` cannot be dropped from `preorderP_ok`, `postorderP_ok`, `childOrder_ok`: the predicates demand a strict order -/
example : preorderOK bad (preorderP bad) = false ∧ postorderOK bad (postorderP bad) = false ∧
    childrenOK bad.kids (childOrder bad) = false := by decide

example : (preorderP ex2).filterMap (ex2.get? ·) = preorder ex2 := preorderP_get ex2

example : exportNumbering ex2 = [([2], 500), ([0], 501), ([], 0)] := by decide
example : ∀ n ∈ ((ex2.get? [0]).map leafNums).getD [], n < 501 :=
  numbering_above_tokens ex2 (by decide) (by decide) ([0], 501) (by decide) (by decide)

end TT.Props.C19More
