/-
  C17 — output splitting partitions the treebank in order into parts of the specified sizes.
-/
import TT.Split
namespace TT.Props.C17
open TT

theorem sum_set (l : List Nat) (i v : Nat) (h : i < l.length) :
    (l.set i v).sum + l[i] = l.sum + v := by
  induction l generalizing i with
  | nil => simp at h
  | cons a r ih =>
    cases i with
    | zero => simp; omega
    | succ j =>
      simp at h
      have := ih j (by omega)
      simp [List.set]
      omega

theorem sum_addAt (l : List Nat) (i d : Nat) (h : i < l.length) : (addAt l i d).sum = l.sum + d := by
  unfold addAt
  have := sum_set l i (l[i]?.getD 0 + d) h
  simp [List.getElem?_eq_getElem h] at this ⊢
  omega

theorem firstMaxIdx_lt (l : List Nat) (h : l ≠ []) : firstMaxIdx l < l.length := by
  induction l with
  | nil => exact absurd rfl h
  | cons a r ih =>
    cases r with
    | nil => simp [firstMaxIdx]
    | cons b r' =>
      simp only [firstMaxIdx]
      split
      · simp
      · have := ih (by simp)
        simp at this ⊢
        omega

/-- the first maximal part really is maximal, and nothing before it is as large -/
theorem firstMaxIdx_max (l : List Nat) (h : l ≠ []) :
    (∀ x ∈ l, x ≤ l[firstMaxIdx l]?.getD 0) ∧ (∀ j, j < firstMaxIdx l → l[j]?.getD 0 < l[firstMaxIdx l]?.getD 0) := by
  induction l with
  | nil => exact absurd rfl h
  | cons a r ih =>
    cases r with
    | nil => simp [firstMaxIdx]
    | cons b r' =>
      have ⟨ih1, ih2⟩ := ih (by simp)
      simp only [firstMaxIdx]
      split
      · rename_i hge
        constructor
        · intro x hx
          simp at hx
          rcases hx with rfl | hx
          · simp
          · have := ih1 x (by simpa using hx)
            simp at hge ⊢
            omega
        · intro j hj; omega
      · rename_i hlt
        constructor
        · intro x hx
          simp at hx
          simp only [List.getElem?_cons_succ]
          rcases hx with rfl | hx
          · simp at hlt; omega
          · exact ih1 x (by simpa using hx)
        · intro j hj
          simp only [List.getElem?_cons_succ]
          cases j with
          | zero => simp at hlt ⊢; omega
          | succ j' => simp only [List.getElem?_cons_succ]; exact ih2 j' (by omega)

theorem restIdx_lt (ps : List Part) (i : Nat) (h : restIdx ps = some i) : i < ps.length := by
  unfold restIdx at h
  obtain ⟨hlt, _⟩ := List.idxOf?_eq_some_iff.mp h
  exact hlt

/-- T1: whenever a specification is accepted, the part sizes sum to the number of trees -/
theorem sizesOf_sum (ps : List Part) (size : Nat) (parts : List Nat) (hne : ps ≠ [])
    (h : sizesOf ps size = .ok parts) : parts.sum = size := by
  unfold sizesOf at h
  simp only at h
  split at h
  · rename_i hlt
    split at h
    · rename_i i hi
      injection h with h; subst h
      rw [sum_addAt _ _ _ (by simpa using restIdx_lt ps i hi)]; omega
    · injection h with h; subst h
      rw [sum_addAt _ _ _ (by simpa using firstMaxIdx_lt (ps.map (baseSize size)) (by simpa using hne))]; omega
  · split at h
    · injection h with h; subst h; assumption
    · cases h

/-- the base sizes: absolute sizes exact, percentages rounded down, `rest` zero -/
theorem baseSize_spec (size : Nat) :
    (∀ n, baseSize size (.abs n) = n) ∧ (∀ p, baseSize size (.pct p) = p * size / 100) ∧
    baseSize size .rest = 0 := ⟨fun _ => rfl, fun _ => rfl, rfl⟩

/-- rounding down: `p%` of `size` is the largest `k` with `100 k ≤ p * size` -/
theorem pct_floor (p size : Nat) :
    100 * baseSize size (.pct p) ≤ p * size ∧ p * size < 100 * (baseSize size (.pct p) + 1) := by
  simp only [baseSize]; omega

/-- T1: accepted specifications: sizes are the base sizes except at ONE index (the `rest` part, or else
    the first maximal part), which receives the whole remainder -/
theorem sizesOf_shape (ps : List Part) (size : Nat) (parts : List Nat) (h : sizesOf ps size = .ok parts) :
    (ps.map (baseSize size)).sum ≤ size ∧
    ((ps.map (baseSize size)).sum = size → parts = ps.map (baseSize size)) ∧
    ((ps.map (baseSize size)).sum < size →
      parts = addAt (ps.map (baseSize size)) ((restIdx ps).getD (firstMaxIdx (ps.map (baseSize size))))
                (size - (ps.map (baseSize size)).sum)) := by
  unfold sizesOf at h
  simp only at h
  split at h
  · rename_i hlt
    refine ⟨by omega, fun heq => by omega, fun _ => ?_⟩
    split at h
    · rename_i i hi
      injection h with h; subst h; simp [hi]
    · rename_i hi
      injection h with h; subst h; simp [hi]
  · split at h
    · rename_i hge heq
      injection h with h; subst h
      exact ⟨by omega, fun _ => rfl, fun hlt => by omega⟩
    · cases h

/-- a specification demanding more trees than exist is rejected -/
theorem sizesOf_rejects_too_large (ps : List Part) (size : Nat)
    (h : size < (ps.map (baseSize size)).sum) : sizesOf ps size = .error .valueError := by
  unfold sizesOf
  simp only
  split
  · omega
  · split
    · omega
    · rfl

/-- a malformed specification is rejected -/
theorem parse_rejects_malformed (spec : Str) (size : Nat)
    (h : parseParts (splitOnChar '_' spec) false = none) : parseSplitSpec spec size = .error .valueError := by
  simp [parseSplitSpec, h]

theorem splitOnChar_ne_nil (c : Char) (s : Str) : splitOnChar c s ≠ [] := by
  induction s with
  | nil => simp [splitOnChar]
  | cons x xs ih =>
    simp only [splitOnChar]
    split
    · simp
    · split <;> simp

theorem parseParts_length (ss : List Str) (b : Bool) (ps : List Part) (h : parseParts ss b = some ps) :
    ps.length = ss.length := by
  induction ss generalizing b ps with
  | nil => simp [parseParts] at h; subst h; rfl
  | cons s ss ih =>
    simp only [parseParts] at h
    split at h
    · cases h
    · split at h
      · cases h
      · simp only [Option.map_eq_some_iff] at h
        obtain ⟨q, hq, rfl⟩ := h
        simp [ih _ _ hq]
    · simp only [Option.map_eq_some_iff] at h
      obtain ⟨q, hq, rfl⟩ := h
      simp [ih _ _ hq]

/-- at most one `rest` -/
theorem parseParts_one_rest (ss : List Str) (b : Bool) (ps : List Part) (h : parseParts ss b = some ps) :
    ps.count Part.rest ≤ 1 ∧ (b = true → ps.count Part.rest = 0) := by
  induction ss generalizing b ps with
  | nil => simp [parseParts] at h; subst h; simp
  | cons s ss ih =>
    simp only [parseParts] at h
    cases hp : parsePart s with
    | none => simp [hp] at h
    | some p =>
      cases p with
      | rest =>
        simp only [hp] at h
        split at h
        · cases h
        · rename_i hb
          simp only [Option.map_eq_some_iff] at h
          obtain ⟨q, hq, rfl⟩ := h
          have := ih _ _ hq
          simp at hb
          simp [hb, this.2 rfl]
      | pct n =>
        simp only [hp, Option.map_eq_some_iff] at h
        obtain ⟨q, hq, rfl⟩ := h
        have := ih _ _ hq
        simpa using this
      | abs n =>
        simp only [hp, Option.map_eq_some_iff] at h
        obtain ⟨q, hq, rfl⟩ := h
        have := ih _ _ hq
        simpa using this

/-- PROPERTY (sizes): an accepted specification yields sizes summing to the number of trees -/
theorem split_sum (spec : Str) (size : Nat) (parts : List Nat) (h : parseSplitSpec spec size = .ok parts) :
    parts.sum = size := by
  unfold parseSplitSpec at h
  split at h
  · cases h
  · rename_i ps hps
    have hlen := parseParts_length _ _ _ hps
    have : ps ≠ [] := by
      intro hnil; subst hnil
      simp at hlen
      exact splitOnChar_ne_nil '_' spec (List.eq_nil_of_length_eq_zero hlen.symm)
    exact sizesOf_sum ps size parts this h

/-- PROPERTY (partition): handing out the trees part by part reproduces the sequence, and part `i`
    has exactly `parts[i]` trees -/
theorem distribute_flatten {α} (parts : List Nat) (ts : List α) (h : parts.sum = ts.length) :
    (distribute parts ts).flatten = ts := by
  induction parts generalizing ts with
  | nil => simp at h; simp [distribute, List.eq_nil_of_length_eq_zero h.symm]
  | cons n ns ih =>
    simp only [distribute, List.flatten_cons]
    simp at h
    rw [ih (ts.drop n) (by simp; omega)]
    exact List.take_append_drop n ts

theorem distribute_lengths {α} (parts : List Nat) (ts : List α) (h : parts.sum = ts.length) :
    (distribute parts ts).map List.length = parts := by
  induction parts generalizing ts with
  | nil => rfl
  | cons n ns ih =>
    simp at h
    simp only [distribute, List.map_cons]
    rw [ih (ts.drop n) (by simp; omega)]
    simp; omega

deriving instance DecidableEq for Except

-- non-vacuity: the suite's own example and the repaired cases
example : parseSplitSpec "rest_20%_5000#".toList 10000 = .ok [3000, 2000, 5000] := by decide
example : parseSplitSpec "29%_rest".toList 100 = .ok [29, 71] := by decide
example : parseSplitSpec "30%_30%_30%".toList 10 = .ok [4, 3, 3] := by decide
example : parseSplitSpec "-1#_rest".toList 3 = .error .valueError := by decide
example : parseSplitSpec "".toList 3 = .error .valueError := by decide
example : parseSplitSpec "rest_rest".toList 3 = .error .valueError := by decide
example : parseSplitSpec "5#".toList 3 = .error .valueError := by decide
example : distribute [1, 0, 2] ['a', 'b', 'c'] = [['a'], [], ['b', 'c']] := by decide

end TT.Props.C17
