/-
  C01 (more) — layout independence of the readers: whitespace-separated export fields, export header lines,
  the order of the <nt> elements of TIGER-XML, whitespace in the bracket formats.
-/
import TT.Spec.Formats
import TT.IO.Read
import TT.Lemmas.Read
import TT.Lemmas.Layout
import TT.Lemmas.Collapse
namespace TT.Props.C01More
open TT TT.Spec
open TT.Lemmas.Read TT.Lemmas.Layout

/-! ### EXPORT: a node line is read through its whitespace-separated fields only -/

/-- stronger form: the whole result (error included) depends on the first six fields only (export 4 layout) -/
theorem exportParseLine_fields_eq (o : InOpts) (l l' : Str) (h : (splitWs l).take 6 = (splitWs l').take 6)
    (h4 : ((splitWs l)[4]?.map pyIsDigit) = some false) : exportParseLine o l = exportParseLine o l' := by
  rw [exportParseLine_eq, exportParseLine_eq]
  exact parseFs_congr6 o _ _ h h4

/-- stronger form: the whole result (error included) depends on the first five fields only (export 3 layout) -/
theorem exportParseLine_fields_v3_eq (o : InOpts) (l l' : Str) (h : (splitWs l).take 5 = (splitWs l').take 5)
    (h4 : ((splitWs l)[4]?.map pyIsDigit) = some true) : exportParseLine o l = exportParseLine o l' := by
  rw [exportParseLine_eq, exportParseLine_eq]
  exact parseFs_congr5 o _ _ h h4

-- EXPORT: a node line is read through its whitespace-separated fields only; columns after the parent number are ignored
theorem exportParseLine_fields (o : InOpts) (l l' : Str) (h : (splitWs l).take 6 = (splitWs l').take 6)
    (h4 : ((splitWs l)[4]?.map pyIsDigit) = some false) :      -- export 4 layout (six fields needed)
    (exportParseLine o l).map (fun f => (f.word, f.lemma, f.label, f.morph, f.edge, f.parent)) =
    (exportParseLine o l').map (fun f => (f.word, f.lemma, f.label, f.morph, f.edge, f.parent)) := by
  rw [exportParseLine_fields_eq o l l' h h4]

/-- tabs, several blanks, secondary edges and a comment after the parent number -/
example : (splitWs "Haus Haus NN Nom.Sg OA 501 503 SB %% c".toList).take 6 = (splitWs "Haus \t Haus\tNN  Nom.Sg   OA 501".toList).take 6 ∧
    ((splitWs "Haus Haus NN Nom.Sg OA 501 503 SB %% c".toList)[4]?.map pyIsDigit) = some false := by decide

theorem exportParseLine_fields_v3 (o : InOpts) (l l' : Str) (h : (splitWs l).take 5 = (splitWs l').take 5)
    (h4 : ((splitWs l)[4]?.map pyIsDigit) = some true) :       -- export 3 layout
    (exportParseLine o l).map (fun f => (f.word, f.lemma, f.label, f.morph, f.edge, f.parent)) =
    (exportParseLine o l').map (fun f => (f.word, f.lemma, f.label, f.morph, f.edge, f.parent)) := by
  rw [exportParseLine_fields_v3_eq o l l' h h4]

example : (splitWs "Haus NN Nom.Sg OA 501 SB 502 %% c".toList).take 5 = (splitWs " Haus\tNN\t\tNom.Sg OA  501 ".toList).take 5 ∧
    ((splitWs "Haus NN Nom.Sg OA 501 SB 502 %% c".toList)[4]?.map pyIsDigit) = some true := by decide

/-- lines before the first #BOS (headers, comments) are ignored -/
theorem exportLoop_header (o : InOpts) (hdr rest : List Str) (tc : Nat) (acc : List (Nat × Tree))
    (h : ∀ l ∈ hdr, "#BOS".toList.isPrefixOf ((l.dropWhile pyIsSpace).reverse.dropWhile pyIsSpace |>.reverse) = false) :
    exportLoop o (hdr ++ rest) none tc acc = exportLoop o rest none tc acc :=
  exportLoop_skip o hdr rest tc acc h

example : ∀ l ∈ ["%% corpus".toList, "#FORMAT 4".toList, "#BOT ORIGIN".toList, "  ".toList, "#EOT ORIGIN".toList],
    "#BOS".toList.isPrefixOf ((l.dropWhile pyIsSpace).reverse.dropWhile pyIsSpace |>.reverse) = false := by decide

/-- the same for the whole reader: header lines in front of the text -/
theorem readExport_header (o : InOpts) (hdr : Str) (text : Str)
    (h : ∀ l ∈ splitOnChar '\n' hdr, "#BOS".toList.isPrefixOf ((l.dropWhile pyIsSpace).reverse.dropWhile pyIsSpace |>.reverse) = false) :
    readExport o (hdr ++ '\n' :: text) = readExport o text := by
  unfold readExport
  rw [TT.Lemmas.Collapse.splitOnChar_append_sep]
  exact exportLoop_skip o _ _ _ _ h

example : ∀ l ∈ splitOnChar '\n' "%% corpus\n#FORMAT 4\n#BOT ORIGIN\n#EOT ORIGIN".toList,
    "#BOS".toList.isPrefixOf ((l.dropWhile pyIsSpace).reverse.dropWhile pyIsSpace |>.reverse) = false := by decide

/-! ### TIGER-XML: the order of the <nt> elements does not matter -/

/-- stronger form: the results (errors included) are equal -/
theorem tigerSentence_perm_nts_eq (o : InOpts) (s : XSent) (nts' : List XNt) (hp : nts'.Perm s.nts)
    (hid : (s.terms.map (·.id) ++ s.nts.map (·.id)).Nodup) :
    tigerSentence o { s with nts := nts' } = tigerSentence o s :=
  tigerSentence_perm o s nts' hp hid

-- TIGER-XML: the order of the <nt> elements does not matter (the reader links by idref)
theorem tigerSentence_perm_nts (o : InOpts) (s : XSent) (nts' : List XNt) (hp : nts'.Perm s.nts)
    (hid : (s.terms.map (·.id) ++ s.nts.map (·.id)).Nodup) :
    (tigerSentence o s).toOption.isSome = (tigerSentence o { s with nts := nts' }).toOption.isSome ∧
    ∀ a b, tigerSentence o s = .ok a → tigerSentence o { s with nts := nts' } = .ok b → sameTree a b = true := by
  rw [tigerSentence_perm o s nts' hp hid]
  refine ⟨rfl, ?_⟩
  intro a b ha hb
  rw [ha] at hb
  cases hb
  exact sameTree_refl a

/-- the whole file reader does not depend on the order of the <nt> elements either: `p s` is the reordered list of sentence `s` -/
theorem readTiger_perm_nts (o : InOpts) (ss : List XSent) (p : XSent → List XNt)
    (h : ∀ s ∈ ss, (p s).Perm s.nts ∧ (s.terms.map (·.id) ++ s.nts.map (·.id)).Nodup) :
    readTiger o (ss.map fun s => { s with nts := p s }) = readTiger o ss := by
  have key : ∀ (ss : List XSent), (∀ s ∈ ss, (p s).Perm s.nts ∧ (s.terms.map (·.id) ++ s.nts.map (·.id)).Nodup) →
      ∀ (k : Nat) (acc : List (Nat × Tree)),
      ((ss.map fun s => { s with nts := p s }).zipIdx k).foldlM (fun (acc : List (Nat × Tree)) (s, i) =>
        match lastNumber s.id with
        | none => (.error .indexError : Except Err _)
        | some n =>
          match tigerSentence o s with
          | .ok t => .ok (acc ++ [(if o.continuous then i + 1 else n, t)])
          | .error .valueError => .ok acc
          | .error e => .error e) acc =
      (ss.zipIdx k).foldlM (fun (acc : List (Nat × Tree)) (s, i) =>
        match lastNumber s.id with
        | none => (.error .indexError : Except Err _)
        | some n =>
          match tigerSentence o s with
          | .ok t => .ok (acc ++ [(if o.continuous then i + 1 else n, t)])
          | .error .valueError => .ok acc
          | .error e => .error e) acc := by
    intro ss
    induction ss with
    | nil => intro _ k acc; rfl
    | cons s ss ih =>
      intro h k acc
      have e := tigerSentence_perm o s (p s) (h s (by simp)).1 (h s (by simp)).2
      have ih' := ih (fun s' hs' => h s' (by simp [hs']))
      simp only [List.map_cons, List.zipIdx_cons, List.foldlM_cons, e]
      cases lastNumber s.id with
      | none => rfl
      | some n =>
        simp only
        cases tigerSentence o s with
        | ok t => exact ih' _ _
        | error er => cases er <;> first | rfl | exact ih' _ _
  exact key ss h 0 []

private def t1 : XTerm := XTerm.mk "s1_1".toList (some "a".toList) (some "X".toList) none none
private def t2 : XTerm := XTerm.mk "s1_2".toList (some "b".toList) (some "Y".toList) none none
private def n1 : XNt := XNt.mk "s1_500".toList (some "S".toList) [(some "HD".toList, "s1_501".toList), (none, "s1_2".toList)]
private def n2 : XNt := XNt.mk "s1_501".toList (some "A".toList) [(none, "s1_1".toList)]
private def s1 : XSent := XSent.mk "s1".toList [t1, t2] [n1, n2]

example : [n2, n1].Perm s1.nts ∧ (s1.terms.map (·.id) ++ s1.nts.map (·.id)).Nodup ∧
    (tigerSentence {} s1).toOption.isSome = true :=
  ⟨List.Perm.swap n1 n2 [], by decide, by decide⟩

/-! ### BRACKETS: whitespace is insignificant everywhere except between a label and a word -/

set_option linter.unusedVariables false in   -- `pre` and `hd` belong to the given statement; they are not needed
/-- the token stream with every whitespace token removed except those that directly follow a TOKEN which directly follows "(" -/
theorem brLoop_ws_irrelevant (o : InOpts) (fuel : Nat) (st : BrState) (w : Str) (pre post : List (Str × LexClass))
    (h : st.state ≠ 2) (hd : o.disco = false) :
    -- a whitespace token met in any state other than 2 can be dropped
    brLoop o (fuel + 1) st ((w, .ws) :: post) = brLoop o fuel st post := by
  simp [brLoop, step_ws_other o st w h]

example : (⟨5, 1, [{}], 1, 1, []⟩ : BrState).state ≠ 2 := by decide

/-- the same inside the stream (this is what `pre` is for): a whitespace token met in a state other than 2 — the state the
    automaton reaches through `pre` — can be dropped; the fuel must cover `pre` -/
theorem brLoop_ws_irrelevant_at (o : InOpts) (fuel : Nat) (st : BrState) (w : Str) (pre post : List (Str × LexClass))
    (hf : pre.length ≤ fuel) (h : ∀ st', brAfter o st pre = .ok st' → st'.state ≠ 2) (hd : o.disco = false) :
    brLoop o (fuel + 1) st (pre ++ (w, .ws) :: post) = brLoop o fuel st (pre ++ post) :=
  brLoop_ws_insert o hd w post pre fuel st hf h

/-- fuel-free form -/
theorem brRun_ws_irrelevant_at (o : InOpts) (st : BrState) (w : Str) (pre post : List (Str × LexClass))
    (h : ∀ st', brAfter o st pre = .ok st' → st'.state ≠ 2) :
    brRun o st (pre ++ (w, .ws) :: post) = brRun o st (pre ++ post) :=
  brRun_ws_insert o st w pre post h

/-- COROLLARY for the reader: a run of whitespace `w` inserted into the text between `a` and `b`, at a position that is not inside
    a token (the text starts there, or a parenthesis or whitespace precedes, or a parenthesis or whitespace follows), does not
    change the result — except that with `emptyPos` a ")" directly after a label (automaton in state 2) must stay there.
    `lexFlushed a` are the tokens of `a`, the pending one included. -/
theorem readBrackets_ws_insert (o : InOpts) (hd : o.disco = false) (a w b : Str) (hw : ∀ c ∈ w, pyIsSpace c = true)
    (hpos : a = [] ∨ (∃ c, a.getLast? = some c ∧ isTokC c = false) ∨ (∃ c, b.head? = some c ∧ isTokC c = false))
    (hst : o.emptyPos = true → b.head? = some ')' →
      ∀ st', brAfter o { cnt := o.firstId.getD 1 } (lexFlushed a) = .ok st' → st'.state ≠ 2) :
    readBrackets o (a ++ w ++ b) = readBrackets o (a ++ b) := by
  rw [readBrackets_eq_run o hd, readBrackets_eq_run o hd, List.append_assoc]
  have notTok : ∀ c, isTokC c = false → c = '(' ∨ c = ')' ∨ pyIsSpace c = true := by
    intro c hc
    rcases char_cases c with h | h | h | h
    · exact .inl h
    · exact .inr (.inl h)
    · exact .inr (.inr h)
    · rw [hc] at h; cases h
  rcases hpos with rfl | ⟨c, hc, hct⟩ | ⟨c, hc, hct⟩
  · exact run_ws_prefix o _ (by simp) w b hw
  · obtain ⟨a0, rfl⟩ := List.getLast?_eq_some_iff.1 hc
    simp only [List.append_assoc, List.singleton_append]
    rcases notTok c hct with rfl | rfl | hsp
    · exact run_insert_after_paren o _ a0 w b _ (.inl rfl) hw
    · exact run_insert_after_paren o _ a0 w b _ (.inr rfl) hw
    · exact run_insert_after_ws o _ a0 w b c hsp hw
  · cases b with
    | nil => simp at hc
    | cons c' rest =>
      simp only [List.head?_cons, Option.some.injEq] at hc
      subst hc
      rcases notTok c' hct with rfl | rfl | hsp
      · exact run_insert_before_paren o _ a w rest _ (.inl rfl) hw (fun h => absurd h (by decide))
      · refine run_insert_before_paren o _ a w rest _ (.inr rfl) hw ?_
        intro _
        cases he : o.emptyPos with
        | false => exact .inl rfl
        | true => exact .inr (hst he rfl)
      · exact run_insert_before_ws o _ a w rest c' hsp hw

/-- without empty POS tags: whitespace may be inserted at every position that is not inside a token -/
theorem readBrackets_ws_insert_noEmptyPos (o : InOpts) (hd : o.disco = false) (he : o.emptyPos = false) (a w b : Str)
    (hw : ∀ c ∈ w, pyIsSpace c = true)
    (hpos : a = [] ∨ (∃ c, a.getLast? = some c ∧ isTokC c = false) ∨ (∃ c, b.head? = some c ∧ isTokC c = false)) :
    readBrackets o (a ++ w ++ b) = readBrackets o (a ++ b) :=
  readBrackets_ws_insert o hd a w b hw hpos (fun h => by rw [he] at h; cases h)

/-- in front of "(" and after any parenthesis whitespace is never significant -/
theorem readBrackets_ws_before_lrb (o : InOpts) (hd : o.disco = false) (a w rest : Str) (hw : ∀ c ∈ w, pyIsSpace c = true) :
    readBrackets o (a ++ w ++ '(' :: rest) = readBrackets o (a ++ '(' :: rest) :=
  readBrackets_ws_insert o hd a w _ hw (.inr (.inr ⟨'(', rfl, by decide⟩)) (fun _ h => by simp at h)

theorem readBrackets_ws_after_paren (o : InOpts) (hd : o.disco = false) (a w rest : Str) (d : Char) (hp : d = '(' ∨ d = ')')
    (hw : ∀ c ∈ w, pyIsSpace c = true) :
    readBrackets o (a ++ d :: (w ++ rest)) = readBrackets o (a ++ d :: rest) := by
  rw [readBrackets_eq_run o hd, readBrackets_eq_run o hd]
  exact run_insert_after_paren o _ a w rest d hp hw

/-- a layout with whitespace at every admissible position against the compact one -/
example : (readBrackets {} " ( S\n  (NP (DT the ) ( NN cat) )\t(VP(VBZ sleeps ) ) ) ".toList).toOption.map (·.map (·.1)) =
    (readBrackets {} "(S(NP(DT the)(NN cat))(VP(VBZ sleeps)))".toList).toOption.map (·.map (·.1)) := by decide

/-- the hypothesis of `readBrackets_ws_insert` at work: `a = "(S (A"`, `b = "))"`; without `emptyPos` nothing is asked … -/
example : readBrackets {} ("(S (A".toList ++ " ".toList ++ "))".toList) = readBrackets {} ("(S (A".toList ++ "))".toList) :=
  readBrackets_ws_insert_noEmptyPos {} rfl rfl _ _ _ (by decide) (.inr (.inr ⟨')', rfl, by decide⟩))

/-- … and with `emptyPos` the exception is real (state 2 after the label `A`): "(S (A))" is read, "(S (A ))" is rejected -/
example : (readBrackets { emptyPos := true } "(S (A))".toList).toOption.isSome = true ∧
    (readBrackets { emptyPos := true } "(S (A ))".toList).toOption.isSome = false ∧
    ((brAfter { emptyPos := true } {} (lexFlushed "(S (A".toList)).toOption.map (·.state)) = some 2 := by decide

/-- a way to discharge the state hypothesis by evaluation -/
theorem state_ne_2_of_eval (r : Except Err BrState) (n : Nat) (h : r.toOption.map (·.state) = some n) (hn : n ≠ 2) :
    ∀ st', r = .ok st' → st'.state ≠ 2 := by
  intro st' hr
  subst hr
  simp only [Except.toOption, Option.map_some, Option.some.injEq] at h
  rw [h]; exact hn

/-- with `emptyPos`, in front of the ")" that closes a token with a word (state 4): the hypothesis holds -/
example : readBrackets { emptyPos := true } ("(S (A a".toList ++ " \n".toList ++ ") (B))".toList) =
    readBrackets { emptyPos := true } ("(S (A a".toList ++ ") (B))".toList) :=
  readBrackets_ws_insert { emptyPos := true } rfl _ _ _ (by decide) (.inr (.inr ⟨')', rfl, by decide⟩))
    (fun _ _ => state_ne_2_of_eval _ 4 (by decide) (by decide))

/-- whitespace inside a token is of course significant (the position is excluded by `hpos`) -/
example : (readBrackets {} "(S (A ab))".toList).toOption.isSome = true ∧
    (readBrackets {} "(S (A a b))".toList).toOption.isSome = false := by decide

end TT.Props.C01More
