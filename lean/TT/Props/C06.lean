/-
  C06 — grammar extraction is faithful to the treebank
-/
import TT.Spec.Grammar
import TT.Lemmas.Extract
namespace TT.Props.C06
open TT TT.Tree TT.Spec TT.Lemmas.Extract

/-! ### a concrete discontinuous tree used in the examples: `(S (VP saw/1 up/4 it/3) he/2 (NP it/7 now/6))` -/

/-- the VP has the gap `2` (two blocks `[1]`, `[3,4]`), the root the gap `5` (blocks `[1..4]`, `[6,7]`);
    storage order differs from token order everywhere -/
def exT : Tree :=
  node { label := "S".toList }
    [node { label := "VP".toList }
       [leaf 1 { label := "V".toList, word := some "saw".toList },
        leaf 4 { label := "ADV".toList, word := some "up".toList },
        leaf 3 { label := "N".toList, word := some "it".toList }],
     leaf 2 { label := "N".toList, word := some "he".toList },
     node { label := "NP".toList }
       [leaf 7 { label := "N".toList, word := some "it".toList },
        leaf 6 { label := "ADV".toList, word := some "now".toList }]]

def exF : Func := ["S".toList, "VP".toList, "N".toList, "NP".toList]
def exL : Lin := [[(0, 0), (1, 0), (0, 1)], [(2, 0)]]
/-- a grammar with one entry, count 5 -/
def exG : Grammar := Grammar.add [] exF exL (.ctx ["S2".toList]) 5

example : exT.noEmpty = true ∧ exT.leafNums.Nodup ∧ exT.leafNums ≠ [] := by decide
example : funcOf exT = exF ∧ linOf exT = exL := by decide

/-! ### the nested-dict update adds exactly n to the addressed entry and to nothing else -/

theorem add_gramCount_self (g : Grammar) (f : Func) (l : Lin) (v : VertKey) (n : Nat) :
    gramCount (g.add f l v n) f l v = gramCount g f l v + n := by
  unfold gramCount Grammar.add
  rw [get?_upsert_self]
  simp only [Option.bind_some, get?_upsert_self]
  cases h1 : AList.get? f g with
  | none => simp [get?_nil]
  | some ls =>
    simp only [Option.getD_some, Option.bind_some]
    cases h2 : AList.get? l ls with
    | none => simp [get?_nil]
    | some vs => simp

theorem add_gramCount_other (g : Grammar) (f f' : Func) (l l' : Lin) (v v' : VertKey) (n : Nat)
    (h : (f', l', v') ≠ (f, l, v)) : gramCount (g.add f l v n) f' l' v' = gramCount g f' l' v' := by
  unfold gramCount Grammar.add
  by_cases hf : f' = f
  · subst hf
    rw [get?_upsert_self]
    simp only [Option.bind_some]
    by_cases hl : l' = l
    · subst hl
      have hv : v' ≠ v := by rintro rfl; exact h rfl
      rw [get?_upsert_self]
      simp only [Option.bind_some]
      rw [get?_upsert_other _ _ _ hv]
      cases h1 : AList.get? f' g with
      | none => simp [get?_nil]
      | some ls =>
        simp only [Option.getD_some, Option.bind_some]
        cases h2 : AList.get? l' ls with
        | none => simp [get?_nil]
        | some vs => simp
    · rw [get?_upsert_other _ _ _ hl]
      cases h1 : AList.get? f' g with
      | none => simp [get?_nil]
      | some ls => simp
  · rw [get?_upsert_other _ _ _ hf]

example : gramCount exG exF exL (.ctx ["S2".toList]) = 5 ∧
    gramCount (exG.add exF exL (.ctx ["S2".toList]) 2) exF exL (.ctx ["S2".toList]) = 7 := by decide
example : (exF, exL, VertKey.default) ≠ (exF, exL, VertKey.ctx ["S2".toList]) := by decide
/-- adding to another vertical context of the same rule leaves the entry alone, and creates the new one -/
example : gramCount (exG.add exF exL .default 2) exF exL (.ctx ["S2".toList]) = 5 ∧
    gramCount (exG.add exF exL .default 2) exF exL .default = 2 := by decide

theorem add_total (g : Grammar) (f : Func) (l : Lin) (v : VertKey) (n : Nat) :
    Grammar.total (g.add f l v n) = Grammar.total g + n :=
  grammar_add_total g f l v n

example : Grammar.total exG = 5 ∧ Grammar.total (exG.add exF [] .default 2) = 7 ∧
    Grammar.total (exG.add exF exL (.ctx ["S2".toList]) 2) = 7 := by decide

theorem lex_add_total (x : Lexicon) (w t : Str) (n : Nat) : Lexicon.total (x.add w t n) = Lexicon.total x + n :=
  lexicon_add_total x w t n

/-- `it` seen twice as `N`, once as `PRON` -/
def exX : Lexicon := (Lexicon.add [] "it".toList "N".toList 2).add "it".toList "PRON".toList 1
example : Lexicon.total exX = 3 ∧ Lexicon.total (exX.add "it".toList "N".toList 4) = 7 ∧
    Lexicon.total (exX.add "he".toList "N".toList 4) = 7 := by decide

theorem lex_add_count_self (x : Lexicon) (w t : Str) (n : Nat) : lexCount (x.add w t n) w t = lexCount x w t + n := by
  unfold lexCount Lexicon.add
  rw [get?_upsert_self]
  simp only [Option.bind_some, get?_upsert_self]
  cases h1 : AList.get? w x with
  | none => simp [get?_nil]
  | some ls => simp

theorem lex_add_count_other (x : Lexicon) (w t w' t' : Str) (n : Nat) (h : (w', t') ≠ (w, t)) :
    lexCount (x.add w t n) w' t' = lexCount x w' t' := by
  unfold lexCount Lexicon.add
  by_cases hw : w' = w
  · subst hw
    have ht : t' ≠ t := by rintro rfl; exact h rfl
    rw [get?_upsert_self]
    simp only [Option.bind_some]
    rw [get?_upsert_other _ _ _ ht]
    cases h1 : AList.get? w' x with
    | none => simp [get?_nil]
    | some ls => simp
  · rw [get?_upsert_other _ _ _ hw]

example : lexCount exX "it".toList "N".toList = 2 ∧ lexCount (exX.add "it".toList "N".toList 4) "it".toList "N".toList = 6 := by
  decide
example : ("it".toList, "PRON".toList) ≠ ("it".toList, "N".toList) := by decide
example : lexCount (exX.add "it".toList "N".toList 4) "it".toList "PRON".toList = 1 ∧
    lexCount (exX.add "he".toList "N".toList 4) "it".toList "N".toList = 2 := by decide

/-! ### one rule occurrence per constituent, one lexicon occurrence per token -/

theorem events_rules (ctx : List Str) (t : Tree) (h : t.noEmpty = true) :
    ((events ctx t).filter isRule).length = (t.subtrees.filter fun s => !s.isLeaf).length := by
  rw [← List.countP_eq_length_filter, ← List.countP_eq_length_filter]
  exact events_rules_countP t ctx h

theorem events_lex (ctx : List Str) (t : Tree) (h : t.noEmpty = true) :
    ((events ctx t).filter (fun e => !isRule e)).length = t.leafNums.length := by
  rw [← List.countP_eq_length_filter]
  exact events_lex_countP t ctx h

/-- three constituents, six tokens -/
example : ((events [] exT).filter isRule).length = 3 ∧ (exT.subtrees.filter fun s => !s.isLeaf).length = 3 ∧
    ((events [] exT).filter (fun e => !isRule e)).length = 6 ∧ exT.leafNums.length = 6 := by decide

theorem extract_total (t : Tree) (st : Grammar × Lexicon) (h : t.noEmpty = true) :
    Grammar.total (extract t st).1 = Grammar.total st.1 + (t.subtrees.filter fun s => !s.isLeaf).length ∧
    Lexicon.total (extract t st).2 = Lexicon.total st.2 + t.leafNums.length := by
  obtain ⟨h1, h2⟩ := foldl_applyEvent_total (events [] t) st
  unfold extract
  rw [h1, h2, events_rules_countP t [] h, events_lex_countP t [] h, List.countP_eq_length_filter]
  exact ⟨rfl, rfl⟩

/-- `extractAll` from an arbitrary start state -/
theorem foldl_extract_total (ts : List Tree) (h : ∀ t ∈ ts, t.noEmpty = true) : ∀ st : Grammar × Lexicon,
    Grammar.total (ts.foldl (fun st t => extract t st) st).1 =
      Grammar.total st.1 + (ts.map fun t => (t.subtrees.filter fun s => !s.isLeaf).length).sum ∧
    Lexicon.total (ts.foldl (fun st t => extract t st) st).2 =
      Lexicon.total st.2 + (ts.map fun t => t.leafNums.length).sum := by
  induction ts with
  | nil => intro st; simp
  | cons t ts ih =>
    intro st
    obtain ⟨h1, h2⟩ := ih (fun t' ht' => h t' (List.mem_cons_of_mem _ ht')) (extract t st)
    obtain ⟨h3, h4⟩ := extract_total t st (h t List.mem_cons_self)
    simp only [List.foldl_cons, List.map_cons, List.sum_cons]
    rw [h1, h2, h3, h4]
    omega

theorem extractAll_total (ts : List Tree) (h : ∀ t ∈ ts, t.noEmpty = true) :
    Grammar.total (extractAll ts).1 = (ts.map fun t => (t.subtrees.filter fun s => !s.isLeaf).length).sum ∧
    Lexicon.total (extractAll ts).2 = (ts.map fun t => t.leafNums.length).sum := by
  obtain ⟨h1, h2⟩ := foldl_extract_total ts h ([], [])
  unfold extractAll
  rw [h1, h2]
  simp [Grammar.total, Grammar.entries, Lexicon.total]

example : ∀ t ∈ [exT, exT], t.noEmpty = true := by decide
example : Grammar.total (extractAll [exT, exT]).1 = 6 ∧ Lexicon.total (extractAll [exT, exT]).2 = 12 := by
  obtain ⟨h1, h2⟩ := extractAll_total [exT, exT] (by decide)
  exact ⟨h1.trans (by decide), h2.trans (by decide)⟩
/-- the two occurrences of `it/N` and the S rule with its vertical context `S2` in the extracted tables -/
example : lexCount (extractAll [exT]).2 "it".toList "N".toList = 2 ∧
    gramCount (extractAll [exT]).1 exF exL (.ctx ["S2".toList]) = 1 := by decide

/-! ### the rule of a node -/

theorem funcOf_spec (t : Tree) : funcOf t = t.fields.label :: (children t).map (·.fields.label) := rfl

theorem linOf_length (t : Tree) : (linOf t).length = t.blocks.length :=
  linOfBlocks_length _ _ _

theorem fanOut_head (t : Tree) : (fanOut (linOf t)).head? = some t.blocks.length := by
  simp [fanOut, linOf_length]

example : (children exT).map leftmost = [1, 2, 6] ∧ exT.blocks = [[1, 2, 3, 4], [6, 7]] ∧
    fanOut (linOf exT) = [2, 2, 1, 1] := by decide

/-- context-free iff continuous, for one tree -/
theorem linOf_cf_iff (f : Fields) (ks : List Tree) (h : (node f ks).leafNums ≠ []) :
    (linOf (node f ks)).length ≤ 1 ↔ gapDegreeNode (node f ks) = 0 := by
  rw [linOf_length, TT.Props.C16.gapDegreeNode_zero_iff f ks h]
  have hy := TT.Lemmas.WF.yield_ne_nil _ h
  unfold blocks
  cases hc : yield (node f ks) with
  | nil => exact absurd hc hy
  | cons a l =>
    have := TT.Props.C16.blocksOf_length_pos a l
    omega

/-- the root and the VP are discontinuous, the NP is not -/
example : (linOf exT).length = 2 ∧ gapDegreeNode exT = 1 ∧
    (linOf exT.kids[2]!).length = 1 ∧ gapDegreeNode exT.kids[2]! = 0 := by decide

set_option linter.unusedVariables false in
/-- the heart of C06: instantiating the extracted linearization with the children's blocks gives the node's blocks,
    every block of every child used exactly once and in order.
    (`hne` is not needed: see `TT.Lemmas.Extract.nodeRuleOK_linOf`.) -/
theorem linOf_reconstructs (f : Fields) (ks : List Tree) (hne : (node f ks).noEmpty = true)
    (hn : (node f ks).leafNums.Nodup) : nodeRuleOK (node f ks) (linOf (node f ks)) = true :=
  nodeRuleOK_linOf f ks hn

/-- at the root: `S(x0 y0 x1, z0) <- VP(x0, x1) N(y0) NP(z0)`; at the VP: `VP(x0, y0 z0) <- V(x0) N(y0) ADV(z0)` -/
example : linOf exT = [[(0, 0), (1, 0), (0, 1)], [(2, 0)]] ∧
    linOf exT.kids[0]! = [[(0, 0)], [(1, 0), (2, 0)]] := by decide
example : instLin (linOf exT) ((children exT).map Tree.blocks) = some [[1, 2, 3, 4], [6, 7]] := by decide
example : nodeRuleOK exT (linOf exT) = true :=
  linOf_reconstructs _ _ (by decide) (by decide)
/-- a wrong linearization (blocks of the VP swapped) is rejected -/
example : nodeRuleOK exT [[(0, 1), (1, 0), (0, 0)], [(2, 0)]] = false := by decide

/-- corollary: in a tree with pairwise distinct token numbers every constituent's extracted rule
    reconstructs its blocks (this is the first clause of `extractOK`, rule by rule) -/
theorem linOf_reconstructs_subtrees (t : Tree) (hn : t.leafNums.Nodup) :
    ∀ s ∈ subtrees t, s.isLeaf = false → nodeRuleOK s (linOf s) = true := by
  induction t using TT.Lemmas.WF.tree_ind with
  | hl n f =>
    intro s hs hl
    simp only [subtrees, List.mem_singleton] at hs
    subst hs
    simp [isLeaf] at hl
  | hn f ks ih =>
    intro s hs hl
    rcases (TT.Lemmas.WF.mem_subtrees_node f ks s).1 hs with rfl | ⟨k, hk, hsk⟩
    · exact nodeRuleOK_linOf f ks hn
    · exact ih k hk ((TT.Lemmas.WF.leafNums_sublist_of_mem f ks k hk).nodup hn) s hsk hl

example : (exT.subtrees.filter fun s => !s.isLeaf).all (fun s => nodeRuleOK s (linOf s)) = true := by decide

/-- the fan-out recorded for the LHS is the number of blocks, and each RHS element is used as often as it
    has blocks (second part of `wfLin`), here on the example -/
example : fanOut (linOf exT) = 2 :: (children exT).map (·.blocks.length) := by decide

end TT.Props.C06
