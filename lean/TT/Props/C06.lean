/-
  C06 — grammar extraction is faithful to the treebank
-/
import TT.Spec.Grammar
import TT.Lemmas.Extract
namespace TT.Props.C06
open TT TT.Tree TT.Spec TT.Lemmas.Extract

/-! ### the nested-dict update adds exactly n to the addressed entry and to nothing else -/

theorem add_gramCount_self (g : Grammar) (f : Func) (l : Lin) (v : VertKey) (n : Nat) :
    gramCount (g.add f l v n) f l v = gramCount g f l v + n := by
  unfold gramCount Grammar.add
  rw [get?_upsert_self]
  simp only [Option.bind_some, get?_upsert_self]
  cases h1 : AList.get? f g with
  | none => simp [get?_nil]
  | some ls =>
    simp only [Option.getD_some, Option.bind_some]
    cases h2 : AList.get? l ls with
    | none => simp [get?_nil]
    | some vs => simp

theorem add_gramCount_other (g : Grammar) (f f' : Func) (l l' : Lin) (v v' : VertKey) (n : Nat)
    (h : (f', l', v') ≠ (f, l, v)) : gramCount (g.add f l v n) f' l' v' = gramCount g f' l' v' := by
  unfold gramCount Grammar.add
  by_cases hf : f' = f
  · subst hf
    rw [get?_upsert_self]
    simp only [Option.bind_some]
    by_cases hl : l' = l
    · subst hl
      have hv : v' ≠ v := by rintro rfl; exact h rfl
      rw [get?_upsert_self]
      simp only [Option.bind_some]
      rw [get?_upsert_other _ _ _ hv]
      cases h1 : AList.get? f' g with
      | none => simp [get?_nil]
      | some ls =>
        simp only [Option.getD_some, Option.bind_some]
        cases h2 : AList.get? l' ls with
        | none => simp [get?_nil]
        | some vs => simp
    · rw [get?_upsert_other _ _ _ hl]
      cases h1 : AList.get? f' g with
      | none => simp [get?_nil]
      | some ls => simp
  · rw [get?_upsert_other _ _ _ hf]

theorem add_total (g : Grammar) (f : Func) (l : Lin) (v : VertKey) (n : Nat) :
    Grammar.total (g.add f l v n) = Grammar.total g + n :=
  grammar_add_total g f l v n

theorem lex_add_total (x : Lexicon) (w t : Str) (n : Nat) : Lexicon.total (x.add w t n) = Lexicon.total x + n :=
  lexicon_add_total x w t n

theorem lex_add_count_self (x : Lexicon) (w t : Str) (n : Nat) : lexCount (x.add w t n) w t = lexCount x w t + n := by
  unfold lexCount Lexicon.add
  rw [get?_upsert_self]
  simp only [Option.bind_some, get?_upsert_self]
  cases h1 : AList.get? w x with
  | none => simp [get?_nil]
  | some ls => simp

theorem lex_add_count_other (x : Lexicon) (w t w' t' : Str) (n : Nat) (h : (w', t') ≠ (w, t)) :
    lexCount (x.add w t n) w' t' = lexCount x w' t' := by
  unfold lexCount Lexicon.add
  by_cases hw : w' = w
  · subst hw
    have ht : t' ≠ t := by rintro rfl; exact h rfl
    rw [get?_upsert_self]
    simp only [Option.bind_some]
    rw [get?_upsert_other _ _ _ ht]
    cases h1 : AList.get? w' x with
    | none => simp [get?_nil]
    | some ls => simp
  · rw [get?_upsert_other _ _ _ hw]

/-! ### one rule occurrence per constituent, one lexicon occurrence per token -/

theorem events_rules (ctx : List Str) (t : Tree) (h : t.noEmpty = true) :
    ((events ctx t).filter isRule).length = (t.subtrees.filter fun s => !s.isLeaf).length := by
  rw [← List.countP_eq_length_filter, ← List.countP_eq_length_filter]
  exact events_rules_countP t ctx h

theorem events_lex (ctx : List Str) (t : Tree) (h : t.noEmpty = true) :
    ((events ctx t).filter (fun e => !isRule e)).length = t.leafNums.length := by
  rw [← List.countP_eq_length_filter]
  exact events_lex_countP t ctx h

theorem extract_total (t : Tree) (st : Grammar × Lexicon) (h : t.noEmpty = true) :
    Grammar.total (extract t st).1 = Grammar.total st.1 + (t.subtrees.filter fun s => !s.isLeaf).length ∧
    Lexicon.total (extract t st).2 = Lexicon.total st.2 + t.leafNums.length := by
  obtain ⟨h1, h2⟩ := foldl_applyEvent_total (events [] t) st
  unfold extract
  rw [h1, h2, events_rules_countP t [] h, events_lex_countP t [] h, List.countP_eq_length_filter]
  exact ⟨rfl, rfl⟩

/-- `extractAll` from an arbitrary start state -/
theorem foldl_extract_total (ts : List Tree) (h : ∀ t ∈ ts, t.noEmpty = true) : ∀ st : Grammar × Lexicon,
    Grammar.total (ts.foldl (fun st t => extract t st) st).1 =
      Grammar.total st.1 + (ts.map fun t => (t.subtrees.filter fun s => !s.isLeaf).length).sum ∧
    Lexicon.total (ts.foldl (fun st t => extract t st) st).2 =
      Lexicon.total st.2 + (ts.map fun t => t.leafNums.length).sum := by
  induction ts with
  | nil => intro st; simp
  | cons t ts ih =>
    intro st
    obtain ⟨h1, h2⟩ := ih (fun t' ht' => h t' (List.mem_cons_of_mem _ ht')) (extract t st)
    obtain ⟨h3, h4⟩ := extract_total t st (h t List.mem_cons_self)
    simp only [List.foldl_cons, List.map_cons, List.sum_cons]
    rw [h1, h2, h3, h4]
    omega

theorem extractAll_total (ts : List Tree) (h : ∀ t ∈ ts, t.noEmpty = true) :
    Grammar.total (extractAll ts).1 = (ts.map fun t => (t.subtrees.filter fun s => !s.isLeaf).length).sum ∧
    Lexicon.total (extractAll ts).2 = (ts.map fun t => t.leafNums.length).sum := by
  obtain ⟨h1, h2⟩ := foldl_extract_total ts h ([], [])
  unfold extractAll
  rw [h1, h2]
  simp [Grammar.total, Grammar.entries, Lexicon.total]

/-! ### the rule of a node -/

theorem funcOf_spec (t : Tree) : funcOf t = t.fields.label :: (children t).map (·.fields.label) := rfl

theorem linOf_length (t : Tree) : (linOf t).length = t.blocks.length :=
  linOfBlocks_length _ _ _

theorem fanOut_head (t : Tree) : (fanOut (linOf t)).head? = some t.blocks.length := by
  simp [fanOut, linOf_length]

/-- context-free iff continuous, for one tree -/
theorem linOf_cf_iff (f : Fields) (ks : List Tree) (h : (node f ks).leafNums ≠ []) :
    (linOf (node f ks)).length ≤ 1 ↔ gapDegreeNode (node f ks) = 0 := by
  rw [linOf_length, TT.Props.C16.gapDegreeNode_zero_iff f ks h]
  have hy := TT.Lemmas.WF.yield_ne_nil _ h
  unfold blocks
  cases hc : yield (node f ks) with
  | nil => exact absurd hc hy
  | cons a l =>
    have := TT.Props.C16.blocksOf_length_pos a l
    omega

end TT.Props.C06
