/-
  C06 — grammar extraction is faithful to the treebank (theorems being added)
-/
import TT.Spec.Grammar
namespace TT.Props.C06
open TT TT.Tree TT.Spec

end TT.Props.C06
