/-
  C18 clause 6 for binarized grammar types (audit D, C18 "still missing" 1), wave 19.

  * Markovized binarization (`--markov`: the new labels are functions of the rule and its vertical context, the label
    generator has no state): the binarized grammar of a concatenated treebank has, for EVERY key, the sum of the counts of
    the two separately binarized grammars - `binarize_markov_append` (grammars), `runGrammarFrom_markov_append` (command,
    every grammar type, with the lexicon).
  * deterministic labels (no `--markov`: `@1X`, `@2X`, … numbered through the whole run): the sum law is FALSE
    (`binarize_none_append_false`: the second treebank's chain labels are numbered after the first one's, `@3X` instead
    of `@1X`); it can only hold modulo a renaming of the generated labels (not stated here).
-/
import TT.Props.C07Exact
import TT.Props.C07Exact2
import TT.Props.C10Run
import TT.Props.C18Local
import TT.Lemmas.Sum19
import TT.Props.C06
namespace TT.Props.C18Sum
open TT TT.Tree TT.Spec TT.Lemmas.Sum19 TT.Props.C07Exact

/-- what one entry `(f, l, v)` of the source grammar contributes, per unit of its count, to the entry `(F, L)` of the
    Markovized grammar -/
def contrib (r : Reordering) (o : MarkovOpts) (F : Func) (L : Lin) (f : Func) (l : Lin) (v : VertKey) : Nat :=
  (expectedAdds (some o) {} (reorder r f l).1 (reorder r f l).2 (vertOf o v)).count (F, L)

theorem binarize_markov_wsum (r : Reordering) (o : MarkovOpts) (g : Grammar) (F : Func) (L : Lin) :
    gramCount (binarizeGrammar r (some o) g) F L .default = wsum (contrib r o F L) g := by
  rw [binarizeGrammar_gramCount_markov, wsum_eq_entries]
  rfl

/-- SUM LAW, Markovized binarization: per key of the binarized grammar, the count for the concatenated treebank is the
    sum of the counts of the two separately binarized grammars (any reordering, any Markov options) -/
theorem binarize_markov_append (r : Reordering) (o : MarkovOpts) (ts us : List Tree) (F : Func) (L : Lin) (v : VertKey) :
    gramCount (binarizeGrammar r (some o) (extractAll (ts ++ us)).1) F L v =
      gramCount (binarizeGrammar r (some o) (extractAll ts).1) F L v +
        gramCount (binarizeGrammar r (some o) (extractAll us).1) F L v := by
  cases v with
  | default => simp only [binarize_markov_wsum, wsum_extractAll_append]
  | ctx v => simp only [binarizeGrammar_gramCount_ctx]

/-- … at command level: `treetools grammar` with `--markov` on the concatenation of two treebanks, every grammar type:
    rule counts and lexicon counts are the sums -/
theorem runGrammarFrom_markov_append (gt : GramType) (o : MarkovOpts) (a b : List (Nat × Tree)) :
    ∃ gab ga gb, runGrammarFrom gt (some o) (.ok (a ++ b)) = .ok gab ∧ runGrammarFrom gt (some o) (.ok a) = .ok ga ∧
      runGrammarFrom gt (some o) (.ok b) = .ok gb ∧
      (∀ f l v, gramCount gab.1 f l v = gramCount ga.1 f l v + gramCount gb.1 f l v) ∧
      (∀ w t, lexCount gab.2 w t = lexCount ga.2 w t + lexCount gb.2 w t) := by
  refine ⟨_, _, _, TT.Props.C10Run.runGrammarFrom_ok gt _ _, TT.Props.C10Run.runGrammarFrom_ok gt _ _,
    TT.Props.C10Run.runGrammarFrom_ok gt _ _, ?_, ?_⟩
  · intro f l v
    rw [List.map_append]
    cases gt with
    | treebank => exact TT.Props.C18.extract_append_counts _ _ f l v
    | leftright => exact binarize_markov_append .leftright o _ _ f l v
    | optimal => exact binarize_markov_append .optimal o _ _ f l v
  · intro w t
    rw [List.map_append]
    exact TT.Props.C18.extract_append_lex _ _ w t

/-! ### concrete instances -/

/-- a second treebank sentence: one rule of rank 3 -/
def tB : Tree :=
  node { label := "X".toList }
    [leaf 1 { label := "A".toList, word := some "a".toList },
     leaf 2 { label := "B".toList, word := some "b".toList },
     leaf 3 { label := "C".toList, word := some "c".toList }]

def exO : MarkovOpts := ⟨1, 1, false⟩
def exFm : Func := ["X".toList, "A".toList, "@^X1-A1X".toList]
def exFn : Func := ["X".toList, "A".toList, "@1X".toList]
def exLm : Lin := [[(0, 0), (1, 0)]]

/-- non-vacuous: two treebanks that share the rank-3 rule `X → A B C`; its first chain rule `X → A @^X1-A1X` has count
    1 in the first, 2 in the second and 3 in the binarized grammar of the concatenation -/
example :
    gramCount (binarizeGrammar .leftright (some exO) (extractAll [C06.exT, tB]).1) exFm exLm .default = 1 ∧
    gramCount (binarizeGrammar .leftright (some exO) (extractAll [tB, C06.exT, tB]).1) exFm exLm .default = 2 ∧
    gramCount (binarizeGrammar .leftright (some exO) (extractAll ([C06.exT, tB] ++ [tB, C06.exT, tB])).1) exFm exLm .default = 3 := by
  decide +kernel

example : ∃ gab ga gb, runGrammarFrom .optimal (some exO) (.ok ([(1, C06.exT), (2, tB)] ++ [(1, tB)])) = .ok gab ∧
    runGrammarFrom .optimal (some exO) (.ok [(1, C06.exT), (2, tB)]) = .ok ga ∧
    runGrammarFrom .optimal (some exO) (.ok [(1, tB)]) = .ok gb ∧
    (∀ f l v, gramCount gab.1 f l v = gramCount ga.1 f l v + gramCount gb.1 f l v) ∧
    (∀ w t, lexCount gab.2 w t = lexCount ga.2 w t + lexCount gb.2 w t) :=
  runGrammarFrom_markov_append _ _ _ _

/-- COUNTEREXAMPLE to the sum law with the deterministic label generator (no `--markov`): alone, the treebank `[tB]`
    gives `X → A @1X` with count 1; after `[exT]` (whose two rank-3 rules take `@1X`, `@2X`) the same rule is
    `X → A @3X`, and `X → A @1X` has count 0, not 0 + 1 -/
theorem binarize_none_append_false :
    ¬ ∀ (r : Reordering) (ts us : List Tree) (F : Func) (L : Lin) (v : VertKey),
      gramCount (binarizeGrammar r none (extractAll (ts ++ us)).1) F L v =
        gramCount (binarizeGrammar r none (extractAll ts).1) F L v +
          gramCount (binarizeGrammar r none (extractAll us).1) F L v := by
  intro h
  have := h .leftright [C06.exT] [tB] exFn exLm .default
  revert this
  decide +kernel

/-- the three numbers of the counterexample -/
example :
    gramCount (binarizeGrammar .leftright none (extractAll ([C06.exT] ++ [tB])).1) exFn exLm .default = 0 ∧
    gramCount (binarizeGrammar .leftright none (extractAll [C06.exT]).1) exFn exLm .default = 0 ∧
    gramCount (binarizeGrammar .leftright none (extractAll [tB]).1) exFn exLm .default = 1 ∧
    gramCount (binarizeGrammar .leftright none (extractAll ([C06.exT] ++ [tB])).1)
      ["X".toList, "A".toList, "@3X".toList] exLm .default = 1 := by
  decide +kernel

end TT.Props.C18Sum

#print axioms TT.Props.C18Sum.binarize_markov_append
#print axioms TT.Props.C18Sum.runGrammarFrom_markov_append
#print axioms TT.Props.C18Sum.binarize_none_append_false
#print axioms TT.Lemmas.Sum19.wsum_extractAll_append
