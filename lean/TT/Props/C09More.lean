/-
  C09, continued — LoPar's open-class files `.oc` / `.OC`: per tag, the lexicon mass over the words whose first character
  is / is not upper case.  Helpers: `TT/Lemmas/More7.lean`.  See the note at the end for what had to change with respect
  to the brief.
-/
import TT.Props.C09
import TT.Lemmas.More7
namespace TT.Props.C09More
open TT TT.Spec TT.Lemmas.GramOut TT.Lemmas.More7

/-- the mass of tag `t` over the words of one class (`up = true`: first character upper case) -/
def classMass (up : Bool) (lex : Lexicon) (t : Str) : Nat :=
  ((lex.filter fun (w, _) => (w.head?.map pyIsUpperChar).getD false == up).map
    fun (_, tags) => ((tags.filter (·.1 == t)).map (·.2)).sum).sum

/-- does tag `t` occur with a word of the class at all (possibly with count 0) -/
def classHas (up : Bool) (lex : Lexicon) (t : Str) : Bool :=
  lex.any fun (w, tags) => (w.head?.map pyIsUpperChar).getD false == up && tags.any (·.1 == t)

/-- the two dictionaries before they are rendered: `(ocl, ocu)` of `grammaroutput.lopar` -/
def ocDicts (lex : Lexicon) : AList Str Nat × AList Str Nat := lex.foldl ocStep ([], [])

theorem ocDicts_eq (lex : Lexicon) :
    ocDicts lex = (bumpAll (classPairs false lex) [], bumpAll (classPairs true lex) []) := foldl_ocStep lex [] []

/-- the files are the rendered dictionaries -/
theorem lopar_oc_files (g : Grammar) (lex : Lexicon) (files : LoparFiles) (h : writeLopar g lex = .ok files) :
    files.oc = (ocDicts lex).1.map (fun (t, c) => t ++ sp ++ natToStr c) ∧
    files.ocU = (ocDicts lex).2.map (fun (t, c) => t ++ sp ++ natToStr c) :=
  writeLopar_oc g lex files h

theorem classMass_eq (up : Bool) (lex : Lexicon) (t : Str) :
    classMass up lex t = ((lex.filter fun e => isUpperWord e.1 == up).map
      fun e => ((e.2.filter (·.1 == t)).map (·.2)).sum).sum := rfl

theorem classHas_eq (up : Bool) (lex : Lexicon) (t : Str) :
    classHas up lex t = lex.any fun e => isUpperWord e.1 == up && e.2.any (·.1 == t) := rfl

theorem lookup_class (up : Bool) (lex : Lexicon) (t : Str) :
    (bumpAll (classPairs up lex) []).lookup t = if classHas up lex t then some (classMass up lex t) else none := by
  rw [lookup_eq_get?, option_eq_ite (AList.get? t _), get?_bumpAll_isSome, get?_bumpAll_getD]
  simp only [get?_nil, Option.isSome_none, Bool.false_or, Option.getD_none, Nat.zero_add]
  unfold classPairs
  rw [sum_filter_flatMap, any_flatMap_tags, List.any_filter, classMass_eq, classHas_eq]

/-- the keys of the dictionaries are tags of the lexicon -/
theorem mem_class_key (up : Bool) (lex : Lexicon) (p : Str × Nat) (hp : p ∈ bumpAll (classPairs up lex) []) :
    ∃ e ∈ lex, ∃ tc ∈ e.2, tc.1 = p.1 := by
  rcases mem_bumpAll_key _ _ p hp with h | h
  · obtain ⟨tc, htc, he⟩ := List.mem_map.1 h
    unfold classPairs at htc
    obtain ⟨e, he1, he2⟩ := List.mem_flatMap.1 htc
    exact ⟨e, (List.mem_filter.1 he1).1, tc, he2, he⟩
  · simp at h

/-- rendering and decoding a dictionary whose tags are non-empty and free of whitespace gives the dictionary back -/
theorem decCountLines_render (l : AList Str Nat) (h : ∀ p ∈ l, p.1 ≠ [] ∧ ∀ c ∈ p.1, pyIsSpace c = false) :
    decCountLines (l.map fun (t, c) => t ++ sp ++ natToStr c) = some l :=
  decCountLines_countLine l h

/-- LoPar's open-class files, decidable form: a tag is listed in `.OC` iff it occurs with a word whose FIRST character is
    upper case, and then with its lexicon mass over these words; in `.oc` the same over the other words.
    Needed: tags are non-empty and contain no whitespace (otherwise the files do not decode, see `cex_tag_space`). -/
theorem lopar_oc_dec (g : Grammar) (lex : Lexicon) (files : LoparFiles) (h : writeLopar g lex = .ok files)
    (htags : ∀ e ∈ lex, ∀ tc ∈ e.2, tc.1 ≠ [] ∧ ∀ c ∈ tc.1, pyIsSpace c = false) (t : Str) :
    ((decCountLines files.ocU).getD []).lookup t = (if classHas true lex t then some (classMass true lex t) else none) ∧
    ((decCountLines files.oc).getD []).lookup t = (if classHas false lex t then some (classMass false lex t) else none) := by
  obtain ⟨h1, h2⟩ := writeLopar_oc g lex files h
  have hd := foldl_ocStep lex [] []
  rw [hd] at h1 h2
  have hok : ∀ up, ∀ p ∈ bumpAll (classPairs up lex) [], OKw p.1 := by
    intro up p hp
    obtain ⟨e, he, tc, htc, hx⟩ := mem_class_key up lex p hp
    rw [← hx]; exact htags e he tc htc
  rw [h1, h2, decCountLines_countLine _ (hok false), decCountLines_countLine _ (hok true)]
  exact ⟨lookup_class true lex t, lookup_class false lex t⟩

theorem classHas_iff (up : Bool) (lex : Lexicon) (t : Str) :
    classHas up lex t = true ↔
      ∃ w tags, (w, tags) ∈ lex ∧ (w.head?.map pyIsUpperChar).getD false = up ∧ t ∈ tags.map (·.1) := by
  rw [classHas_eq]
  simp only [List.any_eq_true, Bool.and_eq_true, beq_iff_eq, List.mem_map]
  constructor
  · rintro ⟨⟨w, tags⟩, he, hu, tc, htc, ht⟩
    exact ⟨w, tags, he, hu, tc, htc, ht⟩
  · rintro ⟨w, tags, he, hu, tc, htc, ht⟩
    exact ⟨(w, tags), he, hu, tc, htc, ht⟩

/-- a tag that does not occur in the class has mass 0 there -/
theorem classMass_of_not_has (up : Bool) (lex : Lexicon) (t : Str) (h : classHas up lex t = false) :
    classMass up lex t = 0 := by
  rw [classMass_eq]
  apply sum_eq_zero
  intro x hx
  obtain ⟨e, he, rfl⟩ := List.mem_map.1 hx
  rw [classHas_eq, List.any_eq_false] at h
  have h' := h e (List.mem_filter.1 he).1
  have hu := (List.mem_filter.1 he).2
  simp only [hu, Bool.true_and, Bool.not_eq_true, List.any_eq_false, beq_iff_eq] at h'
  have : e.2.filter (·.1 == t) = [] := by
    rw [List.filter_eq_nil_iff]
    intro tc htc
    simpa using h' tc htc
  rw [this]; rfl

theorem classMass_true (lex : Lexicon) (t : Str) :
    classMass true lex t =
      ((lex.filter fun (w, _) => (w.head?.map pyIsUpperChar).getD false).map
        fun (_, tags) => ((tags.filter (·.1 == t)).map (·.2)).sum).sum := by
  unfold classMass
  congr 2
  apply List.filter_congr
  intro e _
  simp

theorem classMass_false (lex : Lexicon) (t : Str) :
    classMass false lex t =
      ((lex.filter fun (w, _) => !(w.head?.map pyIsUpperChar).getD false).map
        fun (_, tags) => ((tags.filter (·.1 == t)).map (·.2)).sum).sum := by
  unfold classMass
  congr 2
  apply List.filter_congr
  rintro ⟨w, tags⟩ _
  show ((w.head?.map pyIsUpperChar).getD false == false) = !(w.head?.map pyIsUpperChar).getD false
  cases (w.head?.map pyIsUpperChar).getD false <;> rfl

theorem ite_form (n : Nat) (b : Bool) (P : Prop) [Decidable (n = 0 ∧ ¬ P)] (hb : b = true ↔ P) (h0 : b = false → n = 0) :
    (if b then some n else none) = (if n = 0 ∧ ¬ P then none else some n) := by
  cases b with
  | true =>
    have hP : P := hb.1 rfl
    rw [if_pos rfl, if_neg (fun h => h.2 hP)]
  | false =>
    have hP : ¬ P := fun hp => by simpa using hb.2 hp
    rw [if_neg (by simp), if_pos ⟨h0 rfl, hP⟩]

set_option linter.unusedVariables false in
open Classical in
/-- LoPar's open-class files: a tag's count in `.OC` is its lexicon mass over the words whose FIRST character is upper case, in `.oc` over the others.
    The text of the brief, with the hypothesis `htags` added (and `hk` not needed). -/
theorem lopar_oc (g : Grammar) (lex : Lexicon) (files : LoparFiles) (h : writeLopar g lex = .ok files) (hk : (lex.map (·.1)).Nodup)
    (htags : ∀ e ∈ lex, ∀ tc ∈ e.2, tc.1 ≠ [] ∧ ∀ c ∈ tc.1, pyIsSpace c = false) (t : Str) :
    ((decCountLines files.ocU).getD []).lookup t =
      (let n := ((lex.filter fun (w, _) => (w.head?.map pyIsUpperChar).getD false).map fun (_, tags) => ((tags.filter (·.1 == t)).map (·.2)).sum).sum
       if n = 0 ∧ ¬ (∃ w tags, (w, tags) ∈ lex ∧ (w.head?.map pyIsUpperChar).getD false = true ∧ t ∈ tags.map (·.1)) then none else some n) ∧
    ((decCountLines files.oc).getD []).lookup t =
      (let n := ((lex.filter fun (w, _) => !(w.head?.map pyIsUpperChar).getD false).map fun (_, tags) => ((tags.filter (·.1 == t)).map (·.2)).sum).sum
       if n = 0 ∧ ¬ (∃ w tags, (w, tags) ∈ lex ∧ (w.head?.map pyIsUpperChar).getD false = false ∧ t ∈ tags.map (·.1)) then none else some n) := by
  obtain ⟨h1, h2⟩ := lopar_oc_dec g lex files h htags t
  rw [h1, h2]
  simp only
  rw [← classMass_true, ← classMass_false]
  exact ⟨ite_form _ _ _ (classHas_iff true lex t) (classMass_of_not_has true lex t),
    ite_form _ _ _ (classHas_iff false lex t) (classMass_of_not_has false lex t)⟩

/-! ### every word contributes to exactly one of the two files -/

theorem getD_ite (b : Bool) (n : Nat) (h0 : b = false → n = 0) : (if b then some n else none).getD 0 = n := by
  cases b with
  | true => rfl
  | false => exact (h0 rfl).symm

theorem sum_split {α : Type} (p : α → Bool) (f : α → Nat) : ∀ l : List α,
    ((l.filter fun a => p a == false).map f).sum + ((l.filter fun a => p a == true).map f).sum = (l.map f).sum
  | [] => rfl
  | a :: l => by
    have ih := sum_split p f l
    cases hp : p a
    · rw [List.filter_cons_of_pos (by simp [hp]), List.filter_cons_of_neg (by simp [hp])]
      simp only [List.map_cons, List.sum_cons]; omega
    · rw [List.filter_cons_of_neg (by simp [hp]), List.filter_cons_of_pos (by simp [hp])]
      simp only [List.map_cons, List.sum_cons]; omega

/-- the mass of a tag in the two classes together, without any hypothesis: every entry of every word counts -/
theorem classMass_add (lex : Lexicon) (t : Str) :
    classMass false lex t + classMass true lex t = (lex.map fun e => ((e.2.filter (·.1 == t)).map (·.2)).sum).sum := by
  rw [classMass_eq, classMass_eq]
  exact sum_split (fun e => isUpperWord e.1) _ lex

/-- ... which is the tag's lexicon mass when no word lists a tag twice (always so for the dicts of the Python) -/
theorem classMass_total (lex : Lexicon) (hnd : ∀ e ∈ lex, (e.2.map (·.1)).Nodup) (t : Str) :
    classMass false lex t + classMass true lex t = tagMass lex t := by
  rw [classMass_add]
  unfold tagMass
  congr 1
  apply List.map_congr_left
  rintro ⟨w, tags⟩ he
  show _ = (AList.get? t tags).getD 0
  rw [← sum_filter_tags tags t (hnd _ he)]
  congr 2
  apply List.filter_congr
  intro tc _
  by_cases h : tc.1 = t <;> simp [h]

/-- on the dictionaries themselves no hypothesis on the shape of the tags is needed -/
theorem ocDicts_total (lex : Lexicon) (hnd : ∀ e ∈ lex, (e.2.map (·.1)).Nodup) (t : Str) :
    (((ocDicts lex).1.lookup t).getD 0) + (((ocDicts lex).2.lookup t).getD 0) = tagMass lex t := by
  rw [ocDicts_eq]
  simp only [lookup_class]
  rw [getD_ite _ _ (classMass_of_not_has false lex t), getD_ite _ _ (classMass_of_not_has true lex t)]
  exact classMass_total lex hnd t

/-- every word of the lexicon contributes to exactly one of the two files: per tag, oc + OC = the tag's lexicon mass.
    Added with respect to the brief: `hnd` (no word lists a tag twice: `tagMass` reads the first entry only, the writer adds
    up all of them, `cex_tag_twice`) and `htags` (the files must decode, `cex_tag_space`). -/
theorem lopar_oc_total (g : Grammar) (lex : Lexicon) (files : LoparFiles) (h : writeLopar g lex = .ok files)
    (hnd : ∀ e ∈ lex, (e.2.map (·.1)).Nodup)
    (htags : ∀ e ∈ lex, ∀ tc ∈ e.2, tc.1 ≠ [] ∧ ∀ c ∈ tc.1, pyIsSpace c = false) (t : Str) :
    (((decCountLines files.oc).getD []).lookup t).getD 0 + (((decCountLines files.ocU).getD []).lookup t).getD 0 = tagMass lex t := by
  obtain ⟨h1, h2⟩ := lopar_oc_dec g lex files h htags t
  rw [h1, h2, getD_ite _ _ (classMass_of_not_has false lex t), getD_ite _ _ (classMass_of_not_has true lex t)]
  exact classMass_total lex hnd t

/-! ### concrete instances -/

deriving instance DecidableEq for TT.LoparFiles
/-- equality of results is decidable (used by the concrete instances below only) -/
local instance instDecEqExcept {ε α} [DecidableEq ε] [DecidableEq α] : DecidableEq (Except ε α)
  | .ok a, .ok b => decidable_of_iff (a = b) (by simp)
  | .error a, .error b => decidable_of_iff (a = b) (by simp)
  | .ok _, .error _ => isFalse (by simp)
  | .error _, .ok _ => isFalse (by simp)

/-- `Essen` is capitalised, `isst` and `essen` are not; `NN` occurs in both classes, `ÄÖ`'s first character is a Latin-1 capital,
    the empty word counts as lower case -/
def exLex : Lexicon :=
  [("Essen".toList, [("NN".toList, 2), ("NE".toList, 1)]), ("isst".toList, [("VVFIN".toList, 4)]),
   ("essen".toList, [("VVINF".toList, 3), ("NN".toList, 5)]), ("Ärger".toList, [("NN".toList, 7)]), ([], [("X".toList, 1)])]

def exFiles : LoparFiles :=
  { gram := [], lex := lexLines exLex, start := [],
    oc := ["VVFIN 4".toList, "VVINF 3".toList, "NN 5".toList, "X 1".toList],
    ocU := ["NN 9".toList, "NE 1".toList] }

theorem ex_write : writeLopar [] exLex = .ok exFiles := by decide +kernel

example : ∀ e ∈ exLex, (e.2.map (·.1)).Nodup := by decide
example : ∀ e ∈ exLex, ∀ tc ∈ e.2, tc.1 ≠ [] ∧ ∀ c ∈ tc.1, pyIsSpace c = false := by decide
example : classMass true exLex "NN".toList = 9 ∧ classMass false exLex "NN".toList = 5 ∧ tagMass exLex "NN".toList = 14 ∧
    classHas true exLex "VVFIN".toList = false ∧ classHas false exLex "VVFIN".toList = true := by decide
example : ((decCountLines exFiles.ocU).getD []).lookup "NN".toList = some 9 ∧
    ((decCountLines exFiles.oc).getD []).lookup "NN".toList = some 5 :=
  lopar_oc_dec [] exLex exFiles ex_write (by decide) "NN".toList
example : ((decCountLines exFiles.ocU).getD []).lookup "VVFIN".toList = none ∧
    ((decCountLines exFiles.oc).getD []).lookup "VVFIN".toList = some 4 :=
  lopar_oc_dec [] exLex exFiles ex_write (by decide) "VVFIN".toList
example : (((decCountLines exFiles.oc).getD []).lookup "NN".toList).getD 0 +
    (((decCountLines exFiles.ocU).getD []).lookup "NN".toList).getD 0 = tagMass exLex "NN".toList :=
  lopar_oc_total [] exLex exFiles ex_write (by decide) (by decide) "NN".toList

/-- a tag with count 0 is listed (with 0): "listed" and "mass > 0" are different things -/
example : (ocDicts [("a".toList, [("T".toList, 0)])]).1.lookup "T".toList = some 0 := by decide

/-! ### counterexamples to the statements as given in the brief -/

/-- a tag that contains a blank: the line `A B 3` has three fields, the file does not decode, so the decoded count of the tag
    is `none` where `lopar_oc` of the brief claims `some 3` and the total is 0 where `lopar_oc_total` claims 3 -/
def cexSpace : Lexicon := [("a".toList, [("A B".toList, 3)])]
theorem cex_tag_space : ∃ files, writeLopar [] cexSpace = .ok files ∧ (cexSpace.map (·.1)).Nodup ∧
    files.oc = ["A B 3".toList] ∧ decCountLines files.oc = none ∧
    ((decCountLines files.oc).getD []).lookup "A B".toList = none ∧ classMass false cexSpace "A B".toList = 3 ∧
    tagMass cexSpace "A B".toList = 3 :=
  ⟨{ gram := [], lex := lexLines cexSpace, start := [], oc := ["A B 3".toList], ocU := [] }, by decide +kernel⟩

/-- a word that lists a tag twice (impossible for a Python dict): the writer adds both counts, `tagMass` reads the first -/
def cexTwice : Lexicon := [("a".toList, [("T".toList, 1), ("T".toList, 2)])]
theorem cex_tag_twice : ∃ files, writeLopar [] cexTwice = .ok files ∧ files.oc = ["T 3".toList] ∧ files.ocU = [] ∧
    (((decCountLines files.oc).getD []).lookup "T".toList).getD 0 + (((decCountLines files.ocU).getD []).lookup "T".toList).getD 0 = 3 ∧
    tagMass cexTwice "T".toList = 1 :=
  ⟨{ gram := [], lex := lexLines cexTwice, start := [], oc := ["T 3".toList], ocU := [] }, by decide +kernel⟩

/-!
  Summary with respect to the brief.
  * `lopar_oc`: the text of the brief is kept (the `if` on a proposition is decided classically), with ONE hypothesis added:
    `htags` - every tag of the lexicon is non-empty and contains no whitespace character.  Without it the statement is false
    (`cex_tag_space`: the written line has three fields and `decCountLines` rejects the file).  `hk` (words pairwise
    distinct) is not needed and not used.  `lopar_oc_dec` is the same statement with the Boolean tests `classHas` /
    `classMass`; `lopar_oc_files` + `ocDicts_eq` + `lookup_class` describe the dictionaries before rendering, where no
    hypothesis is needed at all; `decCountLines_render` is the rendering lemma.
  * `lopar_oc_total`: two hypotheses added: `htags` as above, and `hnd` - no word lists a tag twice.  Without `hnd` the
    statement is false (`cex_tag_twice`: the writer adds up all entries of a tag, `tagMass` reads the first one only);
    `classMass_add` is the hypothesis-free form (sum over all entries).  `ocDicts_total` is the statement on the
    dictionaries, with `hnd` only.
-/

end TT.Props.C09More
