/-
  C01 (readers, wave 12; wave 14: `gf_split` together with `brackets_emptypos`, defect D22 repaired)
-/
import TT.Lemmas.More14
namespace TT.Props.C01Readers
open TT TT.Tree TT.Spec
open TT.Lemmas.More12h TT.Lemmas.More14 TT.Lemmas.ExportRT TT.Lemmas.WF TT.Lemmas.Read

/-! ## 1. export: the reader equals the independent decoder on every file the decoder accepts -/

/-- the text of a list of lines (every line terminated) -/
def textOf (ls : List Str) : Str := (ls.map (· ++ ['\n'])).flatten

/-- the word slot of a constituent holds "#5xx" in the reader's result and is not content -/
def noConsWord (t : Tree) : Tree :=
  Tree.mapFields (fun s f => match s with | .node _ _ => { f with word := none } | _ => f) t

theorem sameTree_of_nf {r t : Tree} (h : nf r = sortKids t) : sameTree (noConsWord r) t = true := by
  unfold sameTree
  have : sortKids (noConsWord r) = nf r := rfl
  rw [this, h]; exact beq_refl _

/-- the sentence ids the export reader assigns to `k` sentences with `#BOS` numbers `sids`, first sentence counted `cnt` -/
def expIds (o : InOpts) (cnt : Nat) (sids : List Nat) : List Nat := if o.continuous then List.range' cnt sids.length else sids

/-- loop form: sentence blocks one after the other, anything after them -/
theorem exportLoop_blocks (o : InOpts) (hg : o.gfSplit = false) (hr : o.replaceParens = false) (v4 : Bool) :
    ∀ (lss : List (List Str)) (ss : List ExpSentence), lss.mapM (decExport v4) = some ss →
    (∀ ls ∈ lss, ExportBlockOK v4 ls = true) → (∀ s ∈ ss, WF s.tree = true ∧ s.parentsResolve = true) →
    (∀ l ∈ lss.flatten, '\n' ∉ l) ∧
    ∃ rs : List Tree, rs.length = ss.length ∧ (rs.zip ss).all (fun (r, s) => sameTree (noConsWord r) s.tree) = true ∧
      (∀ r ∈ rs, WF r = true) ∧
      ∀ (rest : List Str) (cnt : Nat) (acc : List (Nat × Tree)),
        exportLoop o (lss.flatten ++ rest) none cnt acc =
          exportLoop o rest none (cnt + ss.length) (((expIds o cnt (ss.map (·.sid))).zip rs).reverse ++ acc) := by
  intro lss
  induction lss with
  | nil =>
    intro ss h _ _
    simp only [List.mapM_nil, pure, Option.some.injEq] at h
    subst h
    refine ⟨by simp, [], rfl, rfl, by simp, ?_⟩
    intro rest cnt acc
    simp [expIds]
  | cons ls lss ih =>
    intro ss h hok hwf
    rw [List.mapM_cons] at h
    cases h1 : decExport v4 ls with
    | none => simp [h1] at h
    | some s =>
      cases h2 : lss.mapM (decExport v4) with
      | none => simp [h1, h2] at h
      | some ss' =>
        simp only [h1, h2, Option.bind_eq_bind, Option.bind_some, pure, Option.some.injEq] at h
        subst h
        obtain ⟨hnl1, r, hnf, hloop⟩ := exportLoop_block o hg v4 ls s h1 (hok ls (by simp)) (hwf s (by simp)).1 (hwf s (by simp)).2
        obtain ⟨hnl2, rs, hlen, hall, hwfs, hloops⟩ := ih ss' h2 (fun x hx => hok x (by simp [hx])) (fun x hx => hwf x (by simp [hx]))
        refine ⟨?_, r :: rs, by simp [hlen], ?_, ?_, ?_⟩
        · intro l hl
          rw [List.flatten_cons] at hl
          rcases List.mem_append.1 hl with hl | hl
          · exact hnl1 l hl
          · exact hnl2 l hl
        · simp only [List.zip_cons_cons, List.all_cons, Bool.and_eq_true]
          exact ⟨sameTree_of_nf hnf, hall⟩
        · intro x hx
          rcases List.mem_cons.1 hx with rfl | hx
          · exact WF_of_nf hnf (hwf s (by simp)).1
          · exact hwfs x hx
        · intro rest cnt acc
          rw [List.flatten_cons, List.append_assoc, hloop, hloops, hr]
          simp only [Bool.false_eq_true, if_false, List.length_cons, List.map_cons]
          have e1 : cnt + 1 + ss'.length = cnt + (ss'.length + 1) := by omega
          rw [e1]
          congr 1
          unfold expIds
          cases o.continuous with
          | false => simp
          | true => simp [List.range'_succ]

/-- MAIN (several sentences per file).  `lss` are the sentence blocks of the file (each: `#BOS` line, node lines, `#EOS` line).
    If the independent decoder accepts every block, every block meets the side conditions of the format (`ExportBlockOK`),
    every decoded tree is well formed and all parent numbers resolve, then the reader (any option record that does not rewrite
    labels) delivers one tree per block, in file order, with the sentence ids of the numbering option, and every tree equals the
    decoded one (modulo storage order of children and the word slot of constituents). -/
theorem readExport_decExport_file (o : InOpts) (hg : o.gfSplit = false) (hr : o.replaceParens = false) (v4 : Bool)
    (lss : List (List Str)) (ss : List ExpSentence) (h : lss.mapM (decExport v4) = some ss)
    (hok : ∀ ls ∈ lss, ExportBlockOK v4 ls = true) (hwf : ∀ s ∈ ss, WF s.tree = true ∧ s.parentsResolve = true) :
    ∃ rs : List Tree, rs.length = ss.length ∧
      readExport o (textOf lss.flatten) = .ok ((expIds o 1 (ss.map (·.sid))).zip rs) ∧
      (rs.zip ss).all (fun (r, s) => sameTree (noConsWord r) s.tree) = true ∧ (∀ r ∈ rs, WF r = true) := by
  obtain ⟨hnl, rs, hlen, hall, hwfs, hloop⟩ := exportLoop_blocks o hg hr v4 lss ss h hok hwf
  refine ⟨rs, hlen, ?_, hall, hwfs⟩
  unfold readExport textOf
  rw [splitOnChar_lines _ hnl, hloop, exportLoop_skip o [] [] _ _ (by rw [strip_nil, bos4_eq]; rfl), exportLoop_nil]
  simp

/-- the statement of the audit (one sentence, no options), in corrected form: the hypothesis `s.childBelowParent` is not needed;
    `ExportBlockOK` and well-formedness of the decoded tree are (counterexamples below) -/
theorem readExport_decExport (v4 : Bool) (ls : List Str) (s : ExpSentence) (h : decExport v4 ls = some s)
    (hok : ExportBlockOK v4 ls = true) (hwf : WF s.tree = true) (hres : s.parentsResolve = true) :
    ∃ r, readExport {} (textOf ls) = .ok [(s.sid, r)] ∧ sameTree (noConsWord r) s.tree = true ∧ WF r = true := by
  obtain ⟨rs, hlen, hread, hall, hwfs⟩ := readExport_decExport_file {} rfl rfl v4 [ls] [s] (by simp [h])
    (by simpa using hok) (by simpa using ⟨hwf, hres⟩)
  cases rs with
  | nil => simp at hlen
  | cons r rs =>
    cases rs with
    | cons _ _ => simp at hlen
    | nil =>
      refine ⟨r, ?_, by simpa using hall, hwfs r (by simp)⟩
      simpa [expIds] using hread


/-! ### concrete files -/

def L (l : List String) : List Str := l.map String.toList

/-- what the examples look at: the decoder's verdict and the flags of the decoded sentence -/
def decFlags (v4 : Bool) (ls : List Str) : Option (Nat × List Bool) :=
  (decExport v4 ls).map fun s => (s.sid, [WF s.tree, s.parentsResolve, s.tokensFirst, s.numbersFrom500, s.childBelowParent, ExportBlockOK v4 ls])

/-- does the reader deliver exactly one tree, equal to the decoded one? -/
def agrees (v4 : Bool) (ls : List Str) : Bool :=
  match decExport v4 ls, readExport {} (textOf ls) with
  | some s, .ok [(i, r)] => i == s.sid && sameTree (noConsWord r) s.tree
  | _, _ => false

/-- constituent lines between the token lines and out of order, numbers not consecutive (502, 507), a child numbered above
    its parent (507 below 502), tabs and several blanks, none of `tokensFirst`, `numbersFrom500`,
    `childBelowParent` holds, and the theorem applies -/
def exShuffled : List Str := L ["#BOS 7", "#502\tVP  --  HD 0", "a A -- HD 507", " #507 NP -- SB 502 ", "b\t\tB -- HD 502",
  "c C m OA 507", "#EOS 7"]

example : decFlags false exShuffled = some (7, [true, true, false, false, false, true]) := by decide +kernel

theorem of_map_eq_some {α β : Type} {o : Option α} {f : α → β} {b : β} (h : o.map f = some b) : ∃ a, o = some a ∧ f a = b := by
  cases o with
  | none => cases h
  | some a => exact ⟨a, rfl, by simpa using h⟩

example : ∃ r, readExport {} (textOf exShuffled) = .ok [(7, r)] := by
  obtain ⟨s, hs, hf⟩ := of_map_eq_some (show decFlags false exShuffled = some (7, [true, true, false, false, false, true]) by decide +kernel)
  simp only [Prod.mk.injEq, List.cons.injEq] at hf
  obtain ⟨r, hr, _, _⟩ := readExport_decExport false exShuffled s hs hf.2.2.2.2.2.2.1 hf.2.1 hf.2.2.1
  exact ⟨r, by rw [← hf.1]; exact hr⟩

example : agrees false exShuffled = true := by decide +kernel

/-- two sentences in one file, six-column layout, `continuous` numbering -/
def exTwo : List (List Str) := [L ["#BOS 4", "the the D -- HD 500", "dog dog N pl HD 500", "#500 -- NP -- SB 0", "#EOS 4"],
  L ["#BOS 9", "#501 -- S -- -- 0", "it it N -- HD 501", "#EOS 9"]]

example : exTwo.map (decFlags true) = [some (4, [true, true, true, true, true, true]), some (9, [true, true, false, false, true, true])] := by
  decide +kernel

example : (readExport { continuous := true } (textOf exTwo.flatten)).toOption.map (·.map (·.1)) = some [1, 2] ∧
    (readExport {} (textOf exTwo.flatten)).toOption.map (·.map (·.1)) = some [4, 9] := by decide +kernel

/-! ### none of the hypotheses can be dropped (each file is accepted by the decoder and violates exactly one hypothesis) -/

/-- a line break inside a line (`ExportBlockOK`, first clause): the reader fails -/
example : decFlags false (L ["#BOS 7", "a A --\nHD 0", "#EOS 7"]) = some (7, [true, true, true, true, true, false]) ∧
    agrees false (L ["#BOS 7", "a A --\nHD 0", "#EOS 7"]) = false := by decide +kernel

/-- six columns with a numeric edge label (second clause): the reader takes the line for a five-column line and fails -/
example : decFlags true (L ["#BOS 7", "a le A -- 12 0", "#EOS 7"]) = some (7, [true, true, true, true, true, false]) ∧
    agrees true (L ["#BOS 7", "a le A -- 12 0", "#EOS 7"]) = false := by decide +kernel

/-- a word that starts with `#EOS` (third clause): the reader ends the sentence there and delivers one token instead of two -/
example : decFlags false (L ["#BOS 7", "a A -- HD 0", "#EOSx B -- HD 0", "#EOS 7"]) = some (7, [true, true, true, true, true, false]) ∧
    agrees false (L ["#BOS 7", "a A -- HD 0", "#EOSx B -- HD 0", "#EOS 7"]) = false := by decide +kernel

/-- a constituent numbered below 500 (fourth clause): the reader rejects the parent number -/
example : decFlags false (L ["#BOS 7", "a A -- HD 0", "#123 B -- HD 123", "#EOS 7"]) = some (7, [true, true, true, false, false, false]) ∧
    agrees false (L ["#BOS 7", "a A -- HD 0", "#123 B -- HD 123", "#EOS 7"]) = false := by decide +kernel

/-- a constituent without children (the decoded tree is not well formed): the reader delivers a token numbered 500 -/
example : decFlags false (L ["#BOS 7", "a A -- HD 0", "#500 NP -- SB 0", "#EOS 7"]) = some (7, [false, true, true, true, true, true]) ∧
    agrees false (L ["#BOS 7", "a A -- HD 0", "#500 NP -- SB 0", "#EOS 7"]) = false := by decide +kernel

/-- a parent number that no line defines (`parentsResolve` fails): the decoder leaves the token out, the reader fails -/
example : decFlags false (L ["#BOS 7", "a A -- HD 0", "b B -- HD 123", "#EOS 7"]) = some (7, [true, false, true, true, true, true]) ∧
    agrees false (L ["#BOS 7", "a A -- HD 0", "b B -- HD 123", "#EOS 7"]) = false := by decide +kernel


/-! ## 2. bracket formats: well-formedness, and the option clauses `gf_split` / `replace_parens` -/

/-- every tree of the specification grammar is well formed: tokens numbered 1..n in file order, no childless constituent
    (`WFc`: a group that consists of one token, `(NN Haus)`, is the bare token) -/
theorem specBrackets_WFc (ep : Bool) (text : Str) (ts : List Tree) (h : specBrackets ep text = some ts) :
    ∀ t ∈ ts, WFc t = true :=
  spGroups_WFc ep _ _ [] ts h (by simp)

example : (specBrackets true "(S (NP (DT the) (NN cat)) (VP (VBZ sleeps)) (.))\n junk ((A a)) (NN Haus)".toList).map (·.map WFc) =
    some [true, true, true] := by decide +kernel

/-- plain `WF` is false for a one-token group -/
example : (specBrackets false "(NN Haus)".toList).map (·.map WF) = some [false] := by decide +kernel

/-- MAIN (rows 1, 2, 12 without the narrowing to option-free records): for EVERY option record without the discobracket
    post-pass — `gf_split`, `gf_separator`, `replace_parens`, `brackets_emptypos`, `brackets_firstid` — the reader returns
    exactly the trees of the grammar, post-processed by `bracketsPost`, numbered from `firstId`, and fails exactly when the
    grammar rejects the text.  `gf_split` together with `brackets_emptypos` is INCLUDED (wave 14) for every separator that
    leaves the default label alone (`EmptyOK`: every separator except the single letters `M`, `P`, `T` of `EMPTY`; in
    particular the default separator) - for the three others see `readBrackets_eq_specG` and the example below it. -/
theorem readBrackets_eq_spec_opts (o : InOpts) (hd : o.disco = false) (ho : EmptyOK o) (text : Str) :
    match specBrackets o.emptyPos text with
    | some ts => readBrackets o text = .ok ((List.range' (o.firstId.getD 1) ts.length).zip (ts.map (bracketsPost o)))
    | none => ∃ e, readBrackets o text = .error e :=
  readBrackets_spec_opts o hd ho text

/-- the form of waves 12/13 (the two options not together) is a special case -/
theorem readBrackets_eq_spec_opts_excl (o : InOpts) (hd : o.disco = false) (ho : o.gfSplit = true → o.emptyPos = false) (text : Str) :
    match specBrackets o.emptyPos text with
    | some ts => readBrackets o text = .ok ((List.range' (o.firstId.getD 1) ts.length).zip (ts.map (bracketsPost o)))
    | none => ∃ e, readBrackets o text = .error e :=
  readBrackets_eq_spec_opts o hd (emptyOK_of_excl o ho) text

/-- `EmptyOK` holds for the default separator, whatever the other options are, and for every separator other than
    `M`, `P`, `T` -/
theorem emptyOK_defaultSep (o : InOpts) (h : o.gfSeparator = none) : EmptyOK o := emptyOK_default o h

theorem emptyOK_otherSep (o : InOpts) (h : sepOf o ≠ ['M'] ∧ sepOf o ≠ ['P'] ∧ sepOf o ≠ ['T']) : EmptyOK o := emptyOK_of_sep o h

example : (readBrackets { gfSplit := true, replaceParens := true, firstId := some 3 } "(S (NP-SB (DT the) (NN (cat)) (VP-HD (V ran)))".toList).toOption.isSome
    = (specBrackets false "(S (NP-SB (DT the) (NN (cat)) (VP-HD (V ran)))".toList).isSome := by decide +kernel

/-- the two options together, default separator: the hypotheses of `readBrackets_eq_spec_opts` hold and the text is
    accepted -/
example : EmptyOK { gfSplit := true, emptyPos := true, replaceParens := true } ∧
    (specBrackets true "(S (NP-SB (U-Bahn) (NN-HD (Zug))) (X-Y x))".toList).isSome = true :=
  ⟨emptyOK_default _ rfl, by decide +kernel⟩

/-- MAIN, wave 14 (no exception at all): for EVERY option record without the discobracket post-pass the reader returns
    exactly the trees of the grammar `specBracketsG` - the specification grammar with ONE change: a node with a label token
    `w` and a body gets label and edge label `lfOf o w` (`gfSplitLabel` under `gf_split`); a token written without a tag,
    `(w)`, has the word `w` as written and the default label and edge - then `replace_parens`, numbered from `firstId`.
    `specBracketsG lfPlain = specBrackets` (`specBracketsG_plain`). -/
theorem readBrackets_eq_specG (o : InOpts) (hd : o.disco = false) (text : Str) :
    match specBracketsG (lfOf o) o.emptyPos text with
    | some ts => readBrackets o text = .ok ((List.range' (o.firstId.getD 1) ts.length).zip (ts.map (rpT o)))
    | none => ∃ e, readBrackets o text = .error e :=
  readBrackets_specG_opts o hd text

/-- ... and against the FIXED grammar: the same texts are accepted, and the trees correspond node by node (`GfRel`: the
    fields of a node are those of the grammar's node after `gf_split`, or - for a token with default label and edge, as a
    token without a tag is - unchanged) -/
theorem readBrackets_rel_spec (o : InOpts) (hd : o.disco = false) (text : Str) :
    match specBrackets o.emptyPos text with
    | some ts => ∃ ts', GfRelL o ts ts' ∧
        readBrackets o text = .ok ((List.range' (o.firstId.getD 1) ts.length).zip (ts'.map (rpT o)))
    | none => ∃ e, readBrackets o text = .error e :=
  readBrackets_rel o hd text

/-- the separator `M` (one of the three exceptions): the token without a tag keeps the default label `EMPTY`, while the
    post-processing view would split it into `E` + `PTY` - `bracketsPost` does NOT describe the reader here,
    `specBracketsG` does -/
example : ((readBrackets { gfSplit := true, emptyPos := true, gfSeparator := some ['M'] } "(S (x))".toList).toOption.map
      (·.map fun x => x.2.leaves.map fun l => l.fields.label)) = some [["EMPTY".toList]] ∧
    ((specBrackets true "(S (x))".toList).map
      (·.map fun t => (bracketsPost { gfSplit := true, emptyPos := true, gfSeparator := some ['M'] } t).leaves.map
        fun l => l.fields.label)) = some [["E".toList]] ∧
    ((specBracketsG (lfOf { gfSplit := true, emptyPos := true, gfSeparator := some ['M'] }) true "(S (x))".toList).map
      (·.map fun t => t.leaves.map fun l => l.fields.label)) = some [["EMPTY".toList]] := by
  decide +kernel

/-- row 12 for EVERY option record without the discobracket post-pass (wave 14: no exception): accepted exactly when
    the grammar accepts -/
theorem readBrackets_isOk (o : InOpts) (hd : o.disco = false) (text : Str) :
    (readBrackets o text).toOption.isSome = (specBrackets o.emptyPos text).isSome := by
  have h := readBrackets_rel o hd text
  cases hs : specBrackets o.emptyPos text with
  | none => rw [hs] at h; obtain ⟨e, he⟩ := h; rw [he]; rfl
  | some ts => rw [hs] at h; obtain ⟨ts', _, h⟩ := h; rw [h]; rfl

theorem WFc_bracketsPost (o : InOpts) (t : Tree) (h : WFc t = true) : WFc (bracketsPost o t) = true := by
  unfold bracketsPost
  have h1 : WFc (if o.gfSplit = true then gfSplitRead (o.gfSeparator.getD DEFAULT_GF_SEP) t else t) = true := by
    split
    · cases t with
      | leaf n f => exact goodMap_WFc (goodMap_gfSplitTree _) _ h
      | node f ks =>
        by_cases hf : f.edge.isNone = true
        · simp only [gfSplitRead, hf, if_true]
          have hw : WF (node f ks) = true := h
          show WF (node f (gfSplitTreeL _ ks)) = true
          rw [gfSplitTreeL_eq]
          have := goodMap_WF (goodMap_gfSplitTree (o.gfSeparator.getD DEFAULT_GF_SEP)) (node f ks) hw
          rw [gfSplitTree, gfSplitTreeL_eq] at this
          refine WF_of_perm _ _ this ?_ ?_ rfl
          · rw [leafNums_node, leafNums_node]
          · rw [noEmpty_node]; exact (noEmpty_node _ _).1 (WF_noEmpty _ this)
        · simp only [gfSplitRead, hf, Bool.false_eq_true, if_false]
          exact goodMap_WFc (goodMap_gfSplitTree _) _ h
    · exact h
  simp only
  split
  · exact goodMap_WFc goodMap_replaceParensTree _ h1
  · exact h1

/-- row 10 for the bracket reader, EVERY option record without the discobracket post-pass (wave 14: no exception):
    every yielded tree is well formed -/
theorem readBrackets_WFc (o : InOpts) (hd : o.disco = false) (text : Str)
    (r : List (Nat × Tree)) (h : readBrackets o text = .ok r) : ∀ x ∈ r, WFc x.2 = true := by
  have hS := readBrackets_rel o hd text
  cases hs : specBrackets o.emptyPos text with
  | none => rw [hs] at hS; obtain ⟨e, he⟩ := hS; rw [he] at h; cases h
  | some ts =>
    rw [hs] at hS
    obtain ⟨ts', hrel, hS⟩ := hS
    rw [hS] at h
    cases h
    intro x hx
    have := (List.of_mem_zip hx).2
    obtain ⟨t', ht', hxt⟩ := List.mem_map.1 this
    rw [← hxt]
    obtain ⟨t, ht, htt⟩ := gfRelL_mem o ts ts' hrel t' ht'
    have hw : WFc t' = true := gfRel_WFc o t t' htt (specBrackets_WFc _ _ _ hs t ht)
    unfold rpT
    split
    · exact goodMap_WFc goodMap_replaceParensTree _ hw
    · exact hw

example : ∃ r, readBrackets { gfSplit := true } "(S (NP-SB (DT the) (NN cat)) (VP-HD (V ran)))(X x)".toList = .ok r ∧ r.length = 2 :=
  ⟨_, rfl, rfl⟩

example : ∃ r, readBrackets { gfSplit := true, emptyPos := true } "(S (NP-SB (U-Bahn)) (VP-HD (V ran)))(X (x))".toList = .ok r ∧ r.length = 2 :=
  ⟨_, rfl, rfl⟩

theorem gT_rp (o : InOpts) (b : Bool) (t : Tree) : gT { o with replaceParens := b } t = gT o t := by
  induction t using tree_ind with
  | hl n f => rfl
  | hn f ks ih =>
    simp only [gT, gTL_eq]
    congr 1
    exact List.map_congr_left ih

/-- row 11, `replace_parens`: the option is a post-processing by `replaceParensTree` of the result without it
    (the same function the export reader applies, `IO/Read.lean: exportLoop`); EVERY option record without the
    discobracket post-pass (wave 14: no exception) -/
theorem readBrackets_replaceParens (o : InOpts) (hd : o.disco = false) (text : Str) :
    readBrackets { o with replaceParens := true } text =
      (readBrackets { o with replaceParens := false } text).map (List.map fun x => (x.1, replaceParensTree x.2)) :=
  readBrackets_rp o hd text

example : (readBrackets { gfSplit := true, emptyPos := true, replaceParens := true } "(S (NP-SB (U-Bahn)))".toList).toOption.isSome = true := by
  decide +kernel

/-- row 11, `gf_split`: the option is a post-processing of the result without it: `gfSplitTree`, the function of the
    TIGER-XML reader, on every node that has a label (`gfSplitRead`).  With `brackets_emptypos` (wave 14) for every
    separator that leaves the default label alone. -/
theorem readBrackets_gfSplit (o : InOpts) (hd : o.disco = false)
    (he : o.emptyPos = true → gfSplitLabel (o.gfSeparator.getD DEFAULT_GF_SEP) DEFAULT_LABEL = (DEFAULT_LABEL, DEFAULT_EDGE))
    (hr : o.replaceParens = false) (text : Str) :
    readBrackets { o with gfSplit := true } text =
      (readBrackets { o with gfSplit := false } text).map
        (List.map fun x => (x.1, gfSplitRead (o.gfSeparator.getD DEFAULT_GF_SEP) x.2)) := by
  have ho1 : EmptyOK { o with gfSplit := true } := fun _ h => he h
  have h1 := readBrackets_spec_opts { o with gfSplit := true } hd ho1 text
  have h0 := readBrackets_spec_opts { o with gfSplit := false } hd (fun h => by cases h) text
  simp only at h1 h0
  cases hs : specBrackets o.emptyPos text with
  | none =>
    rw [hs] at h1 h0
    obtain ⟨e1, he1⟩ := h1
    obtain ⟨e0, he0⟩ := h0
    rw [he1, he0]
    -- both fail; with the same error, by the simulation
    have := readBrackets_sim { o with gfSplit := true } hd ho1 text
    have e : baseOpts { o with gfSplit := true } = { o with gfSplit := false } := by
      cases o; simp only [baseOpts] at *; simp [hr]
    rw [e, he1, he0] at this
    simp only [Except.map] at this
    rw [this]; rfl
  | some ts =>
    rw [hs] at h1 h0
    simp only at h1 h0
    rw [h1, h0]
    simp only [Except.map, zip_map_snd, List.map_map]
    congr 2
    apply List.map_congr_left
    intro t _
    simp [bracketsPost, hr]

/-- the form of waves 12/13 (without `brackets_emptypos`) is a special case -/
theorem readBrackets_gfSplit_noEmpty (o : InOpts) (hd : o.disco = false) (he : o.emptyPos = false) (hr : o.replaceParens = false) (text : Str) :
    readBrackets { o with gfSplit := true } text =
      (readBrackets { o with gfSplit := false } text).map
        (List.map fun x => (x.1, gfSplitRead (o.gfSeparator.getD DEFAULT_GF_SEP) x.2)) :=
  readBrackets_gfSplit o hd (fun h => by rw [he] at h; cases h) hr text

/-- with BOTH `gf_split` and `brackets_emptypos` (defect D22, repaired): the word of an empty-POS token is the token as it is
    written - `(U-Bahn)` is read as the word `U-Bahn`, with or without `gf_split`; the option splits the labels of the other
    nodes only (`NP-SB` below) -/
example : ((readBrackets { gfSplit := true, emptyPos := true } "(S (NP-SB (U-Bahn)))".toList).toOption.map
      (·.map fun x => x.2.leaves.map fun l => l.fields.word)) = some [[some "U-Bahn".toList]] ∧
    ((readBrackets { gfSplit := true, emptyPos := true } "(S (NP-SB (U-Bahn)))".toList).toOption.map
      (·.map fun x => x.2.subtrees.map fun s => (s.fields.label, s.fields.edge))) =
      some [[("S".toList, some "--".toList), ("NP".toList, some "SB".toList), ("EMPTY".toList, some "--".toList)]] ∧
    ((readBrackets { emptyPos := true } "(S (NP-SB (U-Bahn)))".toList).toOption.map
      (·.map fun x => x.2.leaves.map fun l => l.fields.word)) = some [[some "U-Bahn".toList]] := by decide +kernel

/-- in general: under every option record the words of the reader's trees are the words of the grammar's trees, token by
    token - no option rewrites a word, except `replace_parens` -/
theorem readBrackets_words (o : InOpts) (hd : o.disco = false) (hr : o.replaceParens = false) (text : Str)
    (ts : List Tree) (hs : specBrackets o.emptyPos text = some ts) :
    ∃ r, readBrackets o text = .ok r ∧
      r.map (fun x => x.2.leaves.map fun l => l.fields.word) = ts.map (fun t => t.leaves.map fun l => l.fields.word) := by
  have h := readBrackets_rel o hd text
  rw [hs] at h
  obtain ⟨ts', hrel, h⟩ := h
  refine ⟨_, h, ?_⟩
  have e : ts'.map (rpT o) = ts' := by
    conv => rhs; rw [← List.map_id ts']
    exact List.map_congr_left (fun t _ => by simp [rpT, hr])
  rw [e, ← gfRelL_words o ts ts' hrel]
  have : ∀ (l : List (Nat × Tree)), l.map (fun x => x.2.leaves.map fun l => l.fields.word) =
      (l.map Prod.snd).map (fun t => t.leaves.map fun l => l.fields.word) := by
    intro l; rw [List.map_map]; rfl
  rw [this, List.map_snd_zip (by simp [gfRelL_length o ts ts' hrel])]

/-! ## 3. the same option has the same effect in every format (row 11): export and TIGER-XML -/

/-- TIGER-XML: both options are a post-processing of the option-free result: `gfSplitTree`, then `replaceParensTree` -/
theorem tigerSentence_opts (o : InOpts) (s : XSent) :
    tigerSentence o s = (tigerSentence { o with gfSplit := false, replaceParens := false } s).map fun t =>
      let t := if o.gfSplit then gfSplitTree (o.gfSeparator.getD DEFAULT_GF_SEP) t else t
      if o.replaceParens then replaceParensTree t else t :=
  tigerSentence_post o s

theorem tigerSentence_gfSplit (o : InOpts) (hr : o.replaceParens = false) (s : XSent) :
    tigerSentence { o with gfSplit := true } s =
      (tigerSentence { o with gfSplit := false } s).map (gfSplitTree (o.gfSeparator.getD DEFAULT_GF_SEP)) := by
  rw [tigerSentence_post]
  have e : baseOpts { o with gfSplit := true } = { o with gfSplit := false } := by
    cases o; simp only [baseOpts] at *; simp [hr]
  rw [e]
  cases tigerSentence { o with gfSplit := false } s with
  | error e => rfl
  | ok t => simp [Except.map, tigerPostL, hr]

theorem tigerSentence_replaceParens (o : InOpts) (s : XSent) :
    tigerSentence { o with replaceParens := true } s = (tigerSentence { o with replaceParens := false } s).map replaceParensTree := by
  rw [tigerSentence_post, tigerSentence_post { o with replaceParens := false }]
  have e : baseOpts { o with replaceParens := true } = baseOpts { o with replaceParens := false } := rfl
  rw [e]
  cases tigerSentence (baseOpts { o with replaceParens := false }) s with
  | error e => rfl
  | ok t => simp [Except.map, tigerPostL]

/-- the whole TIGER-XML reader -/
theorem readTiger_opts (o : InOpts) (ss : List XSent) :
    readTiger o ss = (readTiger { o with gfSplit := false, replaceParens := false } ss).map (List.map fun x => (x.1,
      let t := if o.gfSplit then gfSplitTree (o.gfSeparator.getD DEFAULT_GF_SEP) x.2 else x.2
      if o.replaceParens then replaceParensTree t else t)) :=
  readTiger_post o ss

/-- export: `replace_parens` is the same post-processing by `replaceParensTree` (every option record) -/
theorem readExport_replaceParens (o : InOpts) (text : Str) :
    readExport { o with replaceParens := true } text =
      (readExport { o with replaceParens := false } text).map (List.map fun x => (x.1, replaceParensTree x.2)) := by
  rw [readExport_post, readExport_post { o with replaceParens := false }]
  have e : baseOpts { o with replaceParens := true } = baseOpts { o with replaceParens := false } := rfl
  rw [e]
  cases readExport (baseOpts { o with replaceParens := false }) text with
  | error e => rfl
  | ok r =>
    simp only [Except.map, List.map_map]
    rfl

/-- export: `gf_split` is a post-processing of the result without it: `gfSplitTree` — the function of the TIGER-XML reader —
    on every node below the virtual root.  `hroot`: the root is the virtual root, i.e. no line `#000` defines node 0
    (said on the plain result: its root has no word). -/
theorem readExport_gfSplit (o : InOpts) (hr : o.replaceParens = false) (text : Str) (r0 : List (Nat × Tree))
    (h0 : readExport { o with gfSplit := false } text = .ok r0) (hroot : ∀ x ∈ r0, x.2.fields.word = none) :
    readExport { o with gfSplit := true } text =
      .ok (r0.map fun x => (x.1, gfSplitBelowRoot (o.gfSeparator.getD DEFAULT_GF_SEP) x.2)) := by
  rw [readExport_post]
  have e : baseOpts { o with gfSplit := true } = { o with gfSplit := false } := by
    cases o; simp only [baseOpts] at *; simp [hr]
  rw [e, h0]
  simp only [Except.map]
  congr 1
  apply List.map_congr_left
  intro x hx
  have hw := exportLoop_words { o with gfSplit := false } hr _ none 1 [] r0 h0 (by simp) x hx
  have : exportPostL { o with gfSplit := true } x.2 = mapF (xF { o with gfSplit := true }) x.2 := by
    simp [exportPostL, hr]
  rw [this, mapF_belowRoot { o with gfSplit := true } rfl x.2 (hroot x hx) hw]
  rfl

/-- the errors coincide too -/
theorem readExport_gfSplit_error (o : InOpts) (hr : o.replaceParens = false) (text : Str) (e : Err)
    (h0 : readExport { o with gfSplit := false } text = .error e) : readExport { o with gfSplit := true } text = .error e := by
  rw [readExport_post]
  have e' : baseOpts { o with gfSplit := true } = { o with gfSplit := false } := by
    cases o; simp only [baseOpts] at *; simp [hr]
  rw [e', h0]; rfl

def exGf : Str := textOf (L ["#BOS 1", "the D-X -- HD 500", "dog N -- HD 500", "#500 NP-SB -- XX 0", "#EOS 1"])

example : ∃ r0, readExport {} exGf = .ok r0 ∧ (∀ x ∈ r0, x.2.fields.word = none) ∧
    (r0.map fun x => x.2.subtrees.map fun s => (s.fields.label, s.fields.edge)) =
      [[("VROOT".toList, some "--".toList), ("NP-SB".toList, some "XX".toList), ("D-X".toList, some "HD".toList), ("N".toList, some "HD".toList)]] :=
  ⟨_, rfl, by decide +kernel, by decide +kernel⟩

example : (readExport { gfSplit := true } exGf).toOption.map (·.map fun x => x.2.subtrees.map fun s => (s.fields.label, s.fields.edge)) =
    some [[("VROOT".toList, some "--".toList), ("NP".toList, some "SB".toList), ("D".toList, some "X".toList), ("N".toList, some "--".toList)]] := by
  decide +kernel

/-- `hroot` cannot be dropped: a line `#000` gives node 0 a label, and `gf_split` splits it like every other label -/
example : ((readExport {} (textOf (L ["#BOS 1", "a A -- HD 0", "#000 S-X -- -- 999", "#EOS 1"]))).toOption.map
      (·.map fun x => (x.2.fields.word, (gfSplitBelowRoot "-".toList x.2).fields.label))) = some [(some "#000".toList, "S-X".toList)] ∧
    ((readExport { gfSplit := true } (textOf (L ["#BOS 1", "a A -- HD 0", "#000 S-X -- -- 999", "#EOS 1"]))).toOption.map
      (·.map fun x => x.2.fields.label)) = some ["S".toList] := by decide +kernel


/-! ## 4. sentence ids (row 9) -/

/-- export: with `continuous` the ids are 1, 2, …; otherwise they are numbers of `#BOS` lines, in file order
    (a sublist: a sentence that is never closed yields nothing).  Every option record, every text. -/
theorem readExport_sids (o : InOpts) (text : Str) (r : List (Nat × Tree)) (h : readExport o text = .ok r) :
    (o.continuous = true → r.map (·.1) = List.range' 1 r.length) ∧
    (o.continuous = false → (r.map (·.1)).Sublist ((splitOnChar '\n' text).filterMap bosId)) := by
  obtain ⟨new, h1, h2, h3⟩ := exportLoop_sids o _ none 1 [] r h
  simp only [List.reverse_nil, List.nil_append] at h1
  subst h1
  exact ⟨h2, fun hc => by simpa using h3 hc⟩

example : (readExport {} (textOf exTwo.flatten)).toOption.map (·.map (·.1)) = some [4, 9] ∧
    (splitOnChar '\n' (textOf exTwo.flatten)).filterMap bosId = [4, 9] := by decide +kernel

/-- TIGER-XML: the sentences that raise `ValueError` are skipped; the others get, in file order, their position (with
    `continuous`; the counter also advances over skipped sentences) or the last number in their `id` attribute -/
theorem readTiger_sids (o : InOpts) (ss : List XSent) (r : List (Nat × Tree)) (h : readTiger o ss = .ok r) :
    r.map (·.1) = (ss.zipIdx.filter fun si => (tigerSentence o si.1).toOption.isSome).map fun si =>
      if o.continuous then si.2 + 1 else (lastNumber si.1.id).getD 0 :=
  readTiger_sids' o ss r h

/-! ## 5. export: tab/blank layout, comments and secondary-edge columns (row 6), lifted to the whole reader -/

/-- two files whose lines agree, line by line, in their first six whitespace-separated fields are read alike
    (every option record; errors included).  `(splitWs l).take 6` is everything the reader looks at in a line: the
    `#BOS`/`#EOS` test and the sentence number use the first two fields, a node line its first five or six. -/
theorem readExport_fields_congr (o : InOpts) (ls ls' : List Str) (h1 : ∀ l ∈ ls, '\n' ∉ l) (h2 : ∀ l ∈ ls', '\n' ∉ l)
    (h : ls.map (fun l => (splitWs l).take 6) = ls'.map (fun l => (splitWs l).take 6)) :
    readExport o (textOf ls) = readExport o (textOf ls') := by
  unfold readExport textOf
  rw [splitOnChar_lines ls h1, splitOnChar_lines ls' h2]
  have := exportLoop_congr o (ls ++ [[]]) (ls' ++ [[]]) none [] [] 1 [] (by
    rw [List.map_append, List.map_append]
    exact congrArg (· ++ [lineKey []]) h) rfl
  simpa using this

/-- tabs instead of blanks, several blanks, a comment and secondary-edge columns after the parent number -/
example : (L ["#BOS 1", "Haus Haus NN Nom.Sg OA 500 503 SB %% c", "#500 -- NP -- -- 0", "#EOS 1"]).map (fun l => (splitWs l).take 6) =
    (L ["#BOS\t1 ", "Haus \t Haus\tNN  Nom.Sg   OA 500", " #500 --\tNP -- -- 0 ", "#EOS 1 "]).map (fun l => (splitWs l).take 6) := by
  decide +kernel


/-! ## 6. TIGER-XML: what the reader decodes (row 7), and its well-formedness (row 10) -/

/-- the element structure `xsentOf sid t` consists of the two tables which the independent decoder `decTiger` reads from the lines
    that `writeTiger sid t` writes (`C02Tiger.decTiger_tokens`, `decTiger_table`): one `<t>` per token, one `<nt>` per constituent -/
theorem xsentOf_tables (sid : Nat) (t : Tree) :
    (xsentOf sid t).terms = (t.terminals.map TT.Lemmas.TigerRT.tokEnt).map termOf ∧
    (xsentOf sid t).nts = ((TT.Lemmas.TigerRT.consList t).map (TT.Lemmas.TigerRT.ntEnt t)).map ntOf := by
  rw [xsentOf_eq]; exact ⟨rfl, rfl⟩

/-- MAIN (row 7): on the element structure of a well-formed sentence with fewer than 500 tokens the reader delivers one tree:
    tokens (word, lemma, POS, morphology), labels, edge labels and dominance are those of `t` (`tigerReadTop t`: the content the
    format holds, constituents with default lemma and morphology, below a `VROOT` unless the root is one), modulo the storage
    order of children; and the tree is well formed (row 10).  Any option record that does not rewrite labels. -/
theorem tigerSentence_xsent (o : InOpts) (hg : o.gfSplit = false) (hr : o.replaceParens = false) (sid : Nat) (t : Tree)
    (hwf : WF t = true) (hlen : t.leafNums.length < 500) :
    ∃ r, tigerSentence o (xsentOf sid t) = .ok r ∧ sameTree r (tigerReadTop t) = true ∧ WF r = true := by
  obtain ⟨r, h1, h2, h3⟩ := tigerSentence_xsentOf o hg hr sid t hwf hlen
  exact ⟨r, h1, by unfold sameTree; rw [h2]; exact beq_refl _, h3⟩

/-- the order of the `<nt>` elements is free (with `C01More.tigerSentence_perm_nts_eq`) -/
theorem tigerSentence_xsent_perm (o : InOpts) (hg : o.gfSplit = false) (hr : o.replaceParens = false) (sid : Nat) (t : Tree)
    (hwf : WF t = true) (hlen : t.leafNums.length < 500) (nts' : List XNt) (hp : nts'.Perm (xsentOf sid t).nts) :
    ∃ r, tigerSentence o { xsentOf sid t with nts := nts' } = .ok r ∧ sameTree r (tigerReadTop t) = true ∧ WF r = true := by
  have hid : ((xsentOf sid t).terms.map (·.id) ++ (xsentOf sid t).nts.map (·.id)).Nodup := by
    rw [xsentOf_xs, xs_ids]; exact xIds_nodup t hwf hlen
  rw [TT.Lemmas.Layout.tigerSentence_perm o (xsentOf sid t) nts' hp hid]
  exact tigerSentence_xsent o hg hr sid t hwf hlen

/-- one tree per `<s>`, in file order, with the ids of the numbering option -/
theorem readTiger_xsents (o : InOpts) (hg : o.gfSplit = false) (hr : o.replaceParens = false) (sents : List (Nat × Tree))
    (h : ∀ st ∈ sents, WF st.2 = true ∧ st.2.leafNums.length < 500) :
    ∃ rs : List Tree, rs.length = sents.length ∧
      readTiger o (sents.map fun st => xsentOf st.1 st.2) =
        .ok ((if o.continuous then List.range' 1 sents.length else sents.map (·.1)).zip rs) ∧
      (rs.zip sents).all (fun x => sameTree x.1 (tigerReadTop x.2.2)) = true ∧ ∀ r ∈ rs, WF r = true := by
  obtain ⟨rs, h1, h2, h3, h4⟩ := foldlM_tigerStep_xs o hg hr sents 0 [] h
  exact ⟨rs, h1, by rw [readTiger_eq, h2]; simp, h3, h4⟩

private def tA : Tree := node { label := "S".toList } [leaf 2 { label := "B".toList, word := some "b<&".toList, edge := some "HD".toList },
  node { label := "VP".toList, edge := some "OC".toList } [leaf 1 { label := "A".toList, word := some "a".toList, morph := some "m".toList },
    leaf 3 { label := "C".toList, word := some "c".toList, lemma := some "cc".toList }]]
private def tB : Tree := node { label := "VROOT".toList, edge := some "XX".toList } [leaf 1 { label := "X".toList, word := some "x".toList }]

example : WF tA = true ∧ tA.leafNums.length < 500 ∧ WF tB = true ∧ tB.leafNums.length < 500 := by decide +kernel

example : ((readTiger { continuous := true } [xsentOf 7 tA, xsentOf 9 tB]).toOption.map fun r => r.map fun x => (x.1, x.2.fields.label, x.2.leafNums.length)) =
    some [(1, "VROOT".toList, 3), (2, "VROOT".toList, 1)] := by decide +kernel


/-! ## 7. discobrackets (row 4): the reader against the independent decoder `decDisco` -/

/-- MAIN (row 4): a discobracket file whose lines `tree TAB sentence` are all accepted by the decoder `decDisco` and meet the side
    conditions of the format (`DiscoLineOK`) is read into exactly the decoded trees — token numbers are the indices in the tree,
    words come from the sentence — with the reader's default edge and morphology (`asReadBrackets`), one tree per line, in file
    order, numbered from `firstId`.  Options: `disco`, without `disco_reordered` and without label-rewriting options. -/
theorem readDisco_spec (o : InOpts) (hg : o.gfSplit = false) (hr : o.replaceParens = false) (hd : o.disco = true)
    (hdr : o.discoReordered = false) (ls : List Str) (ts : List Tree) (h : ls.mapM decDisco = some ts)
    (hok : ∀ l ∈ ls, DiscoLineOK l = true) :
    readBrackets o (textOf ls) = .ok ((List.range' (o.firstId.getD 1) ts.length).zip (ts.map asReadBrackets)) :=
  readBrackets_disco o hg hr hd hdr ls ts h hok

/-- a discontinuous tree (token 2 outside the VP that covers 1 and 3) and a second line; `decDisco` takes the strict one-line
    layout of the writer (no blank between a label and the first child) -/
def exDisco : List Str := L ["(S(VP(A 1)(C 3))(B 2))\tHelmut schläft gern", "(X(Y 1))\tja"]

example : (exDisco.mapM decDisco).map (·.map fun t => (t.leafNums, (t.leaves.map fun l => l.fields.word))) =
    some [([1, 3, 2], [some "Helmut".toList, some "gern".toList, some "schläft".toList]), ([1], [some "ja".toList])] ∧
    exDisco.all DiscoLineOK = true := by decide +kernel

example : ∃ ts, exDisco.mapM decDisco = some ts ∧
    readBrackets { disco := true, firstId := some 5 } (textOf exDisco) = .ok ((List.range' 5 ts.length).zip (ts.map asReadBrackets)) := by
  cases h : exDisco.mapM decDisco with
  | none => exact absurd h (by decide +kernel)
  | some ts =>
    exact ⟨ts, rfl, readDisco_spec { disco := true, firstId := some 5 } rfl rfl rfl rfl exDisco ts h (by
      have : exDisco.all DiscoLineOK = true := by decide +kernel
      exact fun l hl => List.all_eq_true.1 this l hl)⟩

end TT.Props.C01Readers
