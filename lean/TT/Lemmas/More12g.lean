import TT.Spec.Nav
import TT.Lemmas.Sort
import TT.Lemmas.Nav
import TT.Lemmas.WF
import TT.Spec.Label
import TT.Lemmas.C20
namespace TT.Lemmas.More12g
open TT TT.Tree TT.Spec TT.Lemmas.Nav

/-- the (storage index, child) pairs in `trees.children` order -/
def sortedPairs (ks : List Tree) : List (Nat × Tree) :=
  sortBy (fun (p : Nat × Tree) => p.2.leftmost) ((List.range ks.length).zip ks)

theorem orderedIdx_eq (ks : List Tree) : orderedIdx ks = (sortedPairs ks).map (·.1) := rfl

theorem mem_zip_range (ks : List Tree) (p : Nat × Tree) (h : p ∈ (List.range ks.length).zip ks) :
    ks[p.1]? = some p.2 := by
  obtain ⟨i, hi⟩ := List.getElem_of_mem h
  obtain ⟨hi, rfl⟩ := hi
  simp at hi ⊢

theorem sortedPairs_mem (ks : List Tree) (p : Nat × Tree) (h : p ∈ sortedPairs ks) : ks[p.1]? = some p.2 :=
  mem_zip_range ks p ((mem_sortBy _ _ p).1 h)

theorem sortedPairs_snd (ks : List Tree) : (sortedPairs ks).map (·.2) = sortBy leftmost ks := by
  unfold sortedPairs
  rw [← sortBy_map (fun (p : Nat × Tree) => p.2.leftmost) leftmost (·.2) (fun _ => rfl)]
  rw [List.map_snd_zip (by simp)]

/-- the storage indices in `children` order select the children in `children` order -/
theorem orderedIdx_children (ks : List Tree) : (orderedIdx ks).filterMap (ks[·]?) = sortBy leftmost ks := by
  rw [orderedIdx_eq, ← sortedPairs_snd, List.filterMap_map]
  have : ∀ l : List (Nat × Tree), (∀ p ∈ l, ks[p.1]? = some p.2) →
      l.filterMap ((fun x => ks[x]?) ∘ fun x => x.1) = l.map (·.2) := by
    intro l hl
    induction l with
    | nil => rfl
    | cons a l ih =>
      simp only [List.filterMap_cons, Function.comp, hl a List.mem_cons_self, List.map_cons]
      rw [← ih (fun p hp => hl p (List.mem_cons_of_mem _ hp))]
  exact this _ (sortedPairs_mem ks)

/-- key of a storage index: the leftmost token of the child stored there -/
def kidKey (ks : List Tree) (i : Nat) : Nat := (ks[i]?.map leftmost).getD 0

theorem orderedIdx_sorted (ks : List Tree) : (orderedIdx ks).Pairwise (fun i j => kidKey ks i ≤ kidKey ks j) := by
  rw [orderedIdx_eq, List.pairwise_map]
  have h := sortBy_sorted (fun (p : Nat × Tree) => p.2.leftmost) ((List.range ks.length).zip ks)
  refine List.Pairwise.imp_of_mem ?_ h
  intro a b ha hb hab
  simp only [kidKey, sortedPairs_mem ks a ha, sortedPairs_mem ks b hb, Option.map_some, Option.getD_some]
  exact hab

theorem orderedIdx_strict (ks : List Tree) (hd : (ks.map leftmost).Nodup) :
    (orderedIdx ks).Pairwise (fun i j => kidKey ks i < kidKey ks j) := by
  rw [orderedIdx_eq, List.pairwise_map]
  have h := sortBy_strict (fun (p : Nat × Tree) => p.2.leftmost) ((List.range ks.length).zip ks) (by
    have : ((List.range ks.length).zip ks).map (fun (p : Nat × Tree) => p.2.leftmost) = ks.map leftmost := by
      have h2 : ((List.range ks.length).zip ks).map (·.2) = ks := List.map_snd_zip (by simp)
      conv => rhs; rw [← h2]
      simp [List.map_map, Function.comp_def]
    rw [this]; exact hd)
  refine List.Pairwise.imp_of_mem ?_ h
  intro a b ha hb hab
  simp only [kidKey, sortedPairs_mem ks a ha, sortedPairs_mem ks b hb, Option.map_some, Option.getD_some]
  exact hab


/-! ### the path-valued traversals, unfolded along `sortedPairs` -/

theorem preorderPK_eq : ∀ (ks : List Tree) (n : Nat), preorderPK ks n =
    ((List.range' n ks.length).zip ks).map fun (p : Nat × Tree) => (leftmost p.2, (preorderP p.2).map (p.1 :: ·))
  | [], n => by simp [preorderPK]
  | k :: ks, n => by simp [preorderPK, preorderPK_eq ks (n + 1), List.range'_succ]

theorem postorderPK_eq : ∀ (ks : List Tree) (n : Nat), postorderPK ks n =
    ((List.range' n ks.length).zip ks).map fun (p : Nat × Tree) => (leftmost p.2, (postorderP p.2).map (p.1 :: ·))
  | [], n => by simp [postorderPK]
  | k :: ks, n => by simp [postorderPK, postorderPK_eq ks (n + 1), List.range'_succ]

theorem flattenSorted_map {α β} (key : α → Nat) (g : α → List β) (l : List α) :
    flattenSorted (l.map fun a => (key a, g a)) = (sortBy key l).flatMap g := by
  unfold flattenSorted
  rw [sortBy_map_keyed, List.flatMap_def]

theorem preorderP_node (f : Fields) (ks : List Tree) :
    preorderP (node f ks) = [] :: (sortedPairs ks).flatMap fun p => (preorderP p.2).map (p.1 :: ·) := by
  simp only [preorderP, preorderPK_eq, List.range_eq_range', sortedPairs]
  rw [flattenSorted_map (fun (p : Nat × Tree) => leftmost p.2)]

theorem postorderP_node (f : Fields) (ks : List Tree) :
    postorderP (node f ks) = ((sortedPairs ks).flatMap fun p => (postorderP p.2).map (p.1 :: ·)) ++ [[]] := by
  simp only [postorderP, postorderPK_eq, List.range_eq_range', sortedPairs]
  rw [flattenSorted_map (fun (p : Nat × Tree) => leftmost p.2)]


/-! ### siblings are visited in order of their leftmost token -/

/-- leftmost token (set-based) of the node at `q`; 0 for an invalid path — as `Spec.preorderOK` writes it -/
def mkey (t : Tree) (q : Path) : Nat := ((t.get? q).map minLeaf).getD 0

/-- `q`, listed before `p`: if they are different children of one node, `q` has the smaller leftmost token -/
def SibRel (t : Tree) (q p : Path) : Prop :=
  q.length = p.length → q.dropLast = p.dropLast → q ≠ p → mkey t q < mkey t p

theorem mkey_cons (f : Fields) (ks : List Tree) (i : Nat) (k : Tree) (q : Path) (h : ks[i]? = some k) :
    mkey (node f ks) (i :: q) = mkey k q := by
  simp [mkey, get?, h]

theorem sortedPairs_strict (ks : List Tree) (hd : (ks.map leftmost).Nodup) :
    (sortedPairs ks).Pairwise (fun a b => leftmost a.2 < leftmost b.2) := by
  refine sortBy_strict (fun (p : Nat × Tree) => p.2.leftmost) ((List.range ks.length).zip ks) ?_
  have h2 : ((List.range ks.length).zip ks).map (·.2) = ks := List.map_snd_zip (by simp)
  have : ((List.range ks.length).zip ks).map (fun (p : Nat × Tree) => p.2.leftmost) = ks.map leftmost := by
    conv => rhs; rw [← h2]
    simp [List.map_map, Function.comp_def]
  rw [this]; exact hd

theorem sibRel_cons (f : Fields) (ks : List Tree) (i : Nat) (k : Tree) (h : ks[i]? = some k) (q p : Path)
    (hr : SibRel k q p) : SibRel (node f ks) (i :: q) (i :: p) := by
  intro hl hdl hne
  rw [mkey_cons f ks i k q h, mkey_cons f ks i k p h]
  cases q with
  | nil =>
    cases p with
    | nil => exact absurd rfl hne
    | cons _ _ => simp at hl
  | cons a q =>
    cases p with
    | nil => simp at hl
    | cons b p =>
      simp only [List.dropLast_cons_cons, List.cons.injEq, true_and] at hdl
      exact hr (by simpa using hl) (by simpa using hdl) (by simpa using hne)

theorem sibRel_blocks (f : Fields) (ks : List Tree) (hd : (ks.map leftmost).Nodup) (X : Tree → List Path)
    (hX : ∀ k ∈ ks, (X k).Pairwise (SibRel k)) :
    ((sortedPairs ks).flatMap fun p => (X p.2).map (p.1 :: ·)).Pairwise (SibRel (node f ks)) := by
  rw [List.flatMap_def, List.pairwise_flatten]
  constructor
  · intro l hl
    obtain ⟨a, ha, rfl⟩ := List.mem_map.1 hl
    have hk := sortedPairs_mem ks a ha
    rw [List.pairwise_map]
    exact (hX a.2 (List.mem_of_getElem? hk)).imp (fun {q p} hr => sibRel_cons f ks a.1 a.2 hk q p hr)
  · rw [List.pairwise_map]
    refine List.Pairwise.imp_of_mem ?_ (sortedPairs_strict ks hd)
    intro a b ha hb hab x hx y hy
    obtain ⟨q, _, rfl⟩ := List.mem_map.1 hx
    obtain ⟨p, _, rfl⟩ := List.mem_map.1 hy
    have hka := sortedPairs_mem ks a ha
    have hkb := sortedPairs_mem ks b hb
    intro hl hdl hne
    rw [mkey_cons f ks a.1 a.2 q hka, mkey_cons f ks b.1 b.2 p hkb]
    cases q with
    | nil =>
      cases p with
      | nil => simpa [mkey, get?, ← Lemmas.Nav.leftmost_eq_minLeaf] using hab
      | cons _ _ => simp at hl
    | cons c q =>
      cases p with
      | nil => simp at hl
      | cons e p =>
        simp only [List.dropLast_cons_cons, List.cons.injEq] at hdl
        exfalso
        rw [hdl.1, hkb] at hka
        have := Option.some.inj hka
        rw [this] at hab
        omega

theorem sibRel_nil_left (t : Tree) (p : Path) : SibRel t [] p := by
  intro hl _ hne
  exact absurd (List.eq_nil_of_length_eq_zero hl.symm).symm hne

theorem sibRel_nil_right (t : Tree) (q : Path) : SibRel t q [] := by
  intro hl _ hne
  exact absurd (List.eq_nil_of_length_eq_zero hl) hne

theorem preorderP_sibRel : ∀ t : Tree, sibDistinct t = true → (preorderP t).Pairwise (SibRel t) := by
  refine TT.Lemmas.WF.tree_ind ?_ ?_
  · intro n f _; simp [preorderP]
  · intro f ks ih hd
    obtain ⟨hnd, hk⟩ := TT.Lemmas.WF.sibDistinct_kids f ks hd
    rw [preorderP_node, List.pairwise_cons]
    exact ⟨fun p _ => sibRel_nil_left _ p, sibRel_blocks f ks hnd preorderP (fun k hkm => ih k hkm (hk k hkm))⟩

theorem postorderP_sibRel : ∀ t : Tree, sibDistinct t = true → (postorderP t).Pairwise (SibRel t) := by
  refine TT.Lemmas.WF.tree_ind ?_ ?_
  · intro n f _; simp [postorderP]
  · intro f ks ih hd
    obtain ⟨hnd, hk⟩ := TT.Lemmas.WF.sibDistinct_kids f ks hd
    rw [postorderP_node, List.pairwise_append]
    refine ⟨sibRel_blocks f ks hnd postorderP (fun k hkm => ih k hkm (hk k hkm)), by simp, ?_⟩
    intro q _ p hp
    rw [List.mem_singleton.1 hp]
    exact sibRel_nil_right _ q


/-! ### a subtree is one contiguous segment of the preorder / postorder -/

theorem isPrefix_append (p x : Path) : isPrefix p (p ++ x) = true := by
  induction p with
  | nil => rfl
  | cons a p ih => simp [isPrefix, ih]

theorem sortedPairs_split (ks : List Tree) (i : Nat) (k : Tree) (h : ks[i]? = some k) :
    ∃ L R, sortedPairs ks = L ++ (i, k) :: R ∧ (∀ b ∈ L, b.1 ≠ i) ∧ (∀ b ∈ R, b.1 ≠ i) := by
  have hi : i ∈ orderedIdx ks := by
    rw [(orderedIdx_perm ks).mem_iff, List.mem_range]; exact (List.getElem?_eq_some_iff.1 h).1
  rw [orderedIdx_eq] at hi
  obtain ⟨a, ha, hai⟩ := List.mem_map.1 hi
  have hak := sortedPairs_mem ks a ha
  rw [hai, h] at hak
  obtain ⟨L, R, hLR⟩ := List.append_of_mem ha
  have ha' : a = (i, k) := Prod.ext hai (Option.some.inj hak).symm
  rw [ha'] at hLR
  have hn := orderedIdx_nodup ks
  rw [orderedIdx_eq, hLR, List.map_append, List.map_cons, List.nodup_append] at hn
  obtain ⟨_, hn2, hn3⟩ := hn
  refine ⟨L, R, hLR, ?_, ?_⟩
  · intro b hb hbi
    exact hn3 b.1 (List.mem_map_of_mem hb) i (by simp) hbi
  · intro b hb hbi
    rw [List.nodup_cons] at hn2
    exact hn2.1 (List.mem_map.2 ⟨b, hb, hbi⟩)

theorem isPrefix_cons_block (i : Nat) (p : Path) (L : List (Nat × Tree)) (X : Tree → List Path) (hL : ∀ b ∈ L, b.1 ≠ i) :
    ∀ q ∈ L.flatMap (fun b => (X b.2).map (b.1 :: ·)), isPrefix (i :: p) q = false := by
  intro q hq
  obtain ⟨b, hb, hq⟩ := List.mem_flatMap.1 hq
  obtain ⟨q', _, rfl⟩ := List.mem_map.1 hq
  have := hL b hb
  simp [isPrefix, Ne.symm this]

theorem preorderP_segment : ∀ (p : Path) (t s : Tree), t.get? p = some s →
    ∃ A C, preorderP t = A ++ (preorderP s).map (p ++ ·) ++ C ∧
      (∀ q ∈ A, isPrefix p q = false) ∧ (∀ q ∈ C, isPrefix p q = false)
  | [], t, s, h => by
    simp only [get?, Option.some.injEq] at h; subst h
    exact ⟨[], [], by simp, by simp, by simp⟩
  | i :: p, .leaf _ _, s, h => by simp [get?] at h
  | i :: p, .node f ks, s, h => by
    simp only [get?] at h
    cases hk : ks[i]? with
    | none => simp [hk] at h
    | some k =>
      simp only [hk] at h
      obtain ⟨A', C', he, hA, hC⟩ := preorderP_segment p k s h
      obtain ⟨L, R, hLR, hL, hR⟩ := sortedPairs_split ks i k hk
      refine ⟨[] :: L.flatMap (fun b => (preorderP b.2).map (b.1 :: ·)) ++ A'.map (i :: ·),
        C'.map (i :: ·) ++ R.flatMap (fun b => (preorderP b.2).map (b.1 :: ·)), ?_, ?_, ?_⟩
      · rw [preorderP_node, hLR, List.flatMap_append, List.flatMap_cons, he]
        simp [List.map_append, List.map_map, Function.comp_def]
      · intro q hq
        rcases List.mem_append.1 hq with hq | hq
        · rcases List.mem_cons.1 hq with rfl | hq
          · rfl
          · exact isPrefix_cons_block i p L preorderP hL q hq
        · obtain ⟨q', hq', rfl⟩ := List.mem_map.1 hq
          simp [isPrefix, hA q' hq']
      · intro q hq
        rcases List.mem_append.1 hq with hq | hq
        · obtain ⟨q', hq', rfl⟩ := List.mem_map.1 hq
          simp [isPrefix, hC q' hq']
        · exact isPrefix_cons_block i p R preorderP hR q hq

theorem preorderP_head (s : Tree) : ∃ r, preorderP s = [] :: r := by
  cases s with
  | leaf n f => exact ⟨[], rfl⟩
  | node f ks => exact ⟨_, rfl⟩


section C20
open TT.Lemmas.C20

/-! ### C20: cutting a built label -/

theorem splitLast_none (c : Char) : ∀ s : Str, c ∉ s → splitLast c s = none
  | [], _ => rfl
  | x :: xs, h => by
    simp only [List.mem_cons, not_or] at h
    simp [splitLast, splitLast_none c xs h.2, Ne.symm h.1]

theorem splitLast_append (c : Char) (b : Str) (hb : c ∉ b) : ∀ a : Str, splitLast c (a ++ c :: b) = some (a, b)
  | [] => by simp [splitLast, splitLast_none c b hb]
  | x :: a => by simp [splitLast, splitLast_append c b hb a]

theorem splitFirst_append (c : Char) (b : Str) : ∀ a : Str, c ∉ a → splitFirst c (a ++ c :: b) = some (a, b)
  | [], _ => by simp [splitFirst]
  | x :: a, h => by
    simp only [List.mem_cons, not_or] at h
    simp [splitFirst, Ne.symm h.1, splitFirst_append c b a h.2]

theorem not_mem_of_pyIsDigit {d : Str} {c : Char} (hd : pyIsDigit d = true) (hc : c.isDigit = false) : c ∉ d := by
  intro hm
  simp only [pyIsDigit, Bool.and_eq_true, List.all_eq_true] at hd
  rw [hd.2 c hm] at hc; cases hc

theorem pyIsDigit_false_of_mem {b : Str} {y : Char} (hy : y.isDigit = false) (hm : y ∈ b) : pyIsDigit b = false := by
  cases h : pyIsDigit b with
  | false => rfl
  | true => exact absurd hm (not_mem_of_pyIsDigit h hy)

/-- the index is found: `…<c><digits>` -/
theorem stripIndex_found (c : Char) (hc : c.isDigit = false) (a d : Str) (hd : pyIsDigit d = true) :
    stripIndex c (a ++ c :: d) = (d, a) := by
  simp [stripIndex, splitLast_append c d (not_mem_of_pyIsDigit hd hc) a, hd]

/-- no index: whatever follows the last `c` is not a digit string -/
theorem stripIndex_skip (c : Char) (s : Str) (h : ∀ a b, s = a ++ c :: b → pyIsDigit b = false) :
    stripIndex c s = ([], s) := by
  unfold stripIndex
  cases hs : splitLast c s with
  | none => rfl
  | some p =>
    obtain ⟨a, b⟩ := p
    simp [h a b (splitLast_eq c s a b hs)]

/-- L1: the string ends in a non-digit -/
theorem suffix_not_digits_last (s a b : Str) (c x : Char) (hx : x.isDigit = false) (hl : s.getLast? = some x)
    (hs : s = a ++ c :: b) : pyIsDigit b = false := by
  cases b with
  | nil => rfl
  | cons y b =>
    refine pyIsDigit_false_of_mem hx ?_
    subst hs
    have : a ++ c :: y :: b = (a ++ [c]) ++ (y :: b) := by simp
    rw [this, List.getLast?_append] at hl
    cases hyb : (y :: b).getLast? with
    | none => simp at hyb
    | some z =>
      rw [hyb] at hl
      simp only [Option.some_or, Option.some.injEq] at hl
      exact hl ▸ List.mem_of_getLast? hyb

/-- L2: the string ends in `y :: d` with `y` a non-digit other than `c`, and `c` does not occur in `d` -/
theorem suffix_not_digits_behind (P d a b : Str) (c y : Char) (hy : y.isDigit = false) (hyc : y ≠ c) (hcd : c ∉ d)
    (hs : P ++ y :: d = a ++ c :: b) : pyIsDigit b = false := by
  refine pyIsDigit_false_of_mem hy ?_
  rcases List.append_eq_append_iff.1 hs with ⟨a', _, h2⟩ | ⟨c', _, h2⟩
  · cases a' with
    | nil => simp at h2; exact absurd h2.1 hyc
    | cons z a' =>
      simp only [List.cons_append, List.cons.injEq] at h2
      exact absurd (h2.2 ▸ by simp) hcd
  · cases c' with
    | nil => simp at h2; exact absurd h2.1.symm hyc
    | cons z c' =>
      simp only [List.cons_append, List.cons.injEq] at h2
      rw [h2.2]; simp

end C20

end TT.Lemmas.More12g
