/-
  Lemmas for C11 (slash annotation, wave 19): what `annotAt` does to every node (root view by storage path), the
  model's path lists `between` as sets of proper prefixes, and their agreement with `Spec.slashPath`.
-/
import TT.Spec.More19a
import TT.Lemmas.More17c
import TT.Props.C11Slash4
namespace TT.Lemmas.Slash19
open TT TT.Tree TT.Spec TT.Lemmas.Slash TT.Props.C11Slash4

/-! ## the root of the subtree at a path: token number (if a token) and fields -/

def rootOf : Tree → Option Nat × Fields
  | leaf n f => (some n, f)
  | node f _ => (none, f)

def rootAt (t : Tree) (q : Path) : Option (Option Nat × Fields) := (t.get? q).map rootOf

/-- `label += s` on a constituent, nothing on a token; only when `c` -/
def addLabel (s : Str) (c : Bool) (v : Option Nat × Fields) : Option Nat × Fields :=
  if c && v.1.isNone then (v.1, { v.2 with label := v.2.label ++ s }) else v

theorem addLabel_false (s : Str) (v : Option Nat × Fields) : addLabel s false v = v := by simp [addLabel]

theorem rootAt_nil (t : Tree) : rootAt t [] = some (rootOf t) := by simp [rootAt, get?]

theorem rootAt_leaf_cons (n : Nat) (f : Fields) (i : Nat) (q : Path) : rootAt (leaf n f) (i :: q) = none := by
  simp [rootAt, get?]

theorem rootAt_node_cons (f : Fields) (ks : List Tree) (j : Nat) (q : Path) :
    rootAt (node f ks) (j :: q) = (ks[j]?).bind (rootAt · q) := by
  simp only [rootAt, get?]
  cases ks[j]? <;> rfl

mutual
theorem rootAt_annotAt (s : Str) : (t : Tree) → (p q : Path) →
    rootAt (annotAt s t p) q = (rootAt t q).map (addLabel s (decide (q = p)))
  | leaf n f, p, q => by
    cases q with
    | nil => simp [annotAt, rootAt_nil, rootOf, addLabel]
    | cons j q => simp [annotAt, rootAt_leaf_cons]
  | node f ks, [], q => by
    cases q with
    | nil => simp [annotAt, rootAt_nil, rootOf, addLabel]
    | cons j q =>
      simp only [annotAt, rootAt_node_cons]
      have : decide (j :: q = []) = false := by simp
      rw [this]
      cases ks[j]?.bind (rootAt · q) <;> simp [addLabel_false]
  | node f ks, i :: p, q => by
    cases q with
    | nil => simp [annotAt, rootAt_nil, rootOf, addLabel]
    | cons j q =>
      simp only [annotAt, rootAt_node_cons]
      rw [rootAt_annotAtL s ks i p j q]
      have : decide (j :: q = i :: p) = (decide (j = i) && decide (q = p)) := by simp
      rw [this]
theorem rootAt_annotAtL (s : Str) : (ks : List Tree) → (i : Nat) → (p : Path) → (j : Nat) → (q : Path) →
    ((annotAtL s ks i p)[j]?).bind (rootAt · q) =
      ((ks[j]?).bind (rootAt · q)).map (addLabel s (decide (j = i) && decide (q = p)))
  | [], i, p, j, q => by simp [annotAtL]
  | t :: ts, 0, p, j, q => by
    cases j with
    | zero => simp [annotAtL, rootAt_annotAt s t p q]
    | succ j =>
      simp only [annotAtL, List.getElem?_cons_succ]
      have : (decide (j + 1 = 0) && decide (q = p)) = false := by simp
      rw [this]
      cases ts[j]?.bind (rootAt · q) <;> simp [addLabel_false]
  | t :: ts, i + 1, p, j, q => by
    cases j with
    | zero =>
      simp only [annotAtL, List.getElem?_cons_zero]
      have : (decide (0 = i + 1) && decide (q = p)) = false := by simp
      rw [this]
      cases (some t).bind (rootAt · q) <;> simp [addLabel_false]
    | succ j =>
      simp only [annotAtL, List.getElem?_cons_succ]
      rw [rootAt_annotAtL s ts i p j q]
      simp
end

theorem addLabel_comp (s : Str) (c1 c2 : Bool) (h : ¬ (c1 = true ∧ c2 = true)) (v : Option Nat × Fields) :
    addLabel s c2 (addLabel s c1 v) = addLabel s (c1 || c2) v := by
  obtain ⟨n, f⟩ := v
  cases c1 <;> cases c2 <;> cases n <;> simp_all [addLabel]

/-- a list of different paths, one piece: every constituent on the list grows by the piece, nothing else changes -/
theorem rootAt_foldl (s : Str) : ∀ (ps : List Path) (t : Tree) (q : Path), ps.Nodup →
    rootAt (ps.foldl (fun acc p => annotAt s acc p) t) q = (rootAt t q).map (addLabel s (decide (q ∈ ps)))
  | [], t, q, _ => by
    simp only [List.foldl_nil, List.not_mem_nil, decide_false]
    cases rootAt t q <;> simp [addLabel_false]
  | p :: ps, t, q, hn => by
    obtain ⟨hp, hps⟩ := List.nodup_cons.1 hn
    simp only [List.foldl_cons]
    rw [rootAt_foldl s ps _ q hps, rootAt_annotAt]
    cases rootAt t q with
    | none => rfl
    | some v =>
      simp only [Option.map_some]
      rw [addLabel_comp s _ _ (by
        rintro ⟨h1, h2⟩
        simp only [decide_eq_true_eq] at h1 h2
        subst h1; exact hp h2)]
      congr 2
      simp [List.mem_cons]

theorem labelAtPath_eq (t : Tree) (q : Path) : labelAtPath t q = ((rootAt t q).map (·.2.label)).getD [] := by
  unfold labelAtPath rootAt
  cases t.get? q with
  | none => rfl
  | some x => cases x <;> rfl

/-- the node at `q` is a constituent (not a token, not missing) -/
def consAt (t : Tree) (q : Path) : Bool := match rootAt t q with | some (none, _) => true | _ => false

theorem labelAtPath_foldl (s : Str) (ps : List Path) (t : Tree) (q : Path) (hn : ps.Nodup) :
    labelAtPath (ps.foldl (fun acc p => annotAt s acc p) t) q =
      if q ∈ ps ∧ consAt t q = true then labelAtPath t q ++ s else labelAtPath t q := by
  rw [labelAtPath_eq, labelAtPath_eq, rootAt_foldl s ps t q hn]
  unfold consAt
  cases rootAt t q with
  | none => simp
  | some v =>
    obtain ⟨n, f⟩ := v
    by_cases hq : q ∈ ps <;> cases n <;> simp [addLabel, hq]

theorem isSome_foldl (s : Str) (ps : List Path) (t : Tree) (q : Path) (hn : ps.Nodup) :
    ((ps.foldl (fun acc p => annotAt s acc p) t).get? q).isSome = (t.get? q).isSome := by
  have := congrArg Option.isSome (rootAt_foldl s ps t q hn)
  simpa [rootAt] using this

/-! ## the skeleton is untouched -/

mutual
theorem erase_annotAt (s : Str) : (t : Tree) → (p : Path) → eraseConsLabels (annotAt s t p) = eraseConsLabels t
  | leaf _ _, _ => by simp [annotAt]
  | node f ks, [] => by simp [annotAt, eraseConsLabels]
  | node f ks, i :: p => by simp [annotAt, eraseConsLabels, erase_annotAtL s ks i p]
theorem erase_annotAtL (s : Str) : (ks : List Tree) → (i : Nat) → (p : Path) →
    eraseConsLabelsL (annotAtL s ks i p) = eraseConsLabelsL ks
  | [], _, _ => by simp [annotAtL]
  | t :: ts, 0, p => by simp [annotAtL, eraseConsLabelsL, erase_annotAt s t p]
  | t :: ts, i + 1, p => by simp [annotAtL, eraseConsLabelsL, erase_annotAtL s ts i p]
end

theorem erase_foldl (s : Str) : ∀ (ps : List Path) (t : Tree),
    eraseConsLabels (ps.foldl (fun acc p => annotAt s acc p) t) = eraseConsLabels t
  | [], _ => rfl
  | p :: ps, t => by simp only [List.foldl_cons]; rw [erase_foldl s ps, erase_annotAt]

/-! ## the model's path lists as sets of proper prefixes -/

theorem ancestors_eq (p : Path) : ancestors p = (List.range p.length).reverse.map (p.take ·) := by
  unfold ancestors dominancePaths
  rw [List.range_succ, List.reverse_append]
  simp

theorem ancestors_pairwise (p : Path) : (ancestors p).Pairwise (fun a b => b.length < a.length) := by
  rw [ancestors_eq, List.pairwise_map, List.pairwise_reverse]
  refine List.Pairwise.imp_of_mem ?_ (List.pairwise_lt_range (n := p.length))
  intro a b ha hb hab
  simp only [List.mem_range] at ha hb
  simp only [List.length_take]
  omega

theorem mem_takeWhile_len (g : Path) : ∀ l : List Path, l.Pairwise (fun a b => b.length < a.length) → g ∈ l →
    ∀ q, q ∈ l.takeWhile (fun x => x != g) ↔ (q ∈ l ∧ g.length < q.length)
  | [], _, hg, _ => by simp at hg
  | a :: l, hp, hg, q => by
    obtain ⟨ha, hl⟩ := List.pairwise_cons.1 hp
    by_cases hag : a = g
    · subst hag
      simp only [List.takeWhile_cons, bne_self_eq_false, Bool.false_eq_true, ↓reduceIte, List.not_mem_nil, List.mem_cons,
        false_iff, not_and, Nat.not_lt]
      rintro (rfl | h)
      · exact Nat.le_refl _
      · exact Nat.le_of_lt (ha q h)
    · have hgl : g ∈ l := by
        rcases List.mem_cons.1 hg with h | h
        · exact absurd h.symm hag
        · exact h
      have hne : (a != g) = true := by simpa using hag
      simp only [List.takeWhile_cons, hne, ↓reduceIte, List.mem_cons, mem_takeWhile_len g l hl hgl q]
      constructor
      · rintro (rfl | h)
        · exact ⟨Or.inl rfl, ha g hgl⟩
        · exact ⟨Or.inr h.1, h.2⟩
      · rintro ⟨rfl | h, h2⟩
        · exact Or.inl rfl
        · exact Or.inr ⟨h, h2⟩

theorem prefix_ne_length_lt {q p : Path} (h : q <+: p) (hne : q ≠ p) : q.length < p.length := by
  rcases Nat.lt_or_ge q.length p.length with hl | hl
  · exact hl
  · exact absurd (h.eq_of_length (Nat.le_antisymm h.length_le hl)) hne

/-- `between x g` for a node `g` that dominates `x`: the nodes strictly between the two -/
theorem mem_between (x g q : Path) (hg : g <+: x) :
    q ∈ between x g ↔ (q <+: x ∧ q ≠ x ∧ g.length < q.length) := by
  unfold between
  by_cases hx : x = g
  · subst hx
    simp only [↓reduceIte, List.not_mem_nil, false_iff, not_and, Nat.not_lt]
    intro h1 h2
    exact Nat.le_of_lt (prefix_ne_length_lt h1 h2)
  · rw [if_neg hx, mem_takeWhile_len g _ (ancestors_pairwise x) ((mem_ancestors x g).2 ⟨hg, fun e => hx e.symm⟩),
      mem_ancestors]
    exact and_assoc

theorem between_nodup (x g : Path) : (between x g).Nodup := by
  unfold between
  split
  · exact List.nodup_nil
  · have h : (ancestors x).Nodup := (ancestors_pairwise x).imp (fun hab e => by rw [e] at hab; exact Nat.lt_irrefl _ hab)
    exact h.sublist (List.takeWhile_sublist _)

theorem prefix_commonPrefix : ∀ q p r : Path, q <+: p → q <+: r → q <+: commonPrefix p r
  | [], _, _, _, _ => List.nil_prefix
  | a :: q, [], _, h, _ => by simp at h
  | a :: q, _ :: _, [], _, h => by simp at h
  | a :: q, b :: p, c :: r, h1, h2 => by
    obtain ⟨rfl, h1'⟩ := List.cons_prefix_cons.1 h1
    obtain ⟨rfl, h2'⟩ := List.cons_prefix_cons.1 h2
    simp only [commonPrefix, ↓reduceIte]
    exact List.cons_prefix_cons.2 ⟨rfl, prefix_commonPrefix q p r h1' h2'⟩

/-- the goal of the two walks is the greatest common prefix: the lowest common ancestor, or the filler itself when it
    dominates the trace -/
theorem slashGoal_eq (f tr g : Path) (h : slashGoal f tr = some g) : g = commonPrefix f tr := by
  unfold slashGoal at h
  cases hl : lca f tr with
  | some c =>
    rw [hl] at h
    simp only [Option.some.injEq] at h
    subst h
    unfold lca at hl
    simp only at hl
    split at hl
    · cases hl
    · simp only [Option.some.injEq] at hl; exact hl.symm
  | none =>
    rw [hl] at h
    simp only [List.contains_eq_mem, decide_eq_true_eq, mem_dominancePaths] at h
    split at h
    · rename_i hp
      simp only [Option.some.injEq] at h
      subst h
      exact (commonPrefix_of_prefix _ _ hp).symm
    · cases h

/-! ## ... and the specification's -/

theorem isPrefix_iff : ∀ q p : Path, isPrefix q p = true ↔ q <+: p
  | [], _ => by simp [isPrefix]
  | _ :: _, [] => by simp [isPrefix]
  | a :: q, b :: p => by
    simp only [isPrefix, Bool.and_eq_true, beq_iff_eq, isPrefix_iff q p, List.cons_prefix_cons]

theorem mem_properAncestors (p q : Path) : q ∈ properAncestors p ↔ (q <+: p ∧ q ≠ p) := by
  unfold properAncestors
  simp only [List.mem_map, List.mem_range]
  constructor
  · rintro ⟨k, hk, rfl⟩
    refine ⟨List.take_prefix k p, fun h => ?_⟩
    have := congrArg List.length h
    simp at this; omega
  · rintro ⟨h, hne⟩
    exact ⟨q.length, prefix_ne_length_lt h hne, (List.prefix_iff_eq_take.1 h).symm⟩

theorem mem_slashPath (tr f q : Path) :
    q ∈ slashPath tr f ↔ (((q <+: tr ∧ q ≠ tr) ∨ (q <+: f ∧ q ≠ f)) ∧ ¬ (q <+: tr ∧ q <+: f)) := by
  unfold slashPath
  simp only [List.mem_filter, List.mem_append, mem_properAncestors, Bool.not_eq_eq_eq_not, Bool.not_true,
    ← Bool.not_eq_true, Bool.and_eq_true, isPrefix_iff]

/-- the nodes the model's two walks annotate are exactly the nodes of `Spec.slashPath`, each once -/
theorem walks_eq_slashPath (tr f g : Path) (h : slashGoal f tr = some g) :
    (between f g ++ between tr g).Nodup ∧ ∀ q, q ∈ between f g ++ between tr g ↔ q ∈ slashPath tr f := by
  have hg := slashGoal_eq f tr g h
  have hgf : g <+: f := hg ▸ commonPrefix_prefix_left f tr
  have hgt : g <+: tr := hg ▸ commonPrefix_prefix_right f tr
  have key : ∀ x q : Path, g <+: x → q <+: x → (g.length < q.length ↔ ¬ (q <+: tr ∧ q <+: f)) := by
    intro x q hgx hqx
    constructor
    · rintro hl ⟨h1, h2⟩
      have := (hg ▸ prefix_commonPrefix q f tr h2 h1 : q <+: g).length_le
      omega
    · intro hn
      rcases Nat.lt_or_ge g.length q.length with hl | hl
      · exact hl
      · have hqg : q <+: g := List.prefix_of_prefix_length_le hqx hgx hl
        exact absurd ⟨hqg.trans hgt, hqg.trans hgf⟩ hn
  refine ⟨?_, ?_⟩
  · refine List.nodup_append.2 ⟨between_nodup f g, between_nodup tr g, ?_⟩
    intro a ha b hb e
    subst e
    obtain ⟨h1, _, h3⟩ := (mem_between f g a hgf).1 ha
    obtain ⟨h4, _, _⟩ := (mem_between tr g a hgt).1 hb
    exact ((key f a hgf h1).1 h3) ⟨h4, h1⟩
  · intro q
    rw [List.mem_append, mem_between f g q hgf, mem_between tr g q hgt, mem_slashPath]
    constructor
    · rintro (⟨h1, h2, h3⟩ | ⟨h1, h2, h3⟩)
      · exact ⟨Or.inr ⟨h1, h2⟩, (key f q hgf h1).1 h3⟩
      · exact ⟨Or.inl ⟨h1, h2⟩, (key tr q hgt h1).1 h3⟩
    · rintro ⟨⟨h1, h2⟩ | ⟨h1, h2⟩, h3⟩
      · exact Or.inr ⟨h1, h2, (key tr q hgt h1).2 h3⟩
      · exact Or.inl ⟨h1, h2, (key f q hgf h1).2 h3⟩

end TT.Lemmas.Slash19
