/-
  Helper lemmas for C11 (token editing): how `delLeaf`/`deleteTerminal`, `deleteMany`, `modifyLeaf`,
  `mapNums`, `insertStep`, `traceStep`, `cleanLabels` act on the tokens (`leaves`, `terminals`,
  `sentence`, `yield`), plus the list facts relating "filter by token number" to "drop positions".
  Core only (no Mathlib).
-/
import TT.Spec.Edit
import TT.Lemmas.Sort
import TT.Lemmas.Nav
import TT.Lemmas.WF
namespace TT.Lemmas.Edit
open TT TT.Tree TT.Spec TT.Lemmas.WF

@[simp] theorem num_leaf (n : Nat) (f : Fields) : (leaf n f).num = n := rfl
@[simp] theorem num_node (f : Fields) (ks : List Tree) : (node f ks).num = 0 := rfl
@[simp] theorem isLeaf_leaf (n : Nat) (f : Fields) : (leaf n f).isLeaf = true := rfl
@[simp] theorem isLeaf_node (f : Fields) (ks : List Tree) : (node f ks).isLeaf = false := rfl
@[simp] theorem fields_leaf (n : Nat) (f : Fields) : (leaf n f).fields = f := rfl
@[simp] theorem fields_node (f : Fields) (ks : List Tree) : (node f ks).fields = f := rfl

/-! ### sorting: filters and monotone maps -/

theorem insertBy_filter {α} (key : α → Nat) (p : α → Bool) (x : α) (l : List α)
    (hs : l.Pairwise (fun a b => key a ≤ key b)) :
    (insertBy key x l).filter p = if p x then insertBy key x (l.filter p) else l.filter p := by
  induction l with
  | nil => by_cases hx : p x <;> simp [insertBy, hx]
  | cons y ys ih =>
    have hs' := List.pairwise_cons.1 hs
    simp only [insertBy]
    by_cases hxy : key x ≤ key y
    · simp only [hxy, if_true]
      by_cases hx : p x
      · simp only [hx, if_true, List.filter_cons_of_pos]
        rw [insertBy_of_le]
        intro z hz
        have hz' := (List.mem_filter.1 hz).1
        rcases List.mem_cons.1 hz' with rfl | hz''
        · exact hxy
        · exact Nat.le_trans hxy (hs'.1 z hz'')
      · simp [hx]
    · simp only [hxy, if_false]
      by_cases hy : p y
      · simp only [List.filter_cons_of_pos hy, ih hs'.2]
        by_cases hx : p x
        · simp [hx, insertBy, hxy]
        · simp [hx]
      · have hy' : p y = false := by simpa using hy
        simp only [List.filter_cons, hy', ih hs'.2]
        simp

/-- the stable sort commutes with filtering -/
theorem sortBy_filter {α} (key : α → Nat) (p : α → Bool) (l : List α) :
    sortBy key (l.filter p) = (sortBy key l).filter p := by
  induction l with
  | nil => rfl
  | cons x xs ih =>
    simp only [sortBy, insertBy_filter key p x _ (sortBy_sorted key xs)]
    by_cases hx : p x
    · simp [hx, sortBy, ih]
    · simp [hx, ih]

theorem insertBy_map_mono {α β} (key : α → Nat) (key' : β → Nat) (f : α → β) (x : α) (l : List α)
    (h : ∀ b ∈ l, (key' (f x) ≤ key' (f b) ↔ key x ≤ key b)) :
    insertBy key' (f x) (l.map f) = (insertBy key x l).map f := by
  induction l with
  | nil => rfl
  | cons y ys ih =>
    simp only [List.map_cons, insertBy, h y List.mem_cons_self]
    split
    · rfl
    · simp [ih (fun b hb => h b (List.mem_cons_of_mem _ hb))]

/-- the stable sort commutes with a map that preserves the order of the keys on the list -/
theorem sortBy_map_mono {α β} (key : α → Nat) (key' : β → Nat) (f : α → β) (l : List α)
    (h : ∀ a ∈ l, ∀ b ∈ l, (key' (f a) ≤ key' (f b) ↔ key a ≤ key b)) :
    sortBy key' (l.map f) = (sortBy key l).map f := by
  induction l with
  | nil => rfl
  | cons x xs ih =>
    simp only [List.map_cons, sortBy]
    rw [ih (fun a ha b hb => h a (List.mem_cons_of_mem _ ha) b (List.mem_cons_of_mem _ hb))]
    exact insertBy_map_mono key key' f x _
      (fun b hb => h x List.mem_cons_self b (List.mem_cons_of_mem _ ((mem_sortBy key xs b).1 hb)))

end TT.Lemmas.Edit
