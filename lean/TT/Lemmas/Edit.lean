/-
  Helper lemmas for C11 (token editing): how `delLeaf`/`deleteTerminal`, `deleteMany`, `modifyLeaf`,
  `mapNums`, `insertStep`, `traceStep`, `cleanLabels` act on the tokens (`leaves`, `terminals`,
  `sentence`, `yield`), plus the list facts relating "filter by token number" to "drop positions".
  Core only (no Mathlib).
-/
import TT.Spec.Edit
import TT.Lemmas.Sort
import TT.Lemmas.Nav
import TT.Lemmas.WF
namespace TT.Lemmas.Edit
open TT TT.Tree TT.Spec TT.Lemmas.WF

@[simp] theorem num_leaf (n : Nat) (f : Fields) : (leaf n f).num = n := rfl
@[simp] theorem num_node (f : Fields) (ks : List Tree) : (node f ks).num = 0 := rfl
@[simp] theorem isLeaf_leaf (n : Nat) (f : Fields) : (leaf n f).isLeaf = true := rfl
@[simp] theorem isLeaf_node (f : Fields) (ks : List Tree) : (node f ks).isLeaf = false := rfl
@[simp] theorem fields_leaf (n : Nat) (f : Fields) : (leaf n f).fields = f := rfl
@[simp] theorem fields_node (f : Fields) (ks : List Tree) : (node f ks).fields = f := rfl

/-! ### sorting: filters and monotone maps -/

theorem insertBy_filter {α} (key : α → Nat) (p : α → Bool) (x : α) (l : List α)
    (hs : l.Pairwise (fun a b => key a ≤ key b)) :
    (insertBy key x l).filter p = if p x then insertBy key x (l.filter p) else l.filter p := by
  induction l with
  | nil => by_cases hx : p x <;> simp [insertBy, hx]
  | cons y ys ih =>
    have hs' := List.pairwise_cons.1 hs
    simp only [insertBy]
    by_cases hxy : key x ≤ key y
    · simp only [hxy, if_true]
      by_cases hx : p x
      · simp only [hx, if_true, List.filter_cons_of_pos]
        rw [insertBy_of_le]
        intro z hz
        have hz' := (List.mem_filter.1 hz).1
        rcases List.mem_cons.1 hz' with rfl | hz''
        · exact hxy
        · exact Nat.le_trans hxy (hs'.1 z hz'')
      · simp [hx]
    · simp only [hxy, if_false]
      by_cases hy : p y
      · simp only [List.filter_cons_of_pos hy, ih hs'.2]
        by_cases hx : p x
        · simp [hx, insertBy, hxy]
        · simp [hx]
      · have hy' : p y = false := by simpa using hy
        simp only [List.filter_cons, hy', ih hs'.2]
        simp

/-- the stable sort commutes with filtering -/
theorem sortBy_filter {α} (key : α → Nat) (p : α → Bool) (l : List α) :
    sortBy key (l.filter p) = (sortBy key l).filter p := by
  induction l with
  | nil => rfl
  | cons x xs ih =>
    simp only [sortBy, insertBy_filter key p x _ (sortBy_sorted key xs)]
    by_cases hx : p x
    · simp [hx, sortBy, ih]
    · simp [hx, ih]

theorem insertBy_map_mono {α β} (key : α → Nat) (key' : β → Nat) (f : α → β) (x : α) (l : List α)
    (h : ∀ b ∈ l, (key' (f x) ≤ key' (f b) ↔ key x ≤ key b)) :
    insertBy key' (f x) (l.map f) = (insertBy key x l).map f := by
  induction l with
  | nil => rfl
  | cons y ys ih =>
    simp only [List.map_cons, insertBy, h y List.mem_cons_self]
    split
    · rfl
    · simp [ih (fun b hb => h b (List.mem_cons_of_mem _ hb))]

/-- the stable sort commutes with a map that preserves the order of the keys on the list -/
theorem sortBy_map_mono {α β} (key : α → Nat) (key' : β → Nat) (f : α → β) (l : List α)
    (h : ∀ a ∈ l, ∀ b ∈ l, (key' (f a) ≤ key' (f b) ↔ key a ≤ key b)) :
    sortBy key' (l.map f) = (sortBy key l).map f := by
  induction l with
  | nil => rfl
  | cons x xs ih =>
    simp only [List.map_cons, sortBy]
    rw [ih (fun a ha b hb => h a (List.mem_cons_of_mem _ ha) b (List.mem_cons_of_mem _ hb))]
    exact insertBy_map_mono key key' f x _
      (fun b hb => h x List.mem_cons_self b (List.mem_cons_of_mem _ ((mem_sortBy key xs b).1 hb)))

/-! ### tokens: basic facts -/

theorem leavesL_append (a b : List Tree) : leavesL (a ++ b) = leavesL a ++ leavesL b := by
  simp [leavesL_eq]

theorem leaves_node' (f : Fields) (ks : List Tree) : (node f ks).leaves = leavesL ks := by
  simp [leaves]

theorem leafNums_node' (f : Fields) (ks : List Tree) : (node f ks).leafNums = (leavesL ks).map num := by
  simp [leafNums, leaves]

theorem terminals_length (t : Tree) : t.terminals.length = t.leafNums.length := by
  simp [terminals, sortBy_length, leafNums]

theorem yield_length (t : Tree) : t.yield.length = t.leafNums.length := by
  simp [yield, terminals_length]

theorem sentence_length (t : Tree) : t.sentence.length = t.leafNums.length := by
  simp [sentence, terminals_length]

theorem mem_terminals (t : Tree) (l : Tree) : l ∈ t.terminals ↔ l ∈ t.leaves := mem_sortBy num _ l

/-- the token-level view of a sentence entry -/
def tok (l : Tree) : Tok := (l.fields.word, l.fields.label)

theorem sentence_eq (t : Tree) : t.sentence = t.terminals.map tok := rfl

/-- tokens are numbered `1..n` and the root is a constituent (what the editing steps preserve,
    also when the root ends up childless) -/
def Numbered (t : Tree) : Prop := t.isLeaf = false ∧ t.yield = List.range' 1 t.leafNums.length

theorem Numbered_of_WF (t : Tree) (h : WF t = true) : Numbered t := by
  obtain ⟨h1, _, h3, _⟩ := (WF_iff t).1 h
  exact ⟨h1, by rw [Nav.yield_eq]; exact h3⟩

theorem Numbered.nodup {t : Tree} (h : Numbered t) : t.leafNums.Nodup := by
  have hp := yield_perm t
  rw [h.2] at hp
  exact hp.nodup List.nodup_range'

theorem Numbered.mem {t : Tree} (h : Numbered t) (k : Nat) :
    k ∈ t.leafNums ↔ 1 ≤ k ∧ k ≤ t.leafNums.length := by
  rw [← mem_yield, h.2, List.mem_range'_1]; omega

theorem Numbered.terminals_num {t : Tree} (h : Numbered t) :
    t.terminals.map num = List.range' 1 t.terminals.length := by
  rw [terminals_length]; exact h.2

/-! ### `delLeaf` on the tokens -/

/-- the renumbering done by `delete_terminal` -/
def sh (k n : Nat) : Nat := if n > k then n - 1 else n

/-- a token renumbered by `sh k` -/
def shiftTok (k : Nat) : Tree → Tree
  | leaf n f => leaf (sh k n) f
  | node f ks => node f ks

@[simp] theorem num_shiftTok (k : Nat) (x : Tree) : (shiftTok k x).num = sh k x.num := by
  cases x <;> simp [shiftTok, sh]

@[simp] theorem fields_shiftTok (k : Nat) (x : Tree) : (shiftTok k x).fields = x.fields := by
  cases x <;> simp [shiftTok]

@[simp] theorem tok_shiftTok (k : Nat) (x : Tree) : tok (shiftTok k x) = tok x := by
  simp [tok]

theorem sh_le_iff (k a b : Nat) (ha : a ≠ k) (hb : b ≠ k) : sh k a ≤ sh k b ↔ a ≤ b := by
  have := ha; have := hb; unfold sh; split <;> split <;> omega

mutual
theorem delLeaf_leaves (k : Nat) : (t : Tree) →
    (match delLeaf k t with | some t' => t'.leaves | none => []) =
      (t.leaves.filter (fun l => l.num != k)).map (shiftTok k)
  | leaf n f => by
    by_cases h : n = k
    · simp [delLeaf, h, leaves]
    · have h' : (n != k) = true := by simpa using h
      simp [delLeaf, h, leaves, shiftTok, sh, h']
  | node f ks => by
    have ih := delLeafL_leaves k ks
    simp only [delLeaf, leaves]
    by_cases hc : ((delLeafL k ks).isEmpty && !ks.isEmpty) = true
    · simp only [hc, if_true]
      simp only [Bool.and_eq_true, List.isEmpty_iff] at hc
      rw [← ih, hc.1]; rfl
    · simp only [hc]; exact ih
theorem delLeafL_leaves (k : Nat) : (ks : List Tree) →
    leavesL (delLeafL k ks) = ((leavesL ks).filter (fun l => l.num != k)).map (shiftTok k)
  | [] => by simp [delLeafL, leavesL]
  | t :: ts => by
    have ih1 := delLeaf_leaves k t
    have ih2 := delLeafL_leaves k ts
    simp only [delLeafL, leavesL, List.filter_append, List.map_append]
    cases hd : delLeaf k t with
    | some t' => rw [hd] at ih1; simp only [leavesL, ih1, ih2]
    | none => rw [hd] at ih1; simp only [← ih1, ih2, List.nil_append]
end

theorem deleteTerminal_leaves (t : Tree) (k : Nat) (h : t.isLeaf = false) :
    (deleteTerminal t k).leaves = (t.leaves.filter (fun l => l.num != k)).map (shiftTok k) := by
  cases t with
  | leaf n f => simp at h
  | node f ks => simp only [deleteTerminal, leaves]; exact delLeafL_leaves k ks

theorem filter_map_num_sh (k : Nat) (l : List Tree) :
    ((l.filter (fun l => l.num != k)).map (shiftTok k)).map num =
      ((l.map num).filter (· ≠ k)).map (fun n => if n > k then n - 1 else n) := by
  induction l with
  | nil => rfl
  | cons x xs ih =>
    by_cases hx : x.num = k
    · simp [hx, ih]
    · have : (x.num != k) = true := by simpa using hx
      simp only [List.filter_cons, this, if_true, List.map_cons, ih, num_shiftTok, sh]
      simp [hx]

theorem deleteTerminal_isLeaf (t : Tree) (k : Nat) : (deleteTerminal t k).isLeaf = t.isLeaf := by
  cases t <;> rfl

/-- the tokens in order after `delete_terminal` -/
theorem deleteTerminal_terminals (t : Tree) (k : Nat) (h : t.isLeaf = false) :
    (deleteTerminal t k).terminals = (t.terminals.filter (fun l => l.num != k)).map (shiftTok k) := by
  unfold terminals
  rw [deleteTerminal_leaves t k h, ← sortBy_filter]
  refine sortBy_map_mono num num (shiftTok k) _ ?_
  intro a ha b hb
  have ha' : a.num ≠ k := by simpa using (List.mem_filter.1 ha).2
  have hb' : b.num ≠ k := by simpa using (List.mem_filter.1 hb).2
  simp only [num_shiftTok]
  exact sh_le_iff k _ _ ha' hb'

/-! ### numbers `1..n`: filtering by number is dropping positions -/

/-- in a list whose keys are `s+1, s+2, ...`, filtering on the key is filtering on the position -/
theorem filter_key_eq_zipIdx {α β} (key : α → Nat) (g : α → β) (q : Nat → Bool) :
    ∀ (l : List α) (s : Nat), l.map key = List.range' (s + 1) l.length →
      (l.filter (fun a => q (key a))).map g =
        (((l.map g).zipIdx s).filter (fun (p : β × Nat) => q (p.2 + 1))).map (·.1)
  | [], _, _ => rfl
  | x :: xs, s, h => by
    simp only [List.map_cons, List.length_cons, List.range'_succ, List.cons.injEq] at h
    have ih := filter_key_eq_zipIdx key g q xs (s + 1) h.2
    simp only [List.filter_cons, List.map_cons, List.zipIdx_cons, h.1]
    split <;> simp [ih]

theorem filter_num_eq_dropPositions (T : List Tree) (ps : List Nat)
    (h : T.map num = List.range' 1 T.length) :
    (T.filter (fun l => !ps.contains l.num)).map tok = dropPositions (T.map tok) ps := by
  unfold dropPositions
  exact filter_key_eq_zipIdx num tok (fun i => !ps.contains i) T 0 h

/-- in a list whose keys are `s+1, s+2, ...`, changing the element with key `k` is changing position `k` -/
theorem map_key_eq_zipIdx {α β} (key : α → Nat) (g : α → β) (m : α → α) (c : β → β) (k : Nat)
    (hm : ∀ a, g (m a) = c (g a)) :
    ∀ (l : List α) (s : Nat), l.map key = List.range' (s + 1) l.length →
      (l.map (fun a => if key a = k then m a else a)).map g =
        ((l.map g).zipIdx s).map (fun (p : β × Nat) => if p.2 + 1 == k then c p.1 else p.1)
  | [], _, _ => rfl
  | x :: xs, s, h => by
    simp only [List.map_cons, List.length_cons, List.range'_succ, List.cons.injEq] at h
    have ih := map_key_eq_zipIdx key g m c k hm xs (s + 1) h.2
    simp only [List.map_cons, List.zipIdx_cons, h.1, ih, beq_iff_eq]
    split <;> simp [hm]

theorem range'_filter_ne_of_lt (k : Nat) : ∀ (n s : Nat), k < s →
    ((List.range' s n).filter (· ≠ k)).map (sh k) = List.range' (s - 1) n
  | 0, _, _ => rfl
  | n + 1, s, h => by
    have ih := range'_filter_ne_of_lt k n (s + 1) (by omega)
    have hs : s ≠ k := by omega
    have hs' : s - 1 + 1 = s := by omega
    simp only [List.range'_succ, List.filter_cons, hs, ne_eq, not_false_eq_true, decide_true, if_true,
      List.map_cons, hs']
    rw [ih]
    simp [sh, h]

/-- deleting `k` from `s, s+1, ..` and closing the hole gives `s, s+1, ..` again, one shorter -/
theorem range'_delete (k : Nat) : ∀ (n s : Nat), s ≤ k → k < s + n →
    ((List.range' s n).filter (· ≠ k)).map (sh k) = List.range' s (n - 1)
  | 0, _, _, _ => by omega
  | n + 1, s, h1, h2 => by
    by_cases hs : s = k
    · subst hs
      have := range'_filter_ne_of_lt s n (s + 1) (by omega)
      simp only [List.range'_succ, List.filter_cons, ne_eq, not_true_eq_false, decide_false]
      simpa using this
    · have ih := range'_delete k n (s + 1) (by omega) (by omega)
      have hn : n - 1 + 1 = n := by omega
      simp only [List.range'_succ, List.filter_cons, hs, ne_eq, not_false_eq_true, decide_true, if_true,
        List.map_cons, ih, Nat.add_sub_cancel]
      have : sh k s = s := by unfold sh; split <;> omega
      rw [this, ← hn, List.range'_succ, hn]

/-! ### `deleteTerminal`: numbers, sentence, `Numbered` -/

theorem deleteTerminal_leafNums' (t : Tree) (k : Nat) (h : t.isLeaf = false) :
    (deleteTerminal t k).leafNums = (t.leafNums.filter (· ≠ k)).map (sh k) := by
  unfold leafNums
  rw [deleteTerminal_leaves t k h, filter_map_num_sh]
  rfl

theorem deleteTerminal_yield' (t : Tree) (k : Nat) (h : t.isLeaf = false) :
    (deleteTerminal t k).yield = (t.yield.filter (· ≠ k)).map (sh k) := by
  unfold yield
  rw [deleteTerminal_terminals t k h, filter_map_num_sh]
  rfl

theorem length_filter_ne_of_nodup (k : Nat) : ∀ (l : List Nat), l.Nodup → k ∈ l →
    (l.filter (· ≠ k)).length = l.length - 1
  | [], _, h => by simp at h
  | x :: xs, hn, h => by
    rw [List.nodup_cons] at hn
    by_cases hx : x = k
    · subst hx
      have : xs.filter (· ≠ x) = xs := by
        rw [List.filter_eq_self]
        intro a ha
        have : a ≠ x := fun e => hn.1 (e ▸ ha)
        simpa using this
      rw [List.filter_cons_of_neg (by simp), this]; simp
    · have hk : k ∈ xs := by
        rcases List.mem_cons.1 h with h | h
        · exact absurd h.symm hx
        · exact h
      have ih := length_filter_ne_of_nodup k xs hn.2 hk
      have : 0 < xs.length := List.length_pos_of_mem hk
      simp only [List.filter_cons, hx, ne_eq, not_false_eq_true, decide_true, if_true,
        List.length_cons, ih]
      omega

theorem deleteTerminal_length (t : Tree) (k : Nat) (h : Numbered t) (hk : k ∈ t.leafNums) :
    (deleteTerminal t k).leafNums.length = t.leafNums.length - 1 := by
  rw [deleteTerminal_leafNums' t k h.1, List.length_map]
  exact length_filter_ne_of_nodup k _ h.nodup hk

theorem deleteTerminal_numbered (t : Tree) (k : Nat) (h : Numbered t) (hk : k ∈ t.leafNums) :
    Numbered (deleteTerminal t k) := by
  refine ⟨by rw [deleteTerminal_isLeaf]; exact h.1, ?_⟩
  rw [deleteTerminal_yield' t k h.1, deleteTerminal_length t k h hk, h.2]
  have := (h.mem k).1 hk
  exact range'_delete k _ 1 this.1 (by omega)

theorem deleteTerminal_sentence' (t : Tree) (k : Nat) (h : t.isLeaf = false) :
    (deleteTerminal t k).sentence = (t.terminals.filter (fun l => l.num != k)).map tok := by
  rw [sentence_eq, deleteTerminal_terminals t k h, List.map_map]
  congr 1
  funext x
  simp

/-! ### pruning -/

mutual
theorem delLeaf_noEmpty (k : Nat) : (t t' : Tree) → t.noEmpty = true → delLeaf k t = some t' →
    t'.noEmpty = true
  | leaf n f, t', _, h => by
    simp only [delLeaf] at h
    split at h
    · cases h
    · cases h; rfl
  | node f ks, t', hne, h => by
    obtain ⟨hks, hall⟩ := (noEmpty_node f ks).1 hne
    have ih := delLeafL_noEmpty k ks ((noEmptyL_iff ks).2 hall)
    simp only [delLeaf] at h
    split at h
    · cases h
    · rename_i hc
      cases h
      have hks' : ks.isEmpty = false := by simpa using hks
      simp only [hks', Bool.not_false, Bool.and_true, Bool.not_eq_true] at hc
      simp only [noEmpty, hc, ih]; rfl
theorem delLeafL_noEmpty (k : Nat) : (ks : List Tree) → noEmptyL ks = true →
    noEmptyL (delLeafL k ks) = true
  | [], _ => by simp [delLeafL, noEmptyL]
  | t :: ts, h => by
    simp only [noEmptyL, Bool.and_eq_true] at h
    have ih2 := delLeafL_noEmpty k ts h.2
    simp only [delLeafL]
    cases hd : delLeaf k t with
    | some t' => simp [noEmptyL, delLeaf_noEmpty k t t' h.1 hd, ih2]
    | none => simpa using ih2
end

/-! ### `deleteMany` -/

theorem deleteMany_filter_aux (a off k n : Nat) (rest : List Nat) (ha : a = k - off) (hoff : off < k)
    (hr : ∀ b ∈ rest, k < b) :
    ((n != a) && !(rest.map (· - (off + 1))).contains (sh a n)) =
      !((k :: rest).map (· - off)).contains n := by
  rw [Bool.eq_iff_iff]
  simp only [Bool.and_eq_true, bne_iff_ne, ne_eq, Bool.not_eq_true', List.contains_eq_mem,
    decide_eq_false_iff_not, List.mem_map, List.map_cons, List.mem_cons, not_or, not_exists, not_and]
  constructor
  · rintro ⟨h1, h2⟩
    refine ⟨by omega, ?_⟩
    intro b hb e
    have := hr b hb
    refine h2 b hb ?_
    unfold sh; split <;> omega
  · rintro ⟨h1, h2⟩
    refine ⟨by omega, ?_⟩
    intro b hb e
    have := hr b hb
    refine h2 b hb ?_
    unfold sh at e; split at e <;> omega

theorem deleteMany_aux : ∀ (nums : List Nat) (t : Tree) (off : Nat), Numbered t →
    nums.Pairwise (· < ·) → (∀ k ∈ nums, off < k ∧ k - off ≤ t.leafNums.length) →
    Numbered (nums.foldl (fun (acc : Tree × Nat) k => (deleteTerminal acc.1 (k - acc.2), acc.2 + 1)) (t, off)).1 ∧
    (nums.foldl (fun (acc : Tree × Nat) k => (deleteTerminal acc.1 (k - acc.2), acc.2 + 1)) (t, off)).1.leafNums.length
      = t.leafNums.length - nums.length ∧
    (nums.foldl (fun (acc : Tree × Nat) k => (deleteTerminal acc.1 (k - acc.2), acc.2 + 1)) (t, off)).1.sentence
      = (t.terminals.filter (fun l => !(nums.map (· - off)).contains l.num)).map tok
  | [], t, off, hN, _, _ => by
    have e : t.terminals.filter (fun _ => true) = t.terminals := List.filter_eq_self.2 (fun _ _ => rfl)
    simp [hN, sentence_eq, e]
  | k :: rest, t, off, hN, hp, hb => by
    have hp' := List.pairwise_cons.1 hp
    have hk := hb k List.mem_cons_self
    have hmem : k - off ∈ t.leafNums := (hN.mem _).2 (by omega)
    have hN1 := deleteTerminal_numbered t (k - off) hN hmem
    have hl1 := deleteTerminal_length t (k - off) hN hmem
    have ih := deleteMany_aux rest (deleteTerminal t (k - off)) (off + 1) hN1 hp'.2 (by
      intro b hbr
      have h1 := hp'.1 b hbr
      have h2 := hb b (List.mem_cons_of_mem _ hbr)
      rw [hl1]; omega)
    simp only [List.foldl_cons]
    refine ⟨ih.1, ?_, ?_⟩
    · rw [ih.2.1, hl1, List.length_cons]; omega
    · rw [ih.2.2, deleteTerminal_terminals t _ hN.1, List.filter_map, List.filter_filter, List.map_map]
      have e1 : tok ∘ shiftTok (k - off) = tok := by funext x; simp
      rw [e1]
      congr 1
      apply List.filter_congr
      intro l _
      have := deleteMany_filter_aux (k - off) off k l.num rest rfl hk.1 hp'.1
      simp only [Function.comp_apply, num_shiftTok]
      rw [← this, Bool.and_comm]

theorem deleteMany_spec (t : Tree) (nums : List Nat) (hN : Numbered t) (hp : nums.Pairwise (· < ·))
    (hb : ∀ k ∈ nums, k ∈ t.leafNums) :
    Numbered (deleteMany t nums) ∧
    (deleteMany t nums).leafNums.length = t.leafNums.length - nums.length ∧
    (deleteMany t nums).sentence = dropPositions t.sentence nums := by
  have h := deleteMany_aux nums t 0 hN hp (by
    intro k hk
    have := (hN.mem k).1 (hb k hk)
    omega)
  refine ⟨h.1, h.2.1, ?_⟩
  have e : nums.map (· - 0) = nums := by simp
  unfold deleteMany
  rw [h.2.2, e, sentence_eq]
  exact filter_num_eq_dropPositions t.terminals nums hN.terminals_num

/-- the numbers of a sub-selection of the tokens in order, in a numbered tree -/
theorem filter_terminals_nums (t : Tree) (p : Tree → Bool) (hN : Numbered t) :
    ((t.terminals.filter p).map num).Pairwise (· < ·) ∧
      ∀ k ∈ (t.terminals.filter p).map num, k ∈ t.leafNums := by
  constructor
  · have h : (t.terminals.map num).Pairwise (· < ·) := by
      rw [hN.terminals_num]; exact List.pairwise_lt_range'
    rw [List.pairwise_map] at h ⊢
    exact h.filter p
  · intro k hk
    obtain ⟨l, hl, rfl⟩ := List.mem_map.1 hk
    rw [← mem_yield]
    exact List.mem_map_of_mem (List.mem_filter.1 hl).1

end TT.Lemmas.Edit
