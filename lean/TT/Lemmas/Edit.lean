/-
  Helper lemmas for C11 (token editing): how `delLeaf`/`deleteTerminal`, `deleteMany`, `modifyLeaf`,
  `mapNums`, `insertStep`, `traceStep`, `cleanLabels` act on the tokens (`leaves`, `terminals`,
  `sentence`, `yield`), plus the list facts relating "filter by token number" to "drop positions".
  Core only (no Mathlib).
-/
import TT.Spec.Edit
import TT.Lemmas.Sort
import TT.Lemmas.Nav
import TT.Lemmas.WF
namespace TT.Lemmas.Edit
open TT TT.Tree TT.Spec TT.Lemmas.WF

@[simp] theorem num_leaf (n : Nat) (f : Fields) : (leaf n f).num = n := rfl
@[simp] theorem num_node (f : Fields) (ks : List Tree) : (node f ks).num = 0 := rfl
@[simp] theorem isLeaf_leaf (n : Nat) (f : Fields) : (leaf n f).isLeaf = true := rfl
@[simp] theorem isLeaf_node (f : Fields) (ks : List Tree) : (node f ks).isLeaf = false := rfl
@[simp] theorem fields_leaf (n : Nat) (f : Fields) : (leaf n f).fields = f := rfl
@[simp] theorem fields_node (f : Fields) (ks : List Tree) : (node f ks).fields = f := rfl

/-! ### sorting: filters and monotone maps -/

theorem insertBy_filter {α} (key : α → Nat) (p : α → Bool) (x : α) (l : List α)
    (hs : l.Pairwise (fun a b => key a ≤ key b)) :
    (insertBy key x l).filter p = if p x then insertBy key x (l.filter p) else l.filter p := by
  induction l with
  | nil => by_cases hx : p x <;> simp [insertBy, hx]
  | cons y ys ih =>
    have hs' := List.pairwise_cons.1 hs
    simp only [insertBy]
    by_cases hxy : key x ≤ key y
    · simp only [hxy, if_true]
      by_cases hx : p x
      · simp only [hx, if_true, List.filter_cons_of_pos]
        rw [insertBy_of_le]
        intro z hz
        have hz' := (List.mem_filter.1 hz).1
        rcases List.mem_cons.1 hz' with rfl | hz''
        · exact hxy
        · exact Nat.le_trans hxy (hs'.1 z hz'')
      · simp [hx]
    · simp only [hxy, if_false]
      by_cases hy : p y
      · simp only [List.filter_cons_of_pos hy, ih hs'.2]
        by_cases hx : p x
        · simp [hx, insertBy, hxy]
        · simp [hx]
      · have hy' : p y = false := by simpa using hy
        simp only [List.filter_cons, hy', ih hs'.2]
        simp

/-- the stable sort commutes with filtering -/
theorem sortBy_filter {α} (key : α → Nat) (p : α → Bool) (l : List α) :
    sortBy key (l.filter p) = (sortBy key l).filter p := by
  induction l with
  | nil => rfl
  | cons x xs ih =>
    simp only [sortBy, insertBy_filter key p x _ (sortBy_sorted key xs)]
    by_cases hx : p x
    · simp [hx, sortBy, ih]
    · simp [hx, ih]

theorem insertBy_map_mono {α β} (key : α → Nat) (key' : β → Nat) (f : α → β) (x : α) (l : List α)
    (h : ∀ b ∈ l, (key' (f x) ≤ key' (f b) ↔ key x ≤ key b)) :
    insertBy key' (f x) (l.map f) = (insertBy key x l).map f := by
  induction l with
  | nil => rfl
  | cons y ys ih =>
    simp only [List.map_cons, insertBy, h y List.mem_cons_self]
    split
    · rfl
    · simp [ih (fun b hb => h b (List.mem_cons_of_mem _ hb))]

/-- the stable sort commutes with a map that preserves the order of the keys on the list -/
theorem sortBy_map_mono {α β} (key : α → Nat) (key' : β → Nat) (f : α → β) (l : List α)
    (h : ∀ a ∈ l, ∀ b ∈ l, (key' (f a) ≤ key' (f b) ↔ key a ≤ key b)) :
    sortBy key' (l.map f) = (sortBy key l).map f := by
  induction l with
  | nil => rfl
  | cons x xs ih =>
    simp only [List.map_cons, sortBy]
    rw [ih (fun a ha b hb => h a (List.mem_cons_of_mem _ ha) b (List.mem_cons_of_mem _ hb))]
    exact insertBy_map_mono key key' f x _
      (fun b hb => h x List.mem_cons_self b (List.mem_cons_of_mem _ ((mem_sortBy key xs b).1 hb)))

/-! ### tokens: basic facts -/

theorem leavesL_append (a b : List Tree) : leavesL (a ++ b) = leavesL a ++ leavesL b := by
  simp [leavesL_eq]

theorem leaves_node' (f : Fields) (ks : List Tree) : (node f ks).leaves = leavesL ks := by
  simp [leaves]

theorem leafNums_node' (f : Fields) (ks : List Tree) : (node f ks).leafNums = (leavesL ks).map num := by
  simp [leafNums, leaves]

theorem terminals_length (t : Tree) : t.terminals.length = t.leafNums.length := by
  simp [terminals, sortBy_length, leafNums]

theorem yield_length (t : Tree) : t.yield.length = t.leafNums.length := by
  simp [yield, terminals_length]

theorem sentence_length (t : Tree) : t.sentence.length = t.leafNums.length := by
  simp [sentence, terminals_length]

theorem mem_terminals (t : Tree) (l : Tree) : l ∈ t.terminals ↔ l ∈ t.leaves := mem_sortBy num _ l

/-- the token-level view of a sentence entry -/
def tok (l : Tree) : Tok := (l.fields.word, l.fields.label)

theorem sentence_eq (t : Tree) : t.sentence = t.terminals.map tok := rfl

/-- tokens are numbered `1..n` and the root is a constituent (what the editing steps preserve,
    also when the root ends up childless) -/
def Numbered (t : Tree) : Prop := t.isLeaf = false ∧ t.yield = List.range' 1 t.leafNums.length

theorem Numbered_of_WF (t : Tree) (h : WF t = true) : Numbered t := by
  obtain ⟨h1, _, h3, _⟩ := (WF_iff t).1 h
  exact ⟨h1, by rw [Nav.yield_eq]; exact h3⟩

theorem Numbered.nodup {t : Tree} (h : Numbered t) : t.leafNums.Nodup := by
  have hp := yield_perm t
  rw [h.2] at hp
  exact hp.nodup List.nodup_range'

theorem Numbered.mem {t : Tree} (h : Numbered t) (k : Nat) :
    k ∈ t.leafNums ↔ 1 ≤ k ∧ k ≤ t.leafNums.length := by
  rw [← mem_yield, h.2, List.mem_range'_1]; omega

theorem Numbered.terminals_num {t : Tree} (h : Numbered t) :
    t.terminals.map num = List.range' 1 t.terminals.length := by
  rw [terminals_length]; exact h.2

/-! ### `delLeaf` on the tokens -/

/-- the renumbering done by `delete_terminal` -/
def sh (k n : Nat) : Nat := if n > k then n - 1 else n

/-- a token renumbered by `sh k` -/
def shiftTok (k : Nat) : Tree → Tree
  | leaf n f => leaf (sh k n) f
  | node f ks => node f ks

@[simp] theorem num_shiftTok (k : Nat) (x : Tree) : (shiftTok k x).num = sh k x.num := by
  cases x <;> simp [shiftTok, sh]

@[simp] theorem fields_shiftTok (k : Nat) (x : Tree) : (shiftTok k x).fields = x.fields := by
  cases x <;> simp [shiftTok]

@[simp] theorem tok_shiftTok (k : Nat) (x : Tree) : tok (shiftTok k x) = tok x := by
  simp [tok]

theorem sh_le_iff (k a b : Nat) (ha : a ≠ k) (hb : b ≠ k) : sh k a ≤ sh k b ↔ a ≤ b := by
  have := ha; have := hb; unfold sh; split <;> split <;> omega

mutual
theorem delLeaf_leaves (k : Nat) : (t : Tree) →
    (match delLeaf k t with | some t' => t'.leaves | none => []) =
      (t.leaves.filter (fun l => l.num != k)).map (shiftTok k)
  | leaf n f => by
    by_cases h : n = k
    · simp [delLeaf, h, leaves]
    · have h' : (n != k) = true := by simpa using h
      simp [delLeaf, h, leaves, shiftTok, sh, h']
  | node f ks => by
    have ih := delLeafL_leaves k ks
    simp only [delLeaf, leaves]
    by_cases hc : ((delLeafL k ks).isEmpty && !ks.isEmpty) = true
    · simp only [hc, if_true]
      simp only [Bool.and_eq_true, List.isEmpty_iff] at hc
      rw [← ih, hc.1]; rfl
    · simp only [hc]; exact ih
theorem delLeafL_leaves (k : Nat) : (ks : List Tree) →
    leavesL (delLeafL k ks) = ((leavesL ks).filter (fun l => l.num != k)).map (shiftTok k)
  | [] => by simp [delLeafL, leavesL]
  | t :: ts => by
    have ih1 := delLeaf_leaves k t
    have ih2 := delLeafL_leaves k ts
    simp only [delLeafL, leavesL, List.filter_append, List.map_append]
    cases hd : delLeaf k t with
    | some t' => rw [hd] at ih1; simp only [leavesL, ih1, ih2]
    | none => rw [hd] at ih1; simp only [← ih1, ih2, List.nil_append]
end

theorem deleteTerminal_leaves (t : Tree) (k : Nat) (h : t.isLeaf = false) :
    (deleteTerminal t k).leaves = (t.leaves.filter (fun l => l.num != k)).map (shiftTok k) := by
  cases t with
  | leaf n f => simp at h
  | node f ks => simp only [deleteTerminal, leaves]; exact delLeafL_leaves k ks

theorem filter_map_num_sh (k : Nat) (l : List Tree) :
    ((l.filter (fun l => l.num != k)).map (shiftTok k)).map num =
      ((l.map num).filter (· ≠ k)).map (fun n => if n > k then n - 1 else n) := by
  induction l with
  | nil => rfl
  | cons x xs ih =>
    by_cases hx : x.num = k
    · simp [hx, ih]
    · have : (x.num != k) = true := by simpa using hx
      simp only [List.filter_cons, this, if_true, List.map_cons, ih, num_shiftTok, sh]
      simp [hx]

theorem deleteTerminal_isLeaf (t : Tree) (k : Nat) : (deleteTerminal t k).isLeaf = t.isLeaf := by
  cases t <;> rfl

/-- the tokens in order after `delete_terminal` -/
theorem deleteTerminal_terminals (t : Tree) (k : Nat) (h : t.isLeaf = false) :
    (deleteTerminal t k).terminals = (t.terminals.filter (fun l => l.num != k)).map (shiftTok k) := by
  unfold terminals
  rw [deleteTerminal_leaves t k h, ← sortBy_filter]
  refine sortBy_map_mono num num (shiftTok k) _ ?_
  intro a ha b hb
  have ha' : a.num ≠ k := by simpa using (List.mem_filter.1 ha).2
  have hb' : b.num ≠ k := by simpa using (List.mem_filter.1 hb).2
  simp only [num_shiftTok]
  exact sh_le_iff k _ _ ha' hb'

/-! ### numbers `1..n`: filtering by number is dropping positions -/

/-- in a list whose keys are `s+1, s+2, ...`, filtering on the key is filtering on the position -/
theorem filter_key_eq_zipIdx {α β} (key : α → Nat) (g : α → β) (q : Nat → Bool) :
    ∀ (l : List α) (s : Nat), l.map key = List.range' (s + 1) l.length →
      (l.filter (fun a => q (key a))).map g =
        (((l.map g).zipIdx s).filter (fun (p : β × Nat) => q (p.2 + 1))).map (·.1)
  | [], _, _ => rfl
  | x :: xs, s, h => by
    simp only [List.map_cons, List.length_cons, List.range'_succ, List.cons.injEq] at h
    have ih := filter_key_eq_zipIdx key g q xs (s + 1) h.2
    simp only [List.filter_cons, List.map_cons, List.zipIdx_cons, h.1]
    split <;> simp [ih]

theorem filter_num_eq_dropPositions (T : List Tree) (ps : List Nat)
    (h : T.map num = List.range' 1 T.length) :
    (T.filter (fun l => !ps.contains l.num)).map tok = dropPositions (T.map tok) ps := by
  unfold dropPositions
  exact filter_key_eq_zipIdx num tok (fun i => !ps.contains i) T 0 h

/-- in a list whose keys are `s+1, s+2, ...`, changing the element with key `k` is changing position `k` -/
theorem map_key_eq_zipIdx {α β} (key : α → Nat) (g : α → β) (m : α → α) (c : β → β) (k : Nat)
    (hm : ∀ a, g (m a) = c (g a)) :
    ∀ (l : List α) (s : Nat), l.map key = List.range' (s + 1) l.length →
      (l.map (fun a => if key a = k then m a else a)).map g =
        ((l.map g).zipIdx s).map (fun (p : β × Nat) => if p.2 + 1 == k then c p.1 else p.1)
  | [], _, _ => rfl
  | x :: xs, s, h => by
    simp only [List.map_cons, List.length_cons, List.range'_succ, List.cons.injEq] at h
    have ih := map_key_eq_zipIdx key g m c k hm xs (s + 1) h.2
    simp only [List.map_cons, List.zipIdx_cons, h.1, ih, beq_iff_eq]
    split <;> simp [hm]

theorem range'_filter_ne_of_lt (k : Nat) : ∀ (n s : Nat), k < s →
    ((List.range' s n).filter (· ≠ k)).map (sh k) = List.range' (s - 1) n
  | 0, _, _ => rfl
  | n + 1, s, h => by
    have ih := range'_filter_ne_of_lt k n (s + 1) (by omega)
    have hs : s ≠ k := by omega
    have hs' : s - 1 + 1 = s := by omega
    simp only [List.range'_succ, List.filter_cons, hs, ne_eq, not_false_eq_true, decide_true, if_true,
      List.map_cons, hs']
    rw [ih]
    simp [sh, h]

/-- deleting `k` from `s, s+1, ..` and closing the hole gives `s, s+1, ..` again, one shorter -/
theorem range'_delete (k : Nat) : ∀ (n s : Nat), s ≤ k → k < s + n →
    ((List.range' s n).filter (· ≠ k)).map (sh k) = List.range' s (n - 1)
  | 0, _, _, _ => by omega
  | n + 1, s, h1, h2 => by
    by_cases hs : s = k
    · subst hs
      have := range'_filter_ne_of_lt s n (s + 1) (by omega)
      simp only [List.range'_succ, List.filter_cons, ne_eq, not_true_eq_false, decide_false]
      simpa using this
    · have ih := range'_delete k n (s + 1) (by omega) (by omega)
      have hn : n - 1 + 1 = n := by omega
      simp only [List.range'_succ, List.filter_cons, hs, ne_eq, not_false_eq_true, decide_true, if_true,
        List.map_cons, ih, Nat.add_sub_cancel]
      have : sh k s = s := by unfold sh; split <;> omega
      rw [this, ← hn, List.range'_succ, hn]

/-! ### `deleteTerminal`: numbers, sentence, `Numbered` -/

theorem deleteTerminal_leafNums' (t : Tree) (k : Nat) (h : t.isLeaf = false) :
    (deleteTerminal t k).leafNums = (t.leafNums.filter (· ≠ k)).map (sh k) := by
  unfold leafNums
  rw [deleteTerminal_leaves t k h, filter_map_num_sh]
  rfl

theorem deleteTerminal_yield' (t : Tree) (k : Nat) (h : t.isLeaf = false) :
    (deleteTerminal t k).yield = (t.yield.filter (· ≠ k)).map (sh k) := by
  unfold yield
  rw [deleteTerminal_terminals t k h, filter_map_num_sh]
  rfl

theorem length_filter_ne_of_nodup (k : Nat) : ∀ (l : List Nat), l.Nodup → k ∈ l →
    (l.filter (· ≠ k)).length = l.length - 1
  | [], _, h => by simp at h
  | x :: xs, hn, h => by
    rw [List.nodup_cons] at hn
    by_cases hx : x = k
    · subst hx
      have : xs.filter (· ≠ x) = xs := by
        rw [List.filter_eq_self]
        intro a ha
        have : a ≠ x := fun e => hn.1 (e ▸ ha)
        simpa using this
      rw [List.filter_cons_of_neg (by simp), this]; simp
    · have hk : k ∈ xs := by
        rcases List.mem_cons.1 h with h | h
        · exact absurd h.symm hx
        · exact h
      have ih := length_filter_ne_of_nodup k xs hn.2 hk
      have : 0 < xs.length := List.length_pos_of_mem hk
      simp only [List.filter_cons, hx, ne_eq, not_false_eq_true, decide_true, if_true,
        List.length_cons, ih]
      omega

theorem deleteTerminal_length (t : Tree) (k : Nat) (h : Numbered t) (hk : k ∈ t.leafNums) :
    (deleteTerminal t k).leafNums.length = t.leafNums.length - 1 := by
  rw [deleteTerminal_leafNums' t k h.1, List.length_map]
  exact length_filter_ne_of_nodup k _ h.nodup hk

theorem deleteTerminal_numbered (t : Tree) (k : Nat) (h : Numbered t) (hk : k ∈ t.leafNums) :
    Numbered (deleteTerminal t k) := by
  refine ⟨by rw [deleteTerminal_isLeaf]; exact h.1, ?_⟩
  rw [deleteTerminal_yield' t k h.1, deleteTerminal_length t k h hk, h.2]
  have := (h.mem k).1 hk
  exact range'_delete k _ 1 this.1 (by omega)

theorem deleteTerminal_sentence' (t : Tree) (k : Nat) (h : t.isLeaf = false) :
    (deleteTerminal t k).sentence = (t.terminals.filter (fun l => l.num != k)).map tok := by
  rw [sentence_eq, deleteTerminal_terminals t k h, List.map_map]
  congr 1
  funext x
  simp

/-! ### pruning -/

mutual
theorem delLeaf_noEmpty (k : Nat) : (t t' : Tree) → t.noEmpty = true → delLeaf k t = some t' →
    t'.noEmpty = true
  | leaf n f, t', _, h => by
    simp only [delLeaf] at h
    split at h
    · cases h
    · cases h; rfl
  | node f ks, t', hne, h => by
    obtain ⟨hks, hall⟩ := (noEmpty_node f ks).1 hne
    have ih := delLeafL_noEmpty k ks ((noEmptyL_iff ks).2 hall)
    simp only [delLeaf] at h
    split at h
    · cases h
    · rename_i hc
      cases h
      have hks' : ks.isEmpty = false := by simpa using hks
      simp only [hks', Bool.not_false, Bool.and_true, Bool.not_eq_true] at hc
      simp only [noEmpty, hc, ih]; rfl
theorem delLeafL_noEmpty (k : Nat) : (ks : List Tree) → noEmptyL ks = true →
    noEmptyL (delLeafL k ks) = true
  | [], _ => by simp [delLeafL, noEmptyL]
  | t :: ts, h => by
    simp only [noEmptyL, Bool.and_eq_true] at h
    have ih2 := delLeafL_noEmpty k ts h.2
    simp only [delLeafL]
    cases hd : delLeaf k t with
    | some t' => simp [noEmptyL, delLeaf_noEmpty k t t' h.1 hd, ih2]
    | none => simpa using ih2
end

/-! ### `deleteMany` -/

theorem deleteMany_filter_aux (a off k n : Nat) (rest : List Nat) (ha : a = k - off) (hoff : off < k)
    (hr : ∀ b ∈ rest, k < b) :
    ((n != a) && !(rest.map (· - (off + 1))).contains (sh a n)) =
      !((k :: rest).map (· - off)).contains n := by
  rw [Bool.eq_iff_iff]
  simp only [Bool.and_eq_true, bne_iff_ne, ne_eq, Bool.not_eq_true', List.contains_eq_mem,
    decide_eq_false_iff_not, List.mem_map, List.map_cons, List.mem_cons, not_or, not_exists, not_and]
  constructor
  · rintro ⟨h1, h2⟩
    refine ⟨by omega, ?_⟩
    intro b hb e
    have := hr b hb
    refine h2 b hb ?_
    unfold sh; split <;> omega
  · rintro ⟨h1, h2⟩
    refine ⟨by omega, ?_⟩
    intro b hb e
    have := hr b hb
    refine h2 b hb ?_
    unfold sh at e; split at e <;> omega

theorem deleteMany_aux : ∀ (nums : List Nat) (t : Tree) (off : Nat), Numbered t →
    nums.Pairwise (· < ·) → (∀ k ∈ nums, off < k ∧ k - off ≤ t.leafNums.length) →
    Numbered (nums.foldl (fun (acc : Tree × Nat) k => (deleteTerminal acc.1 (k - acc.2), acc.2 + 1)) (t, off)).1 ∧
    (nums.foldl (fun (acc : Tree × Nat) k => (deleteTerminal acc.1 (k - acc.2), acc.2 + 1)) (t, off)).1.leafNums.length
      = t.leafNums.length - nums.length ∧
    (nums.foldl (fun (acc : Tree × Nat) k => (deleteTerminal acc.1 (k - acc.2), acc.2 + 1)) (t, off)).1.sentence
      = (t.terminals.filter (fun l => !(nums.map (· - off)).contains l.num)).map tok
  | [], t, off, hN, _, _ => by
    have e : t.terminals.filter (fun _ => true) = t.terminals := List.filter_eq_self.2 (fun _ _ => rfl)
    simp [hN, sentence_eq, e]
  | k :: rest, t, off, hN, hp, hb => by
    have hp' := List.pairwise_cons.1 hp
    have hk := hb k List.mem_cons_self
    have hmem : k - off ∈ t.leafNums := (hN.mem _).2 (by omega)
    have hN1 := deleteTerminal_numbered t (k - off) hN hmem
    have hl1 := deleteTerminal_length t (k - off) hN hmem
    have ih := deleteMany_aux rest (deleteTerminal t (k - off)) (off + 1) hN1 hp'.2 (by
      intro b hbr
      have h1 := hp'.1 b hbr
      have h2 := hb b (List.mem_cons_of_mem _ hbr)
      rw [hl1]; omega)
    simp only [List.foldl_cons]
    refine ⟨ih.1, ?_, ?_⟩
    · rw [ih.2.1, hl1, List.length_cons]; omega
    · rw [ih.2.2, deleteTerminal_terminals t _ hN.1, List.filter_map, List.filter_filter, List.map_map]
      have e1 : tok ∘ shiftTok (k - off) = tok := by funext x; simp
      rw [e1]
      congr 1
      apply List.filter_congr
      intro l _
      have := deleteMany_filter_aux (k - off) off k l.num rest rfl hk.1 hp'.1
      simp only [Function.comp_apply, num_shiftTok]
      rw [← this, Bool.and_comm]

theorem deleteMany_spec (t : Tree) (nums : List Nat) (hN : Numbered t) (hp : nums.Pairwise (· < ·))
    (hb : ∀ k ∈ nums, k ∈ t.leafNums) :
    Numbered (deleteMany t nums) ∧
    (deleteMany t nums).leafNums.length = t.leafNums.length - nums.length ∧
    (deleteMany t nums).sentence = dropPositions t.sentence nums := by
  have h := deleteMany_aux nums t 0 hN hp (by
    intro k hk
    have := (hN.mem k).1 (hb k hk)
    omega)
  refine ⟨h.1, h.2.1, ?_⟩
  have e : nums.map (· - 0) = nums := by simp
  unfold deleteMany
  rw [h.2.2, e, sentence_eq]
  exact filter_num_eq_dropPositions t.terminals nums hN.terminals_num

/-- the numbers of a sub-selection of the tokens in order, in a numbered tree -/
theorem filter_terminals_nums (t : Tree) (p : Tree → Bool) (hN : Numbered t) :
    ((t.terminals.filter p).map num).Pairwise (· < ·) ∧
      ∀ k ∈ (t.terminals.filter p).map num, k ∈ t.leafNums := by
  constructor
  · have h : (t.terminals.map num).Pairwise (· < ·) := by
      rw [hN.terminals_num]; exact List.pairwise_lt_range'
    rw [List.pairwise_map] at h ⊢
    exact h.filter p
  · intro k hk
    obtain ⟨l, hl, rfl⟩ := List.mem_map.1 hk
    rw [← mem_yield]
    exact List.mem_map_of_mem (List.mem_filter.1 hl).1

/-! ### `modifyLeaf` / `substituteTerminals` -/

/-- what `modifyLeaf k g` does to one token -/
def modTok (k : Nat) (g : Fields → Fields) (a : Tree) : Tree := if a.num = k then a.setFields g else a

@[simp] theorem num_setFields (a : Tree) (g : Fields → Fields) : (a.setFields g).num = a.num := by
  cases a <;> rfl

@[simp] theorem num_modTok (k : Nat) (g : Fields → Fields) (a : Tree) : (modTok k g a).num = a.num := by
  unfold modTok; split <;> simp

mutual
theorem modifyLeaf_leaves (k : Nat) (g : Fields → Fields) : (t : Tree) →
    (modifyLeaf k g t).leaves = t.leaves.map (modTok k g)
  | leaf n f => by
    by_cases h : n = k <;> simp [modifyLeaf, leaves, modTok, h, setFields]
  | node f ks => by
    simp only [modifyLeaf, leaves]; exact modifyLeafL_leaves k g ks
theorem modifyLeafL_leaves (k : Nat) (g : Fields → Fields) : (ks : List Tree) →
    leavesL (modifyLeafL k g ks) = (leavesL ks).map (modTok k g)
  | [] => by simp [modifyLeafL, leavesL]
  | t :: ts => by
    simp only [modifyLeafL, leavesL, List.map_append, modifyLeaf_leaves k g t, modifyLeafL_leaves k g ts]
end

theorem modifyLeaf_isLeaf (k : Nat) (g : Fields → Fields) (t : Tree) :
    (modifyLeaf k g t).isLeaf = t.isLeaf := by
  cases t with
  | leaf n f => simp only [modifyLeaf]; split <;> rfl
  | node f ks => rfl

theorem modifyLeaf_leafNums (k : Nat) (g : Fields → Fields) (t : Tree) :
    (modifyLeaf k g t).leafNums = t.leafNums := by
  simp [leafNums, modifyLeaf_leaves, Function.comp_def]

theorem modifyLeaf_terminals (k : Nat) (g : Fields → Fields) (t : Tree) :
    (modifyLeaf k g t).terminals = t.terminals.map (modTok k g) := by
  unfold terminals
  rw [modifyLeaf_leaves]
  exact sortBy_map num num (modTok k g) (num_modTok k g) _

theorem modifyLeaf_yield (k : Nat) (g : Fields → Fields) (t : Tree) :
    (modifyLeaf k g t).yield = t.yield := by
  simp [yield, modifyLeaf_terminals, Function.comp_def]

theorem modifyLeaf_numbered (k : Nat) (g : Fields → Fields) (t : Tree) (h : Numbered t) :
    Numbered (modifyLeaf k g t) :=
  ⟨by rw [modifyLeaf_isLeaf]; exact h.1, by rw [modifyLeaf_yield, modifyLeaf_leafNums]; exact h.2⟩

/-- substituting token `k` changes position `k` of the sentence -/
theorem modifyLeaf_sentence (k : Nat) (w : Str) (pos : Option Str) (t : Tree) (h : Numbered t) :
    (modifyLeaf k (fun f => { f with word := some w, label := pos.getD f.label }) t).sentence =
      t.sentence.zipIdx.map fun (tok, i) => if i + 1 == k then (some w, pos.getD tok.2) else tok := by
  rw [sentence_eq, modifyLeaf_terminals, sentence_eq]
  exact map_key_eq_zipIdx num tok _ (fun tk => (some w, pos.getD tk.2)) k
    (by intro a; cases a <;> rfl) t.terminals 0 h.terminals_num

theorem substitute_aux (n : Nat) : ∀ (reqs : List (Nat × Str × Option Str)) (cur : Tree), Numbered cur →
    (reqs.foldl (fun cur (k, w, pos) =>
      if k ≥ 1 && k ≤ n then
        modifyLeaf k (fun f => { f with word := some w, label := pos.getD f.label }) cur
      else cur) cur).sentence =
    reqs.foldl (fun cur (k, w, p) =>
      if k ≥ 1 && k ≤ n then
        cur.zipIdx.map fun (tok, i) => if i + 1 == k then (some w, p.getD tok.2) else tok
      else cur) cur.sentence
  | [], _, _ => rfl
  | (k, w, pos) :: rest, cur, h => by
    simp only [List.foldl_cons]
    by_cases hc : (k ≥ 1 && k ≤ n) = true
    · simp only [hc, if_true]
      rw [substitute_aux n rest _ (modifyLeaf_numbered k _ cur h), modifyLeaf_sentence k w pos cur h]
    · simp only [hc]
      exact substitute_aux n rest cur h

theorem substitute_leafNums_aux (n : Nat) : ∀ (reqs : List (Nat × Str × Option Str)) (cur : Tree),
    (reqs.foldl (fun cur (k, w, pos) =>
      if k ≥ 1 && k ≤ n then
        modifyLeaf k (fun f => { f with word := some w, label := pos.getD f.label }) cur
      else cur) cur).leafNums = cur.leafNums
  | [], _ => rfl
  | (k, w, pos) :: rest, cur => by
    simp only [List.foldl_cons]
    by_cases hc : (k ≥ 1 && k ≤ n) = true
    · simp only [hc, if_true]
      rw [substitute_leafNums_aux n rest, modifyLeaf_leafNums]
    · simp only [hc]
      exact substitute_leafNums_aux n rest cur

/-! ### `mapNums` / `insertStep` -/

/-- a token renumbered by `g` -/
def renum (g : Nat → Nat) : Tree → Tree
  | leaf n f => leaf (g n) f
  | node f ks => node f ks

theorem num_renum (g : Nat → Nat) (hg : g 0 = 0) (x : Tree) : (renum g x).num = g x.num := by
  cases x <;> simp [renum, hg]

@[simp] theorem fields_renum (g : Nat → Nat) (x : Tree) : (renum g x).fields = x.fields := by
  cases x <;> simp [renum]

@[simp] theorem tok_renum (g : Nat → Nat) (x : Tree) : tok (renum g x) = tok x := by
  simp [tok]

mutual
theorem mapNums_leaves (g : Nat → Nat) : (t : Tree) → (mapNums g t).leaves = t.leaves.map (renum g)
  | leaf n f => by simp [mapNums, leaves, renum]
  | node f ks => by simp only [mapNums, leaves]; exact mapNumsL_leaves g ks
theorem mapNumsL_leaves (g : Nat → Nat) : (ks : List Tree) →
    leavesL (mapNumsL g ks) = (leavesL ks).map (renum g)
  | [] => by simp [mapNumsL, leavesL]
  | t :: ts => by
    simp only [mapNumsL, leavesL, List.map_append, mapNums_leaves g t, mapNumsL_leaves g ts]
end

mutual
theorem mapNums_noEmpty (g : Nat → Nat) : (t : Tree) → (mapNums g t).noEmpty = t.noEmpty
  | leaf n f => by simp [mapNums, noEmpty]
  | node f ks => by
    have e : (mapNumsL g ks).isEmpty = ks.isEmpty := by cases ks <;> simp [mapNumsL]
    simp only [mapNums, noEmpty, mapNumsL_noEmpty g ks, e]
theorem mapNumsL_noEmpty (g : Nat → Nat) : (ks : List Tree) → noEmptyL (mapNumsL g ks) = noEmptyL ks
  | [] => by simp [mapNumsL, noEmptyL]
  | t :: ts => by simp only [mapNumsL, noEmptyL, mapNums_noEmpty g t, mapNumsL_noEmpty g ts]
end

theorem noEmptyL_append (a b : List Tree) : noEmptyL (a ++ b) = (noEmptyL a && noEmptyL b) := by
  induction a with
  | nil => simp [noEmptyL]
  | cons x xs ih => simp [noEmptyL, ih, Bool.and_assoc]

/-- the renumbering done by `insert_terminals` -/
def up (k m : Nat) : Nat := if m ≥ k then m + 1 else m

theorem up_le_iff (k a b : Nat) : up k a ≤ up k b ↔ a ≤ b := by unfold up; split <;> split <;> omega
theorem up_inj (k a b : Nat) (h : up k a = up k b) : a = b := by
  unfold up at h; split at h <;> split at h <;> omega
theorem up_ne (k a : Nat) : up k a ≠ k := by unfold up; split <;> omega
theorem up_zero (k : Nat) (h : 1 ≤ k) : up k 0 = 0 := by unfold up; split <;> omega

theorem take_nums (T : List Tree) (n j : Nat) (hT : T.map num = List.range' 1 n) (hj : j ≤ n) :
    (T.take j).map num = List.range' 1 j := by
  rw [List.map_take, hT, List.take_range'_of_length_ge hj]

theorem drop_nums (T : List Tree) (n j : Nat) (hT : T.map num = List.range' 1 n) :
    (T.drop j).map num = List.range' (1 + j) (n - j) := by
  rw [List.map_drop, hT, List.drop_range']; simp

theorem sortBy_insert_new (L : List Tree) (k : Nat) (x : Tree) (hx : x.num = k)
    (hL : (sortBy num L).map num = List.range' 1 L.length) (hk1 : 1 ≤ k) (hk2 : k ≤ L.length + 1) :
    sortBy num (L.map (renum (up k)) ++ [x]) =
      ((sortBy num L).take (k - 1)).map (renum (up k)) ++
        x :: ((sortBy num L).drop (k - 1)).map (renum (up k)) := by
  have hnum : ∀ a, (renum (up k) a).num = up k a.num := num_renum _ (up_zero k hk1)
  have hLn : (L.map num).Nodup := by
    have hp := (sortBy_perm num L).map num
    rw [hL] at hp
    exact hp.nodup_iff.1 List.nodup_range'
  have hnd : ((L.map (renum (up k)) ++ [x]).map num).Nodup := by
    rw [List.map_append, List.nodup_append]
    refine ⟨?_, by simp, ?_⟩
    · rw [List.Nodup, List.pairwise_map] at hLn
      rw [List.Nodup, List.pairwise_map, List.pairwise_map]
      exact hLn.imp (fun h e => h (up_inj k _ _ (by rw [← hnum, ← hnum]; exact e)))
    · intro a ha b hb
      obtain ⟨y, hy, rfl⟩ := List.mem_map.1 ha
      obtain ⟨z, _, rfl⟩ := List.mem_map.1 hy
      simp only [List.map_cons, List.map_nil, List.mem_singleton] at hb
      rw [hb, hx, hnum]
      exact up_ne k _
  rw [sortBy_perm_eq num _ (x :: L.map (renum (up k))) (List.perm_append_singleton _ _) hnd]
  simp only [sortBy]
  rw [sortBy_map_mono num num (renum (up k)) L
    (fun a _ b _ => by rw [hnum, hnum]; exact up_le_iff k _ _)]
  have hsplit : (sortBy num L).map (renum (up k)) =
      ((sortBy num L).take (k - 1)).map (renum (up k)) ++ ((sortBy num L).drop (k - 1)).map (renum (up k)) := by
    rw [← List.map_append, List.take_append_drop]
  rw [hsplit, insertBy_append_of_lt, insertBy_of_le]
  · intro y hy
    obtain ⟨l, hl, rfl⟩ := List.mem_map.1 hy
    have h1 : l.num ∈ List.range' (1 + (k - 1)) (L.length - (k - 1)) := by
      rw [← drop_nums _ _ _ hL]; exact List.mem_map_of_mem hl
    rw [List.mem_range'_1] at h1
    rw [hnum, hx]; unfold up; split <;> omega
  · intro y hy
    obtain ⟨l, hl, rfl⟩ := List.mem_map.1 hy
    have h1 : l.num ∈ List.range' 1 (k - 1) := by
      rw [← take_nums _ _ _ hL (by omega)]; exact List.mem_map_of_mem hl
    rw [List.mem_range'_1] at h1
    rw [hnum, hx]; unfold up; split <;> omega

/-- the token `insert_terminals` creates -/
def newTok (k : Nat) (w pos : Str) : Tree :=
  leaf k { label := pos, word := some w, morph := some DEFAULT_MORPH,
           lemma := some DEFAULT_LEMMA, edge := some DEFAULT_EDGE }

theorem insertStep_invalid (cur : Tree) (k : Nat) (w pos : Str)
    (h : k = 0 ∨ k > cur.terminals.length + 1) : insertStep cur (k, w, pos) = cur := by
  rcases h with h | h <;> simp [insertStep, h]

theorem insertStep_valid (f : Fields) (ks : List Tree) (k : Nat) (w pos : Str) (h1 : 1 ≤ k)
    (h2 : k ≤ (node f ks).terminals.length + 1) :
    insertStep (node f ks) (k, w, pos) = node f (mapNumsL (up k) ks ++ [newTok k w pos]) := by
  have e1 : ¬ (k > (node f ks).terminals.length + 1) := by omega
  have e2 : k ≠ 0 := by omega
  have e3 : (k == 0) = false := by simpa using e2
  simp only [insertStep, e1, e3, decide_false, Bool.or_self, Bool.false_eq_true, if_false,
    mapNums, insertStep.appendToRoot']
  rfl

theorem insertStep_terminals (f : Fields) (ks : List Tree) (k : Nat) (w pos : Str)
    (hN : Numbered (node f ks)) (h1 : 1 ≤ k) (h2 : k ≤ (node f ks).terminals.length + 1) :
    (insertStep (node f ks) (k, w, pos)).terminals =
      ((node f ks).terminals.take (k - 1)).map (renum (up k)) ++
        newTok k w pos :: ((node f ks).terminals.drop (k - 1)).map (renum (up k)) := by
  rw [insertStep_valid f ks k w pos h1 h2]
  unfold terminals
  rw [leaves_node', leaves_node', leavesL_append, mapNumsL_leaves]
  have hL := hN.terminals_num
  rw [terminals, leaves_node', sortBy_length] at hL
  rw [terminals, leaves_node', sortBy_length] at h2
  exact sortBy_insert_new (leavesL ks) k (newTok k w pos) rfl hL h1 h2

theorem insertStep_sentence_valid (f : Fields) (ks : List Tree) (k : Nat) (w pos : Str)
    (hN : Numbered (node f ks)) (h1 : 1 ≤ k) (h2 : k ≤ (node f ks).terminals.length + 1) :
    (insertStep (node f ks) (k, w, pos)).sentence =
      (node f ks).sentence.take (k - 1) ++ [(some w, pos)] ++ (node f ks).sentence.drop (k - 1) := by
  rw [sentence_eq, insertStep_terminals f ks k w pos hN h1 h2, sentence_eq]
  simp only [List.map_append, List.map_cons, List.map_map, List.map_take, List.map_drop,
    List.append_assoc, List.singleton_append]
  have e : tok ∘ renum (up k) = tok := by funext x; simp
  rw [e]
  rfl

theorem insertStep_yield_valid (f : Fields) (ks : List Tree) (k : Nat) (w pos : Str)
    (hN : Numbered (node f ks)) (h1 : 1 ≤ k) (h2 : k ≤ (node f ks).terminals.length + 1) :
    (insertStep (node f ks) (k, w, pos)).yield = List.range' 1 ((node f ks).terminals.length + 1) := by
  have hnum : ∀ a, (renum (up k) a).num = up k a.num := num_renum _ (up_zero k h1)
  have hT := hN.terminals_num
  rw [yield, insertStep_terminals f ks k w pos hN h1 h2]
  simp only [List.map_append, List.map_cons, List.map_map]
  have e : num ∘ renum (up k) = up k ∘ num := by funext x; simp [hnum]
  rw [e, ← List.map_map, ← List.map_map, take_nums _ _ _ hT (by omega), drop_nums _ _ _ hT]
  have e1 : (List.range' 1 (k - 1)).map (up k) = List.range' 1 (k - 1) := by
    conv => rhs; rw [← List.map_id (List.range' 1 (k - 1))]
    apply List.map_congr_left
    intro a ha
    rw [List.mem_range'_1] at ha
    unfold up; split <;> simp <;> omega
  have e2 : (List.range' (1 + (k - 1)) ((node f ks).terminals.length - (k - 1))).map (up k) =
      List.range' (k + 1) ((node f ks).terminals.length - (k - 1)) := by
    have e' : (List.range' (1 + (k - 1)) ((node f ks).terminals.length - (k - 1))).map (up k) =
        (List.range' (1 + (k - 1)) ((node f ks).terminals.length - (k - 1))).map (1 + ·) := by
      apply List.map_congr_left
      intro a ha
      rw [List.mem_range'_1] at ha
      unfold up; split <;> omega
    rw [e', List.map_add_range']
    congr 1
    omega
  rw [e1, e2]
  have e3 : (newTok k w pos).num :: List.range' (k + 1) ((node f ks).terminals.length - (k - 1)) =
      List.range' (1 + (k - 1)) ((node f ks).terminals.length - (k - 1) + 1) := by
    have : 1 + (k - 1) = k := by omega
    rw [this, List.range'_succ]; rfl
  rw [e3, List.range'_append_1]
  congr 1
  omega

theorem insertStep_leafNums_length (f : Fields) (ks : List Tree) (k : Nat) (w pos : Str) (h1 : 1 ≤ k)
    (h2 : k ≤ (node f ks).terminals.length + 1) :
    (insertStep (node f ks) (k, w, pos)).leafNums.length = (node f ks).terminals.length + 1 := by
  rw [insertStep_valid f ks k w pos h1 h2, terminals_length, leafNums_node', leafNums_node',
    leavesL_append, mapNumsL_leaves]
  simp [leavesL, newTok, leaves]

theorem insertStep_WF_valid (f : Fields) (ks : List Tree) (k : Nat) (w pos : Str)
    (h : WF (node f ks) = true) (h1 : 1 ≤ k) (h2 : k ≤ (node f ks).terminals.length + 1) :
    WF (insertStep (node f ks) (k, w, pos)) = true := by
  have hN := Numbered_of_WF _ h
  have hy := insertStep_yield_valid f ks k w pos hN h1 h2
  have hl := insertStep_leafNums_length f ks k w pos h1 h2
  rw [WF_iff]
  refine ⟨?_, ?_, ?_, ?_⟩
  · rw [insertStep_valid f ks k w pos h1 h2]; rfl
  · rw [insertStep_valid f ks k w pos h1 h2]
    have hne := WF_noEmpty _ h
    simp only [noEmpty, Bool.and_eq_true] at hne
    simp only [noEmpty, noEmptyL_append, mapNumsL_noEmpty, hne.2, newTok, noEmptyL]
    simp
  · rw [← Nav.yield_eq, hy, hl]
  · intro e
    rw [e] at hl
    simp at hl

/-! ### `findLeaf` after an edit; `ptb_delete_traces` -/

theorem find?_congr' {α} (p q : α → Bool) (l : List α) (h : ∀ a ∈ l, p a = q a) :
    l.find? p = l.find? q := by
  induction l with
  | nil => rfl
  | cons x xs ih =>
    simp only [List.find?_cons, h x List.mem_cons_self]
    rw [ih (fun a ha => h a (List.mem_cons_of_mem _ ha))]

theorem findLeaf_of_mem_nodup (t : Tree) (l : Tree) (hn : t.leafNums.Nodup) (hl : l ∈ t.leaves) :
    t.findLeaf l.num = some l := by
  unfold findLeaf
  cases hf : t.leaves.find? (fun a => a.num == l.num) with
  | none =>
    rw [List.find?_eq_none] at hf
    exact absurd (by simp) (hf l hl)
  | some y =>
    have h1 := List.mem_of_find?_eq_some hf
    have h2 : y.num = l.num := by simpa using List.find?_some hf
    rw [eq_of_key_eq_of_nodup num t.leaves hn y h1 l hl h2]

theorem findLeaf_modifyLeaf_ne (k c : Nat) (g : Fields → Fields) (t : Tree) (h : c ≠ k) :
    (modifyLeaf k g t).findLeaf c = t.findLeaf c := by
  unfold findLeaf
  rw [modifyLeaf_leaves, List.find?_map]
  have e : (fun (l : Tree) => l.num == c) ∘ modTok k g = fun l => l.num == c := by
    funext x; simp
  rw [e]
  cases hf : t.leaves.find? (fun l => l.num == c) with
  | none => rfl
  | some y =>
    have h2 : y.num = c := by simpa using List.find?_some hf
    simp [modTok, h2, h]

theorem findLeaf_deleteTerminal_gt (a c : Nat) (t : Tree) (ht : t.isLeaf = false) (h : a < c) :
    (deleteTerminal t a).findLeaf (c - 1) = (t.findLeaf c).map (shiftTok a) := by
  unfold findLeaf
  rw [deleteTerminal_leaves t a ht, List.find?_map, List.find?_filter]
  congr 1
  apply find?_congr'
  intro x _
  simp only [Function.comp_apply, num_shiftTok]
  rw [Bool.eq_iff_iff]
  simp only [bne_iff_ne, ne_eq, beq_iff_eq, Bool.decide_and, Bool.and_eq_true, decide_eq_true_eq]
  unfold sh
  split <;> omega

/-- the trace token is deleted (not kept) -/
def delP (o : TraceOpts) (l : Tree) : Bool :=
  !(o.keepall || o.keep.contains (traceLabel o (l.fields.word.getD [])))

@[simp] theorem delP_shiftTok (o : TraceOpts) (a : Nat) (x : Tree) : delP o (shiftTok a x) = delP o x := by
  simp [delP]

theorem traces_aux (o : TraceOpts) : ∀ (nums : List Nat) (t : Tree) (off : Nat), Numbered t →
    nums.Pairwise (· < ·) → (∀ k ∈ nums, off < k ∧ k - off ≤ t.leafNums.length) →
    (nums.foldl (traceStep o) (t, off)).1.leafNums.length =
      t.leafNums.length - (nums.filter (fun k => (t.findLeaf (k - off)).any (delP o))).length
  | [], t, off, _, _, _ => by simp
  | k :: rest, t, off, hN, hp, hb => by
    have hp' := List.pairwise_cons.1 hp
    have hk := hb k List.mem_cons_self
    have hmem : k - off ∈ t.leafNums := (hN.mem _).2 (by omega)
    simp only [List.foldl_cons]
    cases hf : t.findLeaf (k - off) with
    | none =>
      have e : traceStep o (t, off) k = (t, off) := by simp only [traceStep, hf]
      rw [e, traces_aux o rest t off hN hp'.2 (fun b hbr => hb b (List.mem_cons_of_mem _ hbr))]
      simp [hf]
    | some l =>
      by_cases hd : delP o l = true
      · have hd' : (o.keepall || o.keep.contains (traceLabel o (l.fields.word.getD []))) = false := by
          simpa [delP] using hd
        have e : traceStep o (t, off) k = (deleteTerminal t (k - off), off + 1) := by
          simp only [traceStep, hf, hd']; rfl
        have hN1 := deleteTerminal_numbered t (k - off) hN hmem
        have hl1 := deleteTerminal_length t (k - off) hN hmem
        rw [e, traces_aux o rest _ (off + 1) hN1 hp'.2 (by
          intro b hbr
          have h1 := hp'.1 b hbr
          have h2 := hb b (List.mem_cons_of_mem _ hbr)
          rw [hl1]; omega)]
        have hfc : rest.filter (fun b => ((deleteTerminal t (k - off)).findLeaf (b - (off + 1))).any (delP o))
            = rest.filter (fun b => (t.findLeaf (b - off)).any (delP o)) := by
          apply List.filter_congr
          intro b hbr
          have h1 := hp'.1 b hbr
          have e2 : b - (off + 1) = (b - off) - 1 := by omega
          rw [e2, findLeaf_deleteTerminal_gt (k - off) (b - off) t hN.1 (by omega), Option.any_map]
          simp
        have hpos : 0 < t.leafNums.length := List.length_pos_of_mem hmem
        rw [hfc, hl1]
        simp only [List.filter_cons, hf, Option.any_some, hd, if_true, List.length_cons]
        omega
      · have hd0 : delP o l = false := by simpa using hd
        have hd' : (o.keepall || o.keep.contains (traceLabel o (l.fields.word.getD []))) = true := by
          unfold delP at hd0
          cases hx : (o.keepall || o.keep.contains (traceLabel o (l.fields.word.getD [])))
          · rw [hx] at hd0; cases hd0
          · rfl
        obtain ⟨g, e⟩ : ∃ g, traceStep o (t, off) k = (modifyLeaf (k - off) g t, off) :=
          ⟨_, by simp only [traceStep, hf, hd']; rfl⟩
        rw [e, traces_aux o rest _ off (modifyLeaf_numbered _ g t hN) hp'.2 (by
          intro b hbr
          rw [modifyLeaf_leafNums]
          exact hb b (List.mem_cons_of_mem _ hbr))]
        have hfc : rest.filter (fun b => ((modifyLeaf (k - off) g t).findLeaf (b - off)).any (delP o))
            = rest.filter (fun b => (t.findLeaf (b - off)).any (delP o)) := by
          apply List.filter_congr
          intro b hbr
          have h1 := hp'.1 b hbr
          rw [findLeaf_modifyLeaf_ne _ _ _ t (by omega)]
        rw [hfc, modifyLeaf_leafNums]
        simp [hf, hd0]

mutual
theorem cleanLabels_leaves (o : TraceOpts) : (t : Tree) → (cleanLabels o t).leaves = t.leaves
  | leaf n f => rfl
  | node f ks => by
    simp only [cleanLabels]
    split
    · rename_i h
      rw [List.isEmpty_iff] at h
      subst h; rfl
    · simp only [leaves]; exact cleanLabelsL_leaves o ks
theorem cleanLabelsL_leaves (o : TraceOpts) : (ks : List Tree) →
    leavesL (cleanLabelsL o ks) = leavesL ks
  | [] => rfl
  | t :: ts => by simp only [cleanLabelsL, leavesL, cleanLabels_leaves o t, cleanLabelsL_leaves o ts]
end

theorem traces_count (o : TraceOpts) (t : Tree) (hN : Numbered t) :
    (((t.terminals.filter fun l => l.fields.label == NONE_POS).map num).filter
        (fun k => (t.findLeaf (k - 0)).any (delP o))).length = (tracePositions o t).length := by
  unfold tracePositions
  rw [List.filter_map, List.length_map, List.length_map, List.filter_filter]
  congr 1
  apply List.filter_congr
  intro l hl
  have := findLeaf_of_mem_nodup t l hN.nodup ((mem_terminals t l).1 hl)
  simp only [Function.comp_apply, Nat.sub_zero, this, Option.any_some, delP]
  rw [Bool.and_comm]

/-! ### well-formedness after deleting tokens -/

/-- no childless constituent below the root -/
def belowOK : Tree → Bool
  | node _ ks => noEmptyL ks
  | leaf _ _ => true

theorem belowOK_of_noEmpty (t : Tree) (h : t.noEmpty = true) : belowOK t = true := by
  cases t with
  | leaf n f => rfl
  | node f ks => simp only [noEmpty, Bool.and_eq_true] at h; exact h.2

theorem deleteTerminal_belowOK (t : Tree) (k : Nat) (h : belowOK t = true) :
    belowOK (deleteTerminal t k) = true := by
  cases t with
  | leaf n f => rfl
  | node f ks => exact delLeafL_noEmpty k ks h

theorem deleteMany_belowOK : ∀ (nums : List Nat) (t : Tree) (off : Nat), belowOK t = true →
    belowOK (nums.foldl (fun (acc : Tree × Nat) k => (deleteTerminal acc.1 (k - acc.2), acc.2 + 1)) (t, off)).1 = true
  | [], _, _, h => h
  | k :: rest, t, off, h => by
    simp only [List.foldl_cons]
    exact deleteMany_belowOK rest _ _ (deleteTerminal_belowOK t _ h)

/-- a numbered tree with at least one token and no childless constituent below the root is well-formed -/
theorem WF_of_numbered (t : Tree) (hN : Numbered t) (hb : belowOK t = true) (hpos : 0 < t.leafNums.length) :
    WF t = true := by
  rw [WF_iff]
  have hne : t.leafNums ≠ [] := by intro e; rw [e] at hpos; simp at hpos
  refine ⟨hN.1, ?_, by rw [← Nav.yield_eq]; exact hN.2, hne⟩
  cases t with
  | leaf n f => rfl
  | node f ks =>
    have : ks ≠ [] := by
      intro e; subst e; exact hne rfl
    have hks : ks.isEmpty = false := by simpa using this
    simp only [noEmpty, hks, Bool.not_false, Bool.true_and]
    exact hb

end TT.Lemmas.Edit
