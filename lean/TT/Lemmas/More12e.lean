/-
  Helper lemmas for C12, wave 12: the right neighbour in set style (`runEnd`), reading a parent map
  (dominance, token sets), the landing site named, and the simulation of `root_attach` by the set-based
  reference `Spec.rootAttachRef`.  Core only.
-/
import TT.Spec.RootAttachRef
import TT.Props.C12Land
namespace TT.Lemmas.More12e
open TT TT.Tree TT.Spec TT.Props.C12Land
open TT.Lemmas.WF (tree_ind mem_subtrees_node self_mem_subtrees)
open TT.Lemmas.RootAttach (headEntry tailMap parentMap_eq parentMapL_eq parentMapL_append parentMapL_perm sig)

/-! ### part A: the right neighbour, set style -/

/-- first and last token of a node -/
def span (k : Tree) : Nat × Nat := (leftmost k, rightmost k)

/-- `find?` by key in a list with pairwise different keys does not depend on the order -/
theorem find?_key_iff {α} (key : α → Nat) : ∀ (l : List α), (l.map key).Nodup → ∀ (k : Nat) (x : α),
    (l.find? (fun a => key a == k) = some x ↔ x ∈ l ∧ key x = k)
  | [], _, _, _ => by simp
  | y :: ys, hd, k, x => by
    rw [List.map_cons, List.nodup_cons] at hd
    rw [List.find?_cons]
    by_cases hy : key y = k
    · simp only [hy, beq_self_eq_true, Option.some.injEq, List.mem_cons]
      constructor
      · rintro rfl; exact ⟨Or.inl rfl, hy⟩
      · rintro ⟨h | h, hx⟩
        · exact h.symm
        · exfalso; apply hd.1; rw [hy, ← hx]; exact List.mem_map_of_mem h
    · have : (key y == k) = false := by simpa using hy
      simp only [this]
      rw [find?_key_iff key ys hd.2 k x]
      constructor
      · rintro ⟨h, hx⟩; exact ⟨List.mem_cons_of_mem _ h, hx⟩
      · rintro ⟨h, hx⟩
        rcases List.mem_cons.1 h with rfl | h
        · exact absurd hx hy
        · exact ⟨h, hx⟩

/-- the same when equal keys mean equal elements (duplicates allowed) -/
theorem find?_key_iff_inj {α} (key : α → Nat) (l : List α) (hinj : ∀ a ∈ l, ∀ b ∈ l, key a = key b → a = b)
    (k : Nat) (x : α) : l.find? (fun a => key a == k) = some x ↔ x ∈ l ∧ key x = k := by
  constructor
  · intro h
    exact ⟨List.mem_of_find?_eq_some h, by simpa using List.find?_some h⟩
  · rintro ⟨hx, hxk⟩
    cases hf : l.find? (fun a => key a == k) with
    | none =>
      have := List.find?_eq_none.1 hf x hx
      simp [hxk] at this
    | some y =>
      have hy : key y = k := by simpa using List.find?_some hf
      rw [hinj y (List.mem_of_find?_eq_some hf) x hx (by rw [hy, hxk])]

/-- two lists with the same elements, equal keys meaning equal elements, answer `find?` by key alike -/
theorem find?_key_congr {α} (key : α → Nat) (A B : List α) (hinj : ∀ a ∈ A, ∀ b ∈ A, key a = key b → a = b)
    (hmem : ∀ x, x ∈ A ↔ x ∈ B) (k : Nat) :
    A.find? (fun a => key a == k) = B.find? (fun a => key a == k) := by
  have hinjB : ∀ a ∈ B, ∀ b ∈ B, key a = key b → a = b :=
    fun a ha b hb h => hinj a ((hmem a).2 ha) b ((hmem b).2 hb) h
  apply Option.ext
  intro x
  rw [find?_key_iff_inj key A hinj, find?_key_iff_inj key B hinjB, hmem]

theorem find?_key_none {α} (key : α → Nat) (l : List α) (k : Nat) :
    l.find? (fun a => key a == k) = none ↔ ∀ x ∈ l, key x ≠ k := by
  simp [List.find?_eq_none]

/-- two span lists that agree on "who starts at `e + 1`" for every `e` from `key` on give the same run -/
theorem runEnd_congr (A B : List (Nat × Nat)) (key : Nat)
    (hAB : ∀ e, key ≤ e → A.find? (fun s => s.1 == e + 1) = B.find? (fun s => s.1 == e + 1))
    (hA : ∀ s ∈ A, s.1 ≤ s.2) : ∀ n e, key ≤ e → runEnd A n e = runEnd B n e
  | 0, _, _ => rfl
  | n + 1, e, he => by
    simp only [runEnd]
    rw [← hAB e he]
    cases hf : A.find? (fun s => s.1 == e + 1) with
    | none => rfl
    | some s =>
      have h1 : s.1 = e + 1 := by simpa using List.find?_some hf
      have h2 := hA s (List.mem_of_find?_eq_some hf)
      exact runEnd_congr A B key hAB hA n s.2 (by omega)

/-- a span that does not start after `e` plays no part in the run from `e` -/
theorem runEnd_cons_skip (s : Nat × Nat) (rest : List (Nat × Nat)) (hw : ∀ x ∈ rest, x.1 ≤ x.2) :
    ∀ n e, s.1 ≤ e → runEnd (s :: rest) n e = runEnd rest n e
  | 0, _, _ => rfl
  | n + 1, e, he => by
    have : (s.1 == e + 1) = false := by simp; omega
    simp only [runEnd, List.find?_cons, this]
    cases hf : rest.find? (fun s => s.1 == e + 1) with
    | none => rfl
    | some x =>
      have h1 : x.1 = e + 1 := by simpa using List.find?_some hf
      have h2 := hw x (List.mem_of_find?_eq_some hf)
      exact runEnd_cons_skip s rest hw n x.2 (by omega)

theorem span_le (k : Tree) : (span k).1 ≤ (span k).2 := Lemmas.RootAttach.leftmost_le_rightmost k

/-- **the skipping loop computes the run end**: on root children ordered by first token, with non-empty and
    pairwise disjoint token sets not containing `fm`, `skipRight` returns the token after the run of adjacent
    children that starts right after `fm` -/
theorem skipRight_spec : ∀ (l : List Tree) (fm n : Nat), (∀ s ∈ l, s.leafNums ≠ []) →
    l.Pairwise (fun a b => leftmost a < leftmost b) → (fm :: l.flatMap leafNums).Nodup → l.length ≤ n →
    skipRight fm (fm + 1) l = runEnd (l.map span) n fm + 1
  | [], fm, n, _, _, _, _ => by cases n <;> simp [skipRight, runEnd]
  | s :: rest, fm, 0, _, _, _, hn => by simp at hn
  | s :: rest, fm, n + 1, hne, hs, hd, hn => by
    have hne' : ∀ x ∈ rest, x.leafNums ≠ [] := fun x hx => hne x (List.mem_cons_of_mem _ hx)
    have hs' := (List.pairwise_cons.1 hs)
    have hw : ∀ x ∈ rest.map span, x.1 ≤ x.2 := by
      intro x hx
      obtain ⟨k, _, rfl⟩ := List.mem_map.1 hx
      exact span_le k
    have hsl := Lemmas.WF.leftmost_mem s (hne s List.mem_cons_self)
    have hsr := Lemmas.WF.rightmost_mem s (hne s List.mem_cons_self)
    simp only [List.flatMap_cons, List.nodup_cons, List.mem_append, not_or, List.nodup_append] at hd
    obtain ⟨⟨hfs, hfr⟩, hsn, hrn, hdis⟩ := hd
    rw [skipRight, List.map_cons]
    split
    · rename_i hlt
      rw [skipRight_spec rest fm (n + 1) hne' hs'.2 (List.nodup_cons.2 ⟨hfr, hrn⟩) (by simp at hn; omega)]
      rw [runEnd_cons_skip (span s) _ hw (n + 1) fm (by simp only [span]; omega)]
    · rename_i hge
      split
      · rename_i hgt
        have : (rest.map span).find? (fun x => x.1 == fm + 1) = none := by
          rw [List.find?_eq_none]
          intro x hx
          obtain ⟨k, hk, rfl⟩ := List.mem_map.1 hx
          have := hs'.1 k hk
          simp [span]; omega
        have h2 : ((span s).1 == fm + 1) = false := by simp [span]; omega
        simp only [runEnd, List.find?_cons, h2, this]
      · rename_i hle
        have heq : leftmost s = fm + 1 := by
          have : leftmost s ≠ fm := fun h => hfs (h ▸ hsl)
          omega
        have h2 : ((span s).1 == fm + 1) = true := by simp [span, heq]
        simp only [runEnd, List.find?_cons, h2]
        have hd' : (rightmost s :: rest.flatMap leafNums).Nodup :=
          List.nodup_cons.2 ⟨fun h => hdis _ hsr _ h rfl, hrn⟩
        rw [skipRight_spec rest (rightmost s) n hne' hs'.2 hd' (by simp at hn; omega)]
        rw [runEnd_cons_skip (span s) _ hw n _ (span_le s)]
        rfl

/-- `[(3,4)]` after `fm = 3`: without disjointness the loop extends over a child that starts AT the end -/
example : skipRight 3 4 [node {} [leaf 3 {}, leaf 4 {}]] = 5 ∧
    runEnd ([node {} [leaf 3 {}, leaf 4 {}]].map span) 1 3 + 1 = 4 := by decide

/-! #### the root children on the right of `c` -/

theorem dropWhile_drop_eq_filter {α} (key : α → Nat) : ∀ (l : List α) (k : Nat),
    l.Pairwise (fun a b => key a < key b) → (∃ x ∈ l, key x = k) →
    (l.dropWhile (fun a => key a != k)).drop 1 = l.filter (fun a => key a > k)
  | [], _, _, h => by simp at h
  | y :: ys, k, hs, hex => by
    have hs' := List.pairwise_cons.1 hs
    by_cases hy : key y = k
    · have h1 : (key y != k) = false := by simp [hy]
      have h2 : decide (key y > k) = false := by simp [hy]
      rw [List.dropWhile_cons, h1]
      simp only [Bool.false_eq_true, if_false, List.drop_one, List.tail_cons, List.filter_cons, h2]
      symm
      rw [List.filter_eq_self]
      intro a ha
      have := hs'.1 a ha
      simp; omega
    · have h1 : (key y != k) = true := by simp [hy]
      obtain ⟨x, hx, hxk⟩ := hex
      have hx' : x ∈ ys := by
        rcases List.mem_cons.1 hx with rfl | h
        · exact absurd hxk hy
        · exact h
      have := hs'.1 x hx'
      have h2 : decide (key y > k) = false := by simp; omega
      rw [List.dropWhile_cons, h1]
      simp only [if_true, List.filter_cons, h2, Bool.false_eq_true, if_false]
      exact dropWhile_drop_eq_filter key ys k hs'.2 ⟨x, hx', hxk⟩

theorem rightOf_eq (ks : List Tree) (key : Nat) (hd : (ks.map leftmost).Nodup) (hex : ∃ c ∈ ks, leftmost c = key) :
    rightOf ks key = (sortBy leftmost ks).filter (fun k => leftmost k > key) := by
  unfold rightOf
  obtain ⟨c, hc, hck⟩ := hex
  exact dropWhile_drop_eq_filter leftmost _ key (sortBy_strict leftmost ks hd) ⟨c, (mem_sortBy _ _ _).2 hc, hck⟩

theorem mem_rightOf (ks : List Tree) (key : Nat) (hd : (ks.map leftmost).Nodup) (hex : ∃ c ∈ ks, leftmost c = key)
    (s : Tree) : s ∈ rightOf ks key ↔ s ∈ ks ∧ key < leftmost s := by
  rw [rightOf_eq ks key hd hex, List.mem_filter, mem_sortBy]
  simp

theorem rightOf_sorted (ks : List Tree) (key : Nat) (hd : (ks.map leftmost).Nodup) (hex : ∃ c ∈ ks, leftmost c = key) :
    (rightOf ks key).Pairwise (fun a b => leftmost a < leftmost b) := by
  rw [rightOf_eq ks key hd hex]
  exact (sortBy_strict leftmost ks hd).sublist List.filter_sublist

theorem find?_mem_key {ks : List Tree} {key : Nat} {c : Tree}
    (hc : ks.find? (fun k => leftmost k == key) = some c) : c ∈ ks ∧ leftmost c = key :=
  ⟨List.mem_of_find?_eq_some hc, by simpa using List.find?_some hc⟩

/-- token sets of siblings: non-empty, and the concatenation has no duplicates -/
structure KidsOK (ks : List Tree) : Prop where
  ne : ∀ k ∈ ks, k.leafNums ≠ []
  nd : (ks.flatMap leafNums).Nodup

theorem KidsOK.leftmost_nodup {ks : List Tree} (h : KidsOK ks) : (ks.map leftmost).Nodup :=
  Lemmas.WF.map_leftmost_nodup ks h.ne h.nd

theorem KidsOK.of_node {f : Fields} {ks : List Tree} (hne : (node f ks).noEmpty = true)
    (hn : (node f ks).leafNums.Nodup) : KidsOK ks :=
  ⟨fun k hk => Lemmas.WF.noEmpty_leafNums_ne_nil k (Lemmas.WF.noEmpty_of_mem_kids f ks k hne hk),
   by rw [Lemmas.WF.leafNums_node] at hn; exact hn⟩

theorem flatMap_sublist {α β} (g : α → List β) {l l' : List α} (h : l'.Sublist l) :
    (l'.flatMap g).Sublist (l.flatMap g) := by
  induction h with
  | slnil => simp
  | cons a _ ih => rw [List.flatMap_cons]; exact List.sublist_append_of_sublist_right ih
  | cons_cons a _ ih => rw [List.flatMap_cons, List.flatMap_cons]; exact List.Sublist.append (List.Sublist.refl _) ih

theorem flatMap_nodup_of_sublist {l l' : List Tree} (h : l'.Sublist l) (hn : (l.flatMap leafNums).Nodup) :
    (l'.flatMap leafNums).Nodup :=
  (flatMap_sublist leafNums h).nodup hn

/-- in a concatenation without duplicates an element belongs to one member only -/
theorem eq_of_mem_flatMap_nodup {α β} (g : α → List β) : ∀ (l : List α), (l.flatMap g).Nodup →
    ∀ a ∈ l, ∀ b ∈ l, ∀ x, x ∈ g a → x ∈ g b → a = b
  | [], _, _, ha, _, _, _, _, _ => by simp at ha
  | y :: ys, hn, a, ha, b, hb, x, hxa, hxb => by
    rw [List.flatMap_cons, List.nodup_append] at hn
    obtain ⟨_, hn2, hdis⟩ := hn
    rcases List.mem_cons.1 ha with rfl | ha' <;> rcases List.mem_cons.1 hb with rfl | hb'
    · rfl
    · exact absurd rfl (hdis x hxa x (List.mem_flatMap.2 ⟨b, hb', hxb⟩))
    · exact absurd rfl (hdis x hxb x (List.mem_flatMap.2 ⟨a, ha', hxa⟩))
    · exact eq_of_mem_flatMap_nodup g ys hn2 a ha' b hb' x hxa hxb

theorem KidsOK.disjoint {ks : List Tree} (h : KidsOK ks) {a b : Tree} (ha : a ∈ ks) (hb : b ∈ ks) {x : Nat}
    (hxa : x ∈ a.leafNums) (hxb : x ∈ b.leafNums) : a = b :=
  eq_of_mem_flatMap_nodup leafNums ks h.nd a ha b hb x hxa hxb

theorem map_span_fst (l : List Tree) : (l.map span).map (·.1) = l.map leftmost := by
  simp [List.map_map, Function.comp_def, span]

/-- **the right neighbour, set style**: for the root child `c` found under `key`, among siblings with non-empty
    pairwise disjoint token sets, the loop over the ordered right siblings returns the token after the run of
    adjacent root children that starts right after `c` - a notion that refers to ALL root children as a set of
    spans and to no order -/
theorem rightNeighbour_spec (ks : List Tree) (key : Nat) (c : Tree) (hk : KidsOK ks)
    (hc : ks.find? (fun k => leftmost k == key) = some c) (n : Nat) (hn : ks.length ≤ n) :
    rightNeighbour c (rightOf ks key) = runEnd (ks.map span) n (rightmost c) + 1 := by
  obtain ⟨hcm, hck⟩ := find?_mem_key hc
  have hd := hk.leftmost_nodup
  have hex : ∃ c ∈ ks, leftmost c = key := ⟨c, hcm, hck⟩
  have hsub : (rightOf ks key).Sublist (sortBy leftmost ks) := by
    rw [rightOf_eq ks key hd hex]; exact List.filter_sublist
  have hlen : (rightOf ks key).length ≤ n := by
    have := hsub.length_le
    rw [sortBy_length] at this
    omega
  have hnd : ((rightOf ks key).flatMap leafNums).Nodup := by
    refine flatMap_nodup_of_sublist hsub ?_
    exact ((sortBy_perm leftmost ks).flatMap_right leafNums).symm.nodup hk.nd
  have hcr := Lemmas.WF.rightmost_mem c (hk.ne c hcm)
  have hlr := Lemmas.RootAttach.leftmost_le_rightmost c
  unfold rightNeighbour
  rw [skipRight_spec (rightOf ks key) (rightmost c) n
    (fun s hs => hk.ne s ((mem_rightOf ks key hd hex s).1 hs).1) (rightOf_sorted ks key hd hex) ?_ hlen]
  · congr 1
    refine runEnd_congr _ _ (rightmost c) ?_ ?_ _ _ (Nat.le_refl _)
    · intro e he
      have hdR : (((rightOf ks key).map span).map (·.1)).Nodup := by
        rw [map_span_fst]
        exact (hsub.map leftmost).nodup (((sortBy_perm leftmost ks).map leftmost).symm.nodup hd)
      have hdK : ((ks.map span).map (·.1)).Nodup := by rw [map_span_fst]; exact hd
      apply Option.ext
      intro x
      rw [find?_key_iff (fun s : Nat × Nat => s.1) _ hdR (e + 1) x,
        find?_key_iff (fun s : Nat × Nat => s.1) _ hdK (e + 1) x]
      constructor
      · rintro ⟨hx, hx1⟩
        obtain ⟨k, hkm, rfl⟩ := List.mem_map.1 hx
        exact ⟨List.mem_map_of_mem ((mem_rightOf ks key hd hex k).1 hkm).1, hx1⟩
      · rintro ⟨hx, hx1⟩
        obtain ⟨k, hkm, rfl⟩ := List.mem_map.1 hx
        refine ⟨List.mem_map_of_mem ((mem_rightOf ks key hd hex k).2 ⟨hkm, ?_⟩), hx1⟩
        simp only [span] at hx1
        omega
    · intro x hx
      obtain ⟨k, _, rfl⟩ := List.mem_map.1 hx
      exact span_le k
  · refine List.nodup_cons.2 ⟨?_, hnd⟩
    intro hmem
    obtain ⟨s, hs, hxs⟩ := List.mem_flatMap.1 hmem
    obtain ⟨hsk, hlt⟩ := (mem_rightOf ks key hd hex s).1 hs
    have := hk.disjoint hcm hsk hcr hxs
    subst this
    omega

/-! ### part B: subtrees, heights -/

theorem subtrees_trans : ∀ (t : Tree) (s r : Tree), s ∈ subtrees t → r ∈ subtrees s → r ∈ subtrees t := by
  intro t
  induction t using tree_ind with
  | hl n f =>
    intro s r hs hr
    simp only [subtrees, List.mem_singleton] at hs
    subst hs; exact hr
  | hn f ks ih =>
    intro s r hs hr
    rcases (mem_subtrees_node f ks s).1 hs with rfl | ⟨k, hk, hsk⟩
    · exact hr
    · exact (mem_subtrees_node f ks r).2 (Or.inr ⟨k, hk, ih k hk s r hsk hr⟩)

theorem kid_mem_subtrees (s k : Tree) (h : k ∈ s.kids) : k ∈ subtrees s := by
  cases s with
  | leaf n f => simp [kids] at h
  | node f ks => exact (mem_subtrees_node f ks k).2 (Or.inr ⟨k, h, self_mem_subtrees k⟩)

theorem mem_leaves_iff : ∀ (t l : Tree), l ∈ leaves t ↔ l ∈ subtrees t ∧ l.isLeaf = true := by
  intro t
  induction t using tree_ind with
  | hl n f =>
    intro l
    simp only [leaves, subtrees, List.mem_singleton]
    constructor
    · rintro rfl; exact ⟨rfl, rfl⟩
    · exact fun h => h.1
  | hn f ks ih =>
    intro l
    rw [Lemmas.WF.leaves_node, List.mem_flatMap, mem_subtrees_node]
    constructor
    · rintro ⟨k, hk, hl⟩
      exact ⟨Or.inr ⟨k, hk, ((ih k hk l).1 hl).1⟩, ((ih k hk l).1 hl).2⟩
    · rintro ⟨rfl | ⟨k, hk, hl⟩, hleaf⟩
      · simp [isLeaf] at hleaf
      · exact ⟨k, hk, (ih k hk l).2 ⟨hl, hleaf⟩⟩

theorem mem_leafNums_iff (t : Tree) (n : Nat) : n ∈ t.leafNums ↔ ∃ l ∈ leaves t, l.num = n := by
  simp [leafNums]

theorem leaves_subset_of_mem_subtrees (t s : Tree) (hs : s ∈ subtrees t) : ∀ l ∈ leaves s, l ∈ leaves t := by
  intro l hl
  rw [mem_leaves_iff] at hl ⊢
  exact ⟨subtrees_trans t s l hs hl.1, hl.2⟩

theorem leafNums_subset_of_mem_subtrees (t s : Tree) (hs : s ∈ subtrees t) : ∀ n ∈ s.leafNums, n ∈ t.leafNums := by
  intro n hn
  rw [mem_leafNums_iff] at hn ⊢
  obtain ⟨l, hl, hn⟩ := hn
  exact ⟨l, leaves_subset_of_mem_subtrees t s hs l hl, hn⟩

theorem height_le_of_mem_subtrees : ∀ (t s : Tree), s ∈ subtrees t → height s ≤ height t := by
  intro t
  induction t using tree_ind with
  | hl n f =>
    intro s hs
    simp only [subtrees, List.mem_singleton] at hs
    subst hs; exact Nat.le_refl _
  | hn f ks ih =>
    intro s hs
    rcases (mem_subtrees_node f ks s).1 hs with rfl | ⟨k, hk, hsk⟩
    · exact Nat.le_refl _
    · have h1 := ih k hk s hsk
      have h2 := Lemmas.Nav.height_le_heightL ks k hk
      simp only [height]; omega

theorem length_subtrees_le_of_mem (ks : List Tree) (k : Tree) (hk : k ∈ ks) :
    (subtrees k).length ≤ (subtreesL ks).length := by
  rw [Lemmas.Nav.subtreesL_eq]
  induction ks with
  | nil => simp at hk
  | cons x xs ih =>
    rw [List.flatMap_cons, List.length_append]
    rcases List.mem_cons.1 hk with rfl | h
    · omega
    · have := ih h; omega

theorem heightL_le_length (ks : List Tree) (h : ∀ k ∈ ks, height k ≤ (subtrees k).length) :
    heightL ks ≤ (subtreesL ks).length := by
  induction ks with
  | nil => simp [heightL]
  | cons x xs ihx =>
    simp only [heightL, subtreesL, List.length_append]
    have h1 := h x List.mem_cons_self
    have h2 := ihx (fun k hk => h k (List.mem_cons_of_mem _ hk))
    omega

theorem height_le_length_subtrees : ∀ (t : Tree), height t ≤ (subtrees t).length := by
  intro t
  induction t using tree_ind with
  | hl n f => simp [height, subtrees]
  | hn f ks ih =>
    simp only [height, subtrees, List.length_cons]
    have := heightL_le_length ks ih
    omega

/-! ### part C: reading a parent map -/

theorem mem_headEntry_iff (u par : Option Nat) (e : Nat × Option Nat) :
    e ∈ headEntry u par ↔ u = some e.1 ∧ e.2 = par := by
  cases u with
  | none => simp [headEntry]
  | some v =>
    simp only [headEntry, List.mem_singleton, Option.some.injEq]
    constructor
    · rintro rfl; exact ⟨rfl, rfl⟩
    · rintro ⟨h1, h2⟩; cases e; simp_all

/-- the entries of a parent map: the node itself under `par`, and every child of a node below under that node -/
theorem mem_parentMap (e : Nat × Option Nat) : ∀ (t : Tree) (par : Option Nat),
    e ∈ parentMap par t ↔ (t.fields.uid = some e.1 ∧ e.2 = par) ∨
      ∃ s ∈ subtrees t, ∃ k ∈ s.kids, k.fields.uid = some e.1 ∧ e.2 = s.fields.uid := by
  intro t
  induction t using tree_ind with
  | hl n f =>
    intro par
    rw [parentMap_eq, List.mem_append, mem_headEntry_iff]
    simp [tailMap, subtrees, kids]
  | hn f ks ih =>
    intro par
    rw [parentMap_eq, List.mem_append, mem_headEntry_iff]
    simp only [tailMap, parentMapL_eq, List.mem_flatMap]
    constructor
    · rintro (h | ⟨k, hk, hek⟩)
      · exact Or.inl h
      · right
        rcases (ih k hk f.uid).1 hek with h | ⟨s, hs, k', hk', h⟩
        · exact ⟨node f ks, self_mem_subtrees _, k, hk, h⟩
        · exact ⟨s, (mem_subtrees_node f ks s).2 (Or.inr ⟨k, hk, hs⟩), k', hk', h⟩
    · rintro (h | ⟨s, hs, k', hk', h⟩)
      · exact Or.inl h
      · right
        rcases (mem_subtrees_node f ks s).1 hs with rfl | ⟨k, hk, hsk⟩
        · exact ⟨k', hk', (ih k' hk' f.uid).2 (Or.inl h)⟩
        · exact ⟨k, hk, (ih k hk f.uid).2 (Or.inr ⟨s, hsk, k', hk', h⟩)⟩

/-- uids name nodes -/
structure UOK (t : Tree) : Prop where
  has : ∀ s ∈ subtrees t, ∃ u, s.fields.uid = some u
  inj : ∀ a ∈ subtrees t, ∀ b ∈ subtrees t, ∀ u, a.fields.uid = some u → b.fields.uid = some u → a = b
  nodup : ((subtrees t).filterMap (·.fields.uid)).Nodup

theorem UOK.of_uidsOK {t : Tree} (h : uidsOK t = true) : UOK t := by
  have hnd := Lemmas.RootAttach.uidsOK_nodup t h
  simp only [uidsOK, Bool.and_eq_true, List.all_eq_true] at h
  refine ⟨?_, ?_, hnd⟩
  · intro s hs
    have := h.1 s hs
    exact Option.isSome_iff_exists.1 this
  · intro a ha b hb u hau hbu
    exact Lemmas.RootAttach.eq_of_filterMap_nodup (·.fields.uid) _ hnd a ha b hb u hau hbu

theorem UOK.to_uidsOK {t : Tree} (h : UOK t) : uidsOK t = true := by
  simp only [uidsOK, Bool.and_eq_true, List.all_eq_true]
  refine ⟨?_, (Lemmas.WF.nodupB_iff _).2 h.nodup⟩
  intro s hs
  obtain ⟨u, hu⟩ := h.has s hs
  simp [hu]

/-- `pm` is the parent map of `cur`, in some order -/
structure Reads (pm : ParentMap) (cur : Tree) : Prop where
  perm : pm.Perm (parentMap none cur)
  uok : UOK cur

namespace Reads
variable {pm : ParentMap} {cur : Tree}

theorem keys_nodup (R : Reads pm cur) : (pm.map (·.1)).Nodup := by
  refine (R.perm.map (·.1)).symm.nodup ?_
  rw [Lemmas.RootAttach.parentMap_keys]
  exact R.uok.nodup

theorem mem_iff (R : Reads pm cur) (e : Nat × Option Nat) : e ∈ pm ↔ e ∈ parentMap none cur := R.perm.mem_iff

theorem length_eq (R : Reads pm cur) : pm.length = (subtrees cur).length := by
  rw [R.perm.length_eq, ← List.length_map (f := (·.1)), Lemmas.RootAttach.parentMap_keys]
  have : ∀ l : List Tree, (∀ s ∈ l, ∃ u, s.fields.uid = some u) →
      (l.filterMap (·.fields.uid)).length = l.length := by
    intro l
    induction l with
    | nil => simp
    | cons x xs ih =>
      intro h
      obtain ⟨u, hu⟩ := h x List.mem_cons_self
      rw [List.filterMap_cons, hu]
      simp [ih (fun s hs => h s (List.mem_cons_of_mem _ hs))]
  exact this _ R.uok.has

/-- the keys of the map are the uids of the nodes -/
theorem mem_keys (R : Reads pm cur) (u : Nat) : u ∈ pm.map (·.1) ↔ ∃ s ∈ subtrees cur, s.fields.uid = some u := by
  rw [(R.perm.map (·.1)).mem_iff, Lemmas.RootAttach.parentMap_keys, List.mem_filterMap]

theorem parentIn_eq_some (R : Reads pm cur) (v p : Nat) : parentIn pm v = some p ↔ (v, some p) ∈ pm := by
  unfold parentIn
  constructor
  · intro h
    cases hf : pm.find? (fun e => e.1 == v) with
    | none => rw [hf] at h; simp at h
    | some x =>
      rw [hf] at h
      simp only [Option.bind_some] at h
      obtain ⟨hx, hxv⟩ := (find?_key_iff (fun e : Nat × Option Nat => e.1) pm R.keys_nodup v x).1 hf
      have : x = (v, some p) := by cases x; simp_all
      rw [← this]; exact hx
  · intro h
    have := (find?_key_iff (fun e : Nat × Option Nat => e.1) pm R.keys_nodup v (v, some p)).2 ⟨h, rfl⟩
    rw [this]; rfl

/-- the parent of a child of `s` is `s` -/
theorem parentIn_kid (R : Reads pm cur) (s k : Tree) (hs : s ∈ subtrees cur) (hk : k ∈ s.kids) (v p : Nat)
    (hv : k.fields.uid = some v) (hp : s.fields.uid = some p) : parentIn pm v = some p := by
  rw [R.parentIn_eq_some, R.mem_iff, mem_parentMap]
  exact Or.inr ⟨s, hs, k, hk, hv, hp.symm⟩

/-- a parent entry comes from a node and one of its children -/
theorem kid_of_parentIn (R : Reads pm cur) (v p : Nat) (h : parentIn pm v = some p) :
    ∃ s ∈ subtrees cur, ∃ k ∈ s.kids, k.fields.uid = some v ∧ s.fields.uid = some p := by
  rw [R.parentIn_eq_some, R.mem_iff, mem_parentMap] at h
  rcases h with ⟨_, h⟩ | ⟨s, hs, k, hk, hv, hp⟩
  · cases h
  · exact ⟨s, hs, k, hk, hv, hp.symm⟩

end Reads

/-! ### dominance -/

theorem dominates_refl (pm : ParentMap) (n u : Nat) : dominates pm n u u = true := by
  cases n <;> simp [dominates]

theorem dominates_succ (pm : ParentMap) : ∀ (n u v : Nat), dominates pm n u v = true →
    dominates pm (n + 1) u v = true
  | 0, u, v, h => by
    simp only [dominates] at h
    simp [dominates, h]
  | n + 1, u, v, h => by
    rw [dominates] at h ⊢
    rcases Bool.or_eq_true_iff.1 h with h | h
    · simp [h]
    · cases hp : parentIn pm v with
      | none => rw [hp] at h; cases h
      | some p =>
        rw [hp] at h
        simp only [Bool.or_eq_true]
        right
        exact dominates_succ pm n u p h

theorem dominates_mono (pm : ParentMap) (u v : Nat) {n m : Nat} (hnm : n ≤ m) (h : dominates pm n u v = true) :
    dominates pm m u v = true := by
  induction hnm with
  | refl => exact h
  | step _ ih => exact dominates_succ pm _ u v ih

/-- the chain can be extended at the top -/
theorem dominates_top (pm : ParentMap) (u w : Nat) (hw : parentIn pm w = some u) : ∀ (m v : Nat),
    dominates pm m w v = true → dominates pm (m + 1) u v = true
  | 0, v, h => by
    simp only [dominates, beq_iff_eq] at h
    subst h
    rw [dominates, hw]
    simp [dominates]
  | m + 1, v, h => by
    rw [dominates] at h
    rcases Bool.or_eq_true_iff.1 h with h | h
    · simp only [beq_iff_eq] at h
      subst h
      rw [dominates, hw]
      simp [dominates_refl]
    · cases hp : parentIn pm v with
      | none => rw [hp] at h; cases h
      | some p =>
        rw [hp] at h
        rw [dominates, hp]
        simp only [Bool.or_eq_true]
        right
        exact dominates_top pm u w hw m p h

namespace Reads
variable {pm : ParentMap} {cur : Tree}

/-- every node below `su` is dominated by it, within `height su` steps -/
theorem dominates_of_mem (R : Reads pm cur) : ∀ (su : Tree), su ∈ subtrees cur → ∀ sv ∈ subtrees su,
    ∀ u v, su.fields.uid = some u → sv.fields.uid = some v → dominates pm (height su) u v = true := by
  intro su
  induction su using tree_ind with
  | hl n f =>
    intro _ sv hsv u v hu hv
    simp only [subtrees, List.mem_singleton] at hsv
    subst hsv
    rw [hu] at hv; cases hv
    exact dominates_refl pm _ u
  | hn f ks ih =>
    intro hsu sv hsv u v hu hv
    rcases (mem_subtrees_node f ks sv).1 hsv with rfl | ⟨k, hk, hsk⟩
    · rw [hu] at hv; cases hv
      exact dominates_refl pm _ u
    · have hkc : k ∈ subtrees cur := subtrees_trans cur _ k hsu (kid_mem_subtrees _ k hk)
      obtain ⟨w, hw⟩ := R.uok.has k hkc
      have h1 := ih k hk hkc sv hsk w v hw hv
      have h2 := R.parentIn_kid (node f ks) k hsu hk w u hw hu
      have h3 := dominates_top pm u w h2 _ v h1
      refine dominates_mono pm u v ?_ h3
      have := Lemmas.Nav.height_le_heightL ks k hk
      simp only [height]; omega

/-- whatever dominates (the uid of) a node is (the uid of) a node above it -/
theorem mem_of_dominates (R : Reads pm cur) : ∀ (n u v : Nat), dominates pm n u v = true →
    ∀ sv ∈ subtrees cur, sv.fields.uid = some v →
    ∃ su ∈ subtrees cur, su.fields.uid = some u ∧ sv ∈ subtrees su
  | 0, u, v, h, sv, hsv, hv => by
    simp only [dominates, beq_iff_eq] at h
    subst h
    exact ⟨sv, hsv, hv, self_mem_subtrees sv⟩
  | n + 1, u, v, h, sv, hsv, hv => by
    rw [dominates] at h
    rcases Bool.or_eq_true_iff.1 h with h | h
    · simp only [beq_iff_eq] at h
      subst h
      exact ⟨sv, hsv, hv, self_mem_subtrees sv⟩
    · cases hp : parentIn pm v with
      | none => rw [hp] at h; cases h
      | some p =>
        rw [hp] at h
        obtain ⟨s, hs, k, hk, hkv, hsp⟩ := R.kid_of_parentIn v p hp
        have hkc : k ∈ subtrees cur := subtrees_trans cur s k hs (kid_mem_subtrees s k hk)
        have hksv : k = sv := R.uok.inj k hkc sv hsv v hkv hv
        obtain ⟨su, hsu, hsuu, hssu⟩ := R.mem_of_dominates n u p h s hs hsp
        refine ⟨su, hsu, hsuu, subtrees_trans su s sv hssu ?_⟩
        rw [← hksv]; exact kid_mem_subtrees s k hk

/-- **dominance read off the parent map is dominance in the tree** -/
theorem dominates_iff (R : Reads pm cur) (su sv : Tree) (hsu : su ∈ subtrees cur) (hsv : sv ∈ subtrees cur)
    (u v : Nat) (hu : su.fields.uid = some u) (hv : sv.fields.uid = some v) :
    dominates pm pm.length u v = true ↔ sv ∈ subtrees su := by
  constructor
  · intro h
    obtain ⟨su', hsu', hu', hmem⟩ := R.mem_of_dominates _ u v h sv hsv hv
    have := R.uok.inj su' hsu' su hsu u hu' hu
    rw [← this]; exact hmem
  · intro h
    refine dominates_mono pm u v ?_ (R.dominates_of_mem su hsu sv h u v hu hv)
    rw [R.length_eq]
    exact Nat.le_trans (height_le_of_mem_subtrees cur su hsu) (height_le_length_subtrees cur)

end Reads

/-! ### part D: token sets, first and last token -/

theorem minNat_mem : ∀ (l : List Nat), l ≠ [] → minNat l ∈ l
  | [], h => absurd rfl h
  | [a], _ => by simp [minNat]
  | a :: b :: r, _ => by
    have ih := minNat_mem (b :: r) (by simp)
    simp only [minNat]
    rcases Nat.le_total a (minNat (b :: r)) with h | h
    · rw [Nat.min_eq_left h]; exact List.mem_cons_self
    · rw [Nat.min_eq_right h]; exact List.mem_cons_of_mem _ ih

theorem minNat_le : ∀ (l : List Nat) (x : Nat), x ∈ l → minNat l ≤ x
  | [], _, h => by simp at h
  | [a], x, h => by simp at h; simp [minNat, h]
  | a :: b :: r, x, h => by
    simp only [minNat]
    rcases List.mem_cons.1 h with rfl | h
    · exact Nat.min_le_left _ _
    · exact Nat.le_trans (Nat.min_le_right _ _) (minNat_le (b :: r) x h)

theorem maxNat_mem : ∀ (l : List Nat), l ≠ [] → maxNat l ∈ l
  | [], h => absurd rfl h
  | [a], _ => by simp [maxNat]
  | a :: b :: r, _ => by
    have ih := maxNat_mem (b :: r) (by simp)
    rw [maxNat]
    rcases Nat.le_total a (maxNat (b :: r)) with h | h
    · rw [Nat.max_eq_right h]; exact List.mem_cons_of_mem _ ih
    · rw [Nat.max_eq_left h]; exact List.mem_cons_self

theorem le_maxNat : ∀ (l : List Nat) (x : Nat), x ∈ l → x ≤ maxNat l
  | [], _, h => by simp at h
  | a :: r, x, h => by
    rw [maxNat]
    rcases List.mem_cons.1 h with rfl | h
    · exact Nat.le_max_left _ _
    · exact Nat.le_trans (le_maxNat r x h) (Nat.le_max_right _ _)

theorem eq_nil_iff_of_mem_iff {l l' : List Nat} (h : ∀ x, x ∈ l ↔ x ∈ l') : l = [] ↔ l' = [] := by
  constructor
  · intro hl
    cases l' with
    | nil => rfl
    | cons a r => have := (h a).2 List.mem_cons_self; rw [hl] at this; simp at this
  · intro hl
    cases l with
    | nil => rfl
    | cons a r => have := (h a).1 List.mem_cons_self; rw [hl] at this; simp at this

/-- the smallest element only depends on the set -/
theorem minNat_congr {l l' : List Nat} (h : ∀ x, x ∈ l ↔ x ∈ l') : minNat l = minNat l' := by
  by_cases hl : l = []
  · have hl' := (eq_nil_iff_of_mem_iff h).1 hl
    rw [hl, hl']
  · have hl' : l' ≠ [] := fun e => hl ((eq_nil_iff_of_mem_iff h).2 e)
    apply Nat.le_antisymm
    · exact minNat_le l _ ((h _).2 (minNat_mem l' hl'))
    · exact minNat_le l' _ ((h _).1 (minNat_mem l hl))

theorem maxNat_congr {l l' : List Nat} (h : ∀ x, x ∈ l ↔ x ∈ l') : maxNat l = maxNat l' := by
  by_cases hl : l = []
  · have hl' := (eq_nil_iff_of_mem_iff h).1 hl
    rw [hl, hl']
  · have hl' : l' ≠ [] := fun e => hl ((eq_nil_iff_of_mem_iff h).2 e)
    apply Nat.le_antisymm
    · exact le_maxNat l' _ ((h _).1 (maxNat_mem l hl))
    · exact le_maxNat l _ ((h _).2 (maxNat_mem l' hl'))

theorem leftmost_eq_minNat (t : Tree) : leftmost t = minNat t.leafNums := Lemmas.Nav.leftmost_eq_minLeaf t

theorem rightmost_eq_maxNat (t : Tree) : rightmost t = maxNat t.leafNums := by
  by_cases h : t.leafNums = []
  · have : yield t = [] := by
      have := (Lemmas.WF.yield_perm t).length_eq
      rw [h] at this
      exact List.eq_nil_of_length_eq_zero this
    simp [rightmost, this, h, maxNat]
  · apply Nat.le_antisymm
    · exact le_maxNat _ _ (Lemmas.WF.rightmost_mem t h)
    · exact Lemmas.WF.le_rightmost t _ (maxNat_mem _ h)

/-- `tok` lists the tokens of `cur`: (number, uid) -/
def TokOf (tok : List (Nat × Nat)) (cur : Tree) : Prop :=
  ∀ e, e ∈ tok ↔ ∃ l ∈ leaves cur, l.num = e.1 ∧ l.fields.uid = some e.2

/-- the token table the reference builds -/
def tokTable (t : Tree) : List (Nat × Nat) := t.leaves.filterMap fun l => l.fields.uid.map fun u => (l.num, u)

theorem tokTable_of_perm (t cur : Tree) (hp : cur.leaves.Perm t.leaves) : TokOf (tokTable t) cur := by
  intro e
  simp only [tokTable, List.mem_filterMap, Option.map_eq_some_iff]
  constructor
  · rintro ⟨l, hl, u, hu, rfl⟩
    exact ⟨l, hp.mem_iff.2 hl, rfl, hu⟩
  · rintro ⟨l, hl, h1, h2⟩
    exact ⟨l, hp.mem_iff.1 hl, e.2, h2, by rw [h1]⟩

namespace Reads
variable {pm : ParentMap} {cur : Tree}

/-- **the token set read off the parent map is the token set of the node** -/
theorem mem_tokensOf (R : Reads pm cur) (tok : List (Nat × Nat)) (htok : TokOf tok cur) (su : Tree)
    (hsu : su ∈ subtrees cur) (u : Nat) (hu : su.fields.uid = some u) (n : Nat) :
    n ∈ tokensOf pm tok u ↔ n ∈ su.leafNums := by
  simp only [tokensOf, List.mem_map, List.mem_filter]
  constructor
  · rintro ⟨e, ⟨he, hd⟩, rfl⟩
    obtain ⟨l, hl, hln, hlu⟩ := (htok e).1 he
    have hlc := (mem_leaves_iff cur l).1 hl
    have := (R.dominates_iff su l hsu hlc.1 u e.2 hu hlu).1 hd
    rw [mem_leafNums_iff]
    exact ⟨l, (mem_leaves_iff su l).2 ⟨this, hlc.2⟩, hln⟩
  · intro hn
    obtain ⟨l, hl, hln⟩ := (mem_leafNums_iff su n).1 hn
    have hls := (mem_leaves_iff su l).1 hl
    have hlc : l ∈ subtrees cur := subtrees_trans cur su l hsu hls.1
    obtain ⟨v, hv⟩ := R.uok.has l hlc
    refine ⟨(n, v), ⟨(htok (n, v)).2 ⟨l, (mem_leaves_iff cur l).2 ⟨hlc, hls.2⟩, hln, hv⟩, ?_⟩, rfl⟩
    exact (R.dominates_iff su l hsu hlc u v hu hv).2 hls.1

theorem minTok (R : Reads pm cur) (tok : List (Nat × Nat)) (htok : TokOf tok cur) (su : Tree)
    (hsu : su ∈ subtrees cur) (u : Nat) (hu : su.fields.uid = some u) :
    minNat (tokensOf pm tok u) = leftmost su := by
  rw [leftmost_eq_minNat]
  exact minNat_congr (R.mem_tokensOf tok htok su hsu u hu)

theorem maxTok (R : Reads pm cur) (tok : List (Nat × Nat)) (htok : TokOf tok cur) (su : Tree)
    (hsu : su ∈ subtrees cur) (u : Nat) (hu : su.fields.uid = some u) :
    maxNat (tokensOf pm tok u) = rightmost su := by
  rw [rightmost_eq_maxNat]
  exact maxNat_congr (R.mem_tokensOf tok htok su hsu u hu)

end Reads

/-! ### part E: the landing site, named -/

theorem both_of_mem_subtrees (tl tr : Nat) (t q : Tree) (hq : q ∈ subtrees t) (hb : both tl tr q = true) :
    both tl tr t = true := by
  simp only [both, Bool.and_eq_true, hasLeaf, List.contains_iff_mem] at hb ⊢
  exact ⟨leafNums_subset_of_mem_subtrees t q hq _ hb.1, leafNums_subset_of_mem_subtrees t q hq _ hb.2⟩

theorem both_iff (tl tr : Nat) (t : Tree) : both tl tr t = true ↔ tl ∈ t.leafNums ∧ tr ∈ t.leafNums := by
  simp [both, hasLeaf]

/-- **the receiving constituent is the lowest one dominating both tokens**: it dominates both, none of its
    children does, every constituent dominating both dominates it; and the parent map changes by the entries
    of `c` under it, nothing else -/
theorem Lands.target {c : Tree} {tl tr : Nat} {t t' : Tree} (h : Lands c tl tr t t') :
    t.leafNums.Nodup → both tl tr t = true →
    ∃ p ∈ subtrees t, p.isLeaf = false ∧ both tl tr p = true ∧ (∀ k ∈ p.kids, both tl tr k = false) ∧
      (∀ q ∈ subtrees t, both tl tr q = true → p ∈ subtrees q) ∧
      ∀ par, (parentMap par t').Perm (parentMap par t ++ parentMap p.fields.uid c) := by
  induction h with
  | stop f ks h =>
    intro _ hb
    refine ⟨node f ks, self_mem_subtrees _, rfl, hb, h, ?_, ?_⟩
    · intro q hq hbq
      rcases (mem_subtrees_node f ks q).1 hq with rfl | ⟨k, hk, hqk⟩
      · exact self_mem_subtrees _
      · have := both_of_mem_subtrees tl tr k q hqk hbq
        rw [h k hk] at this; cases this
    · intro par
      simp only [parentMap, fields]
      rw [parentMapL_append, parentMapL, parentMapL, List.append_nil, List.append_assoc]
  | descend f pre post k k' hpre hk hl ih =>
    intro hn hb
    have hkn : k.leafNums.Nodup :=
      (Lemmas.WF.leafNums_sublist_of_mem f _ k (by simp)).nodup hn
    obtain ⟨p, hp, hpl, hpb, hpk, hlow, hpm⟩ := ih hkn hk
    have honly := only_child_both tl tr f pre post k hn hk
    refine ⟨p, ?_, hpl, hpb, hpk, ?_, ?_⟩
    · exact (mem_subtrees_node f _ p).2 (Or.inr ⟨k, by simp, hp⟩)
    · intro q hq hbq
      rcases (mem_subtrees_node f _ q).1 hq with rfl | ⟨k2, hk2, hqk⟩
      · exact (mem_subtrees_node f _ p).2 (Or.inr ⟨k, by simp, hp⟩)
      · have hb2 := both_of_mem_subtrees tl tr k2 q hqk hbq
        rcases List.mem_append.1 hk2 with h1 | h1
        · rw [honly k2 (List.mem_append_left _ h1)] at hb2; cases hb2
        · rcases List.mem_cons.1 h1 with rfl | h1
          · exact hlow q hqk hbq
          · rw [honly k2 (List.mem_append_right _ h1)] at hb2; cases hb2
    · intro par
      simp only [parentMap]
      rw [parentMapL_append, parentMapL_append, parentMapL, parentMapL]
      simp only [List.append_assoc]
      refine List.Perm.append_left _ (List.Perm.append_left _ ?_)
      refine ((hpm f.uid).append_right _).trans ?_
      rw [List.append_assoc]
      exact List.perm_append_comm.append_left _

theorem mem_subtrees_eq_or_height_lt : ∀ (t s : Tree), s ∈ subtrees t → s = t ∨ height s < height t := by
  intro t s hs
  cases t with
  | leaf n f => simp only [subtrees, List.mem_singleton] at hs; exact Or.inl hs
  | node f ks =>
    rcases (mem_subtrees_node f ks s).1 hs with rfl | ⟨k, hk, hsk⟩
    · exact Or.inl rfl
    · right
      have h1 := height_le_of_mem_subtrees k s hsk
      have h2 := Lemmas.Nav.height_le_heightL ks k hk
      simp only [height]; omega

theorem subtrees_antisymm (a b : Tree) (hab : a ∈ subtrees b) (hba : b ∈ subtrees a) : a = b := by
  rcases mem_subtrees_eq_or_height_lt b a hab with h | h
  · exact h
  · rcases mem_subtrees_eq_or_height_lt a b hba with h' | h'
    · exact h'.symm
    · omega

/-- `find?` when exactly one element qualifies -/
theorem find?_unique {α} (p : α → Bool) (l : List α) (x : α) (hx : x ∈ l) (hp : p x = true)
    (hu : ∀ y ∈ l, p y = true → y = x) : l.find? p = some x := by
  cases hf : l.find? p with
  | none => have := List.find?_eq_none.1 hf x hx; simp [hp] at this
  | some y => rw [hu y (List.mem_of_find?_eq_some hf) (List.find?_some hf)]

/-- replacing the value of one key in a map with pairwise different keys -/
theorem map_replace_perm (pm rest : ParentMap) (u : Nat) (a b : Option Nat) (hp : pm.Perm ((u, a) :: rest))
    (hn : (pm.map (·.1)).Nodup) :
    (pm.map fun e => if e.1 == u then (u, b) else e).Perm ((u, b) :: rest) := by
  refine (hp.map _).trans ?_
  have hn' : (((u, a) :: rest).map (·.1)).Nodup := (hp.map (·.1)).nodup hn
  rw [List.map_cons, List.nodup_cons] at hn'
  simp only [List.map_cons, beq_self_eq_true, if_true]
  refine List.Perm.cons _ ?_
  have : rest.map (fun e => if e.1 == u then (u, b) else e) = rest := by
    conv => rhs; rw [← List.map_id rest]
    apply List.map_congr_left
    intro e he
    have hne : e.1 ≠ u := by
      intro h
      apply hn'.1
      rw [← h]
      exact List.mem_map_of_mem (f := (·.1)) he
    simp [hne]
  rw [this]

/-! ### part F: one step of the reference is one step of the model -/

theorem UOK.of_sigs_perm {a b : Tree} (ha : UOK a) (hp : ((subtrees b).map sig).Perm ((subtrees a).map sig)) :
    UOK b := by
  have hnd : ((subtrees b).filterMap (·.fields.uid)).Nodup := by
    rw [Lemmas.RootAttach.uids_eq_sigs]
    refine (hp.filterMap (·.1.uid)).symm.nodup ?_
    rw [← Lemmas.RootAttach.uids_eq_sigs]
    exact ha.nodup
  refine ⟨?_, ?_, hnd⟩
  · intro s hs
    have h1 : sig s ∈ (subtrees a).map sig := hp.mem_iff.1 (List.mem_map_of_mem hs)
    obtain ⟨s0, hs0, he⟩ := List.mem_map.1 h1
    obtain ⟨u, hu⟩ := ha.has s0 hs0
    have : s0.fields = s.fields := congrArg (·.1) he
    exact ⟨u, by rw [← this]; exact hu⟩
  · intro x hx y hy u hxu hyu
    exact Lemmas.RootAttach.eq_of_filterMap_nodup (·.fields.uid) _ hnd x hx y hy u hxu hyu

/-- the spans of the root children as the reference computes them -/
def refSpans (pm : ParentMap) (tok : List (Nat × Nat)) (root : Option Nat) : List (Nat × Nat) :=
  (pm.filter fun e => e.2.isSome && e.2 == root).map fun e =>
    (minNat (tokensOf pm tok e.1), maxNat (tokensOf pm tok e.1))

/-- the candidates: nodes whose token set contains both neighbours -/
def refCands (pm : ParentMap) (tok : List (Nat × Nat)) (tl tr : Nat) : List Nat :=
  (pm.map (·.1)).filter fun u => (tokensOf pm tok u).contains tl && (tokensOf pm tok u).contains tr

theorem refStep_eq (tok : List (Nat × Nat)) (root : Option Nat) (tmin tmax : Nat) (pm : ParentMap) (c : Nat) :
    refStep tok root tmin tmax pm c =
      if minNat (tokensOf pm tok c) - 1 < tmin ||
          runEnd (refSpans pm tok root) pm.length (maxNat (tokensOf pm tok c)) + 1 > tmax then pm
      else match (refCands pm tok (minNat (tokensOf pm tok c) - 1)
            (runEnd (refSpans pm tok root) pm.length (maxNat (tokensOf pm tok c)) + 1)).find?
          (fun u => (refCands pm tok (minNat (tokensOf pm tok c) - 1)
            (runEnd (refSpans pm tok root) pm.length (maxNat (tokensOf pm tok c)) + 1)).all
              fun v => dominates pm pm.length v u) with
        | some target => pm.map fun e => if e.1 == c then (c, some target) else e
        | none => pm := rfl

section step
variable {pm : ParentMap} {f : Fields} {ks : List Tree} (R : Reads pm (node f ks))
  {tok : List (Nat × Nat)} (htok : TokOf tok (node f ks)) {r : Nat} (hr : f.uid = some r)
include R htok hr

theorem mem_refSpans (x : Nat × Nat) : x ∈ refSpans pm tok (some r) ↔ x ∈ ks.map span := by
  simp only [refSpans, List.mem_map, List.mem_filter, Bool.and_eq_true, beq_iff_eq]
  constructor
  · rintro ⟨e, ⟨he, _, her⟩, rfl⟩
    rw [R.mem_iff, mem_parentMap] at he
    rcases he with ⟨_, h⟩ | ⟨s, hs, k, hk, hkv, hsp⟩
    · rw [her] at h; cases h
    · have hsr : s.fields.uid = some r := by rw [← hsp, her]
      have : s = node f ks := R.uok.inj s hs _ (self_mem_subtrees _) r hsr hr
      subst this
      have hkc : k ∈ subtrees (node f ks) := kid_mem_subtrees _ k hk
      exact ⟨k, hk, by simp only [span]; rw [R.minTok tok htok k hkc e.1 hkv, R.maxTok tok htok k hkc e.1 hkv]⟩
  · rintro ⟨k, hk, rfl⟩
    have hkc : k ∈ subtrees (node f ks) := kid_mem_subtrees (node f ks) k hk
    obtain ⟨v, hv⟩ := R.uok.has k hkc
    refine ⟨(v, some r), ⟨?_, rfl, rfl⟩, ?_⟩
    · rw [R.mem_iff, mem_parentMap]
      exact Or.inr ⟨node f ks, self_mem_subtrees _, k, hk, hv, hr.symm⟩
    · simp only [span]; rw [R.minTok tok htok k hkc v hv, R.maxTok tok htok k hkc v hv]

omit htok hr in
theorem length_kids_le : ks.length ≤ pm.length := by
  rw [R.length_eq]
  simp only [subtrees, List.length_cons, Lemmas.Nav.subtreesL_eq]
  have : ∀ l : List Tree, l.length ≤ (l.flatMap subtrees).length := by
    intro l
    induction l with
    | nil => simp
    | cons x xs ih =>
      rw [List.flatMap_cons, List.length_append, List.length_cons]
      have : 1 ≤ (subtrees x).length := by cases x <;> simp [subtrees]
      omega
  have := this ks
  omega

/-- the right neighbour of the reference is the right neighbour of the loop -/
theorem ref_tr (hk : KidsOK ks) (key : Nat) (c : Tree) (hc : ks.find? (fun k => leftmost k == key) = some c) :
    runEnd (refSpans pm tok (some r)) pm.length (rightmost c) + 1 = rightNeighbour c (rightOf ks key) := by
  rw [rightNeighbour_spec ks key c hk hc pm.length (length_kids_le R)]
  congr 1
  symm
  refine runEnd_congr _ _ 0 ?_ ?_ _ _ (Nat.zero_le _)
  · intro e _
    refine find?_key_congr (fun s : Nat × Nat => s.1) _ _ ?_ (fun x => (mem_refSpans R htok hr x).symm) (e + 1)
    have hd : ((ks.map span).map (·.1)).Nodup := by rw [map_span_fst]; exact hk.leftmost_nodup
    exact eq_of_key_eq_of_nodup (fun s : Nat × Nat => s.1) _ hd
  · intro x hx
    obtain ⟨k, _, rfl⟩ := List.mem_map.1 hx
    exact span_le k

omit hr in
theorem mem_refCands (tl tr y : Nat) :
    y ∈ refCands pm tok tl tr ↔ ∃ sy ∈ subtrees (node f ks), sy.fields.uid = some y ∧ both tl tr sy = true := by
  simp only [refCands, List.mem_filter, Bool.and_eq_true, List.contains_iff_mem]
  rw [R.mem_keys]
  constructor
  · rintro ⟨⟨sy, hsy, hy⟩, h1, h2⟩
    refine ⟨sy, hsy, hy, (both_iff tl tr sy).2 ⟨?_, ?_⟩⟩
    · exact (R.mem_tokensOf tok htok sy hsy y hy tl).1 h1
    · exact (R.mem_tokensOf tok htok sy hsy y hy tr).1 h2
  · rintro ⟨sy, hsy, hy, hb⟩
    have hb' := (both_iff tl tr sy).1 hb
    exact ⟨⟨sy, hsy, hy⟩, (R.mem_tokensOf tok htok sy hsy y hy tl).2 hb'.1,
      (R.mem_tokensOf tok htok sy hsy y hy tr).2 hb'.2⟩

omit hr in
/-- the lowest candidate of the reference: the node all candidates dominate -/
theorem ref_target (tl tr : Nat) (pc : Tree) (hpc : pc ∈ subtrees (node f ks)) (P : Nat) (hP : pc.fields.uid = some P)
    (hb : both tl tr pc = true) (hlow : ∀ q ∈ subtrees (node f ks), both tl tr q = true → pc ∈ subtrees q) :
    (refCands pm tok tl tr).find? (fun u => (refCands pm tok tl tr).all fun v => dominates pm pm.length v u)
      = some P := by
  apply find?_unique
  · exact (mem_refCands R htok tl tr P).2 ⟨pc, hpc, hP, hb⟩
  · rw [List.all_eq_true]
    intro v hv
    obtain ⟨sv, hsv, hvu, hbv⟩ := (mem_refCands R htok tl tr v).1 hv
    exact (R.dominates_iff sv pc hsv hpc v P hvu hP).2 (hlow sv hsv hbv)
  · intro y hy hpy
    obtain ⟨sy, hsy, hyu, hby⟩ := (mem_refCands R htok tl tr y).1 hy
    rw [List.all_eq_true] at hpy
    have h1 := hpy P ((mem_refCands R htok tl tr P).2 ⟨pc, hpc, hP, hb⟩)
    have h2 : sy ∈ subtrees pc := (R.dominates_iff pc sy hpc hsy P y hP hyu).1 h1
    have h3 : pc ∈ subtrees sy := hlow sy hsy hby
    have := subtrees_antisymm sy pc h2 h3
    rw [this] at hyu
    rw [hP] at hyu
    cases hyu; rfl

end step

/-- splitting off the entry of one child of the top node -/
theorem parentMap_node_split (f : Fields) (ks ks' : List Tree) (c : Tree) (hperm : ks.Perm (c :: ks'))
    (par : Option Nat) (u : Nat) (hu : c.fields.uid = some u) :
    (parentMap par (node f ks)).Perm
      ((u, f.uid) :: (headEntry f.uid par ++ (tailMap c ++ parentMapL f.uid ks'))) := by
  rw [parentMap_eq]
  show (headEntry f.uid par ++ parentMapL f.uid ks).Perm _
  refine ((parentMapL_perm f.uid hperm).append_left _).trans ?_
  rw [parentMapL, parentMap_eq f.uid c, hu]
  show (headEntry f.uid par ++ ((u, f.uid) :: (tailMap c ++ parentMapL f.uid ks'))).Perm _
  exact List.perm_middle

/-! ### part G: the step -/

/-- **one step**: if `pm` is the parent map of the current tree, the reference step for the root child with uid `u`
    yields the parent map of the model step for that child -/
theorem refStep_reads (tok : List (Nat × Nat)) (tmin tmax : Nat) (pm : ParentMap) (f : Fields) (ks : List Tree)
    (R : Reads pm (node f ks)) (htok : TokOf tok (node f ks))
    (hne : (node f ks).noEmpty = true) (hn : (node f ks).leafNums.Nodup)
    (hpos : 1 ≤ tmin) (hrange : ∀ n, tmin ≤ n → n ≤ tmax → n ∈ (node f ks).leafNums)
    (r : Nat) (hr : f.uid = some r)
    (key : Nat) (c : Tree) (hc : ks.find? (fun k => leftmost k == key) = some c) (u : Nat)
    (hu : c.fields.uid = some u) :
    Reads (refStep tok (some r) tmin tmax pm u) (rootAttachStep tmin tmax (node f ks) key) := by
  have hk := KidsOK.of_node hne hn
  obtain ⟨hcm, hck⟩ := find?_mem_key hc
  have hcs : c ∈ subtrees (node f ks) := kid_mem_subtrees (node f ks) c hcm
  have huok : UOK (rootAttachStep tmin tmax (node f ks) key) :=
    UOK.of_sigs_perm R.uok
      (Lemmas.RootAttach.rootAttachStep_additive Lemmas.RootAttach.additive_sigs tmin tmax (node f ks) key)
  rw [refStep_eq, R.minTok tok htok c hcs u hu, R.maxTok tok htok c hcs u hu, ref_tr R htok hr hk key c hc]
  have hstep := rootAttachStep_lands tmin tmax f ks key c hc
  by_cases hedge : leftmost c - 1 < tmin ∨ rightNeighbour c (rightOf ks key) > tmax
  · rw [hstep.1 hedge, if_pos (by simpa using hedge)]
    exact R
  · rw [if_neg (by simpa using hedge)]
    have hL := hstep.2 hedge
    have htl : tmin ≤ leftmost c - 1 := by omega
    have htr : rightNeighbour c (rightOf ks key) ≤ tmax := by omega
    have hperm : ks.Perm (c :: eraseFirst (fun k => leftmost k == key) ks) :=
      Lemmas.RootAttach.perm_eraseFirst _ ks c hc
    -- the neighbours are no tokens of `c`
    have hcl : leftmost c - 1 ∉ c.leafNums := fun h => by
      have := Lemmas.WF.leftmost_le c _ h; omega
    have hcr : rightNeighbour c (rightOf ks key) ∉ c.leafNums := fun h => by
      have h1 := Lemmas.WF.le_rightmost c _ h
      have h2 := Lemmas.RootAttach.skipRight_ge (rightOf ks key) (rightmost c)
      simp only [rightNeighbour] at h1; omega
    have hcb : ∀ q ∈ subtrees c, both (leftmost c - 1) (rightNeighbour c (rightOf ks key)) q = false := by
      intro q hq
      cases hb : both (leftmost c - 1) (rightNeighbour c (rightOf ks key)) q with
      | false => rfl
      | true => exact absurd ((both_iff _ _ c).1 (both_of_mem_subtrees _ _ c q hq hb)).1 hcl
    -- token numbers of the tree without `c`
    have hsplit : ((node f ks).leafNums).Perm
        (c.leafNums ++ (node f (eraseFirst (fun k => leftmost k == key) ks)).leafNums) := by
      rw [Lemmas.WF.leafNums_node, Lemmas.WF.leafNums_node]
      exact hperm.flatMap_right leafNums
    have hTn : (node f (eraseFirst (fun k => leftmost k == key) ks)).leafNums.Nodup :=
      (List.nodup_append.1 (hsplit.nodup hn)).2.1
    have hcurb : both (leftmost c - 1) (rightNeighbour c (rightOf ks key)) (node f ks) = true :=
      (both_iff _ _ _).2 ⟨hrange _ htl (by
          have h2 := Lemmas.RootAttach.skipRight_ge (rightOf ks key) (rightmost c)
          have h3 := Lemmas.RootAttach.leftmost_le_rightmost c
          simp only [rightNeighbour] at htr; omega),
        hrange _ (by
          have h2 := Lemmas.RootAttach.skipRight_ge (rightOf ks key) (rightmost c)
          have h3 := Lemmas.RootAttach.leftmost_le_rightmost c
          simp only [rightNeighbour]; omega) htr⟩
    have hTb : both (leftmost c - 1) (rightNeighbour c (rightOf ks key))
        (node f (eraseFirst (fun k => leftmost k == key) ks)) = true := by
      have := (both_iff _ _ _).1 hcurb
      refine (both_iff _ _ _).2 ⟨?_, ?_⟩
      · rcases List.mem_append.1 (hsplit.mem_iff.1 this.1) with h | h
        · exact absurd h hcl
        · exact h
      · rcases List.mem_append.1 (hsplit.mem_iff.1 this.2) with h | h
        · exact absurd h hcr
        · exact h
    obtain ⟨p, hp, _, hpb, hpk, hlow, hpm⟩ := Lands.target hL hTn hTb
    -- every node of the current tree: the root, below `c`, or below another root child
    have hcases : ∀ q ∈ subtrees (node f ks), q = node f ks ∨ q ∈ subtrees c ∨
        ∃ k ∈ eraseFirst (fun k => leftmost k == key) ks, q ∈ subtrees k := by
      intro q hq
      rcases (mem_subtrees_node f ks q).1 hq with h | ⟨k, hk', hqk⟩
      · exact Or.inl h
      · rcases List.mem_cons.1 (hperm.mem_iff.1 hk') with rfl | h
        · exact Or.inr (Or.inl hqk)
        · exact Or.inr (Or.inr ⟨k, h, hqk⟩)
    have hsub : ∀ k ∈ eraseFirst (fun k => leftmost k == key) ks, k ∈ ks :=
      fun k hk' => hperm.mem_iff.2 (List.mem_cons_of_mem _ hk')
    -- the receiving node, as a node of the current tree
    have htrans : ∃ pc ∈ subtrees (node f ks), ∃ P, pc.fields.uid = some P ∧ p.fields.uid = some P ∧
        both (leftmost c - 1) (rightNeighbour c (rightOf ks key)) pc = true ∧
        ∀ q ∈ subtrees (node f ks), both (leftmost c - 1) (rightNeighbour c (rightOf ks key)) q = true →
          pc ∈ subtrees q := by
      rcases (mem_subtrees_node f _ p).1 hp with rfl | ⟨k0, hk0, hpk0⟩
      · refine ⟨node f ks, self_mem_subtrees _, r, hr, hr, hcurb, ?_⟩
        intro q hq hbq
        rcases hcases q hq with rfl | h | ⟨k, hk', hqk⟩
        · exact self_mem_subtrees _
        · rw [hcb q h] at hbq; cases hbq
        · have := both_of_mem_subtrees _ _ k q hqk hbq
          rw [hpk k hk'] at this; cases this
      · have hpc : p ∈ subtrees (node f ks) := (mem_subtrees_node f ks p).2 (Or.inr ⟨k0, hsub k0 hk0, hpk0⟩)
        obtain ⟨P, hP⟩ := R.uok.has p hpc
        refine ⟨p, hpc, P, hP, hP, hpb, ?_⟩
        intro q hq hbq
        rcases hcases q hq with rfl | h | ⟨k, hk', hqk⟩
        · exact hpc
        · rw [hcb q h] at hbq; cases hbq
        · exact hlow q ((mem_subtrees_node f _ q).2 (Or.inr ⟨k, hk', hqk⟩)) hbq
    obtain ⟨pc, hpc, P, hpcP, hpP, hpcb, hpclow⟩ := htrans
    rw [ref_target R htok _ _ pc hpc P hpcP hpcb hpclow]
    refine ⟨?_, huok⟩
    have h1 := parentMap_node_split f ks _ c hperm none u hu
    have h2 := map_replace_perm pm _ u f.uid (some P) (R.perm.trans h1) R.keys_nodup
    refine h2.trans ?_
    refine List.Perm.symm ((hpm none).trans ?_)
    rw [hpP, parentMap_eq none (node f _), parentMap_eq (some P) c, hu]
    show (headEntry f.uid none ++ parentMapL f.uid _ ++ ((u, some P) :: tailMap c)).Perm _
    refine List.perm_middle.trans (List.Perm.cons _ ?_)
    rw [List.append_assoc]
    exact List.perm_append_comm.append_left _

/-! ### part H: what a step does to the other root children -/

theorem Lands.fields {c : Tree} {tl tr : Nat} {t t' : Tree} (h : Lands c tl tr t t') : t'.fields = t.fields := by
  cases h <;> rfl

theorem Lands.leafNums_perm {c : Tree} {tl tr : Nat} {t t' : Tree} (h : Lands c tl tr t t') :
    t'.leafNums.Perm (t.leafNums ++ c.leafNums) := by
  induction h with
  | stop f ks h =>
    rw [Lemmas.WF.leafNums_node, Lemmas.WF.leafNums_node]
    simp
  | descend f pre post k k' hpre hk hl ih =>
    rw [Lemmas.WF.leafNums_node, Lemmas.WF.leafNums_node]
    simp only [List.flatMap_append, List.flatMap_cons, List.append_assoc]
    refine List.Perm.append_left _ ?_
    refine (ih.append_right _).trans ?_
    rw [List.append_assoc]
    exact List.perm_append_comm.append_left _

/-- a constituent that receives `c` between two of its tokens keeps its first token -/
theorem Lands.leftmost {c : Tree} {tl tr : Nat} {t t' : Tree} (h : Lands c tl tr t t')
    (htl : tl ∈ t.leafNums) (hc : ∀ n ∈ c.leafNums, tl < n) : leftmost t' = leftmost t := by
  have hp := Lands.leafNums_perm h
  have hne : t.leafNums ≠ [] := List.ne_nil_of_mem htl
  have hne' : t'.leafNums ≠ [] := by
    intro e
    have := hp.length_eq
    rw [e, List.length_append] at this
    have : t.leafNums.length = 0 := by simp at this; omega
    exact hne (List.eq_nil_of_length_eq_zero this)
  apply Nat.le_antisymm
  · apply Lemmas.WF.leftmost_le
    exact hp.mem_iff.2 (List.mem_append_left _ (Lemmas.WF.leftmost_mem t hne))
  · rcases List.mem_append.1 (hp.mem_iff.1 (Lemmas.WF.leftmost_mem t' hne')) with h1 | h1
    · exact Lemmas.WF.leftmost_le t _ h1
    · have := hc _ h1
      have := Lemmas.WF.leftmost_le t _ htl
      omega

/-- **the other root children stay root children**: a step for `key` leaves every root child with another first
    token among the root's children, with the same data and the same first token (it may have received `c`) -/
theorem rootAttachStep_keeps (tmin tmax : Nat) (f : Fields) (ks : List Tree) (key : Nat) (c : Tree)
    (hc : ks.find? (fun k => leftmost k == key) = some c) (hpos : 1 ≤ tmin) (d : Tree) (hd : d ∈ ks)
    (hdk : leftmost d ≠ key) :
    ∃ d' ∈ (rootAttachStep tmin tmax (node f ks) key).kids, d'.fields = d.fields ∧ leftmost d' = leftmost d ∧
      ∀ n ∈ d.leafNums, n ∈ d'.leafNums := by
  obtain ⟨hcm, hck⟩ := find?_mem_key hc
  have hstep := rootAttachStep_lands tmin tmax f ks key c hc
  by_cases hedge : leftmost c - 1 < tmin ∨ rightNeighbour c (rightOf ks key) > tmax
  · rw [hstep.1 hedge]
    exact ⟨d, hd, rfl, rfl, fun _ h => h⟩
  · have hL := hstep.2 hedge
    have hperm : ks.Perm (c :: eraseFirst (fun k => leftmost k == key) ks) :=
      Lemmas.RootAttach.perm_eraseFirst _ ks c hc
    have hd' : d ∈ eraseFirst (fun k => leftmost k == key) ks := by
      rcases List.mem_cons.1 (hperm.mem_iff.1 hd) with rfl | h
      · exact absurd hck hdk
      · exact h
    rcases hL.inv with ⟨_, hres⟩ | ⟨pre, k, k', post, hks, _, hkb, hlk, hres⟩
    · rw [hres]
      exact ⟨d, by simp [kids, hd'], rfl, rfl, fun _ h => h⟩
    · rw [hres]
      rw [hks] at hd'
      simp only [kids]
      rcases List.mem_append.1 hd' with h | h
      · exact ⟨d, by simp [h], rfl, rfl, fun _ h => h⟩
      · rcases List.mem_cons.1 h with rfl | h
        · refine ⟨k', by simp, Lands.fields hlk, Lands.leftmost hlk ((both_iff _ _ _).1 hkb).1 ?_,
            fun n hn => (Lands.leafNums_perm hlk).mem_iff.2 (List.mem_append_left _ hn)⟩
          intro n hn
          have := Lemmas.WF.leftmost_le c n hn
          omega
        · exact ⟨d, by simp [h], rfl, rfl, fun _ h => h⟩

/-! ### part I: the fold -/

/-- the uid of a node (0 if it has none) -/
def uidOf (k : Tree) : Nat := k.fields.uid.getD 0

/-- what the fold maintains: `pm` reads `cur`; `cur` is a well-formed constituent with the root's uid; every
    snapshot child still to be processed is a root child of `cur`, under its uid and with its first token -/
structure Inv (tok : List (Nat × Nat)) (tmin tmax r : Nat) (pm : ParentMap) (cur : Tree) (cs : List Tree) : Prop where
  isNode : cur.isLeaf = false
  root : cur.fields.uid = some r
  reads : Reads pm cur
  tok : TokOf tok cur
  ne : cur.noEmpty = true
  nd : cur.leafNums.Nodup
  range : ∀ n, tmin ≤ n → n ≤ tmax → n ∈ cur.leafNums
  keys : (cs.map leftmost).Nodup
  kids : ∀ c ∈ cs, ∃ c' ∈ cur.kids, c'.fields.uid = some (uidOf c) ∧ leftmost c' = leftmost c

theorem TokOf.of_perm {tok : List (Nat × Nat)} {a b : Tree} (h : TokOf tok a) (hp : b.leaves.Perm a.leaves) :
    TokOf tok b := by
  intro e
  rw [h e]
  constructor
  · rintro ⟨l, hl, h1⟩; exact ⟨l, hp.mem_iff.2 hl, h1⟩
  · rintro ⟨l, hl, h1⟩; exact ⟨l, hp.mem_iff.1 hl, h1⟩

theorem Inv.step {tok : List (Nat × Nat)} {tmin tmax r : Nat} (hpos : 1 ≤ tmin) {pm : ParentMap} {cur : Tree}
    {c : Tree} {cs : List Tree} (I : Inv tok tmin tmax r pm cur (c :: cs)) :
    Inv tok tmin tmax r (refStep tok (some r) tmin tmax pm (uidOf c))
      (rootAttachStep tmin tmax cur (leftmost c)) cs := by
  cases cur with
  | leaf n f => have := I.isNode; simp [isLeaf] at this
  | node f ks =>
    have hr : f.uid = some r := I.root
    have hk := KidsOK.of_node I.ne I.nd
    obtain ⟨c', hc'm, hc'u, hc'l⟩ := I.kids c List.mem_cons_self
    have hfind : ks.find? (fun k => leftmost k == leftmost c) = some c' :=
      (find?_key_iff leftmost ks hk.leftmost_nodup (leftmost c) c').2 ⟨hc'm, hc'l⟩
    have hleaves := Lemmas.RootAttach.rootAttachStep_additive Lemmas.RootAttach.additive_leaves tmin tmax
      (node f ks) (leftmost c)
    have hnums : (rootAttachStep tmin tmax (node f ks) (leftmost c)).leafNums.Perm (node f ks).leafNums :=
      hleaves.map num
    have hkeys := List.nodup_cons.1 (by simpa using I.keys : (leftmost c :: cs.map leftmost).Nodup)
    refine ⟨?_, ?_, ?_, ?_, ?_, ?_, ?_, hkeys.2, ?_⟩
    · rw [Lemmas.RootAttach.rootAttachStep_isLeaf]; rfl
    · rw [Lemmas.RootAttach.rootAttachStep_fields]; exact hr
    · exact refStep_reads tok tmin tmax pm f ks I.reads I.tok I.ne I.nd hpos I.range r hr (leftmost c) c' hfind
        (uidOf c) hc'u
    · exact I.tok.of_perm hleaves
    · exact Lemmas.RootAttach.rootAttachStep_noEmpty tmin tmax _ _ I.ne
    · exact hnums.symm.nodup I.nd
    · intro n h1 h2; exact hnums.mem_iff.2 (I.range n h1 h2)
    · intro d hd
      obtain ⟨d', hd'm, hd'u, hd'l⟩ := I.kids d (List.mem_cons_of_mem _ hd)
      have hne : leftmost d' ≠ leftmost c := by
        rw [hd'l]
        intro h
        exact hkeys.1 (h ▸ List.mem_map_of_mem hd)
      obtain ⟨d'', hm, hf, hl, _⟩ := rootAttachStep_keeps tmin tmax f ks (leftmost c) c' hfind hpos d' hd'm hne
      exact ⟨d'', hm, by rw [hf]; exact hd'u, by rw [hl]; exact hd'l⟩

/-- **the whole fold**: the reference, run over the uids of the snapshot children, reads the model, run over
    their first tokens -/
theorem Inv.fold {tok : List (Nat × Nat)} {tmin tmax r : Nat} (hpos : 1 ≤ tmin) (rest : List Tree) :
    ∀ (cs : List Tree) {pm : ParentMap} {cur : Tree}, Inv tok tmin tmax r pm cur (cs ++ rest) →
    Inv tok tmin tmax r ((cs.map uidOf).foldl (refStep tok (some r) tmin tmax) pm)
      ((cs.map leftmost).foldl (rootAttachStep tmin tmax) cur) rest
  | [], _, _, I => I
  | c :: cs, _, _, I => by
    simp only [List.map_cons, List.foldl_cons]
    exact Inv.fold hpos rest cs (Inv.step hpos I)

/-! ### part J: the start of the fold, and the reference unfolded -/

/-- in a well-formed tree every number between the first and the last token is a token -/
theorem WF_range (t : Tree) (h : WF t = true) :
    1 ≤ t.leftmost ∧ ∀ n, t.leftmost ≤ n → n ≤ t.rightmost → n ∈ t.leafNums := by
  obtain ⟨_, _, h3, h4⟩ := (Lemmas.WF.WF_iff t).1 h
  have hmem : ∀ n, n ∈ t.leafNums ↔ 1 ≤ n ∧ n < 1 + t.leafNums.length := by
    intro n
    rw [← (sortBy_perm id t.leafNums).mem_iff, h3, List.mem_range'_1]
  have h1 := (hmem _).1 (Lemmas.WF.leftmost_mem t h4)
  have h2 := (hmem _).1 (Lemmas.WF.rightmost_mem t h4)
  refine ⟨h1.1, fun n hn1 hn2 => (hmem n).2 ⟨by omega, by omega⟩⟩

theorem tokTable_nums (t : Tree) (hu : UOK t) (x : Nat) : x ∈ (tokTable t).map (·.1) ↔ x ∈ t.leafNums := by
  rw [mem_leafNums_iff]
  simp only [tokTable, List.mem_map, List.mem_filterMap, Option.map_eq_some_iff]
  constructor
  · rintro ⟨e, ⟨l, hl, v, _, rfl⟩, rfl⟩
    exact ⟨l, hl, rfl⟩
  · rintro ⟨l, hl, rfl⟩
    obtain ⟨v, hv⟩ := hu.has l ((mem_leaves_iff t l).1 hl).1
    exact ⟨(l.num, v), ⟨l, hl, v, hv, rfl⟩, rfl⟩

theorem filter_flatMap_single {α β} (g : α → List β) (P : β → Bool) (h : α → β) : ∀ (l : List α),
    (∀ a ∈ l, (g a).filter P = [h a]) → (l.flatMap g).filter P = l.map h
  | [], _ => rfl
  | a :: l, hl => by
    rw [List.flatMap_cons, List.filter_append, hl a List.mem_cons_self,
      filter_flatMap_single g P h l (fun b hb => hl b (List.mem_cons_of_mem _ hb))]
    rfl

/-- the entries of the root's children in the parent map, in storage order -/
theorem rootKid_entries (f : Fields) (ks : List Tree) (hu : UOK (node f ks)) (r : Nat) (hr : f.uid = some r) :
    (parentMap none (node f ks)).filter (fun e => e.2.isSome && e.2 == some r) =
      ks.map fun k => (uidOf k, some r) := by
  rw [parentMap_eq]
  simp only [fields, tailMap, hr, headEntry, List.filter_append]
  have h0 : List.filter (fun e : Nat × Option Nat => e.2.isSome && e.2 == some r) [(r, none)] = [] := by simp
  rw [h0, List.nil_append, parentMapL_eq]
  have key : ∀ k ∈ ks, (parentMap (some r) k).filter (fun e => e.2.isSome && e.2 == some r) = [(uidOf k, some r)] := by
    intro k hk
    have hkc : k ∈ subtrees (node f ks) := kid_mem_subtrees (node f ks) k hk
    obtain ⟨v, hv⟩ := hu.has k hkc
    rw [parentMap_eq, hv, List.filter_append]
    have h1 : (headEntry (some v) (some r)).filter (fun e => e.2.isSome && e.2 == some r) = [(uidOf k, some r)] := by
      simp [headEntry, uidOf, hv]
    rw [h1]
    have h2 : (tailMap k).filter (fun e => e.2.isSome && e.2 == some r) = [] := by
      rw [List.filter_eq_nil_iff]
      intro e he hP
      have he2 : e.2 = some r := by
        simp only [Bool.and_eq_true, beq_iff_eq] at hP; exact hP.2
      have hmem : e ∈ parentMap none k := by
        rw [parentMap_eq]; exact List.mem_append_right _ he
      rcases (mem_parentMap e k none).1 hmem with ⟨_, h⟩ | ⟨s, hs, _, _, _, hsu⟩
      · rw [he2] at h; cases h
      · have hsr : s.fields.uid = some r := by rw [← hsu, he2]
        have hsc : s ∈ subtrees (node f ks) := subtrees_trans _ k s hkc hs
        have : s = node f ks := hu.inj s hsc _ (self_mem_subtrees _) r hsr hr
        subst this
        have h1 := height_le_of_mem_subtrees k _ hs
        have h2 := Lemmas.Nav.height_le_heightL ks k hk
        simp only [height] at h1; omega
    rw [h2, List.append_nil]
  exact filter_flatMap_single _ _ _ ks key

theorem rootAttachRef_unfold (t : Tree) : rootAttachRef t =
    (sortBy (fun k => minNat (tokensOf (parentMap none t) (tokTable t) k))
      (((parentMap none t).filter fun e => e.2.isSome && e.2 == t.fields.uid).map (·.1))).foldl
      (refStep (tokTable t) t.fields.uid (minNat ((tokTable t).map (·.1))) (maxNat ((tokTable t).map (·.1))))
      (parentMap none t) := rfl

/-- the reference, with its order and its bounds named by the tree -/
theorem rootAttachRef_eq_fold (t : Tree) (hwf : WF t = true) (hu : uidsOK t = true) (r : Nat)
    (hr : t.fields.uid = some r) :
    rootAttachRef t = ((children t).map uidOf).foldl
      (refStep (tokTable t) (some r) t.leftmost t.rightmost) (parentMap none t) := by
  have huok := UOK.of_uidsOK hu
  have R : Reads (parentMap none t) t := ⟨List.Perm.refl _, huok⟩
  have htok : TokOf (tokTable t) t := tokTable_of_perm t t (List.Perm.refl _)
  cases t with
  | leaf n f => simp [WF, isLeaf] at hwf
  | node f ks =>
    have hr' : f.uid = some r := hr
    have hmin : minNat ((tokTable (node f ks)).map (·.1)) = (node f ks).leftmost := by
      rw [leftmost_eq_minNat]; exact minNat_congr (tokTable_nums _ huok)
    have hmax : maxNat ((tokTable (node f ks)).map (·.1)) = (node f ks).rightmost := by
      rw [rightmost_eq_maxNat]; exact maxNat_congr (tokTable_nums _ huok)
    have horder : sortBy (fun k => minNat (tokensOf (parentMap none (node f ks)) (tokTable (node f ks)) k))
        (((parentMap none (node f ks)).filter fun e => e.2.isSome && e.2 == some r).map (·.1)) =
        (children (node f ks)).map uidOf := by
      rw [rootKid_entries f ks huok r hr', List.map_map]
      show sortBy _ (ks.map uidOf) = _
      rw [sortBy_map (fun k : Tree => minNat (tokensOf (parentMap none (node f ks)) (tokTable (node f ks)) (uidOf k)))
        (fun k => minNat (tokensOf (parentMap none (node f ks)) (tokTable (node f ks)) k)) uidOf (fun _ => rfl)]
      congr 1
      refine sortBy_congr _ leftmost ks ?_
      intro k hk
      have hkc : k ∈ subtrees (node f ks) := kid_mem_subtrees (node f ks) k hk
      obtain ⟨v, hv⟩ := huok.has k hkc
      have : uidOf k = v := by simp [uidOf, hv]
      rw [this]
      exact R.minTok _ htok k hkc v hv
    rw [rootAttachRef_unfold, hr, horder, hmin, hmax]

/-- the invariant of the fold holds at the start -/
theorem Inv.init (t : Tree) (hwf : WF t = true) (hu : uidsOK t = true) (r : Nat) (hr : t.fields.uid = some r) :
    Inv (tokTable t) t.leftmost t.rightmost r (parentMap none t) t (children t) := by
  have huok := UOK.of_uidsOK hu
  obtain ⟨_, hrange⟩ := WF_range t hwf
  have hnl : t.isLeaf = false := ((Lemmas.WF.WF_iff t).1 hwf).1
  have hne := Lemmas.WF.WF_noEmpty t hwf
  have hnd := Lemmas.WF.WF_nodup t hwf
  refine ⟨hnl, hr, ⟨List.Perm.refl _, huok⟩, tokTable_of_perm t t (List.Perm.refl _), hne, hnd, hrange, ?_, ?_⟩
  · cases t with
    | leaf n f => simp [isLeaf] at hnl
    | node f ks =>
      have hk := KidsOK.of_node hne hnd
      exact ((sortBy_perm leftmost ks).map leftmost).symm.nodup hk.leftmost_nodup
  · intro c hc
    have hck : c ∈ t.kids := (mem_sortBy leftmost t.kids c).1 hc
    obtain ⟨v, hv⟩ := huok.has c (kid_mem_subtrees t c hck)
    exact ⟨c, hck, by simp [uidOf, hv], rfl⟩

/-- **the reference computes the parent map of `root_attach`** -/
theorem rootAttachRef_reads (t : Tree) (hwf : WF t = true) (hu : uidsOK t = true) :
    Reads (rootAttachRef t) (rootAttach t) := by
  obtain ⟨r, hr⟩ := (UOK.of_uidsOK hu).has t (self_mem_subtrees t)
  rw [rootAttachRef_eq_fold t hwf hu r hr]
  have I := Inv.init t hwf hu r hr
  exact (Inv.fold (WF_range t hwf).1 [] (children t) (by rw [List.append_nil]; exact I)).reads

/-! ### part K: a root child that is not moved stays a root child to the end -/

theorem length_filter_lt {α} (P Q : α → Bool) : ∀ (l : List α), (∀ x ∈ l, P x = true → Q x = true) →
    ∀ x ∈ l, Q x = true → P x = false → (l.filter P).length < (l.filter Q).length
  | [], _, _, hx, _, _ => by simp at hx
  | y :: ys, hPQ, x, hx, hq, hp => by
    have hle : (ys.filter P).length ≤ (ys.filter Q).length := by
      clear hx
      induction ys with
      | nil => simp
      | cons z zs ih =>
        have h1 := ih (fun a ha => hPQ a (by
          rcases List.mem_cons.1 ha with rfl | ha
          · exact List.mem_cons_self
          · exact List.mem_cons_of_mem _ (List.mem_cons_of_mem _ ha)))
        have h2 := hPQ z (List.mem_cons_of_mem _ List.mem_cons_self)
        simp only [List.filter_cons]
        cases hP : P z <;> cases hQ : Q z <;> simp <;> first | omega | (simp [hP, hQ] at h2)
    rcases List.mem_cons.1 hx with rfl | hx'
    · simp only [List.filter_cons, hq, hp, if_true, Bool.false_eq_true, if_false, List.length_cons]
      omega
    · have ih := length_filter_lt P Q ys (fun a ha => hPQ a (List.mem_cons_of_mem _ ha)) x hx' hq hp
      have h2 := hPQ y List.mem_cons_self
      simp only [List.filter_cons]
      cases hP : P y <;> cases hQ : Q y <;> simp <;> first | omega | (simp [hP, hQ] at h2)

/-- the root child `c` of the start is still a root child of `cur` (same data, same first token, no token lost) -/
structure KidInv (t c cur : Tree) : Prop where
  isNode : cur.isLeaf = false
  ne : cur.noEmpty = true
  nd : cur.leafNums.Nodup
  kid : ∃ c' ∈ cur.kids, c'.fields = c.fields ∧ leftmost c' = leftmost c ∧ ∀ n ∈ c.leafNums, n ∈ c'.leafNums

theorem rootAttachStep_none (tmin tmax : Nat) (f : Fields) (ks : List Tree) (key : Nat)
    (h : ks.find? (fun k => leftmost k == key) = none) : rootAttachStep tmin tmax (node f ks) key = node f ks := by
  simp only [rootAttachStep, h]

/-- a step for another key, or for the key of `c` when `c` is at a sentence edge, keeps `c` a root child -/
theorem KidInv.step {t c cur : Tree} {tmin tmax : Nat} (hpos : 1 ≤ tmin) (J : KidInv t c cur) (key : Nat)
    (hcne : c.leafNums ≠ [])
    (hkey : key ≠ leftmost c ∨ leftmost c = tmin ∨ rightmost c = tmax) :
    KidInv t c (rootAttachStep tmin tmax cur key) := by
  cases cur with
  | leaf n f => have := J.isNode; simp [isLeaf] at this
  | node f ks =>
    have hk := KidsOK.of_node J.ne J.nd
    have hnums : (rootAttachStep tmin tmax (node f ks) key).leafNums.Perm (node f ks).leafNums :=
      (Lemmas.RootAttach.rootAttachStep_additive Lemmas.RootAttach.additive_leaves tmin tmax _ key).map num
    refine ⟨by rw [Lemmas.RootAttach.rootAttachStep_isLeaf]; rfl,
      Lemmas.RootAttach.rootAttachStep_noEmpty tmin tmax _ _ J.ne, hnums.symm.nodup J.nd, ?_⟩
    obtain ⟨c', hc'm, hc'f, hc'l, hc'n⟩ := J.kid
    cases hfind : ks.find? (fun k => leftmost k == key) with
    | none => rw [rootAttachStep_none tmin tmax f ks key hfind]; exact ⟨c', hc'm, hc'f, hc'l, hc'n⟩
    | some c0 =>
      by_cases hne : leftmost c' = key
      · -- it is the turn of `c'`
        have hc0 : c0 = c' := by
          have := (find?_key_iff leftmost ks hk.leftmost_nodup key c').2 ⟨hc'm, hne⟩
          rw [hfind] at this; exact Option.some.inj this
        subst hc0
        have hedge : leftmost c0 - 1 < tmin ∨ rightNeighbour c0 (rightOf ks key) > tmax := by
          rcases hkey with h | h | h
          · exact absurd (hne.symm.trans hc'l) h
          · left; omega
          · right
            have h1 := Lemmas.WF.le_rightmost c0 _ (hc'n _ (Lemmas.WF.rightmost_mem c hcne))
            have h2 := Lemmas.RootAttach.skipRight_ge (rightOf ks key) (rightmost c0)
            simp only [rightNeighbour]; omega
        rw [(rootAttachStep_lands tmin tmax f ks key c0 hfind).1 hedge]
        exact ⟨c0, hc'm, hc'f, hc'l, hc'n⟩
      · obtain ⟨d, hdm, hdf, hdl, hdn⟩ := rootAttachStep_keeps tmin tmax f ks key c0 hfind hpos c' hc'm hne
        exact ⟨d, hdm, hdf.trans hc'f, hdl.trans hc'l, fun n hn => hdn n (hc'n n hn)⟩

theorem KidInv.fold {t c : Tree} {tmin tmax : Nat} (hpos : 1 ≤ tmin) (hcne : c.leafNums ≠ []) :
    ∀ (keys : List Nat) (cur : Tree), KidInv t c cur →
    (∀ key ∈ keys, key ≠ leftmost c ∨ leftmost c = tmin ∨ rightmost c = tmax) →
    KidInv t c (keys.foldl (rootAttachStep tmin tmax) cur)
  | [], _, J, _ => J
  | key :: keys, cur, J, h => by
    rw [List.foldl_cons]
    exact KidInv.fold hpos hcne keys _ (J.step hpos key hcne (h key List.mem_cons_self))
      (fun k hk => h k (List.mem_cons_of_mem _ hk))

end TT.Lemmas.More12e
