/-
  Generic lemmas about the stable insertion sort `insertBy` / `sortBy` of `TT.Str`.
  Core only (no Mathlib).
-/
import TT.Str
namespace TT

/-! ### insertBy -/

theorem insertBy_perm {α} (key : α → Nat) (x : α) (l : List α) : (insertBy key x l).Perm (x :: l) := by
  induction l with
  | nil => exact List.Perm.refl _
  | cons y ys ih =>
    simp only [insertBy]
    split
    · exact List.Perm.refl _
    · exact (List.Perm.cons y ih).trans (List.Perm.swap x y ys)

theorem insertBy_length {α} (key : α → Nat) (x : α) (l : List α) :
    (insertBy key x l).length = l.length + 1 := by
  simpa using (insertBy_perm key x l).length_eq

theorem mem_insertBy {α} (key : α → Nat) (x : α) (l : List α) (y : α) :
    y ∈ insertBy key x l ↔ y = x ∨ y ∈ l := by
  rw [(insertBy_perm key x l).mem_iff]; simp

theorem insertBy_sorted {α} (key : α → Nat) (x : α) (l : List α)
    (h : l.Pairwise (fun a b => key a ≤ key b)) :
    (insertBy key x l).Pairwise (fun a b => key a ≤ key b) := by
  induction l with
  | nil => simp [insertBy]
  | cons y ys ih =>
    simp only [insertBy]
    rw [List.pairwise_cons] at h
    split
    · rename_i hxy
      refine List.pairwise_cons.2 ⟨?_, List.pairwise_cons.2 h⟩
      intro b hb
      rcases List.mem_cons.1 hb with rfl | hb
      · exact hxy
      · exact Nat.le_trans hxy (h.1 b hb)
    · rename_i hxy
      refine List.pairwise_cons.2 ⟨?_, ih h.2⟩
      intro b hb
      rcases (mem_insertBy key x ys b).1 hb with rfl | hb
      · omega
      · exact h.1 b hb

/-- inserting an element that is `≤` everything puts it in front -/
theorem insertBy_of_le {α} (key : α → Nat) (x : α) (l : List α)
    (h : ∀ y ∈ l, key x ≤ key y) : insertBy key x l = x :: l := by
  cases l with
  | nil => rfl
  | cons y ys => simp [insertBy, h y (List.mem_cons_self)]

/-- `insertBy` skips a prefix of strictly smaller keys -/
theorem insertBy_append_of_lt {α} (key : α → Nat) (x : α) (l r : List α)
    (h : ∀ y ∈ l, key y < key x) : insertBy key x (l ++ r) = l ++ insertBy key x r := by
  induction l with
  | nil => rfl
  | cons y ys ih =>
    have hy := h y List.mem_cons_self
    have : ¬ key x ≤ key y := by omega
    simp only [List.cons_append, insertBy, this, if_false]
    rw [ih (fun z hz => h z (List.mem_cons_of_mem _ hz))]

/-- `insertBy` commutes with a key-preserving map -/
theorem insertBy_map {α β} (key : α → Nat) (key' : β → Nat) (f : α → β)
    (hk : ∀ a, key' (f a) = key a) (x : α) (l : List α) :
    insertBy key' (f x) (l.map f) = (insertBy key x l).map f := by
  induction l with
  | nil => rfl
  | cons y ys ih =>
    simp only [List.map_cons, insertBy, hk]
    split
    · rfl
    · simp [ih]

/-! ### sortBy -/

theorem sortBy_perm {α} (key : α → Nat) (l : List α) : (sortBy key l).Perm l := by
  induction l with
  | nil => exact List.Perm.refl _
  | cons x xs ih => exact (insertBy_perm key x _).trans (List.Perm.cons x ih)

theorem sortBy_length {α} (key : α → Nat) (l : List α) : (sortBy key l).length = l.length :=
  (sortBy_perm key l).length_eq

theorem mem_sortBy {α} (key : α → Nat) (l : List α) (x : α) : x ∈ sortBy key l ↔ x ∈ l :=
  (sortBy_perm key l).mem_iff

theorem sortBy_sorted {α} (key : α → Nat) (l : List α) :
    (sortBy key l).Pairwise (fun a b => key a ≤ key b) := by
  induction l with
  | nil => exact List.Pairwise.nil
  | cons x xs ih => exact insertBy_sorted key x _ ih

/-- a list already sorted is left alone (stability) -/
theorem sortBy_of_sorted {α} (key : α → Nat) (l : List α)
    (h : l.Pairwise (fun a b => key a ≤ key b)) : sortBy key l = l := by
  induction l with
  | nil => rfl
  | cons x xs ih =>
    rw [List.pairwise_cons] at h
    simp only [sortBy, ih h.2]
    exact insertBy_of_le key x xs h.1

/-- `sortBy` commutes with a key-preserving map -/
theorem sortBy_map {α β} (key : α → Nat) (key' : β → Nat) (f : α → β)
    (hk : ∀ a, key' (f a) = key a) (l : List α) :
    sortBy key' (l.map f) = (sortBy key l).map f := by
  induction l with
  | nil => rfl
  | cons x xs ih => simp only [List.map_cons, sortBy, ih, insertBy_map key key' f hk]

/-- sorting the results keyed by the input's key = mapping over the sorted inputs
    (the structural-recursion trick used by preorder) -/
theorem sortBy_map_keyed {α β} (key : α → Nat) (g : α → β) (l : List α) :
    (sortBy (fun (p : Nat × β) => p.1) (l.map fun a => (key a, g a))).map (·.2) = (sortBy key l).map g := by
  rw [sortBy_map key (fun (p : Nat × β) => p.1) (fun a => (key a, g a)) (fun _ => rfl)]
  simp [List.map_map, Function.comp_def]

/-- `sortBy` only looks at the keys -/
theorem sortBy_congr {α} (key key' : α → Nat) (l : List α) (h : ∀ a ∈ l, key a = key' a) :
    sortBy key l = sortBy key' l := by
  have hi : ∀ (x : α) (ys : List α), key x = key' x → (∀ a ∈ ys, key a = key' a) →
      insertBy key x ys = insertBy key' x ys := by
    intro x ys hx hys
    induction ys with
    | nil => rfl
    | cons y ys ih =>
      simp only [insertBy, hx, hys y List.mem_cons_self]
      rw [ih (fun a ha => hys a (List.mem_cons_of_mem _ ha))]
  induction l with
  | nil => rfl
  | cons x xs ih =>
    have ih' := ih (fun a ha => h a (List.mem_cons_of_mem _ ha))
    simp only [sortBy]
    rw [← ih']
    exact hi x _ (h x List.mem_cons_self)
      (fun a ha => h a (List.mem_cons_of_mem _ ((mem_sortBy key xs a).1 ha)))

/-- a key function injective on a list whose key image has no duplicates -/
theorem eq_of_key_eq_of_nodup {α} (key : α → Nat) :
    ∀ (l : List α), (l.map key).Nodup → ∀ a ∈ l, ∀ b ∈ l, key a = key b → a = b
  | [], _, _, ha, _, _, _ => by simp at ha
  | x :: xs, hd, a, ha, b, hb, hab => by
    simp only [List.map_cons, List.nodup_cons, List.mem_map, not_exists, not_and] at hd
    rcases List.mem_cons.1 ha with rfl | ha' <;> rcases List.mem_cons.1 hb with rfl | hb'
    · rfl
    · exact absurd hab.symm (hd.1 b hb')
    · exact absurd hab (hd.1 a ha')
    · exact eq_of_key_eq_of_nodup key xs hd.2 a ha' b hb' hab

/-- two sorted permutations of each other with pairwise distinct keys are equal -/
theorem eq_of_sorted_of_perm {α} (key : α → Nat) (l l' : List α) (h : l.Perm l')
    (hd : (l.map key).Nodup)
    (hs : l.Pairwise (fun a b => key a ≤ key b)) (hs' : l'.Pairwise (fun a b => key a ≤ key b)) :
    l = l' := by
  refine List.Perm.eq_of_pairwise (le := fun a b => key a ≤ key b) ?_ hs hs' h
  intro a b ha hb h1 h2
  exact eq_of_key_eq_of_nodup key l hd a ha b (h.symm.subset hb) (Nat.le_antisymm h1 h2)

/-- with pairwise distinct keys the result does not depend on the input order -/
theorem sortBy_perm_eq {α} (key : α → Nat) (l l' : List α) (h : l.Perm l') (hd : (l.map key).Nodup) :
    sortBy key l = sortBy key l' := by
  have hp : (sortBy key l).Perm (sortBy key l') :=
    (sortBy_perm key l).trans (h.trans (sortBy_perm key l').symm)
  have hd' : ((sortBy key l).map key).Nodup := ((sortBy_perm key l).map key).symm.nodup hd
  exact eq_of_sorted_of_perm key _ _ hp hd' (sortBy_sorted key l) (sortBy_sorted key l')

/-- strictly increasing keys after sorting when the keys are distinct -/
theorem sortBy_strict {α} (key : α → Nat) (l : List α) (hd : (l.map key).Nodup) :
    (sortBy key l).Pairwise (fun a b => key a < key b) := by
  have hd' : ((sortBy key l).map key).Nodup := ((sortBy_perm key l).map key).symm.nodup hd
  have hs := sortBy_sorted key l
  rw [List.Nodup, List.pairwise_map] at hd'
  have := hs.and hd'
  exact this.imp (fun ⟨h1, h2⟩ => Nat.lt_of_le_of_ne h1 h2)

/-- the sorted list is the unique sorted permutation when keys are distinct -/
theorem sortBy_eq_of_perm_sorted {α} (key : α → Nat) (l l' : List α) (h : l.Perm l')
    (hd : (l.map key).Nodup) (hs : l'.Pairwise (fun a b => key a ≤ key b)) : sortBy key l = l' := by
  rw [sortBy_perm_eq key l l' h hd]; exact sortBy_of_sorted key l' hs

/-- `sortBy id` on numbers: the keys of a sort are the sort of the keys -/
theorem sortBy_map_key {α} (key : α → Nat) (l : List α) :
    (sortBy key l).map key = sortBy id (l.map key) :=
  (sortBy_map key id key (fun _ => rfl) l).symm

/-- stability: a relation holding along the input survives among equal keys, so the result is
    ordered lexicographically by `(key, input order)` -/
theorem insertBy_stable {α} (key : α → Nat) (R : α → α → Prop) (x : α) (l : List α)
    (hx : ∀ y ∈ l, R x y)
    (h : l.Pairwise (fun a b => key a < key b ∨ (key a = key b ∧ R a b))) :
    (insertBy key x l).Pairwise (fun a b => key a < key b ∨ (key a = key b ∧ R a b)) := by
  induction l with
  | nil => simp [insertBy]
  | cons y ys ih =>
    simp only [insertBy]
    have h' := List.pairwise_cons.1 h
    split
    · rename_i hxy
      refine List.pairwise_cons.2 ⟨?_, h⟩
      intro b hb
      have hkb : key y ≤ key b := by
        rcases List.mem_cons.1 hb with rfl | hb'
        · exact Nat.le_refl _
        · rcases h'.1 b hb' with h1 | h1 <;> omega
      have hR := hx b hb
      by_cases hlt : key x < key b
      · exact Or.inl hlt
      · exact Or.inr ⟨by omega, hR⟩
    · rename_i hxy
      refine List.pairwise_cons.2 ⟨?_, ih (fun z hz => hx z (List.mem_cons_of_mem _ hz)) h'.2⟩
      intro b hb
      rcases (mem_insertBy key x ys b).1 hb with rfl | hb
      · exact Or.inl (by omega)
      · exact h'.1 b hb

theorem sortBy_stable {α} (key : α → Nat) (R : α → α → Prop) (l : List α) (h : l.Pairwise R) :
    (sortBy key l).Pairwise (fun a b => key a < key b ∨ (key a = key b ∧ R a b)) := by
  induction l with
  | nil => exact List.Pairwise.nil
  | cons x xs ih =>
    have h' := List.pairwise_cons.1 h
    exact insertBy_stable key R x _ (fun y hy => h'.1 y ((mem_sortBy key xs y).1 hy)) (ih h'.2)

end TT
