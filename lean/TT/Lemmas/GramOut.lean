/-
  Helper lemmas for C09 (grammar output formats): decimal rendering, `splitWs`/`unwords`,
  `splitOnChar`, association-list updates.
-/
import TT.Spec.Grammar
namespace TT.Lemmas.GramOut
open TT TT.Spec

/-! ### decimal rendering -/

theorem natToStr_eq (n : Nat) : natToStr n = Nat.toDigits 10 n := by
  simp [natToStr]

theorem natToStr_ne_nil (n : Nat) : natToStr n ≠ [] := by
  rw [natToStr_eq]; exact Nat.toDigits_ne_nil

theorem natToStr_isDigit (n : Nat) : ∀ c ∈ natToStr n, c.isDigit = true := by
  intro c hc
  rw [natToStr_eq] at hc
  exact Nat.isDigit_of_mem_toDigits (by decide) (by decide) hc

theorem isDigit_not_space (c : Char) (h : c.isDigit = true) : pyIsSpace c = false := by
  rw [Char.isDigit_iff_toNat] at h
  simp only [pyIsSpace, Bool.or_eq_false_iff, decide_eq_false_iff_not]
  refine ⟨⟨⟨⟨⟨?_, ?_⟩, ?_⟩, ?_⟩, ?_⟩, ?_⟩ <;> (intro e; subst e; revert h; decide)

theorem natToStr_noSpace (n : Nat) : ∀ c ∈ natToStr n, pyIsSpace c = false :=
  fun c hc => isDigit_not_space c (natToStr_isDigit n c hc)

theorem pyIsDigit_natToStr (n : Nat) : pyIsDigit (natToStr n) = true := by
  have h1 := natToStr_ne_nil n
  have h2 := natToStr_isDigit n
  simp only [pyIsDigit, Bool.and_eq_true, Bool.not_eq_true', List.isEmpty_eq_false_iff,
    List.all_eq_true]
  exact ⟨h1, h2⟩

theorem foldl_digits_eq (l : List Char) (a : Nat) :
    l.foldl (fun acc c => acc * 10 + (c.toNat - '0'.toNat)) a = Nat.ofDigitChars 10 l a := by
  induction l generalizing a with
  | nil => simp
  | cons c cs ih => simp only [List.foldl_cons, Nat.ofDigitChars_cons, ih, Nat.mul_comm]

theorem strToNat_natToStr (n : Nat) : strToNat? (natToStr n) = some n := by
  unfold strToNat?
  rw [if_pos (pyIsDigit_natToStr n), foldl_digits_eq, natToStr_eq, Nat.ofDigitChars_ten_toDigits]

theorem natToStr_inj {m n : Nat} (h : natToStr m = natToStr n) : m = n := by
  have := strToNat_natToStr m
  rw [h, strToNat_natToStr] at this
  exact (Option.some.inj this).symm

/-! ### `splitWs` -/

/-- a whitespace-free word followed by end of input -/
theorem splitWsAux_word_end (a cur : Str) (ha : ∀ c ∈ a, pyIsSpace c = false) (hne : cur ++ a ≠ [] ) :
    splitWsAux a cur = [cur.reverse ++ a] := by
  induction a generalizing cur with
  | nil =>
    have : cur ≠ [] := by simpa using hne
    simp [splitWsAux, this]
  | cons c cs ih =>
    have hc : pyIsSpace c = false := ha c (by simp)
    rw [splitWsAux]
    simp only [hc, Bool.false_eq_true, if_false]
    rw [ih (c :: cur) (fun d hd => ha d (by simp [hd])) (by simp)]
    simp

/-- a whitespace-free word followed by a whitespace character -/
theorem splitWsAux_word_sep (a cur rest : Str) (s : Char) (hs : pyIsSpace s = true)
    (ha : ∀ c ∈ a, pyIsSpace c = false) (hne : cur ++ a ≠ []) :
    splitWsAux (a ++ s :: rest) cur = (cur.reverse ++ a) :: splitWsAux rest [] := by
  induction a generalizing cur with
  | nil =>
    have : cur ≠ [] := by simpa using hne
    simp [splitWsAux, this, hs]
  | cons c cs ih =>
    have hc : pyIsSpace c = false := ha c (by simp)
    rw [List.cons_append, splitWsAux]
    simp only [hc, Bool.false_eq_true, if_false]
    rw [ih (c :: cur) (fun d hd => ha d (by simp [hd])) (by simp)]
    simp

theorem splitWs_nil : splitWs [] = [] := by simp [splitWs, splitWsAux]

/-- leading whitespace is skipped -/
theorem splitWs_sep (s : Char) (hs : pyIsSpace s = true) (rest : Str) :
    splitWs (s :: rest) = splitWs rest := by
  simp [splitWs, splitWsAux, hs]

theorem splitWs_sp (rest : Str) : splitWs (sp ++ rest) = splitWs rest :=
  splitWs_sep ' ' (by decide) rest

theorem splitWs_word (a : Str) (ha : a ≠ [] ∧ ∀ c ∈ a, pyIsSpace c = false) : splitWs a = [a] := by
  have := splitWsAux_word_end a [] ha.2 (by simpa using ha.1)
  simpa [splitWs] using this

theorem splitWs_word_sep (a rest : Str) (s : Char) (hs : pyIsSpace s = true)
    (ha : a ≠ [] ∧ ∀ c ∈ a, pyIsSpace c = false) :
    splitWs (a ++ s :: rest) = a :: splitWs rest := by
  have := splitWsAux_word_sep a [] rest s hs ha.2 (by simpa using ha.1)
  simpa [splitWs] using this

theorem splitWs_word_sp (a rest : Str) (ha : a ≠ [] ∧ ∀ c ∈ a, pyIsSpace c = false) :
    splitWs (a ++ sp ++ rest) = a :: splitWs rest := by
  have := splitWs_word_sep a rest ' ' (by decide) ha
  simpa [sp] using this

theorem splitWs_unwords (l : List Str) (h : ∀ s ∈ l, s ≠ [] ∧ ∀ c ∈ s, pyIsSpace c = false) :
    splitWs (unwords l) = l := by
  induction l with
  | nil => simp [unwords, joinWith, splitWs_nil]
  | cons a r ih =>
    cases r with
    | nil => simpa [unwords, joinWith] using splitWs_word a (h a (by simp))
    | cons b r =>
      have := ih (fun s hs => h s (by simp [hs]))
      simp only [unwords, joinWith] at this ⊢
      rw [splitWs_word_sp a _ (h a (by simp)), this]

/-- `unwords` with a trailing separator tolerated: the form `a ++ " " ++ unwords r` -/
theorem splitWs_cons_unwords (a : Str) (r : List Str) (ha : a ≠ [] ∧ ∀ c ∈ a, pyIsSpace c = false)
    (h : ∀ s ∈ r, s ≠ [] ∧ ∀ c ∈ s, pyIsSpace c = false) :
    splitWs (a ++ sp ++ unwords r) = a :: r := by
  rw [splitWs_word_sp a _ ha, splitWs_unwords r h]

/-! ### association lists -/

section AL
variable {κ ν : Type} [DecidableEq κ]

@[simp] theorem get?_nil (k : κ) : AList.get? k ([] : AList κ ν) = none := rfl

theorem get?_cons (k : κ) (a : κ × ν) (l : AList κ ν) :
    AList.get? k (a :: l) = if a.1 = k then some a.2 else AList.get? k l := by
  unfold AList.get?
  by_cases h : a.1 = k <;> simp [h]

theorem get?_upsert (k k' : κ) (f : Option ν → ν) (l : AList κ ν) :
    AList.get? k' (AList.upsert k f l) =
      if k = k' then some (f (AList.get? k l)) else AList.get? k' l := by
  induction l with
  | nil =>
    by_cases h : k = k' <;> simp [AList.upsert, get?_cons, h]
  | cons a r ih =>
    obtain ⟨a, v⟩ := a
    simp only [AList.upsert]
    by_cases hak : a = k
    · subst hak
      by_cases h : a = k' <;> simp [get?_cons, h]
    · simp only [hak, if_false, get?_cons, ih]
      by_cases h : k = k'
      · subst h; simp [hak]
      · simp [h]

theorem get?_eq_none_of_not_mem (k : κ) (l : AList κ ν) (h : k ∉ l.map (·.1)) : AList.get? k l = none := by
  induction l with
  | nil => rfl
  | cons a r ih =>
    simp only [List.map_cons, List.mem_cons, not_or] at h
    rw [get?_cons, if_neg (fun e => h.1 e.symm), ih h.2]

/-- appending at a fresh key -/
theorem upsert_fresh (k : κ) (f : Option ν → ν) (l : AList κ ν) (h : k ∉ l.map (·.1)) :
    AList.upsert k f l = l ++ [(k, f none)] := by
  induction l with
  | nil => rfl
  | cons a r ih =>
    obtain ⟨a, v⟩ := a
    simp only [List.map_cons, List.mem_cons, not_or] at h
    have hne : ¬ a = k := fun e => h.1 e.symm
    simp only [AList.upsert, if_neg hne, ih h.2, List.cons_append]

/-- updating the last entry -/
theorem upsert_last (k : κ) (f : Option ν → ν) (l : AList κ ν) (v : ν) (h : k ∉ l.map (·.1)) :
    AList.upsert k f (l ++ [(k, v)]) = l ++ [(k, f (some v))] := by
  induction l with
  | nil => simp [AList.upsert]
  | cons a r ih =>
    obtain ⟨a, w⟩ := a
    simp only [List.map_cons, List.mem_cons, not_or] at h
    have hne : ¬ a = k := fun e => h.1 e.symm
    simp only [List.cons_append, AList.upsert, if_neg hne, ih h.2]

end AL

/-! ### counts after `Grammar.add` / `addLexRules` -/

theorem get?_getD_nil {κ ν : Type} [DecidableEq κ] (o : Option (AList κ ν)) (k : κ) :
    AList.get? k (o.getD []) = o.bind (AList.get? k) := by
  cases o <;> simp

theorem sum_eq_zero (l : List Nat) (h : ∀ x ∈ l, x = 0) : l.sum = 0 := by
  induction l with
  | nil => rfl
  | cons a r ih => simp [h a (by simp), ih (fun x hx => h x (by simp [hx]))]

theorem gramCount_add (g : Grammar) (f f' : Func) (l l' : Lin) (v v' : VertKey) (n : Nat) :
    gramCount (g.add f l v n) f' l' v' =
      gramCount g f' l' v' + (if f = f' ∧ l = l' ∧ v = v' then n else 0) := by
  unfold gramCount Grammar.add
  rw [get?_upsert]
  by_cases hf : f = f'
  · subst hf
    simp only [if_true, Option.bind_some, true_and, get?_upsert]
    by_cases hl : l = l'
    · subst hl
      simp only [if_true, Option.bind_some, true_and, get?_upsert, get?_getD_nil]
      by_cases hv : v = v'
      · subst hv
        simp only [if_true, Option.getD_some]
      · simp only [hv, if_false, Nat.add_zero]
    · simp only [hl, if_false, false_and, Nat.add_zero, get?_getD_nil]
  · simp [hf]

/-- total count the lexicon gives to the pair `(w, t)` (all entries, not only the first) -/
def lexTotal (lex : Lexicon) (f : Func) : Nat :=
  (lex.map fun e => ((e.2.filter fun tc => [tc.1, e.1] = f).map (·.2)).sum).sum

theorem gramCount_foldTags (word : Str) (tags : AList Str Nat) (acc : Grammar) (f : Func) (l : Lin) (v : VertKey) :
    gramCount (tags.foldl (fun acc2 (x : Str × Nat) => Grammar.add acc2 [x.1, word] [[(0, 0)]] .default x.2) acc) f l v =
      gramCount acc f l v + (if [[((0 : Int), 0)]] = l ∧ VertKey.default = v then
        ((tags.filter fun tc => [tc.1, word] = f).map (·.2)).sum else 0) := by
  induction tags generalizing acc with
  | nil => simp
  | cons tc r ih =>
    rw [List.foldl_cons, ih, gramCount_add]
    by_cases hlv : [[((0 : Int), 0)]] = l ∧ VertKey.default = v
    · by_cases hf : [tc.1, word] = f
      · simp [hlv, hf, Nat.add_assoc]
      · simp [hlv, hf]
    · have : ¬ ([tc.1, word] = f ∧ [[((0 : Int), 0)]] = l ∧ VertKey.default = v) := fun h => hlv h.2
      simp [hlv]

theorem gramCount_addLexRules (g : Grammar) (lex : Lexicon) (f : Func) (l : Lin) (v : VertKey) :
    gramCount (addLexRules g lex) f l v =
      gramCount g f l v + (if [[((0 : Int), 0)]] = l ∧ VertKey.default = v then lexTotal lex f else 0) := by
  unfold addLexRules lexTotal
  induction lex generalizing g with
  | nil => simp
  | cons e r ih =>
    obtain ⟨word, tags⟩ := e
    rw [List.foldl_cons, ih]
    have := gramCount_foldTags word tags g f l v
    simp only at this ⊢
    rw [this]
    by_cases hlv : [[((0 : Int), 0)]] = l ∧ VertKey.default = v
    · simp [hlv, Nat.add_assoc]
    · simp [hlv]

theorem sum_filter_tags (tags : AList Str Nat) (t : Str) (hnd : (tags.map (·.1)).Nodup) :
    ((tags.filter fun tc => tc.1 = t).map (·.2)).sum = (AList.get? t tags).getD 0 := by
  induction tags with
  | nil => rfl
  | cons a r ih =>
    simp only [List.map_cons, List.nodup_cons] at hnd
    rw [get?_cons, List.filter_cons]
    by_cases h : a.1 = t
    · have hz : r.filter (fun tc => tc.1 = t) = [] := by
        rw [List.filter_eq_nil_iff]
        intro x hx
        simp only [decide_eq_true_eq]
        intro hxt
        exact hnd.1 (by rw [h, ← hxt]; exact List.mem_map_of_mem hx)
      simp [h, hz]
    · simp [h, ih hnd.2]

theorem lexTotal_eq_lexCount (lex : Lexicon) (w t : Str)
    (hnd : (lex.map (·.1)).Nodup) (hnd2 : ∀ e ∈ lex, (e.2.map (·.1)).Nodup) :
    lexTotal lex [t, w] = lexCount lex w t := by
  unfold lexTotal lexCount
  induction lex with
  | nil => rfl
  | cons e r ih =>
    simp only [List.map_cons, List.nodup_cons] at hnd
    rw [get?_cons, List.map_cons, List.sum_cons]
    by_cases h : e.1 = w
    · have hz : (r.map fun e => ((e.2.filter fun tc => [tc.1, e.1] = [t, w]).map (·.2)).sum).sum = 0 := by
        apply sum_eq_zero
        intro x hx
        obtain ⟨e', he', rfl⟩ := List.mem_map.1 hx
        have : e'.1 ≠ w := fun hw => hnd.1 (by rw [h, ← hw]; exact List.mem_map_of_mem he')
        have hz : e'.2.filter (fun tc => [tc.1, e'.1] = [t, w]) = [] := by
          rw [List.filter_eq_nil_iff]; intro y _; simp [this]
        rw [hz]; rfl
      have := sum_filter_tags e.2 t (hnd2 e (by simp))
      simp only [h, if_true, Option.bind_some, hz, Nat.add_zero]
      rw [← this]
      simp
    · have hz : e.2.filter (fun tc => [tc.1, e.1] = [t, w]) = [] := by
        rw [List.filter_eq_nil_iff]; intro x _; simp [h]
      rw [hz, if_neg h, ih hnd.2 (fun e he => hnd2 e (by simp [he]))]
      simp

theorem lexTotal_not_pair (lex : Lexicon) (f : Func) (h : ∀ w t, f ≠ [t, w]) : lexTotal lex f = 0 := by
  unfold lexTotal
  apply sum_eq_zero
  intro x hx
  obtain ⟨e, _, rfl⟩ := List.mem_map.1 hx
  have : e.2.filter (fun tc => [tc.1, e.1] = f) = [] := by
    rw [List.filter_eq_nil_iff]; intro y _
    simp only [decide_eq_true_eq]
    exact fun e' => h _ _ e'.symm
  simp [this]

/-! ### `splitOnChar`, `joinWith` -/

theorem splitOnChar_not_mem (c : Char) (b : Str) (h : c ∉ b) : splitOnChar c b = [b] := by
  induction b with
  | nil => rfl
  | cons x xs ih =>
    simp only [List.mem_cons, not_or] at h
    have hx : ¬ x = c := fun e => h.1 e.symm
    simp [splitOnChar, hx, ih h.2]

theorem splitOnChar_one (c : Char) (a b : Str) (ha : c ∉ a) (hb : c ∉ b) :
    splitOnChar c (a ++ c :: b) = [a, b] := by
  induction a with
  | nil => simp [splitOnChar, splitOnChar_not_mem c b hb]
  | cons x xs ih =>
    simp only [List.mem_cons, not_or] at ha
    have hx : ¬ x = c := fun e => ha.1 e.symm
    simp [splitOnChar, hx, ih ha.2]

theorem joinWith_cons_ne (sep x : Str) (l : List Str) (h : l ≠ []) :
    joinWith sep (x :: l) = x ++ sep ++ joinWith sep l := by
  cases l with
  | nil => exact absurd rfl h
  | cons y r => rfl

theorem mem_joinWith (sep : Str) (l : List Str) (x : Char) (h : x ∈ joinWith sep l) :
    x ∈ sep ∨ ∃ s ∈ l, x ∈ s := by
  induction l with
  | nil => simp [joinWith] at h
  | cons a r ih =>
    cases r with
    | nil => exact Or.inr ⟨a, by simp, by simpa [joinWith] using h⟩
    | cons b r =>
      simp only [joinWith, List.mem_append] at h
      rcases h with (h | h) | h
      · exact Or.inr ⟨a, by simp, h⟩
      · exact Or.inl h
      · rcases ih h with h | ⟨s, hs, hx⟩
        · exact Or.inl h
        · exact Or.inr ⟨s, by simp [hs], hx⟩

theorem unwords_noChar (c : Char) (hc : c ≠ ' ') (l : List Str) (h : ∀ s ∈ l, c ∉ s) : c ∉ unwords l := by
  intro hm
  rcases mem_joinWith sp l c hm with h' | ⟨s, hs, hx⟩
  · simp [sp] at h'; exact hc h'
  · exact h s hs hx

/-! ### lexicon lines -/

/-- the fields of a lexicon line after the tab -/
def tagFields (tags : AList Str Nat) : List Str := tags.flatMap fun tc => [tc.1, natToStr tc.2]

theorem unwords_tagFields (tags : AList Str Nat) :
    unwords (tags.map fun tc => tc.1 ++ sp ++ natToStr tc.2) = unwords (tagFields tags) := by
  induction tags with
  | nil => rfl
  | cons a r ih =>
    cases r with
    | nil => simp [unwords, tagFields, joinWith]
    | cons b r =>
      simp only [unwords, tagFields, List.map_cons, List.flatMap_cons, List.cons_append,
        List.nil_append] at ih ⊢
      rw [joinWith_cons_ne _ _ _ (by simp), ih]
      simp [joinWith, List.append_assoc]

theorem pairs_tagFields (tags : AList Str Nat) :
    pairs (tagFields tags) = tags.map fun tc => (tc.1, natToStr tc.2) := by
  induction tags with
  | nil => rfl
  | cons a r ih =>
    simp only [tagFields, List.flatMap_cons, List.cons_append, List.nil_append, pairs, List.map_cons] at ih ⊢
    rw [ih]

theorem length_tagFields (tags : AList Str Nat) : (tagFields tags).length = 2 * tags.length := by
  induction tags with
  | nil => rfl
  | cons a r ih =>
    simp only [tagFields, List.flatMap_cons, List.cons_append, List.nil_append, List.length_cons] at ih ⊢
    omega

theorem tagFields_ok (tags : AList Str Nat)
    (h : ∀ tc ∈ tags, tc.1 ≠ [] ∧ ∀ c ∈ tc.1, pyIsSpace c = false) :
    ∀ s ∈ tagFields tags, s ≠ [] ∧ ∀ c ∈ s, pyIsSpace c = false := by
  intro s hs
  simp only [tagFields, List.mem_flatMap, List.mem_cons, List.not_mem_nil, or_false] at hs
  obtain ⟨tc, htc, rfl | rfl⟩ := hs
  · exact h tc htc
  · exact ⟨natToStr_ne_nil _, natToStr_noSpace _⟩

/-- decoding step of `decLex` for one line -/
def lexStep (lex : Lexicon) (line : Str) : Option Lexicon :=
  match splitOnChar '\t' line with
  | [word, rest] =>
    let ws := splitWs rest
    if ws.length % 2 != 0 then none else
    (pairs ws).foldlM (fun l (tag, c) => (strToNat? c).map fun n => l.add word tag n) lex
  | _ => none

theorem decLex_eq (lines : List Str) : decLex lines = lines.foldlM lexStep [] := rfl

theorem foldlM_tagPairs (word : Str) (tags : AList Str Nat) (lex : Lexicon) :
    (tags.map fun tc => (tc.1, natToStr tc.2)).foldlM
        (fun l (x : Str × Str) => (strToNat? x.2).map fun n => Lexicon.add l word x.1 n) lex =
      some (tags.foldl (fun l tc => Lexicon.add l word tc.1 tc.2) lex) := by
  induction tags generalizing lex with
  | nil => rfl
  | cons a r ih =>
    simp only [List.map_cons, List.foldlM_cons, strToNat_natToStr, Option.map_some,
      Option.bind_eq_bind, Option.bind_some, List.foldl_cons]
    exact ih _

theorem lexStep_line (lex : Lexicon) (word : Str) (tags : AList Str Nat)
    (hw : ∀ c ∈ word, pyIsSpace c = false)
    (ht : ∀ tc ∈ tags, tc.1 ≠ [] ∧ ∀ c ∈ tc.1, pyIsSpace c = false) :
    lexStep lex (word ++ ['\t'] ++ unwords (tags.map fun (tag, c) => tag ++ sp ++ natToStr c)) =
      some (tags.foldl (fun l tc => Lexicon.add l word tc.1 tc.2) lex) := by
  have hf := tagFields_ok tags ht
  have e1 : unwords (tags.map fun (tag, c) => tag ++ sp ++ natToStr c) = unwords (tagFields tags) :=
    unwords_tagFields tags
  have hw' : '\t' ∉ word := fun hm => by have := hw _ hm; revert this; decide
  have hr' : '\t' ∉ unwords (tagFields tags) := by
    apply unwords_noChar _ (by decide)
    intro s hs hm
    have := (hf s hs).2 _ hm; revert this; decide
  unfold lexStep
  rw [e1, List.append_assoc, List.singleton_append, splitOnChar_one _ _ _ hw' hr']
  simp only [splitWs_unwords _ hf, length_tagFields, pairs_tagFields]
  have : (2 * tags.length % 2 != 0) = false := by simp
  rw [this]
  exact foldlM_tagPairs word tags lex

/-- rebuilding one dictionary entry -/
theorem foldl_add_entry (word : Str) (pre : Lexicon) (done tags : AList Str Nat)
    (hw : word ∉ pre.map (·.1)) (hnd : ((done ++ tags).map (·.1)).Nodup) :
    tags.foldl (fun l tc => Lexicon.add l word tc.1 tc.2) (pre ++ [(word, done)]) =
      pre ++ [(word, done ++ tags)] := by
  induction tags generalizing done with
  | nil => simp
  | cons a r ih =>
    have hnd' : (((done ++ [a]) ++ r).map (·.1)).Nodup := by simpa using hnd
    have ha : a.1 ∉ done.map (·.1) := by
      simp only [List.map_append, List.map_cons] at hnd
      have := (List.nodup_append.1 hnd).2.2
      intro hm
      exact this _ hm _ (by simp) rfl
    rw [List.foldl_cons]
    have : Lexicon.add (pre ++ [(word, done)]) word a.1 a.2 = pre ++ [(word, done ++ [a])] := by
      unfold Lexicon.add
      rw [upsert_last _ _ _ _ hw]
      simp only [Option.getD_some]
      rw [upsert_fresh _ _ _ ha]
      simp
    rw [this, ih (done ++ [a]) hnd']
    simp

theorem foldl_add_entry_fresh (word : Str) (pre : Lexicon) (tags : AList Str Nat)
    (hw : word ∉ pre.map (·.1)) (hne : tags ≠ []) (hnd : (tags.map (·.1)).Nodup) :
    tags.foldl (fun l tc => Lexicon.add l word tc.1 tc.2) pre = pre ++ [(word, tags)] := by
  cases tags with
  | nil => exact absurd rfl hne
  | cons a r =>
    rw [List.foldl_cons]
    have : Lexicon.add pre word a.1 a.2 = pre ++ [(word, [a])] := by
      unfold Lexicon.add
      rw [upsert_fresh _ _ _ hw]
      simp [AList.upsert]
    rw [this, foldl_add_entry word pre [a] r hw (by simpa using hnd)]
    simp

theorem foldl_add_lex (pre lex : Lexicon)
    (hnd : ((pre ++ lex).map (·.1)).Nodup)
    (hne : ∀ e ∈ lex, e.2 ≠ []) (hnd2 : ∀ e ∈ lex, (e.2.map (·.1)).Nodup) :
    lex.foldl (fun acc e => e.2.foldl (fun l tc => Lexicon.add l e.1 tc.1 tc.2) acc) pre = pre ++ lex := by
  induction lex generalizing pre with
  | nil => simp
  | cons e r ih =>
    have hw : e.1 ∉ pre.map (·.1) := by
      simp only [List.map_append, List.map_cons] at hnd
      have := (List.nodup_append.1 hnd).2.2
      intro hm
      exact this _ hm _ (by simp) rfl
    rw [List.foldl_cons, foldl_add_entry_fresh e.1 pre e.2 hw (hne e (by simp)) (hnd2 e (by simp))]
    rw [ih (pre ++ [(e.1, e.2)]) (by simpa using hnd) (fun x hx => hne x (by simp [hx]))
      (fun x hx => hnd2 x (by simp [hx]))]
    simp

theorem foldlM_lexLines (pre lex : Lexicon)
    (h : ∀ e ∈ lex, (∀ c ∈ e.1, pyIsSpace c = false) ∧
         ∀ tc ∈ e.2, tc.1 ≠ [] ∧ ∀ c ∈ tc.1, pyIsSpace c = false) :
    (lexLines lex).foldlM lexStep pre =
      some (lex.foldl (fun acc e => e.2.foldl (fun l tc => Lexicon.add l e.1 tc.1 tc.2) acc) pre) := by
  induction lex generalizing pre with
  | nil => rfl
  | cons e r ih =>
    obtain ⟨word, tags⟩ := e
    have h0 := h (word, tags) (by simp)
    have := lexStep_line pre word tags h0.1 h0.2
    simp only [lexLines, List.map_cons, List.foldlM_cons, List.foldl_cons] at this ⊢
    rw [this]
    exact ih _ (fun x hx => h x (by simp [hx]))

/-! ### LoPar files -/

theorem writeLopar_gram (g : Grammar) (lex : Lexicon) (files : LoparFiles) (h : writeLopar g lex = .ok files) :
    files.gram = g.rules.map fun (f, _, c) => natToStr c ++ sp ++ (f.head?.getD []) ++ sp ++ unwords (f.drop 1) := by
  unfold writeLopar at h
  split at h
  · cases h
  · simp only at h
    cases h
    rfl

theorem writeLopar_lex (g : Grammar) (lex : Lexicon) (files : LoparFiles) (h : writeLopar g lex = .ok files) :
    files.lex = lexLines lex := by
  unfold writeLopar at h
  split at h
  · cases h
  · simp only at h
    cases h
    rfl

theorem mapM_option_map {α β γ : Type} (l : List α) (w : α → β) (d : β → Option γ) (r : α → γ)
    (h : ∀ a ∈ l, d (w a) = some (r a)) : (l.map w).mapM d = some (l.map r) := by
  induction l with
  | nil => rfl
  | cons a t ih =>
    simp only [List.map_cons, List.mapM_cons, h a (by simp), ih (fun x hx => h x (by simp [hx]))]
    rfl

theorem mem_rules_func (g : Grammar) (r : Func × Lin × Nat) (h : r ∈ g.rules) : ∃ e ∈ g, e.1 = r.1 := by
  simp only [Grammar.rules, List.mem_flatMap, List.mem_map] at h
  obtain ⟨e, he, x, _, rfl⟩ := h
  exact ⟨e, he, rfl⟩

end TT.Lemmas.GramOut
