/-
  Helper lemmas for C09 (grammar output formats): decimal rendering, `splitWs`/`unwords`,
  `splitOnChar`, association-list updates.
-/
import TT.Spec.Grammar
namespace TT.Lemmas.GramOut
open TT TT.Spec

/-! ### decimal rendering -/

theorem natToStr_eq (n : Nat) : natToStr n = Nat.toDigits 10 n := by
  simp [natToStr]

theorem natToStr_ne_nil (n : Nat) : natToStr n ≠ [] := by
  rw [natToStr_eq]; exact Nat.toDigits_ne_nil

theorem natToStr_isDigit (n : Nat) : ∀ c ∈ natToStr n, c.isDigit = true := by
  intro c hc
  rw [natToStr_eq] at hc
  exact Nat.isDigit_of_mem_toDigits (by decide) (by decide) hc

theorem isDigit_not_space (c : Char) (h : c.isDigit = true) : pyIsSpace c = false := by
  rw [Char.isDigit_iff_toNat] at h
  simp only [pyIsSpace, Bool.or_eq_false_iff, decide_eq_false_iff_not]
  refine ⟨⟨⟨⟨⟨?_, ?_⟩, ?_⟩, ?_⟩, ?_⟩, ?_⟩ <;> (intro e; subst e; revert h; decide)

theorem natToStr_noSpace (n : Nat) : ∀ c ∈ natToStr n, pyIsSpace c = false :=
  fun c hc => isDigit_not_space c (natToStr_isDigit n c hc)

theorem pyIsDigit_natToStr (n : Nat) : pyIsDigit (natToStr n) = true := by
  have h1 := natToStr_ne_nil n
  have h2 := natToStr_isDigit n
  simp only [pyIsDigit, Bool.and_eq_true, Bool.not_eq_true', List.isEmpty_eq_false_iff,
    List.all_eq_true]
  exact ⟨h1, h2⟩

theorem foldl_digits_eq (l : List Char) (a : Nat) :
    l.foldl (fun acc c => acc * 10 + (c.toNat - '0'.toNat)) a = Nat.ofDigitChars 10 l a := by
  induction l generalizing a with
  | nil => simp
  | cons c cs ih => simp only [List.foldl_cons, Nat.ofDigitChars_cons, ih, Nat.mul_comm]

theorem strToNat_natToStr (n : Nat) : strToNat? (natToStr n) = some n := by
  unfold strToNat?
  rw [if_pos (pyIsDigit_natToStr n), foldl_digits_eq, natToStr_eq, Nat.ofDigitChars_ten_toDigits]

theorem natToStr_inj {m n : Nat} (h : natToStr m = natToStr n) : m = n := by
  have := strToNat_natToStr m
  rw [h, strToNat_natToStr] at this
  exact (Option.some.inj this).symm

/-! ### `splitWs` -/

/-- a whitespace-free word followed by end of input -/
theorem splitWsAux_word_end (a cur : Str) (ha : ∀ c ∈ a, pyIsSpace c = false) (hne : cur ++ a ≠ [] ) :
    splitWsAux a cur = [cur.reverse ++ a] := by
  induction a generalizing cur with
  | nil =>
    have : cur ≠ [] := by simpa using hne
    simp [splitWsAux, this]
  | cons c cs ih =>
    have hc : pyIsSpace c = false := ha c (by simp)
    rw [splitWsAux]
    simp only [hc, Bool.false_eq_true, if_false]
    rw [ih (c :: cur) (fun d hd => ha d (by simp [hd])) (by simp)]
    simp

/-- a whitespace-free word followed by a whitespace character -/
theorem splitWsAux_word_sep (a cur rest : Str) (s : Char) (hs : pyIsSpace s = true)
    (ha : ∀ c ∈ a, pyIsSpace c = false) (hne : cur ++ a ≠ []) :
    splitWsAux (a ++ s :: rest) cur = (cur.reverse ++ a) :: splitWsAux rest [] := by
  induction a generalizing cur with
  | nil =>
    have : cur ≠ [] := by simpa using hne
    simp [splitWsAux, this, hs]
  | cons c cs ih =>
    have hc : pyIsSpace c = false := ha c (by simp)
    rw [List.cons_append, splitWsAux]
    simp only [hc, Bool.false_eq_true, if_false]
    rw [ih (c :: cur) (fun d hd => ha d (by simp [hd])) (by simp)]
    simp

theorem splitWs_nil : splitWs [] = [] := by simp [splitWs, splitWsAux]

/-- leading whitespace is skipped -/
theorem splitWs_sep (s : Char) (hs : pyIsSpace s = true) (rest : Str) :
    splitWs (s :: rest) = splitWs rest := by
  simp [splitWs, splitWsAux, hs]

theorem splitWs_sp (rest : Str) : splitWs (sp ++ rest) = splitWs rest :=
  splitWs_sep ' ' (by decide) rest

theorem splitWs_word (a : Str) (ha : a ≠ [] ∧ ∀ c ∈ a, pyIsSpace c = false) : splitWs a = [a] := by
  have := splitWsAux_word_end a [] ha.2 (by simpa using ha.1)
  simpa [splitWs] using this

theorem splitWs_word_sep (a rest : Str) (s : Char) (hs : pyIsSpace s = true)
    (ha : a ≠ [] ∧ ∀ c ∈ a, pyIsSpace c = false) :
    splitWs (a ++ s :: rest) = a :: splitWs rest := by
  have := splitWsAux_word_sep a [] rest s hs ha.2 (by simpa using ha.1)
  simpa [splitWs] using this

theorem splitWs_word_sp (a rest : Str) (ha : a ≠ [] ∧ ∀ c ∈ a, pyIsSpace c = false) :
    splitWs (a ++ sp ++ rest) = a :: splitWs rest := by
  have := splitWs_word_sep a rest ' ' (by decide) ha
  simpa [sp] using this

theorem splitWs_unwords (l : List Str) (h : ∀ s ∈ l, s ≠ [] ∧ ∀ c ∈ s, pyIsSpace c = false) :
    splitWs (unwords l) = l := by
  induction l with
  | nil => simp [unwords, joinWith, splitWs_nil]
  | cons a r ih =>
    cases r with
    | nil => simpa [unwords, joinWith] using splitWs_word a (h a (by simp))
    | cons b r =>
      have := ih (fun s hs => h s (by simp [hs]))
      simp only [unwords, joinWith] at this ⊢
      rw [splitWs_word_sp a _ (h a (by simp)), this]

/-- `unwords` with a trailing separator tolerated: the form `a ++ " " ++ unwords r` -/
theorem splitWs_cons_unwords (a : Str) (r : List Str) (ha : a ≠ [] ∧ ∀ c ∈ a, pyIsSpace c = false)
    (h : ∀ s ∈ r, s ≠ [] ∧ ∀ c ∈ s, pyIsSpace c = false) :
    splitWs (a ++ sp ++ unwords r) = a :: r := by
  rw [splitWs_word_sp a _ ha, splitWs_unwords r h]

/-! ### association lists -/

section AL
variable {κ ν : Type} [DecidableEq κ]

@[simp] theorem get?_nil (k : κ) : AList.get? k ([] : AList κ ν) = none := rfl

theorem get?_cons (k : κ) (a : κ × ν) (l : AList κ ν) :
    AList.get? k (a :: l) = if a.1 = k then some a.2 else AList.get? k l := by
  unfold AList.get?
  by_cases h : a.1 = k <;> simp [h]

theorem get?_upsert (k k' : κ) (f : Option ν → ν) (l : AList κ ν) :
    AList.get? k' (AList.upsert k f l) =
      if k = k' then some (f (AList.get? k l)) else AList.get? k' l := by
  induction l with
  | nil =>
    by_cases h : k = k' <;> simp [AList.upsert, get?_cons, h]
  | cons a r ih =>
    obtain ⟨a, v⟩ := a
    simp only [AList.upsert]
    by_cases hak : a = k
    · subst hak
      by_cases h : a = k' <;> simp [get?_cons, h]
    · simp only [hak, if_false, get?_cons, ih]
      by_cases h : k = k'
      · subst h; simp [hak]
      · simp [h]

theorem get?_eq_none_of_not_mem (k : κ) (l : AList κ ν) (h : k ∉ l.map (·.1)) : AList.get? k l = none := by
  induction l with
  | nil => rfl
  | cons a r ih =>
    simp only [List.map_cons, List.mem_cons, not_or] at h
    rw [get?_cons, if_neg (fun e => h.1 e.symm), ih h.2]

/-- appending at a fresh key -/
theorem upsert_fresh (k : κ) (f : Option ν → ν) (l : AList κ ν) (h : k ∉ l.map (·.1)) :
    AList.upsert k f l = l ++ [(k, f none)] := by
  induction l with
  | nil => rfl
  | cons a r ih =>
    obtain ⟨a, v⟩ := a
    simp only [List.map_cons, List.mem_cons, not_or] at h
    have hne : ¬ a = k := fun e => h.1 e.symm
    simp only [AList.upsert, if_neg hne, ih h.2, List.cons_append]

/-- updating the last entry -/
theorem upsert_last (k : κ) (f : Option ν → ν) (l : AList κ ν) (v : ν) (h : k ∉ l.map (·.1)) :
    AList.upsert k f (l ++ [(k, v)]) = l ++ [(k, f (some v))] := by
  induction l with
  | nil => simp [AList.upsert]
  | cons a r ih =>
    obtain ⟨a, w⟩ := a
    simp only [List.map_cons, List.mem_cons, not_or] at h
    have hne : ¬ a = k := fun e => h.1 e.symm
    simp only [List.cons_append, AList.upsert, if_neg hne, ih h.2]

end AL

/-! ### counts after `Grammar.add` / `addLexRules` -/

theorem get?_getD_nil {κ ν : Type} [DecidableEq κ] (o : Option (AList κ ν)) (k : κ) :
    AList.get? k (o.getD []) = o.bind (AList.get? k) := by
  cases o <;> simp

theorem sum_eq_zero (l : List Nat) (h : ∀ x ∈ l, x = 0) : l.sum = 0 := by
  induction l with
  | nil => rfl
  | cons a r ih => simp [h a (by simp), ih (fun x hx => h x (by simp [hx]))]

theorem gramCount_add (g : Grammar) (f f' : Func) (l l' : Lin) (v v' : VertKey) (n : Nat) :
    gramCount (g.add f l v n) f' l' v' =
      gramCount g f' l' v' + (if f = f' ∧ l = l' ∧ v = v' then n else 0) := by
  unfold gramCount Grammar.add
  rw [get?_upsert]
  by_cases hf : f = f'
  · subst hf
    simp only [if_true, Option.bind_some, true_and, get?_upsert]
    by_cases hl : l = l'
    · subst hl
      simp only [if_true, Option.bind_some, true_and, get?_upsert, get?_getD_nil]
      by_cases hv : v = v'
      · subst hv
        simp only [if_true, Option.getD_some]
      · simp only [hv, if_false, Nat.add_zero]
    · simp only [hl, if_false, false_and, Nat.add_zero, get?_getD_nil]
  · simp [hf]

/-- total count the lexicon gives to the pair `(w, t)` (all entries, not only the first) -/
def lexTotal (lex : Lexicon) (f : Func) : Nat :=
  (lex.map fun e => ((e.2.filter fun tc => [tc.1, e.1] = f).map (·.2)).sum).sum

theorem gramCount_foldTags (word : Str) (tags : AList Str Nat) (acc : Grammar) (f : Func) (l : Lin) (v : VertKey) :
    gramCount (tags.foldl (fun acc2 (x : Str × Nat) => Grammar.add acc2 [x.1, word] [[(0, 0)]] .default x.2) acc) f l v =
      gramCount acc f l v + (if [[((0 : Int), 0)]] = l ∧ VertKey.default = v then
        ((tags.filter fun tc => [tc.1, word] = f).map (·.2)).sum else 0) := by
  induction tags generalizing acc with
  | nil => simp
  | cons tc r ih =>
    rw [List.foldl_cons, ih, gramCount_add]
    by_cases hlv : [[((0 : Int), 0)]] = l ∧ VertKey.default = v
    · by_cases hf : [tc.1, word] = f
      · simp [hlv, hf, Nat.add_assoc]
      · simp [hlv, hf]
    · have : ¬ ([tc.1, word] = f ∧ [[((0 : Int), 0)]] = l ∧ VertKey.default = v) := fun h => hlv h.2
      simp [hlv]

theorem gramCount_addLexRules (g : Grammar) (lex : Lexicon) (f : Func) (l : Lin) (v : VertKey) :
    gramCount (addLexRules g lex) f l v =
      gramCount g f l v + (if [[((0 : Int), 0)]] = l ∧ VertKey.default = v then lexTotal lex f else 0) := by
  unfold addLexRules lexTotal
  induction lex generalizing g with
  | nil => simp
  | cons e r ih =>
    obtain ⟨word, tags⟩ := e
    rw [List.foldl_cons, ih]
    have := gramCount_foldTags word tags g f l v
    simp only at this ⊢
    rw [this]
    by_cases hlv : [[((0 : Int), 0)]] = l ∧ VertKey.default = v
    · simp [hlv, Nat.add_assoc]
    · simp [hlv]

theorem sum_filter_tags (tags : AList Str Nat) (t : Str) (hnd : (tags.map (·.1)).Nodup) :
    ((tags.filter fun tc => tc.1 = t).map (·.2)).sum = (AList.get? t tags).getD 0 := by
  induction tags with
  | nil => rfl
  | cons a r ih =>
    simp only [List.map_cons, List.nodup_cons] at hnd
    rw [get?_cons, List.filter_cons]
    by_cases h : a.1 = t
    · have hz : r.filter (fun tc => tc.1 = t) = [] := by
        rw [List.filter_eq_nil_iff]
        intro x hx
        simp only [decide_eq_true_eq]
        intro hxt
        exact hnd.1 (by rw [h, ← hxt]; exact List.mem_map_of_mem hx)
      simp [h, hz]
    · simp [h, ih hnd.2]

theorem lexTotal_eq_lexCount (lex : Lexicon) (w t : Str)
    (hnd : (lex.map (·.1)).Nodup) (hnd2 : ∀ e ∈ lex, (e.2.map (·.1)).Nodup) :
    lexTotal lex [t, w] = lexCount lex w t := by
  unfold lexTotal lexCount
  induction lex with
  | nil => rfl
  | cons e r ih =>
    simp only [List.map_cons, List.nodup_cons] at hnd
    rw [get?_cons, List.map_cons, List.sum_cons]
    by_cases h : e.1 = w
    · have hz : (r.map fun e => ((e.2.filter fun tc => [tc.1, e.1] = [t, w]).map (·.2)).sum).sum = 0 := by
        apply sum_eq_zero
        intro x hx
        obtain ⟨e', he', rfl⟩ := List.mem_map.1 hx
        have : e'.1 ≠ w := fun hw => hnd.1 (by rw [h, ← hw]; exact List.mem_map_of_mem he')
        have hz : e'.2.filter (fun tc => [tc.1, e'.1] = [t, w]) = [] := by
          rw [List.filter_eq_nil_iff]; intro y _; simp [this]
        rw [hz]; rfl
      have := sum_filter_tags e.2 t (hnd2 e (by simp))
      simp only [h, if_true, Option.bind_some, hz, Nat.add_zero]
      rw [← this]
      simp
    · have hz : e.2.filter (fun tc => [tc.1, e.1] = [t, w]) = [] := by
        rw [List.filter_eq_nil_iff]; intro x _; simp [h]
      rw [hz, if_neg h, ih hnd.2 (fun e he => hnd2 e (by simp [he]))]
      simp

theorem lexTotal_not_pair (lex : Lexicon) (f : Func) (h : ∀ w t, f ≠ [t, w]) : lexTotal lex f = 0 := by
  unfold lexTotal
  apply sum_eq_zero
  intro x hx
  obtain ⟨e, _, rfl⟩ := List.mem_map.1 hx
  have : e.2.filter (fun tc => [tc.1, e.1] = f) = [] := by
    rw [List.filter_eq_nil_iff]; intro y _
    simp only [decide_eq_true_eq]
    exact fun e' => h _ _ e'.symm
  simp [this]

/-! ### `splitOnChar`, `joinWith` -/

theorem splitOnChar_not_mem (c : Char) (b : Str) (h : c ∉ b) : splitOnChar c b = [b] := by
  induction b with
  | nil => rfl
  | cons x xs ih =>
    simp only [List.mem_cons, not_or] at h
    have hx : ¬ x = c := fun e => h.1 e.symm
    simp [splitOnChar, hx, ih h.2]

theorem splitOnChar_one (c : Char) (a b : Str) (ha : c ∉ a) (hb : c ∉ b) :
    splitOnChar c (a ++ c :: b) = [a, b] := by
  induction a with
  | nil => simp [splitOnChar, splitOnChar_not_mem c b hb]
  | cons x xs ih =>
    simp only [List.mem_cons, not_or] at ha
    have hx : ¬ x = c := fun e => ha.1 e.symm
    simp [splitOnChar, hx, ih ha.2]

theorem joinWith_cons_ne (sep x : Str) (l : List Str) (h : l ≠ []) :
    joinWith sep (x :: l) = x ++ sep ++ joinWith sep l := by
  cases l with
  | nil => exact absurd rfl h
  | cons y r => rfl

theorem mem_joinWith (sep : Str) (l : List Str) (x : Char) (h : x ∈ joinWith sep l) :
    x ∈ sep ∨ ∃ s ∈ l, x ∈ s := by
  induction l with
  | nil => simp [joinWith] at h
  | cons a r ih =>
    cases r with
    | nil => exact Or.inr ⟨a, by simp, by simpa [joinWith] using h⟩
    | cons b r =>
      simp only [joinWith, List.mem_append] at h
      rcases h with (h | h) | h
      · exact Or.inr ⟨a, by simp, h⟩
      · exact Or.inl h
      · rcases ih h with h | ⟨s, hs, hx⟩
        · exact Or.inl h
        · exact Or.inr ⟨s, by simp [hs], hx⟩

theorem unwords_noChar (c : Char) (hc : c ≠ ' ') (l : List Str) (h : ∀ s ∈ l, c ∉ s) : c ∉ unwords l := by
  intro hm
  rcases mem_joinWith sp l c hm with h' | ⟨s, hs, hx⟩
  · simp [sp] at h'; exact hc h'
  · exact h s hs hx

/-! ### lexicon lines -/

/-- the fields of a lexicon line after the tab -/
def tagFields (tags : AList Str Nat) : List Str := tags.flatMap fun tc => [tc.1, natToStr tc.2]

theorem unwords_tagFields (tags : AList Str Nat) :
    unwords (tags.map fun tc => tc.1 ++ sp ++ natToStr tc.2) = unwords (tagFields tags) := by
  induction tags with
  | nil => rfl
  | cons a r ih =>
    cases r with
    | nil => simp [unwords, tagFields, joinWith]
    | cons b r =>
      simp only [unwords, tagFields, List.map_cons, List.flatMap_cons, List.cons_append,
        List.nil_append] at ih ⊢
      rw [joinWith_cons_ne _ _ _ (by simp), ih]
      simp [joinWith, List.append_assoc]

theorem pairs_tagFields (tags : AList Str Nat) :
    pairs (tagFields tags) = tags.map fun tc => (tc.1, natToStr tc.2) := by
  induction tags with
  | nil => rfl
  | cons a r ih =>
    simp only [tagFields, List.flatMap_cons, List.cons_append, List.nil_append, pairs, List.map_cons] at ih ⊢
    rw [ih]

theorem length_tagFields (tags : AList Str Nat) : (tagFields tags).length = 2 * tags.length := by
  induction tags with
  | nil => rfl
  | cons a r ih =>
    simp only [tagFields, List.flatMap_cons, List.cons_append, List.nil_append, List.length_cons] at ih ⊢
    omega

theorem tagFields_ok (tags : AList Str Nat)
    (h : ∀ tc ∈ tags, tc.1 ≠ [] ∧ ∀ c ∈ tc.1, pyIsSpace c = false) :
    ∀ s ∈ tagFields tags, s ≠ [] ∧ ∀ c ∈ s, pyIsSpace c = false := by
  intro s hs
  simp only [tagFields, List.mem_flatMap, List.mem_cons, List.not_mem_nil, or_false] at hs
  obtain ⟨tc, htc, rfl | rfl⟩ := hs
  · exact h tc htc
  · exact ⟨natToStr_ne_nil _, natToStr_noSpace _⟩

/-- decoding step of `decLex` for one line -/
def lexStep (lex : Lexicon) (line : Str) : Option Lexicon :=
  match splitOnChar '\t' line with
  | [word, rest] =>
    let ws := splitWs rest
    if ws.length % 2 != 0 then none else
    (pairs ws).foldlM (fun l (tag, c) => (strToNat? c).map fun n => l.add word tag n) lex
  | _ => none

theorem decLex_eq (lines : List Str) : decLex lines = lines.foldlM lexStep [] := rfl

theorem foldlM_tagPairs (word : Str) (tags : AList Str Nat) (lex : Lexicon) :
    (tags.map fun tc => (tc.1, natToStr tc.2)).foldlM
        (fun l (x : Str × Str) => (strToNat? x.2).map fun n => Lexicon.add l word x.1 n) lex =
      some (tags.foldl (fun l tc => Lexicon.add l word tc.1 tc.2) lex) := by
  induction tags generalizing lex with
  | nil => rfl
  | cons a r ih =>
    simp only [List.map_cons, List.foldlM_cons, strToNat_natToStr, Option.map_some,
      Option.bind_eq_bind, Option.bind_some, List.foldl_cons]
    exact ih _

theorem lexStep_line (lex : Lexicon) (word : Str) (tags : AList Str Nat)
    (hw : ∀ c ∈ word, pyIsSpace c = false)
    (ht : ∀ tc ∈ tags, tc.1 ≠ [] ∧ ∀ c ∈ tc.1, pyIsSpace c = false) :
    lexStep lex (word ++ ['\t'] ++ unwords (tags.map fun (tag, c) => tag ++ sp ++ natToStr c)) =
      some (tags.foldl (fun l tc => Lexicon.add l word tc.1 tc.2) lex) := by
  have hf := tagFields_ok tags ht
  have e1 : unwords (tags.map fun (tag, c) => tag ++ sp ++ natToStr c) = unwords (tagFields tags) :=
    unwords_tagFields tags
  have hw' : '\t' ∉ word := fun hm => by have := hw _ hm; revert this; decide
  have hr' : '\t' ∉ unwords (tagFields tags) := by
    apply unwords_noChar _ (by decide)
    intro s hs hm
    have := (hf s hs).2 _ hm; revert this; decide
  unfold lexStep
  rw [e1, List.append_assoc, List.singleton_append, splitOnChar_one _ _ _ hw' hr']
  simp only [splitWs_unwords _ hf, length_tagFields, pairs_tagFields]
  have : (2 * tags.length % 2 != 0) = false := by simp
  rw [this]
  exact foldlM_tagPairs word tags lex

/-- rebuilding one dictionary entry -/
theorem foldl_add_entry (word : Str) (pre : Lexicon) (done tags : AList Str Nat)
    (hw : word ∉ pre.map (·.1)) (hnd : ((done ++ tags).map (·.1)).Nodup) :
    tags.foldl (fun l tc => Lexicon.add l word tc.1 tc.2) (pre ++ [(word, done)]) =
      pre ++ [(word, done ++ tags)] := by
  induction tags generalizing done with
  | nil => simp
  | cons a r ih =>
    have hnd' : (((done ++ [a]) ++ r).map (·.1)).Nodup := by simpa using hnd
    have ha : a.1 ∉ done.map (·.1) := by
      simp only [List.map_append, List.map_cons] at hnd
      have := (List.nodup_append.1 hnd).2.2
      intro hm
      exact this _ hm _ (by simp) rfl
    rw [List.foldl_cons]
    have : Lexicon.add (pre ++ [(word, done)]) word a.1 a.2 = pre ++ [(word, done ++ [a])] := by
      unfold Lexicon.add
      rw [upsert_last _ _ _ _ hw]
      simp only [Option.getD_some]
      rw [upsert_fresh _ _ _ ha]
      simp
    rw [this, ih (done ++ [a]) hnd']
    simp

theorem foldl_add_entry_fresh (word : Str) (pre : Lexicon) (tags : AList Str Nat)
    (hw : word ∉ pre.map (·.1)) (hne : tags ≠ []) (hnd : (tags.map (·.1)).Nodup) :
    tags.foldl (fun l tc => Lexicon.add l word tc.1 tc.2) pre = pre ++ [(word, tags)] := by
  cases tags with
  | nil => exact absurd rfl hne
  | cons a r =>
    rw [List.foldl_cons]
    have : Lexicon.add pre word a.1 a.2 = pre ++ [(word, [a])] := by
      unfold Lexicon.add
      rw [upsert_fresh _ _ _ hw]
      simp [AList.upsert]
    rw [this, foldl_add_entry word pre [a] r hw (by simpa using hnd)]
    simp

theorem foldl_add_lex (pre lex : Lexicon)
    (hnd : ((pre ++ lex).map (·.1)).Nodup)
    (hne : ∀ e ∈ lex, e.2 ≠ []) (hnd2 : ∀ e ∈ lex, (e.2.map (·.1)).Nodup) :
    lex.foldl (fun acc e => e.2.foldl (fun l tc => Lexicon.add l e.1 tc.1 tc.2) acc) pre = pre ++ lex := by
  induction lex generalizing pre with
  | nil => simp
  | cons e r ih =>
    have hw : e.1 ∉ pre.map (·.1) := by
      simp only [List.map_append, List.map_cons] at hnd
      have := (List.nodup_append.1 hnd).2.2
      intro hm
      exact this _ hm _ (by simp) rfl
    rw [List.foldl_cons, foldl_add_entry_fresh e.1 pre e.2 hw (hne e (by simp)) (hnd2 e (by simp))]
    rw [ih (pre ++ [(e.1, e.2)]) (by simpa using hnd) (fun x hx => hne x (by simp [hx]))
      (fun x hx => hnd2 x (by simp [hx]))]
    simp

theorem foldlM_lexLines (pre lex : Lexicon)
    (h : ∀ e ∈ lex, (∀ c ∈ e.1, pyIsSpace c = false) ∧
         ∀ tc ∈ e.2, tc.1 ≠ [] ∧ ∀ c ∈ tc.1, pyIsSpace c = false) :
    (lexLines lex).foldlM lexStep pre =
      some (lex.foldl (fun acc e => e.2.foldl (fun l tc => Lexicon.add l e.1 tc.1 tc.2) acc) pre) := by
  induction lex generalizing pre with
  | nil => rfl
  | cons e r ih =>
    obtain ⟨word, tags⟩ := e
    have h0 := h (word, tags) (by simp)
    have := lexStep_line pre word tags h0.1 h0.2
    simp only [lexLines, List.map_cons, List.foldlM_cons, List.foldl_cons] at this ⊢
    rw [this]
    exact ih _ (fun x hx => h x (by simp [hx]))

/-! ### LoPar files -/

theorem writeLopar_gram (g : Grammar) (lex : Lexicon) (files : LoparFiles) (h : writeLopar g lex = .ok files) :
    files.gram = g.rules.map fun (f, _, c) => natToStr c ++ sp ++ (f.head?.getD []) ++ sp ++ unwords (f.drop 1) := by
  unfold writeLopar at h
  split at h
  · cases h
  · simp only at h
    cases h
    rfl

theorem writeLopar_lex (g : Grammar) (lex : Lexicon) (files : LoparFiles) (h : writeLopar g lex = .ok files) :
    files.lex = lexLines lex := by
  unfold writeLopar at h
  split at h
  · cases h
  · simp only at h
    cases h
    rfl

theorem mapM_option_map {α β γ : Type} (l : List α) (w : α → β) (d : β → Option γ) (r : α → γ)
    (h : ∀ a ∈ l, d (w a) = some (r a)) : (l.map w).mapM d = some (l.map r) := by
  induction l with
  | nil => rfl
  | cons a t ih =>
    simp only [List.map_cons, List.mapM_cons, h a (by simp), ih (fun x hx => h x (by simp [hx]))]
    rfl

theorem mem_rules_func (g : Grammar) (r : Func × Lin × Nat) (h : r ∈ g.rules) : ∃ e ∈ g, e.1 = r.1 := by
  simp only [Grammar.rules, List.mem_flatMap, List.mem_map] at h
  obtain ⟨e, he, x, _, rfl⟩ := h
  exact ⟨e, he, rfl⟩

/-! ### PMCFG files: restatement of decoder and writer -/

abbrev SeqIds := AList (List (Int × Nat)) Nat

def varDec (v : Str) : Option (Int × Nat) :=
  match splitOnChar ':' v with
  | [a, b] => (match strToNat? a, strToNat? b with | some a, some b => some ((a : Int), b) | _, _ => none)
  | _ => none

def seqDec (t : List Str) : Option (Str × List (Int × Nat)) :=
  match t with
  | name :: arrow :: vars => if arrow == "->".toList then some (name, vars.filterMap varDec) else none
  | _ => none

def ruleDec (t : List Str) : Option (Str × List Str) :=
  match t with
  | name :: colon :: lhs :: arrow :: rhs => if colon == ":".toList && arrow == "<-".toList then some (name, lhs :: rhs) else none
  | _ => none

def linDec (name : Str) (t : List Str) : Option (List Str) :=
  match t with
  | n :: eq :: ids => if n == name && eq == "=".toList then some ids else none
  | _ => none

def cntDec (name : Str) (t : List Str) : Option Nat :=
  match t with
  | [n, c] => if n == name then strToNat? c else none
  | _ => none

def decToks (toks : List (List Str)) : Option (List (Func × Lin × Nat)) :=
  (toks.filterMap ruleDec).mapM fun (name, func) => do
    let linIds ← toks.findSome? (linDec name)
    let lin ← linIds.mapM fun i => (((toks.filterMap seqDec)).find? (·.1 == i)).map (·.2)
    let count ← toks.findSome? (cntDec name)
    pure (func, lin, count)

theorem decPmcfg_eq (lines : List Str) : decPmcfg lines = decToks (lines.map splitWs) := rfl

def linStep (a : SeqIds × List Str) (ld : List (Int × Nat)) : SeqIds × List Str :=
  match AList.get? ld a.1 with
  | some i => (a.1, a.2 ++ ["s".toList ++ natToStr i])
  | none => let i := a.1.length + 1
            (a.1 ++ [(ld, i)], a.2 ++ ["s".toList ++ natToStr i])

def ruleLines (fid : Nat) (r : Func × Lin × Nat) (names : List Str) : List Str :=
  let fn := "fun".toList ++ natToStr fid
  [sp ++ fn ++ sp ++ Gen.G_RULE ++ sp ++ (r.1.head?.getD []) ++ sp ++ Gen.G_RULEARROW ++ sp ++ unwords (r.1.drop 1),
   sp ++ fn ++ sp ++ Gen.G_LINEARIZATION ++ (names.map fun n => sp ++ n).flatten,
   sp ++ fn ++ sp ++ natToStr r.2.2]

def pmStep (acc : List Str × Nat × SeqIds) (r : Func × Lin × Nat) : List Str × Nat × SeqIds :=
  let st := r.2.1.foldl linStep (acc.2.2, [])
  (acc.1 ++ ruleLines acc.2.1 r st.2, acc.2.1 + 1, st.1)

def seqLine (p : List (Int × Nat) × Nat) : Str :=
  sp ++ "s".toList ++ natToStr p.2 ++ sp ++ Gen.G_SEQUENCE ++ sp ++ unwords (p.1.map fun (a, b) => intToS a ++ [':'] ++ natToStr b)

theorem writePmcfg_false (g : Grammar) (lex : Lexicon) :
    (writePmcfg false g lex).1 =
      (g.rules.foldl pmStep ([], 1, [])).1 ++ (g.rules.foldl pmStep ([], 1, [])).2.2.map seqLine := rfl

/-! writer side -/

theorem get?_append_of_isSome {κ ν : Type} [DecidableEq κ] (k : κ) (a b : AList κ ν)
    (h : (AList.get? k a).isSome) : AList.get? k (a ++ b) = AList.get? k a := by
  induction a with
  | nil => simp at h
  | cons x r ih =>
    simp only [List.cons_append, get?_cons] at h ⊢
    by_cases hx : x.1 = k
    · simp [hx]
    · simp only [hx, if_false] at h ⊢
      exact ih h

theorem get?_append_of_none {κ ν : Type} [DecidableEq κ] (k : κ) (a b : AList κ ν)
    (h : AList.get? k a = none) : AList.get? k (a ++ b) = AList.get? k b := by
  induction a with
  | nil => rfl
  | cons x r ih =>
    simp only [List.cons_append, get?_cons] at h ⊢
    by_cases hx : x.1 = k
    · simp [hx] at h
    · simp only [hx, if_false] at h ⊢
      exact ih h

theorem get?_some_mem {κ ν : Type} [DecidableEq κ] (k : κ) (v : ν) (a : AList κ ν)
    (h : AList.get? k a = some v) : (k, v) ∈ a := by
  induction a with
  | nil => simp at h
  | cons x r ih =>
    rw [get?_cons] at h
    by_cases hx : x.1 = k
    · simp only [hx, if_true, Option.some.injEq] at h
      simp [← hx, ← h]
    · simp only [hx, if_false] at h
      simp [ih h]

def sName (i : Nat) : Str := "s".toList ++ natToStr i
def fnName (i : Nat) : Str := "fun".toList ++ natToStr i
def nameIn (F : SeqIds) (ld : List (Int × Nat)) : Str := sName ((AList.get? ld F).getD 0)

def idStep (ids : SeqIds) (ld : List (Int × Nat)) : SeqIds :=
  if (AList.get? ld ids).isSome then ids else ids ++ [(ld, ids.length + 1)]

theorem linStep_fst (a : SeqIds × List Str) (ld : List (Int × Nat)) : (linStep a ld).1 = idStep a.1 ld := by
  unfold linStep idStep
  cases h : AList.get? ld a.1 <;> simp

theorem foldl_linStep_fst (lin : Lin) (a : SeqIds × List Str) :
    (lin.foldl linStep a).1 = lin.foldl idStep a.1 := by
  induction lin generalizing a with
  | nil => rfl
  | cons ld r ih => rw [List.foldl_cons, ih, linStep_fst, List.foldl_cons]

/-- the id table only grows, by keys taken from the linearization -/
theorem foldl_idStep_ext (lin : Lin) (ids : SeqIds) :
    ∃ ext, lin.foldl idStep ids = ids ++ ext ∧ ∀ p ∈ ext, p.1 ∈ lin := by
  induction lin generalizing ids with
  | nil => exact ⟨[], by simp, by simp⟩
  | cons ld r ih =>
    rw [List.foldl_cons]
    obtain ⟨ext, he, hk⟩ := ih (idStep ids ld)
    unfold idStep at he ⊢
    by_cases h : (AList.get? ld ids).isSome
    · simp only [h, if_true] at he ⊢
      exact ⟨ext, he, fun p hp => by simp [hk p hp]⟩
    · simp only [h] at he ⊢
      refine ⟨(ld, ids.length + 1) :: ext, by simpa using he, ?_⟩
      intro p hp
      simp only [List.mem_cons] at hp
      rcases hp with rfl | hp
      · simp
      · simp [hk p hp]

def WN (F : SeqIds) : Prop := F.map (·.2) = List.range' 1 F.length

theorem WN_idStep (ids : SeqIds) (ld : List (Int × Nat)) (h : WN ids) : WN (idStep ids ld) := by
  unfold idStep
  by_cases hs : (AList.get? ld ids).isSome
  · simpa [hs] using h
  · simp only [hs]
    unfold WN at h ⊢
    simp only [Bool.false_eq_true, if_false, List.map_append, h, List.map_cons, List.map_nil,
      List.length_append, List.length_cons, List.length_nil, List.range'_1_concat]
    simp [Nat.add_comm]

theorem WN_foldl_idStep (lin : Lin) (ids : SeqIds) (h : WN ids) : WN (lin.foldl idStep ids) := by
  induction lin generalizing ids with
  | nil => exact h
  | cons ld r ih => exact ih _ (WN_idStep ids ld h)

theorem foldl_idStep_isSome (lin : Lin) (ids : SeqIds) :
    ∀ ld ∈ lin, (AList.get? ld (lin.foldl idStep ids)).isSome := by
  induction lin generalizing ids with
  | nil => simp
  | cons a r ih =>
    intro ld hld
    rw [List.foldl_cons]
    simp only [List.mem_cons] at hld
    by_cases hr : ld ∈ r
    · exact ih _ ld hr
    · have hld : ld = a := by rcases hld with h | h; exact h; exact absurd h hr
      subst hld
      obtain ⟨ext, he, _⟩ := foldl_idStep_ext r (idStep ids ld)
      have : (AList.get? ld (idStep ids ld)).isSome := by
        unfold idStep
        by_cases hs : (AList.get? ld ids).isSome
        · simp [hs]
        · simp only [hs, Bool.false_eq_true, if_false]
          rw [get?_append_of_none _ _ _ (by simpa using hs)]
          simp [get?_cons]
      rw [he, get?_append_of_isSome _ _ _ this]
      exact this

theorem nameIn_ext (F ext : SeqIds) (ld : List (Int × Nat)) (h : (AList.get? ld F).isSome) :
    nameIn (F ++ ext) ld = nameIn F ld := by
  unfold nameIn
  rw [get?_append_of_isSome _ _ _ h]

/-- the names recorded for a linearization are the names in the table after it -/
theorem foldl_linStep_snd (lin : Lin) (ids : SeqIds) (names : List Str) :
    (lin.foldl linStep (ids, names)).2 = names ++ lin.map (nameIn (lin.foldl idStep ids)) := by
  induction lin generalizing ids names with
  | nil => simp
  | cons ld r ih =>
    rw [List.foldl_cons, List.foldl_cons]
    have hfst := linStep_fst (ids, names) ld
    have : linStep (ids, names) ld = (idStep ids ld, names ++ [nameIn (idStep ids ld) ld]) := by
      unfold linStep idStep nameIn sName
      cases h : AList.get? ld ids with
      | none =>
        simp only [Option.isSome_none, Bool.false_eq_true, if_false]
        rw [get?_append_of_none _ _ _ h]
        simp [get?_cons]
      | some i => simp [h]
    rw [this, ih]
    obtain ⟨ext, he, _⟩ := foldl_idStep_ext r (idStep ids ld)
    have hs : (AList.get? ld (idStep ids ld)).isSome := by
      have := foldl_idStep_isSome [ld] ids ld (by simp)
      simpa using this
    rw [List.map_cons, he, nameIn_ext _ _ _ hs]
    simp

abbrev Rule := Func × Lin × Nat

def idsOf (ids : SeqIds) : List Rule → SeqIds
  | [] => ids
  | r :: rs => idsOf (r.2.1.foldl idStep ids) rs

def linesOf (fid : Nat) (ids : SeqIds) : List Rule → List Str
  | [] => []
  | r :: rs => ruleLines fid r (r.2.1.map (nameIn (r.2.1.foldl idStep ids))) ++
      linesOf (fid + 1) (r.2.1.foldl idStep ids) rs

theorem foldl_pmStep (rs : List Rule) (lines : List Str) (fid : Nat) (ids : SeqIds) :
    rs.foldl pmStep (lines, fid, ids) = (lines ++ linesOf fid ids rs, fid + rs.length, idsOf ids rs) := by
  induction rs generalizing lines fid ids with
  | nil => simp [linesOf, idsOf]
  | cons r rs ih =>
    rw [List.foldl_cons]
    have : pmStep (lines, fid, ids) r =
        (lines ++ ruleLines fid r (r.2.1.map (nameIn (r.2.1.foldl idStep ids))), fid + 1, r.2.1.foldl idStep ids) := by
      unfold pmStep
      simp only [foldl_linStep_fst, foldl_linStep_snd, List.nil_append]
    rw [this, ih]
    simp only [linesOf, idsOf, List.append_assoc, List.length_cons]
    congr 2
    omega

theorem idsOf_ext (rs : List Rule) (ids : SeqIds) :
    ∃ ext, idsOf ids rs = ids ++ ext ∧ ∀ p ∈ ext, ∃ r ∈ rs, p.1 ∈ r.2.1 := by
  induction rs generalizing ids with
  | nil => exact ⟨[], by simp [idsOf], by simp⟩
  | cons r rs ih =>
    obtain ⟨e1, h1, k1⟩ := foldl_idStep_ext r.2.1 ids
    obtain ⟨e2, h2, k2⟩ := ih (r.2.1.foldl idStep ids)
    refine ⟨e1 ++ e2, by rw [idsOf, h2, h1, List.append_assoc], ?_⟩
    intro p hp
    rcases List.mem_append.1 hp with hp | hp
    · exact ⟨r, by simp, k1 p hp⟩
    · obtain ⟨r', hr', hm⟩ := k2 p hp
      exact ⟨r', by simp [hr'], hm⟩

theorem WN_idsOf (rs : List Rule) (ids : SeqIds) (h : WN ids) : WN (idsOf ids rs) := by
  induction rs generalizing ids with
  | nil => exact h
  | cons r rs ih => exact ih _ (WN_foldl_idStep r.2.1 ids h)

theorem idsOf_isSome (rs : List Rule) (ids : SeqIds) :
    ∀ r ∈ rs, ∀ ld ∈ r.2.1, (AList.get? ld (idsOf ids rs)).isSome := by
  induction rs generalizing ids with
  | nil => simp
  | cons a rs ih =>
    intro r hr ld hld
    simp only [List.mem_cons] at hr
    rcases hr with rfl | hr
    · obtain ⟨e, he, _⟩ := idsOf_ext rs (r.2.1.foldl idStep ids)
      have := foldl_idStep_isSome r.2.1 ids ld hld
      simp only [idsOf]
      rw [he, get?_append_of_isSome _ _ _ this]
      exact this
    · exact ih _ r hr ld hld

/-! tokens of the written lines -/

def OKw (s : Str) : Prop := s ≠ [] ∧ ∀ c ∈ s, pyIsSpace c = false

theorem OKw_natToStr (n : Nat) : OKw (natToStr n) := ⟨natToStr_ne_nil n, natToStr_noSpace n⟩

theorem OKw_append_left (a b : Str) (ha : OKw a) (hb : ∀ c ∈ b, pyIsSpace c = false) : OKw (a ++ b) := by
  refine ⟨by simp [ha.1], ?_⟩
  intro c hc
  rcases List.mem_append.1 hc with h | h
  · exact ha.2 c h
  · exact hb c h

theorem OKw_fnName (i : Nat) : OKw (fnName i) :=
  OKw_append_left _ _ (by unfold OKw; decide) (natToStr_noSpace i)

theorem OKw_sName (i : Nat) : OKw (sName i) :=
  OKw_append_left _ _ (by unfold OKw; decide) (natToStr_noSpace i)

theorem splitWs_word_sp_r (a rest : Str) (ha : OKw a) : splitWs (a ++ (sp ++ rest)) = a :: splitWs rest := by
  rw [← List.append_assoc]; exact splitWs_word_sp a rest ha

theorem splitWs_names (a : Str) (names : List Str) (ha : OKw a) (hn : ∀ n ∈ names, OKw n) :
    splitWs (a ++ (names.map fun n => sp ++ n).flatten) = a :: names := by
  induction names generalizing a with
  | nil => simpa using splitWs_word a ha
  | cons n ns ih =>
    simp only [List.map_cons, List.flatten_cons, List.append_assoc]
    rw [splitWs_word_sp_r a _ ha, ih n (hn n (by simp)) (fun m hm => hn m (by simp [hm]))]

def ruleToks (fid : Nat) (r : Rule) (names : List Str) : List (List Str) :=
  [fnName fid :: ":".toList :: (r.1.head?.getD []) :: "<-".toList :: r.1.drop 1,
   fnName fid :: "=".toList :: names,
   [fnName fid, natToStr r.2.2]]

theorem ruleLines_toks (fid : Nat) (r : Rule) (names : List Str)
    (hf : r.1 ≠ [] ∧ ∀ s ∈ r.1, OKw s) (hn : ∀ n ∈ names, OKw n) :
    (ruleLines fid r names).map splitWs = ruleToks fid r names := by
  obtain ⟨f, lin, c⟩ := r
  cases f with
  | nil => exact absurd rfl hf.1
  | cons a rest =>
    have ha : OKw a := hf.2 a (by simp)
    have hr : ∀ s ∈ rest, OKw s := fun s hs => hf.2 s (by simp [hs])
    have hfn := OKw_fnName fid
    have e1 : splitWs (sp ++ fnName fid ++ sp ++ Gen.G_RULE ++ sp ++ a ++ sp ++ Gen.G_RULEARROW ++ sp ++ unwords rest) =
        fnName fid :: ":".toList :: a :: "<-".toList :: rest := by
      simp only [List.append_assoc]
      rw [splitWs_sp, splitWs_word_sp_r _ _ hfn, splitWs_word_sp_r _ _ (by unfold OKw; decide),
        splitWs_word_sp_r _ _ ha, splitWs_word_sp_r _ _ (by unfold OKw; decide), splitWs_unwords rest hr]
      rfl
    have e2 : splitWs (sp ++ fnName fid ++ sp ++ Gen.G_LINEARIZATION ++ (names.map fun n => sp ++ n).flatten) =
        fnName fid :: "=".toList :: names := by
      simp only [List.append_assoc]
      rw [splitWs_sp, splitWs_word_sp_r _ _ hfn, splitWs_names _ _ (by unfold OKw; decide) hn]
      rfl
    have e3 : splitWs (sp ++ fnName fid ++ sp ++ natToStr c) = [fnName fid, natToStr c] := by
      simp only [List.append_assoc]
      rw [splitWs_sp, splitWs_word_sp_r _ _ hfn, splitWs_word _ (OKw_natToStr c)]
    simp only [ruleLines, ruleToks, List.map_cons, List.map_nil, List.head?_cons, Option.getD_some,
      List.drop_succ_cons, List.drop_zero]
    rw [← fnName, e1, e2, e3]

def toksF (F : SeqIds) (fid : Nat) (rs : List Rule) : List (List Str) :=
  (rs.zipIdx fid).flatMap fun x => ruleToks x.2 x.1 (x.1.2.1.map (nameIn F))

theorem linesOf_toks (rs : List Rule) (fid : Nat) (ids F : SeqIds) (hext : ∃ e, F = idsOf ids rs ++ e)
    (hl : ∀ r ∈ rs, r.1 ≠ [] ∧ ∀ s ∈ r.1, OKw s) :
    (linesOf fid ids rs).map splitWs = toksF F fid rs := by
  induction rs generalizing fid ids with
  | nil => rfl
  | cons r rs ih =>
    obtain ⟨e, he⟩ := hext
    obtain ⟨e1, he1, _⟩ := idsOf_ext rs (r.2.1.foldl idStep ids)
    have hnames : r.2.1.map (nameIn (r.2.1.foldl idStep ids)) = r.2.1.map (nameIn F) := by
      apply List.map_congr_left
      intro ld hld
      rw [he, idsOf, he1, List.append_assoc, nameIn_ext _ _ _ (foldl_idStep_isSome r.2.1 ids ld hld)]
    simp only [linesOf, toksF, List.zipIdx_cons, List.flatMap_cons, List.map_append]
    rw [hnames, ruleLines_toks fid r _ (hl r (by simp)) (by
      intro n hn
      obtain ⟨ld, _, rfl⟩ := List.mem_map.1 hn
      exact OKw_sName _)]
    rw [ih (fid + 1) (r.2.1.foldl idStep ids) ⟨e, he⟩ (fun x hx => hl x (by simp [hx]))]
    rfl

/-! sequence lines -/

theorem intToS_nonneg (a : Int) (h : 0 ≤ a) : intToS a = natToStr a.toNat := by
  cases a with
  | ofNat n => rfl
  | negSucc n => exact absurd h (by simp)

def varStr (v : Int × Nat) : Str := intToS v.1 ++ [':'] ++ natToStr v.2

def seqTok (p : List (Int × Nat) × Nat) : List Str := sName p.2 :: "->".toList :: p.1.map varStr

theorem natToStr_not_mem (c : Char) (hc : c.isDigit = false) (n : Nat) : c ∉ natToStr n := by
  intro hm
  have := natToStr_isDigit n c hm
  rw [hc] at this
  exact Bool.noConfusion this

theorem OKw_varStr (v : Int × Nat) (h : 0 ≤ v.1) : OKw (varStr v) := by
  unfold varStr
  rw [intToS_nonneg _ h, List.append_assoc]
  apply OKw_append_left _ _ (OKw_natToStr _)
  intro c hc
  simp only [List.singleton_append, List.mem_cons] at hc
  rcases hc with rfl | hc
  · decide
  · exact natToStr_noSpace _ c hc

theorem varDec_varStr (v : Int × Nat) (h : 0 ≤ v.1) : varDec (varStr v) = some v := by
  unfold varStr varDec
  rw [intToS_nonneg _ h, List.append_assoc, List.singleton_append,
    splitOnChar_one _ _ _ (natToStr_not_mem _ (by decide) _) (natToStr_not_mem _ (by decide) _)]
  simp only [strToNat_natToStr]
  obtain ⟨a, b⟩ := v
  simp only at h ⊢
  rw [Int.toNat_of_nonneg h]

theorem filterMap_varDec (ld : List (Int × Nat)) (h : ∀ v ∈ ld, 0 ≤ v.1) :
    (ld.map varStr).filterMap varDec = ld := by
  induction ld with
  | nil => rfl
  | cons v r ih =>
    rw [List.map_cons, List.filterMap_cons, varDec_varStr v (h v (by simp)), ih (fun x hx => h x (by simp [hx]))]

theorem seqLine_toks (p : List (Int × Nat) × Nat) (h : ∀ v ∈ p.1, 0 ≤ v.1) :
    splitWs (seqLine p) = seqTok p := by
  have e : (fun (x : Int × Nat) => match x with | (a, b) => intToS a ++ [':'] ++ natToStr b) = varStr := by
    funext ⟨a, b⟩; rfl
  unfold seqLine seqTok
  rw [e]
  simp only [List.append_assoc]
  rw [splitWs_sp, ← List.append_assoc, ← sName, splitWs_word_sp_r _ _ (OKw_sName _),
    splitWs_word_sp_r _ _ (by unfold OKw; decide), splitWs_unwords]
  · rfl
  · intro s hs
    obtain ⟨v, hv, rfl⟩ := List.mem_map.1 hs
    exact OKw_varStr v (h v hv)

/-! decoder on tokens -/

theorem natToStr_ne (s : Str) (h : ∃ c ∈ s, c.isDigit = false) (n : Nat) : natToStr n ≠ s := by
  obtain ⟨c, hc, hd⟩ := h
  intro e
  exact natToStr_not_mem c hd n (e ▸ hc)

theorem ruleDec_none (a b : Str) (rest : List Str) (hb : b ≠ ":".toList) : ruleDec (a :: b :: rest) = none := by
  have hb' : ¬ b = [':'] := hb
  rcases rest with _ | ⟨c, _ | ⟨d, e⟩⟩ <;> simp [ruleDec, hb']

theorem filterMap_ruleDec_ruleToks (k : Nat) (r : Rule) (names : List Str) (hf : r.1 ≠ []) :
    (ruleToks k r names).filterMap ruleDec = [(fnName k, r.1)] := by
  obtain ⟨f, lin, c⟩ := r
  cases f with
  | nil => exact absurd rfl hf
  | cons a rest =>
    simp only [ruleToks, List.head?_cons, Option.getD_some, List.drop_succ_cons, List.drop_zero]
    rw [List.filterMap_cons, List.filterMap_cons, List.filterMap_cons]
    rw [ruleDec_none (fnName k) "=".toList names (by decide),
      ruleDec_none (fnName k) (natToStr c) [] (natToStr_ne _ ⟨':', by decide, by decide⟩ c)]
    simp [ruleDec]

theorem ruleDec_seqTok (p : List (Int × Nat) × Nat) : ruleDec (seqTok p) = none :=
  ruleDec_none _ _ _ (by decide)

theorem seqDec_none (a b : Str) (rest : List Str) (hb : b ≠ "->".toList) : seqDec (a :: b :: rest) = none := by
  have hb' : ¬ b = ['-', '>'] := hb
  simp [seqDec, hb']

theorem filterMap_seqDec_ruleToks (k : Nat) (r : Rule) (names : List Str) :
    (ruleToks k r names).filterMap seqDec = [] := by
  simp only [ruleToks]
  rw [List.filterMap_cons, List.filterMap_cons, List.filterMap_cons]
  rw [seqDec_none _ _ _ (by decide), seqDec_none _ _ _ (by decide),
    seqDec_none _ _ _ (natToStr_ne _ ⟨'-', by decide, by decide⟩ _)]
  rfl

theorem seqDec_seqTok (p : List (Int × Nat) × Nat) (h : ∀ v ∈ p.1, 0 ≤ v.1) :
    seqDec (seqTok p) = some (sName p.2, p.1) := by
  simp [seqDec, seqTok, filterMap_varDec p.1 h]

theorem filterMap_flatMap_eq_map {α β γ : Type} (l : List α) (g : α → List β) (f : β → Option γ) (w : α → γ)
    (h : ∀ a ∈ l, (g a).filterMap f = [w a]) : (l.flatMap g).filterMap f = l.map w := by
  induction l with
  | nil => rfl
  | cons a r ih =>
    rw [List.flatMap_cons, List.filterMap_append, h a (by simp), ih (fun x hx => h x (by simp [hx]))]
    rfl

theorem filterMap_flatMap_eq_nil {α β γ : Type} (l : List α) (g : α → List β) (f : β → Option γ)
    (h : ∀ a ∈ l, (g a).filterMap f = []) : (l.flatMap g).filterMap f = [] := by
  induction l with
  | nil => rfl
  | cons a r ih =>
    rw [List.flatMap_cons, List.filterMap_append, h a (by simp), ih (fun x hx => h x (by simp [hx]))]
    rfl

theorem filterMap_map_eq_map {α β γ : Type} (l : List α) (g : α → β) (f : β → Option γ) (w : α → γ)
    (h : ∀ a ∈ l, f (g a) = some (w a)) : (l.map g).filterMap f = l.map w := by
  induction l with
  | nil => rfl
  | cons a r ih =>
    rw [List.map_cons, List.filterMap_cons, h a (by simp), ih (fun x hx => h x (by simp [hx]))]
    rfl

theorem filterMap_map_eq_nil {α β γ : Type} (l : List α) (g : α → β) (f : β → Option γ)
    (h : ∀ a ∈ l, f (g a) = none) : (l.map g).filterMap f = [] := by
  induction l with
  | nil => rfl
  | cons a r ih =>
    rw [List.map_cons, List.filterMap_cons, h a (by simp), ih (fun x hx => h x (by simp [hx]))]

/-- all tokens of a written file -/
def allToks (F : SeqIds) (rs : List Rule) : List (List Str) := toksF F 1 rs ++ F.map seqTok

theorem rules_allToks (F : SeqIds) (rs : List Rule) (hl : ∀ r ∈ rs, r.1 ≠ []) :
    (allToks F rs).filterMap ruleDec = (rs.zipIdx 1).map fun x => (fnName x.2, x.1.1) := by
  unfold allToks toksF
  rw [List.filterMap_append, filterMap_map_eq_nil _ _ _ (fun p _ => ruleDec_seqTok p), List.append_nil]
  apply filterMap_flatMap_eq_map
  intro x hx
  exact filterMap_ruleDec_ruleToks x.2 x.1 _ (hl x.1 (List.mem_zipIdx hx |>.2.2 ▸ List.getElem_mem _))

theorem seqs_allToks (F : SeqIds) (rs : List Rule) (h : ∀ p ∈ F, ∀ v ∈ p.1, 0 ≤ v.1) :
    (allToks F rs).filterMap seqDec = F.map fun p => (sName p.2, p.1) := by
  unfold allToks toksF
  rw [List.filterMap_append, filterMap_flatMap_eq_nil _ _ _ (fun x _ => filterMap_seqDec_ruleToks _ _ _),
    List.nil_append]
  exact filterMap_map_eq_map _ _ _ _ (fun p hp => seqDec_seqTok p (h p hp))

theorem findSome?_eq_of_forall {α β : Type} (f : α → Option β) (l : List α) (v : β)
    (h1 : ∀ t ∈ l, f t = none ∨ f t = some v) (h2 : ∃ t ∈ l, f t = some v) : l.findSome? f = some v := by
  induction l with
  | nil => obtain ⟨t, ht, _⟩ := h2; simp at ht
  | cons a r ih =>
    rw [List.findSome?_cons]
    rcases h1 a (by simp) with h | h
    · rw [h]
      apply ih (fun t ht => h1 t (by simp [ht]))
      obtain ⟨t, ht, hv⟩ := h2
      simp only [List.mem_cons] at ht
      rcases ht with rfl | ht
      · rw [h] at hv; cases hv
      · exact ⟨t, ht, hv⟩
    · rw [h]

theorem find?_eq_of_forall {α : Type} (p : α → Bool) (l : List α) (y : α)
    (h1 : ∀ x ∈ l, p x = true → x = y) (h2 : y ∈ l) (h3 : p y = true) : l.find? p = some y := by
  induction l with
  | nil => simp at h2
  | cons a r ih =>
    rw [List.find?_cons]
    cases hp : p a with
    | true => rw [h1 a (by simp) hp]
    | false =>
      simp only
      apply ih (fun x hx => h1 x (by simp [hx]))
      simp only [List.mem_cons] at h2
      rcases h2 with rfl | h2
      · rw [h3] at hp; exact Bool.noConfusion hp
      · exact h2

theorem fnName_inj {j k : Nat} (h : fnName j = fnName k) : j = k :=
  natToStr_inj (List.append_cancel_left h)

theorem sName_inj {j k : Nat} (h : sName j = sName k) : j = k :=
  natToStr_inj (List.append_cancel_left h)

theorem zipIdx_unique {α : Type} (l : List α) (s k : Nat) (a b : α) (ha : (a, k) ∈ l.zipIdx s) (hb : (b, k) ∈ l.zipIdx s) :
    a = b := by
  rw [List.mem_zipIdx_iff_le_and_getElem?_sub] at ha hb
  have := ha.2.symm.trans hb.2
  exact Option.some.inj this

theorem mem_toksF (F : SeqIds) (fid : Nat) (rs : List Rule) (t : List Str) (h : t ∈ toksF F fid rs) :
    ∃ x ∈ rs.zipIdx fid,
      t = fnName x.2 :: ":".toList :: (x.1.1.head?.getD []) :: "<-".toList :: x.1.1.drop 1 ∨
      t = fnName x.2 :: "=".toList :: x.1.2.1.map (nameIn F) ∨
      t = [fnName x.2, natToStr x.1.2.2] := by
  unfold toksF at h
  obtain ⟨x, hx, ht⟩ := List.mem_flatMap.1 h
  refine ⟨x, hx, ?_⟩
  simpa [ruleToks] using ht

theorem linDec_none (n a b : Str) (rest : List Str) (hb : b ≠ "=".toList) : linDec n (a :: b :: rest) = none := by
  have hb' : ¬ b = ['='] := hb
  simp [linDec, hb']

theorem linIds_allToks (F : SeqIds) (rs : List Rule) (r : Rule) (k : Nat) (hx : (r, k) ∈ rs.zipIdx 1) :
    (allToks F rs).findSome? (linDec (fnName k)) = some (r.2.1.map (nameIn F)) := by
  apply findSome?_eq_of_forall
  · intro t ht
    unfold allToks at ht
    rcases List.mem_append.1 ht with ht | ht
    · obtain ⟨x, hx', h | h | h⟩ := mem_toksF F 1 rs t ht
      · left; rw [h]; exact linDec_none _ _ _ _ (by decide)
      · by_cases hk : fnName x.2 = fnName k
        · right
          have : x.1 = r := zipIdx_unique rs 1 k _ _ (by rw [← fnName_inj hk]; exact hx') hx
          rw [h, ← this]
          simp [linDec, hk]
        · left; rw [h]; simp [linDec, hk]
      · left; rw [h]; exact linDec_none _ _ _ _ (natToStr_ne _ ⟨'=', by decide, by decide⟩ _)
    · obtain ⟨p, _, rfl⟩ := List.mem_map.1 ht
      left; exact linDec_none _ _ _ _ (by decide)
  · refine ⟨fnName k :: "=".toList :: r.2.1.map (nameIn F), ?_, by simp [linDec]⟩
    unfold allToks toksF
    apply List.mem_append_left
    exact List.mem_flatMap.2 ⟨(r, k), hx, by simp [ruleToks]⟩

theorem count_allToks (F : SeqIds) (rs : List Rule) (r : Rule) (k : Nat) (hx : (r, k) ∈ rs.zipIdx 1) :
    (allToks F rs).findSome? (cntDec (fnName k)) = some r.2.2 := by
  apply findSome?_eq_of_forall
  · intro t ht
    unfold allToks at ht
    rcases List.mem_append.1 ht with ht | ht
    · obtain ⟨x, hx', h | h | h⟩ := mem_toksF F 1 rs t ht
      · left; rw [h]; simp [cntDec]
      · left; rw [h]
        rcases x.1.2.1.map (nameIn F) with _ | ⟨a, b⟩
        · have : strToNat? ['='] = none := by decide
          simp [cntDec, this]
        · simp [cntDec]
      · by_cases hk : fnName x.2 = fnName k
        · right
          have : x.1 = r := zipIdx_unique rs 1 k _ _ (by rw [← fnName_inj hk]; exact hx') hx
          rw [h, ← this]
          simp [cntDec, hk, strToNat_natToStr]
        · left; rw [h]; simp [cntDec, hk]
    · obtain ⟨p, _, rfl⟩ := List.mem_map.1 ht
      left
      unfold seqTok
      rcases p.1.map varStr with _ | ⟨a, b⟩
      · have : strToNat? ['-', '>'] = none := by decide
        simp [cntDec, this]
      · simp [cntDec]
  · refine ⟨[fnName k, natToStr r.2.2], ?_, by simp [cntDec, strToNat_natToStr]⟩
    unfold allToks toksF
    apply List.mem_append_left
    exact List.mem_flatMap.2 ⟨(r, k), hx, by simp [ruleToks]⟩

theorem snd_inj_of_nodup {α β : Type} (l : List (α × β)) (h : (l.map (·.2)).Nodup) (p q : α × β)
    (hp : p ∈ l) (hq : q ∈ l) (e : p.2 = q.2) : p = q := by
  induction l with
  | nil => simp at hp
  | cons a r ih =>
    simp only [List.map_cons, List.nodup_cons] at h
    simp only [List.mem_cons] at hp hq
    rcases hp with rfl | hp <;> rcases hq with rfl | hq
    · rfl
    · exact absurd (e ▸ List.mem_map_of_mem hq) h.1
    · exact absurd (e ▸ List.mem_map_of_mem hp) h.1
    · exact ih h.2 hp hq

theorem lin_decode (F : SeqIds) (lin : Lin) (hnd : (F.map (·.2)).Nodup)
    (hs : ∀ ld ∈ lin, (AList.get? ld F).isSome) :
    (lin.map (nameIn F)).mapM (fun i => ((F.map fun p => (sName p.2, p.1)).find? (·.1 == i)).map (·.2)) = some lin := by
  have := mapM_option_map lin (nameIn F)
    (fun i => ((F.map fun p => (sName p.2, p.1)).find? (·.1 == i)).map (·.2)) id ?_
  · simpa using this
  · intro ld hld
    obtain ⟨i, hi⟩ := Option.isSome_iff_exists.1 (hs ld hld)
    have hmem := get?_some_mem ld i F hi
    have hname : nameIn F ld = sName i := by simp [nameIn, hi]
    rw [hname, find?_eq_of_forall _ _ (sName i, ld)]
    · rfl
    · intro x hx hpx
      obtain ⟨p, hp, rfl⟩ := List.mem_map.1 hx
      have : sName p.2 = sName i := by simpa using hpx
      have := snd_inj_of_nodup F hnd p (ld, i) hp hmem (sName_inj this)
      rw [this]
    · exact List.mem_map.2 ⟨(ld, i), hmem, rfl⟩
    · simp

theorem decToks_allToks (F : SeqIds) (rs : List Rule) (hl : ∀ r ∈ rs, r.1 ≠ [])
    (hnd : (F.map (·.2)).Nodup) (hs : ∀ r ∈ rs, ∀ ld ∈ r.2.1, (AList.get? ld F).isSome)
    (hpos : ∀ p ∈ F, ∀ v ∈ p.1, 0 ≤ v.1) :
    decToks (allToks F rs) = some rs := by
  unfold decToks
  rw [rules_allToks F rs hl, seqs_allToks F rs hpos]
  have := mapM_option_map (rs.zipIdx 1) (fun x => (fnName x.2, x.1.1))
    (fun (x : Str × List Str) => match x with
      | (name, func) => do
        let linIds ← (allToks F rs).findSome? (linDec name)
        let lin ← linIds.mapM fun i => ((F.map fun p => (sName p.2, p.1)).find? (·.1 == i)).map (·.2)
        let count ← (allToks F rs).findSome? (cntDec name)
        pure (func, lin, count)) (fun x => x.1) ?_
  · rw [List.zipIdx_map_fst] at this
    exact this
  · rintro ⟨r, k⟩ hx
    have hr : r ∈ rs := List.mem_zipIdx hx |>.2.2 ▸ List.getElem_mem _
    simp only [linIds_allToks F rs r k hx, count_allToks F rs r k hx, lin_decode F r.2.1 hnd (hs r hr),
      Option.bind_eq_bind, Option.bind_some]
    rfl

theorem nodup_of_WN (F : SeqIds) (h : WN F) : (F.map (·.2)).Nodup := by
  unfold WN at h
  rw [h]
  exact List.nodup_range'

theorem writePmcfg_lines (g : Grammar) (lex : Lexicon) :
    (writePmcfg false g lex).1 = linesOf 1 [] g.rules ++ (idsOf [] g.rules).map seqLine := by
  rw [writePmcfg_false, foldl_pmStep]
  rfl

theorem idsOf_nonneg (g : Grammar)
    (hpos : ∀ r ∈ g.rules, ∀ ld ∈ r.2.1, ∀ v ∈ ld, 0 ≤ v.1) :
    ∀ p ∈ idsOf [] g.rules, ∀ v ∈ p.1, 0 ≤ v.1 := by
  intro p hp
  obtain ⟨e, he, hk⟩ := idsOf_ext g.rules []
  rw [he, List.nil_append] at hp
  obtain ⟨r, hr, hm⟩ := hk p hp
  exact hpos r hr p.1 hm

theorem writePmcfg_toks (g : Grammar) (lex : Lexicon)
    (hl : ∀ r ∈ g.rules, r.1 ≠ [] ∧ ∀ s ∈ r.1, OKw s)
    (hF : ∀ p ∈ idsOf [] g.rules, ∀ v ∈ p.1, 0 ≤ v.1) :
    (writePmcfg false g lex).1.map splitWs = allToks (idsOf [] g.rules) g.rules := by
  rw [writePmcfg_lines g lex, List.map_append, List.map_map]
  rw [linesOf_toks g.rules 1 [] (idsOf [] g.rules) ⟨[], (List.append_nil _).symm⟩ hl]
  have h1 : ∀ p ∈ idsOf [] g.rules, (splitWs ∘ seqLine) p = seqTok p := by
    intro p hp
    rw [Function.comp_apply]
    exact seqLine_toks p (hF p hp)
  have : List.map (splitWs ∘ seqLine) (idsOf [] g.rules) = (idsOf [] g.rules).map seqTok :=
    List.map_congr_left h1
  rw [this, allToks]

/-- PMCFG round trip, hypotheses on the rule list -/
theorem decPmcfg_writePmcfg (g : Grammar) (lex : Lexicon)
    (hl : ∀ r ∈ g.rules, r.1 ≠ [] ∧ ∀ s ∈ r.1, OKw s)
    (hpos : ∀ r ∈ g.rules, ∀ ld ∈ r.2.1, ∀ v ∈ ld, 0 ≤ v.1) :
    decPmcfg (writePmcfg false g lex).1 = some g.rules := by
  have h2 := idsOf_nonneg g hpos
  rw [decPmcfg_eq, writePmcfg_toks g lex hl h2]
  exact decToks_allToks _ _ (fun r hr => (hl r hr).1) (nodup_of_WN _ (WN_idsOf _ _ rfl))
    (idsOf_isSome g.rules []) h2

theorem mem_rules (g : Grammar) (r : Func × Lin × Nat) (h : r ∈ g.rules) :
    ∃ e ∈ g, ∃ le ∈ e.2, r.1 = e.1 ∧ r.2.1 = le.1 := by
  simp only [Grammar.rules, List.mem_flatMap, List.mem_map] at h
  obtain ⟨e, he, x, hx, rfl⟩ := h
  exact ⟨e, he, x, hx, rfl, rfl⟩

end TT.Lemmas.GramOut
