/-
  Helper definitions and lemmas for C07/C08 (grammar binarization).  Core only.
-/
import TT.Spec.Grammar
import Std.Data.String.ToNat
namespace TT.Lemmas.GramBin
open TT TT.Spec

/-- balance of a symbol: LHS mass minus count-weighted RHS occurrences -/
def net (g : Grammar) (x : Str) : Int := (lhsMass g x : Int) - (rhsMass g x : Int)

/-! ### how `Grammar.add` changes the masses -/

/-- summed count of one vertical-context table -/
def vsum (vs : AList VertKey Nat) : Nat := (vs.map (·.2)).sum
/-- summed count of all linearizations of one function -/
def lsum (ls : AList Lin (AList VertKey Nat)) : Nat := (ls.map fun p => vsum p.2).sum
/-- weighted mass of a grammar -/
def wmass (w : Func → Nat) (g : Grammar) : Nat := (g.map fun p => w p.1 * lsum p.2).sum

theorem vsum_upsert (v : VertKey) (n : Nat) (vs : AList VertKey Nat) :
    vsum (AList.upsert v (fun o => o.getD 0 + n) vs) = vsum vs + n := by
  induction vs with
  | nil => simp [AList.upsert, vsum]
  | cons a r ih =>
    obtain ⟨k, c⟩ := a
    simp only [AList.upsert]
    split
    · simp [vsum]; omega
    · simp only [vsum, List.map_cons, List.sum_cons] at ih ⊢; omega

theorem lsum_upsert (l : Lin) (v : VertKey) (n : Nat) (ls : AList Lin (AList VertKey Nat)) :
    lsum (AList.upsert l (fun o2 => AList.upsert v (fun o3 => o3.getD 0 + n) (o2.getD [])) ls) = lsum ls + n := by
  induction ls with
  | nil => simp [AList.upsert, lsum, vsum]
  | cons a r ih =>
    obtain ⟨k, c⟩ := a
    simp only [AList.upsert]
    split
    · simp only [lsum, List.map_cons, List.sum_cons, Option.getD_some, vsum_upsert]; omega
    · simp only [lsum, List.map_cons, List.sum_cons] at ih ⊢; omega

theorem wmass_add (w : Func → Nat) (g : Grammar) (f : Func) (l : Lin) (v : VertKey) (n : Nat) :
    wmass w (g.add f l v n) = wmass w g + w f * n := by
  unfold Grammar.add
  induction g with
  | nil => simp [AList.upsert, wmass, lsum, vsum]
  | cons a r ih =>
    obtain ⟨k, c⟩ := a
    simp only [AList.upsert]
    split
    · rename_i h; subst h
      simp only [wmass, List.map_cons, List.sum_cons, Option.getD_some, lsum_upsert, Nat.mul_add]; omega
    · simp only [wmass, List.map_cons, List.sum_cons] at ih ⊢; omega

theorem rules_cons (f : Func) (ls : AList Lin (AList VertKey Nat)) (g : Grammar) :
    Grammar.rules ((f, ls) :: g) = (ls.map fun p => (f, p.1, vsum p.2)) ++ Grammar.rules g := by
  simp [Grammar.rules, vsum]

theorem lhsMass_eq_wmass (g : Grammar) (x : Str) :
    lhsMass g x = wmass (fun f => if f.head? = some x then 1 else 0) g := by
  unfold lhsMass
  induction g with
  | nil => simp [Grammar.rules, wmass]
  | cons a r ih =>
    obtain ⟨f, ls⟩ := a
    rw [rules_cons, List.filter_append, List.map_append, List.sum_append, ih]
    simp only [wmass, List.map_cons, List.sum_cons]
    congr 1
    by_cases h : f.head? = some x
    · have e : ∀ l : List (Lin × AList VertKey Nat), l.filter (fun _ => true) = l := by
        intro l; induction l <;> simp_all
      simp [h, lsum, List.filter_map, Function.comp_def, e]
    · have : (f.head? == some x) = false := by simpa using h
      have e : ∀ l : List (Lin × AList VertKey Nat), l.filter (fun _ => false) = [] := by
        intro l; induction l <;> simp_all
      simp [h, List.filter_map, Function.comp_def, this, e]

theorem rhsMass_eq_wmass (g : Grammar) (x : Str) :
    rhsMass g x = wmass (fun f => (f.drop 1).count x) g := by
  unfold rhsMass
  induction g with
  | nil => simp [Grammar.rules, wmass]
  | cons a r ih =>
    obtain ⟨f, ls⟩ := a
    rw [rules_cons, List.map_append, List.sum_append, ih]
    simp only [wmass, List.map_cons, List.sum_cons]
    congr 1
    simp only [List.map_map, Function.comp_def, lsum]
    generalize List.count x (List.drop 1 f) = k
    induction ls with
    | nil => simp
    | cons b bs ih2 => simp only [List.map_cons, List.sum_cons, ih2, Nat.mul_add]; rw [Nat.mul_comm]

theorem lhsMass_add (g : Grammar) (f : Func) (l : Lin) (v : VertKey) (n : Nat) (x : Str) :
    lhsMass (g.add f l v n) x = lhsMass g x + (if f.head? = some x then n else 0) := by
  rw [lhsMass_eq_wmass, lhsMass_eq_wmass, wmass_add]
  split <;> simp

theorem rhsMass_add (g : Grammar) (f : Func) (l : Lin) (v : VertKey) (n : Nat) (x : Str) :
    rhsMass (g.add f l v n) x = rhsMass g x + n * (f.drop 1).count x := by
  rw [rhsMass_eq_wmass, rhsMass_eq_wmass, wmass_add, Nat.mul_comm]

theorem net_add (g : Grammar) (f : Func) (l : Lin) (v : VertKey) (n : Nat) (x : Str) :
    net (g.add f l v n) x =
      net g x + (if f.head? = some x then (n : Int) else 0) - (n : Int) * ((f.drop 1).count x : Int) := by
  unfold net
  rw [lhsMass_add, rhsMass_add]
  split <;> simp <;> omega

/-! ### keys of `Grammar.add` -/

theorem upsert_keys {κ ν} [DecidableEq κ] (P : κ → Prop) (k : κ) (F : Option ν → ν) (g : AList κ ν)
    (hg : ∀ e ∈ g, P e.1) (hk : P k) : ∀ e ∈ AList.upsert k F g, P e.1 := by
  induction g with
  | nil => simpa [AList.upsert] using hk
  | cons a r ih =>
    obtain ⟨a, v⟩ := a
    simp only [AList.upsert]
    split
    · intro e he
      simp only [List.mem_cons] at he
      rcases he with rfl | he
      · exact hg (a, v) (by simp)
      · exact hg e (by simp [he])
    · intro e he
      simp only [List.mem_cons] at he
      rcases he with rfl | he
      · exact hg (a, v) (by simp)
      · exact ih (fun e he => hg e (by simp [he])) e he

theorem add_keys (P : Func → Prop) (g : Grammar) (f : Func) (l : Lin) (v : VertKey) (n : Nat)
    (hg : ∀ e ∈ g, P e.1) (hk : P f) : ∀ e ∈ g.add f l v n, P e.1 :=
  upsert_keys P f _ g hg hk

/-! ### labels -/

theorem nextLabel_head (mo : Option MarkovOpts) (st : GenState) (func : Func) (pos : Nat) (vert : List Str)
    (fo : List Nat) : (nextLabel mo st func pos vert fo).1.head? = some '@' := by
  cases mo with
  | none => simp [nextLabel, uniqueLabel, Gen.G_DEFAULT_BINLABEL]
  | some o => simp [nextLabel, markovLabel, Gen.G_DEFAULT_BINLABEL]

theorem natToStr_injective {a b : Nat} (h : natToStr a = natToStr b) : a = b := by
  unfold natToStr at h
  have h2 : toString a = toString b := String.ext h
  exact Nat.repr_injective h2

/-! ### `binMid` -/

theorem binMid_zero (mo : Option MarkovOpts) (func : Func) (vert : List Str) (fanout : List Nat) (cnt : Nat)
    (i : Nat) (bl : Str) (tl : Lin) (st : GenState) (res : Grammar) :
    binMid mo func vert fanout cnt i 0 bl tl st res = (bl, tl, st, res) := rfl

theorem binMid_succ (mo : Option MarkovOpts) (func : Func) (vert : List Str) (fanout : List Nat) (cnt : Nat)
    (i k : Nat) (bl : Str) (tl : Lin) (st : GenState) (res : Grammar) :
    binMid mo func vert fanout cnt i (k + 1) bl tl st res =
      binMid mo func vert fanout cnt (i + 1) k (nextLabel mo st func i vert fanout).1 (restLin tl)
        (nextLabel mo st func i vert fanout).2
        (res.add [bl, func[i + 1]?.getD [], (nextLabel mo st func i vert fanout).1] (topLin (restLin tl))
          .default cnt) := rfl

theorem binMid_rank (mo : Option MarkovOpts) (func : Func) (vert : List Str) (fanout : List Nat) (cnt : Nat)
    (steps : Nat) : ∀ (i : Nat) (bl : Str) (tl : Lin) (st : GenState) (res : Grammar),
    (∀ e ∈ res, e.1.length ≤ 3) →
    ∀ e ∈ (binMid mo func vert fanout cnt i steps bl tl st res).2.2.2, e.1.length ≤ 3 := by
  induction steps with
  | zero => intro i bl tl st res h; simpa [binMid] using h
  | succ k ih =>
    intro i bl tl st res h
    simp only [binMid]
    exact ih _ _ _ _ _ (add_keys (fun f => f.length ≤ 3) _ _ _ _ _ h (by simp))

theorem binMid_label (mo : Option MarkovOpts) (func : Func) (vert : List Str) (fanout : List Nat) (cnt : Nat)
    (steps : Nat) : ∀ (i : Nat) (bl : Str) (tl : Lin) (st : GenState) (res : Grammar),
    bl.head? = some '@' →
    (binMid mo func vert fanout cnt i steps bl tl st res).1.head? = some '@' := by
  induction steps with
  | zero => intro i bl tl st res h; simpa [binMid] using h
  | succ k ih =>
    intro i bl tl st res h
    simp only [binMid]
    exact ih _ _ _ _ _ (nextLabel_head ..)

theorem binMid_lhsMass (mo : Option MarkovOpts) (func : Func) (vert : List Str) (fanout : List Nat) (cnt : Nat)
    (x : Str) (hx : x.head? ≠ some '@')
    (steps : Nat) : ∀ (i : Nat) (bl : Str) (tl : Lin) (st : GenState) (res : Grammar),
    bl.head? = some '@' →
    lhsMass (binMid mo func vert fanout cnt i steps bl tl st res).2.2.2 x = lhsMass res x := by
  induction steps with
  | zero => intro i bl tl st res h; simp [binMid]
  | succ k ih =>
    intro i bl tl st res h
    simp only [binMid]
    rw [ih _ _ _ _ _ (nextLabel_head ..), lhsMass_add]
    have : bl ≠ x := by rintro rfl; exact hx h
    simp [this]

/-- the RHS symbols consumed by `steps` iterations starting at position `i` -/
def midSyms (func : Func) (i steps : Nat) : List Str := (List.range steps).map fun k => func[i + 1 + k]?.getD []

theorem midSyms_succ (func : Func) (i k : Nat) :
    midSyms func i (k + 1) = (func[i + 1]?.getD []) :: midSyms func (i + 1) k := by
  simp only [midSyms, List.range_succ_eq_map, List.map_cons, List.map_map, Nat.add_zero]
  congr 1
  apply List.map_congr_left
  intro a _
  simp only [Function.comp]
  congr 2
  omega

theorem binMid_net (mo : Option MarkovOpts) (func : Func) (vert : List Str) (fanout : List Nat) (cnt : Nat)
    (x : Str)
    (steps : Nat) : ∀ (i : Nat) (bl : Str) (tl : Lin) (st : GenState) (res : Grammar),
    net (binMid mo func vert fanout cnt i steps bl tl st res).2.2.2 x
      + (if (binMid mo func vert fanout cnt i steps bl tl st res).1 = x then (cnt : Int) else 0) =
      net res x + (if bl = x then (cnt : Int) else 0) - (cnt : Int) * ((midSyms func i steps).count x : Int) := by
  induction steps with
  | zero => intro i bl tl st res; rw [binMid_zero]; simp [midSyms]
  | succ k ih =>
    intro i bl tl st res
    rw [binMid_succ, ih, net_add, midSyms_succ]
    simp only [List.head?_cons, Option.some.injEq, List.drop_succ_cons, List.drop_zero, List.count_cons,
      List.count_nil, beq_iff_eq]
    generalize (nextLabel mo st func i vert fanout).1 = nl
    generalize List.count x (midSyms func (i + 1) k) = m
    generalize net res x = r
    generalize (cnt : Int) = c
    by_cases h1 : nl = x <;> by_cases h2 : func[i + 1]?.getD [] = x <;> simp [h1, h2, Int.mul_add, Int.natCast_add] <;> omega

/-! ### `binarizeRule` -/

theorem binarizeRule_small (mo : Option MarkovOpts) (func : Func) (lin : Lin) (cnt : Nat) (vert : List Str)
    (st : GenState) (res : Grammar) (h : func.length ≤ 3) :
    binarizeRule mo func lin cnt vert st res = (st, res.add func lin .default cnt) := by
  unfold binarizeRule; rw [if_pos h]

/-- the state of `binarizeRule` after the loop -/
def midOf (mo : Option MarkovOpts) (func : Func) (lin : Lin) (cnt : Nat) (vert : List Str)
    (st : GenState) (res : Grammar) : Str × Lin × GenState × Grammar :=
  binMid mo func vert (fanOut lin) cnt 1 (func.length - 4) (nextLabel mo st func 0 vert (fanOut lin)).1 lin
    (nextLabel mo st func 0 vert (fanOut lin)).2
    (res.add [func[0]?.getD [], func[1]?.getD [], (nextLabel mo st func 0 vert (fanOut lin)).1] (topLin lin) .default cnt)

theorem binarizeRule_large (mo : Option MarkovOpts) (func : Func) (lin : Lin) (cnt : Nat) (vert : List Str)
    (st : GenState) (res : Grammar) (h : ¬ func.length ≤ 3) :
    binarizeRule mo func lin cnt vert st res =
      ((midOf mo func lin cnt vert st res).2.2.1,
       (midOf mo func lin cnt vert st res).2.2.2.add
         [(midOf mo func lin cnt vert st res).1, func[func.length - 2]?.getD [], func[func.length - 1]?.getD []]
         (restLin (midOf mo func lin cnt vert st res).2.1) .default cnt) := by
  unfold binarizeRule; rw [if_neg h]; rfl

theorem func_drop_one (func : Func) (h : ¬ func.length ≤ 3) :
    func.drop 1 = (func[1]?.getD []) :: (midSyms func 1 (func.length - 4) ++
      [func[func.length - 2]?.getD [], func[func.length - 1]?.getD []]) := by
  apply List.ext_getElem
  · simp [midSyms]; omega
  · intro n h1 h2
    simp only [List.length_drop] at h1
    rcases n with _ | n
    · simp [List.getElem?_eq_getElem (show 1 < func.length by omega)]
    · simp only [List.getElem_cons_succ, List.getElem_drop]
      by_cases hn : n < func.length - 4
      · rw [List.getElem_append_left (by simpa [midSyms] using hn)]
        simp only [midSyms, List.getElem_map, List.getElem_range]
        rw [List.getElem?_eq_getElem (by omega)]
        simp only [Option.getD_some]
        congr 1; omega
      · rw [List.getElem_append_right (by simpa [midSyms] using hn)]
        simp only [midSyms, List.length_map, List.length_range]
        have : n - (func.length - 4) = 0 ∨ n - (func.length - 4) = 1 := by omega
        rcases this with e | e
        · simp only [e, List.getElem_cons_zero]
          rw [List.getElem?_eq_getElem (by omega)]
          simp only [Option.getD_some]
          congr 1; omega
        · simp only [e, List.getElem_cons_succ, List.getElem_cons_zero]
          rw [List.getElem?_eq_getElem (by omega)]
          simp only [Option.getD_some]
          congr 1; omega

theorem binarizeRule_rank (mo : Option MarkovOpts) (func : Func) (lin : Lin) (cnt : Nat) (vert : List Str)
    (st : GenState) (res : Grammar) (h : ∀ e ∈ res, e.1.length ≤ 3) :
    ∀ e ∈ (binarizeRule mo func lin cnt vert st res).2, e.1.length ≤ 3 := by
  by_cases h3 : func.length ≤ 3
  · rw [binarizeRule_small _ _ _ _ _ _ _ h3]
    exact add_keys (fun f => f.length ≤ 3) _ _ _ _ _ h h3
  · rw [binarizeRule_large _ _ _ _ _ _ _ h3]
    refine add_keys (fun f => f.length ≤ 3) _ _ _ _ _ ?_ (by simp)
    exact binMid_rank _ _ _ _ _ _ _ _ _ _ _ (add_keys (fun f => f.length ≤ 3) _ _ _ _ _ h (by simp))

/-! ### reordering -/

theorem pickWinner_mem (lin : Lin) : ∀ (ps : List Nat) (fmin w : Nat),
    pickWinner lin ps fmin w = w ∨ pickWinner lin ps fmin w ∈ ps
  | [], _, _ => by simp [pickWinner]
  | p :: ps, fmin, w => by
    simp only [pickWinner]
    split
    · rcases pickWinner_mem lin ps (linsub lin (fun x => x == (p : Int) - 1) (fun _ => .split) false).length p with h | h
      · rw [h]; simp
      · simp [h]
    · rcases pickWinner_mem lin ps fmin w with h | h
      · simp [h]
      · simp [h]

theorem perm_cons_filter_ne : ∀ (pos : List Nat) (w : Nat), pos.Nodup → w ∈ pos →
    (w :: pos.filter (· != w)).Perm pos
  | [], _, _, h => by simp at h
  | p :: ps, w, hn, hw => by
    rw [List.nodup_cons] at hn
    by_cases e : p = w
    · subst e
      have : ps.filter (· != p) = ps := by
        rw [List.filter_eq_self]
        intro a ha
        have : a ≠ p := by rintro rfl; exact hn.1 ha
        simpa using this
      simp [this]
    · have hw' : w ∈ ps := by
        rcases List.mem_cons.1 hw with h | h
        · exact absurd h.symm e
        · exact h
      have : (p != w) = true := by simpa using e
      rw [List.filter_cons_of_pos (p := fun x => x != w) this]
      exact (List.Perm.swap p w _).trans (List.Perm.cons p (perm_cons_filter_ne ps w hn.2 hw'))

theorem pickOrder_perm_aux (lin : Lin) : ∀ (fuel : Nat) (pos : List Nat), pos.Nodup → pos.length = fuel →
    (pickOrder lin pos fuel).Perm pos
  | 0, pos, _, hl => by
    have : pos = [] := List.eq_nil_of_length_eq_zero hl
    subst this; simp [pickOrder]
  | fuel + 1, [], _, hl => by simp at hl
  | fuel + 1, p0 :: ps, hn, hl => by
    simp only [pickOrder]
    have hw : pickWinner lin (p0 :: ps) 100000 p0 ∈ p0 :: ps := by
      rcases pickWinner_mem lin (p0 :: ps) 100000 p0 with h | h
      · rw [h]; simp
      · exact h
    generalize pickWinner lin (p0 :: ps) 100000 p0 = w at hw
    have hp := perm_cons_filter_ne (p0 :: ps) w hn hw
    have hlen : ((p0 :: ps).filter (· != w)).length = fuel := by
      have := hp.length_eq
      simp only [List.length_cons] at this hl
      omega
    exact (List.Perm.cons w (pickOrder_perm_aux lin fuel _ (hn.filter _) hlen)).trans hp

theorem drop_one_eq_map (func : Func) :
    func.drop 1 = ((List.range (func.length - 1)).map (· + 1)).map fun o => func[o]?.getD [] := by
  apply List.ext_getElem
  · simp
  · intro n h1 h2
    simp only [List.length_drop] at h1
    simp [List.getElem?_eq_getElem (show n + 1 < func.length by omega)]

theorem nodup_range_succ (k : Nat) : ((List.range k).map (· + 1)).Nodup := by
  rw [List.nodup_iff_pairwise_ne]
  rw [List.pairwise_map]
  exact List.Pairwise.imp (by intro a b h; omega) (List.nodup_iff_pairwise_ne.1 List.nodup_range)

theorem reorderingOptimal_fst (func : Func) (lin : Lin) :
    (reorderingOptimal func lin).1 = (func[0]?.getD []) ::
      (pickOrder lin ((List.range (func.length - 1)).map (· + 1)) (func.length - 1)).map fun o => func[o]?.getD [] := rfl

theorem reorder_head (r : Reordering) (func : Func) (lin : Lin) (h : func ≠ []) :
    (reorder r func lin).1.head? = func.head? ∧ (reorder r func lin).1 ≠ [] := by
  cases r <;> simp only [reorder, ne_eq, h, not_false_eq_true, and_self]
  rw [reorderingOptimal_fst]
  cases func with
  | nil => exact absurd rfl h
  | cons a r => simp

/-! ### the driver -/

theorem foldl_inv {α ε} (P : α → Prop) (step : α → ε → α) (es : List ε)
    (hstep : ∀ acc e, e ∈ es → P acc → P (step acc e)) : ∀ init, P init → P (es.foldl step init) := by
  induction es with
  | nil => intro init h; simpa using h
  | cons e es ih =>
    intro init h
    simp only [List.foldl_cons]
    exact ih (fun acc e he => hstep acc e (by simp [he])) _ (hstep init e (by simp) h)

theorem foldl_sum {α ε} (m : α → Nat) (W : ε → Nat) (step : α → ε → α) (es : List ε)
    (hstep : ∀ acc e, e ∈ es → m (step acc e) = m acc + W e) :
    ∀ init, m (es.foldl step init) = m init + (es.map W).sum := by
  induction es with
  | nil => intro init; simp
  | cons e es ih =>
    intro init
    simp only [List.foldl_cons, List.map_cons, List.sum_cons]
    rw [ih (fun acc e he => hstep acc e (by simp [he])), hstep init e (by simp)]
    omega

theorem sum_filter_map {α} (p : α → Bool) (f : α → Nat) (l : List α) :
    ((l.filter p).map f).sum = (l.map fun a => if p a then f a else 0).sum := by
  induction l with
  | nil => simp
  | cons a r ih =>
    by_cases h : p a <;> simp [h, ih]

theorem lhsMass_eq_rules_sum (g : Grammar) (x : Str) :
    lhsMass g x = (g.rules.map fun e => if e.1.head? = some x then e.2.2 else 0).sum := by
  unfold lhsMass
  rw [sum_filter_map]
  congr 1
  apply List.map_congr_left
  intro a _
  obtain ⟨f, l, c⟩ := a
  simp

theorem entries_cons (f : Func) (ls : AList Lin (AList VertKey Nat)) (g : Grammar) :
    Grammar.entries ((f, ls) :: g) =
      (ls.flatMap fun p => p.2.map fun q => (f, p.1, q.1, q.2)) ++ Grammar.entries g := by
  simp [Grammar.entries]

theorem lhsMass_eq_entries_sum (g : Grammar) (x : Str) :
    lhsMass g x = (g.entries.map fun e => if e.1.head? = some x then e.2.2.2 else 0).sum := by
  rw [lhsMass_eq_wmass]
  induction g with
  | nil => simp [Grammar.entries, wmass]
  | cons a r ih =>
    obtain ⟨f, ls⟩ := a
    rw [entries_cons, List.map_append, List.sum_append, ← ih]
    simp only [wmass, List.map_cons, List.sum_cons]
    congr 1
    induction ls with
    | nil => simp [lsum]
    | cons b bs ih2 =>
      obtain ⟨l, vs⟩ := b
      simp only [List.flatMap_cons, List.map_append, List.sum_append, ← ih2, lsum, List.map_cons, List.sum_cons,
        Nat.mul_add]
      congr 1
      simp only [vsum]
      induction vs with
      | nil => simp
      | cons c cs ih3 =>
        simp only [List.map_cons, List.sum_cons, Nat.mul_add, ih3]
        congr 1
        split <;> simp

theorem rules_func_mem (g : Grammar) : ∀ e ∈ g.rules, ∃ p ∈ g, p.1 = e.1 := by
  intro e he
  simp only [Grammar.rules, List.mem_flatMap, List.mem_map] at he
  obtain ⟨p, hp, q, _, rfl⟩ := he
  exact ⟨p, hp, rfl⟩

theorem entries_func_mem (g : Grammar) : ∀ e ∈ g.entries, ∃ p ∈ g, p.1 = e.1 := by
  intro e he
  simp only [Grammar.entries, List.mem_flatMap, List.mem_map] at he
  obtain ⟨p, hp, q, _, r, _, rfl⟩ := he
  exact ⟨p, hp, rfl⟩

end TT.Lemmas.GramBin
